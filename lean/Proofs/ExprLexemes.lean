import Proofs.ExprLexLemmas
/-!
# The lexemes of the expression language and when they stay apart (helper lemmas for `Proofs/C08Source.lean`)

`Lexeme r l`: the byte string `l` is one complete lexeme of rule `r` (a grammar of the lexemes, mirroring
the ragel definitions). `fits r l rest`: the exact condition on what follows for the scanner to cut `l` off
as a token of rule `r` (the longest-match rule makes `ab` one identifier, `a:` a keyword, `1.5` a float, …).
`lexStep_lexeme`: then the scanner's decision at `l ++ rest` is rule `r` on exactly `l`.
-/

set_option linter.unusedSimpArgs false

/-! ## `spanLen` -/

theorem spanLen_le (p : UInt8 → Bool) (s : Bytes) : spanLen p s ≤ s.length := by
  induction s with
  | nil => simp [spanLen]
  | cons c t ih => simp only [spanLen]; split <;> simp <;> omega

theorem spanLen_all (p : UInt8 → Bool) (a : Bytes) (h : a.all p = true) : spanLen p a = a.length := by
  induction a with
  | nil => rfl
  | cons c t ih =>
    simp only [List.all_cons, Bool.and_eq_true] at h
    simp [spanLen, h.1, ih h.2]

theorem spanLen_append (p : UInt8 → Bool) (a b : Bytes) (h : a.all p = true) :
    spanLen p (a ++ b) = a.length + spanLen p b := by
  induction a with
  | nil => simp
  | cons c t ih =>
    simp only [List.all_cons, Bool.and_eq_true] at h
    simp only [List.cons_append, spanLen, h.1, if_true, ih h.2, List.length_cons]
    omega

def headOK (p : UInt8 → Bool) : Bytes → Bool
  | [] => true
  | b :: _ => p b

theorem spanLen_headOK (p : UInt8 → Bool) (s : Bytes) (h : headOK (fun b => !p b) s = true) : spanLen p s = 0 := by
  cases s with
  | nil => rfl
  | cons c t =>
    simp only [headOK, Bool.not_eq_true'] at h
    simp [spanLen, h]

/-! ## picking the winner -/

theorem bestStep_pick (best : Option (Rule × Nat)) (r : Rule) (n : Nat) (h : ∀ p, best = some p → p.2 < n) :
    bestStep best (r, some n) = some (r, n) := by
  cases best with
  | none => rfl
  | some p =>
    obtain ⟨r', bn⟩ := p
    have := h _ rfl
    simp only [bestStep_some]
    simp only at this
    simp [this]

theorem foldl_bestStep_bound (n : Nat) (ms : List (Rule × Option Nat)) :
    ∀ (init : Option (Rule × Nat)), (∀ p, init = some p → p.2 < n) →
    (∀ x ∈ ms, ∀ m, x.2 = some m → m < n) → ∀ p, ms.foldl bestStep init = some p → p.2 < n := by
  induction ms with
  | nil => intro init hi _ p hp; exact hi p hp
  | cons x xs ih =>
    intro init hi h p hp
    simp only [List.foldl_cons] at hp
    refine ih (bestStep init x) ?_ (fun y hy => h y (List.mem_cons_of_mem _ hy)) p hp
    intro q hq
    obtain ⟨r, m⟩ := x
    cases m with
    | none => rw [bestStep_none] at hq; exact hi q hq
    | some m =>
      have hm := h (r, some m) (List.mem_cons_self ..) m rfl
      cases init with
      | none => simp only [bestStep_first, Option.some.injEq] at hq; subst hq; exact hm
      | some p0 =>
        obtain ⟨r0, b0⟩ := p0
        simp only [bestStep_some] at hq
        split at hq
        · simp only [Option.some.injEq] at hq; subst hq; exact hm
        · exact hi q hq

theorem foldl_bestStep_keep (r : Rule) (n : Nat) (ms : List (Rule × Option Nat))
    (h : ∀ x ∈ ms, ∀ m, x.2 = some m → m ≤ n) : ms.foldl bestStep (some (r, n)) = some (r, n) := by
  induction ms with
  | nil => rfl
  | cons x xs ih =>
    obtain ⟨r', m⟩ := x
    simp only [List.foldl_cons]
    cases m with
    | none => rw [bestStep_none]; exact ih (fun y hy => h y (List.mem_cons_of_mem _ hy))
    | some m =>
      have hm := h (r', some m) (List.mem_cons_self ..) m rfl
      have : ¬ m > n := by omega
      simp only [bestStep_some, this, if_false]
      exact ih (fun y hy => h y (List.mem_cons_of_mem _ hy))

/-- the first candidate of maximal length wins -/
theorem foldl_pick (pre post : List (Rule × Option Nat)) (r : Rule) (n : Nat)
    (hpre : ∀ x ∈ pre, ∀ m, x.2 = some m → m < n) (hpost : ∀ x ∈ post, ∀ m, x.2 = some m → m ≤ n) :
    (pre ++ (r, some n) :: post).foldl bestStep none = some (r, n) := by
  rw [List.foldl_append, List.foldl_cons,
    bestStep_pick _ r n (foldl_bestStep_bound n pre none (fun _ h => by cases h) hpre)]
  exact foldl_bestStep_keep r n post hpost

/-! ## Numbers -/

/-- an optional `-` -/
def isSign (sg : Bytes) : Prop := sg = [] ∨ sg = [45]

theorem digit_ne_minus : ∀ c : UInt8, isDigit c = true → (c == 45) = false := by decide +kernel

theorem intLen_minus (r : Bytes) :
    intLen (45 :: r) = if spanLen isDigit r == 0 then none else some (1 + spanLen isDigit r) := by
  simp [intLen]

theorem intLen_digit (c : UInt8) (r : Bytes) (h : isDigit c = true) :
    intLen (c :: r) = some (spanLen isDigit r + 1) := by
  have hne : c ≠ 45 := by intro hc; subst hc; simp [isDigit] at h
  unfold intLen
  split
  · rename_i heq
    split at heq
    · rename_i h2; cases h2; exact absurd rfl hne
    · cases heq; simp [spanLen, h]

/-- `int` on a complete integer lexeme followed by anything -/
theorem intLen_lexeme (sg ds rest : Bytes) (hs : isSign sg) (hne : ds ≠ []) (hd : ds.all isDigit = true) :
    intLen (sg ++ ds ++ rest) = some ((sg ++ ds).length + spanLen isDigit rest) := by
  cases ds with
  | nil => exact absurd rfl hne
  | cons d ds' =>
    have hd' := hd
    simp only [List.all_cons, Bool.and_eq_true] at hd'
    have hspan : spanLen isDigit (d :: ds' ++ rest) = (d :: ds').length + spanLen isDigit rest :=
      spanLen_append _ _ _ hd
    rcases hs with rfl | rfl
    · simp only [List.nil_append, List.cons_append]
      rw [intLen_digit d _ hd'.1, spanLen_append _ _ _ hd'.2]
      simp only [List.length_cons, List.nil_append]; congr 1; omega
    · simp only [List.cons_append, List.nil_append, List.append_assoc] at hspan ⊢
      rw [intLen_minus, hspan]
      have hpos : ds'.length + 1 + spanLen isDigit rest ≠ 0 := by omega
      simp only [beq_iff_eq, List.length_append, List.length_cons, List.length_nil, hpos, if_false]
      congr 1; omega

/-- what must not follow an integer: a digit, or `.` and a digit (that would be a longer integer, or a float) -/
def fitsInt (rest : Bytes) : Bool :=
  headOK (fun b => !isDigit b) rest &&
  (match rest with
   | 46 :: d :: _ => !isDigit d
   | _ => true)

theorem floatLen_int_lexeme (sg ds rest : Bytes) (hs : isSign sg) (hne : ds ≠ []) (hd : ds.all isDigit = true)
    (hf : fitsInt rest = true) : floatLen (sg ++ ds ++ rest) = some (sg ++ ds).length := by
  simp only [fitsInt, Bool.and_eq_true] at hf
  have h0 := spanLen_headOK isDigit rest hf.1
  have hi := intLen_lexeme sg ds rest hs hne hd
  rw [h0, Nat.add_zero] at hi
  unfold floatLen
  rw [hi]
  have hdrop : List.drop (sg ++ ds).length (sg ++ ds ++ rest) = rest := List.drop_left' rfl
  dsimp only
  rw [hdrop]
  have h2 := hf.2
  split
  · rename_i r
    cases r with
    | nil => simp [spanLen]
    | cons d r' =>
      simp only [Bool.not_eq_true'] at h2
      simp [spanLen, h2]
  · rfl

theorem lexStep_int (sg ds rest : Bytes) (hs : isSign sg) (hne : ds ≠ []) (hd : ds.all isDigit = true)
    (hf : fitsInt rest = true) : lexStep (sg ++ ds ++ rest) = some (.rInt, (sg ++ ds).length) := by
  have hi := intLen_lexeme sg ds rest hs hne hd
  have hfl := floatLen_int_lexeme sg ds rest hs hne hd hf
  have hf' := hf
  simp only [fitsInt, Bool.and_eq_true] at hf'
  rw [spanLen_headOK isDigit rest hf'.1, Nat.add_zero] at hi
  have hpos : 1 ≤ (sg ++ ds).length := by
    cases ds with
    | nil => exact absurd rfl hne
    | cons d t => simp only [List.length_append, List.length_cons]; omega
  obtain ⟨c, t, hct, hc⟩ : ∃ c t, sg ++ ds ++ rest = c :: t ∧ (isDigit c = true ∨ c = 45) := by
    cases ds with
    | nil => exact absurd rfl hne
    | cons d t =>
      simp only [List.all_cons, Bool.and_eq_true] at hd
      rcases hs with rfl | rfl
      · exact ⟨d, t ++ rest, by simp, Or.inl hd.1⟩
      · exact ⟨45, d :: t ++ rest, by simp, Or.inr rfl⟩
  rw [hct] at hi hfl ⊢
  rw [lexStep_num c t hc, hi, hfl]
  exact foldl_pick [] _ _ _ (fun _ h => by cases h) (by
    intro x hx m hm
    simp only [List.mem_cons, List.mem_nil_iff, or_false] at hx
    rcases hx with rfl | rfl
    · simp only [Option.some.injEq] at hm; omega
    · simp only [Option.some.injEq] at hm; omega)

/-- `float` on a complete float lexeme `-?d+.d+` followed by anything -/
theorem floatLen_lexeme (sg ds fs rest : Bytes) (hs : isSign sg) (hne : ds ≠ []) (hd : ds.all isDigit = true)
    (hfne : fs ≠ []) (hfd : fs.all isDigit = true) (hf : headOK (fun b => !isDigit b) rest = true) :
    intLen (sg ++ ds ++ 46 :: fs ++ rest) = some (sg ++ ds).length ∧
    floatLen (sg ++ ds ++ 46 :: fs ++ rest) = some (sg ++ ds ++ 46 :: fs).length := by
  have hi := intLen_lexeme sg ds (46 :: fs ++ rest) hs hne hd
  have h46 : spanLen isDigit (46 :: fs ++ rest) = 0 := by simp [spanLen, isDigit]
  rw [h46, Nat.add_zero] at hi
  have hassoc : sg ++ ds ++ 46 :: fs ++ rest = sg ++ ds ++ (46 :: fs ++ rest) := by simp
  rw [hassoc]
  refine ⟨hi, ?_⟩
  unfold floatLen
  rw [hi]
  have hdrop : List.drop (sg ++ ds).length (sg ++ ds ++ (46 :: fs ++ rest)) = 46 :: fs ++ rest := List.drop_left' rfl
  dsimp only
  rw [hdrop]
  simp only [List.cons_append]
  rw [spanLen_append _ _ _ hfd, spanLen_headOK isDigit rest hf]
  have hl : fs.length ≠ 0 := by
    cases fs with
    | nil => exact absurd rfl hfne
    | cons x y => simp
  simp only [Nat.add_zero, beq_iff_eq, hl, if_false, List.length_append, List.length_cons]
  congr 1; omega

theorem lexStep_float (sg ds fs rest : Bytes) (hs : isSign sg) (hne : ds ≠ []) (hd : ds.all isDigit = true)
    (hfne : fs ≠ []) (hfd : fs.all isDigit = true) (hf : headOK (fun b => !isDigit b) rest = true) :
    lexStep (sg ++ ds ++ 46 :: fs ++ rest) = some (.rFloat, (sg ++ ds ++ 46 :: fs).length) := by
  obtain ⟨hi, hfl⟩ := floatLen_lexeme sg ds fs rest hs hne hd hfne hfd hf
  obtain ⟨c, t, hct, hc⟩ : ∃ c t, sg ++ ds ++ 46 :: fs ++ rest = c :: t ∧ (isDigit c = true ∨ c = 45) := by
    cases ds with
    | nil => exact absurd rfl hne
    | cons d t =>
      simp only [List.all_cons, Bool.and_eq_true] at hd
      rcases hs with rfl | rfl
      · exact ⟨d, t ++ 46 :: fs ++ rest, by simp, Or.inl hd.1⟩
      · exact ⟨45, d :: t ++ 46 :: fs ++ rest, by simp, Or.inr rfl⟩
  rw [hct] at hi hfl ⊢
  rw [lexStep_num c t hc, hi, hfl]
  exact foldl_pick [(.rInt, some (sg ++ ds).length)] _ _ _ (by
    intro x hx m hm
    simp only [List.mem_cons, List.mem_nil_iff, or_false] at hx
    subst hx
    simp only [Option.some.injEq] at hm
    simp only [List.length_append, List.length_cons] at hm ⊢
    omega) (by
    intro x hx m hm
    simp only [List.mem_cons, List.mem_nil_iff, or_false] at hx
    subst hx
    simp only [Option.some.injEq] at hm
    simp only [List.length_append, List.length_cons]
    omega)

/-! ## Strings -/

theorem stringLen_lexeme (q : UInt8) (body rest : Bytes) (hq : (q == 34 || q == 39) = true)
    (hb : body.all (fun b => b != q) = true) :
    stringLen (q :: body ++ [q] ++ rest) = some (q :: body ++ [q]).length := by
  have hspan : spanLen (fun b => b != q) (body ++ q :: rest) = body.length := by
    rw [spanLen_append _ _ _ hb]
    simp [spanLen]
  have hdrop : List.drop body.length (body ++ q :: rest) = q :: rest := List.drop_left' rfl
  simp only [List.cons_append, List.append_assoc, List.nil_append, stringLen, hq, if_true, hspan, hdrop,
    List.length_cons, List.length_append, List.length_nil]

theorem lexStep_string (q : UInt8) (body rest : Bytes) (hq : (q == 34 || q == 39) = true)
    (hb : body.all (fun b => b != q) = true) :
    lexStep (q :: body ++ [q] ++ rest) = some (.rString, (q :: body ++ [q]).length) := by
  have hs := stringLen_lexeme q body rest hq hb
  simp only [List.cons_append, List.append_assoc] at hs ⊢
  rw [lexStep_quote q _ hq, hs]
  exact foldl_pick [] _ _ _ (fun _ h => by cases h) (by
    intro x hx m hm
    simp only [List.mem_cons, List.mem_nil_iff, or_false] at hx
    subst hx
    simp only [Option.some.injEq] at hm
    simp only [List.length_cons]
    omega)

/-! ## Words: identifiers, reserved words, keywords, properties -/

/-- what must not follow a word `w` for the identifier match to end with it: a byte that continues the
    identifier, or the `?` that may end one (a word that already ends in `?` is closed) -/
def fitsWord (w rest : Bytes) : Bool :=
  w.getLast? == some 63 || headOK (fun b => !isIdCont b && b != 63) rest

theorem idCont_ne_q : ∀ c : UInt8, isIdCont c = true → (c == 63) = false := by decide +kernel
theorem idStart_ne_q : ∀ c : UInt8, isIdStart c = true → (c == 63) = false := by decide +kernel
theorem idStart_idCont : ∀ c : UInt8, isIdStart c = true → isIdCont c = true := by decide +kernel

/-- `identifier` on a complete word `c body qm` (`qm` the optional `?`) followed by `rest` -/
theorem identLen_lexeme (c : UInt8) (body qm rest : Bytes) (hc : isIdStart c = true)
    (hb : body.all isIdCont = true) (hqm : qm = [] ∨ qm = [63])
    (hf : fitsWord (c :: body ++ qm) rest = true) :
    identLen (c :: body ++ qm ++ rest) = some (c :: body ++ qm).length := by
  rcases hqm with rfl | rfl
  · -- no `?`: the follower must stop the identifier
    have hlast : ((c :: body ++ []).getLast? == some 63) = false := by
      simp only [List.append_nil]
      cases hl : (c :: body).getLast? with
      | none => rfl
      | some x =>
        have hx : x ∈ c :: body := List.mem_of_getLast? hl
        have hxc : isIdCont x = true := by
          rcases List.mem_cons.1 hx with rfl | hx
          · exact idStart_idCont _ hc
          · exact List.all_eq_true.1 hb x hx
        have := idCont_ne_q x hxc
        simp only [beq_eq_false_iff_ne, ne_eq] at this
        simp [this]
    simp only [fitsWord, hlast, Bool.false_or] at hf
    have hspan : spanLen isIdCont (body ++ rest) = body.length := by
      rw [spanLen_append _ _ _ hb]
      have : headOK (fun b => !isIdCont b) rest = true := by
        cases rest with
        | nil => rfl
        | cons b t => simp only [headOK, Bool.and_eq_true] at hf ⊢; exact hf.1
      rw [spanLen_headOK _ _ this]; rfl
    have hdrop : List.drop body.length (body ++ rest) = rest := List.drop_left' rfl
    simp only [List.append_nil, List.cons_append, identLen, hc, if_true, hspan, hdrop, List.length_cons]
    split
    · simp [headOK] at hf
    · congr 1; omega
  · have hspan : spanLen isIdCont (body ++ 63 :: rest) = body.length := by
      rw [spanLen_append _ _ _ hb]
      simp [spanLen, isIdCont, isAlnum, isAlpha, isDigit]
    have hdrop : List.drop body.length (body ++ 63 :: rest) = 63 :: rest := List.drop_left' rfl
    simp only [List.cons_append, List.append_assoc, List.nil_append, identLen, hc, if_true, hspan, hdrop,
      List.length_cons, List.length_append, List.length_nil]
    congr 1; omega

theorem litLen_some (w s : Bytes) (m : Nat) (h : litLen w s = some m) : m = w.length ∧ isPrefixOfB w s = true := by
  unfold litLen at h
  split at h
  · rename_i hp; simp only [Option.some.injEq] at h; exact ⟨h.symm, hp⟩
  · cases h

theorem litLen_self_append (w rest : Bytes) : litLen w (w ++ rest) = some w.length := by
  have : isPrefixOfB w (w ++ rest) = true := (isPrefixOfB_iff _ _).2 (List.prefix_append _ _)
  simp [litLen, this]

theorem spanLen_ge_prefix (p : UInt8 → Bool) (w t : Bytes) (hw : w.all p = true) (hp : isPrefixOfB w t = true) :
    w.length ≤ spanLen p t := by
  obtain ⟨r, rfl⟩ := (isPrefixOfB_iff _ _).1 hp
  rw [spanLen_append _ _ _ hw]; omega

/-- a literal made of identifier bytes never matches beyond the identifier -/
theorem litLen_le_identLen (w s : Bytes) (m n : Nat) (hne : w ≠ []) (hw : w.all isIdCont = true)
    (hm : litLen w s = some m) (hn : identLen s = some n) : m ≤ n := by
  obtain ⟨rfl, hp⟩ := litLen_some _ _ _ hm
  cases w with
  | nil => exact absurd rfl hne
  | cons a w' =>
    cases s with
    | nil => simp [isPrefixOfB] at hp
    | cons c t =>
      simp only [isPrefixOfB, Bool.and_eq_true] at hp
      simp only [List.all_cons, Bool.and_eq_true] at hw
      have := spanLen_ge_prefix isIdCont w' t hw.2 hp.2
      simp only [identLen] at hn
      split at hn
      · simp only [Option.some.injEq] at hn
        simp only [List.length_cons]; omega
      · cases hn

theorem litLen_lt_of_ne (w l rest : Bytes) (m : Nat) (hne : w ≠ []) (hw : w.all isIdCont = true) (hwl : w ≠ l)
    (hn : identLen (l ++ rest) = some l.length) (hm : litLen w (l ++ rest) = some m) : m < l.length := by
  have hle := litLen_le_identLen w _ m _ hne hw hm hn
  obtain ⟨rfl, hp⟩ := litLen_some _ _ _ hm
  rcases Nat.lt_or_ge w.length l.length with h | h
  · exact h
  · exfalso
    have heq : w.length = l.length := by omega
    have hpre := (isPrefixOfB_iff _ _).1 hp
    have h1 : w = (l ++ rest).take w.length := (List.prefix_iff_eq_take.1 hpre)
    rw [heq, List.take_left' rfl] at h1
    exact hwl h1

/-- the rule that wins on a complete word -/
def wordRule (l : Bytes) : Rule :=
  if l == kwTrue || l == kwFalse then .rBool
  else if l == kwNil then .rNil
  else if l == kwAnd then .rAnd
  else if l == kwOr then .rOr
  else if l == kwContains then .rContains
  else if l == kwIn then .rIn
  else .rIdent

/-- what must not follow a word: identifier bytes (unless the word ends in `?`), and `:` (that would be a keyword) -/
def fitsIdent (w rest : Bytes) : Bool := fitsWord w rest && headOK (fun b => b != 58) rest

theorem lexStep_word_lexeme (c : UInt8) (body qm rest : Bytes) (hc : isIdStart c = true)
    (hb : body.all isIdCont = true) (hqm : qm = [] ∨ qm = [63])
    (hf : fitsIdent (c :: body ++ qm) rest = true) :
    lexStep (c :: body ++ qm ++ rest) = some (wordRule (c :: body ++ qm), (c :: body ++ qm).length) := by
  simp only [fitsIdent, Bool.and_eq_true] at hf
  have hid := identLen_lexeme c body qm rest hc hb hqm hf.1
  generalize hl : c :: body ++ qm = l at hid hf ⊢
  have hlpos : 1 ≤ l.length := by rw [← hl]; simp
  have hs : l ++ rest = c :: (body ++ qm ++ rest) := by rw [← hl]; simp
  have hstep : lexStep (l ++ rest) = (wordCands (l ++ rest)).foldl bestStep none := by
    rw [hs]; exact lexStep_word c _ hc
  rw [hstep]
  have hkey : keywordLen (l ++ rest) = none := by
    rw [keywordLen_of_ident _ _ hid, List.drop_left' rfl]
    cases rest with
    | nil => rfl
    | cons b t =>
      have := hf.2
      simp only [headOK, bne_iff_ne, ne_eq] at this
      split
      · rename_i heq; cases heq; exact absurd rfl this
      · rfl
  -- lengths of the literal candidates
  have hlt : ∀ w : Bytes, w ≠ [] → w.all isIdCont = true → w ≠ l → ∀ m, litLen w (l ++ rest) = some m → m < l.length :=
    fun w h1 h2 h3 m hm => litLen_lt_of_ne w l rest m h1 h2 h3 hid hm
  have hle : ∀ w : Bytes, w ≠ [] → w.all isIdCont = true → ∀ m, litLen w (l ++ rest) = some m → m ≤ l.length :=
    fun w h1 h2 m hm => litLen_le_identLen w _ m _ h1 h2 hm hid
  have hbool : ∀ m, (match litLen kwTrue (l ++ rest) with | some n => some n | none => litLen kwFalse (l ++ rest)) = some m →
      (litLen kwTrue (l ++ rest) = some m ∨ litLen kwFalse (l ++ rest) = some m) := by
    intro m hm
    cases h : litLen kwTrue (l ++ rest) with
    | none => rw [h] at hm; exact Or.inr hm
    | some n => rw [h] at hm; exact Or.inl hm
  have aT : kwTrue.all isIdCont = true := by decide
  have aF : kwFalse.all isIdCont = true := by decide
  have aN : kwNil.all isIdCont = true := by decide
  have aA : kwAnd.all isIdCont = true := by decide
  have aO : kwOr.all isIdCont = true := by decide
  have aC : kwContains.all isIdCont = true := by decide
  have aI : kwIn.all isIdCont = true := by decide
  have nT : kwTrue ≠ [] := by decide
  have nF : kwFalse ≠ [] := by decide
  have nN : kwNil ≠ [] := by decide
  have nA : kwAnd ≠ [] := by decide
  have nO : kwOr ≠ [] := by decide
  have nC : kwContains ≠ [] := by decide
  have nI : kwIn ≠ [] := by decide
  unfold wordCands
  rw [hid, hkey]
  unfold wordRule
  by_cases h1 : l = kwTrue
  · subst h1
    simp only [litLen_self_append, BEq.rfl, Bool.true_or, if_true]
    refine foldl_pick [] _ _ _ (fun _ h => by cases h) ?_
    intro x hx m hm
    simp only [List.mem_cons, List.mem_nil_iff, or_false] at hx
    rcases hx with rfl | rfl | rfl | rfl | rfl | rfl | rfl | rfl
    · exact hle _ nN aN m hm
    · exact hle _ nA aA m hm
    · exact hle _ nO aO m hm
    · exact hle _ nC aC m hm
    · exact hle _ nI aI m hm
    · cases hm
    · simp only [Option.some.injEq] at hm; omega
    · simp only [Option.some.injEq] at hm; omega
  by_cases h2 : l = kwFalse
  · subst h2
    have hT : litLen kwTrue (kwFalse ++ rest) = none := by simp [kwTrue, kwFalse, litLen_cons]
    simp only [hT, litLen_self_append, BEq.rfl, Bool.or_true, if_true]
    refine foldl_pick [] _ _ _ (fun _ h => by cases h) ?_
    intro x hx m hm
    simp only [List.mem_cons, List.mem_nil_iff, or_false] at hx
    rcases hx with rfl | rfl | rfl | rfl | rfl | rfl | rfl | rfl
    · exact hle _ nN aN m hm
    · exact hle _ nA aA m hm
    · exact hle _ nO aO m hm
    · exact hle _ nC aC m hm
    · exact hle _ nI aI m hm
    · cases hm
    · simp only [Option.some.injEq] at hm; omega
    · simp only [Option.some.injEq] at hm; omega
  have b1 : (l == kwTrue) = false := by simpa using h1
  have b2 : (l == kwFalse) = false := by simpa using h2
  have pBool : ∀ m, (match litLen kwTrue (l ++ rest) with | some n => some n | none => litLen kwFalse (l ++ rest)) = some m →
      m < l.length := by
    intro m hm
    rcases hbool m hm with h | h
    · exact hlt _ nT aT (Ne.symm h1) m h
    · exact hlt _ nF aF (Ne.symm h2) m h
  simp only [b1, b2, Bool.or_false, Bool.false_eq_true, if_false]
  by_cases h3 : l = kwNil
  · subst h3
    simp only [litLen_self_append, BEq.rfl, if_true]
    refine foldl_pick [_] _ _ _ ?_ ?_
    · intro x hx m hm
      simp only [List.mem_cons, List.mem_nil_iff, or_false] at hx
      subst hx; exact pBool m hm
    · intro x hx m hm
      simp only [List.mem_cons, List.mem_nil_iff, or_false] at hx
      rcases hx with rfl | rfl | rfl | rfl | rfl | rfl | rfl
      · exact hle _ nA aA m hm
      · exact hle _ nO aO m hm
      · exact hle _ nC aC m hm
      · exact hle _ nI aI m hm
      · cases hm
      · simp only [Option.some.injEq] at hm; omega
      · simp only [Option.some.injEq] at hm; omega
  have b3 : (l == kwNil) = false := by simpa using h3
  simp only [b3, Bool.false_eq_true, if_false]
  by_cases h4 : l = kwAnd
  · subst h4
    simp only [litLen_self_append, BEq.rfl, if_true]
    refine foldl_pick [_, _] _ _ _ ?_ ?_
    · intro x hx m hm
      simp only [List.mem_cons, List.mem_nil_iff, or_false] at hx
      rcases hx with rfl | rfl
      · exact pBool m hm
      · exact hlt _ nN aN (Ne.symm h3) m hm
    · intro x hx m hm
      simp only [List.mem_cons, List.mem_nil_iff, or_false] at hx
      rcases hx with rfl | rfl | rfl | rfl | rfl | rfl
      · exact hle _ nO aO m hm
      · exact hle _ nC aC m hm
      · exact hle _ nI aI m hm
      · cases hm
      · simp only [Option.some.injEq] at hm; omega
      · simp only [Option.some.injEq] at hm; omega
  have b4 : (l == kwAnd) = false := by simpa using h4
  simp only [b4, Bool.false_eq_true, if_false]
  by_cases h5 : l = kwOr
  · subst h5
    simp only [litLen_self_append, BEq.rfl, if_true]
    refine foldl_pick [_, _, _] _ _ _ ?_ ?_
    · intro x hx m hm
      simp only [List.mem_cons, List.mem_nil_iff, or_false] at hx
      rcases hx with rfl | rfl | rfl
      · exact pBool m hm
      · exact hlt _ nN aN (Ne.symm h3) m hm
      · exact hlt _ nA aA (Ne.symm h4) m hm
    · intro x hx m hm
      simp only [List.mem_cons, List.mem_nil_iff, or_false] at hx
      rcases hx with rfl | rfl | rfl | rfl | rfl
      · exact hle _ nC aC m hm
      · exact hle _ nI aI m hm
      · cases hm
      · simp only [Option.some.injEq] at hm; omega
      · simp only [Option.some.injEq] at hm; omega
  have b5 : (l == kwOr) = false := by simpa using h5
  simp only [b5, Bool.false_eq_true, if_false]
  by_cases h6 : l = kwContains
  · subst h6
    simp only [litLen_self_append, BEq.rfl, if_true]
    refine foldl_pick [_, _, _, _] _ _ _ ?_ ?_
    · intro x hx m hm
      simp only [List.mem_cons, List.mem_nil_iff, or_false] at hx
      rcases hx with rfl | rfl | rfl | rfl
      · exact pBool m hm
      · exact hlt _ nN aN (Ne.symm h3) m hm
      · exact hlt _ nA aA (Ne.symm h4) m hm
      · exact hlt _ nO aO (Ne.symm h5) m hm
    · intro x hx m hm
      simp only [List.mem_cons, List.mem_nil_iff, or_false] at hx
      rcases hx with rfl | rfl | rfl | rfl
      · exact hle _ nI aI m hm
      · cases hm
      · simp only [Option.some.injEq] at hm; omega
      · simp only [Option.some.injEq] at hm; omega
  have b6 : (l == kwContains) = false := by simpa using h6
  simp only [b6, Bool.false_eq_true, if_false]
  by_cases h7 : l = kwIn
  · subst h7
    simp only [litLen_self_append, BEq.rfl, if_true]
    refine foldl_pick [_, _, _, _, _] _ _ _ ?_ ?_
    · intro x hx m hm
      simp only [List.mem_cons, List.mem_nil_iff, or_false] at hx
      rcases hx with rfl | rfl | rfl | rfl | rfl
      · exact pBool m hm
      · exact hlt _ nN aN (Ne.symm h3) m hm
      · exact hlt _ nA aA (Ne.symm h4) m hm
      · exact hlt _ nO aO (Ne.symm h5) m hm
      · exact hlt _ nC aC (Ne.symm h6) m hm
    · intro x hx m hm
      simp only [List.mem_cons, List.mem_nil_iff, or_false] at hx
      rcases hx with rfl | rfl | rfl
      · cases hm
      · simp only [Option.some.injEq] at hm; omega
      · simp only [Option.some.injEq] at hm; omega
  have b7 : (l == kwIn) = false := by simpa using h7
  simp only [b7, Bool.false_eq_true, if_false]
  refine foldl_pick [_, _, _, _, _, _, _] _ _ _ ?_ ?_
  · intro x hx m hm
    simp only [List.mem_cons, List.mem_nil_iff, or_false] at hx
    rcases hx with rfl | rfl | rfl | rfl | rfl | rfl | rfl
    · exact pBool m hm
    · exact hlt _ nN aN (Ne.symm h3) m hm
    · exact hlt _ nA aA (Ne.symm h4) m hm
    · exact hlt _ nO aO (Ne.symm h5) m hm
    · exact hlt _ nC aC (Ne.symm h6) m hm
    · exact hlt _ nI aI (Ne.symm h7) m hm
    · cases hm
  · intro x hx m hm
    simp only [List.mem_cons, List.mem_nil_iff, or_false] at hx
    subst hx
    simp only [Option.some.injEq] at hm; omega

/-- `word:` is a keyword whatever follows -/
theorem lexStep_keyword (c : UInt8) (body qm rest : Bytes) (hc : isIdStart c = true)
    (hb : body.all isIdCont = true) (hqm : qm = [] ∨ qm = [63]) :
    lexStep (c :: body ++ qm ++ [58] ++ rest) = some (.rKeyword, (c :: body ++ qm ++ [58]).length) := by
  have hfw : fitsWord (c :: body ++ qm) (58 :: rest) = true := by simp [fitsWord, headOK, isIdCont, isAlnum, isAlpha, isDigit]
  have hid := identLen_lexeme c body qm (58 :: rest) hc hb hqm hfw
  generalize hl : c :: body ++ qm = w at hid ⊢
  have hs : w ++ [58] ++ rest = c :: (body ++ qm ++ 58 :: rest) := by rw [← hl]; simp
  have hs' : w ++ 58 :: rest = c :: (body ++ qm ++ 58 :: rest) := by rw [← hl]; simp
  rw [hs, lexStep_word c _ hc, ← hs']
  have hkey : keywordLen (w ++ 58 :: rest) = some (w.length + 1) := by
    rw [keywordLen_of_ident _ _ hid, List.drop_left' rfl]
    rfl
  have hle : ∀ k : Bytes, k ≠ [] → k.all isIdCont = true → ∀ m, litLen k (w ++ 58 :: rest) = some m → m < w.length + 1 :=
    fun k h1 h2 m hm => Nat.lt_succ_of_le (litLen_le_identLen k _ m _ h1 h2 hm hid)
  unfold wordCands
  rw [hid, hkey]
  have hlen : (w ++ [58]).length = w.length + 1 := by simp
  rw [hlen]
  refine foldl_pick [_, _, _, _, _, _] _ _ _ ?_ ?_
  · intro x hx m hm
    simp only [List.mem_cons, List.mem_nil_iff, or_false] at hx
    rcases hx with rfl | rfl | rfl | rfl | rfl | rfl
    · simp only at hm
      cases h : litLen kwTrue (w ++ 58 :: rest) with
      | none => rw [h] at hm; exact hle _ (by decide) (by decide) m hm
      | some n => rw [h] at hm; simp only [Option.some.injEq] at hm; subst hm; exact hle _ (by decide) (by decide) _ h
    · exact hle _ (by decide) (by decide) m hm
    · exact hle _ (by decide) (by decide) m hm
    · exact hle _ (by decide) (by decide) m hm
    · exact hle _ (by decide) (by decide) m hm
    · exact hle _ (by decide) (by decide) m hm
  · intro x hx m hm
    simp only [List.mem_cons, List.mem_nil_iff, or_false] at hx
    rcases hx with rfl | rfl
    · simp only [Option.some.injEq] at hm; omega
    · simp only [Option.some.injEq] at hm; omega

/-! ## `.`: properties and `..` -/

theorem propertyLen_cons (r : Bytes) : propertyLen (46 :: r) = (identLen r).map (· + 1) := rfl

/-- `.word` -/
theorem lexStep_property (c : UInt8) (body qm rest : Bytes) (hc : isIdStart c = true)
    (hb : body.all isIdCont = true) (hqm : qm = [] ∨ qm = [63])
    (hf : fitsWord (c :: body ++ qm) rest = true) :
    lexStep (46 :: (c :: body ++ qm) ++ rest) = some (.rProperty, (46 :: (c :: body ++ qm)).length) := by
  have hid := identLen_lexeme c body qm rest hc hb hqm hf
  have hne : ((46 : UInt8) == c) = false := by
    cases h : (46 : UInt8) == c with
    | false => rfl
    | true => have := (beq_iff_eq.1 h); subst this; simp [isIdStart, isAlpha] at hc
  simp only [List.cons_append] at hid ⊢
  rw [lexStep_dot, propertyLen_cons, hid]
  simp only [litLen_cons, BEq.rfl, if_true, hne, Bool.false_eq_true, if_false, Option.map_none, Option.map_some,
    List.foldl_cons, List.foldl_nil, bestStep_none, bestStep_first, bestStep_some, List.length_cons, List.length_append]
  have : ¬ (1 > body.length + qm.length + 1 + 1) := by omega
  simp only [this, if_false]

/-- `..` whatever follows -/
theorem lexStep_dotdot (rest : Bytes) : lexStep (46 :: 46 :: rest) = some (.rDotdot, 2) := by
  have hp : propertyLen (46 :: 46 :: rest) = none := by
    rw [propertyLen_cons, identLen_cons_other 46 rest (by decide)]; rfl
  rw [lexStep_dot, hp]
  simp only [litLen_cons, BEq.rfl, if_true, litLen_nil, Option.map_some, List.foldl_cons, List.foldl_nil,
    bestStep_none, bestStep_first, bestStep_some]
  simp

/-- a lone `.`: not followed by `.` nor by the start of an identifier -/
theorem lexStep_dot_alone (rest : Bytes) (hf : headOK (fun b => b != 46 && !isIdStart b) rest = true) :
    lexStep (46 :: rest) = some (.rAny, 1) := by
  rw [lexStep_dot, propertyLen_cons]
  cases rest with
  | nil => simp [litLen_cons, litLen_nil_right, identLen, bestStep_first]
  | cons b t =>
    simp only [headOK, Bool.and_eq_true, bne_iff_ne, ne_eq, Bool.not_eq_true'] at hf
    have hb : ((46 : UInt8) == b) = false := by
      cases h : (46 : UInt8) == b with
      | false => rfl
      | true => exact absurd (beq_iff_eq.1 h).symm hf.1
    simp only [litLen_cons, BEq.rfl, if_true, hb, Bool.false_eq_true, if_false, Option.map_none,
      identLen_cons_other b t hf.2, List.foldl_cons, List.foldl_nil, bestStep_none, bestStep_first]

/-! ## Two-byte operators and their first bytes -/

theorem lexStep_op2 (c : UInt8) (rest : Bytes) (h : isOpStart c = true) :
    lexStep (c :: 61 :: rest) = some ((if c == 61 then .rEq else if c == 33 then .rNeq else if c == 62 then .rGe else .rLe), 2) := by
  rw [lexStep_op c _ h]
  simp only [isOpStart, Bool.or_eq_true, beq_iff_eq] at h
  rcases h with ((rfl | rfl) | rfl) | rfl <;>
    simp [litLen_cons, litLen_nil, bestStep_first, bestStep_some]

theorem lexStep_op1 (c : UInt8) (rest : Bytes) (h : isOpStart c = true) (hf : headOK (fun b => b != 61) rest = true) :
    lexStep (c :: rest) = some (.rAny, 1) := by
  rw [lexStep_op c _ h]
  cases rest with
  | nil => simp [litLen_cons, litLen_nil_right, bestStep_first]
  | cons b t =>
    simp only [headOK, bne_iff_ne, ne_eq] at hf
    have hb : ((61 : UInt8) == b) = false := by
      cases h : (61 : UInt8) == b with
      | false => rfl
      | true => exact absurd (beq_iff_eq.1 h).symm hf
    simp only [litLen_cons, hb, Bool.false_eq_true, if_false, Option.map_none, ite_self, List.foldl_cons,
      List.foldl_nil, bestStep_none, bestStep_first]

/-! ## `-`, `%`, `{` and the selectors -/

theorem lexStep_minus_alone (rest : Bytes) (hf : headOK (fun b => !isDigit b) rest = true) :
    lexStep (45 :: rest) = some (.rAny, 1) := by
  rw [lexStep_num 45 rest (Or.inr rfl)]
  have hi : intLen (45 :: rest) = none := by
    rw [intLen_minus, spanLen_headOK _ _ hf]; rfl
  simp only [hi, floatLen, List.foldl_cons, List.foldl_nil, bestStep_none, bestStep_first]

theorem lexStep_percent_alone (rest : Bytes) (h1 : litLen kwAssign (37 :: rest) = none) (h2 : litLen kwLoop (37 :: rest) = none) :
    lexStep (37 :: rest) = some (.rAny, 1) := by
  rw [lexStep_percent, h1, h2]; rfl

theorem lexStep_brace_alone (rest : Bytes) (h1 : litLen kwCycle (123 :: rest) = none) (h2 : litLen kwWhen (123 :: rest) = none) :
    lexStep (123 :: rest) = some (.rAny, 1) := by
  rw [lexStep_brace, h1, h2]; rfl

theorem lexStep_selAssign (rest : Bytes) : lexStep (kwAssign ++ rest) = some (.rAssign, kwAssign.length) := by
  have h := litLen_self_append kwAssign rest
  have hl : litLen kwLoop (kwAssign ++ rest) = none := by simp [kwLoop, kwAssign, litLen_cons]
  have : kwAssign ++ rest = 37 :: ([97, 115, 115, 105, 103, 110, 32] ++ rest) := rfl
  rw [this] at h hl ⊢
  rw [lexStep_percent, h, hl]; rfl

theorem lexStep_selLoop (rest : Bytes) : lexStep (kwLoop ++ rest) = some (.rLoop, kwLoop.length) := by
  have h := litLen_self_append kwLoop rest
  have hl : litLen kwAssign (kwLoop ++ rest) = none := by simp [kwLoop, kwAssign, litLen_cons]
  have : kwLoop ++ rest = 37 :: ([108, 111, 111, 112, 32] ++ rest) := rfl
  rw [this] at h hl ⊢
  rw [lexStep_percent, h, hl]; rfl

theorem lexStep_selCycle (rest : Bytes) : lexStep (kwCycle ++ rest) = some (.rCycle, kwCycle.length) := by
  have h := litLen_self_append kwCycle rest
  have hl : litLen kwWhen (kwCycle ++ rest) = none := by simp [kwCycle, kwWhen, litLen_cons]
  have : kwCycle ++ rest = 123 :: ([37, 99, 121, 99, 108, 101, 32] ++ rest) := rfl
  rw [this] at h hl ⊢
  rw [lexStep_brace, h, hl]; rfl

theorem lexStep_selWhen (rest : Bytes) : lexStep (kwWhen ++ rest) = some (.rWhen, kwWhen.length) := by
  have h := litLen_self_append kwWhen rest
  have hl : litLen kwCycle (kwWhen ++ rest) = none := by simp [kwCycle, kwWhen, litLen_cons]
  have : kwWhen ++ rest = 123 :: ([37, 119, 104, 101, 110, 32] ++ rest) := rfl
  rw [this] at h hl ⊢
  rw [lexStep_brace, h, hl]; rfl

/-! ## The grammar of lexemes -/

/-- punctuation: a byte that is not a letter, digit, `_`, quote or whitespace is a token of its own -/
def isPunct (c : UInt8) : Bool := !(isDigit c || isIdStart c || c == 34 || c == 39 || isLexSpace c)

def opRule (c : UInt8) : Rule := if c == 61 then .rEq else if c == 33 then .rNeq else if c == 62 then .rGe else .rLe

/-- `Lexeme r l`: the bytes `l` are one complete lexeme, and the scanner's rule for it is `r` -/
inductive Lexeme : Rule → Bytes → Prop where
  /-- `-?digit+` -/
  | int (sg ds : Bytes) : isSign sg → ds ≠ [] → ds.all isDigit = true → Lexeme .rInt (sg ++ ds)
  /-- `-?digit+ . digit+` -/
  | float (sg ds fs : Bytes) : isSign sg → ds ≠ [] → ds.all isDigit = true → fs ≠ [] → fs.all isDigit = true →
      Lexeme .rFloat (sg ++ ds ++ 46 :: fs)
  /-- `"…"` or `'…'` without the quote inside -/
  | string (q : UInt8) (body : Bytes) : (q == 34 || q == 39) = true → body.all (fun b => b != q) = true →
      Lexeme .rString (q :: body ++ [q])
  /-- `(alpha|_)(alnum|_|-)*\??`: an identifier, or one of `true false nil and or contains in` -/
  | word (c : UInt8) (body qm : Bytes) : isIdStart c = true → body.all isIdCont = true → (qm = [] ∨ qm = [63]) →
      Lexeme (wordRule (c :: body ++ qm)) (c :: body ++ qm)
  /-- `identifier:` -/
  | keyword (c : UInt8) (body qm : Bytes) : isIdStart c = true → body.all isIdCont = true → (qm = [] ∨ qm = [63]) →
      Lexeme .rKeyword (c :: body ++ qm ++ [58])
  /-- `.identifier` -/
  | property (c : UInt8) (body qm : Bytes) : isIdStart c = true → body.all isIdCont = true → (qm = [] ∨ qm = [63]) →
      Lexeme .rProperty (46 :: (c :: body ++ qm))
  /-- `==`, `!=`, `>=`, `<=` -/
  | op2 (c : UInt8) : isOpStart c = true → Lexeme (opRule c) [c, 61]
  /-- `..` -/
  | dotdot : Lexeme .rDotdot [46, 46]
  /-- any other single byte -/
  | punct (c : UInt8) : isPunct c = true → Lexeme .rAny [c]
  /-- the statement selectors that the tags put in front of their arguments -/
  | selAssign : Lexeme .rAssign kwAssign
  | selCycle : Lexeme .rCycle kwCycle
  | selLoop : Lexeme .rLoop kwLoop
  | selWhen : Lexeme .rWhen kwWhen

/-- what must not follow a single punctuation byte -/
def fitsPunct (c : UInt8) (rest : Bytes) : Bool :=
  if c == 45 then headOK (fun b => !isDigit b) rest                      -- `-1` is a number
  else if c == 46 then headOK (fun b => b != 46 && !isIdStart b) rest    -- `..`, `.name`
  else if isOpStart c then headOK (fun b => b != 61) rest                -- `==`, `!=`, `>=`, `<=`
  else if c == 37 then (litLen kwAssign (c :: rest)).isNone && (litLen kwLoop (c :: rest)).isNone
  else if c == 123 then (litLen kwCycle (c :: rest)).isNone && (litLen kwWhen (c :: rest)).isNone
  else true

/-- **the merge conditions**: `fits r l rest` says that the lexeme `l` of rule `r`, directly followed by the
    bytes `rest`, is still cut off as that lexeme by the longest-match scanner -/
def fits (r : Rule) (l rest : Bytes) : Bool :=
  match r with
  | .rInt => fitsInt rest
  | .rFloat => headOK (fun b => !isDigit b) rest
  | .rBool | .rNil | .rAnd | .rOr | .rContains | .rIn | .rIdent => fitsIdent l rest
  | .rProperty => fitsWord l rest
  | .rAny => (match l with
      | [c] => fitsPunct c rest
      | _ => true)
  | _ => true

theorem wordRule_cases (l : Bytes) :
    wordRule l = .rBool ∨ wordRule l = .rNil ∨ wordRule l = .rAnd ∨ wordRule l = .rOr ∨ wordRule l = .rContains ∨
    wordRule l = .rIn ∨ wordRule l = .rIdent := by
  unfold wordRule
  repeat' split
  all_goals simp

theorem fits_word (l rest : Bytes) : fits (wordRule l) l rest = fitsIdent l rest := by
  rcases wordRule_cases l with h | h | h | h | h | h | h <;> rw [h] <;> rfl

theorem punct_plain : ∀ c : UInt8, isPunct c = true → (c == 45) = false → (c == 46) = false → isOpStart c = false →
    (c == 37) = false → (c == 123) = false → isPlain c = true := by decide +kernel

theorem bytes_getLast?_cons_cons (a c : UInt8) (t : Bytes) : (a :: c :: t).getLast? = (c :: t).getLast? := by
  simp [List.getLast?_cons_cons]

/-- **one step of the scanner on a lexeme** -/
theorem lexStep_lexeme (r : Rule) (l rest : Bytes) (hl : Lexeme r l) (hf : fits r l rest = true) :
    lexStep (l ++ rest) = some (r, l.length) := by
  cases hl with
  | int sg ds hs hne hd => exact lexStep_int sg ds rest hs hne hd hf
  | float sg ds fs hs hne hd hfne hfd => exact lexStep_float sg ds fs rest hs hne hd hfne hfd hf
  | string q body hq hb => exact lexStep_string q body rest hq hb
  | word c body qm hc hb hqm =>
    rw [fits_word] at hf
    exact lexStep_word_lexeme c body qm rest hc hb hqm hf
  | keyword c body qm hc hb hqm => exact lexStep_keyword c body qm rest hc hb hqm
  | property c body qm hc hb hqm =>
    have hf' : fitsWord (c :: body ++ qm) rest = true := by
      simp only [fits, fitsWord] at hf ⊢
      rw [List.cons_append, bytes_getLast?_cons_cons] at hf
      exact hf
    exact lexStep_property c body qm rest hc hb hqm hf'
  | op2 c hc =>
    have := lexStep_op2 c rest hc
    simpa [opRule] using this
  | dotdot => exact lexStep_dotdot rest
  | punct c hc =>
    simp only [fits, fitsPunct] at hf
    by_cases h1 : (c == 45) = true
    · simp only [h1, if_true] at hf
      rw [beq_iff_eq.1 h1]; exact lexStep_minus_alone rest hf
    simp only [h1, Bool.false_eq_true, if_false] at hf
    by_cases h2 : (c == 46) = true
    · simp only [h2, if_true] at hf
      rw [beq_iff_eq.1 h2]; exact lexStep_dot_alone rest hf
    simp only [h2, Bool.false_eq_true, if_false] at hf
    by_cases h3 : isOpStart c = true
    · simp only [h3, if_true] at hf
      exact lexStep_op1 c rest h3 hf
    simp only [h3, Bool.false_eq_true, if_false] at hf
    by_cases h4 : (c == 37) = true
    · simp only [h4, if_true, Bool.and_eq_true, Option.isNone_iff_eq_none] at hf
      have := beq_iff_eq.1 h4; subst this
      exact lexStep_percent_alone rest hf.1 hf.2
    simp only [h4, Bool.false_eq_true, if_false] at hf
    by_cases h5 : (c == 123) = true
    · simp only [h5, if_true, Bool.and_eq_true, Option.isNone_iff_eq_none] at hf
      have := beq_iff_eq.1 h5; subst this
      exact lexStep_brace_alone rest hf.1 hf.2
    exact lexStep_plain c rest (punct_plain c hc (by simpa using h1) (by simpa using h2) (by simpa using h3)
      (by simpa using h4) (by simpa using h5))
  | selAssign => exact lexStep_selAssign rest
  | selCycle => exact lexStep_selCycle rest
  | selLoop => exact lexStep_selLoop rest
  | selWhen => exact lexStep_selWhen rest

theorem Lexeme.ne_nil {r : Rule} {l : Bytes} (h : Lexeme r l) : l ≠ [] := by
  cases h with
  | int sg ds hs hne hd => cases ds with
    | nil => exact absurd rfl hne
    | cons d t => simp
  | float sg ds fs _ _ _ _ _ => simp
  | string => simp
  | word => simp
  | keyword => simp
  | property => simp
  | op2 => simp
  | dotdot => simp
  | punct => simp
  | selAssign => decide
  | selCycle => decide
  | selLoop => decide
  | selWhen => decide

/-! ## Break bytes: after them nothing merges -/

/-- a byte that cannot extend any lexeme: everything except identifier bytes (letters, digits, `_`, `-`),
    `?`, `:`, `=`, `.` and `%` -/
def isBreak (b : UInt8) : Bool := !(isIdCont b || b == 63 || b == 58 || b == 61 || b == 46 || b == 37)

theorem break_facts : ∀ b : UInt8, isBreak b = true →
    isDigit b = false ∧ isIdCont b = false ∧ isIdStart b = false ∧ (b == 63) = false ∧ (b == 58) = false ∧
    (b == 61) = false ∧ (b == 46) = false ∧ (b == 37) = false ∧ (97 == b) = false ∧ (108 == b) = false ∧
    (37 == b) = false ∧ (46 == b) = false := by decide +kernel

theorem space_isBreak : ∀ b : UInt8, isLexSpace b = true → isBreak b = true := by decide +kernel

/-- every lexeme is cut off before a break byte -/
theorem fits_break (r : Rule) (l : Bytes) (b : UInt8) (t : Bytes) (hl : Lexeme r l) (hb : isBreak b = true) :
    fits r l (b :: t) = true := by
  obtain ⟨f1, f2, f3, f4, f5, f6, f7, f8, f9, f10, f11, f12⟩ := break_facts b hb
  have hne46 : b ≠ 46 := by intro h; subst h; simp at f7
  have hne63 : b ≠ 63 := by intro h; subst h; simp at f4
  have hne58 : b ≠ 58 := by intro h; subst h; simp at f5
  have hw : ∀ w : Bytes, fitsWord w (b :: t) = true := by
    intro w; simp [fitsWord, headOK, f2, hne63]
  have hi : ∀ w : Bytes, fitsIdent w (b :: t) = true := by
    intro w; simp [fitsIdent, hw, headOK, hne58]
  cases hl with
  | int sg ds hs hne hd =>
    simp only [fits, fitsInt, headOK, f1, Bool.not_false, Bool.true_and]
    split
    · rename_i heq; cases heq; exact absurd rfl hne46
    · rfl
  | float => simp [fits, headOK, f1]
  | string => rfl
  | word c body qm => rw [fits_word]; exact hi _
  | keyword => rfl
  | property => exact hw _
  | op2 c hc =>
    simp only [isOpStart, Bool.or_eq_true, beq_iff_eq] at hc
    rcases hc with ((rfl | rfl) | rfl) | rfl <;> rfl
  | dotdot => rfl
  | punct c hc =>
    simp only [fits, fitsPunct, headOK, f1, f3, f6, f7, Bool.not_false, bne, Bool.and_self, litLen_cons, kwAssign, kwLoop,
      kwCycle, kwWhen, f9, f10, f11, Bool.false_eq_true, if_false, Option.isNone_none, ite_self]
    repeat' split
    all_goals simp
  | selAssign => rfl
  | selCycle => rfl
  | selLoop => rfl
  | selWhen => rfl

/-- every lexeme is cut off at the end of the input -/
theorem fits_nil (r : Rule) (l : Bytes) (hl : Lexeme r l) : fits r l [] = true := by
  cases hl with
  | int => rfl
  | float => rfl
  | string => rfl
  | word c body qm => rw [fits_word]; simp [fitsIdent, fitsWord, headOK]
  | keyword => rfl
  | property => simp [fits, fitsWord, headOK]
  | op2 c hc =>
    simp only [isOpStart, Bool.or_eq_true, beq_iff_eq] at hc
    rcases hc with ((rfl | rfl) | rfl) | rfl <;> rfl
  | dotdot => rfl
  | punct c hc =>
    simp only [fits, fitsPunct, headOK, litLen_cons, kwAssign, kwLoop, kwCycle, kwWhen, litLen_nil_right]
    repeat' split
    all_goals simp
  | selAssign => rfl
  | selCycle => rfl
  | selLoop => rfl
  | selWhen => rfl
