import Proofs.HyphenLemmas2
import Proofs.TrimLemmas
/-!
# Hyphens that face literal text (helpers for C13 at template level)

* `faceR`: every `-}}`/`-%}` directly followed, at the same level, by a text is dropped and the
  text left-stripped. The render is the SAME interaction tree (`render_faceR`).
* `faceL`: every text directly followed, at the same level, by `{{-`/`{%-` is right-stripped and
  the hyphen dropped. The operations differ (`[write u, trimLeft]` becomes `[write (rstrip u)]`:
  the stripped text stays pending instead of being written at once), the bytes that reach the
  writer by the next flush do not (`FaceRel`, `faceRel_total`, `face_list`).
* `refl_list`: every render has a trace with calls (`TracedAtL`), the `IncQuiet` analogue of
  `traced_renderList`.
-/

/-! ## `-}}` before a text: the same program -/

theorem writeM_after_trimRight (u : Bytes) (s : RS) :
    writeM u { s with tw := { s.tw with trim := true } } = writeM (trimLeftSpace u) s := by
  unfold writeM
  have h : (if s.tw.trim then trimLeftSpace (trimLeftSpace u) else trimLeftSpace u) = trimLeftSpace u := by
    cases s.tw.trim <;> simp [trimLeftSpace_idem]
  simp only [if_true, h]

theorem renderList_trimRight_text (c : RCtx) (l : Nat) (u : Bytes) (post : List Node) :
    renderList c (.trim false :: .text l u :: post) = renderList c (.text l (trimLeftSpace u) :: post) := by
  funext s
  rw [renderList, renderList, renderList]
  simp only [renderNode, bind, M.bind, trimRightM, pure, M.pure, Prog.bind, wrapFailAt, M.mapFail]
  rw [writeM_after_trimRight]

theorem renderList_cons_congr (c : RCtx) {n n' : Node} {ns ns' : List Node} (hn : renderNode c n = renderNode c n')
    (hns : renderList c ns = renderList c ns') : renderList c (n :: ns) = renderList c (n' :: ns') := by
  rw [renderList, renderList, hn, hns]

theorem renderList_append_congr (c : RCtx) (pre : List Node) {a b : List Node} (h : renderList c a = renderList c b) :
    renderList c (pre ++ a) = renderList c (pre ++ b) := by
  induction pre with
  | nil => exact h
  | cons n pre ih => exact renderList_cons_congr c rfl ih

theorem renderBlockBody_congr (c : RCtx) {a b : List Node} (h : renderList c a = renderList c b) :
    renderBlockBody c a = renderBlockBody c b := by
  unfold renderBlockBody; rw [h]

theorem renderRoot_congr (c : RCtx) {a b : List Node} (h : renderList c a = renderList c b) (env : Env) :
    renderRoot c a env = renderRoot c b env := by
  unfold renderRoot; rw [h]

mutual
def faceRNode : Node → Node
  | .text l s => .text l s
  | .obj l e => .obj l e
  | .raw sl => .raw sl
  | .trim b => .trim b
  | .assign l x e => .assign l x e
  | .capture l x body => .capture l x (faceR body)
  | .ifB l bs => .ifB l (faceRBranches bs)
  | .caseB l s cs => .caseB l s (faceRCases cs)
  | .loop l t v e m body cls => .loop l t v e m (faceR body) (faceRClauses cls)
  | .cycle l g v0 r => .cycle l g v0 r
  | .brk l => .brk l
  | .cont l => .cont l
  | .incl l a => .incl l a
/-- drop every `.trim false` that directly precedes a text at the same level, and left-strip that text -/
def faceR : List Node → List Node
  | [] => []
  | .trim false :: .text l u :: ns => .text l (trimLeftSpace u) :: faceR ns
  | n :: ns => faceRNode n :: faceR ns
def faceRBranches : List (CondT × List Node) → List (CondT × List Node)
  | [] => []
  | (t, body) :: rest => (t, faceR body) :: faceRBranches rest
def faceRCases : List (Option (Nat × List Expr) × List Node) → List (Option (Nat × List Expr) × List Node)
  | [] => []
  | (w, body) :: rest => (w, faceR body) :: faceRCases rest
def faceRClauses : List (List Node) → List (List Node)
  | [] => []
  | body :: rest => faceR body :: faceRClauses rest
end

theorem faceR_fuse (l : Nat) (u : Bytes) (ns : List Node) :
    faceR (.trim false :: .text l u :: ns) = .text l (trimLeftSpace u) :: faceR ns := by simp [faceR]

theorem faceR_trimRight_cons (n : Node) (ns : List Node) (h : ∀ l u, n ≠ .text l u) :
    faceR (.trim false :: n :: ns) = .trim false :: faceR (n :: ns) := by
  cases n with
  | text l u => exact absurd rfl (h l u)
  | trim b => cases b <;> simp [faceR, faceRNode]
  | _ => simp [faceR, faceRNode]

theorem faceR_trimRight_nil : faceR [.trim false] = [.trim false] := by simp [faceR, faceRNode]

theorem faceR_cons_of_ne (n : Node) (ns : List Node) (h : n ≠ .trim false) :
    faceR (n :: ns) = faceRNode n :: faceR ns := by
  cases n with
  | trim b =>
    cases b with
    | false => exact absurd rfl h
    | true => simp [faceR]
  | _ => simp [faceR]

section faceR
variable (c : RCtx)

mutual
theorem render_faceRNode : ∀ n : Node, renderNode c (faceRNode n) = renderNode c n
  | .text _ _ => by rw [faceRNode]
  | .obj _ _ => by rw [faceRNode]
  | .raw _ => by rw [faceRNode]
  | .trim _ => by rw [faceRNode]
  | .assign _ _ _ => by rw [faceRNode]
  | .capture l x body => by
    rw [faceRNode, renderNode, renderNode, (render_faceR body).1]
  | .ifB l bs => by
    rw [faceRNode, renderNode, renderNode, render_faceRBranches bs]
  | .caseB l s cs => by
    rw [faceRNode, renderNode, renderNode]
    simp only [render_faceRCases _ cs]
  | .loop l t v e m body [] => by
    have hb := renderBlockBody_congr c (render_faceR body).1
    simp only [faceRNode, faceRClauses, renderNode, hb]
  | .loop l t v e m body [els] => by
    have hb := renderBlockBody_congr c (render_faceR body).1
    have he := renderBlockBody_congr c (render_faceR els).1
    simp only [faceRNode, faceRClauses, renderNode, hb, he]
  | .loop l t v e m body (c1 :: c2 :: r) => by
    have hb := renderBlockBody_congr c (render_faceR body).1
    simp only [faceRNode, faceRClauses, renderNode, hb]
  | .cycle _ _ _ _ => by rw [faceRNode]
  | .brk _ => by rw [faceRNode]
  | .cont _ => by rw [faceRNode]
  | .incl _ _ => by rw [faceRNode]
/-- for a sequence, and for the sequence with a `-}}` in front of it -/
theorem render_faceR : ∀ ns : List Node, renderList c (faceR ns) = renderList c ns ∧
    renderList c (faceR (.trim false :: ns)) = renderList c (.trim false :: ns)
  | [] => ⟨by rw [faceR], by rw [faceR_trimRight_nil]⟩
  | n :: ns => by
    have ih := render_faceR ns
    have hn := render_faceRNode n
    have h1 : renderList c (faceR (n :: ns)) = renderList c (n :: ns) := by
      by_cases h : n = .trim false
      · subst h; exact ih.2
      · rw [faceR_cons_of_ne n ns h]; exact renderList_cons_congr c hn ih.1
    refine ⟨h1, ?_⟩
    cases n with
    | text l u =>
      rw [faceR_fuse, renderList_trimRight_text]
      exact renderList_cons_congr c rfl ih.1
    | _ =>
      rw [faceR_trimRight_cons _ _ (by intro l u h; cases h)]
      exact renderList_cons_congr c rfl h1
theorem render_faceRBranches : ∀ bs : List (CondT × List Node), renderBranches c (faceRBranches bs) = renderBranches c bs
  | [] => by rw [faceRBranches]
  | (t, body) :: rest => by
    rw [faceRBranches, renderBranches, renderBranches, renderBlockBody_congr c (render_faceR body).1,
      render_faceRBranches rest]
theorem render_faceRCases (sel : GoVal) : ∀ cs : List (Option (Nat × List Expr) × List Node),
    renderCases c sel (faceRCases cs) = renderCases c sel cs
  | [] => by rw [faceRCases]
  | (none, body) :: rest => by
    rw [faceRCases, renderCases, renderCases, renderBlockBody_congr c (render_faceR body).1]
  | (some (line, es), body) :: rest => by
    rw [faceRCases, renderCases, renderCases, renderBlockBody_congr c (render_faceR body).1,
      render_faceRCases sel rest]
end

end faceR

/-! ## A text before `{{-`: the same bytes by the next flush -/

mutual
def faceLNode : Node → Node
  | .text l s => .text l s
  | .obj l e => .obj l e
  | .raw sl => .raw sl
  | .trim b => .trim b
  | .assign l x e => .assign l x e
  | .capture l x body => .capture l x (faceL body)
  | .ifB l bs => .ifB l (faceLBranches bs)
  | .caseB l s cs => .caseB l s (faceLCases cs)
  | .loop l t v e m body cls => .loop l t v e m (faceL body) (faceLClauses cls)
  | .cycle l g v0 r => .cycle l g v0 r
  | .brk l => .brk l
  | .cont l => .cont l
  | .incl l a => .incl l a
/-- right-strip every text that directly precedes a `.trim true` at the same level, and drop that hyphen -/
def faceL : List Node → List Node
  | [] => []
  | .text l u :: .trim true :: ns => .text l (trimRightSpace u) :: faceL ns
  | n :: ns => faceLNode n :: faceL ns
def faceLBranches : List (CondT × List Node) → List (CondT × List Node)
  | [] => []
  | (t, body) :: rest => (t, faceL body) :: faceLBranches rest
def faceLCases : List (Option (Nat × List Expr) × List Node) → List (Option (Nat × List Expr) × List Node)
  | [] => []
  | (w, body) :: rest => (w, faceL body) :: faceLCases rest
def faceLClauses : List (List Node) → List (List Node)
  | [] => []
  | body :: rest => faceL body :: faceLClauses rest
end

theorem faceL_fuse (l : Nat) (u : Bytes) (ns : List Node) :
    faceL (.text l u :: .trim true :: ns) = .text l (trimRightSpace u) :: faceL ns := by simp [faceL]
theorem faceL_text_nil (l : Nat) (u : Bytes) : faceL [.text l u] = [.text l u] := by simp [faceL, faceLNode]
theorem faceL_text_cons (l : Nat) (u : Bytes) (n : Node) (ns : List Node) (h : n ≠ .trim true) :
    faceL (.text l u :: n :: ns) = .text l u :: faceL (n :: ns) := by
  cases n with
  | trim b => cases b <;> simp_all [faceL, faceLNode]
  | _ => simp [faceL, faceLNode]
theorem faceL_cons_of_ne (n : Node) (ns : List Node) (h : ∀ l u, n ≠ .text l u) :
    faceL (n :: ns) = faceLNode n :: faceL ns := by
  cases n with
  | text l u => exact absurd rfl (h l u)
  | _ => simp [faceL]

/-- stripping on the two sides commutes (true of valid UTF-8: `trimComm_of_valid`) -/
def TrimComm (u : Bytes) : Prop := trimRightSpace (trimLeftSpace u) = trimLeftSpace (trimRightSpace u)

instance (u : Bytes) : Decidable (TrimComm u) := by unfold TrimComm; exact inferInstance

theorem trimComm_of_valid (u : Bytes) (h : ValidUtf8 u) : TrimComm u := by
  obtain ⟨rs, hrs, rfl⟩ := h
  unfold TrimComm
  have h1 : ∀ r ∈ rs.dropWhile isSpaceRune, ValidScalar r := scalar_dropWhile hrs _
  have h2 : ∀ r ∈ Gen.rstrip isSpaceRune rs, ValidScalar r := fun r hr =>
    hrs r (((Gen.wsDeletion_rstrip isSpaceRune rs).sublist isSpaceRune).subset hr)
  rw [trimLeftSpace_encode rs hrs, trimRightSpace_encode _ h1, trimRightSpace_encode rs hrs, trimLeftSpace_encode _ h2]
  have := Gen.lstrip_rstrip_comm isSpaceRune rs
  unfold Gen.lstrip at this
  rw [this]

/-- `ops'` is `ops` with some occurrences of `write u, TrimLeft` replaced by `write (rstrip u)` -/
inductive FaceRel : List WOp → List WOp → Prop
  | nil : FaceRel [] []
  | keep (op : WOp) {a a' : List WOp} : FaceRel a a' → FaceRel (op :: a) (op :: a')
  | fuse (u : Bytes) {a a' : List WOp} : TrimComm u → FaceRel a a' →
      FaceRel (.write u :: .trimLeft :: a) (.write (trimRightSpace u) :: a')

theorem faceRel_refl : ∀ a : List WOp, FaceRel a a
  | [] => .nil
  | op :: a => .keep op (faceRel_refl a)

theorem faceRel_append {a a' b b' : List WOp} (h1 : FaceRel a a') (h2 : FaceRel b b') : FaceRel (a ++ b) (a' ++ b') := by
  induction h1 with
  | nil => exact h2
  | keep op _ ih => exact .keep op ih
  | fuse u hu _ ih => exact .fuse u hu ih

theorem faceRel_ok : RelOK (fun _ => True) FaceRel where
  nil := .nil
  app := faceRel_append
  write := fun _ _ => faceRel_refl _
  flush := faceRel_refl _

/-- related operation lists put the same bytes through (written or still pending), from every state -/
theorem faceRel_total {ops ops' : List WOp} (h : FaceRel ops ops') : ∀ t : TW, twTotal t ops = twTotal t ops' := by
  induction h with
  | nil => intro t; rfl
  | keep op _ ih => intro t; rw [twTotal_cons, twTotal_cons, ih]
  | @fuse u a a' hu _ ih =>
    intro t
    rw [twTotal_cons, twTotal_cons, twTotal_cons]
    simp only [TW.step, tw_flatten_flushCalls, List.flatten_cons, List.flatten_nil, List.append_nil]
    have hX : (if t.trim then trimLeftSpace (trimRightSpace u) else trimRightSpace u) =
        trimRightSpace (if t.trim then trimLeftSpace u else u) := by
      cases t.trim
      · simp
      · simp only [if_true]; exact hu.symm
    rw [hX]
    have hp := (twTotal_pending a' (trimRightSpace (if t.trim then trimLeftSpace u else u)) false
      (trimRightSpace_idem _)).1
    rw [hp, ih]

theorem tracedAtL_textNode (c : RCtx) (l : Nat) (u : Bytes) (env : Env) :
    TracedAtL (renderNode c (.text l u)) env [.write u] (.ok .done env) := by
  have hp : TracedAtL (pure Status.done : M Status) env [] (.ok .done env) := fun _ => rfl
  unfold renderNode
  have := tracedAtL_mapFail (fun e => RawErr.located (wrapError c.cfg.path e ⟨l, true⟩))
    (tracedAtL_bind_ok (f := fun _ => (pure Status.done : M Status)) (tracedAtL_write u env) hp)
  simpa [wrapFailAt, EOut.mapErr] using this

theorem gpair_face_fuse (c : RCtx) (l : Nat) (u : Bytes) (hu : TrimComm u) {ns ns' : List Node}
    (h : GPair FaceRel (renderList c ns) (renderList c ns')) :
    GPair FaceRel (renderList c (.text l u :: .trim true :: ns)) (renderList c (.text l (trimRightSpace u) :: ns')) := by
  intro env
  obtain ⟨ops, ops', o, h1, h2, r⟩ := h env
  refine ⟨[.write u] ++ ([.trimLeft] ++ ops), [.write (trimRightSpace u)] ++ ops', o, ?_, ?_, .fuse u hu r⟩
  · rw [renderList]
    refine tracedAtL_bind_ok (tracedAtL_textNode c l u env) ?_
    rw [renderList]
    exact tracedAtL_bind_ok (tracedAtL_trimNode c true env) h1
  · rw [renderList]
    exact tracedAtL_bind_ok (tracedAtL_textNode c l _ env) h2

/-! ## Every render has a trace with calls -/

section refl
variable {R : List WOp → List WOp → Prop} (hR : RelOK (fun _ => True) R) (hop : ∀ op, R [op] [op])
  (c : RCtx) (hc : IncQuiet c)
include hR hop hc
set_option linter.unusedSectionVars false

theorem refl_trimNode (b : Bool) : GPair R (renderNode c (.trim b)) (renderNode c (.trim b)) :=
  fun env => ⟨_, _, _, tracedAtL_trimNode c b env, tracedAtL_trimNode c b env, hop _⟩

mutual
theorem refl_node : ∀ n : Node, GPair R (renderNode c n) (renderNode c n)
  | .text l s => gpair_node_text hR c l s trivial
  | .obj l e => gpair_node_obj hR c (ctxChunks_true c) l e
  | .raw sl => gpair_node_raw hR c sl trivial (fun _ _ => trivial)
  | .trim b => refl_trimNode hR hop c hc b
  | .assign l x e => gpair_node_assign hR c l x e
  | .capture l x _ => gpair_node_capture hR c l x (gpair_quiet hR (quiet_capture _))
  | .ifB l bs => gpair_node_ifB hR c l (refl_branches bs)
  | .caseB l s cs => gpair_node_caseB hR c l s (fun sel => refl_cases sel cs)
  | .loop l t v e m body [] =>
    gpair_node_loop0 hR (fun _ _ => trivial) c l t v e m (gpair_blockBody hR c (refl_list body))
  | .loop l t v e m body [els] =>
    gpair_node_loop1 hR (fun _ _ => trivial) c l t v e m (gpair_blockBody hR c (refl_list body))
      (gpair_blockBody hR c (refl_list els))
  | .loop l t v e m body (_ :: _ :: _) =>
    gpair_node_loop2 hR (fun _ _ => trivial) c l t v e m _ _ _ _ _ _ (gpair_blockBody hR c (refl_list body))
  | .cycle l g v0 r => gpair_node_cycle hR c l g v0 r trivial (fun _ _ => trivial)
  | .brk l => gpair_node_brk hR c l
  | .cont l => gpair_node_cont hR c l
  | .incl l a => gpair_node_incl hR c hc (ctxChunks_true c) l a
theorem refl_list : ∀ ns : List Node, GPair R (renderList c ns) (renderList c ns)
  | [] => gpair_list_nil hR c
  | n :: ns => gpair_list_cons hR c (refl_node n) (refl_list ns)
theorem refl_branches : ∀ bs : List (CondT × List Node), GPair R (renderBranches c bs) (renderBranches c bs)
  | [] => gpair_branches_nil hR c
  | (t, body) :: rest => gpair_branches_cons hR c t (gpair_blockBody hR c (refl_list body)) (refl_branches rest)
theorem refl_cases (sel : GoVal) : ∀ cs : List (Option (Nat × List Expr) × List Node),
    GPair R (renderCases c sel cs) (renderCases c sel cs)
  | [] => gpair_cases_nil hR c sel
  | (none, body) :: _ => gpair_cases_else c sel (gpair_blockBody hR c (refl_list body))
  | (some (line, es), body) :: rest =>
    gpair_cases_when hR c sel line es (gpair_blockBody hR c (refl_list body)) (refl_cases sel rest)
end

end refl

/-- a pair whose left part is the same sequence -/
theorem gpair_list_append_left {R : List WOp → List WOp → Prop} (hR : RelOK (fun _ => True) R) (hop : ∀ op, R [op] [op])
    (c : RCtx) (hc : IncQuiet c) (pre : List Node) {a b : List Node} (h : GPair R (renderList c a) (renderList c b)) :
    GPair R (renderList c (pre ++ a)) (renderList c (pre ++ b)) := by
  induction pre with
  | nil => exact h
  | cons n pre ih => exact gpair_list_cons hR c (refl_node hR hop c hc n) ih

/-! ## The pass for `faceL` -/

section faceL
variable (c : RCtx) (hc : IncQuiet c)
include hc
set_option linter.unusedSectionVars false

mutual
theorem face_node : ∀ n : Node, (∀ u ∈ litNode n, TrimComm u) → GPair FaceRel (renderNode c n) (renderNode c (faceLNode n))
  | .text l s, _ => by rw [faceLNode]; exact gpair_node_text faceRel_ok c l s trivial
  | .obj l e, _ => by rw [faceLNode]; exact gpair_node_obj faceRel_ok c (ctxChunks_true c) l e
  | .raw sl, _ => by rw [faceLNode]; exact gpair_node_raw faceRel_ok c sl trivial (fun _ _ => trivial)
  | .trim b, _ => by rw [faceLNode]; exact refl_trimNode faceRel_ok (fun op => faceRel_refl [op]) c hc b
  | .assign l x e, _ => by rw [faceLNode]; exact gpair_node_assign faceRel_ok c l x e
  | .capture l x body, hl => by
    rw [faceLNode]
    exact gpair_node_capture faceRel_ok c l x (gpair_capture faceRel_ok (fun _ _ r => faceRel_total r {})
      (face_list body (fun u hu => hl u (by simpa [litNode] using hu))).1)
  | .ifB l bs, hl => by
    rw [faceLNode]
    exact gpair_node_ifB faceRel_ok c l (face_branches bs (fun u hu => hl u (by simpa [litNode] using hu)))
  | .caseB l s cs, hl => by
    rw [faceLNode]
    exact gpair_node_caseB faceRel_ok c l s (fun sel => face_cases sel cs (fun u hu => hl u (by simpa [litNode] using hu)))
  | .loop l t v e m body [], hl => by
    rw [faceLNode, faceLClauses]
    exact gpair_node_loop0 faceRel_ok (fun _ _ => trivial) c l t v e m
      (gpair_blockBody faceRel_ok c (face_list body (fun u hu => hl u (by simp [litNode, hu]))).1)
  | .loop l t v e m body [els], hl => by
    rw [faceLNode, faceLClauses, faceLClauses]
    exact gpair_node_loop1 faceRel_ok (fun _ _ => trivial) c l t v e m
      (gpair_blockBody faceRel_ok c (face_list body (fun u hu => hl u (by simp [litNode, hu]))).1)
      (gpair_blockBody faceRel_ok c (face_list els (fun u hu => hl u (by simp [litNode, litClauses, hu]))).1)
  | .loop l t v e m body (c1 :: c2 :: r), hl => by
    rw [faceLNode, faceLClauses, faceLClauses]
    exact gpair_node_loop2 faceRel_ok (fun _ _ => trivial) c l t v e m _ _ _ _ _ _
      (gpair_blockBody faceRel_ok c (face_list body (fun u hu => hl u (by simp [litNode, hu]))).1)
  | .cycle l g v0 r, _ => by rw [faceLNode]; exact gpair_node_cycle faceRel_ok c l g v0 r trivial (fun _ _ => trivial)
  | .brk l, _ => by rw [faceLNode]; exact gpair_node_brk faceRel_ok c l
  | .cont l, _ => by rw [faceLNode]; exact gpair_node_cont faceRel_ok c l
  | .incl l a, _ => by rw [faceLNode]; exact gpair_node_incl faceRel_ok c hc (ctxChunks_true c) l a
/-- for a sequence, and for the sequence with any text in front of it -/
theorem face_list : ∀ ns : List Node, (∀ u ∈ litChunks ns, TrimComm u) →
    GPair FaceRel (renderList c ns) (renderList c (faceL ns)) ∧
    ∀ l u, TrimComm u → GPair FaceRel (renderList c (.text l u :: ns)) (renderList c (faceL (.text l u :: ns)))
  | [], _ => by
    refine ⟨by rw [faceL]; exact gpair_list_nil faceRel_ok c, fun l u _ => ?_⟩
    rw [faceL_text_nil]
    exact gpair_list_cons faceRel_ok c (gpair_node_text faceRel_ok c l u trivial) (gpair_list_nil faceRel_ok c)
  | n :: ns, hl => by
    have ih := face_list ns (fun u hu => hl u (by simp [litChunks, hu]))
    have hn := face_node n (fun u hu => hl u (by simp [litChunks, hu]))
    have h1 : GPair FaceRel (renderList c (n :: ns)) (renderList c (faceL (n :: ns))) := by
      cases n with
      | text l u => exact ih.2 l u (hl u (by simp [litChunks, litNode]))
      | _ =>
        rw [faceL_cons_of_ne _ _ (by intro l u h; cases h)]
        exact gpair_list_cons faceRel_ok c hn ih.1
    refine ⟨h1, fun l u hu => ?_⟩
    by_cases ht : n = .trim true
    · subst ht
      rw [faceL_fuse]
      exact gpair_face_fuse c l u hu ih.1
    · rw [faceL_text_cons l u n ns ht]
      exact gpair_list_cons faceRel_ok c (gpair_node_text faceRel_ok c l u trivial) h1
theorem face_branches : ∀ bs : List (CondT × List Node), (∀ u ∈ litBranches bs, TrimComm u) →
    GPair FaceRel (renderBranches c bs) (renderBranches c (faceLBranches bs))
  | [], _ => by rw [faceLBranches]; exact gpair_branches_nil faceRel_ok c
  | (t, body) :: rest, hl => by
    rw [faceLBranches]
    exact gpair_branches_cons faceRel_ok c t
      (gpair_blockBody faceRel_ok c (face_list body (fun u hu => hl u (by simp [litBranches, hu]))).1)
      (face_branches rest (fun u hu => hl u (by simp [litBranches, hu])))
theorem face_cases (sel : GoVal) : ∀ cs : List (Option (Nat × List Expr) × List Node), (∀ u ∈ litCases cs, TrimComm u) →
    GPair FaceRel (renderCases c sel cs) (renderCases c sel (faceLCases cs))
  | [], _ => by rw [faceLCases]; exact gpair_cases_nil faceRel_ok c sel
  | (none, body) :: rest, hl => by
    rw [faceLCases]
    exact gpair_cases_else c sel
      (gpair_blockBody faceRel_ok c (face_list body (fun u hu => hl u (by simp [litCases, hu]))).1)
  | (some (line, es), body) :: rest, hl => by
    rw [faceLCases]
    exact gpair_cases_when faceRel_ok c sel line es
      (gpair_blockBody faceRel_ok c (face_list body (fun u hu => hl u (by simp [litCases, hu]))).1)
      (face_cases sel rest (fun u hu => hl u (by simp [litCases, hu])))
end

end faceL

/-- related operation lists: the same output of `Render`, after a normal end -/
theorem faceRel_runOps {ops ops' : List WOp} (h : FaceRel ops ops') : runOps ops = runOps ops' := by
  have := faceRel_total h {}
  rw [← twTotal_flush, ← twTotal_flush] at this
  exact this

/-- related operation lists leave the trim flag in the same position -/
theorem faceRel_flag {ops ops' : List WOp} (h : FaceRel ops ops') :
    ∀ t : TW, (TW.run t ops).1.trim = (TW.run t ops').1.trim := by
  induction h with
  | nil => intro t; rfl
  | keep op _ ih => intro t; simp only [TW.run]; exact ih _
  | @fuse u a a' hu _ ih =>
    intro t
    simp only [TW.run, TW.step]
    have hp := (twTotal_pending a' (if t.trim then trimLeftSpace (trimRightSpace u) else trimRightSpace u) false (by
      cases t.trim
      · simp only [Bool.false_eq_true, if_false]; exact trimRightSpace_idem _
      · simp only [if_true]; rw [← hu]; exact trimRightSpace_idem _)).2
    rw [hp]
    exact ih _

/-- `Render` of two root sequences with related traces: the same outcome, and after a normal end
    the same output -/
theorem faceRel_root (c : RCtx) {a b : List Node} (h : GPair FaceRel (renderList c a) (renderList c b)) (env : Env) :
    (renderRoot c a env).runPure.2 = (renderRoot c b env).runPure.2 ∧
    ∀ out, (renderRoot c a env).runPure = (out, .ok .done) → (renderRoot c b env).runPure = (out, .ok .done) := by
  obtain ⟨ops, ops', o, h1, h2, r⟩ := h env
  rw [renderRoot_of_traced c a env ops o h1.toTracedAt, renderRoot_of_traced c b env ops' o h2.toTracedAt]
  refine ⟨rootResult_snd _ _ o, fun out ho => ?_⟩
  obtain ⟨⟨env', rfl⟩, rfl⟩ := rootResult_done _ _ _ ho
  simp only [rootResult, faceRel_runOps r]

/-- a block body (sequence, then flush) with related traces, from ANY state: when one ends
    normally so does the other, having written the same bytes and leaving the same state -/
theorem faceRel_block (c : RCtx) {a b : List Node} (h : GPair FaceRel (renderList c a) (renderList c b)) (s s' : RS)
    (out : Bytes) (hd : (renderBlockBody c a s).runPure = (out, .ok (.done, s'))) :
    (renderBlockBody c b s).runPure = (out, .ok (.done, s')) := by
  obtain ⟨env, tw⟩ := s
  obtain ⟨ops, ops', o, h1, h2, r⟩ := h env
  cases o with
  | ok st env' =>
    cases st with
    | done =>
      rw [tracedAt_blockBody_done c a env env' ops h1.toTracedAt tw] at hd
      rw [tracedAt_blockBody_done c b env env' ops' h2.toTracedAt tw]
      rw [twTotal_flush, tw_run_flush_state] at hd ⊢
      rw [← faceRel_total r, ← faceRel_flag r]
      exact hd
    | brk e =>
      rw [tracedAt_blockBody_other c a env ops _ h1.toTracedAt (by intro _ h; cases h) tw] at hd
      simp [EOut.withTw] at hd
    | cont e =>
      rw [tracedAt_blockBody_other c a env ops _ h1.toTracedAt (by intro _ h; cases h) tw] at hd
      simp [EOut.withTw] at hd
  | err e =>
    rw [tracedAt_blockBody_other c a env ops _ h1.toTracedAt (by intro _ h; cases h) tw] at hd
    simp [EOut.withTw] at hd
  | panic w =>
    rw [tracedAt_blockBody_other c a env ops _ h1.toTracedAt (by intro _ h; cases h) tw] at hd
    simp [EOut.withTw] at hd
  | unmodelled w =>
    rw [tracedAt_blockBody_other c a env ops _ h1.toTracedAt (by intro _ h; cases h) tw] at hd
    simp [EOut.withTw] at hd

/-- the two kinds of fusion together: first texts before `{{-`, then `-}}` before texts -/
def faceText (nodes : List Node) : List Node := faceR (faceL nodes)
