import Proofs.TraceFin
import Proofs.SrcCompileLinesInc
import Proofs.IncLines
import Proofs.C07First
import Proofs.SrcShiftSource
/-!
# Helper lemmas for C07 `run_error_located_at_token`

* what the include handler of the engine reports is the error of `run` on the file: `ctx.RenderFile` compiles
  the file at the tag's line and renders it into a buffer of its own, exactly what `run` does with one include
  level less (`handlerEnds_incFuel`);
* a source that compiles — include tags or not — compiles to a tree whose tags and objects stand at lines of tag
  or object tokens, and a compile error stands at such a line (`compileSource_elines`, `compileSource_err_line`).
-/

/-- the located error, or the sentinel, that `RenderFile` ends with at include depth `fuel` is the error `run`
    returns for the file's source, compiled at the tag's line, with one include level less -/
theorem handlerEnds_incFuel (P : Prims) (O : OutPrims) (cfg : Cfg) (fs : FS) (fuel : Nat) (line : Nat) (f : Bytes) (env : Env) (l : Loc)
    (h : HandlerEnds (incFuel P O cfg fs fuel line f env) l) :
    ∃ n src e, fuel = n + 1 ∧ fileSource fs f = some src ∧ run P O cfg fs n src line env = .err e ∧ l = ⟨e.line, e.pathSet⟩ := by
  cases fuel with
  | zero =>
    rcases h with ⟨e, h1, h2⟩ | ⟨st, out, h1, _⟩
    · simp only [incFuel, Prog.pureFail, Option.some.injEq] at h1
      subst h1
      cases h2
    · simp [incFuel, Prog.pureRet] at h1
  | succ n =>
    refine ⟨n, ?_⟩
    simp only [incFuel] at h
    unfold renderFileWith at h
    unfold fileSource
    have key : ∀ src, HandlerEnds (match compileSource cfg.delims src line with
        | .err e => .fail (.located e)
        | .panic w => .panic w
        | .unmodelled w => .unmodelled w
        | .ok root =>
          match (renderRoot { P := P, O := O, cfg := cfg, inc := incFuel P O cfg fs n } root env).runPure with
          | (out, .ok .done) => .ret (.done, out)
          | (_, .ok st) => .ret (st, [])
          | (_, .err e) => .fail e
          | (_, .panic w) => .panic w
          | (_, .unmodelled w) => .unmodelled w) l →
        ∃ e, run P O cfg fs n src line env = .err e ∧ l = ⟨e.line, e.pathSet⟩ := by
      intro src hh
      unfold run
      cases hc : compileSource cfg.delims src line with
      | err e =>
        simp only [hc] at hh
        rcases hh with ⟨e', h1, h2⟩ | ⟨st, out, h1, _⟩
        · simp only [Prog.pureFail, Option.some.injEq] at h1
          subst h1
          simp only [RawErr.site, Option.some.injEq] at h2
          exact ⟨e, rfl, h2.symm⟩
        · simp [Prog.pureRet] at h1
      | panic w =>
        simp only [hc] at hh
        rcases hh with ⟨e', h1, _⟩ | ⟨st, out, h1, _⟩
        · simp [Prog.pureFail] at h1
        · simp [Prog.pureRet] at h1
      | unmodelled w =>
        simp only [hc] at hh
        rcases hh with ⟨e', h1, _⟩ | ⟨st, out, h1, _⟩
        · simp [Prog.pureFail] at h1
        · simp [Prog.pureRet] at h1
      | ok root =>
        simp only [hc] at hh
        have hctx : ({ P := P, O := O, cfg := cfg, inc := incFuel P O cfg fs n } : RCtx) = mkCtx P O cfg fs n := rfl
        rw [hctx] at hh
        simp only
        cases hr : (renderRoot (mkCtx P O cfg fs n) root env).runPure with
        | mk out o =>
          rw [hr] at hh
          cases o with
          | ok st =>
            cases st with
            | done =>
              rcases hh with ⟨e', h1, _⟩ | ⟨st, out', h1, h2⟩
              · simp [Prog.pureFail] at h1
              · simp only [Prog.pureRet, Option.some.injEq, Prod.mk.injEq] at h1
                rw [← h1.1] at h2
                cases h2
            | brk eb =>
              rcases hh with ⟨e', h1, _⟩ | ⟨st, out', h1, h2⟩
              · simp [Prog.pureFail] at h1
              · simp only [Prog.pureRet, Option.some.injEq, Prod.mk.injEq] at h1
                rw [← h1.1] at h2
                simp only [Status.site, Option.some.injEq] at h2
                have hpf : (frender P O cfg fs n root env).pureFail = some (.located eb) := by
                  unfold frender
                  rw [Prog.pureFail_bind, Prog.pureRet_of_runPure _ _ _ hr]
                  rfl
                rw [Prog.runPure_of_pureFail _ _ hpf]
                exact ⟨eb, rfl, h2.symm⟩
            | cont eb =>
              rcases hh with ⟨e', h1, _⟩ | ⟨st, out', h1, h2⟩
              · simp [Prog.pureFail] at h1
              · simp only [Prog.pureRet, Option.some.injEq, Prod.mk.injEq] at h1
                rw [← h1.1] at h2
                simp only [Status.site, Option.some.injEq] at h2
                have hpf : (frender P O cfg fs n root env).pureFail = some (.located eb) := by
                  unfold frender
                  rw [Prog.pureFail_bind, Prog.pureRet_of_runPure _ _ _ hr]
                  rfl
                rw [Prog.runPure_of_pureFail _ _ hpf]
                exact ⟨eb, rfl, h2.symm⟩
          | err e' =>
            rcases hh with ⟨e'', h1, h2⟩ | ⟨st, out', h1, _⟩
            · simp only [Prog.pureFail, Option.some.injEq] at h1
              subst h1
              cases e' with
              | plain c => cases h2
              | located se =>
                simp only [RawErr.site, Option.some.injEq] at h2
                have hpf : (frender P O cfg fs n root env).pureFail = some (.located se) := by
                  unfold frender
                  rw [Prog.pureFail_bind, Prog.pureRet_none_of_pureFail _ _ (Prog.pureFail_of_runPure _ _ _ hr)]
                  exact Prog.pureFail_of_runPure _ _ _ hr
                rw [Prog.runPure_of_pureFail _ _ hpf]
                exact ⟨se, rfl, h2.symm⟩
            · simp [Prog.pureRet] at h1
          | panic w =>
            rcases hh with ⟨e', h1, _⟩ | ⟨st, out', h1, _⟩
            · simp [Prog.pureFail] at h1
            · simp [Prog.pureRet] at h1
          | unmodelled w =>
            rcases hh with ⟨e', h1, _⟩ | ⟨st, out', h1, _⟩
            · simp [Prog.pureFail] at h1
            · simp [Prog.pureRet] at h1
    cases hrd : fs.read f with
    | content b =>
      simp only [hrd] at h
      obtain ⟨e, h1, h2⟩ := key b h
      exact ⟨b, e, rfl, rfl, h1, h2⟩
    | notExist =>
      simp only [hrd] at h
      cases hch : fs.cache f with
      | none =>
        simp only [hch] at h
        rcases h with ⟨e', h1, h2⟩ | ⟨st, out, h1, _⟩
        · simp only [Prog.pureFail, Option.some.injEq] at h1
          subst h1
          cases h2
        · simp [Prog.pureRet] at h1
      | some b =>
        simp only [hch] at h
        obtain ⟨e, h1, h2⟩ := key b h
        exact ⟨b, e, rfl, rfl, h1, h2⟩
    | otherError =>
      simp only [hrd] at h
      rcases h with ⟨e', h1, h2⟩ | ⟨st, out, h1, _⟩
      · simp only [Prog.pureFail, Option.some.injEq] at h1
        subst h1
        cases h2
      · simp [Prog.pureRet] at h1

/-! ## Compiling a source that may contain include tags -/

/-- a source that compiles: every line of a tag, object or block of the tree is the line of a tag or object token -/
theorem compileSource_elines (delims : List Bytes) (src : Bytes) (line : Nat) (root : List Node)
    (hc : compileSource delims src line = .ok root) : ∀ x, x ∈ elinesList root → TagObjLine (scan delims src line) x := by
  rw [compileSource_eq_compileTokens] at hc
  obtain ⟨_, ast, hd, hcl⟩ := compileTokens_ok hc
  have := epostI_compileList (etokLinesList ast) ast (fun _ hx => hx)
  rw [hcl] at this
  exact fun x hx => hd.etokLines x (this x hx)

/-- a source that compiles: every include node of the tree stands at the line of a tag token named `include`
    and carries that token's argument text -/
theorem compileSource_ilines (delims : List Bytes) (src : Bytes) (line : Nat) (root : List Node)
    (hc : compileSource delims src line = .ok root) : ∀ x, x ∈ ilinesList root → IncTokLine (scan delims src line) x := by
  rw [compileSource_eq_compileTokens] at hc
  obtain ⟨_, ast, hd, hcl⟩ := compileTokens_ok hc
  have := ipost_compileList (itokLinesList ast) ast (fun _ hx => hx)
  rw [hcl] at this
  exact fun x hx => hd.itokLines x (this x hx)

/-- a source that does not compile: the error stands at the line of a tag or object token and names the path -/
theorem compileSource_err_line (delims : List Bytes) (src : Bytes) (line : Nat) (e : SErr)
    (hc : compileSource delims src line = .err e) : TagObjLine (scan delims src line) e.line ∧ e.pathSet = true := by
  rw [compileSource_eq_compileTokens] at hc
  unfold compileTokens at hc
  split at hc
  · cases hc
  · cases hp : parseTokens stdGrammar objChk (scan delims src line) with
    | err pe =>
      rw [hp] at hc
      simp only [liftPErr, bind, Res.bind] at hc
      obtain ⟨pre, t, rest, h1, h2, h3⟩ := parse_error_token stdGrammar objChk _ pe hp
      have hm : t ∈ scan delims src line := by rw [h1]; simp
      cases hk : pe.kind <;> rw [hk] at hc <;> cases hc <;> exact ⟨⟨t, hm, h2.symm, h3⟩, rfl⟩
    | ok ast =>
      rw [hp] at hc
      simp only [liftPErr, bind, Res.bind] at hc
      have hd := derives_of_parse hp
      have := epostI_compileList (etokLinesList ast) ast (fun _ hx => hx)
      rw [hc] at this
      exact ⟨hd.etokLines _ this.1, this.2⟩
    | panic w => rw [hp] at hc; simp [liftPErr, bind, Res.bind] at hc
    | unmodelled w => rw [hp] at hc; simp [liftPErr, bind, Res.bind] at hc

/-- the line of a tag or object token, with the token and its position in the source -/
theorem tagObjLine_split (delims : List Bytes) (src : Bytes) (line : Nat) (x : Nat) (h : TagObjLine (scan delims src line) x) :
    ∃ pre t rest, scan delims src line = pre ++ t :: rest ∧ (t.ty = .tag ∨ t.ty = .obj) ∧ t.line = x ∧
      t.line = line + countNL (srcs pre) ∧ src = srcs pre ++ (t.source ++ srcs rest) := by
  obtain ⟨t, ht, hl, hty⟩ := h
  obtain ⟨pre, rest, hs⟩ := List.append_of_mem ht
  have htr : t.isTrim = false := by rcases hty with h | h <;> simp [Token.isTrim, h]
  obtain ⟨h5, h6⟩ := scan_split_located delims src line pre rest t hs htr
  exact ⟨pre, t, rest, hs, hty, hl, h5, h6⟩

/-- the same for a tag named `include`, with its argument text -/
theorem incTokLine_split (delims : List Bytes) (src : Bytes) (line : Nat) (x : Nat × Bytes) (h : IncTokLine (scan delims src line) x) :
    ∃ pre t rest, scan delims src line = pre ++ t :: rest ∧ t.ty = .tag ∧ t.name = nmInclude ∧ t.line = x.1 ∧ t.args = x.2 ∧
      t.line = line + countNL (srcs pre) ∧ src = srcs pre ++ (t.source ++ srcs rest) := by
  obtain ⟨t, ht, hl, ha, hty, hn⟩ := h
  obtain ⟨pre, rest, hs⟩ := List.append_of_mem ht
  have htr : t.isTrim = false := by simp [Token.isTrim, hty]
  obtain ⟨h5, h6⟩ := scan_split_located delims src line pre rest t hs htr
  exact ⟨pre, t, rest, hs, hty, hn, hl, ha, h5, h6⟩

/-- `ErrAt cfg fs src line x`: the line `x` is reached from the source `src`, parsed at start line `line`, along a
    chain of included files: `x` is the line of a tag or object token of `src` — the start line plus the newlines
    before the token — (`here`), or `src` has a tag token `t` NAMED `include` and the file system holds (on disk, else
    in the cache) a file `dir(path)/rel` such that `x` is reached in the same way from the file's source parsed at
    start line `t.line` (`inFile`: `RenderFile` compiles an included file at the line of the include tag). -/
inductive ErrAt (cfg : Cfg) (fs : FS) : Bytes → Nat → Nat → Prop where
  | here (src : Bytes) (line : Nat) (pre : List Token) (t : Token) (rest : List Token) :
      scan cfg.delims src line = pre ++ t :: rest → (t.ty = .tag ∨ t.ty = .obj) →
      t.line = line + countNL (srcs pre) → src = srcs pre ++ (t.source ++ srcs rest) → ErrAt cfg fs src line t.line
  | inFile (src : Bytes) (line : Nat) (pre : List Token) (t : Token) (rest : List Token) (rel src' : Bytes) (x : Nat) :
      scan cfg.delims src line = pre ++ t :: rest → t.ty = .tag → t.name = nmInclude →
      t.line = line + countNL (srcs pre) → src = srcs pre ++ (t.source ++ srcs rest) →
      fileSource fs (joinPath (dirPath cfg.path) rel) = some src' → ErrAt cfg fs src' t.line x → ErrAt cfg fs src line x

theorem ErrAt.ge {cfg : Cfg} {fs : FS} {src : Bytes} {line x : Nat} (h : ErrAt cfg fs src line x) : line ≤ x := by
  induction h with
  | here src line pre t rest _ _ hl _ => rw [hl]; exact Nat.le_add_right _ _
  | inFile src line pre t rest rel src' x _ _ _ hl _ _ _ ih => rw [hl] at ih; exact Nat.le_trans (Nat.le_add_right _ _) ih

/-- every error of `run` names the configured path — also an error that comes out of an included file, at every
    include depth (induction over the include levels left) -/
theorem run_error_pathSet (P : Prims) (O : OutPrims) (cfg : Cfg) (fs : FS) (fuel : Nat) :
    ∀ (src : Bytes) (line : Nat) (env : Env) (e : SErr), run P O cfg fs fuel src line env = .err e → e.pathSet = true := by
  induction fuel with
  | zero =>
    intro src line env e h
    unfold run at h
    cases hc : compileSource cfg.delims src line with
    | err e0 => rw [hc] at h; cases h; exact (compileSource_err_line cfg.delims src line e hc).2
    | panic w => rw [hc] at h; cases h
    | unmodelled w => rw [hc] at h; cases h
    | ok root =>
      rw [hc] at h
      simp only at h
      split at h
      · cases h
      · next out e1 hr =>
        cases h
        obtain ⟨se, hse, hok⟩ := render_error_eline_or_handler (mkCtx P O cfg fs 0) (incQuiet_mkCtx P O cfg fs 0) root env out _ hr
        cases hse
        rcases hok with ⟨_, h2⟩ | ⟨la, _, s', _, rel, _, _, hh⟩
        · exact h2
        · obtain ⟨n, _, _, hn, _⟩ := handlerEnds_incFuel P O cfg fs 0 la.1 (joinPath (dirPath cfg.path) rel) s'.env _ hh
          cases hn
      · next out c hr =>
        obtain ⟨se, hse, _⟩ := render_error_eline_or_handler (mkCtx P O cfg fs 0) (incQuiet_mkCtx P O cfg fs 0) root env out _ hr
        cases hse
      · cases h
      · cases h
  | succ m ih =>
    intro src line env e h
    unfold run at h
    cases hc : compileSource cfg.delims src line with
    | err e0 => rw [hc] at h; cases h; exact (compileSource_err_line cfg.delims src line e hc).2
    | panic w => rw [hc] at h; cases h
    | unmodelled w => rw [hc] at h; cases h
    | ok root =>
      rw [hc] at h
      simp only at h
      split at h
      · cases h
      · next out e1 hr =>
        cases h
        obtain ⟨se, hse, hok⟩ := render_error_eline_or_handler (mkCtx P O cfg fs (m + 1)) (incQuiet_mkCtx P O cfg fs (m + 1)) root env out _ hr
        cases hse
        rcases hok with ⟨_, h2⟩ | ⟨la, _, s', _, rel, _, _, hh⟩
        · exact h2
        · obtain ⟨n, src', e', hn, _, hrun', hloc⟩ := handlerEnds_incFuel P O cfg fs (m + 1) la.1 (joinPath (dirPath cfg.path) rel) s'.env _ hh
          simp only [Loc.mk.injEq] at hloc
          have hnm : n = m := by omega
          subst hnm
          rw [hloc.2]
          exact ih src' la.1 s'.env e' hrun'
      · next out c hr =>
        obtain ⟨se, hse, _⟩ := render_error_eline_or_handler (mkCtx P O cfg fs (m + 1)) (incQuiet_mkCtx P O cfg fs (m + 1)) root env out _ hr
        cases hse
      · cases h
      · cases h

/-- whether a source has a tag named `include` does not depend on the start line -/
theorem noIncludeTag_any_line (delims : List Bytes) (src : Bytes) (h : NoIncludeTag (scan delims src 0)) (l : Nat) :
    NoIncludeTag (scan delims src l) := by
  have hs := scan_shift delims src 0 l
  rw [Nat.zero_add] at hs
  rw [hs]
  intro t ht
  obtain ⟨t0, ht0, rfl⟩ := List.mem_map.mp ht
  rw [relTokC_ty, relTokC_name]
  exact h t0 ht0
