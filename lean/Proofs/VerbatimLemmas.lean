import Proofs.C05Render
import Proofs.C12
import Proofs.SrcTags
/-!
# Helper lemmas for `Proofs/C05Verbatim.lean`: runs of verbatim writes, sequences, roots
-/

theorem renderList_cons_apply (c : RCtx) (n : Node) (ns : List Node) (s : RS) :
    renderList c (n :: ns) s = (renderNode c n s).bind fun r =>
      match r.1 with
      | .done => renderList c ns r.2
      | st => .ret (st, r.2) := by
  simp only [renderList, bind, M.bind]
  congr 1
  funext r
  obtain ⟨st, s'⟩ := r
  cases st <;> rfl

/-- a run of verbatim writes from a trim writer that holds nothing -/
theorem writeAll_runPure_clear (env : Env) : ∀ cs : List Bytes,
    (writeAllM cs ⟨env, ⟨[], false⟩⟩).runPure = (cs.flatten, .ok ((), ⟨env, ⟨[], false⟩⟩))
  | [] => rfl
  | c :: cs => by
    simp only [writeAllM, bind, M.bind]
    rw [Prog.runPure_bind, writeVerbatim_runPure]
    simp only [writeAll_runPure_clear env cs, List.nil_append, List.flatten_cons]

/-- a non-empty run of verbatim writes, from ANY state of the trim writer: the pending text goes out
    unchanged, then every chunk unchanged — a pending right trim is dropped, not applied — and nothing
    stays pending -/
theorem writeAll_runPure (cs : List Bytes) (hne : cs ≠ []) (env : Env) (buf : Bytes) (t : Bool) :
    (writeAllM cs ⟨env, ⟨buf, t⟩⟩).runPure = (buf ++ cs.flatten, .ok ((), ⟨env, ⟨[], false⟩⟩)) := by
  cases cs with
  | nil => exact absurd rfl hne
  | cons c cs =>
    simp only [writeAllM, bind, M.bind]
    rw [Prog.runPure_bind, writeVerbatim_runPure]
    simp only [writeAll_runPure_clear env cs, List.flatten_cons, List.append_assoc]

/-- a sequence whose first part ends normally: the second part runs from the state the first left -/
theorem renderList_append_run (c : RCtx) (B : List Node) : ∀ (A : List Node) (s0 s1 : RS) (outA : Bytes),
    (renderList c A s0).runPure = (outA, .ok (.done, s1)) →
    (renderList c (A ++ B) s0).runPure = (outA ++ (renderList c B s1).runPure.1, (renderList c B s1).runPure.2)
  | [], s0, s1, outA, h => by
    simp only [renderList, pure, M.pure, Prog.runPure, Prod.mk.injEq, Prog.Outcome.ok.injEq] at h
    obtain ⟨rfl, -, rfl⟩ := h
    simp
  | n :: A, s0, s1, outA, h => by
    rw [List.cons_append, renderList_cons_apply, Prog.runPure_bind]
    rw [renderList_cons_apply, Prog.runPure_bind] at h
    rcases hn : (renderNode c n s0).runPure with ⟨o, r⟩
    rw [hn] at h
    cases r with
    | ok r =>
      obtain ⟨st, s'⟩ := r
      cases st with
      | done =>
        simp only at h ⊢
        rcases hA : (renderList c A s').runPure with ⟨oA, rA⟩
        rw [hA] at h
        simp only [Prod.mk.injEq] at h
        obtain ⟨rfl, rfl⟩ := h
        rw [renderList_append_run c B A s' s1 oA hA, List.append_assoc]
      | brk e => simp [Prog.runPure] at h
      | cont e => simp [Prog.runPure] at h
    | err e => simp at h
    | panic w => simp at h
    | unmodelled w => simp at h

/-- a block body that ended normally, read on its sequence: the output is what the sequence wrote plus
    what it left pending -/
theorem blockBody_done_list (c : RCtx) (A : List Node) (s0 s1 : RS) (outA : Bytes)
    (h : (renderBlockBody c A s0).runPure = (outA, .ok (.done, s1))) :
    ∃ o s', (renderList c A s0).runPure = (o, .ok (.done, s')) ∧ outA = o ++ s'.tw.buf ∧ s1.env = s'.env := by
  unfold renderBlockBody at h
  simp only [bind, M.bind] at h
  rw [Prog.runPure_bind] at h
  rcases hl : (renderList c A s0).runPure with ⟨o1, r1⟩
  rw [hl] at h
  cases r1 with
  | ok r =>
    obtain ⟨st, s'⟩ := r
    cases st with
    | done =>
      simp only [M.bind] at h
      rw [Prog.runPure_bind] at h
      rcases hf : (wrapFailAt c.cfg.path invalidLoc flushM s').runPure with ⟨o2, r2⟩
      rw [hf] at h
      cases r2 with
      | ok r2 =>
        obtain ⟨u, s2⟩ := r2
        simp only [pure, M.pure, Prog.runPure, List.append_nil, Prod.mk.injEq, Prog.Outcome.ok.injEq] at h
        obtain ⟨rfl, -, rfl⟩ := h
        obtain ⟨-, -, henv, rfl⟩ := flush_done_buf s' o2 s2 _ _ hf
        exact ⟨o1, s', rfl, rfl, henv⟩
      | err e => simp at h
      | panic w => simp at h
      | unmodelled w => simp at h
    | brk e => simp [pure, M.pure, Prog.runPure] at h
    | cont e => simp [pure, M.pure, Prog.runPure] at h
  | err e => simp at h
  | panic w => simp at h
  | unmodelled w => simp at h

/-- `Render` of a sequence that starts from a trim writer holding nothing -/
theorem renderRoot_runPure (c : RCtx) (root : List Node) (env : Env) :
    (renderRoot c root env).runPure =
      match (renderList c root ⟨env, {}⟩).runPure with
      | (o, .ok (.done, s)) =>
        (o ++ ((wrapFailAt c.cfg.path invalidLoc flushM s).bind fun _ => (.ret .done : Prog Status)).runPure.1,
         ((wrapFailAt c.cfg.path invalidLoc flushM s).bind fun _ => (.ret .done : Prog Status)).runPure.2)
      | (o, .ok (.brk e, _)) => (o, .ok (.brk e))
      | (o, .ok (.cont e, _)) => (o, .ok (.cont e))
      | (o, .err e) => (o, .err e)
      | (o, .panic w) => (o, .panic w)
      | (o, .unmodelled w) => (o, .unmodelled w) := by
  unfold renderRoot
  rw [Prog.runPure_bind]
  rcases (renderList c root ⟨env, {}⟩).runPure with ⟨o, r⟩
  cases r with
  | ok r =>
    obtain ⟨st, s⟩ := r
    cases st <;> simp [Prog.runPure]
  | err e => rfl
  | panic w => rfl
  | unmodelled w => rfl

/-- a sequence and a final flush, from output and state of a first part: `Render` of the whole in terms of
    `Render` of the second part -/
theorem renderRoot_of_prefix (c : RCtx) (X B : List Node) (env : Env) (o : Bytes) (env1 : Env)
    (h : (renderList c X ⟨env, {}⟩).runPure = (o, .ok (.done, ⟨env1, {}⟩))) :
    (renderRoot c (X ++ B) env).runPure = (o ++ (renderRoot c B env1).runPure.1, (renderRoot c B env1).runPure.2) := by
  rw [renderRoot_runPure, renderRoot_runPure, renderList_append_run c B X _ _ o h]
  rcases (renderList c B ⟨env1, {}⟩).runPure with ⟨oB, rB⟩
  cases rB with
  | ok r =>
    obtain ⟨st, s⟩ := r
    cases st <;> simp [List.append_assoc]
  | err e => rfl
  | panic w => rfl
  | unmodelled w => rfl

theorem trimRight_node_run (c : RCtx) (env : Env) (B : Bytes) (t : Bool) :
    (renderNode c (.trim false) ⟨env, ⟨B, t⟩⟩).runPure = ([], .ok (.done, ⟨env, ⟨B, true⟩⟩)) := by
  simp [renderNode, trimRightM, bind, M.bind, pure, M.pure, Prog.bind, Prog.runPure]

theorem trimLeft_node_run (c : RCtx) (env : Env) (B : Bytes) (t : Bool) :
    (renderNode c (.trim true) ⟨env, ⟨B, t⟩⟩).runPure = (trimRightSpace B, .ok (.done, ⟨env, ⟨[], t⟩⟩)) := by
  simp [renderNode, trimLeftM, wrapFailAt, M.mapFail, bind, M.bind, pure, M.pure, Prog.bind, Prog.mapFail, Prog.runPure]

theorem final_flush_clear (path : Bytes) (env : Env) (t : Bool) :
    (wrapFailAt path invalidLoc flushM ⟨env, ⟨[], t⟩⟩).runPure = ([], .ok ((), ⟨env, ⟨[], t⟩⟩)) := by
  simp [wrapFailAt, M.mapFail, flushM, Prog.mapFail, Prog.runPure]
