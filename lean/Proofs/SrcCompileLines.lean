import Proofs.SrcLines
import Proofs.SrcItems
/-!
# From the token list to the tree, for the nodes that can fail

The lines of the compiled nodes other than texts, raw blocks and trim markers (`elinesList`) are lines of
TAG or OBJECT tokens of the source; a compile-time error carries such a line and the template's path; a
token list without a tag named `include` compiles to an include-free tree.
-/

mutual
def AST.etokLines : AST → List Nat
  | .text _ => []
  | .obj t => [t.line]
  | .tag t => [t.line]
  | .trim _ => []
  | .raw _ => []
  | .block t body clauses => t.line :: (etokLinesList body ++ etokLinesClauses clauses)
def etokLinesList : List AST → List Nat
  | [] => []
  | n :: ns => n.etokLines ++ etokLinesList ns
def etokLinesClauses : List (Token × List AST) → List Nat
  | [] => []
  | (t, body) :: cs => t.line :: (etokLinesList body ++ etokLinesClauses cs)
end

mutual
/-- no tag named `include` -/
def AST.noInc : AST → Bool
  | .tag t => t.name != nmInclude
  | .block _ body clauses => noIncList body && noIncClauses clauses
  | _ => true
def noIncList : List AST → Bool
  | [] => true
  | n :: ns => n.noInc && noIncList ns
def noIncClauses : List (Token × List AST) → Bool
  | [] => true
  | (_, body) :: cs => noIncList body && noIncClauses cs
end

def elinesCClauses : List (Token × List Node) → List Nat
  | [] => []
  | (t, body) :: cs => t.line :: (elinesList body ++ elinesCClauses cs)

def noInclCClauses : List (Token × List Node) → Bool
  | [] => true
  | (_, body) :: cs => noInclList body && noInclCClauses cs

theorem epost_liftParse {α} (L : List Nat) (line : Nat) (keep : Bool) (r : Res ParseErr α) (hl : line ∈ L) :
    CPost (ELoc L) (fun _ => True) (liftParse line keep r) := by
  cases r with
  | ok a => exact True.intro
  | err e => simp only [liftParse, CPost]; split <;> exact ⟨hl, rfl⟩
  | panic w => exact True.intro
  | unmodelled w => exact True.intro

theorem epost_ifClauseTests (L : List Nat) :
    ∀ cs : List (Token × List Node), (∀ x, x ∈ elinesCClauses cs → x ∈ L) → noInclCClauses cs = true →
      CPost (ELoc L) (fun r => (∀ x, x ∈ elinesBranches r → x ∈ L) ∧ noInclBranches r = true) (compileIfClauseTests cs)
  | [], _, _ => by simp [compileIfClauseTests, CPost, elinesBranches, noInclBranches]
  | (t, body) :: cs, hL, hn => by
    unfold compileIfClauseTests
    have hn' : noInclList body = true ∧ noInclCClauses cs = true := by simpa [noInclCClauses] using hn
    refine CPost.bind (R := fun test => ∀ x, x ∈ test.lines → x ∈ L) ?_ (fun test htest =>
      CPost.bind (epost_ifClauseTests L cs (fun x hx => hL x (by simp [elinesCClauses, hx])) hn'.2) (fun rest hrest => ?_))
    · split
      · refine CPost.bind (epost_liftParse L t.line true _ (hL _ (by simp [elinesCClauses]))) (fun e _ => ?_)
        exact CPost.pure _ (fun x hx => by
          simp only [CondT.lines, List.mem_singleton] at hx; subst hx; exact hL _ (by simp [elinesCClauses]))
      · exact CPost.pure _ (fun x hx => by simp [CondT.lines] at hx)
    · refine CPost.pure _ ⟨fun x hx => ?_, by simp [noInclBranches, hn'.1, hrest.2]⟩
      simp only [elinesBranches, List.mem_append] at hx
      rcases hx with (hx | hx) | hx
      · exact htest x hx
      · exact hL x (by simp [elinesCClauses, hx])
      · exact hrest.1 x hx

theorem epost_caseClauses (L : List Nat) :
    ∀ cs : List (Token × List Node), (∀ x, x ∈ elinesCClauses cs → x ∈ L) → noInclCClauses cs = true →
      CPost (ELoc L) (fun r => (∀ x, x ∈ elinesCases r → x ∈ L) ∧ noInclCases r = true) (compileCaseClauses cs)
  | [], _, _ => by simp [compileCaseClauses, CPost, elinesCases, noInclCases]
  | (t, body) :: cs, hL, hn => by
    unfold compileCaseClauses
    have hn' : noInclList body = true ∧ noInclCClauses cs = true := by simpa [noInclCClauses] using hn
    have ht : t.line ∈ L := hL _ (by simp [elinesCClauses])
    refine CPost.bind (R := fun c => ∀ l es, c = some (l, es) → l ∈ L) ?_ (fun c hc =>
      CPost.bind (epost_caseClauses L cs (fun x hx => hL x (by simp [elinesCClauses, hx])) hn'.2) (fun rest hrest => ?_))
    · split
      · refine CPost.bind (epost_liftParse L t.line true _ ht) (fun st _ => ?_)
        split
        · exact CPost.pure _ (fun l es h => by cases h; exact ht)
        · exact ⟨ht, rfl⟩
      · exact CPost.pure _ (fun l es h => by cases h)
    · refine CPost.pure _ ⟨fun x hx => ?_, by simp [noInclCases, hn'.1, hrest.2]⟩
      cases c with
      | none =>
        simp only [elinesCases, List.mem_append] at hx
        rcases hx with hx | hx
        · exact hL x (by simp [elinesCClauses, hx])
        · exact hrest.1 x hx
      | some p =>
        obtain ⟨l, es⟩ := p
        simp only [elinesCases, List.mem_cons, List.mem_append] at hx
        rcases hx with hx | hx | hx
        · subst hx; exact hc _ _ rfl
        · exact hL x (by simp [elinesCClauses, hx])
        · exact hrest.1 x hx

theorem elinesList_append : ∀ a b : List Node, elinesList (a ++ b) = elinesList a ++ elinesList b
  | [], _ => rfl
  | n :: ns, b => by simp [elinesList, elinesList_append ns b]

theorem noInclList_append : ∀ a b : List Node, noInclList (a ++ b) = (noInclList a && noInclList b)
  | [], _ => by simp [noInclList]
  | n :: ns, b => by simp [noInclList, noInclList_append ns b, Bool.and_assoc]

theorem elinesClauses_map_snd (L : List Nat) : ∀ cs : List (Token × List Node),
    (∀ x, x ∈ elinesCClauses cs → x ∈ L) → ∀ x, x ∈ elinesClauses (cs.map (·.2)) → x ∈ L
  | [], _, x, hx => by simp [elinesClauses] at hx
  | (t, body) :: cs, hL, x, hx => by
    simp only [List.map_cons, elinesClauses, List.mem_append] at hx
    rcases hx with hx | hx
    · exact hL x (by simp [elinesCClauses, hx])
    · exact elinesClauses_map_snd L cs (fun y hy => hL y (by simp [elinesCClauses, hy])) x hx

theorem noInclClauses_map_snd : ∀ cs : List (Token × List Node), noInclClauses (cs.map (·.2)) = noInclCClauses cs
  | [] => rfl
  | (t, body) :: cs => by simp [noInclClauses, noInclCClauses, noInclClauses_map_snd cs]

/-- the post-condition of compiling a subtree: lines inside `L`, no include node -/
def CGood (L : List Nat) (ns : List Node) : Prop := (∀ x, x ∈ elinesList ns → x ∈ L) ∧ noInclList ns = true

mutual
theorem epost_compileNode (L : List Nat) :
    ∀ a : AST, (∀ x, x ∈ a.etokLines → x ∈ L) → a.noInc = true → CPost (ELoc L) (CGood L) (compileNode a)
  | .text t, _, _ => by
    simp [compileNode, CPost, CGood, elinesList, Node.elines, noInclList, Node.noIncl]
  | .obj t, hL, _ => by
    have ht : t.line ∈ L := hL _ (by simp [AST.etokLines])
    unfold compileNode
    split
    · simp only [CPost, CGood, elinesList, Node.elines, List.append_nil, List.mem_singleton, noInclList, Node.noIncl, Bool.and_self,
        and_true]
      intro x hx; subst hx; exact ht
    · exact ⟨ht, rfl⟩
    · exact True.intro
    · exact True.intro
  | .trim l, _, _ => by simp [compileNode, CPost, CGood, elinesList, Node.elines, noInclList, Node.noIncl]
  | .raw sl, _, _ => by simp [compileNode, CPost, CGood, elinesList, Node.elines, noInclList, Node.noIncl]
  | .tag t, hL, hn => by
    have ht : t.line ∈ L := hL _ (by simp [AST.etokLines])
    have hni : (t.name == nmInclude) = false := by simpa [AST.noInc] using hn
    have one : ∀ n : Node, n.elines = [t.line] → n.noIncl = true → CGood L [n] := by
      intro n hn hi
      refine ⟨fun x hx => ?_, by simp [noInclList, hi]⟩
      simp only [elinesList, hn, List.append_nil, List.mem_singleton] at hx; subst hx; exact ht
    unfold compileNode
    split
    · refine CPost.bind (epost_liftParse L t.line false _ ht) (fun st _ => ?_)
      split
      · exact CPost.pure _ (one _ rfl rfl)
      · exact ⟨ht, rfl⟩
    · split
      · next h => rw [hni] at h; cases h
      · split
        · exact one _ rfl rfl
        · split
          · exact one _ rfl rfl
          · split
            · refine CPost.bind (epost_liftParse L t.line false _ ht) (fun st _ => ?_)
              split
              · exact CPost.pure _ (one _ rfl rfl)
              · exact ⟨ht, rfl⟩
            · exact ⟨ht, rfl⟩
  | .block t body clauses, hL, hn => by
    have ht : t.line ∈ L := hL _ (by simp [AST.etokLines])
    have hn' : noIncList body = true ∧ noIncClauses clauses = true := by simpa [AST.noInc] using hn
    unfold compileNode
    refine CPost.bind (epost_compileList L body (fun x hx => hL x (by simp [AST.etokLines, hx])) hn'.1) (fun b hb =>
      CPost.bind (epost_compileClauses L clauses (fun x hx => hL x (by simp [AST.etokLines, hx])) hn'.2) (fun cs hcs => ?_))
    split
    · refine CPost.bind (epost_liftParse L t.line true _ ht) (fun e _ =>
        CPost.bind (epost_ifClauseTests L cs hcs.1 hcs.2) (fun rest hrest => CPost.pure _ ⟨fun x hx => ?_, ?_⟩))
      · simp only [elinesList, Node.elines, elinesBranches, List.append_nil, List.mem_cons, List.mem_append] at hx
        rcases hx with hx | (hx | hx) | hx
        · subst hx; exact ht
        · split at hx <;> (simp only [CondT.lines, List.mem_singleton] at hx; subst hx; exact ht)
        · exact hb.1 x hx
        · exact hrest.1 x hx
      · simp [noInclList, Node.noIncl, noInclBranches, hb.2, hrest.2]
    · split
      · refine CPost.bind (epost_liftParse L t.line true _ ht) (fun e _ =>
          CPost.bind (epost_caseClauses L cs hcs.1 hcs.2) (fun cases hcases => CPost.pure _ ⟨fun x hx => ?_, ?_⟩))
        · simp only [elinesList, Node.elines, List.append_nil, List.mem_cons] at hx
          rcases hx with hx | hx
          · subst hx; exact ht
          · exact hcases.1 x hx
        · simp [noInclList, Node.noIncl, hcases.2]
      · split
        · refine CPost.bind (epost_liftParse L t.line true _ ht) (fun st _ => ?_)
          split
          · refine CPost.pure _ ⟨fun x hx => ?_, ?_⟩
            · simp only [elinesList, Node.elines, List.append_nil, List.mem_cons, List.mem_append] at hx
              rcases hx with hx | hx | hx
              · subst hx; exact ht
              · exact hb.1 x hx
              · exact elinesClauses_map_snd L cs hcs.1 x hx
            · simp [noInclList, Node.noIncl, hb.2, noInclClauses_map_snd, hcs.2]
          · exact ⟨ht, rfl⟩
        · split
          · refine CPost.pure _ ⟨fun x hx => ?_, ?_⟩
            · simp only [elinesList, Node.elines, List.append_nil, List.mem_cons] at hx
              rcases hx with hx | hx
              · subst hx; exact ht
              · exact hb.1 x hx
            · simp [noInclList, Node.noIncl, hb.2]
          · exact True.intro
theorem epost_compileList (L : List Nat) :
    ∀ as : List AST, (∀ x, x ∈ etokLinesList as → x ∈ L) → noIncList as = true → CPost (ELoc L) (CGood L) (compileList as)
  | [], _, _ => by simp [compileList, CPost, CGood, elinesList, noInclList]
  | a :: as, hL, hn => by
    unfold compileList
    have hn' : a.noInc = true ∧ noIncList as = true := by simpa [noIncList] using hn
    refine CPost.bind (epost_compileNode L a (fun x hx => hL x (by simp [etokLinesList, hx])) hn'.1) (fun na hna =>
      CPost.bind (epost_compileList L as (fun x hx => hL x (by simp [etokLinesList, hx])) hn'.2) (fun nb hnb =>
        CPost.pure _ ⟨fun x hx => ?_, by rw [noInclList_append, hna.2, hnb.2]; rfl⟩))
    rw [elinesList_append, List.mem_append] at hx
    exact hx.elim (hna.1 x) (hnb.1 x)
theorem epost_compileClauses (L : List Nat) :
    ∀ cs : List (Token × List AST), (∀ x, x ∈ etokLinesClauses cs → x ∈ L) → noIncClauses cs = true →
      CPost (ELoc L) (fun r => (∀ x, x ∈ elinesCClauses r → x ∈ L) ∧ noInclCClauses r = true) (compileClauses cs)
  | [], _, _ => by simp [compileClauses, CPost, elinesCClauses, noInclCClauses]
  | (t, body) :: cs, hL, hn => by
    unfold compileClauses
    have hn' : noIncList body = true ∧ noIncClauses cs = true := by simpa [noIncClauses] using hn
    refine CPost.bind (epost_compileList L body (fun x hx => hL x (by simp [etokLinesClauses, hx])) hn'.1) (fun b hb =>
      CPost.bind (epost_compileClauses L cs (fun x hx => hL x (by simp [etokLinesClauses, hx])) hn'.2) (fun rest hrest =>
        CPost.pure _ ⟨fun x hx => ?_, by simp [noInclCClauses, hb.2, hrest.2]⟩))
    simp only [elinesCClauses, List.mem_cons, List.mem_append] at hx
    rcases hx with hx | hx | hx
    · subst hx; exact hL _ (by simp [etokLinesClauses])
    · exact hb.1 x hx
    · exact hrest.1 x hx
end

/-! ## From the tree to the tokens, along the derivation -/

/-- `x` is the line of a tag or object token of the list -/
def TagObjLine (toks : List Token) (x : Nat) : Prop := ∃ t ∈ toks, t.line = x ∧ (t.ty = .tag ∨ t.ty = .obj)

theorem TagObjLine.cons {toks : List Token} {x : Nat} (t0 : Token) (h : TagObjLine toks x) : TagObjLine (t0 :: toks) x := by
  obtain ⟨t, ht, hl⟩ := h
  exact ⟨t, List.mem_cons_of_mem _ ht, hl⟩

theorem TagObjLine.mono {a b : List Token} {x : Nat} (h : TagObjLine a x) (hs : ∀ t, t ∈ a → t ∈ b) : TagObjLine b x := by
  obtain ⟨t, ht, hl⟩ := h
  exact ⟨t, hs t ht, hl⟩

theorem etokLines_segs {g : Grammar} {o : Token} : ∀ (segs : List Seg), (∀ sg ∈ segs, g.isClauseOf o sg.1 = true) →
    (∀ sg, sg ∈ segs → ∀ x, x ∈ etokLinesList sg.2.2 → TagObjLine sg.2.1 x) →
    ∀ x, x ∈ etokLinesClauses (segASTs segs) → TagObjLine (segToks segs) x
  | [], _, _, x, hx => by simp [segASTs, etokLinesClauses] at hx
  | (c, ts, ns) :: r, hcl, ih, x, hx => by
    simp only [segASTs, etokLinesClauses, List.mem_cons, List.mem_append] at hx
    simp only [segToks]
    rcases hx with hx | hx | hx
    · have := hcl (c, ts, ns) (List.mem_cons_self ..)
      simp only [Grammar.isClauseOf, Bool.and_eq_true, beq_iff_eq] at this
      exact ⟨c, List.mem_cons_self .., hx.symm, .inl this.1.1.1⟩
    · exact ((ih (c, ts, ns) (List.mem_cons_self ..) x hx).mono (fun t ht => List.mem_append_left _ ht)).cons c
    · exact ((etokLines_segs r (fun sg h => hcl sg (List.mem_cons_of_mem _ h)) (fun sg h => ih sg (List.mem_cons_of_mem _ h)) x hx).mono
        (fun t ht => List.mem_append_right _ ht)).cons c

/-- every line of a tag, object or block of the derived tree is the line of a tag or object token -/
theorem Derives.etokLines {g : Grammar} {chk : Bytes → Option Cause} {toks : List Token} {ast : List AST}
    (h : Derives g chk toks ast) : ∀ x, x ∈ etokLinesList ast → TagObjLine toks x := by
  induction h with
  | nil => intro x hx; simp [etokLinesList] at hx
  | text t rest ns ht _ ih =>
    intro x hx
    simp only [etokLinesList, AST.etokLines, List.nil_append] at hx
    exact (ih x hx).cons t
  | obj t rest ns ht hc _ ih =>
    intro x hx
    simp only [etokLinesList, AST.etokLines, List.singleton_append, List.mem_cons] at hx
    rcases hx with hx | hx
    · exact ⟨t, List.mem_cons_self .., hx.symm, .inr ht⟩
    · exact (ih x hx).cons t
  | trimL t rest ns ht _ ih =>
    intro x hx
    simp only [etokLinesList, AST.etokLines, List.nil_append] at hx
    exact (ih x hx).cons t
  | trimR t rest ns ht _ ih =>
    intro x hx
    simp only [etokLinesList, AST.etokLines, List.nil_append] at hx
    exact (ih x hx).cons t
  | tag t rest ns ht _ ih =>
    intro x hx
    simp only [etokLinesList, AST.etokLines, List.singleton_append, List.mem_cons] at hx
    rcases hx with hx | hx
    · simp only [Grammar.isPlain, Bool.and_eq_true, beq_iff_eq] at ht
      exact ⟨t, List.mem_cons_self .., hx.symm, .inl ht.1⟩
    · exact (ih x hx).cons t
  | comment o c interior rest ns ho hi hc _ ih =>
    intro x hx
    exact ((ih x hx).mono (fun t ht => List.mem_append_right _ (List.mem_cons_of_mem _ ht))).cons o
  | raw o c interior rest ns ho hi hc _ ih =>
    intro x hx
    simp only [etokLinesList, AST.etokLines, List.nil_append] at hx
    exact ((ih x hx).mono (fun t ht => List.mem_append_right _ (List.mem_cons_of_mem _ ht))).cons o
  | block o e body bns segs rest ns ho _ hcl _ he _ ihb ihs ihr =>
    intro x hx
    simp only [etokLinesList, AST.etokLines, List.cons_append, List.mem_cons, List.mem_append, List.append_assoc] at hx
    rcases hx with hx | hx | hx | hx
    · simp only [Grammar.isOpen, Bool.and_eq_true, beq_iff_eq] at ho
      exact ⟨o, List.mem_cons_self .., hx.symm, .inl ho.1.1.1⟩
    · exact ((ihb x hx).mono (fun t ht => List.mem_append_left _ ht)).cons o
    · exact ((etokLines_segs segs hcl ihs x hx).mono
        (fun t ht => List.mem_append_right _ (List.mem_append_left _ ht))).cons o
    · exact ((ihr x hx).mono
        (fun t ht => List.mem_append_right _ (List.mem_append_right _ (List.mem_cons_of_mem _ ht)))).cons o

theorem noInc_segs : ∀ (segs : List Seg), (∀ sg, sg ∈ segs → noIncList sg.2.2 = true) → noIncClauses (segASTs segs) = true
  | [], _ => rfl
  | (c, ts, ns) :: r, h => by
    simp only [segASTs, noIncClauses, Bool.and_eq_true]
    exact ⟨h _ (List.mem_cons_self ..), noInc_segs r (fun sg hs => h sg (List.mem_cons_of_mem _ hs))⟩

theorem mem_segToks_of_mem {sg : Seg} : ∀ {segs : List Seg}, sg ∈ segs → ∀ t, t ∈ sg.2.1 → t ∈ segToks segs
  | [], h, _, _ => by cases h
  | (c, ts, ns) :: r, h, t, ht => by
    simp only [segToks]
    rcases List.mem_cons.mp h with rfl | h
    · exact List.mem_cons_of_mem _ (List.mem_append_left _ ht)
    · exact List.mem_cons_of_mem _ (List.mem_append_right _ (mem_segToks_of_mem h t ht))

/-- a token list without a tag named `include` derives a tree without one -/
theorem Derives.noInc {g : Grammar} {chk : Bytes → Option Cause} {toks : List Token} {ast : List AST}
    (h : Derives g chk toks ast) : (∀ t ∈ toks, ¬ (t.ty = .tag ∧ t.name = nmInclude)) → noIncList ast = true := by
  induction h with
  | nil => intro _; rfl
  | text t rest ns ht _ ih =>
    intro hni
    simp only [noIncList, AST.noInc, Bool.true_and]
    exact ih (fun t' ht' => hni t' (List.mem_cons_of_mem _ ht'))
  | obj t rest ns ht hc _ ih =>
    intro hni
    simp only [noIncList, AST.noInc, Bool.true_and]
    exact ih (fun t' ht' => hni t' (List.mem_cons_of_mem _ ht'))
  | trimL t rest ns ht _ ih =>
    intro hni
    simp only [noIncList, AST.noInc, Bool.true_and]
    exact ih (fun t' ht' => hni t' (List.mem_cons_of_mem _ ht'))
  | trimR t rest ns ht _ ih =>
    intro hni
    simp only [noIncList, AST.noInc, Bool.true_and]
    exact ih (fun t' ht' => hni t' (List.mem_cons_of_mem _ ht'))
  | tag t rest ns ht _ ih =>
    intro hni
    simp only [noIncList, AST.noInc, Bool.and_eq_true, bne_iff_ne, ne_eq]
    simp only [Grammar.isPlain, Bool.and_eq_true, beq_iff_eq] at ht
    exact ⟨fun hn => hni t (List.mem_cons_self ..) ⟨ht.1, hn⟩, ih (fun t' ht' => hni t' (List.mem_cons_of_mem _ ht'))⟩
  | comment o c interior rest ns ho hi hc _ ih =>
    intro hni
    exact ih (fun t' ht' => hni t' (List.mem_cons_of_mem _ (List.mem_append_right _ (List.mem_cons_of_mem _ ht'))))
  | raw o c interior rest ns ho hi hc _ ih =>
    intro hni
    simp only [noIncList, AST.noInc, Bool.true_and]
    exact ih (fun t' ht' => hni t' (List.mem_cons_of_mem _ (List.mem_append_right _ (List.mem_cons_of_mem _ ht'))))
  | block o e body bns segs rest ns ho _ hcl hsg he _ ihb ihs ihr =>
    intro hni
    simp only [noIncList, AST.noInc, Bool.and_eq_true]
    refine ⟨⟨ihb (fun t' ht' => hni t' (List.mem_cons_of_mem _ (List.mem_append_left _ ht'))), ?_⟩,
      ihr (fun t' ht' => hni t' (List.mem_cons_of_mem _ (List.mem_append_right _ (List.mem_append_right _ (List.mem_cons_of_mem _ ht')))))⟩
    exact noInc_segs segs (fun sg hs => ihs sg hs (fun t' ht' =>
      hni t' (List.mem_cons_of_mem _ (List.mem_append_right _ (List.mem_append_left _ (mem_segToks_of_mem hs t' ht'))))))

/-! ## Templates without `include` -/

/-- no tag token of the list is named `include` (decidable) -/
def NoIncludeTag (toks : List Token) : Prop := ∀ t ∈ toks, ¬ (t.ty = .tag ∧ t.name = nmInclude)

instance (toks : List Token) : Decidable (NoIncludeTag toks) := by unfold NoIncludeTag; infer_instance

/-- no tag of the template is named `include` -/
def NoIncludeItem (items : List Item) : Prop := ∀ it ∈ items, it.tagName ≠ some nmInclude

instance (items : List Item) : Decidable (NoIncludeItem items) := by unfold NoIncludeItem; infer_instance

theorem noIncludeTag_tokensOf (d : Delims) (items : List Item) (line : Nat) (hni : NoIncludeItem items) :
    NoIncludeTag (tokensOf d items line) := by
  refine tokensOf_forall _ (fun t => ¬ (t.ty = .tag ∧ t.name = nmInclude)) (by intro h; cases h.1) (by intro h; cases h.1) items line ?_
  intro it hit l hh
  cases it with
  | text s => cases hh.1
  | obj args hl hr wl wr => cases hh.1
  | tag name args hl hr wl wm wr => exact hni _ hit (by simp only [Item.mainTok] at hh; simp [Item.tagName, hh.2])

/-- a piece without an `include` tag compiles to an include-free tree -/
theorem compiles_noIncl (d : Delims) (items : List Item) (line : Nat) (ns : List Node)
    (h : compileTokens (tokensOf d items line) = .ok ns) (hni : NoIncludeItem items) : noInclList ns = true := by
  obtain ⟨_, ast, hd, hc⟩ := compileTokens_ok h
  have := epost_compileList (etokLinesList ast) ast (fun _ hx => hx) (hd.noInc (noIncludeTag_tokensOf d items line hni))
  rw [hc] at this
  exact this.2
