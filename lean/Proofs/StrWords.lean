import Liquid.Filters.Str
import Proofs.Utf8Lemmas
/-!
# Theorems about the byte-wise string filters of `Liquid/Filters/Str.lean`

`truncatewords`, `strip_html`, `strip_newlines`, `newline_to_br`, `escape`, `size`.
-/

/-- number of words (maximal runs of non-white-space bytes); `prevSpace` = the previous byte was white space / start -/
def wordCountAux : Bool → Bytes → Nat
  | _, [] => 0
  | prevSpace, b :: rest =>
    if StrF.isWordSpace b then wordCountAux true rest
    else (if prevSpace then 1 else 0) + wordCountAux false rest
def wordCount (s : Bytes) : Nat := wordCountAux true s
/-- the effective word limit of the filter (`n < 1` counts as 1) -/
def twLimit (n : Int) : Nat := if n < 1 then 1 else n.toNat

/-! ## D. size -/

theorem runeCountAux_eq (n : Nat) : ∀ s : Bytes, StrF.runeCountAux n s = (decodeRunesAux n s).length := by
  induction n with
  | zero => intro s; simp [StrF.runeCountAux, decodeRunesAux]
  | succ n ih =>
    intro s
    cases s with
    | nil => simp [StrF.runeCountAux, decodeRunesAux]
    | cons b t =>
      simp only [StrF.runeCountAux, decodeRunesAux, List.length_cons, ih]
      omega

theorem size_eq_runeLen (s : Bytes) : StrF.size s = runeLen s :=
  runeCountAux_eq s.length s

/-! ## C. byte-wise filters -/

theorem u8_lt_128 (b : UInt8) : b < 0x80 ↔ b.toNat < 128 := by
  rw [UInt8.lt_iff_toNat_lt]
  have : (0x80 : UInt8).toNat = 128 := by decide
  omega

theorem u8_ge_128 (b : UInt8) : 0x80 ≤ b ↔ 128 ≤ b.toNat := by
  rw [UInt8.le_iff_toNat_le]
  have : (0x80 : UInt8).toNat = 128 := by decide
  omega

/-- an encoded rune is one ASCII byte or consists of bytes `≥ 0x80` only -/
theorem encodeRune_ascii_or_high (r : Nat) :
    (∃ b : UInt8, b < 0x80 ∧ encodeRune r = [b]) ∨ (∀ y ∈ encodeRune r, 128 ≤ y.toNat) := by
  rw [encodeRune_nat]
  by_cases h1 : r < 0x80
  · left; rw [if_pos h1]; refine ⟨_, ?_, rfl⟩
    rw [u8_lt_128, toNat_toUInt8]; omega
  right
  by_cases h2 : r < 0x800
  · rw [if_neg h1, if_pos h2]
    intro y hy
    simp only [List.mem_cons, List.not_mem_nil, or_false] at hy
    rcases hy with rfl | rfl <;> rw [toNat_toUInt8] <;> omega
  by_cases h3 : (0xD800 ≤ r ∧ r ≤ 0xDFFF) ∨ r > 0x10FFFF
  · rw [if_neg h1, if_neg h2, if_pos h3]
    intro y hy
    simp only [List.mem_cons, List.not_mem_nil, or_false] at hy
    rcases hy with rfl | rfl | rfl <;> decide
  by_cases h4 : r < 0x10000
  · rw [if_neg h1, if_neg h2, if_neg h3, if_pos h4]
    intro y hy
    simp only [List.mem_cons, List.not_mem_nil, or_false] at hy
    rcases hy with rfl | rfl | rfl <;> rw [toNat_toUInt8] <;> omega
  · rw [if_neg h1, if_neg h2, if_neg h3, if_neg h4]
    intro y hy
    simp only [List.mem_cons, List.not_mem_nil, or_false] at hy
    rcases hy with rfl | rfl | rfl | rfl <;> rw [toNat_toUInt8] <;> omega

theorem flatMap_high (f : UInt8 → Bytes) (hhi : ∀ b, 0x80 ≤ b → f b = [b]) :
    ∀ x : Bytes, (∀ y ∈ x, 128 ≤ y.toNat) → x.flatMap f = x := by
  intro x
  induction x with
  | nil => intro _; rfl
  | cons b t ih =>
    intro h
    rw [List.flatMap_cons, hhi b ((u8_ge_128 b).mpr (h b (List.mem_cons_self ..))),
      ih (fun y hy => h y (List.mem_cons_of_mem _ hy))]
    rfl

/-- a byte-wise substitution that touches ASCII bytes only and writes ASCII only keeps UTF-8 validity -/
theorem validUtf8_flatMap (f : UInt8 → Bytes) (hhi : ∀ b, 0x80 ≤ b → f b = [b])
    (hlo : ∀ b, b < 0x80 → ∀ c ∈ f b, c < 0x80) (s : Bytes) (h : ValidUtf8 s) :
    ValidUtf8 (s.flatMap f) := by
  rcases h with ⟨rs, -, rfl⟩
  induction rs with
  | nil => exact validUtf8_nil
  | cons r rs ih =>
    rw [encodeRunes_cons, List.flatMap_append]
    refine validUtf8_append ?_ ih
    rcases encodeRune_ascii_or_high r with ⟨b, hb, e⟩ | hh
    · rw [e, List.flatMap_cons, List.flatMap_nil, List.append_nil]
      exact validUtf8_of_all_ascii _ (hlo b hb)
    · rw [flatMap_high f hhi _ hh]; exact validUtf8_encodeRune r

theorem sw_escape_eq_flatMap (s : Bytes) : StrF.escape s = s.flatMap StrF.escapeByte := by
  induction s with
  | nil => rfl
  | cons b t ih => rw [StrF.escape, ih, List.flatMap_cons]

theorem newlineToBr_eq_flatMap (s : Bytes) :
    StrF.newlineToBr s = s.flatMap (fun b => if b == 10 then [60, 98, 114, 32, 47, 62] else [b]) := by
  induction s with
  | nil => rfl
  | cons b t ih => rw [StrF.newlineToBr, ih, List.flatMap_cons]

theorem escapeByte_high (b : UInt8) (h : 0x80 ≤ b) : StrF.escapeByte b = [b] := by
  have h' := (u8_ge_128 b).mp h
  unfold StrF.escapeByte
  simp only [u8_beq_nat]
  have e : ∀ k : UInt8, k.toNat < 128 → decide (b.toNat = k.toNat) = false := by
    intro k hk; simp; omega
  rw [e 38 (by decide), e 39 (by decide), e 60 (by decide), e 62 (by decide), e 34 (by decide)]
  rfl

theorem escapeByte_ascii (b : UInt8) (h : b < 0x80) : ∀ c ∈ StrF.escapeByte b, c < 0x80 := by
  unfold StrF.escapeByte
  intro c hc
  split at hc
  · simp only [List.mem_cons, List.not_mem_nil, or_false] at hc
    rcases hc with rfl | rfl | rfl | rfl | rfl <;> decide
  split at hc
  · simp only [List.mem_cons, List.not_mem_nil, or_false] at hc
    rcases hc with rfl | rfl | rfl | rfl | rfl <;> decide
  split at hc
  · simp only [List.mem_cons, List.not_mem_nil, or_false] at hc
    rcases hc with rfl | rfl | rfl | rfl <;> decide
  split at hc
  · simp only [List.mem_cons, List.not_mem_nil, or_false] at hc
    rcases hc with rfl | rfl | rfl | rfl <;> decide
  split at hc
  · simp only [List.mem_cons, List.not_mem_nil, or_false] at hc
    rcases hc with rfl | rfl | rfl | rfl | rfl <;> decide
  · simp only [List.mem_cons, List.not_mem_nil, or_false] at hc
    rw [hc]; exact h

theorem escape_valid (s : Bytes) (h : ValidUtf8 s) : ValidUtf8 (StrF.escape s) := by
  rw [sw_escape_eq_flatMap]
  exact validUtf8_flatMap _ escapeByte_high escapeByte_ascii s h

theorem newlineToBr_valid (s : Bytes) (h : ValidUtf8 s) : ValidUtf8 (StrF.newlineToBr s) := by
  rw [newlineToBr_eq_flatMap]
  refine validUtf8_flatMap _ ?_ ?_ s h
  · intro b hb
    have h' := (u8_ge_128 b).mp hb
    have : (b == 10) = false := by
      rw [u8_beq_nat]; simp; intro e; rw [e] at h'; revert h'; decide
    simp only [this]; rfl
  · intro b hb c hc
    split at hc
    · simp only [List.mem_cons, List.not_mem_nil, or_false] at hc
      rcases hc with rfl | rfl | rfl | rfl | rfl | rfl <;> decide
    · simp only [List.mem_cons, List.not_mem_nil, or_false] at hc
      rw [hc]; exact hb

theorem newlineToBr_no_nl (s : Bytes) : 10 ∉ StrF.newlineToBr s := by
  induction s with
  | nil => simp [StrF.newlineToBr]
  | cons b t ih =>
    rw [StrF.newlineToBr]
    intro h
    rcases List.mem_append.mp h with h | h
    · split at h
      · revert h; decide
      · rename_i hb
        simp only [List.mem_cons, List.not_mem_nil, or_false] at h
        rw [← h] at hb; exact hb (by decide)
    · exact ih h

theorem stripNewlines_no_nl (s : Bytes) : 10 ∉ StrF.stripNewlines s := by
  unfold StrF.stripNewlines
  intro h
  have := (List.mem_filter.mp h).2
  revert this; decide

/-- `AsciiDel s t` : `t` is `s` with some ASCII bytes deleted -/
inductive AsciiDel : Bytes → Bytes → Prop
  | nil : AsciiDel [] []
  | keep (b) {s t} : AsciiDel s t → AsciiDel (b :: s) (b :: t)
  | del (b) {s t} : b < 0x80 → AsciiDel s t → AsciiDel (b :: s) t

theorem asciiDel_append_split : ∀ (x y t : Bytes), AsciiDel (x ++ y) t →
    ∃ t1 t2, t = t1 ++ t2 ∧ AsciiDel x t1 ∧ AsciiDel y t2 := by
  intro x
  induction x with
  | nil => intro y t h; exact ⟨[], t, rfl, AsciiDel.nil, h⟩
  | cons b x ih =>
    intro y t h
    cases h with
    | keep _ h' =>
      obtain ⟨t1, t2, rfl, h1, h2⟩ := ih y _ h'
      exact ⟨b :: t1, t2, rfl, AsciiDel.keep b h1, h2⟩
    | del _ hb h' =>
      obtain ⟨t1, t2, rfl, h1, h2⟩ := ih y _ h'
      exact ⟨t1, t2, rfl, AsciiDel.del b hb h1, h2⟩

theorem asciiDel_high : ∀ (x t : Bytes), (∀ y ∈ x, 128 ≤ y.toNat) → AsciiDel x t → t = x := by
  intro x
  induction x with
  | nil => intro t _ h; cases h; rfl
  | cons b x ih =>
    intro t hx h
    cases h with
    | keep _ h' => rw [ih _ (fun y hy => hx y (List.mem_cons_of_mem _ hy)) h']
    | del _ hb h' =>
      have := hx b (List.mem_cons_self ..)
      rw [u8_lt_128] at hb; omega

theorem asciiDel_valid {s t : Bytes} (h : AsciiDel s t) (hv : ValidUtf8 s) : ValidUtf8 t := by
  rcases hv with ⟨rs, -, rfl⟩
  induction rs generalizing t with
  | nil => cases h; exact validUtf8_nil
  | cons r rs ih =>
    rw [encodeRunes_cons] at h
    obtain ⟨t1, t2, rfl, h1, h2⟩ := asciiDel_append_split _ _ _ h
    refine validUtf8_append ?_ (ih h2)
    rcases encodeRune_ascii_or_high r with ⟨b, hb, e⟩ | hh
    · rw [e] at h1
      cases h1 with
      | keep _ h' => cases h'; rw [← e]; exact validUtf8_encodeRune r
      | del _ _ h' => cases h'; exact validUtf8_nil
    · rw [asciiDel_high _ _ hh h1]; exact validUtf8_encodeRune r

theorem asciiDel_stripNewlines (s : Bytes) : AsciiDel s (StrF.stripNewlines s) := by
  unfold StrF.stripNewlines
  induction s with
  | nil => exact AsciiDel.nil
  | cons b t ih =>
    by_cases hb : b = 10
    · subst hb
      rw [List.filter_cons_of_neg (by decide)]
      exact AsciiDel.del _ (by decide) ih
    · rw [List.filter_cons_of_pos (by simpa using hb)]
      exact AsciiDel.keep _ ih

theorem stripNewlines_valid (s : Bytes) (h : ValidUtf8 s) : ValidUtf8 (StrF.stripNewlines s) :=
  asciiDel_valid (asciiDel_stripNewlines s) h

/-! ## A. truncatewords -/

theorem isWordSpace_ascii (b : UInt8) (h : StrF.isWordSpace b = true) : b < 0x80 := by
  simp only [StrF.isWordSpace, Bool.or_eq_true, beq_iff_eq] at h
  rcases h with (((rfl | rfl) | rfl) | rfl) | rfl <;> decide

theorem twLimit_pos (n : Int) : 1 ≤ twLimit n := by
  unfold twLimit; split <;> omega

/-- leading white space does not count -/
theorem wordCountAux_spaces (a x : Bytes) (ha : ∀ b ∈ a, StrF.isWordSpace b = true) :
    wordCountAux true (a ++ x) = wordCountAux true x := by
  induction a with
  | nil => rfl
  | cons b a ih =>
    rw [List.cons_append, wordCountAux, if_pos (ha b (List.mem_cons_self ..))]
    exact ih (fun y hy => ha y (List.mem_cons_of_mem _ hy))

/-- the rest of a word does not count -/
theorem wordCountAux_word (w x : Bytes) (hw : ∀ b ∈ w, StrF.isWordSpace b = false) :
    wordCountAux false (w ++ x) = wordCountAux false x := by
  induction w with
  | nil => rfl
  | cons b w ih =>
    rw [List.cons_append, wordCountAux, if_neg (by rw [hw b (List.mem_cons_self ..)]; decide)]
    rw [ih (fun y hy => hw y (List.mem_cons_of_mem _ hy))]
    simp

theorem wordCountAux_false_eq (x : Bytes) (hx : ∀ b, x.head? = some b → StrF.isWordSpace b = true) :
    wordCountAux false x = wordCountAux true x := by
  cases x with
  | nil => rfl
  | cons b x => rw [wordCountAux, wordCountAux, if_pos (hx b rfl), if_pos (hx b rfl)]

/-- white space, then a non-empty word, then something that is empty or starts with white space -/
theorem wordCount_spaces_word (a w x : Bytes) (ha : ∀ b ∈ a, StrF.isWordSpace b = true)
    (hw : ∀ b ∈ w, StrF.isWordSpace b = false) (hne : w ≠ [])
    (hx : ∀ b, x.head? = some b → StrF.isWordSpace b = true) :
    wordCount (a ++ w ++ x) = 1 + wordCount x := by
  unfold wordCount
  rw [List.append_assoc, wordCountAux_spaces a _ ha]
  cases w with
  | nil => exact absurd rfl hne
  | cons b w =>
    rw [List.cons_append, wordCountAux, if_neg (by rw [hw b (List.mem_cons_self ..)]; decide)]
    rw [wordCountAux_word w x (fun y hy => hw y (List.mem_cons_of_mem _ hy)), wordCountAux_false_eq x hx]
    simp

theorem mem_takeWhile_imp' {p : UInt8 → Bool} : ∀ (l : Bytes) (b : UInt8), b ∈ l.takeWhile p → p b = true := by
  intro l
  induction l with
  | nil => intro b h; simp at h
  | cons a l ih =>
    intro b h
    rw [List.takeWhile_cons] at h
    split at h
    · rcases List.mem_cons.mp h with rfl | h
      · assumption
      · exact ih b h
    · simp at h

theorem head?_dropWhile_neg {p : UInt8 → Bool} : ∀ (l : Bytes) (b : UInt8),
    (l.dropWhile p).head? = some b → p b = false := by
  intro l
  induction l with
  | nil => intro b h; simp at h
  | cons a l ih =>
    intro b h
    rw [List.dropWhile_cons] at h
    split at h
    · exact ih b h
    · simp only [List.head?_cons, Option.some.injEq] at h
      subst h; simpa using ‹¬ p a = true›

/-- the decomposition `twKeep` works with: white space `ws`, word `w`, remainder `s2` -/
theorem tw_decomp (s : Bytes) (hne : (s.dropWhile StrF.isWordSpace).isEmpty = false) :
    ∃ ws w s2, s = ws ++ w ++ s2 ∧
      ws = s.takeWhile StrF.isWordSpace ∧
      w = (s.dropWhile StrF.isWordSpace).takeWhile (fun c => !StrF.isWordSpace c) ∧
      s2 = (s.dropWhile StrF.isWordSpace).dropWhile (fun c => !StrF.isWordSpace c) ∧
      (∀ b ∈ ws, StrF.isWordSpace b = true) ∧ (∀ b ∈ w, StrF.isWordSpace b = false) ∧ w ≠ [] ∧
      (∀ b, s2.head? = some b → StrF.isWordSpace b = true) := by
  refine ⟨_, _, _, ?_, rfl, rfl, rfl, ?_, ?_, ?_, ?_⟩
  · rw [List.append_assoc, List.takeWhile_append_dropWhile, List.takeWhile_append_dropWhile]
  · intro b hb; exact mem_takeWhile_imp' _ b hb
  · intro b hb; simpa using mem_takeWhile_imp' _ b hb
  · cases hs1 : s.dropWhile StrF.isWordSpace with
    | nil => rw [hs1] at hne; simp at hne
    | cons c s1 =>
      have hc : StrF.isWordSpace c = false := head?_dropWhile_neg s c (by rw [hs1]; rfl)
      rw [List.takeWhile_cons_of_pos (by simp [hc])]
      simp
  · intro b hb
    simpa using head?_dropWhile_neg _ b hb

theorem wordCount_step (s : Bytes) :
    wordCount s = if (s.dropWhile StrF.isWordSpace).isEmpty then 0
      else 1 + wordCount ((s.dropWhile StrF.isWordSpace).dropWhile (fun c => !StrF.isWordSpace c)) := by
  cases hne : (s.dropWhile StrF.isWordSpace).isEmpty with
  | true =>
    simp only [if_true]
    have e : s = s.takeWhile StrF.isWordSpace ++ [] := by
      conv => lhs; rw [← List.takeWhile_append_dropWhile (p := StrF.isWordSpace) (l := s)]
      rw [List.isEmpty_iff.mp hne]
    rw [e]; unfold wordCount
    rw [wordCountAux_spaces _ _ (fun b hb => mem_takeWhile_imp' _ b hb)]; rfl
  | false =>
    obtain ⟨ws, w, s2, e, _, _, rfl, h1, h2, h3, h4⟩ := tw_decomp s hne
    simp only [Bool.false_eq_true, if_false]
    conv => lhs; rw [e]
    exact wordCount_spaces_word ws w _ h1 h2 h3 h4

theorem twKeep_unfold (n : Nat) (s : Bytes) : StrF.twKeep n s =
    if (s.dropWhile StrF.isWordSpace).isEmpty then none
    else match n with
      | 0 => some []
      | n + 1 =>
        (StrF.twKeep n ((s.dropWhile StrF.isWordSpace).dropWhile (fun c => !StrF.isWordSpace c))).map
          fun k => s.takeWhile StrF.isWordSpace ++
            (s.dropWhile StrF.isWordSpace).takeWhile (fun c => !StrF.isWordSpace c) ++ k := by
  conv => lhs; rw [StrF.twKeep.eq_def]
  split <;> rfl

theorem twKeep_none_iff (n : Nat) (s : Bytes) : StrF.twKeep n s = none ↔ wordCount s ≤ n := by
  induction n generalizing s with
  | zero =>
    rw [twKeep_unfold, wordCount_step]
    split <;> simp
  | succ n ih =>
    rw [twKeep_unfold, wordCount_step]
    split
    · simp
    · simp only [Option.map_eq_none_iff, ih]; omega

theorem truncatewords_fits_lemma (s : Bytes) (n : Int) (el : Bytes) (h : wordCount s ≤ twLimit n) :
    StrF.truncatewords s n el = s := by
  have := (twKeep_none_iff (twLimit n) s).mpr h
  unfold twLimit at this
  unfold StrF.truncatewords
  simp only [this]

theorem twKeep_zero_some (s k : Bytes) (h : StrF.twKeep 0 s = some k) : k = [] := by
  rw [twKeep_unfold] at h
  split at h
  · cases h
  · cases h; rfl

/-- general form (any `n`): the kept text `k` is a prefix with exactly `n` words that does not end
    in white space, something is left over, and for `n ≥ 1` what is left starts with white space -/
theorem twKeep_some_aux (n : Nat) : ∀ (s k : Bytes), StrF.twKeep n s = some k →
    ∃ rest, s = k ++ rest ∧ rest ≠ [] ∧ wordCount k = n ∧
      (∀ b, k.getLast? = some b → StrF.isWordSpace b = false) ∧
      (1 ≤ n → ∀ b, rest.head? = some b → StrF.isWordSpace b = true) := by
  induction n with
  | zero =>
    intro s k h
    have hk := twKeep_zero_some s k h
    subst hk
    refine ⟨s, rfl, ?_, rfl, by simp, by omega⟩
    rintro rfl
    rw [twKeep_unfold] at h; simp at h
  | succ n ih =>
    intro s k h
    rw [twKeep_unfold] at h
    split at h
    · cases h
    · rename_i hne
      obtain ⟨ws, w, s2, e, rfl, rfl, rfl, h1, h2, h3, h4⟩ := tw_decomp s (by simpa using hne)
      simp only [Option.map_eq_some_iff] at h
      obtain ⟨k', hk', rfl⟩ := h
      obtain ⟨rest, e2, hr, hc, hl, hh⟩ := ih _ k' hk'
      -- the head of `k'` (if any) is the head of `s2`: white space
      have hk'head : ∀ b, k'.head? = some b → StrF.isWordSpace b = true := by
        intro b hb
        apply h4
        rw [e2]
        cases k' with
        | nil => simp at hb
        | cons c k' => simpa using hb
      refine ⟨rest, ?_, hr, ?_, ?_, ?_⟩
      · conv => lhs; rw [e, e2]
        simp only [List.append_assoc]
      · rw [wordCount_spaces_word _ _ _ h1 h2 h3 hk'head, hc]; omega
      · intro b hb
        rw [List.getLast?_append] at hb
        cases hkl : k'.getLast? with
        | some c =>
          rw [hkl] at hb; simp only [Option.some_or, Option.some.injEq] at hb
          subst hb; exact hl c hkl
        | none =>
          rw [hkl, Option.none_or, List.getLast?_append] at hb
          apply h2
          cases hwl : (List.takeWhile (fun c => !StrF.isWordSpace c) (List.dropWhile StrF.isWordSpace s)).getLast? with
          | some c =>
            rw [hwl] at hb; simp only [Option.some_or, Option.some.injEq] at hb
            subst hb; exact List.mem_of_getLast? hwl
          | none => exact absurd (List.getLast?_eq_none_iff.mp hwl) h3
      · intro _ b hb
        cases n with
        | zero =>
          have := twKeep_zero_some _ _ hk'
          subst this
          rw [List.nil_append] at e2
          exact h4 b (by rw [e2]; exact hb)
        | succ n => exact hh (by omega) b hb

/-- statement fixed: needs `1 ≤ n` (for `n = 0` only `k = []` holds, see `twKeep_zero_some`) -/
theorem twKeep_some (n : Nat) (s k : Bytes) (hn : 1 ≤ n) (h : StrF.twKeep n s = some k) :
    k <+: s ∧ wordCount k = n ∧ (∀ b, k.getLast? = some b → StrF.isWordSpace b = false) ∧
    (∃ b rest, s = k ++ b :: rest ∧ StrF.isWordSpace b = true) := by
  obtain ⟨rest, e, hr, hc, hl, hh⟩ := twKeep_some_aux n s k h
  refine ⟨⟨rest, e.symm⟩, hc, hl, ?_⟩
  cases rest with
  | nil => exact absurd rfl hr
  | cons b rest => exact ⟨b, rest, e, hh hn b rfl⟩

theorem truncatewords_eq (s : Bytes) (n : Int) (el : Bytes) :
    StrF.truncatewords s n el =
      match StrF.twKeep (twLimit n) s with
      | none => s
      | some k => k ++ el := rfl

theorem truncatewords_cut (s : Bytes) (n : Int) (el : Bytes) (h : twLimit n < wordCount s) :
    ∃ k, StrF.truncatewords s n el = k ++ el ∧ k <+: s ∧ wordCount k = twLimit n ∧
      (∀ b, k.getLast? = some b → StrF.isWordSpace b = false) := by
  cases hk : StrF.twKeep (twLimit n) s with
  | none => have := (twKeep_none_iff _ _).mp hk; omega
  | some k =>
    obtain ⟨h1, h2, h3, _⟩ := twKeep_some _ s k (twLimit_pos n) hk
    refine ⟨k, ?_, h1, h2, h3⟩
    rw [truncatewords_eq, hk]

theorem truncatewords_valid (s : Bytes) (n : Int) (el : Bytes) (hs : ValidUtf8 s) (he : ValidUtf8 el) :
    ValidUtf8 (StrF.truncatewords s n el) := by
  rw [truncatewords_eq]
  cases hk : StrF.twKeep (twLimit n) s with
  | none => exact hs
  | some k =>
    obtain ⟨_, _, _, b, rest, e, hb⟩ := twKeep_some _ s k (twLimit_pos n) hk
    rw [e] at hs
    exact validUtf8_append (validUtf8_of_append_ascii k b rest (isWordSpace_ascii b hb) hs).1 he

/-! ## B. strip_html -/

theorem findClose_some : ∀ (s after : Bytes), StrF.findClose s = some after →
    ∃ mid, s = mid ++ 62 :: after ∧ 10 ∉ mid ∧ 62 ∉ mid := by
  intro s
  induction s with
  | nil => intro after h; simp [StrF.findClose] at h
  | cons b rest ih =>
    intro after h
    simp only [StrF.findClose] at h
    split at h
    · rename_i hb
      cases h
      have : b = 62 := by simpa using hb
      subst this
      exact ⟨[], rfl, by simp, by simp⟩
    · rename_i hb
      split at h
      · cases h
      · rename_i hb2
        obtain ⟨mid, rfl, h1, h2⟩ := ih after h
        refine ⟨b :: mid, rfl, ?_, ?_⟩
        · intro hm
          rcases List.mem_cons.mp hm with e | hm
          · exact hb2 (by rw [← e]; decide)
          · exact h1 hm
        · intro hm
          rcases List.mem_cons.mp hm with e | hm
          · exact hb (by rw [← e]; decide)
          · exact h2 hm

theorem stripHtmlAux_length_le (n : Nat) : ∀ s : Bytes, (StrF.stripHtmlAux n s).length ≤ s.length := by
  induction n with
  | zero => intro s; simp [StrF.stripHtmlAux]
  | succ n ih =>
    intro s
    cases s with
    | nil => simp [StrF.stripHtmlAux]
    | cons b rest =>
      simp only [StrF.stripHtmlAux]
      split
      · split
        · rename_i after hf
          have := StrF.findClose_length hf
          have := ih after
          simp only [List.length_cons]; omega
        · have := ih rest
          simp only [List.length_cons]; omega
      · have := ih rest
        simp only [List.length_cons]; omega

theorem stripHtml_length_le (s : Bytes) : (StrF.stripHtml s).length ≤ s.length :=
  stripHtmlAux_length_le _ s

theorem stripHtmlAux_sublist (n : Nat) : ∀ s : Bytes, List.Sublist (StrF.stripHtmlAux n s) s := by
  induction n with
  | zero => intro s; simp [StrF.stripHtmlAux]
  | succ n ih =>
    intro s
    cases s with
    | nil => simp [StrF.stripHtmlAux]
    | cons b rest =>
      simp only [StrF.stripHtmlAux]
      split
      · split
        · rename_i after hf
          obtain ⟨mid, rfl, _, _⟩ := findClose_some _ _ hf
          refine (ih after).trans ?_
          exact (List.sublist_cons_self _ _).trans
            ((List.sublist_append_right _ _).trans (List.sublist_cons_self _ _))
        · exact (ih rest).cons_cons b
      · exact (ih rest).cons_cons b

theorem stripHtml_sublist (s : Bytes) : List.Sublist (StrF.stripHtml s) s :=
  stripHtmlAux_sublist _ s

theorem stripHtmlAux_of_no_lt (n : Nat) : ∀ s : Bytes, 60 ∉ s → StrF.stripHtmlAux n s = s := by
  induction n with
  | zero => intro s _; simp [StrF.stripHtmlAux]
  | succ n ih =>
    intro s h
    cases s with
    | nil => simp [StrF.stripHtmlAux]
    | cons b rest =>
      simp only [StrF.stripHtmlAux]
      have hb : (b == 60) = false := by
        rw [beq_eq_false_iff_ne]; intro e; exact h (by rw [e]; exact List.mem_cons_self ..)
      rw [hb]
      simp only [Bool.false_eq_true, if_false]
      rw [ih rest (fun hm => h (List.mem_cons_of_mem _ hm))]

theorem stripHtml_of_no_lt (s : Bytes) (h : 60 ∉ s) : StrF.stripHtml s = s :=
  stripHtmlAux_of_no_lt _ s h

/-- validity, generalised over the text `pre` already passed (so that a multi-byte rune may be
    split between `pre` and `s`) -/
theorem stripHtmlAux_valid (n : Nat) : ∀ (pre s : Bytes), ValidUtf8 (pre ++ s) →
    ValidUtf8 (pre ++ StrF.stripHtmlAux n s) := by
  induction n with
  | zero => intro pre s h; simpa [StrF.stripHtmlAux] using h
  | succ n ih =>
    intro pre s h
    cases s with
    | nil => simpa [StrF.stripHtmlAux] using h
    | cons b rest =>
      have hkeep : ValidUtf8 (pre ++ b :: StrF.stripHtmlAux n rest) := by
        have := ih (pre ++ [b]) rest (by simpa using h)
        simpa using this
      simp only [StrF.stripHtmlAux]
      split
      · rename_i hb
        have hb : b = 60 := by simpa using hb
        subst hb
        split
        · rename_i after hf
          obtain ⟨mid, rfl, _, _⟩ := findClose_some _ _ hf
          apply ih
          have h1 := (validUtf8_of_append_ascii pre 60 _ (by decide) h).1
          have h2 : ValidUtf8 ((pre ++ 60 :: mid) ++ 62 :: after) := by simpa using h
          have h3 := (validUtf8_of_append_ascii _ 62 after (by decide) h2).2
          exact validUtf8_append h1 ((validUtf8_cons_ascii 62 after (by decide)).mp h3)
        · exact hkeep
      · exact hkeep

theorem stripHtml_valid (s : Bytes) (h : ValidUtf8 s) : ValidUtf8 (StrF.stripHtml s) := by
  have := stripHtmlAux_valid s.length [] s (by simpa using h)
  simpa [StrF.stripHtml] using this

/-- stripping keeps "no `>` before the first newline" -/
theorem findClose_stripHtmlAux_none (n : Nat) : ∀ s : Bytes, StrF.findClose s = none →
    StrF.findClose (StrF.stripHtmlAux n s) = none := by
  induction n with
  | zero => intro s h; simpa [StrF.stripHtmlAux] using h
  | succ n ih =>
    intro s h
    cases s with
    | nil => simp [StrF.stripHtmlAux, StrF.findClose]
    | cons b rest =>
      simp only [StrF.findClose] at h
      split at h
      · cases h
      · rename_i hb62
        have hkeep : StrF.findClose (b :: StrF.stripHtmlAux n rest) = none := by
          simp only [StrF.findClose, if_neg hb62]
          split
          · rfl
          · rename_i hb10
            rw [if_neg hb10] at h
            exact ih rest h
        simp only [StrF.stripHtmlAux]
        split
        · rename_i hb
          have hb : b = 60 := by simpa using hb
          subst hb
          split
          · rename_i after hf
            rw [if_neg (by decide), hf] at h
            cases h
          · exact hkeep
        · exact hkeep

theorem findClose_none_append : ∀ (mid post : Bytes), StrF.findClose (mid ++ 62 :: post) = none → 10 ∈ mid := by
  intro mid
  induction mid with
  | nil => intro post h; simp [StrF.findClose] at h
  | cons b mid ih =>
    intro post h
    simp only [List.cons_append, StrF.findClose] at h
    split at h
    · cases h
    · split at h
      · rename_i hb
        have : b = 10 := by simpa using hb
        rw [this]; exact List.mem_cons_self ..
      · exact List.mem_cons_of_mem _ (ih post h)

theorem stripHtmlAux_no_tag (n : Nat) : ∀ (s : Bytes), s.length ≤ n → ∀ pre mid post,
    StrF.stripHtmlAux n s = pre ++ 60 :: mid ++ 62 :: post → 10 ∈ mid := by
  induction n with
  | zero =>
    intro s hs pre mid post h
    have : s = [] := List.eq_nil_of_length_eq_zero (Nat.le_zero.mp hs)
    subst this
    have := congrArg List.length h
    simp [StrF.stripHtmlAux] at this
  | succ n ih =>
    intro s hs pre mid post h
    cases s with
    | nil =>
      have := congrArg List.length h
      simp [StrF.stripHtmlAux] at this
    | cons b rest =>
      have hrest : rest.length ≤ n := by simp only [List.length_cons] at hs; omega
      -- the case where `b` is kept and the tag lies in the rest
      have hkeep : ∀ p pre', pre = p :: pre' →
          b :: StrF.stripHtmlAux n rest = pre ++ 60 :: mid ++ 62 :: post → 10 ∈ mid := by
        intro p pre' e h
        subst e
        simp only [List.cons_append, List.append_assoc, List.cons.injEq] at h
        exact ih rest hrest pre' mid post (by simpa using h.2)
      simp only [StrF.stripHtmlAux] at h
      split at h
      · rename_i hb
        have hb : b = 60 := by simpa using hb
        subst hb
        split at h
        · rename_i after hf
          have := StrF.findClose_length hf
          exact ih after (by omega) pre mid post h
        · rename_i hf
          cases pre with
          | nil =>
            simp only [List.nil_append, List.cons_append, List.cons.injEq, true_and] at h
            have := findClose_stripHtmlAux_none n rest hf
            rw [h] at this
            exact findClose_none_append mid post this
          | cons p pre' => exact hkeep p pre' rfl h
      · rename_i hb
        cases pre with
        | nil =>
          simp only [List.nil_append, List.cons_append, List.cons.injEq] at h
          exact absurd (by rw [h.1]; decide) hb
        | cons p pre' => exact hkeep p pre' rfl h

/-- no `<[^\n]*>` is left: between a `<` and a later `>` of the output there is a newline -/
theorem stripHtml_no_tag (s : Bytes) : ∀ pre mid post,
    StrF.stripHtml s = pre ++ 60 :: mid ++ 62 :: post → 10 ∈ mid :=
  stripHtmlAux_no_tag s.length s (Nat.le_refl _)

/-! ## E. examples -/

example : StrF.truncatewords [97,32,98,32,99] 2 [46] = [97,32,98,46] := by decide
example : wordCount [32,97,32,32,98] = 2 := by decide
example : StrF.stripHtml [97,60,98,62,99] = [97,99] := by decide
example : StrF.stripHtml [60,10,62] = [60,10,62] := by decide
example : StrF.size [195,169,255] = 2 := by decide
