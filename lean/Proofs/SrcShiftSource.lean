import Proofs.SrcReline
/-!
# Compiling a source text at another start line

`compileSource delims src line` for ARBITRARY bytes `src` (the content of an included file): the tokenizer, the block
parser and the compiler commute with moving the start line — the result at line `l + δ` is the result at line `l`
with every line moved by `δ`, errors included (`compileSource_shift`). For spelled templates this is
`tokensOf_shift` / `compiles_any_line` (successful compilations only).
-/

/-! ## The tokenizer -/

theorem tokensOfMatch_shift (d : Delims) (src : Bytes) (ts : Nat) (caps : Caps) (l δ : Nat) :
    tokensOfMatch d src ts caps (l + δ) = (tokensOfMatch d src ts caps l).map (relTokC (· + δ)) := by
  unfold tokensOfMatch
  split
  · simp only [List.map_append, List.map_cons, List.map_nil]
    congr 1
    · congr 1
      · split <;> rfl
    · split <;> rfl
  · split
    · simp only [List.map_append, List.map_cons, List.map_nil]
      congr 1
      · congr 1
        · split <;> rfl
      · split <;> rfl
    · rfl

theorem scanLoop_shift (mfuel : Nat) (re : Re) (d : Delims) (δ : Nat) : ∀ (n : Nat) (s : Bytes) (p line : Nat),
    scanLoop mfuel re d n s p (line + δ) = (scanLoop mfuel re d n s p line).map (relTokC (· + δ))
  | 0, s, p, line => by
    simp only [scanLoop]
    split <;> rfl
  | n+1, s, p, line => by
    simp only [scanLoop]
    cases re.search mfuel s p 0 with
    | none =>
      simp only
      split <;> rfl
    | some r =>
      obtain ⟨skip, e, caps⟩ := r
      simp only [List.map_append, Nat.add_right_comm _ δ]
      rw [tokensOfMatch_shift]
      congr 1
      · congr 1
        split <;> rfl
      · split
        · split <;> rfl
        · rw [scanLoop_shift mfuel re d δ n]
          simp only [List.map_append]
          congr 1
          split <;> rfl

theorem scan_shift (delims : List Bytes) (src : Bytes) (l δ : Nat) :
    scan delims src (l + δ) = (scan delims src l).map (relTokC (· + δ)) := by
  unfold scan scanWith
  exact scanLoop_shift _ _ _ δ _ _ _ _

/-! ## The block parser: the machine commutes with moving lines, errors included -/

theorem relList_eq_map (g : Nat → Nat) : ∀ l : List AST, relList g l = l.map (AST.rel g)
  | [] => rfl
  | n :: ns => by simp [relList, relList_eq_map g ns]

theorem relClauses_eq_map (g : Nat → Nat) : ∀ cs : List (Token × List AST),
    relClauses g cs = cs.map (fun p => (relTok g p.1, relList g p.2))
  | [] => rfl
  | (t, b) :: cs => by simp [relClauses, relClauses_eq_map g cs]

theorem relList_reverse (g : Nat → Nat) (l : List AST) : relList g l.reverse = (relList g l).reverse := by
  simp [relList_eq_map]

theorem relClauses_reverse (g : Nat → Nat) (cs : List (Token × List AST)) : relClauses g cs.reverse = (relClauses g cs).reverse := by
  simp [relClauses_eq_map]

theorem relClauses_append (g : Nat → Nat) (a b : List (Token × List AST)) : relClauses g (a ++ b) = relClauses g a ++ relClauses g b := by
  simp [relClauses_eq_map]

def Frame.rel (g : Nat → Nat) (f : Frame) : Frame :=
  { tok := relTok g f.tok, outer := relList g f.outer, body := f.body.map (relList g), clauses := relClauses g f.clauses,
    cur := f.cur.map (relTok g) }

def PMode.rel (g : Nat → Nat) : PMode → PMode
  | .normal => .normal
  | .comment o => .comment (relTok g o)
  | .raw o sl => .raw (relTok g o) sl

def PState.rel (g : Nat → Nat) (s : PState) : PState :=
  { cur := relList g s.cur, stack := s.stack.map (Frame.rel g), mode := s.mode.rel g }

def PErr.rel (g : Nat → Nat) (e : PErr) : PErr := ⟨e.kind, g e.line⟩

/-- a result of the block parser with its lines moved -/
def PRes.rel {α} (g : Nat → Nat) (f : α → α) : Res PErr α → Res PErr α
  | .ok a => .ok (f a)
  | .err e => .err (e.rel g)
  | .panic w => .panic w
  | .unmodelled w => .unmodelled w

theorem closeFrame_rel (g : Nat → Nat) (f : Frame) (cur : List AST) :
    closeFrame (f.rel g) (relList g cur) = (closeFrame f cur).rel g := by
  obtain ⟨tok, outer, body, clauses, fcur⟩ := f
  cases fcur with
  | none => simp [closeFrame, Frame.rel, AST.rel, relList_reverse, relClauses]
  | some c =>
    cases body with
    | none => simp [closeFrame, Frame.rel, AST.rel, relList_reverse, relClauses_append, relClauses_reverse, relClauses, relList]
    | some b => simp [closeFrame, Frame.rel, AST.rel, relList_reverse, relClauses_append, relClauses_reverse, relClauses]

theorem parentOk_rel (g : Nat → Nat) (cs : Syn) (st : List Frame) :
    parentOk cs (st.map (Frame.rel g)).head? = parentOk cs st.head? := by
  cases st with
  | nil => rfl
  | cons f fs => cases cs <;> rfl

theorem parseStep_rel (G : Grammar) (chk : Bytes → Option Cause) (g : Nat → Nat) (s : PState) (t : Token) :
    parseStep G chk (s.rel g) (relTokC g t) = PRes.rel g (PState.rel g) (parseStep G chk s t) := by
  obtain ⟨cur, st, mode⟩ := s
  cases mode with
  | comment o =>
    simp only [parseStep, PState.rel, PMode.rel, relTokC_ty, relTokC_name]
    split <;> rfl
  | raw o sl =>
    simp only [parseStep, PState.rel, PMode.rel, relTokC_ty, relTokC_name, relTokC_source]
    split <;> rfl
  | normal =>
    cases ht : t.ty with
    | text =>
      rw [relTokC_of_not_trim (isTrim_false_of_ty (.inl ht))]
      have h1 : (relTok g t).ty = .text := ht
      simp only [parseStep, PState.rel, PMode.rel, h1, ht]
      rfl
    | trimL =>
      have h0 : relTokC g t = t := by simp [relTokC, Token.isTrim, ht]
      rw [h0]
      simp only [parseStep, PState.rel, PMode.rel, ht]
      rfl
    | trimR =>
      have h0 : relTokC g t = t := by simp [relTokC, Token.isTrim, ht]
      rw [h0]
      simp only [parseStep, PState.rel, PMode.rel, ht]
      rfl
    | obj =>
      rw [relTokC_of_not_trim (isTrim_false_of_ty (.inr (.inl ht)))]
      have h1 : (relTok g t).ty = .obj := ht
      have h2 : (relTok g t).args = t.args := rfl
      simp only [parseStep, PState.rel, PMode.rel, h1, h2, ht]
      cases chk t.args <;> rfl
    | tag =>
      rw [relTokC_of_not_trim (isTrim_false_of_ty (.inr (.inr ht)))]
      have h1 : (relTok g t).ty = .tag := ht
      have h2 : (relTok g t).name = t.name := rfl
      have h3 : (relTok g t).line = g t.line := rfl
      simp only [parseStep, PState.rel, PMode.rel, h1, h2, h3, ht]
      cases hs : G.syntaxOf t.name with
      | none => rfl
      | some cs =>
        simp only
        by_cases hc : t.name == commentName
        · simp only [hc, if_true]; rfl
        · simp only [hc, Bool.false_eq_true, if_false]
          by_cases hr : t.name == rawName
          · simp only [hr, if_true]; rfl
          · simp only [hr, Bool.false_eq_true, if_false, parentOk_rel]
            by_cases hp : parentOk cs st.head?
            · simp only [hp, Bool.not_true, Bool.false_eq_true, if_false]
              cases cs with
              | start n => rfl
              | clause n ps =>
                cases st with
                | nil => rfl
                | cons f fs =>
                  obtain ⟨ftok, fouter, fbody, fclauses, fcur⟩ := f
                  cases fcur with
                  | none => simp [Frame.rel, PRes.rel, PState.rel, PMode.rel, relList_reverse, relList]
                  | some c0 => simp [Frame.rel, PRes.rel, PState.rel, PMode.rel, relList_reverse, relList, relClauses]
              | end_ n sn =>
                cases st with
                | nil => rfl
                | cons f fs =>
                  simp only [List.map_cons, closeFrame_rel]
                  rfl
            · simp only [hp, Bool.not_false, if_true]
              rfl

theorem parseLoop_rel (G : Grammar) (chk : Bytes → Option Cause) (g : Nat → Nat) : ∀ (ts : List Token) (s : PState),
    parseLoop G chk (s.rel g) (ts.map (relTokC g)) = PRes.rel g (PState.rel g) (parseLoop G chk s ts)
  | [], _ => rfl
  | t :: ts, s => by
    simp only [List.map_cons, parseLoop, parseStep_rel]
    cases parseStep G chk s t with
    | ok s' => exact parseLoop_rel G chk g ts s'
    | err e => rfl
    | panic w => rfl
    | unmodelled w => rfl

theorem parseTokens_rel (G : Grammar) (chk : Bytes → Option Cause) (g : Nat → Nat) (toks : List Token) :
    parseTokens G chk (toks.map (relTokC g)) = PRes.rel g (relList g) (parseTokens G chk toks) := by
  unfold parseTokens
  have h := parseLoop_rel G chk g toks {}
  have h0 : (({} : PState).rel g) = {} := rfl
  rw [h0] at h
  rw [h]
  cases parseLoop G chk {} toks with
  | ok s =>
    obtain ⟨cur, st, mode⟩ := s
    cases mode with
    | comment o => rfl
    | raw o sl => rfl
    | normal =>
      cases st with
      | nil => simp [PRes.rel, PState.rel, PMode.rel, relList_reverse]
      | cons f fs => rfl
  | err e => rfl
  | panic w => rfl
  | unmodelled w => rfl

/-! ## The whole compilation -/

theorem liftPErr_rel {α} (g : Nat → Nat) (f : α → α) (r : Res PErr α) :
    liftPErr (PRes.rel g f r) = CRes.rel g f (liftPErr r) := by
  cases r with
  | ok a => rfl
  | err e =>
    obtain ⟨k, l⟩ := e
    cases k <;> rfl
  | panic w => rfl
  | unmodelled w => rfl

/-- **compiling a token list commutes with moving its lines**, errors included -/
theorem compileTokens_rel_all (g : Nat → Nat) (toks : List Token) :
    compileTokens (toks.map (relTokC g)) = CRes.rel g (relNodes g) (compileTokens toks) := by
  unfold compileTokens
  rw [firstUnmodelledObj_rel]
  cases firstUnmodelledObj toks with
  | some w => rfl
  | none =>
    simp only [parseTokens_rel, liftPErr_rel, bind, Res.bind]
    cases liftPErr (parseTokens stdGrammar objChk toks) with
    | ok ast =>
      simp only [CRes.rel, compileList_rel]
    | err e => rfl
    | panic w => rfl
    | unmodelled w => rfl

/-- **compiling a source text `δ` lines further down**: the same result with every line moved by `δ` -/
theorem compileSource_shift (delims : List Bytes) (src : Bytes) (l δ : Nat) :
    compileSource delims src (l + δ) = CRes.rel (· + δ) (relNodes (· + δ)) (compileSource delims src l) := by
  rw [compileSource_eq_compileTokens, compileSource_eq_compileTokens, scan_shift, compileTokens_rel_all]
