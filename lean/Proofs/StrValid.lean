import Proofs.StrLemmas
import Proofs.StrReplSplit
import Proofs.StrWords
import Proofs.StrEscUrl
/-!
# "valid UTF-8 in ⇒ valid UTF-8 out" for the replacement, split/join and `escape_once` models
-/

namespace SV

/-! ## replacement helpers -/

theorem runeChunksAux_valid : ∀ (n : Nat) (s : Bytes), ValidUtf8 s →
    ∀ p ∈ StrF.runeChunksAux n s, ValidUtf8 p := by
  intro n
  induction n with
  | zero => intro s _ p hp; simp [StrF.runeChunksAux] at hp
  | succ n ih =>
    intro s hs p hp
    cases s with
    | nil => simp [StrF.runeChunksAux] at hp
    | cons b rest =>
      simp only [StrF.runeChunksAux] at hp
      have hw : max (decodeRune (b :: rest)).2 1 = (decodeRune (b :: rest)).2 := by
        have := decodeRune_width_pos (b :: rest) (by simp)
        omega
      rw [hw] at hp
      rcases List.mem_cons.1 hp with hp | hp
      · subst hp; exact validUtf8_take_rune _ hs
      · exact ih _ (validUtf8_drop_rune _ hs) p hp

theorem flatten_valid : ∀ (ps : List Bytes), (∀ p ∈ ps, ValidUtf8 p) → ValidUtf8 ps.flatten
  | [], _ => by simpa using validUtf8_nil
  | p :: ps, h => by
    rw [List.flatten_cons]
    exact validUtf8_append (h p (List.mem_cons_self ..))
      (flatten_valid ps (fun q hq => h q (List.mem_cons_of_mem _ hq)))

theorem insertAround_valid (new s : Bytes) (hs : ValidUtf8 s) (hn : ValidUtf8 new) :
    ValidUtf8 (StrF.insertAround new s) := by
  unfold StrF.insertAround
  apply validUtf8_append hn
  apply flatten_valid
  intro p hp
  obtain ⟨q, hq, rfl⟩ := List.mem_map.1 hp
  exact validUtf8_append (runeChunksAux_valid _ s hs q hq) hn

theorem replaceNE_valid (old new : Bytes) (ho : ValidUtf8 old) (hne : old ≠ []) (hn : ValidUtf8 new) :
    ∀ (n : Nat) (s : Bytes), ValidUtf8 s → ValidUtf8 (StrF.replaceNE old new n s) := by
  intro n
  induction n with
  | zero => intro s hs; simpa [StrF.replaceNE] using hs
  | succ n ih =>
    intro s hs
    simp only [StrF.replaceNE]
    cases hi : StrF.indexOf old s with
    | none => exact hs
    | some i =>
      simp only
      obtain ⟨_, he, _⟩ := indexOf_some old s i hi
      rw [he] at hs
      obtain ⟨h1, h2⟩ := validUtf8_cut_around _ old _ ho hne hs
      exact validUtf8_append (validUtf8_append h1 hn) (ih _ h2)

theorem splitNE_valid (sep : Bytes) (ho : ValidUtf8 sep) (hne : sep ≠ []) :
    ∀ (n : Nat) (s : Bytes), ValidUtf8 s → ∀ p ∈ StrF.splitNE sep n s, ValidUtf8 p := by
  intro n
  induction n with
  | zero =>
    intro s hs p hp
    simp only [StrF.splitNE, List.mem_singleton] at hp
    subst hp; exact hs
  | succ n ih =>
    intro s hs p hp
    simp only [StrF.splitNE] at hp
    cases hi : StrF.indexOf sep s with
    | none =>
      rw [hi] at hp
      simp only [List.mem_singleton] at hp
      subst hp; exact hs
    | some i =>
      rw [hi] at hp
      simp only at hp
      obtain ⟨_, he, _⟩ := indexOf_some sep s i hi
      rw [he] at hs
      obtain ⟨h1, h2⟩ := validUtf8_cut_around _ sep _ ho hne hs
      rcases List.mem_cons.1 hp with hp | hp
      · subst hp; exact h1
      · exact ih _ h2 p hp

theorem isAsciiSpace_ascii (b : UInt8) (h : StrF.isAsciiSpace b = true) : b < 0x80 := by
  simp only [StrF.isAsciiSpace, Bool.or_eq_true, beq_iff_eq, Bool.and_eq_true, decide_eq_true_eq] at h
  rw [UInt8.lt_iff_toNat_lt]
  rcases h with rfl | ⟨_, h2⟩
  · decide
  · rw [UInt8.le_iff_toNat_le] at h2
    have : (13 : UInt8).toNat = 13 := by decide
    have : (0x80 : UInt8).toNat = 128 := by decide
    omega

theorem splitWSGo_valid : ∀ (rest : Bytes) (inRun : Bool) (cur : Bytes),
    ValidUtf8 (cur.reverse ++ rest) → ∀ p ∈ StrF.splitWSGo inRun cur rest, ValidUtf8 p := by
  intro rest
  induction rest with
  | nil =>
    intro inRun cur h p hp
    simp only [StrF.splitWSGo, List.mem_singleton] at hp
    subst hp; simpa using h
  | cons b rest ih =>
    intro inRun cur h p hp
    simp only [StrF.splitWSGo] at hp
    split at hp
    · rename_i hb
      have hb' := isAsciiSpace_ascii b hb
      obtain ⟨h1, h2⟩ := validUtf8_of_append_ascii _ b rest hb' h
      have h3 : ValidUtf8 rest := (validUtf8_cons_ascii b rest hb').1 h2
      split at hp
      · exact ih true cur (validUtf8_append h1 h3) p hp
      · rcases List.mem_cons.1 hp with hp | hp
        · subst hp; exact h1
        · exact ih true [] (by simpa using h3) p hp
    · exact ih false (b :: cur) (by simpa using h) p hp

theorem mem_dropTrailingEmpty (ps : List Bytes) (p : Bytes) (h : p ∈ StrF.dropTrailingEmpty ps) :
    p ∈ ps := by
  unfold StrF.dropTrailingEmpty at h
  rw [List.mem_reverse] at h
  have := (List.dropWhile_sublist (fun x : Bytes => x.isEmpty) (l := ps.reverse)).subset h
  exact List.mem_reverse.1 this

theorem splitRaw_valid (s sep : Bytes) (hs : ValidUtf8 s) (hsep : ValidUtf8 sep) :
    ∀ p ∈ StrF.splitRaw s sep, ValidUtf8 p := by
  intro p hp
  unfold StrF.splitRaw at hp
  split at hp
  · exact splitWSGo_valid s false [] (by simpa using hs) p hp
  · split at hp
    · exact runeChunksAux_valid _ s hs p hp
    · rename_i _ he
      have hne : sep ≠ [] := by
        intro h0; subst h0; simp at he
      exact splitNE_valid sep hsep hne _ s hs p hp

end SV

/-! ## replacement -/

theorem runeChunks_valid (s : Bytes) (h : ValidUtf8 s) : ∀ p ∈ StrF.runeChunks s, ValidUtf8 p :=
  SV.runeChunksAux_valid _ s h

theorem replace_valid (s old new : Bytes) (hs : ValidUtf8 s) (ho : ValidUtf8 old) (hn : ValidUtf8 new) :
    ValidUtf8 (StrF.replace s old new) := by
  unfold StrF.replace
  split
  · exact hs
  · split
    · exact SV.insertAround_valid new s hs hn
    · rename_i _ he
      have hne : old ≠ [] := by
        intro h0; subst h0; simp at he
      exact SV.replaceNE_valid old new ho hne hn _ s hs

theorem replaceFirst_valid (s old new : Bytes) (hs : ValidUtf8 s) (ho : ValidUtf8 old) (hn : ValidUtf8 new) :
    ValidUtf8 (StrF.replaceFirst s old new) := by
  unfold StrF.replaceFirst
  split
  · exact hs
  · cases hi : StrF.indexOf old s with
    | none => exact hs
    | some i =>
      simp only
      by_cases hne : old = []
      · subst hne
        rw [SRS.indexOf_nil_pat] at hi
        cases hi
        simpa using validUtf8_append hn hs
      · obtain ⟨_, he, _⟩ := indexOf_some old s i hi
        rw [he] at hs
        obtain ⟨h1, h2⟩ := validUtf8_cut_around _ old _ ho hne hs
        exact validUtf8_append (validUtf8_append h1 hn) h2

theorem remove_valid (s old : Bytes) (hs : ValidUtf8 s) (ho : ValidUtf8 old) :
    ValidUtf8 (StrF.remove s old) :=
  replace_valid s old [] hs ho validUtf8_nil

theorem removeFirst_valid (s old : Bytes) (hs : ValidUtf8 s) (ho : ValidUtf8 old) :
    ValidUtf8 (StrF.removeFirst s old) :=
  replaceFirst_valid s old [] hs ho validUtf8_nil

/-! ## split / join -/

theorem split_valid (s sep : Bytes) (hs : ValidUtf8 s) (hsep : ValidUtf8 sep) :
    ∀ p ∈ StrF.split s sep, ValidUtf8 p := fun p hp =>
  SV.splitRaw_valid s sep hs hsep p (SV.mem_dropTrailingEmpty _ p hp)

theorem join_valid (sep : Bytes) (ps : List Bytes) (hsep : ValidUtf8 sep) (hps : ∀ p ∈ ps, ValidUtf8 p) :
    ValidUtf8 (StrF.join sep ps) := by
  induction ps with
  | nil => simpa [StrF.join] using validUtf8_nil
  | cons p ps ih =>
    cases ps with
    | nil => simpa [StrF.join] using hps p (List.mem_cons_self ..)
    | cons q ps =>
      simp only [StrF.join]
      exact validUtf8_append (validUtf8_append (hps p (List.mem_cons_self ..)) hsep)
        (ih (fun x hx => hps x (List.mem_cons_of_mem _ hx)))

/-! ## `escape_once` helpers -/

namespace SV

theorem u8_lt_of_le (c k : UInt8) (hk : k.toNat < 128) (h : c ≤ k) : c < 0x80 := by
  rw [UInt8.le_iff_toNat_le] at h
  rw [UInt8.lt_iff_toNat_lt]
  have : (0x80 : UInt8).toNat = 128 := by decide
  omega

theorem digitOf_ascii (hex : Bool) (c : UInt8) (d : Int) (h : StrF.digitOf hex c = some d) : c < 0x80 := by
  unfold StrF.digitOf at h
  split at h
  · rename_i h1
    simp only [Bool.and_eq_true, decide_eq_true_eq] at h1
    exact u8_lt_of_le c 57 (by decide) h1.2
  · split at h
    · rename_i h1
      simp only [Bool.and_eq_true, decide_eq_true_eq] at h1
      exact u8_lt_of_le c 102 (by decide) h1.2
    · split at h
      · rename_i h1
        simp only [Bool.and_eq_true, decide_eq_true_eq] at h1
        exact u8_lt_of_le c 70 (by decide) h1.2
      · cases h

theorem isAlnum_ascii (c : UInt8) (h : StrF.isAlnum c = true) : c < 0x80 := by
  simp only [StrF.isAlnum, Bool.or_eq_true, Bool.and_eq_true, decide_eq_true_eq] at h
  rcases h with (h | h) | h
  · exact u8_lt_of_le c 122 (by decide) h.2
  · exact u8_lt_of_le c 90 (by decide) h.2
  · exact u8_lt_of_le c 57 (by decide) h.2

/-- the digit loop advances the index by `m ≤ cs.length` and the `m` bytes it passes are ASCII -/
theorem scanNum_spec (hex : Bool) : ∀ (cs : Bytes) (x : Int) (i : Nat),
    ∃ m, (StrF.scanNum hex x i cs).2 = i + m ∧ m ≤ cs.length ∧ ∀ b ∈ cs.take m, b < 0x80 := by
  intro cs
  induction cs with
  | nil => intro x i; exact ⟨0, by simp [StrF.scanNum]⟩
  | cons c cs ih =>
    intro x i
    simp only [StrF.scanNum]
    cases hd : StrF.digitOf hex c with
    | some d =>
      simp only
      obtain ⟨m, h1, h2, h3⟩ := ih (StrF.wrap32 ((if hex then 16 else 10) * x + d)) (i + 1)
      refine ⟨m + 1, by rw [h1]; omega, by simpa using h2, ?_⟩
      intro b hb
      rw [List.take_succ_cons] at hb
      rcases List.mem_cons.1 hb with hb | hb
      · subst hb; exact digitOf_ascii hex b d hd
      · exact h3 b hb
    | none =>
      simp only
      split
      · rename_i hc
        have hc : c = 59 := by simpa using hc
        subst hc
        refine ⟨1, rfl, by simp, ?_⟩
        intro b hb
        simp at hb
        subst hb; decide
      · exact ⟨0, by simp⟩

theorem scanName_spec : ∀ (cs : Bytes), StrF.scanName cs <+: cs ∧ ∀ b ∈ StrF.scanName cs, b < 0x80 := by
  intro cs
  induction cs with
  | nil => simp [StrF.scanName]
  | cons c cs ih =>
    simp only [StrF.scanName]
    split
    · rename_i hc
      refine ⟨by simpa [List.cons_prefix_cons] using ih.1, ?_⟩
      intro b hb
      rcases List.mem_cons.1 hb with hb | hb
      · subst hb; exact isAlnum_ascii b hc
      · exact ih.2 b hb
    · split
      · rename_i hc
        have hc : c = 59 := by simpa using hc
        subst hc
        refine ⟨by simp [List.cons_prefix_cons], ?_⟩
        intro b hb
        simp at hb
        subst hb; decide
      · simp

/-- dropping ASCII bytes from the front of a valid string -/
theorem drop_ascii_valid : ∀ (m : Nat) (s : Bytes), ValidUtf8 s → (∀ b ∈ s.take m, b < 0x80) →
    ValidUtf8 (s.drop m) := by
  intro m
  induction m with
  | zero => intro s hs _; simpa using hs
  | succ m ih =>
    intro s hs h
    cases s with
    | nil => simpa using hs
    | cons b t =>
      rw [List.take_succ_cons] at h
      rw [List.drop_succ_cons]
      have hb := h b (List.mem_cons_self ..)
      exact ih t ((validUtf8_cons_ascii b t hb).1 hs) (fun x hx => h x (List.mem_cons_of_mem _ hx))

/-- what `unescapeEntity` writes is valid, and the source bytes it consumes after the `&` are ASCII -/
theorem unescapeEntity_spec (rest out : Bytes) (k : Nat) (h : StrF.unescapeEntity rest = some (out, k)) :
    ValidUtf8 out ∧ ∀ b ∈ rest.take (k - 1), b < 0x80 := by
  have h38 : ValidUtf8 [38] := validUtf8_of_all_ascii _ (by intro b hb; simp at hb; subst hb; decide)
  have triv : ∀ {rest : Bytes}, some (([38] : Bytes), 1) = some (out, k) →
      ValidUtf8 out ∧ ∀ b ∈ rest.take (k - 1), b < 0x80 := by
    intro rest h
    simp only [Option.some.injEq, Prod.mk.injEq] at h
    obtain ⟨rfl, rfl⟩ := h
    exact ⟨h38, by simp⟩
  unfold StrF.unescapeEntity at h
  split at h
  · exact triv h
  · rename_i r2
    split at h
    · exact triv h
    · split at h
      · exact triv h
      · rename_i c r3 _
        simp only at h
        split at h
        · rename_i hc
          obtain ⟨m, h1, h2, h3⟩ := scanNum_spec true r3 0 3
          split at h
          · exact triv h
          · simp only [Option.some.injEq, Prod.mk.injEq] at h
            obtain ⟨rfl, rfl⟩ := h
            refine ⟨validUtf8_encodeRune _, ?_⟩
            rw [h1]
            have : 3 + m - 1 = m + 1 + 1 := by omega
            rw [this, List.take_succ_cons, List.take_succ_cons]
            intro b hb
            rcases List.mem_cons.1 hb with hb | hb
            · subst hb; decide
            · rcases List.mem_cons.1 hb with hb | hb
              · subst hb
                simp only [Bool.or_eq_true, beq_iff_eq] at hc
                rcases hc with rfl | rfl <;> decide
              · exact h3 b hb
        · obtain ⟨m, h1, h2, h3⟩ := scanNum_spec false (c :: r3) 0 2
          split at h
          · exact triv h
          · simp only [Option.some.injEq, Prod.mk.injEq] at h
            obtain ⟨rfl, rfl⟩ := h
            refine ⟨validUtf8_encodeRune _, ?_⟩
            rw [h1]
            have : 2 + m - 1 = m + 1 := by omega
            rw [this, List.take_succ_cons]
            intro b hb
            rcases List.mem_cons.1 hb with hb | hb
            · subst hb; decide
            · exact h3 b hb
  · rename_i c r _
    simp only at h
    obtain ⟨hp, ha⟩ := scanName_spec (c :: r)
    have htake : ∀ b ∈ (c :: r).take (1 + (StrF.scanName (c :: r)).length - 1), b < 0x80 := by
      have : 1 + (StrF.scanName (c :: r)).length - 1 = (StrF.scanName (c :: r)).length := by omega
      rw [this, List.prefix_iff_eq_take.1 hp |>.symm]
      exact ha
    split at h
    · exact triv h
    · split at h
      · simp only [Option.some.injEq, Prod.mk.injEq] at h
        obtain ⟨rfl, rfl⟩ := h
        exact ⟨validUtf8_encodeRune _, htake⟩
      · split at h
        · simp only [Option.some.injEq, Prod.mk.injEq] at h
          obtain ⟨rfl, rfl⟩ := h
          refine ⟨validUtf8_of_all_ascii _ ?_, htake⟩
          intro b hb
          rcases List.mem_cons.1 hb with hb | hb
          · subst hb; decide
          · exact ha b hb
        · cases h

theorem unescapeAux_valid : ∀ (n : Nat) (pre s u : Bytes), s.length ≤ n → ValidUtf8 (pre ++ s) →
    StrF.unescapeAux n s = some u → ValidUtf8 (pre ++ u) := by
  intro n
  induction n with
  | zero =>
    intro pre s u hl hv h
    have : s = [] := List.eq_nil_of_length_eq_zero (by omega)
    subst this
    simp only [StrF.unescapeAux, Option.some.injEq] at h
    subst h; exact hv
  | succ n ih =>
    intro pre s u hl hv h
    cases s with
    | nil =>
      simp only [StrF.unescapeAux, Option.some.injEq] at h
      subst h; exact hv
    | cons b rest =>
      simp only [List.length_cons] at hl
      by_cases hb : b = 38
      · subst hb
        obtain ⟨hpre, h2⟩ := validUtf8_of_append_ascii pre 38 rest (by decide) hv
        have hrest : ValidUtf8 rest := (validUtf8_cons_ascii 38 rest (by decide)).1 h2
        cases hE : StrF.unescapeEntity rest with
        | none => simp [StrF.unescapeAux, hE] at h
        | some ok =>
          obtain ⟨out, k⟩ := ok
          rw [seu_unescapeAux_amp n rest out k hE] at h
          obtain ⟨ho, ha⟩ := unescapeEntity_spec rest out k hE
          cases hu : StrF.unescapeAux n (rest.drop (k - 1)) with
          | none => simp [hu] at h
          | some u' =>
            simp only [hu, Option.map_some, Option.some.injEq] at h
            subst h
            have := ih (pre ++ out) (rest.drop (k - 1)) u' (by simp; omega)
              (validUtf8_append (validUtf8_append hpre ho) (drop_ascii_valid _ rest hrest ha)) hu
            simpa using this
      · rw [seu_unescapeAux_plain n b rest hb] at h
        cases hu : StrF.unescapeAux n rest with
        | none => simp [hu] at h
        | some u' =>
          simp only [hu, Option.map_some, Option.some.injEq] at h
          subst h
          have := ih (pre ++ [b]) rest u' (by omega) (by simpa using hv) hu
          simpa using this

end SV

/-! ## escape_once -/

theorem unescape_valid (s u : Bytes) (hs : ValidUtf8 s) (h : StrF.unescape s = some u) : ValidUtf8 u := by
  have := SV.unescapeAux_valid s.length [] s u (Nat.le_refl _) (by simpa using hs) h
  simpa using this

theorem escapeOnce_valid (s t : Bytes) (hs : ValidUtf8 s) (h : StrF.escapeOnce s = some t) : ValidUtf8 t := by
  unfold StrF.escapeOnce at h
  cases hu : StrF.unescape s with
  | none => simp [hu] at h
  | some u =>
    simp only [hu, Option.map_some, Option.some.injEq] at h
    subst h
    exact escape_valid u (unescape_valid s u hs hu)
