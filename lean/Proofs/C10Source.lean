import Proofs.SrcBlocks
import Proofs.SrcChain
import Proofs.SrcCase
import Proofs.SrcCondErr
import Proofs.SrcRelInclude
import Proofs.SrcRelRender
import Proofs.SrcCompileLines
import Proofs.C10
/-!
# C10, from source bytes — `unless` is the dual of `if`; `if` renders its body exactly when the condition is truthy

The theorems of `Proofs/C10.lean` are about compiled trees. Here they are lifted through the tokenizer
(`scan_spell`), the block parser and the compiler to statements about `run` on template SOURCE TEXT:
`spell d items` is the text of the template `items` written with the delimiter set `d` (any good one);
`tg name args w` is the tag `{% name args %}` written with white space `w`, `A`, `B` are arbitrary item
lists (texts, objects, tags — nested blocks included) that are self-contained templates (`Compiles`,
decidable: well nested on their own, every object an expression, every tag compiles).
-/

/-- `{% if c %}A{% else %}B{% endif %}` -/
def ifElseSrc (c : Bytes) (A B : List Item) (w1 w2 w3 : Ws) : List Item :=
  tg nmIf c w1 :: (A ++ tg nmElse [] w2 :: (B ++ [tg (endPrefix ++ nmIf) [] w3]))

/-- `{% unless c %}B{% else %}A{% endunless %}` -/
def unlessElseSrc (c : Bytes) (B A : List Item) (w1 w2 w3 : Ws) : List Item :=
  tg nmUnless c w1 :: (B ++ tg nmElse [] w2 :: (A ++ [tg (endPrefix ++ nmUnless) [] w3]))

/-- `{% if c %}A{% endif %}` -/
def ifSrc (c : Bytes) (A : List Item) (w1 w3 : Ws) : List Item :=
  tg nmIf c w1 :: (A ++ [tg (endPrefix ++ nmIf) [] w3])

/-- `{% unless c %}A{% endunless %}` -/
def unlessSrc (c : Bytes) (A : List Item) (w1 w3 : Ws) : List Item :=
  tg nmUnless c w1 :: (A ++ [tg (endPrefix ++ nmUnless) [] w3])

/-- **C10 (`unless` is the dual of `if`), from source bytes.** For every condition text `c` — whether or
    not it parses as an expression, whatever it evaluates to, erroring conditions included — and all
    self-contained bodies `A`, `B`, the one-line templates

    `{% if c %}A{% else %}B{% endif %}`   and   `{% unless c %}B{% else %}A{% endunless %}`

    give the same result of the whole pipeline (same output, or same located error), for every value
    layer, configuration (good delimiters), file system and environment.

    Side condition `h1`, `h2`: the two sources contain no newline. Errors carry the line of the token they
    come from, and `A` stands after `B` in the second source: when `B` contains a newline an error inside
    `A` is reported one line further down by the `unless` form (`dual_lines_differ` below). -/
theorem if_else_unless_dual_source (P : Prims) (O : OutPrims) (cfg : Cfg) (fs : FS) (fuel : Nat) (line : Nat) (env : Env)
    (c : Bytes) (A B : List Item) (w1 w2 w3 w4 w5 w6 : Ws)
    (hg : GoodDelims (Delims.ofList cfg.delims))
    (hc1 : Clean (Delims.ofList cfg.delims) (ifElseSrc c A B w1 w2 w3))
    (hc2 : Clean (Delims.ofList cfg.delims) (unlessElseSrc c B A w4 w5 w6))
    (h1 : countNL (spell (Delims.ofList cfg.delims) (ifElseSrc c A B w1 w2 w3)) = 0)
    (h2 : countNL (spell (Delims.ofList cfg.delims) (unlessElseSrc c B A w4 w5 w6)) = 0)
    (hA : Compiles (Delims.ofList cfg.delims) A line) (hB : Compiles (Delims.ofList cfg.delims) B line) :
    run P O cfg fs fuel (spell (Delims.ofList cfg.delims) (ifElseSrc c A B w1 w2 w3)) line env =
      run P O cfg fs fuel (spell (Delims.ofList cfg.delims) (unlessElseSrc c B A w4 w5 w6)) line env := by
  obtain ⟨nA, hA⟩ := hA.nodes
  obtain ⟨nB, hB⟩ := hB.nodes
  simp only [ifElseSrc, unlessElseSrc, spell_cons, spell_append, countNL_append] at h1 h2
  have e1 : countNL ((tg nmIf c w1).spell (Delims.ofList cfg.delims)) = 0 := by omega
  have e2 : countNL (spell (Delims.ofList cfg.delims) A) = 0 := by omega
  have e3 : countNL ((tg nmElse [] w2).spell (Delims.ofList cfg.delims)) = 0 := by omega
  have e4 : countNL ((tg nmUnless c w4).spell (Delims.ofList cfg.delims)) = 0 := by omega
  have e5 : countNL (spell (Delims.ofList cfg.delims) B) = 0 := by omega
  have e6 : countNL ((tg nmElse [] w5).spell (Delims.ofList cfg.delims)) = 0 := by omega
  rw [ifElseSrc, unlessElseSrc,
    run_ifElse_shape P O cfg fs fuel env nmIf (.inl rfl) c A B w1 w2 w3 line hg hc1 nA nB
      (by rw [e1]; exact hA) (by rw [e1, e2, e3]; exact hB),
    run_ifElse_shape P O cfg fs fuel env nmUnless (.inr rfl) c B A w4 w5 w6 line hg hc2 nB nA
      (by rw [e4]; exact hB) (by rw [e4, e5, e6]; exact hA)]
  cases liftParse line true (parseExprSource c) with
  | ok ex =>
    show runRoot P O cfg fs fuel [.ifB line [(.expr line ex, nA), (.always, nB)]] env =
      runRoot P O cfg fs fuel [.ifB line [(.notExpr line ex, nB), (.always, nA)]] env
    exact runRoot_single_congr P O cfg fs fuel _ _ env (unless_dual _ line ex nA nB _)
  | err e => rfl
  | panic w => rfl
  | unmodelled w => rfl

/-- **C10 (`unless` is the dual of `if`), from source bytes, on any number of lines.** Without the one-line
    condition: for every condition text `c` and all self-contained bodies `A`, `B` that contain no `include` tag,
    wherever their newlines are, `{% if c %}A{% else %}B{% endif %}` and `{% unless c %}B{% else %}A{% endunless %}` give
    results that agree up to the line of the error (`RunResult.sameUpToLine`): the same output; or errors with the
    same cause, message and path flag; or the same panic — for every value layer, configuration with good
    delimiters, file system and environment, from any start line ≥ 1 (Go's lines start at 1).

    Not covered, and not known to fail: bodies containing `include` (the lines inside an included file
    depend on the line of the include tag, which needs the same analysis for the tokenizer), start line 0. -/
theorem if_else_unless_dual_up_to_line_source (P : Prims) (O : OutPrims) (cfg : Cfg) (fs : FS) (fuel : Nat) (line : Nat) (env : Env)
    (hline : 1 ≤ line) (c : Bytes) (A B : List Item) (w1 w2 w3 w4 w5 w6 : Ws)
    (hg : GoodDelims (Delims.ofList cfg.delims))
    (hc1 : Clean (Delims.ofList cfg.delims) (ifElseSrc c A B w1 w2 w3))
    (hc2 : Clean (Delims.ofList cfg.delims) (unlessElseSrc c B A w4 w5 w6))
    (hA : Compiles (Delims.ofList cfg.delims) A 0) (hB : Compiles (Delims.ofList cfg.delims) B 0)
    (hiA : NoIncludeItem A) (hiB : NoIncludeItem B) :
    (run P O cfg fs fuel (spell (Delims.ofList cfg.delims) (ifElseSrc c A B w1 w2 w3)) line env).sameUpToLine
      (run P O cfg fs fuel (spell (Delims.ofList cfg.delims) (unlessElseSrc c B A w4 w5 w6)) line env) := by
  obtain ⟨nA, hnA⟩ := hA.nodes
  obtain ⟨nB, hnB⟩ := hB.nodes
  have hniA := compiles_noIncl _ A 0 nA hnA hiA
  have hniB := compiles_noIncl _ B 0 nB hnB hiB
  rw [ifElseSrc, unlessElseSrc,
    run_ifElse_shape P O cfg fs fuel env nmIf (.inl rfl) c A B w1 w2 w3 line hg hc1 _ _
      (compiles_any_line _ A _ hnA) (compiles_any_line _ B _ hnB),
    run_ifElse_shape P O cfg fs fuel env nmUnless (.inr rfl) c B A w4 w5 w6 line hg hc2 _ _
      (compiles_any_line _ B _ hnB) (compiles_any_line _ A _ hnA)]
  cases liftParse line true (parseExprSource c) with
  | ok ex =>
    -- name the four line offsets
    generalize hlA1 : line + countNL ((tg nmIf c w1).spell (Delims.ofList cfg.delims)) = lA1
    generalize hlB1 : lA1 + countNL (spell (Delims.ofList cfg.delims) A) + countNL ((tg nmElse [] w2).spell (Delims.ofList cfg.delims)) = lB1
    generalize hlB2 : line + countNL ((tg nmUnless c w4).spell (Delims.ofList cfg.delims)) = lB2
    generalize hlA2 : lB2 + countNL (spell (Delims.ofList cfg.delims) B) + countNL ((tg nmElse [] w5).spell (Delims.ofList cfg.delims)) = lA2
    have p1 : 1 ≤ lA1 := by omega
    have p2 : 1 ≤ lB1 := by omega
    have p3 : 1 ≤ lB2 := by omega
    have p4 : 1 ≤ lA2 := by omega
    show (runRoot P O cfg fs fuel [.ifB line [(.expr line ex, relNodes (· + lA1) nA), (.always, relNodes (· + lB1) nB)]] env).sameUpToLine
      (runRoot P O cfg fs fuel [.ifB line [(.notExpr line ex, relNodes (· + lB2) nB), (.always, relNodes (· + lA2) nA)]] env)
    rw [← runRoot_single_congr P O cfg fs fuel _ _ env (unless_dual _ line ex (relNodes (· + lA2) nA) (relNodes (· + lB2) nB) _)]
    apply runRoot_single_rel
    rw [renderNode, renderNode]
    refine relM_wrapAt _ ⟨rfl, Iff.rfl⟩ ?_ _
    simp only [renderBranches]
    refine relM_bind (relM_refl (R := fun a b : Bool => a = b) (fun _ => rfl) _) (fun b b' hb => ?_)
    subst hb
    split
    · exact lineRel_renderBlockBody _ (fun x => by constructor <;> intro h <;> omega) nA hniA
    · refine relM_bind (relM_refl (R := fun a b : Bool => a = b) (fun _ => rfl) _) (fun b b' hb => ?_)
      subst hb
      split
      · exact lineRel_renderBlockBody _ (fun x => by constructor <;> intro h <;> omega) nB hniB
      · exact relM_refl StatusRel.refl _
  | err e => exact RunResult.sameUpToLine_refl _
  | panic w => exact RunResult.sameUpToLine_refl _
  | unmodelled w => exact RunResult.sameUpToLine_refl _

/-- **C10 (a condition that is not an expression), from source bytes.** If the condition text of
    `{% if c %}A{% else %}B{% endif %}` or `{% unless c %}A{% else %}B{% endunless %}` does not parse as an
    expression (and the bodies are self-contained templates where they stand), the whole pipeline fails
    with a syntax error located at the line of the `if`/`unless` tag — the start line of the source, the
    tag being its first item — for every value layer, file system and environment: nothing is rendered. -/
theorem if_else_bad_condition_source (P : Prims) (O : OutPrims) (cfg : Cfg) (fs : FS) (fuel : Nat) (line : Nat) (env : Env)
    (nm : Bytes) (hn : nm = nmIf ∨ nm = nmUnless) (c : Bytes) (A B : List Item) (w1 w2 w3 : Ws)
    (hg : GoodDelims (Delims.ofList cfg.delims))
    (hc : Clean (Delims.ofList cfg.delims) (tg nm c w1 :: (A ++ tg nmElse [] w2 :: (B ++ [tg (endPrefix ++ nm) [] w3]))))
    (hA : Compiles (Delims.ofList cfg.delims) A (line + countNL ((tg nm c w1).spell (Delims.ofList cfg.delims))))
    (hB : Compiles (Delims.ofList cfg.delims) B
      (line + countNL ((tg nm c w1).spell (Delims.ofList cfg.delims)) + countNL (spell (Delims.ofList cfg.delims) A)
        + countNL ((tg nmElse [] w2).spell (Delims.ofList cfg.delims))))
    (x : ParseErr) (hbad : parseExprSource c = .err x) :
    run P O cfg fs fuel (spell (Delims.ofList cfg.delims) (tg nm c w1 :: (A ++ tg nmElse [] w2 :: (B ++ [tg (endPrefix ++ nm) [] w3])))) line env =
      .err ⟨line, true, .syntax, .byCause⟩ := by
  obtain ⟨nA, hA⟩ := hA.nodes
  obtain ⟨nB, hB⟩ := hB.nodes
  rw [run_ifElse_shape P O cfg fs fuel env nm hn c A B w1 w2 w3 line hg hc nA nB hA hB, hbad]
  rfl

/-- the same when the two forms stand on one line: both fail, with the same error -/
theorem if_else_unless_bad_condition_source (P : Prims) (O : OutPrims) (cfg : Cfg) (fs : FS) (fuel : Nat) (line : Nat) (env : Env)
    (c : Bytes) (A B : List Item) (w1 w2 w3 w4 w5 w6 : Ws)
    (hg : GoodDelims (Delims.ofList cfg.delims))
    (hc1 : Clean (Delims.ofList cfg.delims) (ifElseSrc c A B w1 w2 w3))
    (hc2 : Clean (Delims.ofList cfg.delims) (unlessElseSrc c B A w4 w5 w6))
    (h1 : countNL (spell (Delims.ofList cfg.delims) (ifElseSrc c A B w1 w2 w3)) = 0)
    (h2 : countNL (spell (Delims.ofList cfg.delims) (unlessElseSrc c B A w4 w5 w6)) = 0)
    (hA : Compiles (Delims.ofList cfg.delims) A line) (hB : Compiles (Delims.ofList cfg.delims) B line)
    (x : ParseErr) (hbad : parseExprSource c = .err x) :
    run P O cfg fs fuel (spell (Delims.ofList cfg.delims) (ifElseSrc c A B w1 w2 w3)) line env = .err ⟨line, true, .syntax, .byCause⟩ ∧
    run P O cfg fs fuel (spell (Delims.ofList cfg.delims) (unlessElseSrc c B A w4 w5 w6)) line env = .err ⟨line, true, .syntax, .byCause⟩ := by
  simp only [ifElseSrc, unlessElseSrc, spell_cons, spell_append, countNL_append] at h1 h2
  have e1 : countNL ((tg nmIf c w1).spell (Delims.ofList cfg.delims)) = 0 := by omega
  have e2 : countNL (spell (Delims.ofList cfg.delims) A) = 0 := by omega
  have e3 : countNL ((tg nmElse [] w2).spell (Delims.ofList cfg.delims)) = 0 := by omega
  have e4 : countNL ((tg nmUnless c w4).spell (Delims.ofList cfg.delims)) = 0 := by omega
  have e5 : countNL (spell (Delims.ofList cfg.delims) B) = 0 := by omega
  have e6 : countNL ((tg nmElse [] w5).spell (Delims.ofList cfg.delims)) = 0 := by omega
  exact ⟨if_else_bad_condition_source P O cfg fs fuel line env nmIf (.inl rfl) c A B w1 w2 w3 hg hc1
      (by rw [e1]; exact hA) (by rw [e1, e2, e3]; exact hB) x hbad,
    if_else_bad_condition_source P O cfg fs fuel line env nmUnless (.inr rfl) c B A w4 w5 w6 hg hc2
      (by rw [e4]; exact hB) (by rw [e4, e5, e6]; exact hA) x hbad⟩

/-! ## `{% if c %}A{% endif %}` -/

/-- **C10 (`if` renders its body exactly when the condition is truthy), from source bytes.** Let the
    condition text `c` parse to the expression `ex` and evaluate, in the environment of the render, to `v`.
    * If `v` is falsy (nil or false) `{% if c %}A{% endif %}` renders to nothing, successfully.
    * If `v` is truthy (anything else: 0, "", empty collections included — `test_truthy_iff`), the template
      succeeds exactly when `A`, as a template of its own starting where it stands, succeeds, and then with
      exactly the output of `A`.
    For `unless` exchange truthy and falsy (`unless_source`). Every value layer, configuration with good
    delimiters, file system, environment; `A` any self-contained item list (`Compiles`). -/
theorem if_source (P : Prims) (O : OutPrims) (cfg : Cfg) (fs : FS) (fuel : Nat) (line : Nat) (env : Env)
    (c : Bytes) (A : List Item) (w1 w3 : Ws)
    (hg : GoodDelims (Delims.ofList cfg.delims))
    (hc : Clean (Delims.ofList cfg.delims) (ifSrc c A w1 w3)) (hcA : Clean (Delims.ofList cfg.delims) A)
    (hA : Compiles (Delims.ofList cfg.delims) A (line + countNL ((tg nmIf c w1).spell (Delims.ofList cfg.delims))))
    (ex : Expr) (v : GoVal) (hp : parseExprSource c = .ok ex) (hv : evaluate P env ex = .ok v) :
    (v.test = false → run P O cfg fs fuel (spell (Delims.ofList cfg.delims) (ifSrc c A w1 w3)) line env = .ok []) ∧
    (v.test = true → ∀ out,
      run P O cfg fs fuel (spell (Delims.ofList cfg.delims) (ifSrc c A w1 w3)) line env = .ok out ↔
      run P O cfg fs fuel (spell (Delims.ofList cfg.delims) A)
        (line + countNL ((tg nmIf c w1).spell (Delims.ofList cfg.delims))) env = .ok out) := by
  obtain ⟨nA, hnA⟩ := hA.nodes
  have hrun := run_if_shape P O cfg fs fuel env nmIf (.inl rfl) c A w1 w3 line hg hc nA hnA
  rw [hp] at hrun
  have hrun' : run P O cfg fs fuel (spell (Delims.ofList cfg.delims) (ifSrc c A w1 w3)) line env =
      runRoot P O cfg fs fuel [.ifB line [(.expr line ex, nA)]] env := hrun
  have hcond : ∀ b, v.test = b → condRes (mkCtx P O cfg fs fuel).P (⟨env, {}⟩ : RS).env (.expr line ex) = .ok b := by
    intro b hb
    show condRes P env (.expr line ex) = .ok b
    simp only [condRes, hv, hb]
  constructor
  · intro hf
    rw [hrun']
    apply runRoot_silent
    rw [renderNode]
    simp only [wrapAt, renderBranches_cons, hcond false hf]
    rw [renderBranches]
    rfl
  · intro ht out
    rw [hrun', run_spell P O cfg fs fuel A _ env hg hcA, hnA]
    show _ ↔ runRoot P O cfg fs fuel nA env = .ok out
    apply runRoot_wrapped_body_ok P O cfg fs fuel _ nA env ⟨line, true⟩
    rw [renderNode]
    simp only [wrapAt, renderBranches_cons, hcond true ht]
    rfl

/-- **C10 (`unless` renders its body exactly when the condition is falsy), from source bytes.** -/
theorem unless_source (P : Prims) (O : OutPrims) (cfg : Cfg) (fs : FS) (fuel : Nat) (line : Nat) (env : Env)
    (c : Bytes) (A : List Item) (w1 w3 : Ws)
    (hg : GoodDelims (Delims.ofList cfg.delims))
    (hc : Clean (Delims.ofList cfg.delims) (unlessSrc c A w1 w3)) (hcA : Clean (Delims.ofList cfg.delims) A)
    (hA : Compiles (Delims.ofList cfg.delims) A (line + countNL ((tg nmUnless c w1).spell (Delims.ofList cfg.delims))))
    (ex : Expr) (v : GoVal) (hp : parseExprSource c = .ok ex) (hv : evaluate P env ex = .ok v) :
    (v.test = true → run P O cfg fs fuel (spell (Delims.ofList cfg.delims) (unlessSrc c A w1 w3)) line env = .ok []) ∧
    (v.test = false → ∀ out,
      run P O cfg fs fuel (spell (Delims.ofList cfg.delims) (unlessSrc c A w1 w3)) line env = .ok out ↔
      run P O cfg fs fuel (spell (Delims.ofList cfg.delims) A)
        (line + countNL ((tg nmUnless c w1).spell (Delims.ofList cfg.delims))) env = .ok out) := by
  obtain ⟨nA, hnA⟩ := hA.nodes
  have hrun := run_if_shape P O cfg fs fuel env nmUnless (.inr rfl) c A w1 w3 line hg hc nA hnA
  rw [hp] at hrun
  have hrun' : run P O cfg fs fuel (spell (Delims.ofList cfg.delims) (unlessSrc c A w1 w3)) line env =
      runRoot P O cfg fs fuel [.ifB line [(.notExpr line ex, nA)]] env := hrun
  have hcond : ∀ b, v.test = b → condRes (mkCtx P O cfg fs fuel).P (⟨env, {}⟩ : RS).env (.notExpr line ex) = .ok (!b) := by
    intro b hb
    show condRes P env (.notExpr line ex) = .ok (!b)
    simp only [condRes, hv, hb]
  constructor
  · intro hf
    rw [hrun']
    apply runRoot_silent
    rw [renderNode]
    simp only [wrapAt, renderBranches_cons, hcond true hf, Bool.not_true]
    rw [renderBranches]
    rfl
  · intro ht out
    rw [hrun', run_spell P O cfg fs fuel A _ env hg hcA, hnA]
    show _ ↔ runRoot P O cfg fs fuel nA env = .ok out
    apply runRoot_wrapped_body_ok P O cfg fs fuel _ nA env ⟨line, true⟩
    rw [renderNode]
    simp only [wrapAt, renderBranches_cons, hcond false ht, Bool.not_false]
    rfl

/-! ## The whole chain: `{% if c0 %}A0{% elsif c1 %}A1 … {% else %}E{% endif %}`

`chainSrc c0 w0 A0 rest wE` (Proofs/SrcChain.lean) is the source of an `if` block with any number of
`elsif`/`else` clauses (`Clause`: the condition text, or `none` for `else`; the white space of the tag; the
body). The three theorems below are `if_denotation` (Proofs/C10.lean) read on source text: the block renders
exactly the body of the first clause whose condition is truthy. `Clause.Good` (decidable): the condition
is an expression and the body a self-contained template; `Clause.Falsy`: the clause is an `elsif` whose
condition evaluates, in the environment of the render, to nil or false. -/

/-- **C10 (the first branch), from source bytes.** If the condition of the `if` tag evaluates truthy, the
    block — whatever clauses follow, as long as they compile — succeeds exactly when its first body `A0`
    does (as a template of its own, where it stands), with exactly that output: later conditions are not
    evaluated, later bodies not rendered. -/
theorem if_chain_first_source (P : Prims) (O : OutPrims) (cfg : Cfg) (fs : FS) (fuel : Nat) (line : Nat) (env : Env)
    (c0 : Bytes) (w0 : Ws) (A0 : List Item) (rest : List Clause) (wE : Ws) (e0 : Expr) (v0 : GoVal)
    (hg : GoodDelims (Delims.ofList cfg.delims)) (hc : Clean (Delims.ofList cfg.delims) (chainSrc c0 w0 A0 rest wE))
    (hcA : Clean (Delims.ofList cfg.delims) A0)
    (hp : parseExprSource c0 = .ok e0) (hA : Compiles (Delims.ofList cfg.delims) A0 0)
    (hrest : ∀ c ∈ rest, c.Good (Delims.ofList cfg.delims))
    (hv : evaluate P env e0 = .ok v0) (ht : v0.test = true) (out : Bytes) :
    run P O cfg fs fuel (spell (Delims.ofList cfg.delims) (chainSrc c0 w0 A0 rest wE)) line env = .ok out ↔
    run P O cfg fs fuel (spell (Delims.ofList cfg.delims) A0)
      (line + countNL ((tg nmIf c0 w0).spell (Delims.ofList cfg.delims))) env = .ok out := by
  obtain ⟨n0, brs, h1, _, h3⟩ := run_chain_shape P O cfg fs fuel line env c0 w0 A0 rest wE e0 hg hc hp hA hrest
  rw [h3, run_spell P O cfg fs fuel A0 _ env hg hcA, h1]
  show _ ↔ runRoot P O cfg fs fuel n0 env = .ok out
  apply runRoot_wrapped_body_ok P O cfg fs fuel _ n0 env ⟨line, true⟩
  rw [renderNode]
  have hcond : condRes (mkCtx P O cfg fs fuel).P (⟨env, {}⟩ : RS).env (.expr line e0) = .ok true := by
    show condRes P env (.expr line e0) = .ok true
    simp only [condRes, hv, ht]
  simp only [wrapAt, renderBranches_cons, hcond]
  rfl

/-- **C10 (the first truthy clause), from source bytes.** If the condition of the `if` tag and the conditions
    of the `elsif` clauses `pre` all evaluate falsy, and the next clause `sel` is an `else` or an `elsif` whose
    condition evaluates truthy, then the block — whatever clauses `post` follow — succeeds exactly when the
    body of `sel` does (as a template of its own, at the line where it stands), with exactly that output. -/
theorem if_chain_clause_source (P : Prims) (O : OutPrims) (cfg : Cfg) (fs : FS) (fuel : Nat) (line : Nat) (env : Env)
    (c0 : Bytes) (w0 : Ws) (A0 : List Item) (pre : List Clause) (sel : Clause) (post : List Clause) (wE : Ws) (e0 : Expr) (v0 : GoVal)
    (hg : GoodDelims (Delims.ofList cfg.delims))
    (hc : Clean (Delims.ofList cfg.delims) (chainSrc c0 w0 A0 (pre ++ sel :: post) wE))
    (hcS : Clean (Delims.ofList cfg.delims) sel.body)
    (hp : parseExprSource c0 = .ok e0) (hA : Compiles (Delims.ofList cfg.delims) A0 0)
    (hrest : ∀ c ∈ pre ++ sel :: post, c.Good (Delims.ofList cfg.delims))
    (hv : evaluate P env e0 = .ok v0) (hf : v0.test = false)
    (hpre : ∀ c ∈ pre, c.Falsy P env)
    (hsel : sel.cond = none ∨ ∃ t e v, sel.cond = some t ∧ parseExprSource t = .ok e ∧ evaluate P env e = .ok v ∧ v.test = true)
    (out : Bytes) :
    run P O cfg fs fuel (spell (Delims.ofList cfg.delims) (chainSrc c0 w0 A0 (pre ++ sel :: post) wE)) line env = .ok out ↔
    run P O cfg fs fuel (spell (Delims.ofList cfg.delims) sel.body)
      (line + countNL (spell (Delims.ofList cfg.delims) (tg nmIf c0 w0 :: (A0 ++ (clauseItems pre ++ [sel.tag]))))) env = .ok out := by
  obtain ⟨n0, brs, _, h2, h3⟩ := run_chain_shape P O cfg fs fuel line env c0 w0 A0 (pre ++ sel :: post) wE e0 hg hc hp hA hrest
  obtain ⟨bpre, t, ns, later, hbrs, hbp, hts, hns⟩ := BrsOf.split _ pre sel post _ brs h2
  have hline : line + countNL (spell (Delims.ofList cfg.delims) (tg nmIf c0 w0 :: (A0 ++ (clauseItems pre ++ [sel.tag])))) =
      line + countNL ((tg nmIf c0 w0).spell (Delims.ofList cfg.delims)) + countNL (spell (Delims.ofList cfg.delims) A0) +
        countNL (spell (Delims.ofList cfg.delims) (clauseItems pre)) + countNL (sel.tag.spell (Delims.ofList cfg.delims)) := by
    have h0 : countNL (spell (Delims.ofList cfg.delims) []) = 0 := rfl
    simp only [spell_cons, spell_append, countNL_append, h0]
    omega
  rw [h3, hline, run_spell P O cfg fs fuel sel.body _ env hg hcS, hns, hbrs]
  show _ ↔ runRoot P O cfg fs fuel ns env = .ok out
  apply runRoot_wrapped_body_ok P O cfg fs fuel _ ns env ⟨line, true⟩
  rw [renderNode]
  have hcond0 : condRes (mkCtx P O cfg fs fuel).P (⟨env, {}⟩ : RS).env (.expr line e0) = .ok false := by
    show condRes P env (.expr line e0) = .ok false
    simp only [condRes, hv, hf]
  have hcondS : condRes (mkCtx P O cfg fs fuel).P (⟨env, {}⟩ : RS).env t = .ok true := by
    show condRes P env t = .ok true
    unfold Clause.test at hts
    rcases hsel with hn | ⟨tt, e, v, hcnd, hpe, hve, hvt⟩
    · rw [hn] at hts
      simp only [Option.some.injEq] at hts
      subst hts
      rfl
    · rw [hcnd] at hts
      simp only [hpe, Option.some.injEq] at hts
      subst hts
      simp only [condRes, hve, hvt]
  have hfirst := if_first_truthy (mkCtx P O cfg fs fuel) ⟨env, {}⟩ ((.expr line e0, n0) :: bpre) t ns later
    (by
      intro b hb
      rcases List.mem_cons.mp hb with rfl | hb
      · exact hcond0
      · exact BrsOf.falsy _ P env pre _ bpre hbp hpre b hb)
    hcondS
  simp only [List.cons_append] at hfirst
  simp only [wrapAt, hfirst]
  rfl

/-- **C10 (no truthy clause), from source bytes.** If the condition of the `if` tag and of every clause —
    all of them `elsif` clauses — evaluates falsy, the block renders nothing, successfully. -/
theorem if_chain_none_source (P : Prims) (O : OutPrims) (cfg : Cfg) (fs : FS) (fuel : Nat) (line : Nat) (env : Env)
    (c0 : Bytes) (w0 : Ws) (A0 : List Item) (rest : List Clause) (wE : Ws) (e0 : Expr) (v0 : GoVal)
    (hg : GoodDelims (Delims.ofList cfg.delims)) (hc : Clean (Delims.ofList cfg.delims) (chainSrc c0 w0 A0 rest wE))
    (hp : parseExprSource c0 = .ok e0) (hA : Compiles (Delims.ofList cfg.delims) A0 0)
    (hrest : ∀ c ∈ rest, c.Good (Delims.ofList cfg.delims))
    (hv : evaluate P env e0 = .ok v0) (hf : v0.test = false) (hall : ∀ c ∈ rest, c.Falsy P env) :
    run P O cfg fs fuel (spell (Delims.ofList cfg.delims) (chainSrc c0 w0 A0 rest wE)) line env = .ok [] := by
  obtain ⟨n0, brs, _, h2, h3⟩ := run_chain_shape P O cfg fs fuel line env c0 w0 A0 rest wE e0 hg hc hp hA hrest
  rw [h3]
  apply runRoot_silent
  rw [renderNode]
  have hcond0 : condRes (mkCtx P O cfg fs fuel).P (⟨env, {}⟩ : RS).env (.expr line e0) = .ok false := by
    show condRes P env (.expr line e0) = .ok false
    simp only [condRes, hv, hf]
  have hnone := if_none (mkCtx P O cfg fs fuel) ⟨env, {}⟩ ((.expr line e0, n0) :: brs) (by
    intro b hb
    rcases List.mem_cons.mp hb with rfl | hb
    · exact hcond0
    · exact BrsOf.falsy _ P env rest _ brs h2 hall b hb)
  simp only [wrapAt, hnone]
  rfl

/-! ## `case` / `when` / `else` -/

/-- **C10 (`case` renders the clause whose value equals the subject), from source bytes.** Let the subject text `s`
    parse to `subj` and evaluate to `sel`, and the arguments of the `when` tag parse to the value list `es`.
    `whenRes P env sel es` (Proofs/C10.lean) evaluates the values in order and compares each with the subject
    (`values.Equal`). For the source `{% case s %}{% when vs %}A{% else %}E{% endcase %}`:
    * if some value equals the subject, the block succeeds exactly when `A` does (as a template of its own where
      it stands), with exactly that output;
    * if none does, the same with the `else` body `E`. -/
theorem case_when_else_source (P : Prims) (O : OutPrims) (cfg : Cfg) (fs : FS) (fuel : Nat) (line : Nat) (env : Env)
    (s vs : Bytes) (A E : List Item) (w1 w2 w3 w4 : Ws) (subj : Expr) (es : List Expr) (sel : GoVal)
    (hg : GoodDelims (Delims.ofList cfg.delims)) (hc : Clean (Delims.ofList cfg.delims) (caseSrc s vs A E w1 w2 w3 w4))
    (hcA : Clean (Delims.ofList cfg.delims) A) (hcE : Clean (Delims.ofList cfg.delims) E)
    (hps : parseExprSource s = .ok subj) (hpw : parseStatement kwWhen vs = .ok (.when es))
    (hA : Compiles (Delims.ofList cfg.delims) A 0) (hE : Compiles (Delims.ofList cfg.delims) E 0)
    (hsel : evaluate P env subj = .ok sel) :
    (whenRes P env sel es = .ok true → ∀ out,
      run P O cfg fs fuel (spell (Delims.ofList cfg.delims) (caseSrc s vs A E w1 w2 w3 w4)) line env = .ok out ↔
      run P O cfg fs fuel (spell (Delims.ofList cfg.delims) A)
        (line + countNL ((tg nmCase s w1).spell (Delims.ofList cfg.delims)) + countNL ((tg nmWhen vs w2).spell (Delims.ofList cfg.delims)))
        env = .ok out) ∧
    (whenRes P env sel es = .ok false → ∀ out,
      run P O cfg fs fuel (spell (Delims.ofList cfg.delims) (caseSrc s vs A E w1 w2 w3 w4)) line env = .ok out ↔
      run P O cfg fs fuel (spell (Delims.ofList cfg.delims) E)
        (line + countNL ((tg nmCase s w1).spell (Delims.ofList cfg.delims)) + countNL ((tg nmWhen vs w2).spell (Delims.ofList cfg.delims))
          + countNL (spell (Delims.ofList cfg.delims) A) + countNL ((tg nmElse [] w3).spell (Delims.ofList cfg.delims)))
        env = .ok out) := by
  obtain ⟨nA, nE, lw, hnA, hnE, hcomp⟩ := case_compile (Delims.ofList cfg.delims) s vs A E w1 w2 w3 w4 line subj es hps hpw hA hE
  have hrun : run P O cfg fs fuel (spell (Delims.ofList cfg.delims) (caseSrc s vs A E w1 w2 w3 w4)) line env =
      runRoot P O cfg fs fuel [.caseB line subj [(some (lw, es), nA), (none, nE)]] env := by
    rw [run_spell P O cfg fs fuel _ line env hg hc, hcomp]
    rfl
  have hnode := case_node_denotation (mkCtx P O cfg fs fuel) line subj [(some (lw, es), nA), (none, nE)] ⟨env, {}⟩ sel hsel
  constructor
  · intro hw out
    rw [hrun, run_spell P O cfg fs fuel A _ env hg hcA, hnA]
    show _ ↔ runRoot P O cfg fs fuel nA env = .ok out
    apply runRoot_wrapped_body_ok P O cfg fs fuel _ nA env ⟨line, true⟩
    rw [hnode]
    have hw' : whenRes (mkCtx P O cfg fs fuel).P (⟨env, {}⟩ : RS).env sel es = .ok true := hw
    simp only [wrapAt, renderCases_when, hw']
    rfl
  · intro hw out
    rw [hrun, run_spell P O cfg fs fuel E _ env hg hcE, hnE]
    show _ ↔ runRoot P O cfg fs fuel nE env = .ok out
    apply runRoot_wrapped_body_ok P O cfg fs fuel _ nE env ⟨line, true⟩
    rw [hnode]
    have hw' : whenRes (mkCtx P O cfg fs fuel).P (⟨env, {}⟩ : RS).env sel es = .ok false := hw
    simp only [wrapAt, renderCases_when, hw']
    rw [renderCases]
    rfl

/-! ## Non-vacuity, on concrete bytes (default delimiters `{{ }} {% %}`) -/

/-- `a{{ y }}` and `b` -/
def c10A : List Item := [.text [97], ob [121]]
def c10B : List Item := [.text [98]]

example : spell Delims.default (ifElseSrc [120] c10A c10B Ws.std Ws.std Ws.std) =
    [123, 37, 32, 105, 102, 32, 120, 32, 37, 125, 97, 123, 123, 32, 121, 32, 125, 125, 123, 37, 32, 101, 108, 115, 101, 32, 37, 125,
     98, 123, 37, 32, 101, 110, 100, 105, 102, 32, 37, 125] := by decide
example : spell Delims.default (unlessElseSrc [120] c10B c10A Ws.std Ws.std Ws.std) =
    [123, 37, 32, 117, 110, 108, 101, 115, 115, 32, 120, 32, 37, 125, 98, 123, 37, 32, 101, 108, 115, 101, 32, 37, 125,
     97, 123, 123, 32, 121, 32, 125, 125, 123, 37, 32, 101, 110, 100, 117, 110, 108, 101, 115, 115, 32, 37, 125] := by decide

/-- `{% if x %}a{{ y }}{% else %}b{% endif %}` and `{% unless x %}b{% else %}a{{ y }}{% endunless %}` give the same
    result, whatever `x` and `y` are bound to, in every value layer -/
example (P : Prims) (O : OutPrims) (fs : FS) (env : Env) :
    run P O {} fs 1 [123, 37, 32, 105, 102, 32, 120, 32, 37, 125, 97, 123, 123, 32, 121, 32, 125, 125, 123, 37, 32, 101, 108, 115,
      101, 32, 37, 125, 98, 123, 37, 32, 101, 110, 100, 105, 102, 32, 37, 125] 1 env =
    run P O {} fs 1 [123, 37, 32, 117, 110, 108, 101, 115, 115, 32, 120, 32, 37, 125, 98, 123, 37, 32, 101, 108, 115, 101, 32, 37,
      125, 97, 123, 123, 32, 121, 32, 125, 125, 123, 37, 32, 101, 110, 100, 117, 110, 108, 101, 115, 115, 32, 37, 125] 1 env :=
  if_else_unless_dual_source P O {} fs 1 1 env [120] c10A c10B Ws.std Ws.std Ws.std Ws.std Ws.std Ws.std
    (by decide) (by decide) (by decide) (by decide) (by decide) (by decide) (by decide)

/-- `{% if | %}a{{ y }}{% else %}b{% endif %}` (the condition is not an expression), started at line 7: a syntax
    error at line 7, in every value layer and environment -/
example (P : Prims) (O : OutPrims) (fs : FS) (env : Env) :
    run P O {} fs 1 (spell Delims.default (ifElseSrc [124] c10A c10B Ws.std Ws.std Ws.std)) 7 env =
      .err ⟨7, true, .syntax, .byCause⟩ :=
  if_else_bad_condition_source P O {} fs 1 7 env nmIf (.inl rfl) [124] c10A c10B Ws.std Ws.std Ws.std
    (by decide) (by decide) (by decide) (by decide) .syntax rfl

/-- `{% if 0 %}a{{ y }}{% endif %}` renders what `a{{ y }}` renders: 0 is truthy -/
example (P : Prims) (O : OutPrims) (fs : FS) (env : Env) (out : Bytes) :
    run P O {} fs 1 (spell Delims.default (ifSrc [48] c10A Ws.std Ws.std)) 1 env = .ok out ↔
    run P O {} fs 1 (spell Delims.default c10A) 1 env = .ok out :=
  (if_source P O {} fs 1 1 env [48] c10A Ws.std Ws.std (by decide) (by decide) (by decide) (by decide)
    (.lit (.int .int 0)) (.int .int 0) rfl rfl).2 rfl out

/-- `{% if nil %}a{{ y }}{% endif %}` renders nothing -/
example (P : Prims) (O : OutPrims) (fs : FS) (env : Env) :
    run P O {} fs 1 (spell Delims.default (ifSrc [110, 105, 108] c10A Ws.std Ws.std)) 1 env = .ok [] :=
  (if_source P O {} fs 1 1 env [110, 105, 108] c10A Ws.std Ws.std (by decide) (by decide) (by decide) (by decide)
    (.lit .nil) .nil rfl rfl).1 rfl

/-! ## The one-line side condition of `if_else_unless_dual_source` is needed

`{% if true %}{{ y }}{% else %}⏎{% endif %}` against `{% unless true %}⏎{% else %}{{ y }}{% endunless %}` with strict
variables and `y` unbound: both fail with the same cause, the first at line 1, the second at line 2
(the object stands after the newline of the other body). Every value layer. -/

/-- **C10 (counterexample to the duality without the one-line condition).** The two forms fail at different lines. -/
theorem dual_lines_differ (P : Prims) (O : OutPrims) (fs : FS) :
    run P O strictCfg fs 1
      (spell Delims.default (ifElseSrc [116, 114, 117, 101] [ob [121]] [.text [10]] Ws.std Ws.std Ws.std)) 1 [] =
      .err ⟨1, true, .other "undefinedVariable", .byCause⟩ ∧
    run P O strictCfg fs 1
      (spell Delims.default (unlessElseSrc [116, 114, 117, 101] [.text [10]] [ob [121]] Ws.std Ws.std Ws.std)) 1 [] =
      .err ⟨2, true, .other "undefinedVariable", .byCause⟩ := by
  constructor
  · rw [show Delims.default = Delims.ofList strictCfg.delims from rfl,
      run_spell _ _ _ _ _ _ _ _ (by decide) (by decide)]
    show runRoot P O strictCfg fs 1
      [.ifB 1 [(.expr 1 (.lit (.bool true)), [.obj 1 (.var [121])]), (.always, [.text 1 [10]])]] [] = _
    simp [runRoot, frender, renderRoot, renderList, renderNode, renderBranches, renderBlockBody, evalCond, wrapAt, wrapFailAt,
      M.mapFail, M.bind, M.pure, M.getEnv, M.ofRes, M.fail, Prog.bind, Prog.mapFail, Prog.runPure, bind, pure, mkCtx,
      evaluate, eval, Env.get, GoVal.test, GoVal.unwrap, GoVal.isNil, GoVal.toLiquid, wrapError, strictCfg]
  · rw [show Delims.default = Delims.ofList strictCfg.delims from rfl,
      run_spell _ _ _ _ _ _ _ _ (by decide) (by decide)]
    show runRoot P O strictCfg fs 1
      [.ifB 1 [(.notExpr 1 (.lit (.bool true)), [.text 1 [10]]), (.always, [.obj 2 (.var [121])])]] [] = _
    simp [runRoot, frender, renderRoot, renderList, renderNode, renderBranches, renderBlockBody, evalCond, wrapAt, wrapFailAt,
      M.mapFail, M.bind, M.pure, M.getEnv, M.ofRes, M.fail, Prog.bind, Prog.mapFail, Prog.runPure, bind, pure, mkCtx,
      evaluate, eval, Env.get, GoVal.test, GoVal.unwrap, GoVal.isNil, GoVal.toLiquid, wrapError, strictCfg]
example : Clean Delims.default (ifElseSrc [116, 114, 117, 101] [ob [121]] [.text [10]] Ws.std Ws.std Ws.std) ∧
    Clean Delims.default (unlessElseSrc [116, 114, 117, 101] [.text [10]] [ob [121]] Ws.std Ws.std Ws.std) ∧
    Compiles Delims.default [ob [121]] 1 ∧ Compiles Delims.default [.text [10]] 1 ∧
    countNL (spell Delims.default (ifElseSrc [116, 114, 117, 101] [ob [121]] [.text [10]] Ws.std Ws.std Ws.std)) = 1 := by decide

/-! ### Non-vacuity of the chain theorems

`{% if false %}a{% elsif nil %}b{% elsif 0 %}c{{ y }}{% else %}d{% endif %}`: the conditions `false` and `nil` are falsy,
`0` is truthy — the block renders what `c{{ y }}` renders, for every value layer and environment. -/
def c10Pre : List Clause := [⟨some [110, 105, 108], Ws.std, [.text [98]]⟩]
def c10Sel : Clause := ⟨some [48], Ws.std, [.text [99], ob [121]]⟩
def c10Post : List Clause := [⟨none, Ws.std, [.text [100]]⟩]

example : spell Delims.default (chainSrc [102, 97, 108, 115, 101] Ws.std [.text [97]] (c10Pre ++ c10Sel :: c10Post) Ws.std) =
    [123, 37, 32, 105, 102, 32, 102, 97, 108, 115, 101, 32, 37, 125, 97,
     123, 37, 32, 101, 108, 115, 105, 102, 32, 110, 105, 108, 32, 37, 125, 98,
     123, 37, 32, 101, 108, 115, 105, 102, 32, 48, 32, 37, 125, 99, 123, 123, 32, 121, 32, 125, 125,
     123, 37, 32, 101, 108, 115, 101, 32, 37, 125, 100, 123, 37, 32, 101, 110, 100, 105, 102, 32, 37, 125] := by decide

example (P : Prims) (O : OutPrims) (fs : FS) (env : Env) (out : Bytes) :
    run P O {} fs 1 (spell Delims.default (chainSrc [102, 97, 108, 115, 101] Ws.std [.text [97]] (c10Pre ++ c10Sel :: c10Post) Ws.std))
      1 env = .ok out ↔
    run P O {} fs 1 (spell Delims.default [.text [99], ob [121]]) 1 env = .ok out :=
  if_chain_clause_source P O {} fs 1 1 env [102, 97, 108, 115, 101] Ws.std [.text [97]] c10Pre c10Sel c10Post Ws.std
    (.lit (.bool false)) (.bool false) (by decide) (by decide) (by decide) rfl (by decide) (by decide) rfl rfl
    (by
      intro c hc
      simp only [c10Pre, List.mem_singleton] at hc
      subst hc
      exact ⟨[110, 105, 108], .lit .nil, .nil, rfl, rfl, rfl, rfl⟩)
    (.inr ⟨[48], .lit (.int .int 0), .int .int 0, rfl, rfl, rfl, rfl⟩) out

/-- `{% if nil %}a{% elsif false %}b{% endif %}` renders nothing -/
example (P : Prims) (O : OutPrims) (fs : FS) (env : Env) :
    run P O {} fs 1 (spell Delims.default (chainSrc [110, 105, 108] Ws.std [.text [97]]
      [⟨some [102, 97, 108, 115, 101], Ws.std, [.text [98]]⟩] Ws.std)) 1 env = .ok [] :=
  if_chain_none_source P O {} fs 1 1 env [110, 105, 108] Ws.std [.text [97]] [⟨some [102, 97, 108, 115, 101], Ws.std, [.text [98]]⟩]
    Ws.std (.lit .nil) .nil (by decide) (by decide) rfl (by decide) (by decide) rfl rfl
    (by
      intro c hc
      simp only [List.mem_singleton] at hc
      subst hc
      exact ⟨[102, 97, 108, 115, 101], .lit (.bool false), .bool false, rfl, rfl, rfl, rfl⟩)

/-- `{% if 0 %}a{{ y }}{% elsif x %}b{% endif %}` renders what `a{{ y }}` renders, whatever `x` is -/
example (P : Prims) (O : OutPrims) (fs : FS) (env : Env) (out : Bytes) :
    run P O {} fs 1 (spell Delims.default (chainSrc [48] Ws.std c10A [⟨some [120], Ws.std, [.text [98]]⟩] Ws.std)) 1 env = .ok out ↔
    run P O {} fs 1 (spell Delims.default c10A) 1 env = .ok out :=
  if_chain_first_source P O {} fs 1 1 env [48] Ws.std c10A [⟨some [120], Ws.std, [.text [98]]⟩] Ws.std (.lit (.int .int 0))
    (.int .int 0) (by decide) (by decide) (by decide) rfl (by decide) (by decide) rfl rfl out

/-- Non-vacuity of `if_else_unless_dual_up_to_line_source`: the two-line pair of `dual_lines_differ`, in any environment
    and value layer — there (strict variables, `y` unbound) the two results are errors at lines 1 and 2 with the same cause -/
example (P : Prims) (O : OutPrims) (fs : FS) (env : Env) :
    (run P O strictCfg fs 1
      (spell Delims.default (ifElseSrc [116, 114, 117, 101] [ob [121]] [.text [10]] Ws.std Ws.std Ws.std)) 1 env).sameUpToLine
    (run P O strictCfg fs 1
      (spell Delims.default (unlessElseSrc [116, 114, 117, 101] [.text [10]] [ob [121]] Ws.std Ws.std Ws.std)) 1 env) :=
  if_else_unless_dual_up_to_line_source P O strictCfg fs 1 1 env (by decide) [116, 114, 117, 101] [ob [121]] [.text [10]]
    Ws.std Ws.std Ws.std Ws.std Ws.std Ws.std (by decide) (by decide) (by decide) (by decide) (by decide) (by decide) (by decide)

/-! ### Non-vacuity of `case_when_else_source`

A value layer in which two Go `int`s are equal when they are the same number. `{% case 1 %}{% when 2, 1 %}a{{ y }}{% else %}b{% endcase %}`:
the second value equals the subject, so the block renders what `a{{ y }}` renders. -/
def c10Prims : Prims :=
  { equal := fun _ _ => .ok false, less := fun _ _ => .ok false, contains := fun _ _ => .ok false,
    equalFn := fun a b => match a, b with | .int _ x, .int _ y => .ok (x == y) | _, _ => .ok false,
    applyFilter := fun _ v _ => .ok v, hasFilter := fun _ => false }

example : spell Delims.default (caseSrc [49] [50, 44, 32, 49] c10A c10B Ws.std Ws.std Ws.std Ws.std) =
    [123, 37, 32, 99, 97, 115, 101, 32, 49, 32, 37, 125, 123, 37, 32, 119, 104, 101, 110, 32, 50, 44, 32, 49, 32, 37, 125,
     97, 123, 123, 32, 121, 32, 125, 125, 123, 37, 32, 101, 108, 115, 101, 32, 37, 125, 98,
     123, 37, 32, 101, 110, 100, 99, 97, 115, 101, 32, 37, 125] := by decide

example (O : OutPrims) (fs : FS) (env : Env) (out : Bytes) :
    run c10Prims O {} fs 1 (spell Delims.default (caseSrc [49] [50, 44, 32, 49] c10A c10B Ws.std Ws.std Ws.std Ws.std)) 1 env = .ok out ↔
    run c10Prims O {} fs 1 (spell Delims.default c10A) 1 env = .ok out :=
  (case_when_else_source c10Prims O {} fs 1 1 env [49] [50, 44, 32, 49] c10A c10B Ws.std Ws.std Ws.std Ws.std
    (.lit (.int .int 1)) [.lit (.int .int 2), .lit (.int .int 1)] (.int .int 1) (by decide) (by decide) (by decide) (by decide)
    rfl rfl (by decide) (by decide) rfl).1 rfl out

/-! ## A condition that FAILS: `{% if c0 %}A0{% elsif c1 %}A1 … {% else %}E{% endif %}`

`if_chain_first_source` / `if_chain_clause_source` / `if_chain_none_source` need every condition up to the selected clause
to evaluate. The two theorems below are the remaining case of `if_denotation`, read on source text: the first condition
that is not falsy FAILS with the cause `x` (an evaluation error: an undefined filter, a filter error, a range bound that
is not an integer …). The render then fails with that cause, located — as `ifTagCompiler` does with
`parser.WrapError(err, b.body)` — at the line of the tag the condition stands in: the `if` tag for `c0`, the `elsif` tag
for a later one (not the line of the `if` tag). Neither that body nor any later one is rendered, later conditions are not
evaluated (they need not evaluate): `written`, the bytes the writer has received when `FRender` returns, is empty. -/

/-- **C10 (the condition of the `if` tag fails), from source bytes.** If `c0` is an expression whose evaluation fails with
    cause `x`, the block — whatever clauses follow, as long as they compile — fails with `x` at the line of the `if` tag, and
    nothing has been written. -/
theorem if_chain_first_cond_err_source (P : Prims) (O : OutPrims) (cfg : Cfg) (fs : FS) (fuel : Nat) (line : Nat) (env : Env)
    (c0 : Bytes) (w0 : Ws) (A0 : List Item) (rest : List Clause) (wE : Ws) (e0 : Expr) (x : Cause)
    (hg : GoodDelims (Delims.ofList cfg.delims)) (hc : Clean (Delims.ofList cfg.delims) (chainSrc c0 w0 A0 rest wE))
    (hp : parseExprSource c0 = .ok e0) (hA : Compiles (Delims.ofList cfg.delims) A0 0)
    (hrest : ∀ c ∈ rest, c.Good (Delims.ofList cfg.delims))
    (hv : evaluate P env e0 = .err x) :
    run P O cfg fs fuel (spell (Delims.ofList cfg.delims) (chainSrc c0 w0 A0 rest wE)) line env = .err ⟨line, true, x, .byCause⟩ ∧
    written P O cfg fs fuel (spell (Delims.ofList cfg.delims) (chainSrc c0 w0 A0 rest wE)) line env = [] := by
  rw [chainSrc_eq_blockSrcK] at hc ⊢
  exact chainK_first_cond_err P O cfg fs fuel line env nmIf (.inl rfl) c0 w0 A0 rest wE e0 x hg hc hp hA hrest
    (fun h => by cases h) hv

/-- **C10 (the condition of an `elsif` clause fails), from source bytes.** If the condition of the `if` tag and the conditions
    of the `elsif` clauses `pre` all evaluate falsy, and the next clause `sel` is an `elsif` whose condition `t` is an expression
    whose evaluation fails with cause `x`, then the block — whatever clauses `post` follow, as long as they compile — fails with
    `x` located at the line of THAT `elsif` tag (the start line plus the newlines of everything before the tag), and nothing has
    been written. -/
theorem if_chain_cond_err_source (P : Prims) (O : OutPrims) (cfg : Cfg) (fs : FS) (fuel : Nat) (line : Nat) (env : Env)
    (c0 : Bytes) (w0 : Ws) (A0 : List Item) (pre : List Clause) (sel : Clause) (post : List Clause) (wE : Ws) (e0 : Expr) (v0 : GoVal)
    (t : Bytes) (e : Expr) (x : Cause)
    (hg : GoodDelims (Delims.ofList cfg.delims))
    (hc : Clean (Delims.ofList cfg.delims) (chainSrc c0 w0 A0 (pre ++ sel :: post) wE))
    (hp : parseExprSource c0 = .ok e0) (hA : Compiles (Delims.ofList cfg.delims) A0 0)
    (hrest : ∀ c ∈ pre ++ sel :: post, c.Good (Delims.ofList cfg.delims))
    (hv : evaluate P env e0 = .ok v0) (hf : v0.test = false)
    (hpre : ∀ c ∈ pre, c.Falsy P env)
    (hsel : sel.cond = some t) (hpe : parseExprSource t = .ok e) (hve : evaluate P env e = .err x) :
    run P O cfg fs fuel (spell (Delims.ofList cfg.delims) (chainSrc c0 w0 A0 (pre ++ sel :: post) wE)) line env =
      .err ⟨line + countNL (spell (Delims.ofList cfg.delims) (tg nmIf c0 w0 :: (A0 ++ clauseItems pre))), true, x, .byCause⟩ ∧
    written P O cfg fs fuel (spell (Delims.ofList cfg.delims) (chainSrc c0 w0 A0 (pre ++ sel :: post) wE)) line env = [] := by
  rw [chainSrc_eq_blockSrcK] at hc ⊢
  have hline : line + countNL (spell (Delims.ofList cfg.delims) (tg nmIf c0 w0 :: (A0 ++ clauseItems pre))) =
      line + countNL ((tg nmIf c0 w0).spell (Delims.ofList cfg.delims)) + countNL (spell (Delims.ofList cfg.delims) A0) +
        countNL (spell (Delims.ofList cfg.delims) (clauseItemsK nmElsif pre)) := by
    rw [clauseItemsK_elsif]
    simp only [spell_cons, spell_append, countNL_append]
    omega
  rw [hline]
  apply run_written_single_fail P O cfg fs fuel _ line env hg hc _ _
    (chainK_compile _ line nmIf (.inl rfl) c0 w0 A0 (pre ++ sel :: post) wE e0 hp hA hrest (fun h => by cases h))
  rw [ifBrs_append]
  simp only [ifBrs]
  have hcond0 : condRes (mkCtx P O cfg fs fuel).P (⟨env, {}⟩ : RS).env (.expr line e0) = .ok false := by
    show condRes P env (.expr line e0) = .ok false
    simp only [condRes, hv, hf]
  have htest : sel.testAt (line + countNL ((tg nmIf c0 w0).spell (Delims.ofList cfg.delims)) +
      countNL (spell (Delims.ofList cfg.delims) A0) + countNL (spell (Delims.ofList cfg.delims) (clauseItemsK nmElsif pre))) =
      .expr (line + countNL ((tg nmIf c0 w0).spell (Delims.ofList cfg.delims)) +
      countNL (spell (Delims.ofList cfg.delims) A0) + countNL (spell (Delims.ofList cfg.delims) (clauseItemsK nmElsif pre))) e := by
    simp only [Clause.testAt, hsel, hpe]
  rw [htest]
  have h := fun body later => ifB_cond_err (mkCtx P O cfg fs fuel) line ⟨env, {}⟩
    ((.expr line e0, nodesOf (Delims.ofList cfg.delims) A0 (line + countNL ((tg nmIf c0 w0).spell (Delims.ofList cfg.delims)))) ::
      ifBrs (Delims.ofList cfg.delims) pre
        (line + countNL ((tg nmIf c0 w0).spell (Delims.ofList cfg.delims)) + countNL (spell (Delims.ofList cfg.delims) A0)))
    (.expr (line + countNL ((tg nmIf c0 w0).spell (Delims.ofList cfg.delims)) +
      countNL (spell (Delims.ofList cfg.delims) A0) + countNL (spell (Delims.ofList cfg.delims) (clauseItemsK nmElsif pre))) e)
    body later x
    (by
      intro b hb
      rcases List.mem_cons.mp hb with rfl | hb
      · exact hcond0
      · exact ifBrs_falsy _ P env pre _ hpre b hb)
    (by
      show condRes P env (.expr _ e) = .err x
      simp only [condRes, hve])
    (by simp only [CondT.line]; omega)
  simp only [List.cons_append, CondT.line] at h
  exact h _ _

/-! ### Non-vacuity of the failing-condition theorems

`(1.."a")` is a range whose upper bound is not an integer: its evaluation fails with a type error in every value layer
(the real engine: `can't convert string(a) to type int`, a `values.TypeError`).
`{% if false %}a⏎{% elsif (1.."a") %}b{% else %}c{% endif %}` from line 1: the `elsif` tag stands at line 2, the render fails
there — not at line 1, the line of the `if` tag — and nothing is written. -/
def c10Poison : Bytes := [40, 49, 46, 46, 34, 97, 34, 41]

example : spell Delims.default (chainSrc [102, 97, 108, 115, 101] Ws.std [.text [97, 10]]
      ([] ++ (⟨some c10Poison, Ws.std, [.text [98]]⟩ : Clause) :: [⟨none, Ws.std, [.text [99]]⟩]) Ws.std) =
    [123, 37, 32, 105, 102, 32, 102, 97, 108, 115, 101, 32, 37, 125, 97, 10,
     123, 37, 32, 101, 108, 115, 105, 102, 32, 40, 49, 46, 46, 34, 97, 34, 41, 32, 37, 125, 98,
     123, 37, 32, 101, 108, 115, 101, 32, 37, 125, 99, 123, 37, 32, 101, 110, 100, 105, 102, 32, 37, 125] := by decide

example (P : Prims) (O : OutPrims) (fs : FS) (env : Env) :
    run P O {} fs 1 (spell Delims.default (chainSrc [102, 97, 108, 115, 101] Ws.std [.text [97, 10]]
      ([] ++ (⟨some c10Poison, Ws.std, [.text [98]]⟩ : Clause) :: [⟨none, Ws.std, [.text [99]]⟩]) Ws.std)) 1 env =
      .err ⟨2, true, .typeErr, .byCause⟩ ∧
    written P O {} fs 1 (spell Delims.default (chainSrc [102, 97, 108, 115, 101] Ws.std [.text [97, 10]]
      ([] ++ (⟨some c10Poison, Ws.std, [.text [98]]⟩ : Clause) :: [⟨none, Ws.std, [.text [99]]⟩]) Ws.std)) 1 env = [] :=
  if_chain_cond_err_source P O {} fs 1 1 env [102, 97, 108, 115, 101] Ws.std [.text [97, 10]] [] ⟨some c10Poison, Ws.std, [.text [98]]⟩
    [⟨none, Ws.std, [.text [99]]⟩] Ws.std (.lit (.bool false)) (.bool false) c10Poison
    (.range (.lit (.int .int 1)) (.lit (.str [97]))) .typeErr (by decide) (by decide) rfl (by decide) (by decide) rfl rfl
    (fun _ h => by cases h) rfl rfl rfl

/-- `{% if (1.."a") %}a{% elsif x %}b{% endif %}` started at line 5: the type error at line 5, whatever `x` is -/
example (P : Prims) (O : OutPrims) (fs : FS) (env : Env) :
    run P O {} fs 1 (spell Delims.default (chainSrc c10Poison Ws.std [.text [97]] [⟨some [120], Ws.std, [.text [98]]⟩] Ws.std)) 5 env =
      .err ⟨5, true, .typeErr, .byCause⟩ :=
  (if_chain_first_cond_err_source P O {} fs 1 5 env c10Poison Ws.std [.text [97]] [⟨some [120], Ws.std, [.text [98]]⟩] Ws.std
    (.range (.lit (.int .int 1)) (.lit (.str [97]))) .typeErr (by decide) (by decide) rfl (by decide) (by decide) rfl).1

/-! ## `unless` chains: `{% unless c0 %}A0{% else %}E1{% else %}E2 … {% endunless %}`

What `ifTagCompiler(false)` and the grammar (`AddBlock("unless").Clause("else")`) do: the condition of the `unless` tag is negated
(`e.Not`), an `unless` block admits `else` clauses only — any number of them, each compiled to the constant `true` — and an
`elsif` tag inside `unless` is rejected by the block parser. So the chain is: `A0` when `c0` evaluates falsy; otherwise the FIRST
`else` clause (later `else` clauses are never rendered); otherwise nothing (`unless_source`); the error of `c0`, at the line of
the `unless` tag, when its evaluation fails. `unlessChainSrc c0 w0 A0 rest wE` (Proofs/SrcCondErr.lean) is the source; in the
first three theorems every clause of `rest` is an `else` clause (`cond = none`). -/

/-- **C10 (`unless`, condition falsy), from source bytes.** If `c0` evaluates to nil or false, the block — whatever `else` clauses
    follow, as long as they compile — succeeds exactly when `A0` does (as a template of its own, where it stands), with exactly that
    output. -/
theorem unless_chain_body_source (P : Prims) (O : OutPrims) (cfg : Cfg) (fs : FS) (fuel : Nat) (line : Nat) (env : Env)
    (c0 : Bytes) (w0 : Ws) (A0 : List Item) (rest : List Clause) (wE : Ws) (e0 : Expr) (v0 : GoVal)
    (hg : GoodDelims (Delims.ofList cfg.delims)) (hc : Clean (Delims.ofList cfg.delims) (unlessChainSrc c0 w0 A0 rest wE))
    (hcA : Clean (Delims.ofList cfg.delims) A0)
    (hp : parseExprSource c0 = .ok e0) (hA : Compiles (Delims.ofList cfg.delims) A0 0)
    (hrest : ∀ c ∈ rest, c.Good (Delims.ofList cfg.delims)) (helse : ∀ c ∈ rest, c.cond = none)
    (hv : evaluate P env e0 = .ok v0) (hf : v0.test = false) (out : Bytes) :
    run P O cfg fs fuel (spell (Delims.ofList cfg.delims) (unlessChainSrc c0 w0 A0 rest wE)) line env = .ok out ↔
    run P O cfg fs fuel (spell (Delims.ofList cfg.delims) A0)
      (line + countNL ((tg nmUnless c0 w0).spell (Delims.ofList cfg.delims))) env = .ok out := by
  rw [unlessChainSrc_eq_blockSrcK] at hc ⊢
  rw [run_chainK_shape P O cfg fs fuel line env nmUnless (.inr rfl) c0 w0 A0 rest wE e0 hg hc hp hA hrest (fun _ => helse),
    run_spell P O cfg fs fuel A0 _ env hg hcA, nodesOf_spec hA]
  show _ ↔ runRoot P O cfg fs fuel (nodesOf (Delims.ofList cfg.delims) A0 _) env = .ok out
  apply runRoot_wrapped_body_ok P O cfg fs fuel _ _ env ⟨line, true⟩
  rw [renderNode]
  have hne : (nmUnless == nmIf) = false := by decide
  have hcond : condRes (mkCtx P O cfg fs fuel).P (⟨env, {}⟩ : RS).env (.notExpr line e0) = .ok true := by
    show condRes P env (.notExpr line e0) = .ok true
    simp only [condRes, hv, hf, Bool.not_false]
  simp only [hne, Bool.false_eq_true, if_false, wrapAt, renderBranches_cons, hcond]
  rfl

/-- **C10 (`unless`, condition truthy: the first `else`), from source bytes.** If `c0` evaluates truthy and the block has at least
    one `else` clause, it succeeds exactly when the body of the FIRST `else` clause does (as a template of its own, at the line where
    it stands), with exactly that output; the `else` clauses after it are not rendered. -/
theorem unless_chain_else_source (P : Prims) (O : OutPrims) (cfg : Cfg) (fs : FS) (fuel : Nat) (line : Nat) (env : Env)
    (c0 : Bytes) (w0 : Ws) (A0 : List Item) (first : Clause) (more : List Clause) (wE : Ws) (e0 : Expr) (v0 : GoVal)
    (hg : GoodDelims (Delims.ofList cfg.delims))
    (hc : Clean (Delims.ofList cfg.delims) (unlessChainSrc c0 w0 A0 (first :: more) wE))
    (hcF : Clean (Delims.ofList cfg.delims) first.body)
    (hp : parseExprSource c0 = .ok e0) (hA : Compiles (Delims.ofList cfg.delims) A0 0)
    (hrest : ∀ c ∈ first :: more, c.Good (Delims.ofList cfg.delims)) (helse : ∀ c ∈ first :: more, c.cond = none)
    (hv : evaluate P env e0 = .ok v0) (ht : v0.test = true) (out : Bytes) :
    run P O cfg fs fuel (spell (Delims.ofList cfg.delims) (unlessChainSrc c0 w0 A0 (first :: more) wE)) line env = .ok out ↔
    run P O cfg fs fuel (spell (Delims.ofList cfg.delims) first.body)
      (line + countNL (spell (Delims.ofList cfg.delims) (tg nmUnless c0 w0 :: (A0 ++ [first.tag])))) env = .ok out := by
  rw [unlessChainSrc_eq_blockSrcK] at hc ⊢
  have hline : line + countNL (spell (Delims.ofList cfg.delims) (tg nmUnless c0 w0 :: (A0 ++ [first.tag]))) =
      line + countNL ((tg nmUnless c0 w0).spell (Delims.ofList cfg.delims)) + countNL (spell (Delims.ofList cfg.delims) A0) +
        countNL ((first.tagK nmElsif).spell (Delims.ofList cfg.delims)) := by
    have h0 : countNL (spell (Delims.ofList cfg.delims) []) = 0 := rfl
    simp only [spell_cons, spell_append, countNL_append, h0, Clause.tagK_elsif]
    omega
  rw [run_chainK_shape P O cfg fs fuel line env nmUnless (.inr rfl) c0 w0 A0 (first :: more) wE e0 hg hc hp hA hrest (fun _ => helse),
    hline, run_spell P O cfg fs fuel first.body _ env hg hcF, nodesOf_spec (hrest first (List.mem_cons_self ..)).2]
  show _ ↔ runRoot P O cfg fs fuel (nodesOf (Delims.ofList cfg.delims) first.body _) env = .ok out
  apply runRoot_wrapped_body_ok P O cfg fs fuel _ _ env ⟨line, true⟩
  rw [renderNode]
  have hne : (nmUnless == nmIf) = false := by decide
  have hcond : condRes (mkCtx P O cfg fs fuel).P (⟨env, {}⟩ : RS).env (.notExpr line e0) = .ok false := by
    show condRes P env (.notExpr line e0) = .ok false
    simp only [condRes, hv, ht, Bool.not_true]
  have htest : ∀ l, first.testAt l = .always := fun l => by
    simp only [Clause.testAt, helse first (List.mem_cons_self ..)]
  have hcondF : condRes (mkCtx P O cfg fs fuel).P (⟨env, {}⟩ : RS).env .always = .ok true := rfl
  simp only [hne, Bool.false_eq_true, if_false, wrapAt, ifBrs, htest, renderBranches_cons, hcond, hcondF]
  rfl

/-- **C10 (`unless`, the condition fails), from source bytes.** If `c0` is an expression whose evaluation fails with cause `x`,
    the block fails with `x` at the line of the `unless` tag, and nothing has been written. -/
theorem unless_chain_cond_err_source (P : Prims) (O : OutPrims) (cfg : Cfg) (fs : FS) (fuel : Nat) (line : Nat) (env : Env)
    (c0 : Bytes) (w0 : Ws) (A0 : List Item) (rest : List Clause) (wE : Ws) (e0 : Expr) (x : Cause)
    (hg : GoodDelims (Delims.ofList cfg.delims)) (hc : Clean (Delims.ofList cfg.delims) (unlessChainSrc c0 w0 A0 rest wE))
    (hp : parseExprSource c0 = .ok e0) (hA : Compiles (Delims.ofList cfg.delims) A0 0)
    (hrest : ∀ c ∈ rest, c.Good (Delims.ofList cfg.delims)) (helse : ∀ c ∈ rest, c.cond = none)
    (hv : evaluate P env e0 = .err x) :
    run P O cfg fs fuel (spell (Delims.ofList cfg.delims) (unlessChainSrc c0 w0 A0 rest wE)) line env = .err ⟨line, true, x, .byCause⟩ ∧
    written P O cfg fs fuel (spell (Delims.ofList cfg.delims) (unlessChainSrc c0 w0 A0 rest wE)) line env = [] := by
  rw [unlessChainSrc_eq_blockSrcK] at hc ⊢
  exact chainK_first_cond_err P O cfg fs fuel line env nmUnless (.inr rfl) c0 w0 A0 rest wE e0 x hg hc hp hA hrest
    (fun _ => helse) hv

/-- **C10 (`elsif` inside `unless` is rejected), from source bytes.** `{% unless c0 %}A0{% else %}… {% elsif t %}…{% endunless %}`:
    whatever `c0` and `t` are (expressions or not) and whatever clauses follow, as long as the bodies are self-contained templates,
    the template is not accepted: the block parser fails at the line of the first `elsif` tag with the cause-less error
    `elsif not inside if` (`Msg.notInside`), for every value layer and environment. -/
theorem unless_elsif_rejected_source (P : Prims) (O : OutPrims) (cfg : Cfg) (fs : FS) (fuel : Nat) (line : Nat) (env : Env)
    (c0 : Bytes) (w0 : Ws) (A0 : List Item) (pre : List Clause) (sel : Clause) (post : List Clause) (wE : Ws) (t : Bytes)
    (hg : GoodDelims (Delims.ofList cfg.delims))
    (hc : Clean (Delims.ofList cfg.delims) (unlessChainSrc c0 w0 A0 (pre ++ sel :: post) wE))
    (hA : Compiles (Delims.ofList cfg.delims) A0 0)
    (hbodies : ∀ c ∈ pre ++ sel :: post, Compiles (Delims.ofList cfg.delims) c.body 0)
    (helse : ∀ c ∈ pre, c.cond = none) (hsel : sel.cond = some t) :
    run P O cfg fs fuel (spell (Delims.ofList cfg.delims) (unlessChainSrc c0 w0 A0 (pre ++ sel :: post) wE)) line env =
      .err ⟨line + countNL (spell (Delims.ofList cfg.delims) (tg nmUnless c0 w0 :: (A0 ++ clauseItems pre))), true, .none, .notInside⟩ := by
  rw [unlessChainSrc_eq_blockSrcK] at hc ⊢
  have hline : line + countNL (spell (Delims.ofList cfg.delims) (tg nmUnless c0 w0 :: (A0 ++ clauseItems pre))) =
      line + countNL ((tg nmUnless c0 w0).spell (Delims.ofList cfg.delims)) + countNL (spell (Delims.ofList cfg.delims) A0) +
        countNL (spell (Delims.ofList cfg.delims) (clauseItemsK nmElsif pre)) := by
    rw [clauseItemsK_elsif]
    simp only [spell_cons, spell_append, countNL_append]
    omega
  rw [run_spell P O cfg fs fuel _ line env hg hc,
    unlessChain_elsif_compile _ line c0 w0 A0 pre sel post wE t hA hbodies helse hsel, hline]
  rfl

/-! ### Non-vacuity of the `unless` chain theorems -/

/-- `{% unless nil %}a{{ y }}{% else %}b{% else %}c{% endunless %}` renders what `a{{ y }}` renders -/
example (P : Prims) (O : OutPrims) (fs : FS) (env : Env) (out : Bytes) :
    run P O {} fs 1 (spell Delims.default (unlessChainSrc [110, 105, 108] Ws.std c10A
      [⟨none, Ws.std, [.text [98]]⟩, ⟨none, Ws.std, [.text [99]]⟩] Ws.std)) 1 env = .ok out ↔
    run P O {} fs 1 (spell Delims.default c10A) 1 env = .ok out :=
  unless_chain_body_source P O {} fs 1 1 env [110, 105, 108] Ws.std c10A [⟨none, Ws.std, [.text [98]]⟩, ⟨none, Ws.std, [.text [99]]⟩]
    Ws.std (.lit .nil) .nil (by decide) (by decide) (by decide) rfl (by decide) (by decide) (by decide) rfl rfl out

example : spell Delims.default (unlessChainSrc [48] Ws.std [.text [98]]
      [⟨none, Ws.std, c10A⟩, ⟨none, Ws.std, [.text [99]]⟩] Ws.std) =
    [123, 37, 32, 117, 110, 108, 101, 115, 115, 32, 48, 32, 37, 125, 98, 123, 37, 32, 101, 108, 115, 101, 32, 37, 125,
     97, 123, 123, 32, 121, 32, 125, 125, 123, 37, 32, 101, 108, 115, 101, 32, 37, 125, 99,
     123, 37, 32, 101, 110, 100, 117, 110, 108, 101, 115, 115, 32, 37, 125] := by decide

/-- `{% unless 0 %}b{% else %}a{{ y }}{% else %}c{% endunless %}` renders what `a{{ y }}` renders: 0 is truthy, the first `else` is
    taken, the second never -/
example (P : Prims) (O : OutPrims) (fs : FS) (env : Env) (out : Bytes) :
    run P O {} fs 1 (spell Delims.default (unlessChainSrc [48] Ws.std [.text [98]]
      [⟨none, Ws.std, c10A⟩, ⟨none, Ws.std, [.text [99]]⟩] Ws.std)) 1 env = .ok out ↔
    run P O {} fs 1 (spell Delims.default c10A) 1 env = .ok out :=
  unless_chain_else_source P O {} fs 1 1 env [48] Ws.std [.text [98]] ⟨none, Ws.std, c10A⟩ [⟨none, Ws.std, [.text [99]]⟩]
    Ws.std (.lit (.int .int 0)) (.int .int 0) (by decide) (by decide) (by decide) rfl (by decide) (by decide) (by decide) rfl rfl out

/-- `{% unless (1.."a") %}a{% else %}b{% endunless %}` started at line 3: the type error at line 3 -/
example (P : Prims) (O : OutPrims) (fs : FS) (env : Env) :
    run P O {} fs 1 (spell Delims.default (unlessChainSrc c10Poison Ws.std [.text [97]] [⟨none, Ws.std, [.text [98]]⟩] Ws.std)) 3 env =
      .err ⟨3, true, .typeErr, .byCause⟩ :=
  (unless_chain_cond_err_source P O {} fs 1 3 env c10Poison Ws.std [.text [97]] [⟨none, Ws.std, [.text [98]]⟩] Ws.std
    (.range (.lit (.int .int 1)) (.lit (.str [97]))) .typeErr (by decide) (by decide) rfl (by decide) (by decide) (by decide) rfl).1

/-- `{% unless x %}a{% else %}b⏎{% elsif y %}c{% endunless %}`: not accepted, `elsif not inside if` at line 2 -/
example (P : Prims) (O : OutPrims) (fs : FS) (env : Env) :
    run P O {} fs 1 (spell Delims.default (unlessChainSrc [120] Ws.std [.text [97]]
      ([⟨none, Ws.std, [.text [98, 10]]⟩] ++ (⟨some [121], Ws.std, [.text [99]]⟩ : Clause) :: []) Ws.std)) 1 env =
      .err ⟨2, true, .none, .notInside⟩ :=
  unless_elsif_rejected_source P O {} fs 1 1 env [120] Ws.std [.text [97]] [⟨none, Ws.std, [.text [98, 10]]⟩]
    ⟨some [121], Ws.std, [.text [99]]⟩ [] Ws.std [121] (by decide) (by decide) (by decide) (by decide) (by decide) rfl

/-! ## `case` with any number of clauses: `{% case s %}J{% when vs1 %}B1{% when vs2 %}B2 … {% else %}E … {% endcase %}`

`caseChainSrc s w0 J rest wE` (Proofs/SrcClauses.lean) is the source: the `case` tag, whatever stands between it and the first
clause (`J`: compiled, never rendered — `caseTagCompiler` ignores `node.Body`), then any number of clauses in any order — a clause
with `cond = some vs` is `{% when vs %}body`, one with `cond = none` is `{% else %}body` — and `{% endcase %}`. The value list `vs` of
a `when` tag is what the grammar rule `WHEN exprs` accepts: expressions WITHOUT filters separated by commas (`parseStatement kwWhen`);
`or` is not a separator in this implementation (`case_bad_when_source`, and the example after it). `Clause.GoodWhen` (decidable): the
values parse and the body is a self-contained template. `whenRes P env v es` (Proofs/C10.lean) evaluates the values in order and
compares each with the subject by `P.equalFn` (`values.Equal` in the standard layer), stopping at the first that is equal
(`when_matches_iff`, `when_misses_iff`); `Clause.Miss`: a `when` clause all of whose values evaluate and are unequal to the subject.

As `caseTagCompiler` does: the subject is evaluated once, first; the clauses are tried in source order; the first clause that is an
`else` or lists a value equal to the subject is rendered and nothing after it is looked at — so of several matching clauses the first
wins, and an `else` that is not last hides every clause after it. -/

/-- **C10 (`case`: the first clause that matches), from source bytes.** Let the subject `s` parse and evaluate to `v`, let every
    clause of `pre` be a `when` clause none of whose values equals `v`, and let the next clause `sel` be an `else`, or a `when` one
    of whose values equals `v` (the values before it in the list evaluating unequal). Then the block — whatever clauses `post`
    follow, as long as they compile — succeeds exactly when the body of `sel` does (as a template of its own, at the line where it
    stands), with exactly that output. -/
theorem case_clause_source (P : Prims) (O : OutPrims) (cfg : Cfg) (fs : FS) (fuel : Nat) (line : Nat) (env : Env)
    (s : Bytes) (w0 : Ws) (J : List Item) (pre : List Clause) (sel : Clause) (post : List Clause) (wE : Ws) (subj : Expr) (v : GoVal)
    (hg : GoodDelims (Delims.ofList cfg.delims))
    (hc : Clean (Delims.ofList cfg.delims) (caseChainSrc s w0 J (pre ++ sel :: post) wE))
    (hcS : Clean (Delims.ofList cfg.delims) sel.body)
    (hps : parseExprSource s = .ok subj) (hJ : Compiles (Delims.ofList cfg.delims) J 0)
    (hrest : ∀ c ∈ pre ++ sel :: post, c.GoodWhen (Delims.ofList cfg.delims))
    (hv : evaluate P env subj = .ok v)
    (hpre : ∀ c ∈ pre, c.Miss P env v)
    (hsel : sel.cond = none ∨ ∃ t es, sel.cond = some t ∧ parseStatement kwWhen t = .ok (.when es) ∧ whenRes P env v es = .ok true)
    (out : Bytes) :
    run P O cfg fs fuel (spell (Delims.ofList cfg.delims) (caseChainSrc s w0 J (pre ++ sel :: post) wE)) line env = .ok out ↔
    run P O cfg fs fuel (spell (Delims.ofList cfg.delims) sel.body)
      (line + countNL (spell (Delims.ofList cfg.delims) (tg nmCase s w0 :: (J ++ (clauseItemsK nmWhen pre ++ [sel.tagK nmWhen]))))) env
      = .ok out := by
  have hline : line + countNL (spell (Delims.ofList cfg.delims) (tg nmCase s w0 :: (J ++ (clauseItemsK nmWhen pre ++ [sel.tagK nmWhen])))) =
      line + countNL ((tg nmCase s w0).spell (Delims.ofList cfg.delims)) + countNL (spell (Delims.ofList cfg.delims) J) +
        countNL (spell (Delims.ofList cfg.delims) (clauseItemsK nmWhen pre)) + countNL ((sel.tagK nmWhen).spell (Delims.ofList cfg.delims)) := by
    have h0 : countNL (spell (Delims.ofList cfg.delims) []) = 0 := rfl
    simp only [spell_cons, spell_append, countNL_append, h0]
    omega
  rw [run_caseK_shape P O cfg fs fuel line env s w0 J (pre ++ sel :: post) wE subj hg hc hps hJ hrest, hline,
    run_spell P O cfg fs fuel sel.body _ env hg hcS, nodesOf_spec (hrest sel (by simp)).2]
  show _ ↔ runRoot P O cfg fs fuel (nodesOf (Delims.ofList cfg.delims) sel.body _) env = .ok out
  apply runRoot_wrapped_body_ok P O cfg fs fuel _ _ env ⟨line, true⟩
  rw [case_node_denotation (mkCtx P O cfg fs fuel) line subj _ ⟨env, {}⟩ v hv, caseCls_append]
  obtain ⟨ws, hws, hmiss⟩ := caseCls_miss (Delims.ofList cfg.delims) P env v pre
    (line + countNL ((tg nmCase s w0).spell (Delims.ofList cfg.delims)) + countNL (spell (Delims.ofList cfg.delims) J)) hpre
  rw [hws]
  simp only [caseCls]
  rcases hsel with hn | ⟨t, es, hcnd, hpw, hw⟩
  · have hwa : ∀ l, sel.whenAt l = none := fun l => by simp only [Clause.whenAt, hn]
    simp only [wrapAt, hwa, case_else (mkCtx P O cfg fs fuel) v ⟨env, {}⟩ ws _ _ hmiss]
    rfl
  · have hwa : ∀ l, sel.whenAt l = some (l, es) := fun l => by simp only [Clause.whenAt, hcnd, hpw]
    simp only [wrapAt, hwa, case_first_equal (mkCtx P O cfg fs fuel) v ⟨env, {}⟩ ws _ es _ _ hmiss hw]
    rfl

/-- **C10 (`case`: no clause matches), from source bytes.** If every clause is a `when` clause none of whose values equals the value
    of the subject (no `else`), the block renders nothing, successfully. -/
theorem case_none_source (P : Prims) (O : OutPrims) (cfg : Cfg) (fs : FS) (fuel : Nat) (line : Nat) (env : Env)
    (s : Bytes) (w0 : Ws) (J : List Item) (rest : List Clause) (wE : Ws) (subj : Expr) (v : GoVal)
    (hg : GoodDelims (Delims.ofList cfg.delims)) (hc : Clean (Delims.ofList cfg.delims) (caseChainSrc s w0 J rest wE))
    (hps : parseExprSource s = .ok subj) (hJ : Compiles (Delims.ofList cfg.delims) J 0)
    (hrest : ∀ c ∈ rest, c.GoodWhen (Delims.ofList cfg.delims))
    (hv : evaluate P env subj = .ok v) (hall : ∀ c ∈ rest, c.Miss P env v) :
    run P O cfg fs fuel (spell (Delims.ofList cfg.delims) (caseChainSrc s w0 J rest wE)) line env = .ok [] := by
  rw [run_caseK_shape P O cfg fs fuel line env s w0 J rest wE subj hg hc hps hJ hrest]
  apply runRoot_silent
  rw [case_node_denotation (mkCtx P O cfg fs fuel) line subj _ ⟨env, {}⟩ v hv]
  obtain ⟨ws, hws, hmiss⟩ := caseCls_miss (Delims.ofList cfg.delims) P env v rest
    (line + countNL ((tg nmCase s w0).spell (Delims.ofList cfg.delims)) + countNL (spell (Delims.ofList cfg.delims) J)) hall
  rw [hws]
  simp only [wrapAt, case_none (mkCtx P O cfg fs fuel) v ⟨env, {}⟩ ws hmiss]
  rfl

/-- **C10 (`case`: a `when` value fails), from source bytes.** If the clauses `pre` are `when` clauses that miss and the next clause
    `sel` is a `when` whose value list fails with cause `x` — the evaluation of a value, or its comparison with the subject, the
    values before it in the list being unequal to the subject — the block fails with `x` located at the line of THAT `when` tag
    (`parser.WrapError(err, clause.body())`), and nothing has been written: later clauses, an `else` included, are not reached. -/
theorem case_when_err_source (P : Prims) (O : OutPrims) (cfg : Cfg) (fs : FS) (fuel : Nat) (line : Nat) (env : Env)
    (s : Bytes) (w0 : Ws) (J : List Item) (pre : List Clause) (sel : Clause) (post : List Clause) (wE : Ws) (subj : Expr) (v : GoVal)
    (t : Bytes) (es : List Expr) (x : Cause)
    (hg : GoodDelims (Delims.ofList cfg.delims))
    (hc : Clean (Delims.ofList cfg.delims) (caseChainSrc s w0 J (pre ++ sel :: post) wE))
    (hps : parseExprSource s = .ok subj) (hJ : Compiles (Delims.ofList cfg.delims) J 0)
    (hrest : ∀ c ∈ pre ++ sel :: post, c.GoodWhen (Delims.ofList cfg.delims))
    (hv : evaluate P env subj = .ok v)
    (hpre : ∀ c ∈ pre, c.Miss P env v)
    (hsel : sel.cond = some t) (hpw : parseStatement kwWhen t = .ok (.when es)) (hw : whenRes P env v es = .err x) :
    run P O cfg fs fuel (spell (Delims.ofList cfg.delims) (caseChainSrc s w0 J (pre ++ sel :: post) wE)) line env =
      .err ⟨line + countNL (spell (Delims.ofList cfg.delims) (tg nmCase s w0 :: (J ++ clauseItemsK nmWhen pre))), true, x, .byCause⟩ ∧
    written P O cfg fs fuel (spell (Delims.ofList cfg.delims) (caseChainSrc s w0 J (pre ++ sel :: post) wE)) line env = [] := by
  have hline : line + countNL (spell (Delims.ofList cfg.delims) (tg nmCase s w0 :: (J ++ clauseItemsK nmWhen pre))) =
      line + countNL ((tg nmCase s w0).spell (Delims.ofList cfg.delims)) + countNL (spell (Delims.ofList cfg.delims) J) +
        countNL (spell (Delims.ofList cfg.delims) (clauseItemsK nmWhen pre)) := by
    simp only [spell_cons, spell_append, countNL_append]
    omega
  rw [hline]
  apply run_written_single_fail P O cfg fs fuel _ line env hg hc _ _
    (caseK_compile _ line s w0 J (pre ++ sel :: post) wE subj hps hJ hrest)
  rw [caseCls_append]
  obtain ⟨ws, hws, hmiss⟩ := caseCls_miss (Delims.ofList cfg.delims) P env v pre
    (line + countNL ((tg nmCase s w0).spell (Delims.ofList cfg.delims)) + countNL (spell (Delims.ofList cfg.delims) J)) hpre
  rw [hws]
  have hwa : ∀ l, sel.whenAt l = some (l, es) := fun l => by simp only [Clause.whenAt, hsel, hpw]
  simp only [caseCls, hwa]
  exact caseB_when_err (mkCtx P O cfg fs fuel) line subj ⟨env, {}⟩ v hv ws _ es _ _ x hmiss hw (by omega)

/-- **C10 (`case`: the subject fails), from source bytes.** If the subject is an expression whose evaluation fails with cause `x`,
    the block fails with `x` at the line of the `case` tag, and nothing has been written: no `when` value is evaluated. -/
theorem case_subject_err_source (P : Prims) (O : OutPrims) (cfg : Cfg) (fs : FS) (fuel : Nat) (line : Nat) (env : Env)
    (s : Bytes) (w0 : Ws) (J : List Item) (rest : List Clause) (wE : Ws) (subj : Expr) (x : Cause)
    (hg : GoodDelims (Delims.ofList cfg.delims)) (hc : Clean (Delims.ofList cfg.delims) (caseChainSrc s w0 J rest wE))
    (hps : parseExprSource s = .ok subj) (hJ : Compiles (Delims.ofList cfg.delims) J 0)
    (hrest : ∀ c ∈ rest, c.GoodWhen (Delims.ofList cfg.delims))
    (hv : evaluate P env subj = .err x) :
    run P O cfg fs fuel (spell (Delims.ofList cfg.delims) (caseChainSrc s w0 J rest wE)) line env = .err ⟨line, true, x, .byCause⟩ ∧
    written P O cfg fs fuel (spell (Delims.ofList cfg.delims) (caseChainSrc s w0 J rest wE)) line env = [] := by
  apply run_written_single_fail P O cfg fs fuel _ line env hg hc _ _
    (caseK_compile _ line s w0 J rest wE subj hps hJ hrest)
  exact caseB_subject_err (mkCtx P O cfg fs fuel) line subj _ ⟨env, {}⟩ x hv

/-- **C10 (`case`: a `when` tag whose arguments are not a value list), from source bytes.** If the subject is an expression, the
    `when` clauses `pre` have value lists and the arguments `t` of the next `when` tag do not parse as `WHEN exprs` — `2 or 1`,
    a value with a filter, nothing at all — the template is not accepted: a syntax error at the line of that `when` tag. -/
theorem case_bad_when_source (P : Prims) (O : OutPrims) (cfg : Cfg) (fs : FS) (fuel : Nat) (line : Nat) (env : Env)
    (s : Bytes) (w0 : Ws) (J : List Item) (pre : List Clause) (sel : Clause) (post : List Clause) (wE : Ws) (subj : Expr)
    (t : Bytes) (x : ParseErr)
    (hg : GoodDelims (Delims.ofList cfg.delims))
    (hc : Clean (Delims.ofList cfg.delims) (caseChainSrc s w0 J (pre ++ sel :: post) wE))
    (hps : parseExprSource s = .ok subj) (hJ : Compiles (Delims.ofList cfg.delims) J 0)
    (hbodies : ∀ c ∈ pre ++ sel :: post, Compiles (Delims.ofList cfg.delims) c.body 0)
    (hpre : ∀ c ∈ pre, c.whenOk = true) (hsel : sel.cond = some t) (hbad : parseStatement kwWhen t = .err x) :
    run P O cfg fs fuel (spell (Delims.ofList cfg.delims) (caseChainSrc s w0 J (pre ++ sel :: post) wE)) line env =
      .err ⟨line + countNL (spell (Delims.ofList cfg.delims) (tg nmCase s w0 :: (J ++ clauseItemsK nmWhen pre))), true, .syntax, .byCause⟩ := by
  have hline : line + countNL (spell (Delims.ofList cfg.delims) (tg nmCase s w0 :: (J ++ clauseItemsK nmWhen pre))) =
      line + countNL ((tg nmCase s w0).spell (Delims.ofList cfg.delims)) + countNL (spell (Delims.ofList cfg.delims) J) +
        countNL (spell (Delims.ofList cfg.delims) (clauseItemsK nmWhen pre)) := by
    simp only [spell_cons, spell_append, countNL_append]
    omega
  rw [run_spell P O cfg fs fuel _ line env hg hc,
    caseK_compile_bad _ line s w0 J pre sel post wE subj t x hps hJ hbodies hpre hsel hbad, hline]
  rfl

/-- **C10 (a `when` list matches), for every value layer.** `whenRes … = .ok true` says: some value of the list evaluates to a value
    equal to the subject (`P.equalFn`), and every value before it in the list evaluates, without error, to a value that is not. -/
theorem when_matches_iff (P : Prims) (env : Env) (sel : GoVal) (es : List Expr) :
    whenRes P env sel es = .ok true ↔
      ∃ pre e post u, es = pre ++ e :: post ∧ (∀ y ∈ pre, ∃ w, evaluate P env y = .ok w ∧ P.equalFn sel w = .ok false) ∧
        evaluate P env e = .ok u ∧ P.equalFn sel u = .ok true := by
  induction es with
  | nil =>
    constructor
    · intro h; cases h
    · rintro ⟨pre, e, post, u, h, -⟩
      cases pre <;> cases h
  | cons a r ih =>
    rw [whenRes]
    cases ha : evaluate P env a with
    | ok w =>
      simp only
      cases hq : P.equalFn sel w with
      | ok b =>
        cases b with
        | true =>
          simp only [true_iff]
          exact ⟨[], a, r, w, rfl, (fun _ h => by cases h), ha, hq⟩
        | false =>
          simp only
          rw [ih]
          constructor
          · rintro ⟨pre, e, post, u, h1, h2, h3, h4⟩
            refine ⟨a :: pre, e, post, u, by rw [h1]; rfl, ?_, h3, h4⟩
            intro y hy
            rcases List.mem_cons.mp hy with rfl | hy
            · exact ⟨w, ha, hq⟩
            · exact h2 y hy
          · rintro ⟨pre, e, post, u, h1, h2, h3, h4⟩
            cases pre with
            | nil =>
              simp only [List.nil_append, List.cons.injEq] at h1
              obtain ⟨rfl, -⟩ := h1
              rw [ha] at h3
              cases h3
              rw [hq] at h4
              cases h4
            | cons p pre =>
              simp only [List.cons_append, List.cons.injEq] at h1
              obtain ⟨rfl, rfl⟩ := h1
              exact ⟨pre, e, post, u, rfl, fun y hy => h2 y (List.mem_cons_of_mem _ hy), h3, h4⟩
      | err c =>
        simp only
        constructor
        · intro h; cases h
        · rintro ⟨pre, e, post, u, h1, h2, h3, h4⟩
          cases pre with
          | nil =>
            simp only [List.nil_append, List.cons.injEq] at h1
            obtain ⟨rfl, -⟩ := h1
            rw [ha] at h3; cases h3
            rw [hq] at h4; cases h4
          | cons p pre =>
            simp only [List.cons_append, List.cons.injEq] at h1
            obtain ⟨rfl, -⟩ := h1
            obtain ⟨w', hw1, hw2⟩ := h2 a (List.mem_cons_self ..)
            rw [ha] at hw1; cases hw1
            rw [hq] at hw2; cases hw2
      | panic m =>
        simp only
        constructor
        · intro h; cases h
        · rintro ⟨pre, e, post, u, h1, h2, h3, h4⟩
          cases pre with
          | nil =>
            simp only [List.nil_append, List.cons.injEq] at h1
            obtain ⟨rfl, -⟩ := h1
            rw [ha] at h3; cases h3
            rw [hq] at h4; cases h4
          | cons p pre =>
            simp only [List.cons_append, List.cons.injEq] at h1
            obtain ⟨rfl, -⟩ := h1
            obtain ⟨w', hw1, hw2⟩ := h2 a (List.mem_cons_self ..)
            rw [ha] at hw1; cases hw1
            rw [hq] at hw2; cases hw2
      | unmodelled m =>
        simp only
        constructor
        · intro h; cases h
        · rintro ⟨pre, e, post, u, h1, h2, h3, h4⟩
          cases pre with
          | nil =>
            simp only [List.nil_append, List.cons.injEq] at h1
            obtain ⟨rfl, -⟩ := h1
            rw [ha] at h3; cases h3
            rw [hq] at h4; cases h4
          | cons p pre =>
            simp only [List.cons_append, List.cons.injEq] at h1
            obtain ⟨rfl, -⟩ := h1
            obtain ⟨w', hw1, hw2⟩ := h2 a (List.mem_cons_self ..)
            rw [ha] at hw1; cases hw1
            rw [hq] at hw2; cases hw2
    | err c =>
      simp only
      constructor
      · intro h; cases h
      · rintro ⟨pre, e, post, u, h1, h2, h3, h4⟩
        cases pre with
        | nil =>
          simp only [List.nil_append, List.cons.injEq] at h1
          obtain ⟨rfl, -⟩ := h1
          rw [ha] at h3; cases h3
        | cons p pre =>
          simp only [List.cons_append, List.cons.injEq] at h1
          obtain ⟨rfl, -⟩ := h1
          obtain ⟨w', hw1, -⟩ := h2 a (List.mem_cons_self ..)
          rw [ha] at hw1; cases hw1
    | panic m =>
      simp only
      constructor
      · intro h; cases h
      · rintro ⟨pre, e, post, u, h1, h2, h3, h4⟩
        cases pre with
        | nil =>
          simp only [List.nil_append, List.cons.injEq] at h1
          obtain ⟨rfl, -⟩ := h1
          rw [ha] at h3; cases h3
        | cons p pre =>
          simp only [List.cons_append, List.cons.injEq] at h1
          obtain ⟨rfl, -⟩ := h1
          obtain ⟨w', hw1, -⟩ := h2 a (List.mem_cons_self ..)
          rw [ha] at hw1; cases hw1
    | unmodelled m =>
      simp only
      constructor
      · intro h; cases h
      · rintro ⟨pre, e, post, u, h1, h2, h3, h4⟩
        cases pre with
        | nil =>
          simp only [List.nil_append, List.cons.injEq] at h1
          obtain ⟨rfl, -⟩ := h1
          rw [ha] at h3; cases h3
        | cons p pre =>
          simp only [List.cons_append, List.cons.injEq] at h1
          obtain ⟨rfl, -⟩ := h1
          obtain ⟨w', hw1, -⟩ := h2 a (List.mem_cons_self ..)
          rw [ha] at hw1; cases hw1

/-- **C10 (a `when` list misses), for every value layer.** `whenRes … = .ok false` says: every value of the list evaluates, without
    error, to a value that is not equal to the subject. -/
theorem when_misses_iff (P : Prims) (env : Env) (sel : GoVal) (es : List Expr) :
    whenRes P env sel es = .ok false ↔ ∀ y ∈ es, ∃ w, evaluate P env y = .ok w ∧ P.equalFn sel w = .ok false := by
  induction es with
  | nil => simp [whenRes]
  | cons a r ih =>
    rw [whenRes]
    cases ha : evaluate P env a with
    | ok w =>
      simp only
      cases hq : P.equalFn sel w with
      | ok b =>
        cases b with
        | true =>
          simp only
          constructor
          · intro h; cases h
          · intro h
            obtain ⟨w', h1, h2⟩ := h a (List.mem_cons_self ..)
            rw [ha] at h1; cases h1
            rw [hq] at h2; cases h2
        | false =>
          simp only
          rw [ih]
          constructor
          · intro h y hy
            rcases List.mem_cons.mp hy with rfl | hy
            · exact ⟨w, ha, hq⟩
            · exact h y hy
          · intro h y hy
            exact h y (List.mem_cons_of_mem _ hy)
      | err c =>
        simp only
        constructor
        · intro h; cases h
        · intro h
          obtain ⟨w', h1, h2⟩ := h a (List.mem_cons_self ..)
          rw [ha] at h1; cases h1
          rw [hq] at h2; cases h2
      | panic m =>
        simp only
        constructor
        · intro h; cases h
        · intro h
          obtain ⟨w', h1, h2⟩ := h a (List.mem_cons_self ..)
          rw [ha] at h1; cases h1
          rw [hq] at h2; cases h2
      | unmodelled m =>
        simp only
        constructor
        · intro h; cases h
        · intro h
          obtain ⟨w', h1, h2⟩ := h a (List.mem_cons_self ..)
          rw [ha] at h1; cases h1
          rw [hq] at h2; cases h2
    | err c =>
      simp only
      constructor
      · intro h; cases h
      · intro h
        obtain ⟨w', h1, -⟩ := h a (List.mem_cons_self ..)
        rw [ha] at h1; cases h1
    | panic m =>
      simp only
      constructor
      · intro h; cases h
      · intro h
        obtain ⟨w', h1, -⟩ := h a (List.mem_cons_self ..)
        rw [ha] at h1; cases h1
    | unmodelled m =>
      simp only
      constructor
      · intro h; cases h
      · intro h
        obtain ⟨w', h1, -⟩ := h a (List.mem_cons_self ..)
        rw [ha] at h1; cases h1

/-! ### Non-vacuity of the `case` theorems (value layer `c10Prims`: two Go `int`s are equal when they are the same number)

`{% case 1 %}junk{% when 2, 3 %}a{% when 4, 1 %}b{{ y }}{% when 1 %}c{% else %}d{% endcase %}`: the first clause misses, the second lists a
value equal to the subject — the block renders what `b{{ y }}` renders; the third clause (which matches too) and the `else` are not
looked at; `junk` is not rendered. -/
def c10CasePre : List Clause := [⟨some [50, 44, 32, 51], Ws.std, [.text [97]]⟩]
def c10CaseSel : Clause := ⟨some [52, 44, 32, 49], Ws.std, [.text [98], ob [121]]⟩
def c10CasePost : List Clause := [⟨some [49], Ws.std, [.text [99]]⟩, ⟨none, Ws.std, [.text [100]]⟩]

example : spell Delims.default (caseChainSrc [49] Ws.std [.text [106, 117, 110, 107]] (c10CasePre ++ c10CaseSel :: c10CasePost) Ws.std) =
    [123, 37, 32, 99, 97, 115, 101, 32, 49, 32, 37, 125, 106, 117, 110, 107,
     123, 37, 32, 119, 104, 101, 110, 32, 50, 44, 32, 51, 32, 37, 125, 97,
     123, 37, 32, 119, 104, 101, 110, 32, 52, 44, 32, 49, 32, 37, 125, 98, 123, 123, 32, 121, 32, 125, 125,
     123, 37, 32, 119, 104, 101, 110, 32, 49, 32, 37, 125, 99,
     123, 37, 32, 101, 108, 115, 101, 32, 37, 125, 100, 123, 37, 32, 101, 110, 100, 99, 97, 115, 101, 32, 37, 125] := by decide

example (O : OutPrims) (fs : FS) (env : Env) (out : Bytes) :
    run c10Prims O {} fs 1 (spell Delims.default (caseChainSrc [49] Ws.std [.text [106, 117, 110, 107]]
      (c10CasePre ++ c10CaseSel :: c10CasePost) Ws.std)) 1 env = .ok out ↔
    run c10Prims O {} fs 1 (spell Delims.default [.text [98], ob [121]]) 1 env = .ok out :=
  case_clause_source c10Prims O {} fs 1 1 env [49] Ws.std [.text [106, 117, 110, 107]] c10CasePre c10CaseSel c10CasePost Ws.std
    (.lit (.int .int 1)) (.int .int 1) (by decide) (by decide) (by decide) rfl (by decide) (by decide) rfl
    (by
      intro c hc
      simp only [c10CasePre, List.mem_singleton] at hc
      subst hc
      exact ⟨[50, 44, 32, 51], [.lit (.int .int 2), .lit (.int .int 3)], rfl, rfl, rfl⟩)
    (.inr ⟨[52, 44, 32, 49], [.lit (.int .int 4), .lit (.int .int 1)], rfl, rfl, rfl⟩) out

/-- `{% case 1 %}{% when 2 %}a{% else %}b{{ y }}{% when 1 %}c{% endcase %}`: an `else` that is not last hides the matching `when` after it -/
example (O : OutPrims) (fs : FS) (env : Env) (out : Bytes) :
    run c10Prims O {} fs 1 (spell Delims.default (caseChainSrc [49] Ws.std []
      ([⟨some [50], Ws.std, [.text [97]]⟩] ++ (⟨none, Ws.std, [.text [98], ob [121]]⟩ : Clause) :: [⟨some [49], Ws.std, [.text [99]]⟩]) Ws.std)) 1 env
      = .ok out ↔
    run c10Prims O {} fs 1 (spell Delims.default [.text [98], ob [121]]) 1 env = .ok out :=
  case_clause_source c10Prims O {} fs 1 1 env [49] Ws.std [] [⟨some [50], Ws.std, [.text [97]]⟩] ⟨none, Ws.std, [.text [98], ob [121]]⟩
    [⟨some [49], Ws.std, [.text [99]]⟩] Ws.std
    (.lit (.int .int 1)) (.int .int 1) (by decide) (by decide) (by decide) rfl (by decide) (by decide) rfl
    (by
      intro c hc
      simp only [List.mem_singleton] at hc
      subst hc
      exact ⟨[50], [.lit (.int .int 2)], rfl, rfl, rfl⟩)
    (.inl rfl) out

/-- `{% case 1 %}{% when 2 %}a{% when 3, 4 %}b{% endcase %}` renders nothing -/
example (O : OutPrims) (fs : FS) (env : Env) :
    run c10Prims O {} fs 1 (spell Delims.default (caseChainSrc [49] Ws.std []
      [⟨some [50], Ws.std, [.text [97]]⟩, ⟨some [51, 44, 32, 52], Ws.std, [.text [98]]⟩] Ws.std)) 1 env = .ok [] :=
  case_none_source c10Prims O {} fs 1 1 env [49] Ws.std [] [⟨some [50], Ws.std, [.text [97]]⟩, ⟨some [51, 44, 32, 52], Ws.std, [.text [98]]⟩]
    Ws.std (.lit (.int .int 1)) (.int .int 1) (by decide) (by decide) rfl (by decide) (by decide) rfl
    (by
      intro c hc
      simp only [List.mem_cons, List.mem_nil_iff, or_false] at hc
      rcases hc with rfl | rfl
      · exact ⟨[50], [.lit (.int .int 2)], rfl, rfl, rfl⟩
      · exact ⟨[51, 44, 32, 52], [.lit (.int .int 3), .lit (.int .int 4)], rfl, rfl, rfl⟩)

/-- `{% case 1 %}{% when 2 %}a⏎{% when 3, (1.."a") %}b{% else %}c{% endcase %}`: the second value of the second clause fails — the type
    error at line 2, the line of that `when` tag, nothing written; the `else` is not reached -/
example (O : OutPrims) (fs : FS) (env : Env) :
    run c10Prims O {} fs 1 (spell Delims.default (caseChainSrc [49] Ws.std []
      ([⟨some [50], Ws.std, [.text [97, 10]]⟩] ++ (⟨some ([51, 44, 32] ++ c10Poison), Ws.std, [.text [98]]⟩ : Clause) ::
        [⟨none, Ws.std, [.text [99]]⟩]) Ws.std)) 1 env = .err ⟨2, true, .typeErr, .byCause⟩ :=
  (case_when_err_source c10Prims O {} fs 1 1 env [49] Ws.std [] [⟨some [50], Ws.std, [.text [97, 10]]⟩]
    ⟨some ([51, 44, 32] ++ c10Poison), Ws.std, [.text [98]]⟩ [⟨none, Ws.std, [.text [99]]⟩] Ws.std
    (.lit (.int .int 1)) (.int .int 1) ([51, 44, 32] ++ c10Poison)
    [.lit (.int .int 3), .range (.lit (.int .int 1)) (.lit (.str [97]))] .typeErr
    (by decide) (by decide) rfl (by decide) (by decide) rfl
    (by
      intro c hc
      simp only [List.mem_singleton] at hc
      subst hc
      exact ⟨[50], [.lit (.int .int 2)], rfl, rfl, rfl⟩)
    rfl rfl rfl).1

/-- `{% case (1.."a") %}{% when 2 %}a{% endcase %}` started at line 4: the type error at line 4, in every value layer -/
example (P : Prims) (O : OutPrims) (fs : FS) (env : Env) :
    run P O {} fs 1 (spell Delims.default (caseChainSrc c10Poison Ws.std [] [⟨some [50], Ws.std, [.text [97]]⟩] Ws.std)) 4 env =
      .err ⟨4, true, .typeErr, .byCause⟩ :=
  (case_subject_err_source P O {} fs 1 4 env c10Poison Ws.std [] [⟨some [50], Ws.std, [.text [97]]⟩] Ws.std
    (.range (.lit (.int .int 1)) (.lit (.str [97]))) .typeErr (by decide) (by decide) rfl (by decide) (by decide) rfl).1

/-- `{% case 1 %}{% when 2 or 1 %}a{% endcase %}`: `or` does not separate `when` values here — a syntax error at the `when` tag -/
example (P : Prims) (O : OutPrims) (fs : FS) (env : Env) :
    run P O {} fs 1 (spell Delims.default (caseChainSrc [49] Ws.std []
      ([] ++ (⟨some [50, 32, 111, 114, 32, 49], Ws.std, [.text [97]]⟩ : Clause) :: []) Ws.std)) 1 env =
      .err ⟨1, true, .syntax, .byCause⟩ :=
  case_bad_when_source P O {} fs 1 1 env [49] Ws.std [] [] ⟨some [50, 32, 111, 114, 32, 49], Ws.std, [.text [97]]⟩ [] Ws.std
    (.lit (.int .int 1)) [50, 32, 111, 114, 32, 49] .syntax (by decide) (by decide) rfl (by decide) (by decide)
    (fun _ h => by cases h) rfl rfl

/-! ## The start line ≥ 1 of `if_else_unless_dual_up_to_line_source` is needed

`RunResult.sameUpToLine` lets two errors differ in their line only when the two lines are zero together (line 0 is special in
`parser.WrapError`: an error that carries neither path nor line is located anew by the enclosing node). From start line 0 —
`ParseTemplateLocation` accepts it — the pair of `dual_lines_differ` fails at line 0 in the `if` form and at line 1 in the `unless`
form (the real engine: `Liquid error: undefined variable in {{ y }}` with `LineNumber() = 0` against `Liquid error (line 1): …`),
so the two results are not related. The cause, the message and the path flag still agree there; that they do for every pair
started at line 0 is not proved. -/

/-- **C10 (counterexample to the duality up to the line from start line 0).** -/
theorem dual_up_to_line_needs_start_line (P : Prims) (O : OutPrims) (fs : FS) :
    run P O strictCfg fs 1
      (spell Delims.default (ifElseSrc [116, 114, 117, 101] [ob [121]] [.text [10]] Ws.std Ws.std Ws.std)) 0 [] =
      .err ⟨0, true, .other "undefinedVariable", .byCause⟩ ∧
    run P O strictCfg fs 1
      (spell Delims.default (unlessElseSrc [116, 114, 117, 101] [.text [10]] [ob [121]] Ws.std Ws.std Ws.std)) 0 [] =
      .err ⟨1, true, .other "undefinedVariable", .byCause⟩ ∧
    ¬ (run P O strictCfg fs 1
      (spell Delims.default (ifElseSrc [116, 114, 117, 101] [ob [121]] [.text [10]] Ws.std Ws.std Ws.std)) 0 []).sameUpToLine
      (run P O strictCfg fs 1
      (spell Delims.default (unlessElseSrc [116, 114, 117, 101] [.text [10]] [ob [121]] Ws.std Ws.std Ws.std)) 0 []) := by
  have h1 : run P O strictCfg fs 1
      (spell Delims.default (ifElseSrc [116, 114, 117, 101] [ob [121]] [.text [10]] Ws.std Ws.std Ws.std)) 0 [] =
      .err ⟨0, true, .other "undefinedVariable", .byCause⟩ := by
    rw [show Delims.default = Delims.ofList strictCfg.delims from rfl,
      run_spell _ _ _ _ _ _ _ _ (by decide) (by decide)]
    show runRoot P O strictCfg fs 1
      [.ifB 0 [(.expr 0 (.lit (.bool true)), [.obj 0 (.var [121])]), (.always, [.text 0 [10]])]] [] = _
    simp [runRoot, frender, renderRoot, renderList, renderNode, renderBranches, renderBlockBody, evalCond, wrapAt, wrapFailAt,
      M.mapFail, M.bind, M.pure, M.getEnv, M.ofRes, M.fail, Prog.bind, Prog.mapFail, Prog.runPure, bind, pure, mkCtx,
      evaluate, eval, Env.get, GoVal.test, GoVal.unwrap, GoVal.isNil, GoVal.toLiquid, wrapError, strictCfg, Loc.isZero]
  have h2 : run P O strictCfg fs 1
      (spell Delims.default (unlessElseSrc [116, 114, 117, 101] [.text [10]] [ob [121]] Ws.std Ws.std Ws.std)) 0 [] =
      .err ⟨1, true, .other "undefinedVariable", .byCause⟩ := by
    rw [show Delims.default = Delims.ofList strictCfg.delims from rfl,
      run_spell _ _ _ _ _ _ _ _ (by decide) (by decide)]
    show runRoot P O strictCfg fs 1
      [.ifB 0 [(.notExpr 0 (.lit (.bool true)), [.text 0 [10]]), (.always, [.obj 1 (.var [121])])]] [] = _
    simp [runRoot, frender, renderRoot, renderList, renderNode, renderBranches, renderBlockBody, evalCond, wrapAt, wrapFailAt,
      M.mapFail, M.bind, M.pure, M.getEnv, M.ofRes, M.fail, Prog.bind, Prog.mapFail, Prog.runPure, bind, pure, mkCtx,
      evaluate, eval, Env.get, GoVal.test, GoVal.unwrap, GoVal.isNil, GoVal.toLiquid, wrapError, strictCfg, Loc.isZero]
  refine ⟨h1, h2, ?_⟩
  rw [h1, h2]
  intro h
  have := h.2.2.2
  simp at this

/-! ## The duality on any number of lines, bodies with `include` tags included

`if_else_unless_dual_up_to_line_source` excludes bodies that contain an `include` tag: the included file is compiled with the
line of the include tag as its start line, so in the two forms its nodes stand at different lines. That restriction is not needed.
Compiling a source text at another start line moves its lines and changes nothing else, errors included (`compileSource_shift`,
Proofs/SrcShiftSource.lean: the tokenizer, the stack machine of the block parser and the compiler commute with the move), hence the
engine's include handler is line-independent at every depth (`incRel_mkCtx`, by induction on the include fuel) and
`lineRelI_renderNode` (Proofs/SrcRelInclude.lean) extends `lineRel_renderNode` to every compiled tree. -/

/-- **C10 (`unless` is the dual of `if`), from source bytes, on any number of lines, any bodies.** For every condition text `c` and
    ALL self-contained bodies `A`, `B` — `include` tags at any depth, any file system, any include fuel — the sources
    `{% if c %}A{% else %}B{% endif %}` and `{% unless c %}B{% else %}A{% endunless %}` give results that agree up to the line of the
    error (`RunResult.sameUpToLine`): the same output; or errors with the same cause, message and path flag, the lines zero together;
    or the same panic — from any start line ≥ 1 (needed: `dual_up_to_line_needs_start_line`). -/
theorem if_else_unless_dual_up_to_line_incl_source (P : Prims) (O : OutPrims) (cfg : Cfg) (fs : FS) (fuel : Nat) (line : Nat) (env : Env)
    (hline : 1 ≤ line) (c : Bytes) (A B : List Item) (w1 w2 w3 w4 w5 w6 : Ws)
    (hg : GoodDelims (Delims.ofList cfg.delims))
    (hc1 : Clean (Delims.ofList cfg.delims) (ifElseSrc c A B w1 w2 w3))
    (hc2 : Clean (Delims.ofList cfg.delims) (unlessElseSrc c B A w4 w5 w6))
    (hA : Compiles (Delims.ofList cfg.delims) A 0) (hB : Compiles (Delims.ofList cfg.delims) B 0) :
    (run P O cfg fs fuel (spell (Delims.ofList cfg.delims) (ifElseSrc c A B w1 w2 w3)) line env).sameUpToLine
      (run P O cfg fs fuel (spell (Delims.ofList cfg.delims) (unlessElseSrc c B A w4 w5 w6)) line env) := by
  obtain ⟨nA, hnA⟩ := hA.nodes
  obtain ⟨nB, hnB⟩ := hB.nodes
  rw [ifElseSrc, unlessElseSrc,
    run_ifElse_shape P O cfg fs fuel env nmIf (.inl rfl) c A B w1 w2 w3 line hg hc1 _ _
      (compiles_any_line _ A _ hnA) (compiles_any_line _ B _ hnB),
    run_ifElse_shape P O cfg fs fuel env nmUnless (.inr rfl) c B A w4 w5 w6 line hg hc2 _ _
      (compiles_any_line _ B _ hnB) (compiles_any_line _ A _ hnA)]
  cases liftParse line true (parseExprSource c) with
  | ok ex =>
    generalize hlA1 : line + countNL ((tg nmIf c w1).spell (Delims.ofList cfg.delims)) = lA1
    generalize hlB1 : lA1 + countNL (spell (Delims.ofList cfg.delims) A) + countNL ((tg nmElse [] w2).spell (Delims.ofList cfg.delims)) = lB1
    generalize hlB2 : line + countNL ((tg nmUnless c w4).spell (Delims.ofList cfg.delims)) = lB2
    generalize hlA2 : lB2 + countNL (spell (Delims.ofList cfg.delims) B) + countNL ((tg nmElse [] w5).spell (Delims.ofList cfg.delims)) = lA2
    have p1 : 1 ≤ lA1 := by omega
    have p2 : 1 ≤ lB1 := by omega
    have p3 : 1 ≤ lB2 := by omega
    have p4 : 1 ≤ lA2 := by omega
    show (runRoot P O cfg fs fuel [.ifB line [(.expr line ex, relNodes (· + lA1) nA), (.always, relNodes (· + lB1) nB)]] env).sameUpToLine
      (runRoot P O cfg fs fuel [.ifB line [(.notExpr line ex, relNodes (· + lB2) nB), (.always, relNodes (· + lA2) nA)]] env)
    rw [← runRoot_single_congr P O cfg fs fuel _ _ env (unless_dual _ line ex (relNodes (· + lA2) nA) (relNodes (· + lB2) nB) _)]
    apply runRoot_single_rel
    rw [renderNode, renderNode]
    refine relM_wrapAt _ ⟨rfl, Iff.rfl⟩ ?_ _
    simp only [renderBranches]
    refine relM_bind (relM_refl (R := fun a b : Bool => a = b) (fun _ => rfl) _) (fun b b' hb => ?_)
    subst hb
    split
    · exact lineRel_renderBlockBody_engine P O cfg fs fuel (fun x => by constructor <;> intro h <;> omega) nA
    · refine relM_bind (relM_refl (R := fun a b : Bool => a = b) (fun _ => rfl) _) (fun b b' hb => ?_)
      subst hb
      split
      · exact lineRel_renderBlockBody_engine P O cfg fs fuel (fun x => by constructor <;> intro h <;> omega) nB
      · exact relM_refl StatusRel.refl _
  | err e => exact RunResult.sameUpToLine_refl _
  | panic w => exact RunResult.sameUpToLine_refl _
  | unmodelled w => exact RunResult.sameUpToLine_refl _

/-- Non-vacuity: `{% if x %}{% include "f" %}{% else %}⏎{% endif %}` against `{% unless x %}⏎{% else %}{% include "f" %}{% endunless %}` —
    the include tag stands at line 1 in the first source and at line 2 in the second — whatever `x` is bound to, whatever the file
    `f` contains (or if it does not exist), for every value layer and include depth -/
example (P : Prims) (O : OutPrims) (fs : FS) (fuel : Nat) (env : Env) :
    (run P O {} fs fuel
      (spell Delims.default (ifElseSrc [120] [tg nmInclude [34, 102, 34] Ws.std] [.text [10]] Ws.std Ws.std Ws.std)) 1 env).sameUpToLine
    (run P O {} fs fuel
      (spell Delims.default (unlessElseSrc [120] [.text [10]] [tg nmInclude [34, 102, 34] Ws.std] Ws.std Ws.std Ws.std)) 1 env) :=
  if_else_unless_dual_up_to_line_incl_source P O {} fs fuel 1 env (by decide) [120] [tg nmInclude [34, 102, 34] Ws.std] [.text [10]]
    Ws.std Ws.std Ws.std Ws.std Ws.std Ws.std (by decide) (by decide) (by decide) (by decide) (by decide)
