import Liquid.Conc
/-!
# Lemmas for the interleaving machine (helpers of `Proofs/C04.lean`)

One invariant `Inv ts σ₀ c`, preserved by every step of every thread when the ownership
discipline holds, carries all three results: each thread's state is the state of a
*sequential* run of a prefix of its own steps from the initial store; the store agrees with
that sequential run on everything the thread can see; every recorded access is an access of
a step of the recording thread; the shared region is unchanged.
-/

namespace Conc

/-- Both ownership conditions for one step. -/
def Step.Confined (i : Tid) : Step → Prop
  | .read l => Visible i l
  | .write l _ => l.owner = some i
  | .pure _ => True

@[reducible] def Confined (ts : List Thread) : Prop :=
  ∀ i t, ts[i]? = some t → ∀ s, s ∈ t → Step.Confined i s

theorem confined_of (ts : List Thread) (hw : WritesOwned ts) (hr : ReadsVisible ts) : Confined ts := by
  intro i t ht s hs
  cases s with
  | read l => exact hr i t ht l hs
  | write l f => exact hw i t ht l f hs
  | pure f => trivial

theorem confinedB_step {i : Tid} {s : Step} (h : s.confinedB i = true) : s.Confined i := by
  cases s with
  | read l =>
    simp only [Step.confinedB, Bool.or_eq_true, decide_eq_true_eq] at h
    exact h
  | write l f =>
    simp only [Step.confinedB, decide_eq_true_eq] at h
    exact h
  | pure f => trivial

theorem confinedFrom_sound : ∀ (ts : List Thread) (i : Tid), confinedFrom i ts = true →
    ∀ (k : Nat) (t : Thread), ts[k]? = some t → ∀ s, s ∈ t → Step.Confined (i + k) s := by
  intro ts
  induction ts with
  | nil => intro i _ k t hk; simp at hk
  | cons t0 ts ih =>
    intro i h k t hk s hs
    simp only [confinedFrom, Bool.and_eq_true, List.all_eq_true] at h
    cases k with
    | zero =>
      simp only [List.getElem?_cons_zero, Option.some.injEq] at hk
      subst hk
      exact confinedB_step (h.1 s hs)
    | succ k =>
      simp only [List.getElem?_cons_succ] at hk
      have := ih (i + 1) h.2 k t hk s hs
      have e : i + 1 + k = i + (k + 1) := by rw [Nat.add_assoc, Nat.add_comm 1 k]
      rw [e] at this
      exact this

theorem confinedB_confined (ts : List Thread) (h : confinedB ts = true) : Confined ts := by
  intro i t ht s hs
  have := confinedFrom_sound ts 0 h i t ht s hs
  simpa using this

theorem confined_writesOwned (ts : List Thread) (h : Confined ts) : WritesOwned ts := by
  intro i t ht l f hs
  exact h i t ht _ hs

theorem confined_readsVisible (ts : List Thread) (h : Confined ts) : ReadsVisible ts := by
  intro i t ht l hs
  exact h i t ht _ hs

/-! ## Single steps -/

theorem seqRun_append (a b : List Step) (σ : Store) (out : List Val) :
    seqRun (a ++ b) σ out = seqRun b (seqRun a σ out).1 (seqRun a σ out).2 := by
  induction a generalizing σ out with
  | nil => rfl
  | cons s a ih => simp only [List.cons_append, seqRun, ih]

theorem seqRun_snoc (a : List Step) (s : Step) (σ : Store) (out : List Val) :
    seqRun (a ++ [s]) σ out = s.exec (seqRun a σ out).1 (seqRun a σ out).2 := by
  rw [seqRun_append]; rfl

/-- A confined step of thread `i` depends only on what `i` can see, and so does its effect on
what `i` can see. -/
theorem exec_agree {i : Tid} {s : Step} {σ σ' : Store} (out : List Val) (hc : s.Confined i)
    (h : ∀ l, Visible i l → σ l = σ' l) :
    (s.exec σ out).2 = (s.exec σ' out).2 ∧ ∀ l, Visible i l → (s.exec σ out).1 l = (s.exec σ' out).1 l := by
  cases s with
  | read l =>
    refine ⟨?_, ?_⟩
    · simp only [Step.exec]; rw [h l hc]
    · intro l' hl'; exact h l' hl'
  | write l f =>
    refine ⟨rfl, ?_⟩
    intro l' hl'
    simp only [Step.exec, Store.set]
    by_cases e : l' = l
    · simp [e]
    · simp [e, h l' hl']
  | pure f => exact ⟨rfl, fun l' hl' => h l' hl'⟩

/-- A confined step of another thread does not change what `i` can see. -/
theorem exec_other {i j : Tid} {s : Step} (σ : Store) (out : List Val) (hc : s.Confined j) (hij : j ≠ i) :
    ∀ l, Visible i l → (s.exec σ out).1 l = σ l := by
  intro l hl
  cases s with
  | read l0 => rfl
  | pure f => rfl
  | write l0 f =>
    simp only [Step.exec, Store.set]
    by_cases e : l = l0
    · exfalso
      subst e
      have hc' : l.owner = some j := hc
      rcases hl with h | h
      · rw [h] at hc'; cases hc'
      · rw [h] at hc'; exact hij (Option.some.inj hc').symm
    · simp [e]

/-- A confined step never changes the shared region. -/
theorem exec_shared {j : Tid} {s : Step} (σ : Store) (out : List Val) (hc : s.Confined j) :
    ∀ l, l.owner = none → (s.exec σ out).1 l = σ l := by
  intro l hl
  cases s with
  | read l0 => rfl
  | pure f => rfl
  | write l0 f =>
    simp only [Step.exec, Store.set]
    by_cases e : l = l0
    · exfalso
      subst e
      have hc' : l.owner = some j := hc
      rw [hl] at hc'; cases hc'
    · simp [e]

/-! ## The invariant -/

structure Inv (ts : List Thread) (σ₀ : Store) (c : Config) : Prop where
  thr : ∀ i st, c.threads[i]? = some st →
    ∃ done, ts[i]? = some (done ++ st.rest) ∧ st.out = (seqRun done σ₀ []).2 ∧
      ∀ l, Visible i l → c.store l = (seqRun done σ₀ []).1 l
  tr : ∀ e ∈ c.trace, ∃ t s, ts[e.tid]? = some t ∧ s ∈ t ∧ s.event e.tid = some e
  shared : ∀ l, l.owner = none → c.store l = σ₀ l

theorem inv_init (ts : List Thread) (σ₀ : Store) : Inv ts σ₀ (init σ₀ ts) := by
  refine ⟨?_, ?_, ?_⟩
  · intro i st h
    simp only [init, List.getElem?_map] at h
    cases ht : ts[i]? with
    | none => simp [ht] at h
    | some t =>
      simp only [ht, Option.map_some, Option.some.injEq] at h
      subst h
      exact ⟨[], by simp, rfl, fun _ _ => rfl⟩
  · intro e he
    simp [init] at he
  · intro l _; rfl

theorem step_none {c : Config} {j : Tid} (h : c.threads[j]? = none) : step c j = c := by
  simp [step, h]

theorem step_done {c : Config} {j : Tid} {t : TState} (h : c.threads[j]? = some t) (hr : t.rest = []) :
    step c j = c := by
  simp [step, h, hr]

theorem step_cons {c : Config} {j : Tid} {t : TState} {s : Step} {rest : List Step}
    (h : c.threads[j]? = some t) (hr : t.rest = s :: rest) :
    step c j = { store := (s.exec c.store t.out).1
                 threads := c.threads.set j ⟨rest, (s.exec c.store t.out).2⟩
                 trace := c.trace ++ (s.event j).toList } := by
  simp [step, h, hr]

theorem inv_step {ts : List Thread} {σ₀ : Store} (hc : Confined ts) {c : Config} (hi : Inv ts σ₀ c)
    (j : Tid) : Inv ts σ₀ (step c j) := by
  cases hj : c.threads[j]? with
  | none => rw [step_none hj]; exact hi
  | some tj =>
    cases hrest : tj.rest with
    | nil => rw [step_done hj hrest]; exact hi
    | cons s rest =>
      rw [step_cons hj hrest]
      obtain ⟨donej, htsj, houtj, hstj⟩ := hi.thr j tj hj
      rw [hrest] at htsj
      have hsc : s.Confined j := hc j _ htsj s (by simp)
      have hjlt : j < c.threads.length := by
        cases hlt : decide (j < c.threads.length) with
        | true => exact of_decide_eq_true hlt
        | false =>
          have : c.threads[j]? = none := List.getElem?_eq_none (Nat.le_of_not_lt (of_decide_eq_false hlt))
          rw [this] at hj; cases hj
      refine ⟨?_, ?_, ?_⟩
      · intro i st hist
        by_cases hij : j = i
        · subst hij
          simp only [List.getElem?_set_self hjlt, Option.some.injEq] at hist
          subst hist
          refine ⟨donej ++ [s], ?_, ?_, ?_⟩
          · simpa using htsj
          · rw [seqRun_snoc]
            have := (exec_agree (i := j) tj.out hsc hstj).1
            rw [this, houtj]
          · intro l hl
            show (s.exec c.store tj.out).1 l = _
            rw [seqRun_snoc]
            have := (exec_agree (i := j) tj.out hsc hstj).2 l hl
            rw [this, houtj]
        · simp only [List.getElem?_set_ne hij] at hist
          obtain ⟨done, h1, h2, h3⟩ := hi.thr i st hist
          refine ⟨done, h1, h2, ?_⟩
          intro l hl
          show (s.exec c.store tj.out).1 l = _
          rw [exec_other c.store tj.out hsc hij l hl]
          exact h3 l hl
      · intro e he
        simp only [List.mem_append] at he
        rcases he with he | he
        · exact hi.tr e he
        · cases hev : s.event j with
          | none => simp [hev] at he
          | some ev =>
            simp only [hev, Option.toList_some, List.mem_singleton] at he
            rw [he]
            have htid : ev.tid = j := by
              cases s with
              | read l => simp only [Step.event, Option.some.injEq] at hev; rw [← hev]
              | write l f => simp only [Step.event, Option.some.injEq] at hev; rw [← hev]
              | pure f => simp [Step.event] at hev
            rw [htid]
            exact ⟨_, s, htsj, by simp, hev⟩
      · intro l hl
        show (s.exec c.store tj.out).1 l = _
        rw [exec_shared c.store tj.out hsc l hl]
        exact hi.shared l hl

theorem inv_runFrom {ts : List Thread} {σ₀ : Store} (hc : Confined ts) (sched : Schedule) :
    ∀ c, Inv ts σ₀ c → Inv ts σ₀ (runFrom sched c) := by
  induction sched with
  | nil => intro c h; exact h
  | cons j sched ih =>
    intro c h
    show Inv ts σ₀ (runFrom sched (step c j))
    exact ih _ (inv_step hc h j)

theorem inv_run {ts : List Thread} (σ₀ : Store) (hc : Confined ts) (sched : Schedule) :
    Inv ts σ₀ (run sched σ₀ ts) :=
  inv_runFrom hc sched _ (inv_init ts σ₀)

/-! ## Races -/

theorem hasRace_iff (tr : List Event) : hasRace tr = true ↔ HasRace tr := by
  simp only [hasRace, List.any_eq_true, Event.conflicts, Bool.and_eq_true, Bool.or_eq_true,
    decide_eq_true_eq, HasRace]
  constructor
  · rintro ⟨a, ha, b, hb, ⟨h1, h2⟩, h3⟩
    exact ⟨a, ha, b, hb, h1, h2, h3⟩
  · rintro ⟨a, ha, b, hb, h1, h2, h3⟩
    exact ⟨a, ha, b, hb, ⟨h1, h2⟩, h3⟩

/-- Under the ownership discipline, a trace whose events all stem from the threads' own steps
has no race. -/
theorem no_race_of_inv {ts : List Thread} {σ₀ : Store} (hc : Confined ts) {c : Config} (hi : Inv ts σ₀ c) :
    ¬ HasRace c.trace := by
  rintro ⟨a, ha, b, hb, hne, hloc, hw⟩
  obtain ⟨ta, sa, hta, hsa, hea⟩ := hi.tr a ha
  obtain ⟨tb, sb, htb, hsb, heb⟩ := hi.tr b hb
  have ca := hc _ _ hta sa hsa
  have cb := hc _ _ htb sb hsb
  -- owner information carried by an event
  have vis : ∀ (e : Event) (s : Step), s.Confined e.tid → s.event e.tid = some e →
      Visible e.tid e.loc ∧ (e.isWrite = true → e.loc.owner = some e.tid) := by
    intro e s hs hev
    cases s with
    | read l =>
      simp only [Step.event, Option.some.injEq] at hev
      have hl : e.loc = l := by rw [← hev]
      have hwf : e.isWrite = false := by rw [← hev]
      refine ⟨by rw [hl]; exact hs, ?_⟩
      intro h; rw [hwf] at h; cases h
    | write l f =>
      simp only [Step.event, Option.some.injEq] at hev
      have hl : e.loc = l := by rw [← hev]
      have ho : l.owner = some e.tid := hs
      refine ⟨Or.inr (by rw [hl]; exact ho), fun _ => by rw [hl]; exact ho⟩
    | pure f => simp [Step.event] at hev
  obtain ⟨va, wa⟩ := vis a sa ca hea
  obtain ⟨vb, wb⟩ := vis b sb cb heb
  rcases hw with h | h
  · have ho := wa h
    rw [hloc] at ho
    rcases vb with h' | h'
    · rw [h'] at ho; cases ho
    · rw [h'] at ho; exact hne (Option.some.inj ho).symm
  · have ho := wb h
    rw [← hloc] at ho
    rcases va with h' | h'
    · rw [h'] at ho; cases ho
    · rw [h'] at ho; exact hne (Option.some.inj ho)

/-! ## Progress: a thread that is given enough turns finishes -/

theorem step_threads_length (c : Config) (j : Tid) : (step c j).threads.length = c.threads.length := by
  cases hj : c.threads[j]? with
  | none => rw [step_none hj]
  | some tj =>
    cases hrest : tj.rest with
    | nil => rw [step_done hj hrest]
    | cons s rest => rw [step_cons hj hrest]; simp

/-- Number of steps thread `i` still has to run (0 when there is no such thread). -/
def Config.remaining (c : Config) (i : Tid) : Nat :=
  match c.threads[i]? with
  | some t => t.rest.length
  | none => 0

theorem remaining_step (c : Config) (i j : Tid) :
    (step c j).remaining i = if j = i then c.remaining i - 1 else c.remaining i := by
  cases hj : c.threads[j]? with
  | none =>
    rw [step_none hj]
    by_cases e : j = i
    · subst e; simp [Config.remaining, hj]
    · simp [e]
  | some tj =>
    cases hrest : tj.rest with
    | nil =>
      rw [step_done hj hrest]
      by_cases e : j = i
      · subst e; simp [Config.remaining, hj, hrest]
      · simp [e]
    | cons s rest =>
      rw [step_cons hj hrest]
      have hjlt : j < c.threads.length := by
        cases hlt : decide (j < c.threads.length) with
        | true => exact of_decide_eq_true hlt
        | false =>
          have : c.threads[j]? = none := List.getElem?_eq_none (Nat.le_of_not_lt (of_decide_eq_false hlt))
          rw [this] at hj; cases hj
      by_cases e : j = i
      · subst e
        simp [Config.remaining, hj, hrest, List.getElem?_set_self hjlt]
      · simp [Config.remaining, e, List.getElem?_set_ne e]

theorem remaining_runFrom (sched : Schedule) (i : Tid) :
    ∀ c : Config, (runFrom sched c).remaining i = c.remaining i - sched.count i := by
  induction sched with
  | nil => intro c; simp [runFrom]
  | cons j sched ih =>
    intro c
    show (runFrom sched (step c j)).remaining i = _
    rw [ih, remaining_step]
    by_cases e : j = i
    · subst e; simp; omega
    · simp [e]

end Conc
