import Proofs.C05Render
import Proofs.RunLemmas
import Proofs.ParseLemmas
/-!
# End-to-end helpers: `run` as a composition of its layers

`run` = scan → parseTokens → compileList → frender → runPure. This file names the stages after
the tokenizer (`runTokens`), proves `run = runTokens ∘ scan`, and evaluates the last stages on the
roots that the C05 theorems are about (no node, one text node, one raw node).
Property theorems are in `Proofs/C05E2E.lean`, `Proofs/C06E2E.lean`.
-/

/-- the last stage of `run`: render a compiled root against a fault-free writer -/
def runRoot (P : Prims) (O : OutPrims) (cfg : Cfg) (fs : FS) (fuel : Nat) (root : List Node) (env : Env) : RunResult :=
  match (frender P O cfg fs fuel root env).runPure with
  | (out, .ok _) => .ok out
  | (_, .err (.located e)) => .err e
  | (_, .err (.plain c)) => .err ⟨0, false, c, .byCause⟩
  | (_, .panic w) => .panic w
  | (_, .unmodelled w) => .unmodelled w

/-- `run` after compilation -/
def runCompiled (P : Prims) (O : OutPrims) (cfg : Cfg) (fs : FS) (fuel : Nat) (c : CRes (List Node)) (env : Env) : RunResult :=
  match c with
  | .err e => .err e
  | .panic w => .panic w
  | .unmodelled w => .unmodelled w
  | .ok root => runRoot P O cfg fs fuel root env

/-- `Compile` after the tokenizer -/
def compileTokens (toks : List Token) : CRes (List Node) :=
  match firstUnmodelledObj toks with
  | some w => .unmodelled w
  | none => do
    let ast ← liftPErr (parseTokens stdGrammar objChk toks)
    compileList ast

/-- `run` after the tokenizer: block parser, compiler, renderer -/
def runTokens (P : Prims) (O : OutPrims) (cfg : Cfg) (fs : FS) (fuel : Nat) (toks : List Token) (env : Env) : RunResult :=
  runCompiled P O cfg fs fuel (compileTokens toks) env

theorem compileSource_eq_compileTokens (delims : List Bytes) (src : Bytes) (line : Nat) :
    compileSource delims src line = compileTokens (scan delims src line) := rfl

theorem run_eq_runCompiled (P : Prims) (O : OutPrims) (cfg : Cfg) (fs : FS) (fuel : Nat) (src : Bytes) (line : Nat) (env : Env) :
    run P O cfg fs fuel src line env = runCompiled P O cfg fs fuel (compileSource cfg.delims src line) env := by
  unfold run runCompiled runRoot
  cases compileSource cfg.delims src line <;> rfl

/-- the whole pipeline is the tokenizer followed by `runTokens` -/
theorem run_eq_runTokens (P : Prims) (O : OutPrims) (cfg : Cfg) (fs : FS) (fuel : Nat) (src : Bytes) (line : Nat) (env : Env) :
    run P O cfg fs fuel src line env = runTokens P O cfg fs fuel (scan cfg.delims src line) env :=
  run_eq_runCompiled P O cfg fs fuel src line env

/-! ## Token lists without objects are inside the lexer model -/

theorem firstUnmodelledObj_none_of_no_obj : ∀ (toks : List Token), (∀ t ∈ toks, t.ty ≠ .obj) → firstUnmodelledObj toks = none
  | [], _ => rfl
  | t :: ts, h => by
    have h1 : (t.ty == TokTy.obj) = false := by simpa using h t (List.mem_cons_self ..)
    simp only [firstUnmodelledObj, h1, Bool.false_eq_true, if_false]
    exact firstUnmodelledObj_none_of_no_obj ts (fun x hx => h x (List.mem_cons_of_mem _ hx))

/-! ## Rendering the three simplest roots -/

theorem frender_nil_run (P : Prims) (O : OutPrims) (cfg : Cfg) (fs : FS) (fuel : Nat) (env : Env) :
    (frender P O cfg fs fuel [] env).runPure = ([], .ok ()) := by
  simp [frender, renderRoot, renderList, pure, M.pure, Prog.bind, wrapFailAt, M.mapFail, flushM, Prog.mapFail,
    statusToProg, Prog.runPure]

/-- writes on a trim writer whose trim flag is clear, then the final flush: everything arrives, in
    order, and the run succeeds -/
theorem writeAll_flush_run (cs : List Bytes) (env : Env) (buf : Bytes) :
    ((writeAllM cs >>= fun _ => flushM) { env := env, tw := { buf := buf, trim := false } }).runPure =
      (buf ++ cs.flatten, .ok ((), { env := env, tw := { buf := [], trim := false } })) := by
  induction cs generalizing buf with
  | nil =>
    simp only [writeAllM, bind, M.bind, pure, M.pure, Prog.bind, flushM]
    cases buf <;> simp [Prog.runPure]
  | cons c cs ih =>
    have h2 := ih []
    simp only [writeAllM, bind, M.bind, Prog.bind_assoc] at h2 ⊢
    rw [Prog.runPure_bind, writeVerbatim_runPure]
    simp only
    rw [h2]
    simp

/-- a root that is one node made of writer operations `m`: the node, then the final flush -/
theorem frender_prog_run (P : Prims) (O : OutPrims) (cfg : Cfg) (fs : FS) (fuel : Nat) (n : Node) (loc : Loc)
    (m : M Unit) (out : Bytes) (s' : RS) (env : Env)
    (hn : renderNode (mkCtx P O cfg fs fuel) n = wrapFailAt cfg.path loc (do m; pure Status.done))
    (h : ((m >>= fun _ => flushM) { env := env, tw := { buf := [], trim := false } }).runPure = (out, .ok ((), s'))) :
    (frender P O cfg fs fuel [n] env).runPure = (out, .ok ()) := by
  rw [frender_single, hn]
  simp only [bind, M.bind, List.nil_append] at h
  rw [Prog.runPure_bind] at h
  unfold wrapFailAt M.mapFail
  simp only [bind, M.bind, pure, M.pure]
  rw [Prog.runPure_bind, Prog.runPure_mapFail, Prog.runPure_bind]
  have hdef : ({} : TW) = { buf := [], trim := false } := rfl
  rw [hdef]
  rcases hw : (m { env := env, tw := { buf := [], trim := false } }).runPure with ⟨o1, r1⟩
  rw [hw] at h
  cases r1 with
  | ok a =>
    obtain ⟨u, s1⟩ := a
    simp only at h
    simp only [Prog.runPure, List.append_nil]
    rw [Prog.runPure_bind, Prog.runPure_mapFail]
    rcases hf : (flushM s1).runPure with ⟨o2, r2⟩
    rw [hf] at h
    cases r2 with
    | ok b =>
      simp only [Prod.mk.injEq] at h
      simp only [Prog.runPure, List.append_nil]
      rw [h.1]
    | err e => simp at h
    | panic w => simp at h
    | unmodelled w => simp at h
  | err e => simp at h
  | panic w => simp at h
  | unmodelled w => simp at h

/-- a root that is one node made of verbatim writes -/
theorem frender_writes_run (P : Prims) (O : OutPrims) (cfg : Cfg) (fs : FS) (fuel : Nat) (n : Node) (loc : Loc)
    (cs : List Bytes) (env : Env)
    (hn : renderNode (mkCtx P O cfg fs fuel) n = wrapFailAt cfg.path loc (do writeAllM cs; pure Status.done)) :
    (frender P O cfg fs fuel [n] env).runPure = (cs.flatten, .ok ()) := by
  have := frender_prog_run P O cfg fs fuel n loc (writeAllM cs) _ _ env hn (writeAll_flush_run cs env [])
  simpa using this

theorem frender_text_run (P : Prims) (O : OutPrims) (cfg : Cfg) (fs : FS) (fuel line : Nat) (src : Bytes) (env : Env) :
    (frender P O cfg fs fuel [.text line src] env).runPure = (src, .ok ()) := by
  refine frender_prog_run P O cfg fs fuel (.text line src) ⟨line, true⟩ (writeM src) src
    { env := env, tw := { buf := [], trim := false } } env (by simp only [renderNode, mkCtx]) ?_
  cases src <;> simp [bind, M.bind, Prog.bind, writeM, flushM, Prog.runPure]

theorem frender_raw_run (P : Prims) (O : OutPrims) (cfg : Cfg) (fs : FS) (fuel : Nat) (slices : List Bytes) (env : Env) :
    (frender P O cfg fs fuel [.raw slices] env).runPure = (slices.flatten, .ok ()) :=
  frender_writes_run P O cfg fs fuel (.raw slices) invalidLoc slices env (by simp only [renderNode, mkCtx])

theorem runRoot_nil (P : Prims) (O : OutPrims) (cfg : Cfg) (fs : FS) (fuel : Nat) (env : Env) :
    runRoot P O cfg fs fuel [] env = .ok [] := by
  simp only [runRoot, frender_nil_run]

theorem runRoot_text (P : Prims) (O : OutPrims) (cfg : Cfg) (fs : FS) (fuel line : Nat) (src : Bytes) (env : Env) :
    runRoot P O cfg fs fuel [.text line src] env = .ok src := by
  simp only [runRoot, frender_text_run]

theorem runRoot_raw (P : Prims) (O : OutPrims) (cfg : Cfg) (fs : FS) (fuel : Nat) (slices : List Bytes) (env : Env) :
    runRoot P O cfg fs fuel [.raw slices] env = .ok slices.flatten := by
  simp only [runRoot, frender_raw_run]

/-! ## The block parser and the compiler on the C05 shapes -/

theorem stdGrammar_OK : stdGrammar.OK = true := by decide

theorem firstUnmodelledObj_append : ∀ (a b : List Token),
    firstUnmodelledObj (a ++ b) = (match firstUnmodelledObj a with | some w => some w | none => firstUnmodelledObj b)
  | [], b => rfl
  | t :: ts, b => by
    simp only [List.cons_append, firstUnmodelledObj]
    split
    · split
      · rfl
      · exact firstUnmodelledObj_append ts b
    · exact firstUnmodelledObj_append ts b

theorem firstUnmodelledObj_tag (t : Token) (ts : List Token) (h : t.ty = .tag) :
    firstUnmodelledObj (t :: ts) = firstUnmodelledObj ts := by
  simp [firstUnmodelledObj, h]

theorem compileTokens_of_parse {toks : List Token} {ast : List AST} (hU : firstUnmodelledObj toks = none)
    (h : parseTokens stdGrammar objChk toks = .ok ast) : compileTokens toks = compileList ast := by
  simp only [compileTokens, hU, h, liftPErr, bind, Res.bind]

/-- what `liftPErr` makes of a parser error -/
def parseErrOf (e : PErr) : SErr :=
  match e.kind with
  | .objSyntax c => ⟨e.line, true, c, .byCause⟩
  | .tagSyntax c => ⟨e.line, true, c, .byCause⟩
  | .notInside => ⟨e.line, true, .none, .notInside⟩
  | .unterminated => ⟨e.line, true, .none, .unterminated⟩
  | .undefinedTag => ⟨e.line, true, .none, .undefinedTag⟩

theorem compileTokens_of_parse_err {toks : List Token} {e : PErr} (hU : firstUnmodelledObj toks = none)
    (h : parseTokens stdGrammar objChk toks = .err e) : compileTokens toks = .err (parseErrOf e) := by
  simp only [compileTokens, hU, h, liftPErr, bind, Res.bind, parseErrOf]
  cases e.kind <;> rfl

theorem compileList_text (t : Token) : compileList [.text t] = .ok [.text t.line t.source] := by
  simp [compileList, compileNode, bind, Res.bind]

theorem compileList_raw (sl : List Bytes) : compileList [.raw sl] = .ok [.raw sl] := by
  simp [compileList, compileNode, bind, Res.bind]

theorem parseTokens_text (chk : Bytes → Option Cause) (t : Token) (h : t.ty = .text) :
    parseTokens stdGrammar chk [t] = .ok [.text t] :=
  parse_of_derives stdGrammar_OK (.text t [] [] h .nil)

theorem isRawOpen_std {o : Token} (h1 : o.ty = .tag) (h2 : o.name = rawName) : stdGrammar.isRawOpen o = true := by
  simp only [Grammar.isRawOpen, h1, h2, beq_self_eq_true, Bool.true_and]; decide

theorem isCommentOpen_std {o : Token} (h1 : o.ty = .tag) (h2 : o.name = commentName) : stdGrammar.isCommentOpen o = true := by
  simp only [Grammar.isCommentOpen, h1, h2, beq_self_eq_true, Bool.true_and]; decide

theorem parseTokens_raw_block (chk : Bytes → Option Cause) (o c : Token) (body : List Token)
    (ho : stdGrammar.isRawOpen o = true) (hc : isEndRaw c = true) (hb : ∀ t ∈ body, isEndRaw t = false) :
    parseTokens stdGrammar chk (o :: (body ++ [c])) = .ok [.raw (body.map (·.source))] :=
  parse_of_derives stdGrammar_OK (.raw o c body [] [] ho hb hc .nil)

theorem parseTokens_comment_block (chk : Bytes → Option Cause) (o c : Token) (body : List Token)
    (ho : stdGrammar.isCommentOpen o = true) (hc : isEndComment c = true) (hb : ∀ t ∈ body, isEndComment t = false) :
    parseTokens stdGrammar chk (o :: (body ++ [c])) = .ok [] :=
  parse_of_derives stdGrammar_OK (.comment o c body [] [] ho hb hc .nil)

/-- a comment block after a prefix that the parser leaves outside comment/raw (or rejects) is
    invisible to the parser -/
theorem parseTokens_comment_erased (g : Grammar) (chk : Bytes → Option Cause) (pre body post : List Token) (o c : Token)
    (hpre : ∀ s, parseLoop g chk {} pre = .ok s → s.mode = .normal)
    (ho : g.isCommentOpen o = true) (hc : isEndComment c = true) (hb : ∀ t ∈ body, isEndComment t = false) :
    parseTokens g chk (pre ++ o :: (body ++ c :: post)) = parseTokens g chk (pre ++ post) := by
  have key : ∀ (ts : List Token) (s : PState), (∀ s', parseLoop g chk s ts = .ok s' → s'.mode = .normal) →
      parseLoop g chk s (ts ++ o :: (body ++ c :: post)) = parseLoop g chk s (ts ++ post) := by
    intro ts
    induction ts with
    | nil =>
      intro s hs
      obtain ⟨cur, st, mode⟩ := s
      have : mode = .normal := hs _ rfl
      subst this
      simp only [List.nil_append]
      rw [loop_cons_ok (step_commentOpen ho), loop_comment_interior _ _ hb, loop_cons_ok (step_inComment_end hc)]
    | cons t ts ih =>
      intro s hs
      simp only [List.cons_append, parseLoop]
      cases hst : parseStep g chk s t with
      | ok s1 =>
        simp only
        apply ih
        intro s' h'
        apply hs
        simp only [parseLoop, hst]
        exact h'
      | err e => rfl
      | panic w => rfl
      | unmodelled w => rfl
  unfold parseTokens
  rw [key pre {} hpre]
