import Proofs.StdNoPanicLemmas
import Liquid.Filters.Arr
import Proofs.InsertionSort
import Proofs.CompareLemmas
/-!
# The bodies of `Filters/Arr.lean` never panic on converted arguments

`ArrF.badArgs` (a body applied to arguments of the wrong Go type) is the only `.panic` of the file;
`values.Call` converts the receiver to a `[]any` and every argument to its parameter type first, and
each body's patterns cover exactly those shapes.
-/

namespace ArrF

/-! ## the shapes `FilterImpl.ofEager` hands to a body -/

theorem eager_anys {f : List GoVal → R GoVal} (h : ∀ xs, NoPanicRes (f [.slice .any xs])) :
    ∀ args, ArgsOK [.val .anys] args → NoPanicRes (eager f args) := by
  intro args ha
  refine ofEager_noPanic ha.np (fun vs hvs => ?_)
  obtain ⟨x, r, rfl, h1, h2⟩ := ha.cons_inv
  cases h2.nil_inv
  obtain ⟨v, rfl, xs, rfl⟩ := h1.val_inv
  simp only [FilterImpl.ofEager.collect, Res.bind] at hvs
  cases hvs
  exact h xs

theorem eager_anys_val {t : ParamTy} {f : List GoVal → R GoVal}
    (h : ∀ xs v, HasTy t v → NoPanicRes (f [.slice .any xs, v])) :
    ∀ args, ArgsOK [.val .anys, .val t] args → NoPanicRes (eager f args) := by
  intro args ha
  refine ofEager_noPanic ha.np (fun vs hvs => ?_)
  obtain ⟨x, r, rfl, h1, h2⟩ := ha.cons_inv
  obtain ⟨y, r', rfl, h3, h4⟩ := h2.cons_inv
  cases h4.nil_inv
  obtain ⟨v, rfl, xs, rfl⟩ := h1.val_inv
  obtain ⟨w, rfl, hw⟩ := h3.val_inv
  simp only [FilterImpl.ofEager.collect, Res.bind] at hvs
  cases hvs
  exact h xs w hw

theorem eager_anys_fn {t : ParamTy} {f : List GoVal → R GoVal}
    (h0 : ∀ xs, NoPanicRes (f [.slice .any xs]))
    (h1 : ∀ xs v, HasTy t v → NoPanicRes (f [.slice .any xs, v])) :
    ∀ args, ArgsOK [.val .anys, .fn t] args → NoPanicRes (eager f args) := by
  intro args ha
  refine ofEager_noPanic ha.np (fun vs hvs => ?_)
  obtain ⟨x, r, rfl, h1', h2⟩ := ha.cons_inv
  obtain ⟨y, r', rfl, h3, h4⟩ := h2.cons_inv
  cases h4.nil_inv
  obtain ⟨v, rfl, xs, rfl⟩ := h1'.val_inv
  rcases h3.fn_inv with rfl | ⟨c, rfl, _, hc⟩
  · simp only [FilterImpl.ofEager.collect, Res.bind] at hvs
    cases hvs
    exact h0 xs
  · cases hcv : c with
    | ok w =>
      subst hcv
      simp only [FilterImpl.ofEager.collect, Res.bind] at hvs
      cases hvs
      exact h1 xs w (hc w rfl)
    | err e => subst hcv; simp [FilterImpl.ofEager.collect, Res.bind] at hvs
    | panic e => subst hcv; simp [FilterImpl.ofEager.collect, Res.bind] at hvs
    | unmodelled e => subst hcv; simp [FilterImpl.ofEager.collect, Res.bind] at hvs

/-! ## the bodies -/

theorem sprintNonNil_noPanic : ∀ xs : List GoVal, NoPanicRes (sprintNonNil xs)
  | [] => trivial
  | x :: xs => by
    rw [sprintNonNil]
    split
    · exact sprintNonNil_noPanic xs
    · exact NoPanicRes.bind (sprint_noPanic _) (fun _ => NoPanicRes.bind (sprintNonNil_noPanic xs) (fun _ => trivial))

theorem joinF_noPanic (xs : List GoVal) (sep : Bytes) : NoPanicRes (joinF xs sep) :=
  NoPanicRes.bind (sprintNonNil_noPanic xs) (fun _ => trivial)

theorem propOf_noPanic (x : GoVal) (k : Bytes) : NoPanicRes (propOf x k) := by
  unfold propOf; split <;> trivial

theorem mapF_noPanic (k : Bytes) : ∀ xs : List GoVal, NoPanicRes (mapF k xs)
  | [] => trivial
  | x :: xs => by
    rw [mapF]
    exact NoPanicRes.bind (propOf_noPanic x k) (fun _ => NoPanicRes.bind (mapF_noPanic k xs) (fun _ => trivial))

theorem uniq_noPanic (xs : List GoVal) : NoPanicRes (uniq [.slice .any xs]) := by
  rw [uniq]; split <;> trivial

theorem noPanicRes_of_isPanic {ε α} {x : Res ε α} (h : x.isPanic = false) : NoPanicRes x := by
  cases x <;> simp_all [NoPanicRes, Res.isPanic]

theorem isPanic_of_noPanicRes {ε α} {x : Res ε α} (h : NoPanicRes x) : x.isPanic = false := by
  cases x <;> simp_all [NoPanicRes, Res.isPanic]

theorem lessByKeyM_isPanic (key : Bytes) (a b : GoVal) : (lessByKeyM key a b).isPanic = false := by
  unfold lessByKeyM
  split <;> first | rfl | exact Cmp.less_noPanic _ _

theorem sortM_noPanic (xs : List GoVal) : NoPanicRes (sortM xs) := by
  unfold sortM
  split
  · exact noPanicRes_of_isPanic (insertionSortM_isPanic Cmp.less_noPanic xs)
  · split <;> trivial

theorem sortByM_noPanic (key : Bytes) (xs : List GoVal) : NoPanicRes (sortByM key xs) := by
  unfold sortByM
  split
  · exact noPanicRes_of_isPanic (insertionSortM_isPanic (lessByKeyM_isPanic key) xs)
  · split <;> trivial

theorem sortWith_noPanic (strict : Bool) (xs : List GoVal) (key : GoVal) :
    NoPanicRes (sortWith strict [.slice .any xs, key]) := by
  unfold sortWith
  split
  · refine NoPanicRes.bind (sortM_noPanic _) (fun ys => ?_)
    split <;> trivial
  · refine NoPanicRes.bind (sprint_noPanic _) (fun k => ?_)
    refine NoPanicRes.bind (sortByM_noPanic k _) (fun ys => ?_)
    split <;> trivial
  · next _ h => exact (h _ _ rfl).elim

theorem caseRes_noPanic (o : Option Bytes) : NoPanicRes (caseRes o) := by
  cases o <;> trivial

theorem natKey_noPanic (v : GoVal) : NoPanicRes (natKey v) := by
  unfold natKey; split
  · trivial
  · exact NoPanicRes.bind (sprint_noPanic _) (fun _ => caseRes_noPanic _)

theorem natKeyBy_noPanic (key : Bytes) (m : GoVal) : NoPanicRes (natKeyBy key m) := by
  unfold natKeyBy
  simp only []
  split
  · exact caseRes_noPanic _
  · trivial

theorem decorate_noPanic {f : GoVal → R Bytes} (hf : ∀ v, NoPanicRes (f v)) :
    ∀ xs : List GoVal, NoPanicRes (decorate f xs)
  | [] => trivial
  | x :: xs => by
    rw [decorate]
    exact NoPanicRes.bind (hf x) (fun _ => NoPanicRes.bind (decorate_noPanic hf xs) (fun _ => trivial))

theorem natLessM_isPanic {f : GoVal → R Bytes} (hf : ∀ v, NoPanicRes (f v)) (a b : GoVal) :
    (natLessM f a b).isPanic = false :=
  isPanic_of_noPanicRes (NoPanicRes.bind (hf a) (fun _ => NoPanicRes.bind (hf b) (fun _ => trivial)))

theorem sortNatM_noPanic (strict : Bool) {f : GoVal → R Bytes} (hf : ∀ v, NoPanicRes (f v)) (xs : List GoVal) :
    NoPanicRes (sortNatM strict f xs) := by
  unfold sortNatM
  split
  · exact noPanicRes_of_isPanic (insertionSortM_isPanic (natLessM_isPanic hf) xs)
  · refine NoPanicRes.bind (decorate_noPanic hf xs) (fun ds => ?_)
    simp only []
    split <;> trivial

theorem sortNaturalWith_noPanic (strict : Bool) (xs : List GoVal) (key : GoVal) :
    NoPanicRes (sortNaturalWith strict [.slice .any xs, key]) := by
  have tail : ∀ f : GoVal → R Bytes, (∀ v, NoPanicRes (f v)) →
      NoPanicRes ((sortNatM strict f xs).bind fun ys => Res.ok (GoVal.slice Ty.any ys)) :=
    fun f hf => NoPanicRes.bind (sortNatM_noPanic strict hf xs) (fun _ => trivial)
  cases key with
  | nil => simp only [sortNaturalWith, Res.bind]; exact tail _ natKey_noPanic
  | _ =>
    simp only [sortNaturalWith]
    refine NoPanicRes.bind' (NoPanicRes.bind (sprint_noPanic _) (fun _ => trivial)) (fun f hf => ?_)
    obtain ⟨name, _, hn⟩ := Res.bind_eq_ok hf
    cases hn
    exact tail _ (natKeyBy_noPanic name)

end ArrF

/-- the array filters -/
theorem arrImpls_noPanic : ImplsNoPanic ArrF.impls := by
  unfold ArrF.impls
  refine .cons (implNP_of_sig (ps := [.val .anys]) (by decide +kernel)
    (ArrF.eager_anys fun _ => trivial)) ?_
  refine .cons (implNP_of_sig (ps := [.val .anys, .val .anys]) (by decide +kernel)
    (ArrF.eager_anys_val fun xs v ⟨ys, hv⟩ => by subst hv; trivial)) ?_
  refine .cons (implNP_of_sig (ps := [.val .anys, .fn .str]) (by decide +kernel)
    (ArrF.eager_anys_fn (fun xs => ArrF.joinF_noPanic xs _)
      (fun xs v ⟨s, hv⟩ => by subst hv; exact ArrF.joinF_noPanic xs s))) ?_
  refine .cons (implNP_of_sig (ps := [.val .anys, .val .str]) (by decide +kernel)
    (ArrF.eager_anys_val fun xs v ⟨k, hv⟩ => by
      subst hv; exact NoPanicRes.bind (ArrF.mapF_noPanic k xs) (fun _ => trivial))) ?_
  refine .cons (implNP_of_sig (ps := [.val .anys]) (by decide +kernel)
    (ArrF.eager_anys fun _ => trivial)) ?_
  refine .cons (implNP_of_sig (ps := [.val .anys, .val .any]) (by decide +kernel)
    (ArrF.eager_anys_val fun xs v _ => ArrF.sortWith_noPanic true xs v)) ?_
  refine .cons (implNP_of_sig (ps := [.val .anys]) (by decide +kernel)
    (ArrF.eager_anys fun _ => trivial)) ?_
  refine .cons (implNP_of_sig (ps := [.val .anys]) (by decide +kernel)
    (ArrF.eager_anys fun _ => trivial)) ?_
  refine .cons (implNP_of_sig (ps := [.val .anys]) (by decide +kernel)
    (ArrF.eager_anys ArrF.uniq_noPanic)) ?_
  refine .cons (implNP_of_sig (ps := [.val .anys, .val .any]) (by decide +kernel)
    (ArrF.eager_anys_val fun xs v _ => ArrF.sortNaturalWith_noPanic true xs v)) ?_
  exact .nil
