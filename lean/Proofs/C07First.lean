import Proofs.RenderTrace
import Proofs.C07Source
/-!
# C07, the determinate form — the error of a render is the error of ONE construct: the first that fails

`render_error_line_in_tree` says the line of a render error is the line of SOME node of the tree. Here the
node is named. `firstFailure` walks the compiled tree in render order with the state the renderer has there
(`traceRoot`, Proofs/RenderTrace.lean, field `fin`):

* in a sequence, a node is reached only when the one before it returned `done`; the first node that fails
  (or hands a `break`/`continue` upwards) decides;
* a text, raw block or trim marker never fails by itself; an object, `assign` or `cycle` that fails is the site:
  `⟨its line, true⟩`; `break`/`continue` are the site of the sentinel they issue;
* `if`/`unless`: the first clause whose test fails is the site (the `if` tag or that `elsif` tag), otherwise the
  walk goes into the body of the branch taken; `case`: the `case` tag when the subject fails, the `when` clause
  whose value fails, else the body taken;
* `for`/`tablerow`: the loop tag when the collection, a modifier or the clause count fails; else the `else`
  clause or the iterations, each in the state the previous one left (a `break` ends the walk, a `continue`
  goes on);
* `capture`: the walk goes into the body (in a fresh trim-writer state);
* `include`: the tag when its argument fails or is no string or the file cannot be read (the handler's error has
  no location), else wherever the handler's error is located (Proofs/C14.lean: the place in the included file);
* every enclosing block passes the site through `relocate` — `parser.WrapError` on locations: a site that has a
  line, or a path, is kept (`relocate_keeps`, the located form of `wrap_keeps_located`); only on line 0 of a
  template without a path it is replaced by the enclosing tag's location.

`run_fails_at_firstFailure`: `run` fails with exactly that location.
-/

/-- the construct at which the first error of a fault-free render arises (`none`: no error is located) -/
def firstFailure (c : RCtx) (root : List Node) (env : Env) : Option Loc := (traceRoot c root env).fin.bind id

/-- **C07 (the error of a render is located at the first failing construct), compiled trees.** For every
    context whose include handler writes to a buffer of its own, every node tree and environment: when `Render`
    into a buffer (a writer that never fails) ends with an error — a failure, or a `break`/`continue` that
    reaches the top — that error is a located error, and its line and path flag are those of `firstFailure`. -/
theorem render_fails_at_firstFailure (c : RCtx) (hc : IncQuiet c) (root : List Node) (env : Env) (out : Bytes) (e : RawErr)
    (h : ((renderRoot c root env).bind statusToProg).runPure = (out, .err e)) :
    ∃ se, e = .located se ∧ firstFailure c root env = some ⟨se.line, se.pathSet⟩ := by
  have hf := (sp_frenderOf c hc root env).fin e (Prog.pureFail_of_runPure _ _ _ h)
  have hl := (located_traceRoot c root env).2
  cases e with
  | plain cause => rw [hf] at hl; exact absurd rfl hl
  | located se => exact ⟨se, rfl, by simp [firstFailure, hf, RawErr.site]⟩

/-- **C07 (determinate form), from source bytes.** For every source, delimiter set, value layer, file system,
    include depth, start line and environment: when the source compiles to `root` and `run` returns the error
    `e`, then `e.line` and `e.pathSet` are the line and the path flag of `firstFailure` on `root`. (When the source
    does not compile the error is the compile error: `run_error_at_tag_or_object`.) -/
theorem run_fails_at_firstFailure (P : Prims) (O : OutPrims) (cfg : Cfg) (fs : FS) (fuel : Nat) (src : Bytes) (line : Nat)
    (env : Env) (root : List Node) (e : SErr)
    (hc : compileSource cfg.delims src line = .ok root) (h : run P O cfg fs fuel src line env = .err e) :
    firstFailure (mkCtx P O cfg fs fuel) root env = some ⟨e.line, e.pathSet⟩ := by
  unfold run at h
  rw [hc] at h
  simp only at h
  split at h
  · cases h
  · next out e' hr =>
    cases h
    obtain ⟨se, hse, hff⟩ := render_fails_at_firstFailure (mkCtx P O cfg fs fuel) (incQuiet_mkCtx P O cfg fs fuel) root env out _ hr
    cases hse
    exact hff
  · next out cause hr =>
    obtain ⟨se, hse, _⟩ := render_fails_at_firstFailure (mkCtx P O cfg fs fuel) (incQuiet_mkCtx P O cfg fs fuel) root env out _ hr
    cases hse
  · cases h
  · cases h

/-! ### Reading `firstFailure`: each by unfolding the walk -/

/-- in a sequence the first node decides unless it returned `done`; then the walk goes on in the state it left -/
theorem fin_cons (c : RCtx) (n : Node) (ns : List Node) (s : RS) :
    (traceList c (n :: ns) s).fin =
      match (renderNode c n s).pureRet with
      | some (.done, s') => (traceList c ns s').fin
      | _ => (traceNode c n s).fin := by
  conv => lhs; unfold traceList
  cases h : (renderNode c n s).pureRet with
  | none => rfl
  | some a =>
    obtain ⟨st, s'⟩ := a
    cases st <;> rfl

/-- an object that fails is the site -/
theorem fin_obj (c : RCtx) (line : Nat) (e : Expr) (s : RS) :
    (traceNode c (.obj line e) s).fin = (renderNode c (.obj line e) s).pureFail.map (fun _ => some ⟨line, true⟩) := by
  unfold traceNode; rfl

/-- a `break` is the site of the sentinel it issues -/
theorem fin_brk (c : RCtx) (line : Nat) (s : RS) : (traceNode c (.brk line) s).fin = some (some ⟨line, true⟩) := by
  unfold traceNode; rfl

/-- an `if` block passes the site of its branches through `WrapError` at the `if` tag -/
theorem fin_if (c : RCtx) (line : Nat) (bs : List (CondT × List Node)) (s : RS) :
    (traceNode c (.ifB line bs) s).fin = (traceBranches c bs s).fin.map (fun l => some (relocate c.cfg.path l ⟨line, true⟩)) := by
  unfold traceNode; rfl

/-- **innermost wins**: a site that has a line — or a path — comes through every enclosing block unchanged -/
theorem wrap_fin_keeps (path : Bytes) (loc : Loc) (t : Tr) (l : Loc) (h : t.fin = some (some l))
    (hl : l.line ≠ 0 ∨ (l.pathSet = true ∧ path ≠ [])) : (t.wrap path loc).fin = some (some l) := by
  simp only [Tr.wrap, h, Option.map_some, relocate_keeps path l loc hl]

/-- an error that is not located yet (the subject of a `case`, the collection of a loop, the argument of an
    `include`, a file that cannot be read) is located at the block or tag that wraps it first -/
theorem wrap_fin_plain (path : Bytes) (loc : Loc) (t : Tr) (h : t.fin = some none) : (t.wrap path loc).fin = some (some loc) := by
  simp only [Tr.wrap, h, Option.map_some, relocate]

/-! ### Line 0

`Engine.ParseTemplate`, `ParseString` and `ParseAndRender` compile with start line 0 and no path: an error of a
construct on the FIRST line of such a template has `LineNumber() == 0` (`{{ 1 | nofilter }}` through
`ParseAndRender`: line 0, no path — run on the real code). So "never 0" needs the start line: with a start line
of at least 1 (`ParseTemplateLocation(src, path, line ≥ 1)`) the line of an error on a writer that does not fail
is never 0. -/

/-- **C07 (no line 0 on a writer that does not fail), compiled trees.** For an include-free tree none of whose
    tags and objects stands at line 0, the error of `Render` into a buffer is located at a line that is not 0
    (the line of a tag or object: `frender_error_eline`), and it names the template's path. Line 0 in
    `render_error_line_in_tree` therefore needs a failing writer (or a tag at line 0). -/
theorem render_error_line_nonzero (P : Prims) (O : OutPrims) (cfg : Cfg) (fs : FS) (fuel : Nat) (root : List Node)
    (h : noInclList root = true) (hpos : ∀ x ∈ elinesList root, x ≠ 0) (env : Env) (out : Bytes) (e : RawErr)
    (hr : (frender P O cfg fs fuel root env).runPure = (out, .err e)) :
    ∃ se, e = .located se ∧ se.line ≠ 0 ∧ se.pathSet = true := by
  obtain ⟨se, hse, hl, hp⟩ := frender_error_eline P O cfg fs fuel root h env out e hr
  exact ⟨se, hse, hpos _ hl, hp⟩

/-- **C07 (no line 0), from source bytes.** For every source without an `include` tag and every start line: the
    line of an error of `run` is at least the start line — so it is not 0 when the template was parsed with a
    start line of at least 1. -/
theorem run_error_line_ge_start (P : Prims) (O : OutPrims) (cfg : Cfg) (fs : FS) (fuel : Nat) (src : Bytes) (line : Nat)
    (env : Env) (e : SErr) (hni : NoIncludeTag (scan cfg.delims src line))
    (h : run P O cfg fs fuel src line env = .err e) : line ≤ e.line := by
  obtain ⟨pre, t, rest, _, _, h3, h4, _, _⟩ := run_error_at_tag_or_object P O cfg fs fuel src line env e hni h
  rw [h3, h4]
  exact Nat.le_add_right _ _

/-! ### A concrete instance

`a⏎{% if true %}⏎{{ y }}{% endif %}` with strict variables and `y` unbound, compiled at start line 1: the text is
at line 1, the `if` at line 2, the object at line 3. The walk passes the text (it returns `done`), enters the
`if`, whose test succeeds, and stops at the object: `firstFailure` is line 3 — not line 2, the enclosing `if`. -/
def c07ExRoot : List Node := [.text 1 [97, 10], .ifB 2 [(.always, [.text 2 [10], .obj 3 (.var [121])])]]

theorem c07Ex_run (P : Prims) (O : OutPrims) (fs : FS) :
    (frender P O strictCfg fs 1 c07ExRoot []).runPure = ([97, 10], .err (.located ⟨3, true, .other "undefinedVariable", .byCause⟩)) := by
  simp [c07ExRoot, frender, renderRoot, renderList, renderNode, renderBranches, renderBlockBody, evalCond, wrapAt, wrapFailAt,
    M.mapFail, M.bind, M.pure, M.getEnv, M.ofRes, M.fail, writeM, Prog.bind, Prog.mapFail, Prog.runPure, bind, pure, mkCtx,
    evaluate, eval, Env.get, GoVal.unwrap, GoVal.isNil, GoVal.toLiquid, wrapError, strictCfg]

example (P : Prims) (O : OutPrims) (fs : FS) : firstFailure (mkCtx P O strictCfg fs 1) c07ExRoot [] = some ⟨3, true⟩ := by
  obtain ⟨se, hse, hff⟩ := render_fails_at_firstFailure (mkCtx P O strictCfg fs 1) (incQuiet_mkCtx P O strictCfg fs 1) c07ExRoot []
    [97, 10] _ (c07Ex_run P O fs)
  cases hse
  exact hff

/-- `run_fails_at_firstFailure` on bytes: `a⏎{{ y }}` (strict variables, start line 1) compiles to a text at
    line 1 and an object at line 2; `run` fails (`c07_ex_render`), and `firstFailure` is the object -/
example (P : Prims) (O : OutPrims) (fs : FS) :
    firstFailure (mkCtx P O strictCfg fs 1) [.text 1 [97, 10], .obj 2 (.var [121])] [] = some ⟨2, true⟩ :=
  run_fails_at_firstFailure P O strictCfg fs 1 [97, 10, 123, 123, 32, 121, 32, 125, 125] 1 [] _ _ rfl (c07_ex_render P O fs)

/-- `run_error_line_ge_start` on the same bytes: the start line 1 is at most the error's line 2 -/
example (P : Prims) (O : OutPrims) (fs : FS) : 1 ≤ (⟨2, true, .other "undefinedVariable", .byCause⟩ : SErr).line :=
  run_error_line_ge_start P O strictCfg fs 1 [97, 10, 123, 123, 32, 121, 32, 125, 125] 1 [] _ (by decide) (c07_ex_render P O fs)

/-- `render_error_line_nonzero` on `c07ExRoot`: include-free, tags and objects at lines 2 and 3 -/
example (P : Prims) (O : OutPrims) (fs : FS) :
    ∃ se, RawErr.located ⟨3, true, .other "undefinedVariable", .byCause⟩ = .located se ∧ se.line ≠ 0 ∧ se.pathSet = true :=
  render_error_line_nonzero P O strictCfg fs 1 c07ExRoot (by decide) (by decide) [] _ _ (c07Ex_run P O fs)
