import Proofs.RenderTrace
import Proofs.TraceExact
import Proofs.C07Source
/-!
# C07, the determinate form — the error of a render is the error of ONE construct: the first that fails

`render_error_line_in_tree` says the line of a render error is the line of SOME node of the tree. Here the
node is named. `firstFailure` walks the compiled tree in render order with the state the renderer has there
(`traceRoot`, Proofs/RenderTrace.lean, field `fin`):

* in a sequence, a node is reached only when the one before it returned `done`; the first node that fails
  (or hands a `break`/`continue` upwards) decides;
* a text, raw block or trim marker never fails by itself; an object, `assign` or `cycle` that fails is the site:
  `⟨its line, true⟩`; `break`/`continue` are the site of the sentinel they issue;
* `if`/`unless`: the first clause whose test fails is the site (the `if` tag or that `elsif` tag), otherwise the
  walk goes into the body of the branch taken; `case`: the `case` tag when the subject fails, the `when` clause
  whose value fails, else the body taken;
* `for`/`tablerow`: the loop tag when the collection, a modifier or the clause count fails; else the `else`
  clause or the iterations, each in the state the previous one left (a `break` ends the walk, a `continue`
  goes on);
* `capture`: the walk goes into the body (in a fresh trim-writer state);
* `include`: the tag when its argument fails or is no string or the file cannot be read (the handler's error has
  no location), else wherever the handler's error is located (Proofs/C14.lean: the place in the included file);
* every enclosing block passes the site through `relocate` — `parser.WrapError` on locations: a site that has a
  line, or a path, is kept (`relocate_keeps`, the located form of `wrap_keeps_located`); only on line 0 of a
  template without a path it is replaced by the enclosing tag's location.

`run_fails_at_firstFailure`: `run` fails with exactly that location.
-/

/-- the construct at which the first error of a fault-free render arises (`none`: no error is located) -/
def firstFailure (c : RCtx) (root : List Node) (env : Env) : Option Loc := (traceRoot c root env).fin.bind id

/-- **C07 (the error of a render is located at the first failing construct), compiled trees.** For every
    context whose include handler writes to a buffer of its own, every node tree and environment: when `Render`
    into a buffer (a writer that never fails) ends with an error — a failure, or a `break`/`continue` that
    reaches the top — that error is a located error, and its line and path flag are those of `firstFailure`. -/
theorem render_fails_at_firstFailure (c : RCtx) (hc : IncQuiet c) (root : List Node) (env : Env) (out : Bytes) (e : RawErr)
    (h : ((renderRoot c root env).bind statusToProg).runPure = (out, .err e)) :
    ∃ se, e = .located se ∧ firstFailure c root env = some ⟨se.line, se.pathSet⟩ := by
  have hf := (sp_frenderOf c hc root env).fin e (Prog.pureFail_of_runPure _ _ _ h)
  have hl := (located_traceRoot c root env).2
  cases e with
  | plain cause => rw [hf] at hl; exact absurd rfl hl
  | located se => exact ⟨se, rfl, by simp [firstFailure, hf, RawErr.site]⟩

/-- **C07 (determinate form), from source bytes.** For every source, delimiter set, value layer, file system,
    include depth, start line and environment: when the source compiles to `root` and `run` returns the error
    `e`, then `e.line` and `e.pathSet` are the line and the path flag of `firstFailure` on `root`. (When the source
    does not compile the error is the compile error: `run_error_at_tag_or_object`.) -/
theorem run_fails_at_firstFailure (P : Prims) (O : OutPrims) (cfg : Cfg) (fs : FS) (fuel : Nat) (src : Bytes) (line : Nat)
    (env : Env) (root : List Node) (e : SErr)
    (hc : compileSource cfg.delims src line = .ok root) (h : run P O cfg fs fuel src line env = .err e) :
    firstFailure (mkCtx P O cfg fs fuel) root env = some ⟨e.line, e.pathSet⟩ := by
  unfold run at h
  rw [hc] at h
  simp only at h
  split at h
  · cases h
  · next out e' hr =>
    cases h
    obtain ⟨se, hse, hff⟩ := render_fails_at_firstFailure (mkCtx P O cfg fs fuel) (incQuiet_mkCtx P O cfg fs fuel) root env out _ hr
    cases hse
    exact hff
  · next out cause hr =>
    obtain ⟨se, hse, _⟩ := render_fails_at_firstFailure (mkCtx P O cfg fs fuel) (incQuiet_mkCtx P O cfg fs fuel) root env out _ hr
    cases hse
  · cases h
  · cases h

/-! ### `firstFailure` is complete: it is `none` exactly when the render has no error

The walk is proved against the renderer in both directions: `sp_renderNode` … (Proofs/RenderTrace.lean: an error of
the run is at the end of the trace) and `fx_renderNode` … (Proofs/TraceExact.lean: the trace ends with a site only
when the run ends with an error or a sentinel). A `break`/`continue` that reaches the top is an error of the real
engine too (`{% break %}` alone: "break outside a loop", line of the tag, no output — run on the real code), so no
case has to be set apart. The model outcomes `panic` and `unmodelled` are not errors: the walk reads the decisions off
the fault-free run and says nothing where that run is not defined. -/

theorem firstFailure_none_iff_fin (c : RCtx) (root : List Node) (env : Env) :
    firstFailure c root env = none ↔ (traceRoot c root env).fin = none := by
  unfold firstFailure
  have hl := (located_traceRoot c root env).2
  cases h : (traceRoot c root env).fin with
  | none => simp
  | some s =>
    cases s with
    | none => exact absurd h hl
    | some l => simp

theorem Prog.pureFail_none_iff {α} (p : Prog α) : p.pureFail = none ↔ ∀ out e, p.runPure ≠ (out, .err e) := by
  constructor
  · intro h out e hr
    rw [Prog.pureFail_of_runPure p out e hr] at h
    cases h
  · intro h
    cases hpf : p.pureFail with
    | none => rfl
    | some e => exact absurd (Prog.runPure_of_pureFail p e hpf) (h _ e)

/-- **C07 (`firstFailure` is `none` exactly when there is no error), compiled trees.** For every context whose
    include handler writes to a buffer of its own, every node tree and environment: `firstFailure` is `none` if
    and only if `Render` into a buffer (a writer that never fails) does not end with an error — a failure, or a
    `break`/`continue` that reaches the top. With `render_fails_at_firstFailure`: the render ends with the error
    `e` exactly when `firstFailure` is the location of `e`. -/
theorem firstFailure_none_iff_no_error (c : RCtx) (hc : IncQuiet c) (root : List Node) (env : Env) :
    firstFailure c root env = none ↔ ∀ out e, ((renderRoot c root env).bind statusToProg).runPure ≠ (out, .err e) := by
  rw [firstFailure_none_iff_fin, traceRoot_fin_none_iff c hc, Prog.pureFail_none_iff]

/-- **C07 (`firstFailure` is complete), compiled trees.** Under the same hypotheses, for a render that is defined in
    the model (it does not end in the model outcomes `panic` / `unmodelled`): `firstFailure` is `none` if and only
    if the render SUCCEEDS, returning its output. -/
theorem firstFailure_none_iff_ok (c : RCtx) (hc : IncQuiet c) (root : List Node) (env : Env)
    (hp : ∀ out w, ((renderRoot c root env).bind statusToProg).runPure ≠ (out, .panic w))
    (hu : ∀ out w, ((renderRoot c root env).bind statusToProg).runPure ≠ (out, .unmodelled w)) :
    firstFailure c root env = none ↔ ∃ out, ((renderRoot c root env).bind statusToProg).runPure = (out, .ok ()) := by
  rw [firstFailure_none_iff_no_error c hc]
  constructor
  · intro h
    cases hr : ((renderRoot c root env).bind statusToProg).runPure with
    | mk out o =>
      cases o with
      | ok a => exact ⟨out, rfl⟩
      | err e => exact absurd hr (h out e)
      | panic w => exact absurd hr (hp out w)
      | unmodelled w => exact absurd hr (hu out w)
  · rintro ⟨out, h⟩ out' e hr
    rw [h] at hr
    cases hr

/-- **C07 (`firstFailure` characterises the result of `run`), from source bytes.** For every source that compiles
    to `root`, every delimiter set, value layer, file system, include depth, start line and environment:
    `firstFailure` on `root` is the location of the error when `run` returns an error, and `none` in every other
    case — output, or one of the model outcomes `panic` / `unmodelled`. -/
theorem run_firstFailure_complete (P : Prims) (O : OutPrims) (cfg : Cfg) (fs : FS) (fuel : Nat) (src : Bytes) (line : Nat)
    (env : Env) (root : List Node) (hc : compileSource cfg.delims src line = .ok root) :
    firstFailure (mkCtx P O cfg fs fuel) root env =
      match run P O cfg fs fuel src line env with
      | .err e => some ⟨e.line, e.pathSet⟩
      | _ => none := by
  cases hrun : run P O cfg fs fuel src line env with
  | err e => exact run_fails_at_firstFailure P O cfg fs fuel src line env root e hc hrun
  | ok out =>
    simp only
    rw [firstFailure_none_iff_no_error _ (incQuiet_mkCtx P O cfg fs fuel)]
    intro out' e hr
    unfold run at hrun
    rw [hc] at hrun
    simp only at hrun
    have hr' : (frender P O cfg fs fuel root env).runPure = (out', .err e) := hr
    rw [hr'] at hrun
    cases e <;> cases hrun
  | panic w =>
    simp only
    rw [firstFailure_none_iff_no_error _ (incQuiet_mkCtx P O cfg fs fuel)]
    intro out' e hr
    unfold run at hrun
    rw [hc] at hrun
    simp only at hrun
    have hr' : (frender P O cfg fs fuel root env).runPure = (out', .err e) := hr
    rw [hr'] at hrun
    cases e <;> cases hrun
  | unmodelled w =>
    simp only
    rw [firstFailure_none_iff_no_error _ (incQuiet_mkCtx P O cfg fs fuel)]
    intro out' e hr
    unfold run at hrun
    rw [hc] at hrun
    simp only at hrun
    have hr' : (frender P O cfg fs fuel root env).runPure = (out', .err e) := hr
    rw [hr'] at hrun
    cases e <;> cases hrun

/-- **C07 (`run` succeeds exactly when `firstFailure` is `none`), from source bytes.** For a source that compiles to
    `root` and a run that is defined in the model: `run` returns output if and only if `firstFailure` on `root` is
    `none`; and it returns the error `e` only if `firstFailure` is the location of `e` (`run_fails_at_firstFailure`). -/
theorem run_ok_iff_firstFailure_none (P : Prims) (O : OutPrims) (cfg : Cfg) (fs : FS) (fuel : Nat) (src : Bytes) (line : Nat)
    (env : Env) (root : List Node) (hc : compileSource cfg.delims src line = .ok root)
    (hp : ∀ w, run P O cfg fs fuel src line env ≠ .panic w) (hu : ∀ w, run P O cfg fs fuel src line env ≠ .unmodelled w) :
    (∃ out, run P O cfg fs fuel src line env = .ok out) ↔ firstFailure (mkCtx P O cfg fs fuel) root env = none := by
  have h := run_firstFailure_complete P O cfg fs fuel src line env root hc
  cases hrun : run P O cfg fs fuel src line env with
  | ok out => rw [hrun] at h; exact ⟨fun _ => h, fun _ => ⟨out, rfl⟩⟩
  | err e =>
    rw [hrun] at h
    simp only at h
    constructor
    · rintro ⟨out, ho⟩; cases ho
    · intro hn; rw [hn] at h; cases h
  | panic w => exact absurd hrun (hp w)
  | unmodelled w => exact absurd hrun (hu w)

/-! ### Reading `firstFailure`: each by unfolding the walk -/

/-- in a sequence the first node decides unless it returned `done`; then the walk goes on in the state it left -/
theorem fin_cons (c : RCtx) (n : Node) (ns : List Node) (s : RS) :
    (traceList c (n :: ns) s).fin =
      match (renderNode c n s).pureRet with
      | some (.done, s') => (traceList c ns s').fin
      | _ => (traceNode c n s).fin := by
  conv => lhs; unfold traceList
  cases h : (renderNode c n s).pureRet with
  | none => rfl
  | some a =>
    obtain ⟨st, s'⟩ := a
    cases st <;> rfl

/-- an object that fails is the site -/
theorem fin_obj (c : RCtx) (line : Nat) (e : Expr) (s : RS) :
    (traceNode c (.obj line e) s).fin = (renderNode c (.obj line e) s).pureFail.map (fun _ => some ⟨line, true⟩) := by
  unfold traceNode; rfl

/-- a `break` is the site of the sentinel it issues -/
theorem fin_brk (c : RCtx) (line : Nat) (s : RS) : (traceNode c (.brk line) s).fin = some (some ⟨line, true⟩) := by
  unfold traceNode; rfl

/-- an `if` block passes the site of its branches through `WrapError` at the `if` tag -/
theorem fin_if (c : RCtx) (line : Nat) (bs : List (CondT × List Node)) (s : RS) :
    (traceNode c (.ifB line bs) s).fin = (traceBranches c bs s).fin.map (fun l => some (relocate c.cfg.path l ⟨line, true⟩)) := by
  unfold traceNode; rfl

/-- **innermost wins**: a site that has a line — or a path — comes through every enclosing block unchanged -/
theorem wrap_fin_keeps (path : Bytes) (loc : Loc) (t : Tr) (l : Loc) (h : t.fin = some (some l))
    (hl : l.line ≠ 0 ∨ (l.pathSet = true ∧ path ≠ [])) : (t.wrap path loc).fin = some (some l) := by
  simp only [Tr.wrap, h, Option.map_some, relocate_keeps path l loc hl]

/-- an error that is not located yet (the subject of a `case`, the collection of a loop, the argument of an
    `include`, a file that cannot be read) is located at the block or tag that wraps it first -/
theorem wrap_fin_plain (path : Bytes) (loc : Loc) (t : Tr) (h : t.fin = some none) : (t.wrap path loc).fin = some (some loc) := by
  simp only [Tr.wrap, h, Option.map_some, relocate]

/-! ### Line 0

`Engine.ParseTemplate`, `ParseString` and `ParseAndRender` compile with start line 0 and no path: an error of a
construct on the FIRST line of such a template has `LineNumber() == 0` (`{{ 1 | nofilter }}` through
`ParseAndRender`: line 0, no path — run on the real code). So "never 0" needs the start line: with a start line
of at least 1 (`ParseTemplateLocation(src, path, line ≥ 1)`) the line of an error on a writer that does not fail
is never 0. -/

/-- **C07 (no line 0 on a writer that does not fail), compiled trees.** For an include-free tree none of whose
    tags and objects stands at line 0, the error of `Render` into a buffer is located at a line that is not 0
    (the line of a tag or object: `frender_error_eline`), and it names the template's path. Line 0 in
    `render_error_line_in_tree` therefore needs a failing writer (or a tag at line 0). -/
theorem render_error_line_nonzero (P : Prims) (O : OutPrims) (cfg : Cfg) (fs : FS) (fuel : Nat) (root : List Node)
    (h : noInclList root = true) (hpos : ∀ x ∈ elinesList root, x ≠ 0) (env : Env) (out : Bytes) (e : RawErr)
    (hr : (frender P O cfg fs fuel root env).runPure = (out, .err e)) :
    ∃ se, e = .located se ∧ se.line ≠ 0 ∧ se.pathSet = true := by
  obtain ⟨se, hse, hl, hp⟩ := frender_error_eline P O cfg fs fuel root h env out e hr
  exact ⟨se, hse, hpos _ hl, hp⟩

/-- **C07 (no line 0), from source bytes.** For every source without an `include` tag and every start line: the
    line of an error of `run` is at least the start line — so it is not 0 when the template was parsed with a
    start line of at least 1. -/
theorem run_error_line_ge_start (P : Prims) (O : OutPrims) (cfg : Cfg) (fs : FS) (fuel : Nat) (src : Bytes) (line : Nat)
    (env : Env) (e : SErr) (hni : NoIncludeTag (scan cfg.delims src line))
    (h : run P O cfg fs fuel src line env = .err e) : line ≤ e.line := by
  obtain ⟨pre, t, rest, _, _, h3, h4, _, _⟩ := run_error_at_tag_or_object P O cfg fs fuel src line env e hni h
  rw [h3, h4]
  exact Nat.le_add_right _ _

/-! ### A concrete instance

`a⏎{% if true %}⏎{{ y }}{% endif %}` with strict variables and `y` unbound, compiled at start line 1: the text is
at line 1, the `if` at line 2, the object at line 3. The walk passes the text (it returns `done`), enters the
`if`, whose test succeeds, and stops at the object: `firstFailure` is line 3 — not line 2, the enclosing `if`. -/
def c07ExRoot : List Node := [.text 1 [97, 10], .ifB 2 [(.always, [.text 2 [10], .obj 3 (.var [121])])]]

theorem c07Ex_run (P : Prims) (O : OutPrims) (fs : FS) :
    (frender P O strictCfg fs 1 c07ExRoot []).runPure = ([97, 10], .err (.located ⟨3, true, .other "undefinedVariable", .byCause⟩)) := by
  simp [c07ExRoot, frender, renderRoot, renderList, renderNode, renderBranches, renderBlockBody, evalCond, wrapAt, wrapFailAt,
    M.mapFail, M.bind, M.pure, M.getEnv, M.ofRes, M.fail, writeM, Prog.bind, Prog.mapFail, Prog.runPure, bind, pure, mkCtx,
    evaluate, eval, Env.get, GoVal.unwrap, GoVal.isNil, GoVal.toLiquid, wrapError, strictCfg]

example (P : Prims) (O : OutPrims) (fs : FS) : firstFailure (mkCtx P O strictCfg fs 1) c07ExRoot [] = some ⟨3, true⟩ := by
  obtain ⟨se, hse, hff⟩ := render_fails_at_firstFailure (mkCtx P O strictCfg fs 1) (incQuiet_mkCtx P O strictCfg fs 1) c07ExRoot []
    [97, 10] _ (c07Ex_run P O fs)
  cases hse
  exact hff

/-- `run_fails_at_firstFailure` on bytes: `a⏎{{ y }}` (strict variables, start line 1) compiles to a text at
    line 1 and an object at line 2; `run` fails (`c07_ex_render`), and `firstFailure` is the object -/
example (P : Prims) (O : OutPrims) (fs : FS) :
    firstFailure (mkCtx P O strictCfg fs 1) [.text 1 [97, 10], .obj 2 (.var [121])] [] = some ⟨2, true⟩ :=
  run_fails_at_firstFailure P O strictCfg fs 1 [97, 10, 123, 123, 32, 121, 32, 125, 125] 1 [] _ _ rfl (c07_ex_render P O fs)

/-- `run_error_line_ge_start` on the same bytes: the start line 1 is at most the error's line 2 -/
example (P : Prims) (O : OutPrims) (fs : FS) : 1 ≤ (⟨2, true, .other "undefinedVariable", .byCause⟩ : SErr).line :=
  run_error_line_ge_start P O strictCfg fs 1 [97, 10, 123, 123, 32, 121, 32, 125, 125] 1 [] _ (by decide) (c07_ex_render P O fs)

/-- `render_error_line_nonzero` on `c07ExRoot`: include-free, tags and objects at lines 2 and 3 -/
example (P : Prims) (O : OutPrims) (fs : FS) :
    ∃ se, RawErr.located ⟨3, true, .other "undefinedVariable", .byCause⟩ = .located se ∧ se.line ≠ 0 ∧ se.pathSet = true :=
  render_error_line_nonzero P O strictCfg fs 1 c07ExRoot (by decide) (by decide) [] _ _ (c07Ex_run P O fs)

/-! ### `firstFailure = none`: a concrete instance

`a⏎{% if true %}⏎{% assign x = "b" %}{% endif %}` as a tree: the render succeeds with output `a⏎⏎`, and the walk ends
without a site. From bytes: `a⏎{% assign x = 1 %}b` compiles and `run` returns `a⏎b`. -/
def c07OkRoot : List Node := [.text 1 [97, 10], .ifB 2 [(.always, [.text 2 [10], .assign 3 [120] (.lit (.str [98]))])]]

theorem c07Ok_run (P : Prims) (O : OutPrims) (fs : FS) :
    (frender P O strictCfg fs 1 c07OkRoot []).runPure = ([97, 10, 10], .ok ()) := by
  simp [c07OkRoot, frender, renderRoot, renderList, renderNode, renderBranches, renderBlockBody, evalCond, wrapAt, wrapFailAt,
    M.mapFail, M.bind, M.pure, M.getEnv, M.setVar, M.ofRes, writeM, flushM, Prog.bind, Prog.mapFail, Prog.runPure, bind, pure, mkCtx,
    evaluate, eval, Status.wrap, statusToProg, strictCfg]

example (P : Prims) (O : OutPrims) (fs : FS) : firstFailure (mkCtx P O strictCfg fs 1) c07OkRoot [] = none :=
  (firstFailure_none_iff_no_error _ (incQuiet_mkCtx P O strictCfg fs 1) c07OkRoot []).mpr
    (fun out e h => by have h' := c07Ok_run P O fs; unfold frender at h'; rw [h'] at h; cases h)

example (P : Prims) (O : OutPrims) (fs : FS) : firstFailure (mkCtx P O strictCfg fs 1) c07OkRoot [] = none :=
  (firstFailure_none_iff_ok _ (incQuiet_mkCtx P O strictCfg fs 1) c07OkRoot []
    (fun out w h => by have h' := c07Ok_run P O fs; unfold frender at h'; rw [h'] at h; cases h)
    (fun out w h => by have h' := c07Ok_run P O fs; unfold frender at h'; rw [h'] at h; cases h)).mpr ⟨_, c07Ok_run P O fs⟩

def c07OkSrc : Bytes := [97, 10, 123, 37, 32, 97, 115, 115, 105, 103, 110, 32, 120, 32, 61, 32, 49, 32, 37, 125, 98]

theorem c07OkSrc_compiles : compileSource [] c07OkSrc 1 = .ok [.text 1 [97, 10], .assign 2 [120] (.lit (.int .int 1)), .text 2 [98]] := by rfl

theorem c07OkSrc_run (P : Prims) (O : OutPrims) (fs : FS) : run P O strictCfg fs 1 c07OkSrc 1 [] = .ok [97, 10, 98] := by
  unfold run
  rw [show strictCfg.delims = [] from rfl, c07OkSrc_compiles]
  simp [frender, renderRoot, renderList, renderNode, wrapFailAt, M.mapFail, M.bind, M.pure, M.getEnv, M.setVar, M.ofRes, writeM, flushM,
    Prog.bind, Prog.mapFail, Prog.runPure, bind, pure, mkCtx, evaluate, eval, statusToProg, strictCfg]

/-- `run_firstFailure_complete` and `run_ok_iff_firstFailure_none` on these bytes: `run` returns output, `firstFailure` is `none` -/
example (P : Prims) (O : OutPrims) (fs : FS) :
    firstFailure (mkCtx P O strictCfg fs 1) [.text 1 [97, 10], .assign 2 [120] (.lit (.int .int 1)), .text 2 [98]] [] = none := by
  have h := run_firstFailure_complete P O strictCfg fs 1 c07OkSrc 1 [] _ c07OkSrc_compiles
  rw [c07OkSrc_run] at h
  exact h

example (P : Prims) (O : OutPrims) (fs : FS) :
    firstFailure (mkCtx P O strictCfg fs 1) [.text 1 [97, 10], .assign 2 [120] (.lit (.int .int 1)), .text 2 [98]] [] = none :=
  (run_ok_iff_firstFailure_none P O strictCfg fs 1 c07OkSrc 1 [] _ c07OkSrc_compiles
    (fun w h => by rw [c07OkSrc_run] at h; cases h) (fun w h => by rw [c07OkSrc_run] at h; cases h)).mp ⟨_, c07OkSrc_run P O fs⟩
