import Proofs.StrLemmas
/-!
# Case filters on ASCII strings (full strength: the model is total there)
-/

def asciiUpper (b : UInt8) : UInt8 := if 97 ≤ b ∧ b ≤ 122 then b - 32 else b
def asciiLower (b : UInt8) : UInt8 := if 65 ≤ b ∧ b ≤ 90 then b + 32 else b

theorem forall_u8_of_nat {P : UInt8 → Prop} (h : ∀ n : Nat, n < 256 → P (UInt8.ofNat n)) (c : UInt8) : P c := by
  have := h c.toNat (UInt8.toNat_lt c)
  rwa [UInt8.ofNat_toNat] at this

theorem u8_lt_iff (a b : UInt8) : a < b ↔ a.toNat < b.toNat := UInt8.lt_iff_toNat_lt
theorem u8_le_iff (a b : UInt8) : a ≤ b ↔ a.toNat ≤ b.toNat := UInt8.le_iff_toNat_le

theorem upperRune_ascii (b : UInt8) : b < 0x80 → upperRune b.toNat = some (asciiUpper b).toNat ∧ asciiUpper b < 0x80 := by
  intro hb
  have hb' : b.toNat < 0x80 := (u8_lt_iff b 0x80).mp hb
  rw [upperRune_total, toUpperRune_ascii hb']
  unfold asciiUpper
  simp only [u8_le_iff, u8_lt_iff]
  by_cases h : (97 : UInt8).toNat ≤ b.toNat ∧ b.toNat ≤ (122 : UInt8).toNat
  · have h' : 0x61 ≤ b.toNat ∧ b.toNat ≤ 0x7A := h
    have hsub : (b - 32).toNat = b.toNat - 32 := by
      rw [UInt8.toNat_sub_of_le b 32 ((u8_le_iff 32 b).mpr (by show 32 ≤ b.toNat; omega))]; rfl
    rw [if_pos h, if_pos h', hsub]
    exact ⟨rfl, by show b.toNat - 32 < 128; omega⟩
  · have h' : ¬ (0x61 ≤ b.toNat ∧ b.toNat ≤ 0x7A) := h
    rw [if_neg h, if_neg h']
    exact ⟨rfl, hb'⟩

theorem lowerRune_ascii (b : UInt8) : b < 0x80 → lowerRune b.toNat = some (asciiLower b).toNat ∧ asciiLower b < 0x80 := by
  intro hb
  have hb' : b.toNat < 0x80 := (u8_lt_iff b 0x80).mp hb
  rw [lowerRune_total, toLowerRune_ascii hb']
  unfold asciiLower
  simp only [u8_le_iff, u8_lt_iff]
  by_cases h : (65 : UInt8).toNat ≤ b.toNat ∧ b.toNat ≤ (90 : UInt8).toNat
  · have h' : 0x41 ≤ b.toNat ∧ b.toNat ≤ 0x5A := h
    have hadd : (b + 32).toNat = b.toNat + 32 := by
      rw [UInt8.toNat_add]; show (b.toNat + 32) % 256 = _; omega
    rw [if_pos h, if_pos h', hadd]
    exact ⟨rfl, by show b.toNat + 32 < 128; omega⟩
  · have h' : ¬ (0x41 ≤ b.toNat ∧ b.toNat ≤ 0x5A) := h
    rw [if_neg h, if_neg h']
    exact ⟨rfl, hb'⟩

theorem decodeRunes_ascii (s : Bytes) (h : ∀ b ∈ s, b < 0x80) : decodeRunes s = s.map (·.toNat) := by
  induction s with
  | nil => exact decodeRunes_nil
  | cons b t ih =>
    have hb := h b (List.mem_cons_self ..)
    rw [decodeRunes_cons _ (by simp), decodeRune_ascii b t hb]
    simp only [Nat.max_self, List.drop_succ_cons, List.drop_zero, List.map_cons]
    rw [ih (fun x hx => h x (List.mem_cons_of_mem _ hx))]

theorem encodeRunes_ascii_map (f : UInt8 → UInt8) (s : Bytes) (hf : ∀ b ∈ s, f b < 0x80) :
    encodeRunes (s.map fun b => (f b).toNat) = s.map f := by
  induction s with
  | nil => rfl
  | cons b t ih =>
    simp only [List.map_cons, encodeRunes_cons]
    rw [encodeRune_ascii (f b) (hf b (List.mem_cons_self ..)), ih (fun x hx => hf x (List.mem_cons_of_mem _ hx))]
    rfl

theorem mapRunesM_ascii (g : Rune → Option Rune) (f : UInt8 → UInt8) (s : Bytes)
    (hg : ∀ b ∈ s, g b.toNat = some (f b).toNat) :
    StrF.mapRunesM g (s.map (·.toNat)) = some (s.map fun b => (f b).toNat) := by
  induction s with
  | nil => rfl
  | cons b t ih =>
    simp only [List.map_cons, StrF.mapRunesM]
    rw [hg b (List.mem_cons_self ..), ih (fun x hx => hg x (List.mem_cons_of_mem _ hx))]

theorem upcase_ascii_eq (s : Bytes) (h : ∀ b ∈ s, b < 0x80) : StrF.upcase s = some (s.map asciiUpper) := by
  unfold StrF.upcase
  rw [decodeRunes_ascii s h, mapRunesM_ascii upperRune asciiUpper s (fun b hb => (upperRune_ascii b (h b hb)).1)]
  simp only [Option.map_some]
  rw [encodeRunes_ascii_map asciiUpper s (fun b hb => (upperRune_ascii b (h b hb)).2)]

theorem downcase_ascii_eq (s : Bytes) (h : ∀ b ∈ s, b < 0x80) : StrF.downcase s = some (s.map asciiLower) := by
  unfold StrF.downcase
  rw [decodeRunes_ascii s h, mapRunesM_ascii lowerRune asciiLower s (fun b hb => (lowerRune_ascii b (h b hb)).1)]
  simp only [Option.map_some]
  rw [encodeRunes_ascii_map asciiLower s (fun b hb => (lowerRune_ascii b (h b hb)).2)]

theorem capitalize_ascii_eq (b : UInt8) (t : Bytes) (hb : b < 0x80) : StrF.capitalize (b :: t) = some (asciiUpper b :: t) := by
  simp only [StrF.capitalize]
  rw [decodeRune_ascii b t hb]
  simp only [(upperRune_ascii b hb).1, Option.map_some, List.drop_succ_cons, List.drop_zero]
  rw [encodeRune_ascii _ (upperRune_ascii b hb).2]
  rfl
