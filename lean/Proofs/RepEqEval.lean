import Proofs.RepEqProg
/-!
# Expression evaluation respects representation equivalence (helper lemmas for C18)
-/

open GoVal

variable {t d : Bool}

/-- pointwise relation of two lists -/
inductive All2 {α : Type} (R : α → α → Prop) : List α → List α → Prop where
  | nil : All2 R [] []
  | cons {a a' : α} {as as' : List α} : R a a' → All2 R as as' → All2 R (a :: as) (a' :: as')

/-- related values that are both unwrapped (results of `Evaluate`, filter inputs) -/
def URel (d : Bool) (a b : GoVal) : Prop := Unw a ∧ Unw b ∧ RepEq d a b

theorem URel.refl_unw {a : GoVal} (h : Unw a) : URel d a a := ⟨h, h, RepEq.refl a⟩

/-- what the congruence theorem needs from the comparison and filter layers: related operands
    give the same answer, related filter inputs give related results (`t`: up to `unmodelled`) -/
structure PrimsRespect (t d : Bool) (P : Prims) : Prop where
  equal : ∀ a a' b b', VRel d a a' → VRel d b b' → RRel t Eq (P.equal a b) (P.equal a' b')
  less : ∀ a a' b b', VRel d a a' → VRel d b b' → RRel t Eq (P.less a b) (P.less a' b')
  contains : ∀ a a' b b', VRel d a a' → VRel d b b' → RRel t Eq (P.contains a b) (P.contains a' b')
  /-- the operands of `case`/`when` are results of `Evaluate` (unwrapped) -/
  equalFn : ∀ a a' b b', URel d a a' → URel d b b' → RRel t Eq (P.equalFn a b) (P.equalFn a' b')
  /-- receiver and arguments reach a filter unwrapped -/
  applyFilter : ∀ name r r' as as', URel d r r' → All2 (URel d) as as' →
    RRel t (VRel d) (P.applyFilter name r as) (P.applyFilter name r' as')

theorem liftL_rel {r r' : LRes} (h : LRel d r r') : RRel t (VRel d) (liftL r) (liftL r') := by
  cases r <;> cases r' <;> simp only [LRel] at h
  · exact h.vrel
  · exact .inr h

theorem RRel.boolOk {r r' : Res Cause Bool} (h : RRel t Eq r r') (f : Bool → Bool) :
    RRel t (VRel d) (r.bind fun b => .ok (.bool (f b))) (r'.bind fun b => .ok (.bool (f b))) :=
  RRel.bind h (fun a a' e => by subst e; exact VRel.refl _)

theorem all2_unwrap {as as' : List GoVal} (h : All2 (VRel d) as as') :
    All2 (URel d) (as.map GoVal.unwrap) (as'.map GoVal.unwrap) := by
  induction h with
  | nil => exact .nil
  | cons h _ ih => exact .cons ⟨Unw.unwrap _, Unw.unwrap _, h⟩ ih

theorem rrel_ok {α} {R : α → α → Prop} {a a' : α} (h : R a a') : RRel t R (.ok a) (.ok a') := h

mutual
theorem eval_rel (P : Prims) (hP : PrimsRespect t d P) {env env' : Env} (he : EnvRel d env env') :
    ∀ e : Expr, RRel t (VRel d) (eval P env e) (eval P env' e)
  | .lit v => by simp only [eval]; exact rrel_ok (VRel.refl _)
  | .var x => by
    simp only [eval]
    exact rrel_ok (he x).1.toLiquid
  | .prop e name => by
    simp only [eval, Res.bind_eq]
    exact RRel.bind (eval_rel P hP he e) (fun v v' hv => liftL_rel (propertyValue_rel hv name))
  | .index e i => by
    simp only [eval, Res.bind_eq]
    exact RRel.bind (eval_rel P hP he e) (fun v v' hv =>
      RRel.bind (eval_rel P hP he i) (fun iv iv' hi => liftL_rel (indexValue_rel hv hi)))
  | .range a b => by
    simp only [eval, Res.bind_eq]
    refine RRel.bind (eval_rel P hP he a) (fun va va' ha => ?_)
    rw [intOf_rel ha]
    cases va'.intOf with
    | none => simp [RRel]
    | some x =>
      simp only
      refine RRel.bind (eval_rel P hP he b) (fun vb vb' hb => ?_)
      rw [intOf_rel hb]
      cases vb'.intOf <;> simp [RRel, VRel.refl]
  | .rel op a b => by
    simp only [eval, Res.bind_eq]
    refine RRel.bind (eval_rel P hP he a) (fun va va' ha => ?_)
    refine RRel.bind (eval_rel P hP he b) (fun vb vb' hb => ?_)
    have e1 := hP.equal va va' vb vb' ha hb
    have l1 := hP.less va va' vb vb' ha hb
    have l2 := hP.less vb vb' va va' hb ha
    have c1 := hP.contains va va' vb vb' ha hb
    cases op <;> simp only
    · exact RRel.boolOk e1 id
    · exact RRel.boolOk e1 (fun b => !b)
    · exact RRel.boolOk l2 id
    · exact RRel.boolOk l1 id
    · refine RRel.bind l2 (fun l l' hl => ?_)
      subst hl
      split
      · exact rrel_ok (VRel.refl _)
      · exact RRel.boolOk e1 id
    · refine RRel.bind l1 (fun l l' hl => ?_)
      subst hl
      split
      · exact rrel_ok (VRel.refl _)
      · exact RRel.boolOk e1 id
    · exact RRel.boolOk c1 id
  | .and_ a b => by
    simp only [eval, Res.bind_eq]
    refine RRel.bind (eval_rel P hP he a) (fun va va' ha => ?_)
    rw [test_rel ha]
    split
    · refine RRel.bind (eval_rel P hP he b) (fun vb vb' hb => ?_)
      rw [test_rel hb]
      exact rrel_ok (VRel.refl _)
    · exact rrel_ok (VRel.refl _)
  | .or_ a b => by
    simp only [eval, Res.bind_eq]
    refine RRel.bind (eval_rel P hP he a) (fun va va' ha => ?_)
    rw [test_rel ha]
    split
    · exact rrel_ok (VRel.refl _)
    · refine RRel.bind (eval_rel P hP he b) (fun vb vb' hb => ?_)
      rw [test_rel hb]
      exact rrel_ok (VRel.refl _)
  | .filter e name args => by
    simp only [eval]
    split
    · simp [RRel]
    · simp only [Res.bind_eq]
      refine RRel.bind (eval_rel P hP he e) (fun r r' hr => ?_)
      refine RRel.bind (evalList_rel P hP he args) (fun as as' has => ?_)
      exact hP.applyFilter name _ _ _ _ ⟨Unw.unwrap r, Unw.unwrap r', hr⟩ (all2_unwrap has)
theorem evalList_rel (P : Prims) (hP : PrimsRespect t d P) {env env' : Env} (he : EnvRel d env env') :
    ∀ es : List Expr, RRel t (All2 (VRel d)) (evalList P env es) (evalList P env' es)
  | [] => by simp only [evalList]; exact rrel_ok .nil
  | e :: es => by
    simp only [evalList, Res.bind_eq]
    refine RRel.bind (eval_rel P hP he e) (fun v v' hv => ?_)
    refine RRel.bind (evalList_rel P hP he es) (fun vs vs' hvs => ?_)
    exact rrel_ok (All2.cons hv hvs)
end

/-- `Expression.Evaluate` -/
theorem evaluate_rel (P : Prims) (hP : PrimsRespect t d P) {env env' : Env} (he : EnvRel d env env') (e : Expr) :
    RRel t (URel d) (evaluate P env e) (evaluate P env' e) := by
  unfold evaluate
  have h := eval_rel P hP he e
  cases h1 : eval P env e <;> cases h2 : eval P env' e <;> rw [h1, h2] at h <;> simp only [RRel] at h ⊢ <;> first
    | exact ⟨Unw.unwrap _, Unw.unwrap _, h⟩
    | exact h
