import Proofs.RepEqProg
/-!
# Expression evaluation respects representation equivalence (helper lemmas for C18)
-/

open GoVal

/-- pointwise relation of two lists -/
inductive All2 {α : Type} (R : α → α → Prop) : List α → List α → Prop where
  | nil : All2 R [] []
  | cons {a a' : α} {as as' : List α} : R a a' → All2 R as as' → All2 R (a :: as) (a' :: as')

/-- what the congruence theorem needs from the comparison and filter layers: related operands
    give the same answer, related filter inputs give related results -/
structure PrimsRespect (P : Prims) : Prop where
  equal : ∀ a a' b b', VRel a a' → VRel b b' → P.equal a b = P.equal a' b'
  less : ∀ a a' b b', VRel a a' → VRel b b' → P.less a b = P.less a' b'
  contains : ∀ a a' b b', VRel a a' → VRel b b' → P.contains a b = P.contains a' b'
  /-- the operands of `case`/`when` are results of `Evaluate` (unwrapped) -/
  equalFn : ∀ a a' b b', Unw a → Unw a' → Unw b → Unw b' → RepEq a a' → RepEq b b' → P.equalFn a b = P.equalFn a' b'
  /-- receiver and arguments reach a filter unwrapped -/
  applyFilter : ∀ name r r' as as', Unw r → Unw r' → RepEq r r' →
    All2 (fun a a' => Unw a ∧ Unw a' ∧ RepEq a a') as as' →
    RRel VRel (P.applyFilter name r as) (P.applyFilter name r' as')

theorem liftL_rel {r r' : LRes} (h : LRel r r') : RRel VRel (liftL r) (liftL r') := by
  cases r <;> cases r' <;> simp only [LRel] at h
  · exact h.vrel
  · exact h

theorem RRel.boolOk {r r' : Res Cause Bool} (h : r = r') (f : Bool → Bool) :
    RRel VRel (r.bind fun b => .ok (.bool (f b))) (r'.bind fun b => .ok (.bool (f b))) := by
  subst h
  cases r <;> simp [RRel, Res.bind, VRel.refl]

theorem forall2_unwrap {as as' : List GoVal} (h : All2 VRel as as') :
    All2 (fun a a' => Unw a ∧ Unw a' ∧ RepEq a a') (as.map GoVal.unwrap) (as'.map GoVal.unwrap) := by
  induction h with
  | nil => exact .nil
  | cons h _ ih => exact .cons ⟨Unw.unwrap _, Unw.unwrap _, h⟩ ih

mutual
theorem eval_rel (P : Prims) (hP : PrimsRespect P) {env env' : Env} (he : EnvRel env env') :
    ∀ e : Expr, RRel VRel (eval P env e) (eval P env' e)
  | .lit v => by simp [eval, RRel, VRel.refl]
  | .var x => by
    simp only [eval, RRel]
    exact (he x).1.toLiquid
  | .prop e name => by
    simp only [eval, Res.bind_eq]
    exact RRel.bind (eval_rel P hP he e) (fun v v' hv => liftL_rel (propertyValue_rel hv name))
  | .index e i => by
    simp only [eval, Res.bind_eq]
    exact RRel.bind (eval_rel P hP he e) (fun v v' hv =>
      RRel.bind (eval_rel P hP he i) (fun iv iv' hi => liftL_rel (indexValue_rel hv hi)))
  | .range a b => by
    simp only [eval, Res.bind_eq]
    refine RRel.bind (eval_rel P hP he a) (fun va va' ha => ?_)
    rw [intOf_rel ha]
    cases va'.intOf with
    | none => simp [RRel]
    | some x =>
      simp only
      refine RRel.bind (eval_rel P hP he b) (fun vb vb' hb => ?_)
      rw [intOf_rel hb]
      cases vb'.intOf <;> simp [RRel, VRel.refl]
  | .rel op a b => by
    simp only [eval, Res.bind_eq]
    refine RRel.bind (eval_rel P hP he a) (fun va va' ha => ?_)
    refine RRel.bind (eval_rel P hP he b) (fun vb vb' hb => ?_)
    have e1 := hP.equal va va' vb vb' ha hb
    have l1 := hP.less va va' vb vb' ha hb
    have l2 := hP.less vb vb' va va' hb ha
    have c1 := hP.contains va va' vb vb' ha hb
    cases op <;> simp only [e1, l1, l2, c1] <;> exact RRel.of_eq VRel.refl rfl
  | .and_ a b => by
    simp only [eval, Res.bind_eq]
    refine RRel.bind (eval_rel P hP he a) (fun va va' ha => ?_)
    rw [test_rel ha]
    split
    · refine RRel.bind (eval_rel P hP he b) (fun vb vb' hb => ?_)
      rw [test_rel hb]
      simp [RRel, VRel.refl]
    · simp [RRel, VRel.refl]
  | .or_ a b => by
    simp only [eval, Res.bind_eq]
    refine RRel.bind (eval_rel P hP he a) (fun va va' ha => ?_)
    rw [test_rel ha]
    split
    · simp [RRel, VRel.refl]
    · refine RRel.bind (eval_rel P hP he b) (fun vb vb' hb => ?_)
      rw [test_rel hb]
      simp [RRel, VRel.refl]
  | .filter e name args => by
    simp only [eval]
    split
    · simp [RRel]
    · simp only [Res.bind_eq]
      refine RRel.bind (eval_rel P hP he e) (fun r r' hr => ?_)
      refine RRel.bind (evalList_rel P hP he args) (fun as as' has => ?_)
      exact hP.applyFilter name _ _ _ _ (Unw.unwrap r) (Unw.unwrap r') hr (forall2_unwrap has)
theorem evalList_rel (P : Prims) (hP : PrimsRespect P) {env env' : Env} (he : EnvRel env env') :
    ∀ es : List Expr, RRel (All2 VRel) (evalList P env es) (evalList P env' es)
  | [] => by simp only [evalList, RRel]; exact .nil
  | e :: es => by
    simp only [evalList, Res.bind_eq]
    refine RRel.bind (eval_rel P hP he e) (fun v v' hv => ?_)
    refine RRel.bind (evalList_rel P hP he es) (fun vs vs' hvs => ?_)
    exact All2.cons hv hvs
end

/-- related values that are both unwrapped -/
def URel (a b : GoVal) : Prop := Unw a ∧ Unw b ∧ RepEq a b

theorem URel.refl_unw {a : GoVal} (h : Unw a) : URel a a := ⟨h, h, RepEq.refl a⟩

/-- `Expression.Evaluate` -/
theorem evaluate_rel (P : Prims) (hP : PrimsRespect P) {env env' : Env} (he : EnvRel env env') (e : Expr) :
    RRel URel (evaluate P env e) (evaluate P env' e) := by
  unfold evaluate
  have h := eval_rel P hP he e
  cases h1 : eval P env e <;> cases h2 : eval P env' e <;> rw [h1, h2] at h <;> simp only [RRel] at h ⊢
  · exact ⟨Unw.unwrap _, Unw.unwrap _, h⟩
  · exact h
  · exact h
  · exact h
