import Proofs.F64Lemmas
import Proofs.ExprLitLemmas
import Proofs.DateFormatLemmas
import Liquid.ExprShow
/-!
# The exact decimal expansion of a `float64` reads back (helper lemmas for `Proofs/C08.lean`)

* the denominator of a rounded value is a power of two (`roundF64_den`);
* `n / 2^j = (n · 10^k / 2^j) / 10^k` for `j ≤ k`, the division being exact (`dyadic_decimal`): the digits
  `showFloat` writes (`max 1 j` fractional ones, zero padded) denote the value exactly
  (`decimalOfDigits_showFloat`);
* so the scanner reads the printed text of a value of `roundF64`'s image back as that value
  (`floatLitValue_showFloat_of_lit`).
-/

set_option linter.unusedSimpArgs false

/-! ## digit strings -/

theorem foldl_dec_append (a b : Bytes) (acc : Nat) :
    (a ++ b).foldl (fun x d => x * 10 + (d.toNat - 48)) acc =
      b.foldl (fun x d => x * 10 + (d.toNat - 48)) (a.foldl (fun x d => x * 10 + (d.toNat - 48)) acc) :=
  List.foldl_append

theorem foldl_dec_shift (b : Bytes) : ∀ (acc : Nat),
    b.foldl (fun x d => x * 10 + (d.toNat - 48)) acc = acc * 10 ^ b.length + decVal b := by
  unfold decVal
  induction b with
  | nil => intro acc; simp
  | cons d t ih =>
    intro acc
    simp only [List.foldl_cons, List.length_cons]
    rw [ih (acc * 10 + (d.toNat - 48)), ih (0 * 10 + (d.toNat - 48))]
    simp only [Nat.zero_mul, Nat.zero_add, Nat.pow_succ, Nat.add_mul]
    rw [Nat.mul_assoc, Nat.mul_comm 10 (10 ^ t.length)]
    omega

theorem decVal_append (a b : Bytes) : decVal (a ++ b) = decVal a * 10 ^ b.length + decVal b := by
  have h := foldl_dec_append a b 0
  rw [foldl_dec_shift b] at h
  exact h

theorem natDec_length_le : ∀ (k n : Nat), n < 10 ^ (k + 1) → (natDec n).length ≤ k + 1 := by
  intro k
  induction k with
  | zero =>
    intro n h
    rw [DateF.natDec_lt10 n (by simpa using h)]
    simp
  | succ k ih =>
    intro n h
    by_cases h10 : n < 10
    · rw [DateF.natDec_lt10 n h10]; simp
    · rw [DateF.natDec_step n (by omega)]
      have : n / 10 < 10 ^ (k + 1) := by
        rw [Nat.div_lt_iff_lt_mul (by decide)]
        rwa [Nat.pow_succ] at h
      have := ih (n / 10) this
      simp only [List.length_append, List.length_cons, List.length_nil]
      omega

/-- the `k` fractional digits (`k ≥ 1`): zero padded to length `k`, value `f` -/
theorem frac_digits (k f : Nat) (hk : 1 ≤ k) (hf : f < 10 ^ k) :
    (zeros (k - (natDec f).length) ++ natDec f).length = k ∧
    decVal (zeros (k - (natDec f).length) ++ natDec f) = f := by
  have hl : (natDec f).length ≤ k := by
    obtain ⟨k', rfl⟩ : ∃ k', k = k' + 1 := ⟨k - 1, by omega⟩
    exact natDec_length_le k' f hf
  constructor
  · simp only [List.length_append, zeros, List.length_replicate]; omega
  · rw [decVal_zeros_append, decVal_natDec]

/-! ## the denominator of a rounded value is a power of two -/

theorem dvd_two_pow : ∀ (k d : Nat), d ∣ 2 ^ k → ∃ j, d = 2 ^ j := by
  intro k
  induction k with
  | zero => intro d h; exact ⟨0, by simpa using h⟩
  | succ k ih =>
    intro d h
    rw [Nat.pow_succ] at h
    by_cases h2 : 2 ∣ d
    · obtain ⟨c, rfl⟩ := h2
      rw [Nat.mul_comm (2 ^ k) 2] at h
      obtain ⟨j, rfl⟩ := ih c (Nat.dvd_of_mul_dvd_mul_left (by decide) h)
      exact ⟨j + 1, by rw [Nat.pow_succ, Nat.mul_comm]⟩
    · have hg : Nat.gcd d 2 = 1 := by
        have h1 : Nat.gcd d 2 ∣ 2 := Nat.gcd_dvd_right d 2
        have h3 : Nat.gcd d 2 ∣ d := Nat.gcd_dvd_left d 2
        have h4 := Nat.le_of_dvd (by decide) h1
        have h5 : Nat.gcd d 2 ≠ 0 := by
          intro h0; rw [h0] at h1; simp at h1
        have h6 : Nat.gcd d 2 ≠ 2 := by
          intro h0; rw [h0] at h3; exact h2 h3
        omega
      exact ih d (Nat.Coprime.dvd_of_dvd_mul_right hg h)

theorem den_int_mul_pow2 (m e : Int) : ∃ j, ((m : Rat) * pow2 e).den = 2 ^ j := by
  unfold pow2
  split
  · refine ⟨0, ?_⟩
    rw [← Rat.intCast_natCast, ← Rat.intCast_mul]
    rfl
  · have e1 : (m : Rat) * (1 / ((2 ^ (-e).toNat : Nat) : Rat)) = mkRat m (2 ^ (-e).toNat) := by
      rw [Rat.mkRat_eq_div, Rat.div_def, Rat.div_def, Rat.one_mul]
    rw [e1, Rat.den_mkRat]
    have hne : 2 ^ (-e).toNat ≠ 0 := Nat.ne_of_gt (Nat.pow_pos (by decide))
    simp only [hne, if_false]
    exact dvd_two_pow _ _ (Nat.div_dvd_of_dvd (Nat.gcd_dvd_left _ _))

/-- a value of `float64`, as the scanner produces it (sign apart): not negative, a dyadic rational, a fixed point
    of the rounding -/
structure IsF64Val (r : Rat) : Prop where
  nonneg : 0 ≤ r
  den : ∃ j, r.den = 2 ^ j
  fix : roundF64 r = some r

theorem roundF64_of_zero : roundF64 0 = some 0 := by
  unfold roundF64 roundFloat; rfl

theorem isF64Val_zero : IsF64Val 0 := ⟨Rat.le_refl, ⟨0, rfl⟩, roundF64_of_zero⟩

/-- **rounding is a projection onto the dyadic rationals of the format** -/
theorem isF64Val_of_round (q r : Rat) (hq : 0 ≤ q) (h : roundF64 q = some r) : IsF64Val r := by
  rcases Rat.le_iff_lt_or_eq.1 hq with hpos | h0
  · rcases roundFloat_rep 53 (by decide) (-1074) 1024 q r hpos h with rfl | ⟨m, e, rep⟩
    · exact isF64Val_zero
    · refine ⟨?_, ?_, roundFloat_of_rep 53 (by decide) (-1074) 1024 r m e rep⟩
      · rw [rep.eq]
        exact Rat.mul_nonneg (Rat.intCast_nonneg.2 (Int.le_of_lt rep.mpos)) (Rat.le_of_lt (pow2_pos e))
      · rw [rep.eq]; exact den_int_mul_pow2 m e
  · subst h0
    rw [roundF64_of_zero] at h
    cases h
    exact isF64Val_zero

/-! ## the exact decimal expansion of a dyadic rational -/

theorem rat_nonneg_eq {a : Rat} (h : 0 ≤ a) : a * ((a.den : Nat) : Rat) = ((a.num.natAbs : Nat) : Rat) := by
  have hn : 0 ≤ a.num := Rat.num_nonneg.2 h
  have h1 : ((a.num.natAbs : Nat) : Rat) = (a.num : Rat) := by
    rw [← Rat.intCast_natCast]; congr 1; omega
  have hd : ((a.den : Nat) : Rat) ≠ 0 := by
    simp [Rat.natCast_eq_zero_iff, a.den_nz]
  rw [h1]
  have := @Rat.div_mul_cancel (a.num : Rat) _ hd
  rwa [← rat_eq_num_div_den a] at this

/-- `N / 2^j` has the exact decimal expansion `(N · 10^k / 2^j) / 10^k` when `j ≤ k` -/
theorem dyadic_decimal_nat (N j k : Nat) (hjk : j ≤ k) : N * 10 ^ k / 2 ^ j * 2 ^ j = N * 10 ^ k := by
  apply Nat.div_mul_cancel
  have h10 : 10 ^ k = 2 ^ j * (2 ^ (k - j) * 5 ^ k) := by
    rw [← Nat.mul_assoc, ← Nat.pow_add, show j + (k - j) = k by omega, ← Nat.mul_pow]
  rw [h10, ← Nat.mul_assoc, Nat.mul_comm N, Nat.mul_assoc]
  exact Nat.dvd_mul_right _ _

theorem dyadic_decimal (r : Rat) (hr : 0 ≤ r) (j k : Nat) (hd : r.den = 2 ^ j) (hjk : j ≤ k) :
    ((r.num.natAbs * 10 ^ k / r.den : Nat) : Rat) / ((10 ^ k : Nat) : Rat) = r := by
  have h1 := rat_nonneg_eq hr
  have h2 := dyadic_decimal_nat r.num.natAbs j k hjk
  rw [← hd] at h2
  have h3 := congrArg (fun n : Nat => (n : Rat)) h2
  simp only [Rat.natCast_mul] at h3
  rw [← h1] at h3
  have hD : ((r.den : Nat) : Rat) ≠ 0 := by simp [Rat.natCast_eq_zero_iff, r.den_nz]
  have hT : ((10 ^ k : Nat) : Rat) ≠ 0 := by
    simp only [ne_eq, Rat.natCast_eq_zero_iff]
    exact Nat.ne_of_gt (Nat.pow_pos (by decide))
  generalize ((r.num.natAbs * 10 ^ k / r.den : Nat) : Rat) = n at *
  generalize ((r.den : Nat) : Rat) = D at *
  generalize ((10 ^ k : Nat) : Rat) = T at *
  grind

/-! ## the scanner on the printed text -/

theorem decimalOfDigits_eq (ds fs : Bytes) :
    decimalOfDigits ds fs = ((decVal (ds ++ fs) : Nat) : Rat) / ((10 ^ fs.length : Nat) : Rat) := rfl

theorem showFloat_nonneg (r : Rat) (hr : 0 ≤ r) :
    showFloat r =
      natDec (r.num.natAbs * 10 ^ (max 1 (Nat.log2 r.den)) / r.den / 10 ^ (max 1 (Nat.log2 r.den))) ++ 46 ::
        (zeros (max 1 (Nat.log2 r.den) -
            (natDec (r.num.natAbs * 10 ^ (max 1 (Nat.log2 r.den)) / r.den % 10 ^ (max 1 (Nat.log2 r.den)))).length) ++
          natDec (r.num.natAbs * 10 ^ (max 1 (Nat.log2 r.den)) / r.den % 10 ^ (max 1 (Nat.log2 r.den)))) := by
  have hneg : ¬ r < 0 := Rat.not_lt.2 hr
  unfold showFloat
  simp only [hneg, if_false, List.nil_append]

theorem showFloat_neg (r : Rat) (hr : 0 < r) : showFloat (-r) = 45 :: showFloat r := by
  have h1 : -r < 0 := by
    have := Rat.neg_lt_neg hr
    simpa using this
  have h2 : ¬ r < 0 := Rat.not_lt.2 (Rat.le_of_lt hr)
  unfold showFloat
  simp only [h1, h2, if_true, if_false, Rat.neg_num, Rat.neg_den, Int.natAbs_neg, List.nil_append, List.cons_append]

/-- the digits `showFloat` writes for a non-negative dyadic rational denote it -/
theorem decimalOfDigits_showFloat (r : Rat) (hr : 0 ≤ r) (j : Nat) (hd : r.den = 2 ^ j) :
    ∃ ds fs, showFloat r = ds ++ 46 :: fs ∧ ds ≠ [] ∧ ds.all isDigit = true ∧ decimalOfDigits ds fs = r := by
  have hk : 1 ≤ max 1 (Nat.log2 r.den) := Nat.le_max_left _ _
  have hjk : j ≤ max 1 (Nat.log2 r.den) := by rw [hd, Nat.log2_two_pow]; exact Nat.le_max_right _ _
  have hval := dyadic_decimal r hr j _ hd hjk
  rw [showFloat_nonneg r hr]
  generalize max 1 (Nat.log2 r.den) = k at hk hjk hval ⊢
  generalize hn : r.num.natAbs * 10 ^ k / r.den = n at hval ⊢
  have hT : 0 < 10 ^ k := Nat.pow_pos (by decide)
  obtain ⟨hlen, hfv⟩ := frac_digits k (n % 10 ^ k) hk (Nat.mod_lt _ hT)
  refine ⟨natDec (n / 10 ^ k), zeros (k - (natDec (n % 10 ^ k)).length) ++ natDec (n % 10 ^ k), rfl,
    natDec_ne_nil _, natDec_all_digits _, ?_⟩
  rw [decimalOfDigits_eq, decVal_append, hlen, hfv, decVal_natDec, Nat.div_add_mod' n (10 ^ k)]
  exact hval

/-- **the printed text of a `float64` value reads back** (non-negative values) -/
theorem floatLitValue_showFloat_nonneg (r : Rat) (h : IsF64Val r) : floatLitValue (showFloat r) = some (some r) := by
  obtain ⟨j, hj⟩ := h.den
  obtain ⟨ds, fs, hs, hne, hdig, hv⟩ := decimalOfDigits_showFloat r h.nonneg j hj
  rw [hs, floatLitValue_pos ds fs hne hdig]
  unfold floatOfDigits
  rw [hv, h.fix]

/-- … and negative ones (`-0` is not a value of the model) -/
theorem floatLitValue_showFloat_neg (r : Rat) (h : IsF64Val r) (hr : r ≠ 0) :
    floatLitValue (showFloat (-r)) = some (some (-r)) := by
  have hpos : 0 < r := Rat.lt_of_le_of_ne h.nonneg (Ne.symm hr)
  obtain ⟨j, hj⟩ := h.den
  obtain ⟨ds, fs, hs, hne, hdig, hv⟩ := decimalOfDigits_showFloat r h.nonneg j hj
  rw [showFloat_neg r hpos, hs, floatLitValue_neg ds fs hdig]
  unfold floatOfDigits
  rw [hv, h.fix]
  have : (r == 0) = false := by simpa using hr
  simp only [this, Bool.false_eq_true, if_false]

theorem decimalOfDigits_nonneg (ds fs : Bytes) : 0 ≤ decimalOfDigits ds fs := by
  rw [decimalOfDigits_eq, Rat.div_def]
  apply Rat.mul_nonneg Rat.natCast_nonneg
  apply Rat.le_of_lt
  rw [Rat.inv_pos]
  exact Rat.natCast_pos.2 (Nat.pow_pos (by decide))

/-- what `floatLitValue` returns: `r` or `-r` for a value `r` of the format, never `-0` -/
theorem floatLitValue_image (tok : Bytes) (q : Rat) (h : floatLitValue tok = some (some q)) :
    ∃ r, IsF64Val r ∧ (q = r ∨ (q = -r ∧ r ≠ 0)) := by
  unfold floatLitValue at h
  split at h
  rename_i neg ds _
  simp only at h
  split at h
  · cases h
  · rename_i r hr
    have hv := isF64Val_of_round _ r (decimalOfDigits_nonneg _ _) hr
    refine ⟨r, hv, ?_⟩
    cases neg with
    | false =>
      simp only [Bool.false_and, Bool.false_eq_true, if_false, Option.some.injEq] at h
      exact Or.inl h.symm
    | true =>
      simp only [Bool.true_and, if_true] at h
      split at h
      · cases h
      · rename_i h0
        simp only [Option.some.injEq] at h
        exact Or.inr ⟨h.symm, by simpa using h0⟩

/-- **every value of a float literal token has a spelling that reads back** -/
theorem floatLitValue_showFloat_of_lit (tok : Bytes) (q : Rat) (h : floatLitValue tok = some (some q)) :
    floatLitValue (showFloat q) = some (some q) := by
  obtain ⟨r, hv, h1 | ⟨h1, hr⟩⟩ := floatLitValue_image tok q h
  · rw [h1]; exact floatLitValue_showFloat_nonneg r hv
  · rw [h1]; exact floatLitValue_showFloat_neg r hv hr

/-! ## an instance for the examples of `Proofs/C08.lean` -/

/-- the double nearest to `0.1` is `3602879701896397 / 2^55` -/
def tenthF64 : Rat := 3602879701896397 / 36028797018963968
/-- its exact expansion, 55 fractional digits: `0.1000000000000000055511151231257827021181583404541015625` -/
def tenthText : Bytes := [48, 46, 49, 48, 48, 48, 48, 48, 48, 48, 48, 48, 48, 48, 48, 48, 48, 48, 48, 53, 53, 53, 49, 49, 49, 53,
  49, 50, 51, 49, 50, 53, 55, 56, 50, 55, 48, 50, 49, 49, 56, 49, 53, 56, 51, 52, 48, 52, 53, 52, 49, 48, 49, 53, 54, 50, 53]

/-- the source `0.1` -/
theorem parse_tenth : parseExprSource [48, 46, 49] = .ok (.lit (.flt .f64 tenthF64)) := by
  apply parseExprSource_lit .rFloat [48, 46, 49] _ (Lexeme.float [] [48] [49] (Or.inl rfl) (by simp) rfl (by simp) rfl)
  simp only [mkTok, show floatLitValue [48, 46, 49] = some (some tenthF64) from by decide +kernel]
