import Proofs.E2EParse
/-!
# C06, end to end — "otherwise parsing returns an error and nothing is rendered", on source bytes

`toks = scan cfg.delims src line` is the token list of the source. The theorems lift
`parse_ok_iff_derives` / `parse_result_cases` / `error_at_first_bad_token` (Proofs/C06.lean) through
`compileSource` and `run`, for every value layer, file system, fuel and environment.

Model boundary: `compileSource` answers `unmodelled` when some object token has arguments outside
the expression-lexer model (a negative-zero literal), before the block parser is consulted; the
statements assume `firstUnmodelledObj toks = none` where the parser's answer matters.
-/

/-- **C06, end to end (a parse error is the result of the whole pipeline, and nothing is rendered).**
    If the block parser rejects the tokens of the source, `run` returns that error — for every value
    layer, file system, fuel and environment — and, being an error, no output. -/
theorem run_parse_error (P : Prims) (O : OutPrims) (cfg : Cfg) (fs : FS) (fuel : Nat) (src : Bytes) (line : Nat) (env : Env)
    (pe : PErr) (hU : firstUnmodelledObj (scan cfg.delims src line) = none)
    (h : parseTokens stdGrammar objChk (scan cfg.delims src line) = .err pe) :
    run P O cfg fs fuel src line env = .err (parseErrOf pe) := by
  rw [run_eq_runTokens]
  unfold runTokens
  rw [compileTokens_of_parse_err hU h]
  rfl

/-- **C06, end to end (accepted sources).** If the nesting grammar derives a tree from the tokens of
    the source, the result of the pipeline is the result of compiling and rendering that tree. -/
theorem run_of_derives (P : Prims) (O : OutPrims) (cfg : Cfg) (fs : FS) (fuel : Nat) (src : Bytes) (line : Nat) (env : Env)
    (ast : List AST) (hU : firstUnmodelledObj (scan cfg.delims src line) = none)
    (h : Derives stdGrammar objChk (scan cfg.delims src line) ast) :
    run P O cfg fs fuel src line env = runCompiled P O cfg fs fuel (compileList ast) env := by
  rw [run_eq_runTokens]
  unfold runTokens
  rw [compileTokens_of_parse hU ((parse_ok_iff_derives_std objChk _ ast).mpr h)]

/-- **C06, end to end, main statement.** The token list of a source is NOT derivable in the nesting
    grammar (no tree: badly nested or unclosed block tags, or an object that is not an expression)
    exactly when parsing returns an error; that error is one of `notInside` / `unterminated` /
    `syntax` (object), it is the result of the whole pipeline whatever the value layer, file system
    and environment — nothing is rendered —, and it is located at a tag or object token `t` of the
    source: its line is the start line plus the number of newlines in the source text before `t`. -/
theorem run_rejects_iff_not_derivable (cfg : Cfg) (src : Bytes) (line : Nat)
    (hU : firstUnmodelledObj (scan cfg.delims src line) = none) :
    (¬ ∃ ast, Derives stdGrammar objChk (scan cfg.delims src line) ast) ↔
    ∃ pe, parseTokens stdGrammar objChk (scan cfg.delims src line) = .err pe ∧
      (pe.kind = .notInside ∨ pe.kind = .unterminated ∨ ∃ c, pe.kind = .objSyntax c) ∧
      compileSource cfg.delims src line = .err (parseErrOf pe) ∧
      (∀ P O fs fuel env, run P O cfg fs fuel src line env = .err (parseErrOf pe)) ∧
      ∃ pre t rest, scan cfg.delims src line = pre ++ t :: rest ∧ (t.ty = .tag ∨ t.ty = .obj) ∧
        pe.line = line + countNL (srcs pre) ∧ src = srcs pre ++ (t.source ++ srcs rest) := by
  constructor
  · intro hnd
    have hcases := parse_result_cases stdGrammar objChk (scan cfg.delims src line)
    have hpe : ∃ pe, parseTokens stdGrammar objChk (scan cfg.delims src line) = .err pe ∧
        (pe.kind = .notInside ∨ pe.kind = .unterminated ∨ ∃ c, pe.kind = .objSyntax c) := by
      rcases hcases with ⟨ast, h⟩ | ⟨c, l, h⟩ | ⟨l, h⟩ | ⟨l, h⟩
      · exact absurd ⟨ast, derives_of_parse h⟩ hnd
      · exact ⟨_, h, .inr (.inr ⟨c, rfl⟩)⟩
      · exact ⟨_, h, .inl rfl⟩
      · exact ⟨_, h, .inr (.inl rfl)⟩
    obtain ⟨pe, hp, hk⟩ := hpe
    refine ⟨pe, hp, hk, ?_, fun P O fs fuel env => run_parse_error P O cfg fs fuel src line env pe hU hp, ?_⟩
    · rw [compileSource_eq_compileTokens, compileTokens_of_parse_err hU hp]
    · obtain ⟨pre, t, rest, h1, h2, h3⟩ := parse_error_token stdGrammar objChk _ pe hp
      have ht : t.isTrim = false := by rcases h3 with h3 | h3 <;> simp [Token.isTrim, h3]
      obtain ⟨h4, h5⟩ := scan_split_located cfg.delims src line pre rest t h1 ht
      exact ⟨pre, t, rest, h1, h3, by rw [h2, h4], h5⟩
  · rintro ⟨pe, hp, _⟩ ⟨ast, hd⟩
    rw [(parse_ok_iff_derives_std objChk _ ast).mpr hd] at hp
    cases hp

/-- **C06, end to end (a nesting error means the tags are not well nested).** If compiling a source
    fails with `notInside` or `unterminated`, its token list is not well nested — these two messages
    are never produced by the compile phase. No side condition. -/
theorem nesting_error_implies_not_well_nested (delims : List Bytes) (src : Bytes) (line : Nat) (e : SErr)
    (h : compileSource delims src line = .err e) (hm : e.msg = .notInside ∨ e.msg = .unterminated) :
    ¬ WellNested stdGrammar (scan delims src line) := by
  intro hw
  have hall := (wellNested_iff_acceptAll stdGrammar_OK _).mp hw
  rw [compileSource_eq_compileTokens] at h
  unfold compileTokens at h
  split at h
  · cases h
  · rcases parseTokens_sim (g := stdGrammar) (chk := objChk) (scan delims src line) with hs | ⟨c, l, hs⟩
    · rw [hs] at h
      cases hp : parseTokens stdGrammar acceptAll (scan delims src line) with
      | ok ast =>
        rw [hp] at h
        have := compileList_err_not_nest (ast := ast) (e := e) (by simpa [liftPErr, bind, Res.bind] using h)
        rcases hm with hm | hm
        · exact this.1 hm
        · exact this.2 hm
      | err pe => rw [hp] at hall; cases hall
      | panic w => rw [hp] at hall; cases hall
      | unmodelled w => rw [hp] at hall; cases hall
    · rw [hs] at h
      simp only [liftPErr, bind, Res.bind, Res.err.injEq] at h
      subst h
      rcases hm with hm | hm <;> cases hm

/-- **C06, end to end (nesting alone).** For a source all of whose object tokens hold expressions:
    the token list is NOT well nested exactly when compilation fails with `notInside` or
    `unterminated`; then `run` returns that error whatever the value layer, file system and
    environment, and nothing is rendered. -/
theorem not_well_nested_iff_nesting_error (cfg : Cfg) (src : Bytes) (line : Nat)
    (hobj : ∀ t ∈ scan cfg.delims src line, t.ty = .obj → objChk t.args = none) :
    ¬ WellNested stdGrammar (scan cfg.delims src line) ↔
    ∃ l, (compileSource cfg.delims src line = .err ⟨l, true, .none, .notInside⟩ ∧
            ∀ P O fs fuel env, run P O cfg fs fuel src line env = .err ⟨l, true, .none, .notInside⟩) ∨
         (compileSource cfg.delims src line = .err ⟨l, true, .none, .unterminated⟩ ∧
            ∀ P O fs fuel env, run P O cfg fs fuel src line env = .err ⟨l, true, .none, .unterminated⟩) := by
  have hU := firstUnmodelledObj_none_of_objChk _ hobj
  constructor
  · intro hw
    have hall : (parseTokens stdGrammar acceptAll (scan cfg.delims src line)).isOk ≠ true :=
      fun h => hw ((wellNested_iff_acceptAll stdGrammar_OK _).mpr h)
    have heq := parseTokens_all_ok (g := stdGrammar) (chk := objChk) _ hobj
    rcases parse_result_cases stdGrammar acceptAll (scan cfg.delims src line) with ⟨ast, h⟩ | ⟨c, l, h⟩ | ⟨l, h⟩ | ⟨l, h⟩
    · rw [h] at hall; exact absurd rfl hall
    · exfalso
      rcases error_at_first_bad_token stdGrammar acceptAll _ _ h with hk | ⟨_, t, _, _, _, _, h3⟩
      · cases hk
      · rcases h3 with ⟨_, c', hc', _⟩ | ⟨_, hk⟩
        · cases hc'
        · cases hk
    · rw [← heq] at h
      refine ⟨l, .inl ⟨?_, fun P O fs fuel env => run_parse_error P O cfg fs fuel src line env _ hU h⟩⟩
      rw [compileSource_eq_compileTokens, compileTokens_of_parse_err hU h]; rfl
    · rw [← heq] at h
      refine ⟨l, .inr ⟨?_, fun P O fs fuel env => run_parse_error P O cfg fs fuel src line env _ hU h⟩⟩
      rw [compileSource_eq_compileTokens, compileTokens_of_parse_err hU h]; rfl
  · rintro ⟨l, ⟨h, _⟩ | ⟨h, _⟩⟩
    · exact nesting_error_implies_not_well_nested cfg.delims src line _ h (.inl rfl)
    · exact nesting_error_implies_not_well_nested cfg.delims src line _ h (.inr rfl)

/-! Non-vacuity on concrete bytes.
    `a\n{% if x %}\n{% endfor %}` — `endfor` (line 3) directly inside `if`: notInside at line 3;
    `{% if x %}\nb` — unterminated at line 1 (start line 1);
    `{% if x %}a{% endif %}` is well nested. -/
example : ∀ P O fs fuel env, run P O {} fs fuel exSrcBad 1 env = .err ⟨3, true, .none, .notInside⟩ :=
  fun P O fs fuel env => run_parse_error P O {} fs fuel exSrcBad 1 env ⟨.notInside, 3⟩ (by decide) exSrcBad_parse
/-- the left-hand side of the main statement holds of `exSrcBad`, so the right-hand side does -/
example : ∃ pe, parseTokens stdGrammar objChk (scan ({} : Cfg).delims exSrcBad 1) = .err pe ∧
      (pe.kind = .notInside ∨ pe.kind = .unterminated ∨ ∃ c, pe.kind = .objSyntax c) ∧
      compileSource ({} : Cfg).delims exSrcBad 1 = .err (parseErrOf pe) ∧
      (∀ P O fs fuel env, run P O {} fs fuel exSrcBad 1 env = .err (parseErrOf pe)) ∧
      ∃ pre t rest, scan ({} : Cfg).delims exSrcBad 1 = pre ++ t :: rest ∧ (t.ty = .tag ∨ t.ty = .obj) ∧
        pe.line = 1 + countNL (srcs pre) ∧ exSrcBad = srcs pre ++ (t.source ++ srcs rest) :=
  (run_rejects_iff_not_derivable {} exSrcBad 1 (by decide)).mp (by
    rintro ⟨ast, hd⟩
    have := (parse_ok_iff_derives_std objChk _ ast).mpr hd
    rw [exSrcBad_parse] at this
    cases this)
example : ¬ WellNested stdGrammar (scan ({} : Cfg).delims exSrcOpen 1) :=
  (not_well_nested_iff_nesting_error {} exSrcOpen 1 (by decide)).mpr
    ⟨1, .inr ⟨by rfl, fun P O fs fuel env => run_parse_error P O {} fs fuel exSrcOpen 1 env ⟨.unterminated, 1⟩ (by decide) exSrcOpen_parse⟩⟩
