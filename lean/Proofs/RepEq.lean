import Liquid.Render
import Proofs.ToLiquidLemmas
/-!
# Representation equivalence of Go values (helper definitions and lemmas for C18)

`GoVal.norm` forgets the representation choices that C18 declares irrelevant, at every depth:

* with `d = true`, a drop (`.drop v`) is the value it yields — unless that value is the renderer's
  own `forloop` record (`dropRigid`), which no binding can hold; with `d = false` drops inside
  containers are kept (the standard comparison, printing and filters apply `ToLiquid` once or not
  at all there: see the counterexamples in `Proofs/C18.lean`);
* a typed slice and a fixed array are the generic slice with the same (normalised) elements;
* a typed map is the generic map with the same key type, the same keys and normalised values.

`RepEq a b` ("same Liquid value, different Go representation") is equality of normal forms, hence
an equivalence relation. Values at the top of an expression (`VRel`) are compared after
`unwrap` (`ValueOf(v).Interface()`), which resolves drops of every depth and follows pointers.
-/

open GoVal

/-- the value is a `forloop` record made by the renderer (it carries the unexported
    `cycleCounters` map): no binding can have this shape -/
def isRec (v : GoVal) : Bool := (cyclesOf v).isSome

/-- a drop around `v` is kept as it is: only the renderer's own record (whose place is recognised
    by its Go type) -/
def dropRigid (v : GoVal) : Bool := isRec v

mutual
/-- the normal form; `d`: also resolve drops nested in containers (`d = false` keeps every drop) -/
def GoVal.norm (d : Bool) : GoVal → GoVal
  | .drop v => if !d || dropRigid v then .drop v else norm d v
  | .slice _ xs => .slice .any (normList d xs)
  | .array _ xs => .slice .any (normList d xs)
  | .map kt vt kvs => if isRec (.map kt vt kvs) then .map kt vt kvs else .map kt .any (normKVs d kvs)
  | v => v
def GoVal.normList (d : Bool) : List GoVal → List GoVal
  | [] => []
  | x :: xs => norm d x :: normList d xs
def GoVal.normKVs (d : Bool) : List (GoVal × GoVal) → List (GoVal × GoVal)
  | [] => []
  | (k, v) :: r => (k, norm d v) :: normKVs d r
end

variable {d : Bool}

/-- same Liquid value, possibly different Go representation -/
def RepEq (d : Bool) (a b : GoVal) : Prop := a.norm d = b.norm d

theorem RepEq.refl (a : GoVal) : RepEq d a a := rfl
theorem RepEq.symm {a b : GoVal} (h : RepEq d a b) : RepEq d b a := Eq.symm h
theorem RepEq.trans {a b c : GoVal} (h : RepEq d a b) (h' : RepEq d b c) : RepEq d a c := Eq.trans h h'

theorem normList_eq_map (xs : List GoVal) : normList d xs = xs.map (norm d) := by
  induction xs with
  | nil => rfl
  | cons x xs ih => simp [normList, ih]

theorem normKVs_eq_map (kvs : List (GoVal × GoVal)) : normKVs d kvs = kvs.map (fun kv => (kv.1, norm d kv.2)) := by
  induction kvs with
  | nil => rfl
  | cons kv kvs ih => obtain ⟨k, v⟩ := kv; simp [normKVs, ih]

/-! ## The `forloop` record -/

theorem isRec_iff (v : GoVal) : isRec v = true ↔
    ∃ cyc rest, v = .map .str .any ((.str dotCycles, .map .str .priv cyc) :: rest) := by
  unfold isRec cyclesOf
  constructor
  · intro h
    split at h
    · split at h
      · split at h
        · next heq => simp at heq; subst heq; exact ⟨_, _, rfl⟩
        · simp at h
      · simp at h
    · simp at h
  · rintro ⟨cyc, rest, rfl⟩
    simp

theorem norm_of_isRec {v : GoVal} (h : isRec v = true) : v.norm d = v := by
  obtain ⟨cyc, rest, rfl⟩ := (isRec_iff v).mp h
  rw [norm]; simp [h]

theorem isRec_map_any {kt vt kvs} (h : isRec (.map kt vt kvs) = true) : vt = .any := by
  obtain ⟨cyc, rest, h⟩ := (isRec_iff _).mp h
  injection h with _ h2 _

theorem isRec_not_map_priv {kt kvs} : isRec (.map kt .priv kvs) = false := by
  cases h : isRec (.map kt .priv kvs) with
  | false => rfl
  | true => exact absurd (isRec_map_any h) (by simp)

/-- a normal form is never the unexported counter map -/
theorem norm_ne_priv : ∀ (v : GoVal) (k : Ty) (c : List (GoVal × GoVal)), v.norm d ≠ .map k .priv c
  | .drop v, k, c => by
    rw [norm]
    split
    · simp
    · exact norm_ne_priv v k c
  | .slice _ _, _, _ => by simp [norm]
  | .array _ _, _, _ => by simp [norm]
  | .map kt vt kvs, k, c => by
    rw [norm]
    split
    · next h => intro heq; injection heq with _ h2 _; exact absurd (isRec_map_any h) (by simp [h2])
    · simp
  | .nil, _, _ | .bool _, _, _ | .int _ _, _, _ | .flt _ _, _, _ | .str _, _, _ | .bytes _, _, _
  | .mapSlice _, _, _ | .keyedMap _, _, _ | .range _ _, _, _ | .ptr _, _, _ | .nilPtr, _, _
  | .struct _, _, _ | .time _, _, _ => by simp [norm]

/-- the only value with the normal form of a `forloop` record is the record itself -/
theorem norm_eq_rec {r : GoVal} (hr : isRec r = true) : ∀ w : GoVal, w.norm d = r → w = r
  | .drop u, h => by
    obtain ⟨cyc, rest, rfl⟩ := (isRec_iff r).mp hr
    rw [norm] at h
    split at h
    · simp at h
    · have := norm_eq_rec hr u h
      subst this
      next hd => simp [dropRigid, hr] at hd
  | .slice _ _, h => by obtain ⟨cyc, rest, rfl⟩ := (isRec_iff r).mp hr; simp [norm] at h
  | .array _ _, h => by obtain ⟨cyc, rest, rfl⟩ := (isRec_iff r).mp hr; simp [norm] at h
  | .map kt vt kvs, h => by
    rw [norm] at h
    split at h
    · exact h
    · obtain ⟨cyc, rest, rfl⟩ := (isRec_iff r).mp hr
      injection h with h1 h2 h3
      cases kvs with
      | nil => simp [normKVs] at h3
      | cons kv kvs =>
        obtain ⟨k, v⟩ := kv
        simp only [normKVs, List.cons.injEq, Prod.mk.injEq] at h3
        exact absurd h3.1.2 (norm_ne_priv v _ _)
  | .nil, h | .bool _, h | .int _ _, h | .flt _ _, h | .str _, h | .bytes _, h
  | .mapSlice _, h | .keyedMap _, h | .range _ _, h | .ptr _, h | .nilPtr, h
  | .struct _, h | .time _, h => by simpa [norm] using h

/-- related values are both `forloop` records (and then identical) or neither is -/
theorem RepEq.rec_eq {a b : GoVal} (h : RepEq d a b) (hr : isRec a = true ∨ isRec b = true) : a = b := by
  rcases hr with hr | hr
  · exact (norm_eq_rec hr b (by rw [← h, norm_of_isRec hr])).symm
  · exact norm_eq_rec hr a (by rw [h, norm_of_isRec hr])

/-! ## `norm` is idempotent -/

theorem dropRigid_false_norm_eq {v : GoVal} : (GoVal.drop v).norm d = if !d || dropRigid v then .drop v else v.norm d := by
  rw [norm]

theorem isRec_norm_map {kt : Ty} {kvs : List (GoVal × GoVal)} : isRec (.map kt .any (normKVs d kvs)) = false := by
  cases h : isRec (.map kt .any (normKVs d kvs)) with
  | false => rfl
  | true =>
    obtain ⟨cyc, rest, h⟩ := (isRec_iff _).mp h
    injection h with _ _ h3
    cases kvs with
    | nil => simp [normKVs] at h3
    | cons kv kvs =>
      obtain ⟨k, v⟩ := kv
      simp only [normKVs, List.cons.injEq, Prod.mk.injEq] at h3
      exact absurd h3.1.2 (norm_ne_priv v _ _)

mutual
theorem norm_idem : ∀ v : GoVal, (v.norm d).norm d = v.norm d
  | .drop v => by
    rw [dropRigid_false_norm_eq]
    split
    · next h => rw [dropRigid_false_norm_eq]; simp [h]
    · exact norm_idem v
  | .slice _ xs => by simp only [norm, normList_idem xs]
  | .array _ xs => by simp only [norm, normList_idem xs]
  | .map kt vt kvs => by
    rw [norm]
    split
    · next h => rw [norm]; simp [h]
    · rw [norm]; simp only [isRec_norm_map, normKVs_idem kvs]; simp
  | .nil | .bool _ | .int _ _ | .flt _ _ | .str _ | .bytes _
  | .mapSlice _ | .keyedMap _ | .range _ _ | .ptr _ | .nilPtr
  | .struct _ | .time _ => by simp [norm]
theorem normList_idem : ∀ xs : List GoVal, normList d (normList d xs) = normList d xs
  | [] => rfl
  | x :: xs => by simp only [normList, norm_idem x, normList_idem xs]
theorem normKVs_idem : ∀ kvs : List (GoVal × GoVal), normKVs d (normKVs d kvs) = normKVs d kvs
  | [] => rfl
  | (k, v) :: r => by simp only [normKVs, norm_idem v, normKVs_idem r]
end

theorem RepEq.norm_left (a : GoVal) : RepEq d (a.norm d) a := norm_idem a
theorem RepEq.norm_right (a : GoVal) : RepEq d a (a.norm d) := (norm_idem a).symm

/-! ## `unwrap` -/

/-- not a drop at the top (what `unwrap` returns) -/
def noDrop : GoVal → Bool
  | .drop _ => false
  | _ => true

theorem unwrap_noDrop (v : GoVal) : noDrop v.unwrap = true := by
  induction v using GoVal.unwrap.induct <;> simp_all [unwrap, noDrop]

theorem unwrap_idem (v : GoVal) : v.unwrap.unwrap = v.unwrap := by
  induction v using GoVal.unwrap.induct <;> simp_all [unwrap]

theorem norm_map_nonrec {kt vt kvs} (h : isRec (.map kt vt kvs) = false) :
    (GoVal.map kt vt kvs).norm d = .map kt .any (normKVs d kvs) := by
  rw [norm]; simp [h]

theorem norm_drop_nonrigid {v : GoVal} (h : dropRigid v = false) : (GoVal.drop v).norm true = v.norm true := by
  rw [norm]; simp [h]

theorem norm_drop_false (v : GoVal) : (GoVal.drop v).norm false = .drop v := by
  rw [norm]; simp

theorem norm_drop_rigid {v : GoVal} (h : dropRigid v = true) : (GoVal.drop v).norm d = .drop v := by
  rw [norm]; simp [h]

theorem unwrap_norm_stable (v : GoVal) : v.unwrap.norm d = (v.norm d).unwrap.norm d := by
  induction v using GoVal.unwrap.induct with
  | case1 v ih =>
    rw [dropRigid_false_norm_eq]
    split
    · rfl
    · simpa [unwrap] using ih
  | case2 => rfl
  | case3 v ih => simp [norm]
  | case4 => simp [norm]
  | case5 => simp [norm]
  | case6 => simp [norm]
  | case7 v h1 h2 h3 h4 ih => simp [norm]
  | case8 v h1 h2 _ _ _ _ h7 =>
    cases v with
    | drop w => exact absurd rfl (h1 w)
    | nilPtr => exact absurd rfl h2
    | ptr w => exact absurd rfl (h7 w)
    | slice t xs => simp [unwrap, norm, normList_idem]
    | array t xs => simp [unwrap, norm, normList_idem]
    | map kt vt kvs =>
      cases h : isRec (.map kt vt kvs) with
      | true => rw [norm_of_isRec h]
      | false =>
        rw [norm_map_nonrec h]
        simp only [unwrap]
        rw [norm_map_nonrec isRec_norm_map, normKVs_idem]
        exact norm_map_nonrec h
    | _ => simp [unwrap, norm]

/-- `ValueOf(·).Interface()` respects representation equivalence -/
theorem RepEq.unwrap {a b : GoVal} (h : RepEq d a b) : RepEq d a.unwrap b.unwrap := by
  unfold RepEq at *
  rw [unwrap_norm_stable a, unwrap_norm_stable b, h]

/-! ## Inversion of `RepEq` between values that are not drops -/

/-- constructors that `norm` leaves alone and that nothing else normalises to -/
def rigidHead : GoVal → Bool
  | .drop _ | .slice _ _ | .array _ _ | .map _ _ _ => false
  | _ => true

theorem norm_of_rigidHead {u : GoVal} (h : rigidHead u = true) : u.norm d = u := by
  cases u <;> simp_all [rigidHead, norm]

theorem norm_inv_rigid {u u' : GoVal} (hu : rigidHead u = true) (hu' : noDrop u' = true) (h : RepEq d u u') : u' = u := by
  unfold RepEq at h
  rw [norm_of_rigidHead hu] at h
  cases u' with
  | drop w => simp [noDrop] at hu'
  | slice t xs => subst h; simp [norm, rigidHead] at hu
  | array t xs => subst h; simp [norm, rigidHead] at hu
  | map kt vt kvs =>
    subst h
    cases hr : isRec (.map kt vt kvs) with
    | true => rw [norm_of_isRec hr] at hu; simp [rigidHead] at hu
    | false => rw [norm_map_nonrec hr] at hu; simp [rigidHead] at hu
  | _ => simpa [norm] using h.symm

/-- the elements of a slice or fixed array (not of a `[]byte`) -/
def seqElems? : GoVal → Option (List GoVal)
  | .slice _ xs | .array _ xs => some xs
  | _ => none

theorem norm_of_seq {u : GoVal} {xs : List GoVal} (h : seqElems? u = some xs) : u.norm d = .slice .any (normList d xs) := by
  cases u <;> simp_all [seqElems?, norm]

theorem norm_inv_seq {u u' : GoVal} {xs : List GoVal} (hu : seqElems? u = some xs) (hu' : noDrop u' = true)
    (h : RepEq d u u') : ∃ xs', seqElems? u' = some xs' ∧ normList d xs = normList d xs' := by
  unfold RepEq at h
  rw [norm_of_seq hu] at h
  cases u' with
  | drop w => simp [noDrop] at hu'
  | slice t xs' => simp only [norm] at h; injection h with _ h2; exact ⟨xs', rfl, h2⟩
  | array t xs' => simp only [norm] at h; injection h with _ h2; exact ⟨xs', rfl, h2⟩
  | map kt vt kvs =>
    cases hr : isRec (.map kt vt kvs) with
    | true => rw [norm_of_isRec hr] at h; simp at h
    | false => rw [norm_map_nonrec hr] at h; simp at h
  | _ => simp [norm] at h

theorem norm_inv_map {kt vt kvs} {u' : GoVal} (hu' : noDrop u' = true) (h : RepEq d (.map kt vt kvs) u') :
    u' = .map kt vt kvs ∨
    (isRec (.map kt vt kvs) = false ∧ ∃ vt' kvs', u' = .map kt vt' kvs' ∧ isRec u' = false ∧ normKVs d kvs = normKVs d kvs') := by
  cases hr : isRec (.map kt vt kvs) with
  | true => exact .inl (h.rec_eq (.inl hr)).symm
  | false =>
    refine .inr ⟨rfl, ?_⟩
    unfold RepEq at h
    rw [norm_map_nonrec hr] at h
    cases u' with
    | drop w => simp [noDrop] at hu'
    | slice t xs' => simp [norm] at h
    | array t xs' => simp [norm] at h
    | map kt' vt' kvs' =>
      cases hr' : isRec (.map kt' vt' kvs') with
      | true =>
        have := norm_eq_rec hr' (.map kt vt kvs) (by rw [norm_map_nonrec hr, h, norm_of_isRec hr'])
        rw [this, hr'] at hr; cases hr
      | false =>
        rw [norm_map_nonrec hr'] at h
        injection h with h1 _ h3
        subst h1
        exact ⟨vt', kvs', rfl, rfl, h3⟩
    | _ => simp [norm] at h
