import Proofs.NumLemmas
import Proofs.SprintLemmas
import Proofs.F64Mono
import Proofs.F64Nearest
import Proofs.NumZero
import Proofs.NumRound
/-!
# C17 — numeric filters compute exact arithmetic and report impossible operations

The filter bodies are `Num.plus`, … of `Liquid/Filters/Num.lean` (tied to
`filters/standard_filters.go` by the `filter` and `numf` streams); `fv q` is a `float64` argument
holding the rational `q`, `Representable q` says `q` is a `float64` value. All statements are for
arbitrary rationals / integers (no bounds).
-/

/-! ## plus, minus, times: exact whenever the exact result is representable; in general the
IEEE-754 rounding of the exact result -/

theorem plus_rounds (a b r : Rat) (h : roundF64 (a + b) = some r) :
    Num.plus [fv a, fv b] = ret (.flt .f64 r) := by
  simp [Num.plus, Num.fltResult, f64Round_of_round h false (fun _ => rfl), ret]

/-- the exact sum, whenever it is a float64: a float64 rounds to itself (`Representable q` is `roundF64 q = some q`) -/
theorem plus_spec (a b : Rat) (h : Representable (a + b)) :
    Num.plus [fv a, fv b] = ret (.flt .f64 (a + b)) := plus_rounds a b (a + b) h

example : Representable ((1 : Rat) / 4 + 5 / 2) := by decide +kernel
example : roundF64 (mkRat 3602879701896397 36028797018963968 + mkRat 3602879701896397 18014398509481984)
    = some (mkRat 1351079888211149 4503599627370496) := by decide +kernel   -- 0.1 + 0.2 = 0.30000000000000004

theorem minus_rounds (a b r : Rat) (h : roundF64 (a - b) = some r) :
    Num.minus [fv a, fv b] = ret (.flt .f64 r) := by
  simp [Num.minus, Num.fltResult, f64Round_of_round h false (fun _ => rfl), ret]

theorem minus_spec (a b : Rat) (h : Representable (a - b)) :
    Num.minus [fv a, fv b] = ret (.flt .f64 (a - b)) := minus_rounds a b (a - b) h

example : Representable ((7 : Rat) - 9 / 2) := by decide +kernel

/-- `times` in general: the IEEE-754 product, i.e. the exact product correctly rounded (`roundF64`). The only
rounded product the model does not give is a zero Go signs negative (operands of opposite sign whose product is zero
or underflows to zero), excluded by `hz`. `times_spec` below is the case `r = a * b`. -/
theorem times_rounds (a b r : Rat) (h : roundF64 (a * b) = some r) (hz : r = 0 → (a < 0 ↔ b < 0)) :
    Num.times [fv a, fv b] = ret (.flt .f64 r) := by
  have : f64Round (a * b) (decide (a < 0) != decide (b < 0)) = .ok r := by
    apply f64Round_of_round h
    intro h0
    have := hz h0
    by_cases ha : a < 0 <;> simp_all
  simp [Num.times, Num.fltResult, this, ret]

/-- `times`: the exact product whenever that is a float64 (a float64 rounds to itself); the only exact product the
model does not give is the one Go signs negative zero (`0 * -1`), excluded by `hz`. -/
theorem times_spec (a b : Rat) (h : Representable (a * b)) (hz : a * b = 0 → 0 ≤ a ∧ 0 ≤ b) :
    Num.times [fv a, fv b] = ret (.flt .f64 (a * b)) :=
  times_rounds a b (a * b) h (fun h0 => by
    have ⟨ha, hb⟩ := hz h0
    simp [Rat.not_lt.mpr ha, Rat.not_lt.mpr hb])

example : Representable ((3 : Rat) / 2 * (-4)) ∧ ((3 : Rat) / 2 * (-4) = 0 → (0 : Rat) ≤ 3 / 2 ∧ (0 : Rat) ≤ -4) := by
  decide +kernel

example : roundF64 (mkRat 3602879701896397 36028797018963968 * 3) = some (mkRat 2702159776422298 9007199254740992)
    ∧ ((mkRat 2702159776422298 9007199254740992 : Rat) = 0 → ((mkRat 3602879701896397 36028797018963968 : Rat) < 0 ↔ (3 : Rat) < 0)) := by
  decide +kernel   -- 0.1 * 3 = 0.30000000000000004

/-! ### What `roundF64` is: correctly rounded, and where it overflows

`roundF64 q = some r` says: `r` is a float64 (`rounds_to_float64`), no float64 is nearer to `q` (`rounding_nearest`;
which of two equally near ones is taken — the even one — is the definition `roundHalfEven`), none lies strictly between
`q` and `r` (`rounding_faithful`), and a float64 is returned unchanged (the `_spec` theorems: `Representable q` IS
`roundF64 q = some q`). It is `none` exactly on overflow: never for `|q| ≤ math.MaxFloat64` (`float_op_in_range`),
exactly for `|q| ≥ 2^1024 - 2^970` (`float_op_overflow`: there the real code computes ±Inf and prints `+Inf` /
`-Inf`; the model answers `unmodelled`, which the comparison skips — `arith_overflow_unmodelled`). -/

theorem rounds_to_float64 (q r : Rat) (h : roundF64 q = some r) : Representable r := roundF64_idem q r h

theorem rounding_faithful (q r r' : Rat) (h : roundF64 q = some r) (hr' : Representable r') :
    (r' ≤ q → r' ≤ r) ∧ (q ≤ r' → r ≤ r') :=
  ⟨roundF64_ge_of_representable q r r' h hr', roundF64_le_of_representable q r r' h hr'⟩

/-- round to NEAREST: no float64 is nearer to the exact result than the one returned -/
theorem rounding_nearest (q r r' : Rat) (h : roundF64 q = some r) (hr' : Representable r') :
    Num.ratAbs (r - q) ≤ Num.ratAbs (r' - q) :=
  roundF64_nearest q r r' h hr'

theorem float_op_in_range (q : Rat) (h1 : -maxF64 ≤ q) (h2 : q ≤ maxF64) :
    ∃ r, roundF64 q = some r ∧ Representable r ∧ -maxF64 ≤ r ∧ r ≤ maxF64 := by
  obtain ⟨r, e1, e2, e3⟩ := roundF64_no_overflow q h1 h2
  exact ⟨r, e1, roundF64_idem q r e1, e2, e3⟩

/-- 0.1 + 0.2: the exact sum lies half way between the float64s 0.3 and 0.30000000000000004 and goes to the even one -/
example :
    let q : Rat := mkRat 3602879701896397 36028797018963968 + mkRat 3602879701896397 18014398509481984
    let r : Rat := mkRat 1351079888211149 4503599627370496
    let r' : Rat := mkRat 5404319552844595 18014398509481984
    roundF64 q = some r ∧ Representable r' ∧ r' ≤ q ∧ Num.ratAbs (r - q) ≤ Num.ratAbs (r' - q) ∧ -maxF64 ≤ q ∧ q ≤ maxF64 := by
  decide +kernel

theorem float_op_overflow (q : Rat) : roundF64 q = none ↔ (overflowF64 ≤ q ∨ q ≤ -overflowF64) :=
  roundF64_none_iff q

/-- between `math.MaxFloat64` and the threshold the result is `math.MaxFloat64` -/
theorem float_op_saturates (q : Rat) (h1 : maxF64 ≤ q) (h2 : q < overflowF64) : roundF64 q = some maxF64 :=
  roundF64_gap_pos q h1 h2

/-- on overflow of the exact result all four float operations leave the model (the real code yields ±Inf, printed
`+Inf` / `-Inf`: `{{ 1e300 | times: 1e300 }}` renders `+Inf`) -/
theorem arith_overflow_unmodelled (a b : Rat) :
    (roundF64 (a + b) = none → Num.plus [fv a, fv b] = .unmodelled "float64: overflow to ±Inf") ∧
    (roundF64 (a - b) = none → Num.minus [fv a, fv b] = .unmodelled "float64: overflow to ±Inf") ∧
    (roundF64 (a * b) = none → Num.times [fv a, fv b] = .unmodelled "float64: overflow to ±Inf") ∧
    (∀ k, b ≠ 0 → roundF64 (a / b) = none →
      Num.dividedBy [fv a, .val (.flt k b)] = .unmodelled "float64: overflow to ±Inf") := by
  refine ⟨fun h => ?_, fun h => ?_, fun h => ?_, fun k hb h => ?_⟩
  · simp [Num.plus, Num.fltResult, f64Round, h, Res.bind]
  · simp [Num.minus, Num.fltResult, f64Round, h, Res.bind]
  · simp [Num.times, Num.fltResult, f64Round, h, Res.bind]
  · simp [Num.dividedBy, Num.divFloat, hb, Num.fltResult, f64Round, h, Res.bind]

example : maxF64 = 179769313486231570814527423731704356798070567525844996598917476803157260780028538760589558632766878171540458953514382464234321326889464182768467546703537516986049910576551282076245490090389328944075868508455133942304583236903222948165808559332123348274797826204144723168738177180919299881250404026184124858368
    ∧ overflowF64 ≤ (10 ^ 300 : Nat) * (10 ^ 300 : Nat) := by decide +kernel

/-! ## divided_by: integer division for an integer divisor, real division for a float divisor -/

/-- integer divisor of any integer kind: the receiver is truncated to `int64`, then Go's `/`
(truncation toward zero), with the two's-complement wrap of `MinInt64 / -1` -/
theorem divided_by_int (a : Rat) (k : IntKind) (q : Int) (hq : q ≠ 0) (ha : inInt64 (ratTrunc a) = true) :
    Num.dividedBy [fv a, .val (.int k q)] = ret (.int .i64 (wrapInt64 (Int.tdiv (ratTrunc a) q))) := by
  simp [Num.dividedBy, Num.divInt, hq, floatToInt64, ha, ret]

/-- … which is the mathematical truncated quotient whenever that fits (always, except `MinInt64 / -1`) -/
theorem divided_by_int_exact (a : Rat) (k : IntKind) (q : Int) (hq : q ≠ 0) (ha : inInt64 (ratTrunc a) = true)
    (hr : inInt64 (Int.tdiv (ratTrunc a) q) = true) :
    Num.dividedBy [fv a, .val (.int k q)] = ret (.int .i64 (Int.tdiv (ratTrunc a) q)) := by
  rw [divided_by_int a k q hq ha, wrapInt64_of_inRange hr]

example : ratTrunc (15 / 2) = 7 ∧ Int.tdiv (ratTrunc (15 / 2)) 2 = 3 ∧ Int.tdiv (ratTrunc (-15 / 2)) 2 = -3 := by decide +kernel

theorem divided_by_flt (a q : Rat) (k : FltKind) (hq : q ≠ 0) (h : Representable (a / q)) (hz : a = 0 → 0 < q) :
    Num.dividedBy [fv a, .val (.flt k q)] = ret (.flt .f64 (a / q)) := by
  have : f64Round (a / q) (decide (a < 0) != decide (q < 0)) = .ok (a / q) := by
    apply f64Round_of_representable h
    intro h0
    have ha : a = 0 := by
      rcases Rat.mul_eq_zero.mp (by rw [Rat.div_def] at h0; exact h0) with h1 | h1
      · exact h1
      · exact absurd (by rw [← Rat.inv_inv q, h1, Rat.inv_zero]) hq
    have hq' := hz ha
    subst ha
    simp [Rat.not_lt.mpr (Rat.le_of_lt hq'), Rat.lt_irrefl]
  simp [Num.dividedBy, Num.divFloat, hq, Num.fltResult, this, ret]

theorem divided_by_flt_rounds (a q r : Rat) (k : FltKind) (hq : q ≠ 0) (h : roundF64 (a / q) = some r) (hr : r ≠ 0) :
    Num.dividedBy [fv a, .val (.flt k q)] = ret (.flt .f64 r) := by
  simp [Num.dividedBy, Num.divFloat, hq, Num.fltResult, f64Round_of_round h _ (fun h0 => absurd h0 hr), ret]

example : Representable ((7 : Rat) / (5 / 2) * 0 + 15 / 2 / 2) := by decide +kernel

/-- a zero divisor — integer of any width, or float — is the error "division by zero", whatever the receiver -/
theorem divided_by_zero_err (a : Rat) :
    (∀ k, Num.dividedBy [fv a, .val (.int k 0)] = retErr .divZero) ∧
    (∀ k, Num.dividedBy [fv a, .val (.flt k 0)] = retErr .divZero) := by
  constructor <;> intro k <;> simp [Num.dividedBy, Num.divInt, Num.divFloat]

/-- a divisor that is not a number (string, bool, nil, array …) is the error "invalid divisor" -/
theorem divided_by_non_number (a : Rat) (b : GoVal) (hi : ∀ k n, b ≠ .int k n) (hf : ∀ k q, b ≠ .flt k q) :
    Num.dividedBy [fv a, .val b] = retErr (.other "invalid divisor") := by
  unfold Num.dividedBy
  cases b <;> simp_all

/-! ## modulo -/

theorem modulo_zero_err (a : Rat) : Num.modulo [fv a, fv 0] = retErr .divZero := by
  simp [Num.modulo]

/-- `modulo` is `a - b·trunc(a/b)` (`math.Mod`: the sign of the dividend); the zero remainder of a
negative dividend is Go's −0, excluded by `hz` -/
theorem modulo_spec (a b : Rat) (hb : b ≠ 0) (h : Representable (Num.ratMod a b)) (hz : Num.ratMod a b = 0 → 0 ≤ a) :
    Num.modulo [fv a, fv b] = ret (.flt .f64 (a - b * (ratTrunc (a / b) : Rat))) := by
  unfold Representable at h
  have h2 : ¬(Num.ratMod a b = 0 ∧ a < 0) := fun ⟨h0, ha⟩ => absurd (hz h0) (Rat.not_le.mpr ha)
  simp only [Num.modulo]
  simp only [Num.ratMod] at h h2
  simp [hb, h, h2, ret, Num.ratMod]

example : Representable (Num.ratMod (-7) 2) ∧ Num.ratMod (-7) 2 = -1 ∧ Num.ratMod 7 (-2) = 1 ∧ Num.ratMod (15 / 2) 2 = 3 / 2 := by decide +kernel

/-- the remainder has the sign of the dividend and is smaller than the divisor in magnitude -/
theorem modulo_sign (a b : Rat) (hb : b ≠ 0) :
    (0 ≤ a → 0 ≤ Num.ratMod a b) ∧ (a ≤ 0 → Num.ratMod a b ≤ 0) ∧ Num.ratAbs (Num.ratMod a b) < Num.ratAbs b := by
  rw [ratMod_abs_right a b hb]
  have hc := ratAbs_pos hb
  generalize Num.ratAbs b = c at *
  have hpos : 0 ≤ a → 0 ≤ Num.ratMod a c ∧ Num.ratMod a c < c := fun ha => ratMod_pos a c ha hc
  have hneg : a ≤ 0 → Num.ratMod a c ≤ 0 ∧ -c < Num.ratMod a c := by
    intro ha
    have h := ratMod_pos (-a) c (by grind) hc
    rw [ratMod_neg_left] at h
    constructor <;> grind
  refine ⟨fun ha => (hpos ha).1, fun ha => (hneg ha).1, ?_⟩
  unfold Num.ratAbs
  rcases Rat.le_total (a := 0) (b := a) with ha | ha
  · have := hpos ha; split <;> grind
  · have := hneg ha; split <;> grind

/-! ## abs, ceil, floor -/

theorem abs_spec (a : Rat) :
    Num.abs [fv a] = ret (.flt .f64 (Num.ratAbs a)) ∧ 0 ≤ Num.ratAbs a ∧ (Num.ratAbs a = a ∨ Num.ratAbs a = -a) := by
  refine ⟨by simp [Num.abs], ?_, ?_⟩
  · unfold Num.ratAbs
    split
    · rename_i h; exact Rat.le_of_lt (by rw [Rat.lt_neg_iff, Rat.neg_zero]; exact h)
    · rename_i h; exact Rat.not_lt.mp h
  · unfold Num.ratAbs; split <;> simp

/-- `floor` returns a Go `int` `n` with `n ≤ a < n + 1` -/
theorem floor_spec (a : Rat) (h : inInt64 a.floor = true) :
    Num.floor [fv a] = ret (.int .int a.floor) ∧ (a.floor : Rat) ≤ a ∧ a < ((a.floor + 1 : Int) : Rat) := by
  exact ⟨by simp [Num.floor, Num.intResult, h], Rat.floor_le a, Rat.lt_floor_add_one a⟩

/-- `ceil` returns a Go `int` `n` with `n - 1 < a ≤ n` -/
theorem ceil_spec (a : Rat) (h : inInt64 a.ceil = true) :
    Num.ceil [fv a] = ret (.int .int a.ceil) ∧ a ≤ (a.ceil : Rat) ∧ ((a.ceil - 1 : Int) : Rat) < a := by
  refine ⟨by simp [Num.ceil, Num.intResult, h], Rat.le_ceil, ?_⟩
  have : a.ceil - 1 < a.ceil := by omega
  exact Rat.lt_ceil_iff.mp this

theorem floor_le_ceil (a : Rat) : a.floor ≤ a.ceil := by
  have h := Rat.le_trans (Rat.floor_le a) (Rat.le_ceil (x := a))
  exact Rat.intCast_le_intCast.mp h

example : (7 / 2 : Rat).floor = 3 ∧ (7 / 2 : Rat).ceil = 4 ∧ (-7 / 2 : Rat).floor = -4 ∧ (-7 / 2 : Rat).ceil = -3
    ∧ inInt64 (7 / 2 : Rat).floor = true := by decide +kernel

/-! ### ceil and floor return integers: on every receiver in the `int64` range, and only there

Go's `int(f)` is defined for `f` in the range of `int` only; outside it the result is implementation-defined (on
amd64 `{{ 1e19 | ceil }}`, `{{ -1e19 | floor }}` and `{{ 9223372036854775808.0 | floor }}` all print
-9223372036854775808) and the model answers `unmodelled`. -/

theorem floor_ceil_return_int (a : Rat) (h1 : ((-(2 ^ 63) : Int) : Rat) ≤ a) (h2 : a ≤ ((2 ^ 63 - 1 : Int) : Rat)) :
    Num.floor [fv a] = ret (.int .int a.floor) ∧ Num.ceil [fv a] = ret (.int .int a.ceil) := by
  have f1 : -(2 ^ 63) ≤ a.floor := Rat.le_floor_iff.2 h1
  have f2 : a.floor ≤ 2 ^ 63 - 1 := Rat.intCast_le_intCast.1 (Rat.le_trans (Rat.floor_le a) h2)
  have c1 : -(2 ^ 63) ≤ a.ceil := Rat.intCast_le_intCast.1 (Rat.le_trans h1 Rat.le_ceil)
  have c2 : a.ceil ≤ 2 ^ 63 - 1 := Rat.ceil_le_iff.2 h2
  exact ⟨(floor_spec a (inInt64_iff.2 ⟨f1, f2⟩)).1, (ceil_spec a (inInt64_iff.2 ⟨c1, c2⟩)).1⟩

/-- exactly: `floor` returns an integer iff `-2^63 ≤ a < 2^63`, and is outside the model otherwise -/
theorem floor_range (a : Rat) :
    (((-(2 ^ 63) : Int) : Rat) ≤ a ∧ a < ((2 ^ 63 : Int) : Rat) → Num.floor [fv a] = ret (.int .int a.floor)) ∧
    (a < ((-(2 ^ 63) : Int) : Rat) ∨ ((2 ^ 63 : Int) : Rat) ≤ a →
      Num.floor [fv a] = .unmodelled "float→int conversion out of range is implementation-defined") := by
  constructor
  · intro ⟨h1, h2⟩
    have f1 : -(2 ^ 63) ≤ a.floor := Rat.le_floor_iff.2 h1
    have f2 : a.floor < 2 ^ 63 := Rat.floor_lt_iff.2 h2
    exact (floor_spec a (inInt64_iff.2 ⟨f1, by omega⟩)).1
  · intro h
    have : inInt64 a.floor = false := by
      apply Bool.eq_false_iff.2
      intro hin
      obtain ⟨f1, f2⟩ := inInt64_iff.1 hin
      rcases h with h | h
      · exact absurd (Rat.le_floor_iff.1 f1) (Rat.not_le.2 h)
      · have : a.floor < 2 ^ 63 := by omega
        exact absurd h (Rat.not_le.2 (Rat.floor_lt_iff.1 this))
    simp [Num.floor, Num.intResult, this]

/-- exactly: `ceil` returns an integer iff `-2^63 - 1 < a ≤ 2^63 - 1`, and is outside the model otherwise -/
theorem ceil_range (a : Rat) :
    (((-(2 ^ 63) - 1 : Int) : Rat) < a ∧ a ≤ ((2 ^ 63 - 1 : Int) : Rat) → Num.ceil [fv a] = ret (.int .int a.ceil)) ∧
    (a ≤ ((-(2 ^ 63) - 1 : Int) : Rat) ∨ ((2 ^ 63 - 1 : Int) : Rat) < a →
      Num.ceil [fv a] = .unmodelled "float→int conversion out of range is implementation-defined") := by
  constructor
  · intro ⟨h1, h2⟩
    have c1 : -(2 ^ 63) - 1 < a.ceil := Rat.lt_ceil_iff.2 h1
    have c2 : a.ceil ≤ 2 ^ 63 - 1 := Rat.ceil_le_iff.2 h2
    exact (ceil_spec a (inInt64_iff.2 ⟨by omega, c2⟩)).1
  · intro h
    have : inInt64 a.ceil = false := by
      apply Bool.eq_false_iff.2
      intro hin
      obtain ⟨f1, f2⟩ := inInt64_iff.1 hin
      rcases h with h | h
      · have : -(2 ^ 63) - 1 < a.ceil := by omega
        exact absurd h (Rat.not_le.2 (Rat.lt_ceil_iff.1 this))
      · exact absurd (Rat.ceil_le_iff.1 f2) (Rat.not_le.2 h)
    simp [Num.ceil, Num.intResult, this]

example : (((-(2 ^ 63) : Int) : Rat) ≤ -9223372036854775808 ∧ (-9223372036854775808 : Rat) < ((2 ^ 63 : Int) : Rat))
    ∧ ((2 ^ 63 : Int) : Rat) ≤ (10 ^ 19 : Nat) ∧ ((2 ^ 63 - 1 : Int) : Rat) < (10 ^ 19 : Nat) := by decide +kernel

/-! ## round: half up to the requested number of places -/

/-- the value `round` computes when every step is exact: `⌊x·10ᵖ + 1/2⌋ / 10ᵖ` -/
def roundHalfUp (x : Rat) (p : Nat) : Rat := roundHalfUpE x (p10 p)

/-- `round: p` for `0 ≤ p ≤ 22` (where `math.Pow10` is exact), every intermediate representable -/
theorem round_spec (x : Rat) (p : Nat) (hp : p ≤ 22)
    (h1 : Representable (x * p10 p)) (h2 : Representable (x * p10 p + 1 / 2)) (h3 : Representable (roundHalfUp x p)) :
    Num.round [fv x, .fn (some (.ok (.int .int p)))] = ret (.flt .f64 (roundHalfUp x p)) := by
  have h := roundTo_exact x (p10 p) p (pow10Go_small p hp) (Rat.ne_of_gt (p10_pos p)) h1 h2 h3
  simpa [Num.round, Arg.call, roundHalfUp] using h

/-- without an argument `round` rounds to an integer -/
theorem round_default (x : Rat) (h1 : Representable (x * p10 0)) (h2 : Representable (x * p10 0 + 1 / 2))
    (h3 : Representable (roundHalfUp x 0)) :
    Num.round [fv x, .fn none] = ret (.flt .f64 (roundHalfUp x 0)) := by
  have h := roundTo_exact x (p10 0) (0 : Nat) (pow10Go_small 0 (by omega)) (Rat.ne_of_gt (p10_pos 0)) h1 h2 h3
  simpa [Num.round, Arg.call, roundHalfUp] using h

example : Representable ((5 / 2 : Rat) * p10 0) ∧ Representable ((5 / 2 : Rat) * p10 0 + 1 / 2)
    ∧ roundHalfUp (5 / 2) 0 = 3 ∧ roundHalfUp (-5 / 2) 0 = -2 ∧ roundHalfUp (9 / 8) 2 = 113 / 100 ∧ roundHalfUp (5 / 4) 1 = 13 / 10 := by
  decide +kernel

/-- the rounded value is within half a unit of the last place of `x`; the upper bound is attained (half up) -/
theorem round_err (x : Rat) (p : Nat) :
    roundHalfUp x p - x ≤ (1 / 2) / p10 p ∧ -(1 / 2) / p10 p < roundHalfUp x p - x :=
  roundHalfUpE_err x (p10 p) (p10_pos p)

/-! ### round for every float and every number of places

`math.Floor(n*exp + 0.5) / exp` rounds half UP, toward +∞: `{{ -2.5 | round }}` is -2 and `{{ -3.5 | round }}` is -3 on
the real engine (Go's `math.Round`, which rounds half away from zero, is not used). -/

/-- `round` without an argument (and `round: 0`) on EVERY float64 `x` with `-2^52 ≤ x ≤ 2^52 - 1` other than
0.49999999999999994 (`1/2 - 2^-54`): the result is `⌊x + 1/2⌋` — no `Representable` hypothesis on the intermediate
`x + 1/2`, which Go may round. -/
theorem round_half_up (x : Rat) (hx : Representable x) (h1 : ((-(2 ^ 52) : Int) : Rat) ≤ x)
    (h2 : x ≤ ((2 ^ 52 - 1 : Int) : Rat)) (hne : x ≠ 1 / 2 - pow2 (-54)) :
    Num.round [fv x, .fn none] = ret (.flt .f64 ((x + 1 / 2).floor : Rat)) ∧
    Num.round [fv x, .fn (some (.ok (.int .int 0)))] = ret (.flt .f64 ((x + 1 / 2).floor : Rat)) := by
  have h := roundTo_half_up x hx h1 h2 hne
  constructor <;> simpa [Num.round, Arg.call] using h

example : Representable (-5 / 2 : Rat) ∧ ((-5 / 2 : Rat) + 1 / 2).floor = -2 ∧ ((-7 / 2 : Rat) + 1 / 2).floor = -3
    ∧ ((5 / 2 : Rat) + 1 / 2).floor = 3 ∧ ((-1 / 2 : Rat) + 1 / 2).floor = 0 ∧ (-5 / 2 : Rat) ≠ 1 / 2 - pow2 (-54) := by
  decide +kernel

/-- in particular a whole number in that range is returned unchanged -/
theorem round_whole (n : Int) (h1 : -(2 ^ 52) ≤ n) (h2 : n ≤ 2 ^ 52 - 1) :
    Num.round [fv (n : Rat), .fn none] = ret (.flt .f64 (n : Rat)) := by
  have hrep : Representable (n : Rat) := by
    have := representable_int_mul n 0 (by omega) (by omega) (by decide) (by decide)
    rwa [pow2_zero, Rat.mul_one] at this
  have hne : (n : Rat) ≠ 1 / 2 - pow2 (-54) := by
    intro h
    have a1 : ((0 : Int) : Rat) < (n : Rat) := by rw [h]; decide +kernel
    have a2 : (n : Rat) < ((1 : Int) : Rat) := by rw [h]; decide +kernel
    have := Rat.intCast_lt_intCast.1 a1
    have := Rat.intCast_lt_intCast.1 a2
    omega
  have hfl : ((n : Rat) + 1 / 2).floor = n := by
    rw [Rat.add_comm, Rat.floor_add_intCast]
    have : ((1 : Rat) / 2).floor = 0 := by decide +kernel
    omega
  have h := (round_half_up (n : Rat) hrep (Rat.intCast_le_intCast.2 h1) (Rat.intCast_le_intCast.2 h2) hne).1
  rwa [hfl] at h

/-- the two families the statement excludes are real deviations from "rounds half up" (model = real engine):
`{{ 0.49999999999999994 | round }}` is 1, not 0 (`x + 0.5` rounds up to 1.0), and above 2^52 an odd whole number is
not returned unchanged: `{{ 4503599627370497.0 | round }}` is 4503599627370498 (`x + 0.5` is a tie, rounded to even) -/
theorem round_half_up_exceptions :
    okFlt (Num.round [fv (1 / 2 - pow2 (-54)), .fn none]) = some 1 ∧ ((1 / 2 - pow2 (-54) : Rat) + 1 / 2).floor = 0 ∧
    okFlt (Num.round [fv 4503599627370497, .fn none]) = some 4503599627370498 := by decide +kernel

/-- `round: p` for ANY `p` whose scale `math.Pow10(p)` is a non-zero float64 `e` (−323 ≤ p ≤ 308; for p < 0 and p > 22
`e` is the float nearest to 10^p, not 10^p): the product, the sum and the quotient are each correctly rounded,
`RN(⌊RN(RN(x·e) + 1/2)⌋ / e)`. `round_spec` is the case where all three are exact. -/
theorem round_stepwise (x : Rat) (p : Int) (e a b c : Rat) (hpow : Num.pow10Go p = .ok e) (he : e ≠ 0)
    (h1 : roundF64 (x * e) = some a) (hz : a = 0 → ¬ x < 0) (h2 : roundF64 (a + 1 / 2) = some b)
    (h3 : roundF64 ((b.floor : Rat) / e) = some c) :
    Num.round [fv x, .fn (some (.ok (.int .int p)))] = ret (.flt .f64 c) := by
  have h := roundTo_steps x p e a b c hpow he h1 hz h2 h3
  simpa [Num.round, Arg.call] using h

/-- the hypotheses of `round_stepwise` at p = −2 and p = 23: the scale is the float64 nearest to 1/100, resp. 10^23,
and differs from it -/
example :
    (match Num.pow10Go (-2) with
      | .ok e => decide (roundF64 (mkRat 1 100) = some e ∧ e ≠ mkRat 1 100 ∧ e ≠ 0)
      | _ => false) = true ∧
    (match Num.pow10Go 23 with
      | .ok e => decide (roundF64 ((10 ^ 23 : Nat) : Rat) = some e ∧ e ≠ ((10 ^ 23 : Nat) : Rat) ∧ e ≠ 0)
      | _ => false) = true := by decide +kernel

/-- outside −323 ≤ p ≤ 308 `math.Pow10` is 0 or +Inf and the real filter yields NaN for every receiver
(`{{ 1234.5678 | round: 309 }}` and `{{ 0 | round: 400 }}` print `NaN`): outside the model -/
theorem round_places_out_of_range (x : Rat) (p : Int) (hp : p < -323 ∨ 308 < p) :
    Num.round [fv x, .fn (some (.ok (.int .int p)))]
      = .unmodelled "math.Pow10: +Inf or 0 scale (the filter yields NaN)" := by
  simp [Num.round, Arg.call, Num.roundTo, pow10Go_out_of_range p hp, Res.bind]

/-- evaluated on the model, equal to what the real engine prints for 1234.5678: negative places round to tens and
hundreds (`round: -1` = 1230, `round: -2` = 1200, `round: -4` = 0), places beyond the fractional digits return the
receiver (`round: 23`, `round: 300`), `round: 308` overflows (`+Inf` in Go, unmodelled here), `round: -323` is 0 -/
example :
    let x : Rat := mkRat 5429502395555911 4398046511104
    let r (p : Int) := Num.round [fv x, .fn (some (.ok (.int .int p)))]
    Representable x ∧ okFlt (r (-1)) = some 1230 ∧ okFlt (r (-2)) = some 1200 ∧ okFlt (r (-4)) = some 0
      ∧ okFlt (r 23) = some x ∧ okFlt (r 300) = some x ∧ isUnmodelled (r 308) = true ∧ okFlt (r (-323)) = some 0
      ∧ isUnmodelled (r (-324)) = true := by
  decide +kernel

/-! ## identities (all under `Representable`) -/

/-- `x | plus: b | minus: b` gives `x` back -/
theorem plus_minus (a b : Rat) (h1 : Representable (a + b)) (h2 : Representable a) :
    Num.plus [fv a, fv b] = ret (.flt .f64 (a + b)) ∧ Num.minus [fv (a + b), fv b] = ret (.flt .f64 a) := by
  refine ⟨plus_spec a b h1, ?_⟩
  have h := minus_spec (a + b) b (by rw [Rat.add_sub_cancel]; exact h2)
  rwa [Rat.add_sub_cancel] at h

/-- `x | times: b | divided_by: b` (float `b ≠ 0`) gives `x` back -/
theorem times_div (a b : Rat) (hb : b ≠ 0) (h1 : Representable (a * b)) (h2 : Representable a)
    (hz : a = 0 → 0 < b) :
    Num.times [fv a, fv b] = ret (.flt .f64 (a * b)) ∧
    Num.dividedBy [fv (a * b), .val (.flt .f64 b)] = ret (.flt .f64 a) := by
  constructor
  · apply times_spec a b h1
    intro h0
    rcases Rat.mul_eq_zero.mp h0 with ha | hb'
    · exact ⟨by rw [ha]; exact Rat.le_refl, Rat.le_of_lt (hz ha)⟩
    · exact absurd hb' hb
  · have h := divided_by_flt (a * b) b .f64 hb (by rw [Rat.mul_div_cancel hb]; exact h2)
      (fun h0 => by
        rcases Rat.mul_eq_zero.mp h0 with ha | hb'
        · exact hz ha
        · exact absurd hb' hb)
    rwa [Rat.mul_div_cancel hb] at h

example : Representable ((3 / 2 : Rat) + 1 / 4) ∧ Representable (3 / 2 : Rat) ∧ Representable ((3 / 2 : Rat) * (1 / 4)) := by
  decide +kernel

/-! ## strings: a receiver that spells a number is that number; anything else is an error -/

/-- For each of the nine numeric filters: a string receiver whose text is a decimal spelling of `q`
behaves exactly as the `float64` nearest to `q` (`strconv.ParseFloat`), whatever the arguments and
the filter table. -/
theorem numeric_string_recv (impls : Bytes → Option FilterImpl) (name : Bytes) (hname : name ∈ numericNames)
    (s : Bytes) (q r : Rat) (args : List GoVal)
    (hn : readNumber s = .num q) (hr : roundF64 q = some r) (hz : r = 0 → s.head? ≠ some 45) :
    applyFilter impls name (.str s) args = applyFilter impls name (.flt .f64 r) args := by
  obtain ⟨sg, ps, hs, hp⟩ := headIsF64_elim (numeric_sig_head name hname)
  unfold applyFilter
  simp only [hs, hp, List.length_cons]
  rw [convertArgs_val_cons (by simp), convertArgs_val_cons (by simp), convert_str_f64 hn hr hz, convert_flt_f64]

example : readNumber [50, 46, 53] = .num (5 / 2) ∧ roundF64 (5 / 2) = some (5 / 2)
    ∧ readNumber [49, 101, 50] = .num 100 ∧ readNumber [45, 46, 53] = .num (-1 / 2) := by decide +kernel   -- "2.5", "1e2", "-.5"

/-- a string receiver that does not spell a number makes each numeric filter fail with a
`TypeError` (not a `FilterError`), provided the argument count is admissible -/
theorem non_numeric_err (impls : Bytes → Option FilterImpl) (name : Bytes) (hname : name ∈ numericNames)
    (s : Bytes) (args : List GoVal) (hn : readNumber s = .bad) :
    applyFilter impls name (.str s) args = .err .typeErr ∨
    applyFilter impls name (.str s) args = .err (.filterErr name .parity) := by
  obtain ⟨sg, ps, hs, hp⟩ := headIsF64_elim (numeric_sig_head name hname)
  unfold applyFilter
  simp only [hs, hp, List.length_cons]
  split
  · exact Or.inr rfl
  · left
    rw [convertArgs_val_cons (by simp), convert_str_f64_bad hn]
    rfl

/-- … and so does a non-numeric string *operand* of `plus`, `minus`, `times`, `modulo` -/
theorem non_numeric_operand_err (impls : Bytes → Option FilterImpl) (name : Bytes) (hname : name ∈ binaryNames)
    (a : Rat) (k : FltKind) (s : Bytes) (hn : readNumber s = .bad) :
    applyFilter impls name (.flt k a) [.str s] = .err .typeErr := by
  obtain ⟨sg, hs, hp⟩ := isBinaryF64_elim (binary_sig name hname)
  unfold applyFilter
  simp only [hs, hp, List.length_cons, List.length_nil]
  rw [convertArgs_val_cons (by simp), convert_flt_f64]
  simp only [Res.bind]
  rw [convertArgs_val_cons (by simp), convert_str_f64_bad hn]
  rfl

example : readNumber [120] = .bad ∧ readNumber [] = .bad ∧ readNumber [32, 49] = .bad ∧ readNumber [49, 46, 50, 46, 51] = .bad := by
  decide +kernel   -- "x", "", " 1", "1.2.3"

/-! ## end to end: zero divisors through `ApplyFilter` -/

/-- `{{ x | divided_by: 0 }}`: for every numeric receiver and every integer kind (or float) of the
zero, the result is the error `FilterError{"divided_by", division by zero}` -/
theorem divided_by_zero_filter (a : Rat) (kr : FltKind) (z : GoVal)
    (hz : (∃ k, z = .int k 0) ∨ (∃ k, z = .flt k 0)) :
    applyFilter (lookupImpl Num.impls) (Num.bn "divided_by") (.flt kr a) [z]
      = .err (.filterErr (Num.bn "divided_by") .divZero) := by
  have hs : lookupSig (Num.bn "divided_by") = some ⟨Num.bn "divided_by", [.val .f64, .val .any], true⟩ := by
    decide +kernel
  have hznil : z ≠ .nil := by rcases hz with ⟨k, h⟩ | ⟨k, h⟩ <;> simp [h]
  have hconv : convert z .any = .ok z := by
    rcases hz with ⟨k, h⟩ | ⟨k, h⟩ <;> simp [h, convert, convAny, GoVal.toLiquid]
  unfold applyFilter
  simp only [hs, List.length_cons, List.length_nil]
  rw [convertArgs_val_cons (by simp), convert_flt_f64]
  simp only [Res.bind]
  rw [convertArgs_val_cons hznil, hconv]
  simp only [Res.bind, convertArgs, numImpl_divided_by]
  rcases hz with ⟨k, h⟩ | ⟨k, h⟩
  · subst h; simp [(divided_by_zero_err a).1 k, retErr]
  · subst h; simp [(divided_by_zero_err a).2 k, retErr]

/-- `{{ x | modulo: 0 }}` is the same error (the D17 repair), for an integer or float zero -/
theorem modulo_zero_filter (a : Rat) (kr : FltKind) (z : GoVal)
    (hz : (∃ k, z = .int k 0) ∨ (∃ k, z = .flt k 0)) :
    applyFilter (lookupImpl Num.impls) (Num.bn "modulo") (.flt kr a) [z]
      = .err (.filterErr (Num.bn "modulo") .divZero) := by
  have hs : lookupSig (Num.bn "modulo") = some ⟨Num.bn "modulo", [.val .f64, .val .f64], true⟩ := by
    decide +kernel
  have hznil : z ≠ .nil := by rcases hz with ⟨k, h⟩ | ⟨k, h⟩ <;> simp [h]
  have hconv : convert z .f64 = .ok (.flt .f64 0) := by
    rcases hz with ⟨k, h⟩ | ⟨k, h⟩
    · simp [h, convert, GoVal.toLiquid, f64Round, roundF64_zero]
    · simp [h, convert, GoVal.toLiquid]
  unfold applyFilter
  simp only [hs, List.length_cons, List.length_nil]
  rw [convertArgs_val_cons (by simp), convert_flt_f64]
  simp only [Res.bind]
  rw [convertArgs_val_cons hznil, hconv]
  simp only [Res.bind, convertArgs, numImpl_modulo]
  simp [modulo_zero_err a, retErr]

/-! ### … for every receiver

The receiver parameter of both filters is a `float64`: `ApplyFilter` converts the receiver first (`convert recv .f64`)
and the body sees only the float. So a zero divisor is the error whatever kind the receiver has. -/

/-- the receiver is any value that `Convert` turns into a float64 `a` -/
theorem divided_by_zero_recv (recv z : GoVal) (a : Rat) (hn : recv ≠ .nil)
    (hc : convert recv .f64 = .ok (.flt .f64 a)) (hz : (∃ k, z = .int k 0) ∨ (∃ k, z = .flt k 0)) :
    applyFilter (lookupImpl Num.impls) (Num.bn "divided_by") recv [z]
      = .err (.filterErr (Num.bn "divided_by") .divZero) := by
  have hs : lookupSig (Num.bn "divided_by") = some ⟨Num.bn "divided_by", [.val .f64, .val .any], true⟩ := by
    decide +kernel
  have hznil : z ≠ .nil := by rcases hz with ⟨k, h⟩ | ⟨k, h⟩ <;> simp [h]
  have hconv : convert z .any = .ok z := by
    rcases hz with ⟨k, h⟩ | ⟨k, h⟩ <;> simp [h, convert, convAny, GoVal.toLiquid]
  unfold applyFilter
  simp only [hs, List.length_cons, List.length_nil]
  rw [convertArgs_val_cons hn, hc]
  simp only [Res.bind]
  rw [convertArgs_val_cons hznil, hconv]
  simp only [Res.bind, convertArgs, numImpl_divided_by]
  rcases hz with ⟨k, h⟩ | ⟨k, h⟩
  · subst h; simp [(divided_by_zero_err a).1 k, retErr]
  · subst h; simp [(divided_by_zero_err a).2 k, retErr]

theorem modulo_zero_recv (recv z : GoVal) (a : Rat) (hn : recv ≠ .nil)
    (hc : convert recv .f64 = .ok (.flt .f64 a)) (hz : (∃ k, z = .int k 0) ∨ (∃ k, z = .flt k 0)) :
    applyFilter (lookupImpl Num.impls) (Num.bn "modulo") recv [z]
      = .err (.filterErr (Num.bn "modulo") .divZero) := by
  have hs : lookupSig (Num.bn "modulo") = some ⟨Num.bn "modulo", [.val .f64, .val .f64], true⟩ := by
    decide +kernel
  have hznil : z ≠ .nil := by rcases hz with ⟨k, h⟩ | ⟨k, h⟩ <;> simp [h]
  have hconv : convert z .f64 = .ok (.flt .f64 0) := by
    rcases hz with ⟨k, h⟩ | ⟨k, h⟩
    · simp [h, convert, GoVal.toLiquid, f64Round, roundF64_zero]
    · simp [h, convert, GoVal.toLiquid]
  unfold applyFilter
  simp only [hs, List.length_cons, List.length_nil]
  rw [convertArgs_val_cons hn, hc]
  simp only [Res.bind]
  rw [convertArgs_val_cons hznil, hconv]
  simp only [Res.bind, convertArgs, numImpl_modulo]
  simp [modulo_zero_err a, retErr]

/-- a numeric receiver: an integer of any Go kind (within the range of its kind), a float of either width, or a
string that spells a decimal number within the float64 range (not a spelling of −0, which is outside the model) -/
inductive NumericRecv : GoVal → Prop where
  | int (k : IntKind) (n : Int) (h : k.inRange n = true) : NumericRecv (.int k n)
  | flt (k : FltKind) (a : Rat) : NumericRecv (.flt k a)
  | str (s : Bytes) (q r : Rat) (hn : readNumber s = .num q) (hr : roundF64 q = some r)
      (hz : r = 0 → s.head? ≠ some 45) : NumericRecv (.str s)

theorem numericRecv_converts (recv : GoVal) (h : NumericRecv recv) :
    recv ≠ .nil ∧ ∃ a, convert recv .f64 = .ok (.flt .f64 a) := by
  cases h with
  | int k n hk => obtain ⟨r, _, e⟩ := convert_int_f64 k n hk; exact ⟨by simp, r, e⟩
  | flt k a => exact ⟨by simp, a, convert_flt_f64 k a⟩
  | str s q r hn hr hz => exact ⟨by simp, r, convert_str_f64 hn hr hz⟩

/-- `divided_by: 0`, `divided_by: 0.0`, `modulo: 0`, `modulo: 0.0` (a zero of any integer kind or float width) with
an int, uint, float or numeric-string receiver: the error "division by zero", for all 16 combinations at once -/
theorem zero_divisor_every_receiver (recv z : GoVal) (hr : NumericRecv recv)
    (hz : (∃ k, z = .int k 0) ∨ (∃ k, z = .flt k 0)) :
    applyFilter (lookupImpl Num.impls) (Num.bn "divided_by") recv [z]
      = .err (.filterErr (Num.bn "divided_by") .divZero) ∧
    applyFilter (lookupImpl Num.impls) (Num.bn "modulo") recv [z]
      = .err (.filterErr (Num.bn "modulo") .divZero) := by
  obtain ⟨hn, a, hc⟩ := numericRecv_converts recv hr
  exact ⟨divided_by_zero_recv recv z a hn hc hz, modulo_zero_recv recv z a hn hc hz⟩

example : NumericRecv (.int .int 7) ∧ NumericRecv (.int .u64 (2 ^ 64 - 1)) ∧ NumericRecv (.flt .f32 (15 / 2))
    ∧ NumericRecv (.str [55, 46, 53]) :=
  ⟨.int _ _ (by decide), .int _ _ (by decide), .flt _ _,
   .str _ (15 / 2) (15 / 2) (by decide +kernel) (by decide +kernel) (by decide +kernel)⟩   -- 7, MaxUint64, 7.5, "7.5"

/-- … and for EVERY receiver whatsoever (nil, a bool, a string that spells no number or −0 or overflows, an array …)
a zero divisor never produces output: the result of the filter is not a value -/
theorem zero_divisor_never_output (recv z v : GoVal) (hz : (∃ k, z = .int k 0) ∨ (∃ k, z = .flt k 0)) :
    applyFilter (lookupImpl Num.impls) (Num.bn "divided_by") recv [z] ≠ .ok v ∧
    applyFilter (lookupImpl Num.impls) (Num.bn "modulo") recv [z] ≠ .ok v := by
  have hs1 : lookupSig (Num.bn "divided_by") = some ⟨Num.bn "divided_by", [.val .f64, .val .any], true⟩ := by
    decide +kernel
  have hs2 : lookupSig (Num.bn "modulo") = some ⟨Num.bn "modulo", [.val .f64, .val .f64], true⟩ := by
    decide +kernel
  by_cases hn : recv = .nil
  · -- a nil receiver is the zero value of the parameter, 0.0
    subst hn
    have hznil : z ≠ .nil := by rcases hz with ⟨k, h⟩ | ⟨k, h⟩ <;> simp [h]
    have hconv : convert z .any = .ok z := by
      rcases hz with ⟨k, h⟩ | ⟨k, h⟩ <;> simp [h, convert, convAny, GoVal.toLiquid]
    have hconv2 : convert z .f64 = .ok (.flt .f64 0) := by
      rcases hz with ⟨k, h⟩ | ⟨k, h⟩
      · simp [h, convert, GoVal.toLiquid, f64Round, roundF64_zero]
      · simp [h, convert, GoVal.toLiquid]
    constructor
    · unfold applyFilter
      simp only [hs1, List.length_cons, List.length_nil]
      simp only [convertArgs]
      rw [hconv]
      simp only [Res.bind, numImpl_divided_by, ParamTy.zero]
      rcases hz with ⟨k, h⟩ | ⟨k, h⟩
      · subst h; simp [(divided_by_zero_err 0).1 k, retErr]
      · subst h; simp [(divided_by_zero_err 0).2 k, retErr]
    · unfold applyFilter
      simp only [hs2, List.length_cons, List.length_nil]
      simp only [convertArgs]
      rw [hconv2]
      simp only [Res.bind, numImpl_modulo, ParamTy.zero]
      simp [modulo_zero_err 0, retErr]
  · cases hc : convert recv .f64 with
    | ok c =>
      obtain ⟨a, rfl⟩ := convert_f64_shape recv c hc
      rw [divided_by_zero_recv recv z a hn hc hz, modulo_zero_recv recv z a hn hc hz]
      simp
    | err e =>
      constructor
      · unfold applyFilter
        simp only [hs1, List.length_cons, List.length_nil]
        rw [convertArgs_val_cons hn, hc]
        simp [Res.bind]
      · unfold applyFilter
        simp only [hs2, List.length_cons, List.length_nil]
        rw [convertArgs_val_cons hn, hc]
        simp [Res.bind]
    | panic w =>
      constructor
      · unfold applyFilter
        simp only [hs1, List.length_cons, List.length_nil]
        rw [convertArgs_val_cons hn, hc]
        simp [Res.bind]
      · unfold applyFilter
        simp only [hs2, List.length_cons, List.length_nil]
        rw [convertArgs_val_cons hn, hc]
        simp [Res.bind]
    | unmodelled w =>
      constructor
      · unfold applyFilter
        simp only [hs1, List.length_cons, List.length_nil]
        rw [convertArgs_val_cons hn, hc]
        simp [Res.bind]
      · unfold applyFilter
        simp only [hs2, List.length_cons, List.length_nil]
        rw [convertArgs_val_cons hn, hc]
        simp [Res.bind]

/-! ## printing: a whole-number result is written without a fractional part or exponent -/

/-- `{{ x }}` for a float (either width) holding a whole number below 10²¹ (after the D23 repair of
`writeObject`): whenever the value is printed, the text consists of decimal digits with at most a
leading minus sign — no `.`, no `e`, no `+`. -/
theorem whole_prints_int (k : FltKind) (q : Rat) (hden : q.den = 1) (hlt : q.num.natAbs < 10 ^ 21)
    (b : Bytes) (h : writeObject (.flt k q) = .ok b) :
    ∃ body, allDigits body ∧ (b = body ∨ b = 45 :: body) := by
  have hw : isWholeSmall q = true := by simp [isWholeSmall, hden, hlt]
  simp only [writeObject, GoVal.toLiquid, writeObjectL, hw, ↓reduceIte, fmtFloatF] at h
  split at h
  · simp at h
  · simp only [Res.ok.injEq] at h
    exact ⟨[48], by intro c hc; simp at hc; subst hc; decide, Or.inl h.symm⟩
  · rename_i neg ds dp hne hs
    have ⟨hd, hl⟩ := shortestDigits_whole _ _ q hden neg ds dp hs
    have hbody := fmtF_whole ds dp hd (fun h0 => hne h0) hl
    simp only [Res.ok.injEq] at h
    refine ⟨fmtF ds dp, hbody, ?_⟩
    cases neg <;> simp_all

/-- in particular the text contains no `.` (46), `e` (101) or `+` (43) -/
theorem whole_prints_no_point (k : FltKind) (q : Rat) (hden : q.den = 1) (hlt : q.num.natAbs < 10 ^ 21)
    (b : Bytes) (h : writeObject (.flt k q) = .ok b) : (46 : UInt8) ∉ b ∧ (101 : UInt8) ∉ b ∧ (43 : UInt8) ∉ b := by
  obtain ⟨body, hd, hb⟩ := whole_prints_int k q hden hlt b h
  have key : ∀ c : UInt8, c ∈ b → c = 45 ∨ (48 ≤ c.toNat ∧ c.toNat ≤ 57) := by
    intro c hc
    rcases hb with hb | hb <;> subst hb
    · exact Or.inr (hd c hc)
    · rcases List.mem_cons.mp hc with h1 | h1
      · exact Or.inl h1
      · exact Or.inr (hd c h1)
  refine ⟨fun hc => ?_, fun hc => ?_, fun hc => ?_⟩ <;>
    · rcases key _ hc with h1 | h1
      · exact absurd h1 (by decide)
      · exact absurd h1 (by decide)

example : okBytes (writeObject (.flt .f64 1234567)) = some [49, 50, 51, 52, 53, 54, 55] ∧
    okBytes (writeObject (.flt .f64 (-1000000))) = some [45, 49, 48, 48, 48, 48, 48, 48] ∧
    okBytes (sprint (.flt .f64 1000000)) = some [49, 101, 43, 48, 54] := by decide +kernel   -- 1234567, -1000000; fmt: 1e+06
