import Proofs.HeapLemmas
import Proofs.MapOrderLemmas
import Proofs.ArrLemmas
/-!
# The filter bodies and `values.Convert(·, []any)` on the slice memory refine `Filters/Arr.lean` / `Convert.lean`

Helper lemmas for `Proofs/C15Heap.lean`. Every statement has the shape
`Refines (run (bodyH a …) st) (pure body on (view st a)) (Result st)`: the run fails exactly as the pure body
fails, and when that succeeds with `ys` the run succeeds with a well-formed slice that reads `ys` in the final
store, lies in an array allocated by the run (or is nil), and no array of `st` was touched.
-/

namespace Heap

open ArrF

/-- the general sequencing rule -/
theorem Refines.bind {α β γ δ : Type} {p : Prog α} {f : α → Prog β} {st : Store} {x : Res Cause γ} {g : γ → Res Cause δ}
    {Q1 : α → Store → γ → Prop} {Q2 : β → Store → δ → Prop}
    (h1 : Refines (run p st) x Q1) (h2 : ∀ v st1 b, Q1 v st1 b → Refines (run (f v) st1) (g b) Q2) :
    Refines (run (p.bind f) st) (x.bind g) Q2 := by
  cases x with
  | ok b =>
    obtain ⟨o1, e1, q1⟩ := h1
    exact Refines.bind_ok e1 (h2 _ _ _ q1)
  | err c => simp only [Refines] at h1; simp only [Res.bind, Refines]; rw [run_bind, h1]; rfl
  | panic w => simp only [Refines] at h1; simp only [Res.bind, Refines]; rw [run_bind, h1]; rfl
  | unmodelled w => simp only [Refines] at h1; simp only [Res.bind, Refines]; rw [run_bind, h1]; rfl

theorem Refines.ret {α β : Type} {a : α} {st : Store} {b : β} {Q : α → Store → β → Prop} (h : Q a st b) :
    Refines (run (.ret a) st) (.ok b) Q := ⟨⟨a, st, []⟩, rfl, h⟩

theorem Refines.liftR {α : Type} (r : Res Cause α) (st : Store) :
    Refines (run (liftR r) st) r (fun a st' b => a = b ∧ st' = st) := by
  cases r with
  | ok a => exact ⟨⟨a, st, []⟩, rfl, rfl, rfl⟩
  | err c => rfl
  | panic w => rfl
  | unmodelled w => rfl

theorem Refines.liftR_bind {α β : Type} {x : Res Cause α} {f : α → Prog β} {st : Store} {Q : β → Store → α → Prop}
    (h : ∀ b, x = .ok b → Refines (run (f b) st) (.ok b) Q) : Refines (run ((Heap.liftR x).bind f) st) x Q := by
  cases x with
  | ok b => exact h b rfl
  | err c => rfl
  | panic w => rfl
  | unmodelled w => rfl

/-- the result of a body started in `st`: it reads `ys`, is well-formed, is nil or in an array the run
allocated, and every array of `st` is as it was -/
def Result (st : Store) (v : Slice) (st' : Store) (ys : List GoVal) : Prop :=
  view st' v = ys ∧ Slice.wf st' v ∧ Fresh st.length v ∧ (∀ b, b < st.length → st'[b]? = st[b]?) ∧ st.length ≤ st'.length

theorem Slice.below_of_wf {st : Store} {a : Slice} (hw : Slice.wf st a) : ∀ r, a = some r → r.arr < st.length := by
  intro r hr
  subst hr
  obtain ⟨_, row, h, _⟩ := hw
  exact lt_of_getElem?_some h

theorem Result.of_collect {st : Store} {v : Slice} {st' : Store} {ys : List GoVal}
    (h : CollectPost st.length st none v st' ys) : Result st v st' ys := by
  obtain ⟨h1, h2, h3, h4, h5⟩ := h
  exact ⟨by simpa [view] using h1, h2, h3, h4, h5⟩

/-! ### `make` with everything the later steps need -/

theorem run_make' {st : Store} {len cap : Nat} (h : len ≤ cap) :
    ∃ o, run (make len cap) st = .ok o ∧ o.val = some ⟨st.length, 0, len, cap⟩ ∧ o.st = st ++ [List.replicate cap .nil] ∧
      Slice.wf o.st o.val ∧ Fresh st.length o.val ∧ (∀ b, b < st.length → o.st[b]? = st[b]?) ∧ st.length ≤ o.st.length ∧
      view o.st o.val = List.replicate len .nil := by
  refine ⟨_, run_make h, rfl, rfl, ?_, ?_, ?_, by simp, ?_⟩
  · exact ⟨h, List.replicate cap .nil, List.getElem?_concat_length, by simp⟩
  · intro r hr; cases hr; exact Nat.le_refl _
  · intro b hb; exact List.getElem?_append_left hb
  · simp only
    rw [view_some (r := ⟨st.length, 0, len, cap⟩) List.getElem?_concat_length]
    simp only [List.drop_zero, List.take_replicate]
    congr 1
    omega

/-! ### compact, map, uniq -/

theorem collectP_compact (xs : List GoVal) : collectP compactStep () xs = .ok (compactF xs) := by
  induction xs with
  | nil => rfl
  | cons x xs ih =>
    simp only [collectP, compactStep, Res.bind, ih, compactF]
    cases x.isNil <;> rfl

theorem compactH_refines {st : Store} {a : Slice} (hw : Slice.wf st a) :
    Refines (run (compactH a) st) (.ok (compactF (view st a))) (Result st) := by
  have h := collect_refines compactStep (Slice.below_of_wf hw) () (Nat.le_refl _) hw (show Slice.wf st none from trivial) (Fresh.none _)
  rw [collectP_compact] at h
  exact h.post fun _ _ _ q => Result.of_collect q

theorem collectP_map (k : Bytes) (xs : List GoVal) : collectP (mapStep k) () xs = mapF k xs := by
  induction xs with
  | nil => rfl
  | cons x xs ih =>
    simp only [collectP, mapStep, mapF, ih]
    cases propOf x k <;> simp only [Res.bind] <;> try (cases mapF k xs <;> rfl)

theorem mapH_refines {st : Store} {a : Slice} (hw : Slice.wf st a) (k : Bytes) :
    Refines (run (mapH a k) st) (mapF k (view st a)) (Result st) := by
  have h := collect_refines (mapStep k) (Slice.below_of_wf hw) () (Nat.le_refl _) hw (show Slice.wf st none from trivial) (Fresh.none _)
  rw [collectP_map] at h
  exact h.post fun _ _ _ q => Result.of_collect q

/-- the pure `uniq` on a list (`ArrF.uniq` without the wrapping) -/
def uniqP (xs : List GoVal) : Res Cause (List GoVal) :=
  if xs.any hasPtr then .unmodelled "uniq: pointer identity" else .ok (uniqF xs)

theorem collectP_uniq (xs : List GoVal) : ∀ seen : List String,
    collectP uniqStep seen xs = if xs.any hasPtr then .unmodelled "uniq: pointer identity" else .ok (uniqOn ArrF.uniqKey seen xs) := by
  induction xs with
  | nil => intro seen; rfl
  | cons x xs ih =>
    intro seen
    simp only [collectP, uniqStep, List.any_cons]
    by_cases hp : hasPtr x = true
    · simp [hp, Res.bind]
    · have hp' : hasPtr x = false := by simpa using hp
      simp only [hp', Bool.false_eq_true, if_false, Bool.false_or]
      by_cases hc : seen.contains (ArrF.uniqKey x) = true
      · simp only [hc, if_true, Res.bind, ih seen, uniqOn]
        cases xs.any hasPtr <;> simp
      · have hc' : seen.contains (ArrF.uniqKey x) = false := by simpa using hc
        simp only [hc', Bool.false_eq_true, if_false, Res.bind, ih (ArrF.uniqKey x :: seen), uniqOn]
        cases xs.any hasPtr <;> simp

theorem uniqH_refines {st : Store} {a : Slice} (hw : Slice.wf st a) :
    Refines (run (uniqH a) st) (uniqP (view st a)) (Result st) := by
  have h := collect_refines uniqStep (Slice.below_of_wf hw) [] (Nat.le_refl _) hw (show Slice.wf st none from trivial) (Fresh.none _)
  rw [collectP_uniq] at h
  exact h.post fun _ _ _ q => Result.of_collect q

theorem uniq_eq_uniqP (xs : List GoVal) : ArrF.uniq [.slice .any xs] = (uniqP xs).bind fun ys => .ok (.slice .any ys) := by
  simp only [ArrF.uniq, uniqP]
  cases xs.any hasPtr <;> simp [Res.bind]


/-! ### concat -/

theorem concatH_refines {st : Store} {a b : Slice} (hwa : Slice.wf st a) (hwb : Slice.wf st b) :
    Refines (run (concatH a b) st) (.ok (concatF (view st a) (view st b))) (Result st) := by
  obtain ⟨o0, e0, _, _, hwf0, hfr0, hk0, hm0, hview0⟩ := run_make' (st := st) (Nat.zero_le (lenS a + lenS b))
  unfold concatH
  refine Refines.bind_ok e0 ?_
  have hwa0 : Slice.wf o0.st a := Slice.wf_kept hk0 (Slice.below_of_wf hwa) hwa
  have hva0 : view o0.st a = view st a := Slice.view_kept hk0 (Slice.below_of_wf hwa)
  refine Refines.bind_ok (run_elems hwa0) ?_
  obtain ⟨o1, e1, hview1, hwf1, _⟩ := run_append hwf0 (view o0.st a)
  obtain ⟨hm1, hk1, _, hfr1⟩ := (append_above hfr0 (view o0.st a)).keeps hm0 e1
  refine Refines.bind_ok e1 ?_
  have hk01 : ∀ c, c < st.length → o1.st[c]? = st[c]? := fun c hc => by rw [hk1 c hc, hk0 c hc]
  have hwb1 : Slice.wf o1.st b := Slice.wf_kept hk01 (Slice.below_of_wf hwb) hwb
  have hvb1 : view o1.st b = view st b := Slice.view_kept hk01 (Slice.below_of_wf hwb)
  refine Refines.bind_ok (run_elems hwb1) ?_
  obtain ⟨o2, e2, hview2, hwf2, _⟩ := run_append hwf1 (view o1.st b)
  obtain ⟨hm2, hk2, _, hfr2⟩ := (append_above hfr1 (view o1.st b)).keeps (Nat.le_trans hm0 hm1) e2
  refine ⟨o2, e2, ?_, hwf2, hfr2, fun c hc => by rw [hk2 c hc, hk01 c hc], Nat.le_trans hm0 (Nat.le_trans hm1 hm2)⟩
  rw [hview2, hview1, hview0, hva0, hvb1]
  simp [concatF]

/-! ### first, last -/

theorem firstH_run {st : Store} {a : Slice} (hw : Slice.wf st a) : run (firstH a) st = .ok ⟨firstF (view st a), st, []⟩ := by
  unfold firstH
  cases a with
  | none => rfl
  | some r =>
    by_cases h0' : lenS (some r) = 0
    · have h0 : r.len = 0 := h0'
      rw [if_pos h0']
      have : view st (some r) = [] := by
        apply List.eq_nil_of_length_eq_zero
        rw [view_length_wf hw]; exact h0
      rw [this]; rfl
    · have h0 : ¬ r.len = 0 := h0'
      rw [if_neg h0']
      obtain ⟨v, hv, hrun⟩ := run_index hw (show 0 < r.len by omega)
      rw [hrun]
      cases hview : view st (some r) with
      | nil => rw [hview] at hv; cases hv
      | cons x xs =>
        rw [hview] at hv
        simp only [List.getElem?_cons_zero, Option.some.injEq] at hv
        subst hv
        rfl

theorem lastH_run {st : Store} {a : Slice} (hw : Slice.wf st a) : run (lastH a) st = .ok ⟨lastF (view st a), st, []⟩ := by
  unfold lastH
  cases a with
  | none => rfl
  | some r =>
    by_cases h0' : lenS (some r) = 0
    · have h0 : r.len = 0 := h0'
      rw [if_pos h0']
      have : view st (some r) = [] := by
        apply List.eq_nil_of_length_eq_zero
        rw [view_length_wf hw]; exact h0
      rw [this]; rfl
    · have h0 : ¬ r.len = 0 := h0'
      rw [if_neg h0']
      obtain ⟨v, hv, hrun⟩ := run_index hw (show r.len - 1 < r.len by omega)
      simp only [lenS]
      rw [hrun, lastF_eq_getD, List.getD_eq_getElem?_getD, view_length_wf hw]
      simp only [lenS]
      rw [hv]
      rfl

/-! ### reverse -/

theorem reverseLoop_spec {st0 : Store} {a : SliceRef} {res : SliceRef} (hares : res.len = a.len) (hN : a.arr < st0.length)
    (hfr : st0.length ≤ res.arr) (xs : List GoVal) :
    ∀ m i st, i + m = a.len → st0.length ≤ st.length → a.wf st → res.wf st → view st (some a) = xs →
      (∀ j, a.len - i ≤ j → j < a.len → (view st (some res))[j]? = xs[a.len - 1 - j]?) →
      ∃ o, run (reverseLoop (some a) (some res) m i) st = .ok o ∧ res.wf o.st ∧
        (∀ j, j < a.len → (view o.st (some res))[j]? = xs[a.len - 1 - j]?) ∧
        (∀ b, b < st0.length → o.st[b]? = st[b]?) ∧ st.length ≤ o.st.length
  | 0, i, st, him, _, _, hwr, _, hinv => by
    refine ⟨⟨(), st, []⟩, rfl, hwr, ?_, fun _ _ => rfl, Nat.le_refl _⟩
    intro j hj
    exact hinv j (by omega) hj
  | m + 1, i, st, him, hst, hwa, hwr, hxs, hinv => by
    obtain ⟨v, hv, hidx⟩ := run_index hwa (show i < a.len by omega)
    unfold reverseLoop
    rw [run_bind, hidx]
    simp only [thenRun, lenS, List.nil_append]
    obtain ⟨o1, e1, hview1, hwr1⟩ := run_setIndex hwr (show res.len - 1 - i < res.len by omega) v
    have hfresh : Fresh st0.length (some res) := fun r hr => by cases hr; exact hfr
    obtain ⟨hm1, hk1, _, _⟩ := (setIndex_above hfresh (res.len - 1 - i) v).keeps hst e1
    rw [run_bind, e1]
    simp only [thenRun]
    have hka : o1.st[a.arr]? = st[a.arr]? := hk1 _ hN
    have hwa1 : a.wf o1.st := wf_congr hka hwa
    have hxs1 : view o1.st (some a) = xs := by rw [view_congr hka, hxs]
    have hinv1 : ∀ j, a.len - (i + 1) ≤ j → j < a.len → (view o1.st (some res))[j]? = xs[a.len - 1 - j]? := by
      intro j hj1 hj2
      rw [hview1, List.getElem?_set]
      by_cases hji : res.len - 1 - i = j
      · rw [if_pos hji, if_pos (by rw [view_length_wf (s := some res) hwr]; simp only [lenS]; omega)]
        rw [← hxs, ← hv]
        congr 1
        omega
      · rw [if_neg hji]
        exact hinv j (by omega) hj2
    obtain ⟨o2, e2, hwr2, hall2, hk2, hm2⟩ := reverseLoop_spec hares hN hfr xs m (i + 1) o1.st (by omega) (Nat.le_trans hst hm1) hwa1 hwr1 hxs1 hinv1
    rw [e2]
    refine ⟨_, rfl, hwr2, hall2, fun b hb => by rw [hk2 b hb, hk1 b hb], Nat.le_trans hm1 hm2⟩

theorem reverseH_refines {st : Store} {a : Slice} (hw : Slice.wf st a) :
    Refines (run (reverseH a) st) (.ok (reverseF (view st a))) (Result st) := by
  obtain ⟨o0, e0, hval0, _, hwf0, hfr0, hk0, hm0, hview0⟩ := run_make' (st := st) (Nat.le_refl (lenS a))
  unfold reverseH
  refine Refines.bind_ok e0 ?_
  rw [reverseF_eq]
  cases a with
  | none =>
    simp only [lenS, reverseLoop]
    refine ⟨_, rfl, ?_, hwf0, hfr0, hk0, hm0⟩
    rw [hview0]; rfl
  | some r =>
    simp only [lenS] at hval0 hview0 ⊢
    rw [hval0] at hwf0 hfr0 hview0 ⊢
    have hwa0 : SliceRef.wf o0.st r := Slice.wf_kept (a := some r) hk0 (Slice.below_of_wf hw) hw
    have hva0 : view o0.st (some r) = view st (some r) := Slice.view_kept hk0 (Slice.below_of_wf hw)
    obtain ⟨o1, e1, hwr1, hall1, hk1, hm1⟩ := reverseLoop_spec (st0 := st) (a := r) (res := ⟨st.length, 0, r.len, r.len⟩) rfl
      (Slice.below_of_wf hw r rfl) (Nat.le_refl _) (view st (some r)) r.len 0 o0.st (by omega) hm0 hwa0 hwf0 hva0
      (by intro j h1 h2; omega)
    refine Refines.bind_ok e1 ?_
    refine ⟨_, rfl, ?_, hwr1, hfr0, fun b hb => by rw [hk1 b hb, hk0 b hb], Nat.le_trans hm0 hm1⟩
    simp only
    apply List.ext_getElem?
    intro j
    have hlen : (view st (some r)).length = r.len := view_length_wf hw
    have hlen1 : (view o1.st (some (⟨st.length, 0, r.len, r.len⟩ : SliceRef))).length = r.len :=
      view_length_wf (s := some ⟨st.length, 0, r.len, r.len⟩) hwr1
    by_cases hj : j < r.len
    · rw [hall1 j hj, List.getElem?_reverse (by omega), hlen]
    · rw [List.getElem?_eq_none (by omega), List.getElem?_eq_none (by simp only [List.length_reverse]; omega)]


/-! ### sort, sort_natural -/

theorem Res.bind_eq_ok {ε α β : Type} {x : Res ε α} {f : α → Res ε β} {b : β} (h : x.bind f = .ok b) :
    ∃ a, x = .ok a ∧ f a = .ok b := by
  cases x with
  | ok a => exact ⟨a, rfl, h⟩
  | err e => cases h
  | panic w => cases h
  | unmodelled w => cases h

theorem decorate_length (f : GoVal → R Bytes) : ∀ (xs : List GoVal) (ds : List (Bytes × GoVal)),
    decorate f xs = .ok ds → ds.length = xs.length
  | [], ds, h => by simp only [decorate, Res.ok.injEq] at h; subst h; rfl
  | x :: xs, ds, h => by
    simp only [decorate] at h
    obtain ⟨k, _, h⟩ := Res.bind_eq_ok h
    obtain ⟨r, hr, h⟩ := Res.bind_eq_ok h
    simp only [Res.ok.injEq] at h
    subst h
    simp [decorate_length f xs r hr]

theorem sortWith_ok_perm {strict : Bool} {xs : List GoVal} {key w : GoVal}
    (h : sortWith strict [.slice .any xs, key] = .ok w) : ∃ ys, w = .slice .any ys ∧ ys.Perm xs := by
  unfold sortWith at h
  split at h
  · rename_i xs' heq
    simp only [List.cons.injEq, GoVal.slice.injEq, true_and, and_true] at heq
    obtain ⟨rfl, _⟩ := heq
    obtain ⟨ys, hys, h⟩ := Res.bind_eq_ok h
    split at h
    · cases h
    · simp only [Res.ok.injEq] at h
      refine ⟨ys, h.symm, ?_⟩
      rw [(sortM_eq xs).1 ys hys]
      exact sortF_perm xs
  · rename_i xs' key' _ heq
    simp only [List.cons.injEq, GoVal.slice.injEq, true_and, and_true] at heq
    obtain ⟨rfl, _⟩ := heq
    obtain ⟨k, _, h⟩ := Res.bind_eq_ok h
    obtain ⟨ys, hys, h⟩ := Res.bind_eq_ok h
    split at h
    · cases h
    · simp only [Res.ok.injEq] at h
      refine ⟨ys, h.symm, ?_⟩
      rw [(sortByM_eq k xs).1 ys hys]
      exact sortByF_perm k xs
  · cases h

theorem sortNaturalWith_ok_perm {strict : Bool} {xs : List GoVal} {key w : GoVal}
    (h : sortNaturalWith strict [.slice .any xs, key] = .ok w) : ∃ ys, w = .slice .any ys ∧ ys.Perm xs := by
  simp only [sortNaturalWith] at h
  obtain ⟨f, _, h⟩ := Res.bind_eq_ok h
  obtain ⟨ys, hys, h⟩ := Res.bind_eq_ok h
  simp only [Res.ok.injEq] at h
  exact ⟨ys, h.symm, sortNatM_perm hys⟩

theorem sortWith_ok_length {strict : Bool} {xs : List GoVal} {key w : GoVal}
    (h : sortWith strict [.slice .any xs, key] = .ok w) : ∃ ys, w = .slice .any ys ∧ ys.length = xs.length := by
  obtain ⟨ys, h1, h2⟩ := sortWith_ok_perm h
  exact ⟨ys, h1, h2.length_eq⟩

theorem sortNaturalWith_ok_length {strict : Bool} {xs : List GoVal} {key w : GoVal}
    (h : sortNaturalWith strict [.slice .any xs, key] = .ok w) : ∃ ys, w = .slice .any ys ∧ ys.length = xs.length := by
  obtain ⟨ys, h1, h2⟩ := sortNaturalWith_ok_perm h
  exact ⟨ys, h1, h2.length_eq⟩

theorem sortedList_length {strict natural : Bool} {xs ys : List GoVal} {key : GoVal}
    (h : sortedList strict natural xs key = .ok ys) : ys.length = xs.length := by
  unfold sortedList at h
  split at h
  · rename_i ys' heq
    simp only [Res.ok.injEq] at h
    subst h
    cases natural
    · obtain ⟨zs, hz, hl⟩ := sortWith_ok_length (by simpa using heq)
      cases hz; exact hl
    · obtain ⟨zs, hz, hl⟩ := sortNaturalWith_ok_length (by simpa using heq)
      cases hz; exact hl
  all_goals cases h

/-- `copy(dst, src)` into a slice as long as the source: `dst` reads as `src` did -/
theorem run_copy_len {st : Store} {d : SliceRef} {s : Slice} (hd : d.wf st) (hs : Slice.wf st s) (hl : d.len = lenS s) :
    ∃ o, run (copy (some d) s) st = .ok o ∧ view o.st (some d) = view st s ∧ d.wf o.st := by
  cases s with
  | some r => exact run_copy_full hd hs hl
  | none =>
    refine ⟨⟨0, st, []⟩, rfl, ?_, hd⟩
    have hlen := view_length_wf (s := some d) hd
    simp only [lenS] at hl hlen
    apply List.eq_nil_of_length_eq_zero
    simp only
    omega

theorem sortH_refines {st : Store} {a : Slice} (hw : Slice.wf st a) (strict natural : Bool) (key : GoVal) :
    Refines (run (sortH strict natural a key) st) (sortedList strict natural (view st a) key) (Result st) := by
  obtain ⟨o0, e0, hval0, _, hwf0, hfr0, hk0, hm0, _⟩ := run_make' (st := st) (Nat.le_refl (lenS a))
  unfold sortH
  refine Refines.bind_ok e0 ?_
  rw [hval0] at hwf0 hfr0 ⊢
  have hwa0 : Slice.wf o0.st a := Slice.wf_kept hk0 (Slice.below_of_wf hw) hw
  have hva0 : view o0.st a = view st a := Slice.view_kept hk0 (Slice.below_of_wf hw)
  obtain ⟨o1, e1, hview1, hwf1⟩ := run_copy_len (d := ⟨st.length, 0, lenS a, lenS a⟩) hwf0 hwa0 rfl
  obtain ⟨hm1, hk1, _, _⟩ := (copy_above hfr0 a).keeps hm0 e1
  refine Refines.bind_ok e1 ?_
  refine Refines.bind_ok (run_elems (s := some ⟨st.length, 0, lenS a, lenS a⟩) hwf1) ?_
  simp only
  rw [hview1, hva0]
  refine Refines.liftR_bind ?_
  intro ys hys
  have hl : ys.length = lenS a := by rw [sortedList_length hys, view_length_wf hw]
  obtain ⟨o2, e2, hview2, hwf2⟩ := run_overwrite (r := ⟨st.length, 0, lenS a, lenS a⟩) hwf1 hl
  obtain ⟨hm2, hk2, _, _⟩ := (overwrite_above hfr0 ys).keeps (Nat.le_trans hm0 hm1) e2
  refine Refines.bind_ok e2 ?_
  exact ⟨_, rfl, hview2, hwf2, hfr0, fun b hb => by rw [hk2 b hb, hk1 b hb, hk0 b hb],
    Nat.le_trans hm0 (Nat.le_trans hm1 hm2)⟩


/-! ### join -/

theorem collectP_join (xs : List GoVal) :
    collectP joinStep () xs = (sprintNonNil xs).bind fun bs => .ok (bs.map GoVal.str) := by
  induction xs with
  | nil => rfl
  | cons x xs ih =>
    simp only [collectP, joinStep, sprintNonNil]
    cases hx : x.isNil with
    | true =>
      simp only [if_true, Res.bind, ih]
      cases sprintNonNil xs <;> rfl
    | false =>
      simp only [Bool.false_eq_true, if_false]
      cases sprintR x with
      | ok b =>
        simp only [Res.bind, ih]
        cases sprintNonNil xs <;> rfl
      | err c => rfl
      | panic w => rfl
      | unmodelled w => rfl

theorem map_strOf_str (bs : List Bytes) : (bs.map GoVal.str).map strOf = bs := by
  induction bs with
  | nil => rfl
  | cons b bs ih => simp [strOf, ih]

/-- what a body that returns a value (not a slice) leaves: the value, and every array of `st` as it was -/
def ValResult (st : Store) (v : GoVal) (st' : Store) (w : GoVal) : Prop :=
  v = w ∧ (∀ b, b < st.length → st'[b]? = st[b]?) ∧ st.length ≤ st'.length

theorem joinH_refines {st : Store} {a : Slice} (hw : Slice.wf st a) (sep : Bytes) :
    Refines (run (joinH a sep) st) (joinF (view st a) sep) (ValResult st) := by
  obtain ⟨o0, e0, _, _, hwf0, hfr0, hk0, hm0, hview0⟩ := run_make' (st := st) (Nat.zero_le (lenS a))
  unfold joinH
  refine Refines.bind_ok e0 ?_
  have hwa0 : Slice.wf o0.st a := Slice.wf_kept hk0 (Slice.below_of_wf hw) hw
  have hva0 : view o0.st a = view st a := Slice.view_kept hk0 (Slice.below_of_wf hw)
  have hcol := collect_refines joinStep (N := st.length) (Slice.below_of_wf hw) () hm0 hwa0 hwf0 hfr0
  rw [hva0, collectP_join] at hcol
  have hpure : joinF (view st a) sep =
      ((sprintNonNil (view st a)).bind fun bs => .ok (bs.map GoVal.str)).bind fun strs =>
        .ok (.str (joinBytes sep (strs.map strOf))) := by
    unfold joinF
    cases sprintNonNil (view st a) with
    | ok bs => simp only [Res.bind, map_strOf_str]
    | err c => rfl
    | panic w => rfl
    | unmodelled w => rfl
  rw [hpure]
  refine Refines.bind hcol ?_
  intro v st1 strs ⟨q1, q2, _, q4, q5⟩
  refine Refines.bind_ok (run_elems q2) ?_
  refine Refines.ret ⟨?_, fun b hb => by rw [q4 b hb, hk0 b hb], Nat.le_trans hm0 q5⟩
  simp only
  rw [q1, hview0]
  rfl

/-! ### `values.Convert(·, []any)` -/

theorem isDropTok_false {x : GoVal} (h : isDropTok x = false) : x.toLiquid = x := by
  cases x with
  | drop v => simp [isDropTok] at h
  | ptr v => cases v <;> first | rfl | simp [isDropTok] at h
  | _ => rfl

theorem convElems_of_noDrop : ∀ (xs : List GoVal), xs.any isDropTok = false → convElems xs = xs
  | [], _ => rfl
  | x :: xs, h => by
    simp only [List.any_cons, Bool.or_eq_false_iff] at h
    simp only [convElems, List.map_cons, isDropTok_false h.1]
    congr 1
    exact convElems_of_noDrop xs h.2

theorem collectP_toLiquid (xs : List GoVal) :
    collectP (fun (_ : Unit) x => .ok ((), some x.toLiquid)) () xs = .ok (convElems xs) := by
  induction xs with
  | nil => rfl
  | cons x xs ih => simp only [collectP, Res.bind, ih, convElems, List.map_cons]

theorem convElemwise_refines {st : Store} {s : Slice} (hw : Slice.wf st s) :
    Refines (run (convElemwise s) st) (.ok (convElems (view st s))) (Result st) := by
  obtain ⟨o0, e0, _, _, hwf0, hfr0, hk0, hm0, hview0⟩ := run_make' (st := st) (Nat.zero_le (lenS s))
  unfold convElemwise
  refine Refines.bind_ok e0 ?_
  have hws0 : Slice.wf o0.st s := Slice.wf_kept hk0 (Slice.below_of_wf hw) hw
  have hvs0 : view o0.st s = view st s := Slice.view_kept hk0 (Slice.below_of_wf hw)
  have hcol := collect_refines (fun (_ : Unit) x => .ok ((), some x.toLiquid)) (N := st.length) (Slice.below_of_wf hw) () hm0 hws0 hwf0 hfr0
  rw [hvs0, collectP_toLiquid] at hcol
  refine hcol.post ?_
  intro v st1 ys ⟨q1, q2, q3, q4, q5⟩
  refine ⟨?_, q2, q3, fun b hb => by rw [q4 b hb, hk0 b hb], Nat.le_trans hm0 q5⟩
  rw [q1, hview0]; rfl

/-- what a conversion leaves: a well-formed slice that reads `ys` — possibly the argument's own slice —
and every array of `st` as it was -/
def ConvResult (st : Store) (v : Slice) (st' : Store) (ys : List GoVal) : Prop :=
  view st' v = ys ∧ Slice.wf st' v ∧ (∀ b, b < st.length → st'[b]? = st[b]?) ∧ st.length ≤ st'.length

theorem Result.conv {st : Store} {v : Slice} {st' : Store} {ys : List GoVal} (h : Result st v st' ys) : ConvResult st v st' ys :=
  ⟨h.1, h.2.1, h.2.2.2.1, h.2.2.2.2⟩

theorem convSlice_refines {st : Store} {s : Slice} (hw : Slice.wf st s) (t : Ty) :
    Refines (run (convSlice t s) st) (.ok (convElems (view st s))) (ConvResult st) := by
  have hel := (convElemwise_refines hw).post fun _ _ _ q => Result.conv q
  unfold convSlice
  split
  · refine Refines.bind_ok (run_elems hw) ?_
    simp only
    cases hd : (view st s).any isDropTok with
    | true => simpa using hel
    | false =>
      simp only [Bool.false_eq_true, if_false]
      exact Refines.ret ⟨(convElems_of_noDrop _ hd).symm, hw, fun _ _ => rfl, Nat.le_refl _⟩
  · exact hel

theorem appendEach_spec {N : Nat} : ∀ (ys : List GoVal) (res : Slice) (st : Store), N ≤ st.length → Slice.wf st res → Fresh N res →
    ∃ o, run (appendEach res ys) st = .ok o ∧ CollectPost N st res o.val o.st ys
  | [], res, st, _, hw, hf => ⟨⟨res, st, []⟩, rfl, by simp, hw, hf, fun _ _ => rfl, Nat.le_refl _⟩
  | y :: ys, res, st, hN, hw, hf => by
    obtain ⟨o1, e1, hview1, hwf1, _⟩ := run_append hw [y]
    obtain ⟨hm1, hk1, _, hfr1⟩ := (append_above hf [y]).keeps hN e1
    obtain ⟨o2, e2, q1, q2, q3, q4, q5⟩ := appendEach_spec ys o1.val o1.st (Nat.le_trans hN hm1) hwf1 hfr1
    unfold appendEach
    rw [run_bind, e1]
    simp only [thenRun, e2]
    refine ⟨_, rfl, ?_, q2, q3, fun b hb => by rw [q4 b hb, hk1 b hb], Nat.le_trans hm1 q5⟩
    simp only
    rw [q1, hview1, List.append_assoc]
    rfl

theorem freshSlice_refines (st : Store) (ys : List GoVal) : Refines (run (freshSlice ys) st) (.ok ys) (Result st) := by
  obtain ⟨o0, e0, _, _, hwf0, hfr0, hk0, hm0, hview0⟩ := run_make' (st := st) (Nat.zero_le ys.length)
  unfold freshSlice
  refine Refines.bind_ok e0 ?_
  obtain ⟨o1, e1, q1, q2, q3, q4, q5⟩ := appendEach_spec ys o0.val o0.st hm0 hwf0 hfr0
  refine ⟨o1, e1, ?_, q2, q3, fun b hb => by rw [q4 b hb, hk0 b hb], Nat.le_trans hm0 q5⟩
  rw [q1, hview0]; rfl

theorem convert_anys_shape {v w : GoVal} (h : convert v .anys = .ok w) : ∃ ys, w = .slice .any ys := by
  unfold convert at h
  simp only at h
  split at h
  all_goals first
    | exact ⟨_, (Res.ok.inj h).symm⟩
    | cases h
    | (split at h
       · cases h
       · split at h
         · cases h
         · exact ⟨_, (Res.ok.inj h).symm⟩)
    | (next kvs _ =>
        rcases MapOrder.sortedMapEntries_cases (ε := Cause) kvs with ⟨_, h1⟩ | ⟨_, w, h1⟩ <;> rw [h1] at h
        · exact ⟨_, (Res.ok.inj h).symm⟩
        · cases h)

/-- the pure conversion of a receiver (or of `concat`'s argument): nil is the empty array -/
def convAnysP (g : GoVal) : Res Cause (List GoVal) :=
  match g with
  | .nil => .ok []
  | g => (convert g .anys).bind fun
    | .slice .any ys => .ok ys
    | _ => .panic "Convert: the result is not a []any"

theorem convertAnys_val {g : GoVal} (h : g ≠ .nil) : convertAnys (.val g) =
    match g.toLiquid with
    | .slice t xs => .alloc xs fun a => convSlice t (some ⟨a, 0, xs.length, xs.length⟩)
    | _ =>
      match convert g .anys with
      | .ok (.slice .any ys) => freshSlice ys
      | .ok _ => .halt (.panic "Convert: the result is not a []any")
      | .err c => .halt (.err c)
      | .panic w => .halt (.panic w)
      | .unmodelled w => .halt (.unmodelled w) := by
  cases g <;> first | exact absurd rfl h | rfl

theorem convAnysP_val {g : GoVal} (h : g ≠ .nil) : convAnysP g = (convert g .anys).bind fun
    | .slice .any ys => .ok ys
    | _ => .panic "Convert: the result is not a []any" := by
  cases g <;> first | exact absurd rfl h | rfl

theorem convert_of_slice {g : GoVal} {t : Ty} {xs : List GoVal} (h : g.toLiquid = .slice t xs) :
    convert g .anys = .ok (.slice .any (convElems xs)) := by
  simp [convert, h]

theorem convertAnys_refines {st : Store} {v : HVal} (hw : HVal.wf st v) :
    Refines (run (convertAnys v) st) (convAnysP (v.abs st)) (ConvResult st) := by
  cases v with
  | sl t s =>
    have h := convSlice_refines hw t
    simpa [convertAnys, HVal.abs, convAnysP, convert, GoVal.toLiquid, Res.bind] using h
  | val g =>
    simp only [HVal.abs]
    by_cases hn : g = .nil
    · subst hn
      exact Refines.ret ⟨rfl, trivial, fun _ _ => rfl, Nat.le_refl _⟩
    · rw [convertAnys_val hn, convAnysP_val hn]
      split
      · rename_i t xs heq
        rw [convert_of_slice heq]
        simp only [Res.bind, run]
        have hrow : (st ++ [xs])[st.length]? = some xs := List.getElem?_concat_length
        have hwf : Slice.wf (st ++ [xs]) (some ⟨st.length, 0, xs.length, xs.length⟩) :=
          ⟨Nat.le_refl _, xs, hrow, by simp⟩
        have hview : view (st ++ [xs]) (some ⟨st.length, 0, xs.length, xs.length⟩) = xs := by
          rw [view_some (r := ⟨st.length, 0, xs.length, xs.length⟩) hrow]; simp
        have h := convSlice_refines hwf t
        rw [hview] at h
        refine h.post ?_
        intro v st' ys ⟨q1, q2, q3, q4⟩
        refine ⟨q1, q2, ?_, by simp at q4; omega⟩
        intro b hb
        rw [q3 b (by simp; omega), List.getElem?_append_left hb]
      · split
        · rename_i ys heq
          rw [heq]
          exact (freshSlice_refines st ys).post fun _ _ _ q => Result.conv q
        · rename_i w hne heq
          obtain ⟨ys, rfl⟩ := convert_anys_shape heq
          exact absurd rfl (hne ys)
        · rename_i c heq; rw [heq]; rfl
        · rename_i c heq; rw [heq]; rfl
        · rename_i c heq; rw [heq]; rfl


/-! ### sort: the copy is sorted into a permutation -/

theorem sortedList_perm {strict natural : Bool} {xs ys : List GoVal} {key : GoVal}
    (h : sortedList strict natural xs key = .ok ys) : ys.Perm xs := by
  unfold sortedList at h
  split at h
  · rename_i ys' heq
    simp only [Res.ok.injEq] at h
    subst h
    cases natural
    · obtain ⟨zs, hz, hl⟩ := sortWith_ok_perm (by simpa using heq)
      cases hz; exact hl
    · obtain ⟨zs, hz, hl⟩ := sortNaturalWith_ok_perm (by simpa using heq)
      cases hz; exact hl
  all_goals cases h

end Heap
