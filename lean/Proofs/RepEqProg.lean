import Proofs.RepEqOps
import Proofs.RunLemmas
/-!
# Two renders in lock step (helper definitions and lemmas for C18)

`PRel R p p'`: the interaction trees `p` and `p'` make the same write calls, fail, panic or leave
the model in the same way, and return `R`-related results whatever the writer answers.
`MRel t d R m m'` lifts this to the render monad: from related states (`SRel`: related variables, the
same trim-writer state) to related results and related states.
-/

/-- `t`: tolerate `unmodelled` — a run that leaves the model is related to every run (the model
    makes no claim about it); with `t = false` both runs must leave the model at the same point -/
inductive PRel (t : Bool) {α : Type} (R : α → α → Prop) : Prog α → Prog α → Prop where
  | ret {a a' : α} : R a a' → PRel t R (.ret a) (.ret a')
  | fail (e : RawErr) : PRel t R (.fail e) (.fail e)
  | panic (w : String) : PRel t R (.panic w) (.panic w)
  | unmodelled (w : String) : PRel t R (.unmodelled w) (.unmodelled w)
  | call (b : Bytes) {k k' : WriteRes → Prog α} : (∀ r, PRel t R (k r) (k' r)) → PRel t R (.call b k) (.call b k')
  | unmL (ht : t = true) (w : String) (p' : Prog α) : PRel t R (.unmodelled w) p'
  | unmR (ht : t = true) (p : Prog α) (w : String) : PRel t R p (.unmodelled w)

variable {t : Bool}

theorem PRel.bind {α β} {R : α → α → Prop} {S : β → β → Prop} {p p' : Prog α} {f f' : α → Prog β}
    (hp : PRel t R p p') (hf : ∀ a a', R a a' → PRel t S (f a) (f' a')) : PRel t S (p.bind f) (p'.bind f') := by
  induction hp with
  | ret h => exact hf _ _ h
  | fail e => exact .fail e
  | panic w => exact .panic w
  | unmodelled w => exact .unmodelled w
  | call b _ ih => exact .call b (fun r => ih r)
  | unmL ht w p' => exact .unmL ht w _
  | unmR ht p w => exact .unmR ht _ w

theorem PRel.mapFail {α} {R : α → α → Prop} {p p' : Prog α} (g : RawErr → RawErr) (hp : PRel t R p p') :
    PRel t R (p.mapFail g) (p'.mapFail g) := by
  induction hp with
  | ret h => exact .ret h
  | fail e => exact .fail _
  | panic w => exact .panic w
  | unmodelled w => exact .unmodelled w
  | call b _ ih => exact .call b (fun r => ih r)
  | unmL ht w p' => exact .unmL ht w _
  | unmR ht p w => exact .unmR ht _ w

theorem PRel.mono {α} {R S : α → α → Prop} {p p' : Prog α} (hp : PRel t R p p') (h : ∀ a a', R a a' → S a a') :
    PRel t S p p' := by
  induction hp with
  | ret hr => exact .ret (h _ _ hr)
  | fail e => exact .fail e
  | panic w => exact .panic w
  | unmodelled w => exact .unmodelled w
  | call b _ ih => exact .call b (fun r => ih r)
  | unmL ht w p' => exact .unmL ht w _
  | unmR ht p w => exact .unmR ht _ w

theorem PRel.refl {α} {R : α → α → Prop} (hR : ∀ a, R a a) (p : Prog α) : PRel t R p p := by
  induction p with
  | ret a => exact .ret (hR a)
  | fail e => exact .fail e
  | panic w => exact .panic w
  | unmodelled w => exact .unmodelled w
  | call b k ih => exact .call b ih

/-- outcomes of a run on a fault-free writer -/
def ORel (t : Bool) {α} (R : α → α → Prop) : Prog.Outcome α → Prog.Outcome α → Prop
  | .ok a, .ok a' => R a a'
  | .err e, .err e' => e = e'
  | .panic w, .panic w' => w = w'
  | .unmodelled w, .unmodelled w' => t = true ∨ w = w'
  | .unmodelled _, _ => t = true
  | _, .unmodelled _ => t = true
  | _, _ => False

/-- related runs end in related outcomes, and when both succeed they have written the same text -/
theorem PRel.runPure {α} {R : α → α → Prop} {p p' : Prog α} (hp : PRel t R p p') :
    ORel t R p.runPure.2 p'.runPure.2 ∧
      (∀ a a', p.runPure.2 = .ok a → p'.runPure.2 = .ok a' → p.runPure.1 = p'.runPure.1) := by
  induction hp with
  | ret h => exact ⟨h, fun _ _ _ _ => rfl⟩
  | fail e => exact ⟨rfl, fun _ _ _ _ => rfl⟩
  | panic w => exact ⟨rfl, fun _ _ _ _ => rfl⟩
  | unmodelled w => exact ⟨.inr rfl, fun _ _ _ _ => rfl⟩
  | call b _ ih =>
    simp only [Prog.runPure]
    exact ⟨(ih .ok).1, fun a a' h1 h2 => by rw [(ih .ok).2 a a' h1 h2]⟩
  | unmL ht w p' =>
    refine ⟨?_, fun a a' h1 _ => by simp [Prog.runPure] at h1⟩
    simp only [Prog.runPure]
    cases p'.runPure.2 <;> simp [ORel, ht]
  | unmR ht p w =>
    refine ⟨?_, fun a a' _ h2 => by simp [Prog.runPure] at h2⟩
    simp only [Prog.runPure]
    cases p.runPure.2 <;> simp [ORel, ht]

/-- results of the value layer -/
def RRel (t : Bool) {α} (R : α → α → Prop) : Res Cause α → Res Cause α → Prop
  | .ok a, .ok a' => R a a'
  | .err e, .err e' => e = e'
  | .panic w, .panic w' => w = w'
  | .unmodelled w, .unmodelled w' => t = true ∨ w = w'
  | .unmodelled _, _ => t = true
  | _, .unmodelled _ => t = true
  | _, _ => False

theorem RRel.of_eq {α} {R : α → α → Prop} (hR : ∀ a, R a a) {r r' : Res Cause α} (h : r = r') : RRel t R r r' := by
  subst h; cases r <;> simp [RRel, hR]

theorem RRel.unmR {α} {R : α → α → Prop} (ht : t = true) (r : Res Cause α) (w : String) : RRel t R r (.unmodelled w) := by
  cases r <;> simp [RRel, ht]

theorem RRel.unmL {α} {R : α → α → Prop} (ht : t = true) (w : String) (r : Res Cause α) : RRel t R (.unmodelled w) r := by
  cases r <;> simp [RRel, ht]

theorem RRel.bind {α β} {R : α → α → Prop} {S : β → β → Prop} {r r' : Res Cause α} {f f' : α → Res Cause β}
    (hr : RRel t R r r') (hf : ∀ a a', R a a' → RRel t S (f a) (f' a')) : RRel t S (r.bind f) (r'.bind f') := by
  cases r <;> cases r' <;> simp only [RRel] at hr <;> simp only [Res.bind] <;> first
    | exact hf _ _ hr
    | exact RRel.unmR hr _ _
    | exact RRel.unmL hr _ _
    | (simp only [RRel]; exact hr)

theorem RRel.eq {α} {r r' : Res Cause α} (h : RRel false Eq r r') : r = r' := by
  cases r <;> cases r' <;> simp_all [RRel]

/-- strict relatedness implies the tolerant one -/
theorem RRel.weaken {α} {R : α → α → Prop} {r r' : Res Cause α} (h : RRel false R r r') : RRel t R r r' := by
  cases r <;> cases r' <;> simp_all [RRel]

/-! ## Variables and states -/

variable {d : Bool}

def EnvRel (d : Bool) (env env' : Env) : Prop := ∀ x, ERel d (env.get x) (env'.get x)

theorem EnvRel.refl (env : Env) : EnvRel d env env := fun _ => ERel.refl _

theorem Env.get_set (env : Env) (x y : Bytes) (v : GoVal) : (env.set x v).get y = if y = x then v else env.get y := by
  split
  · next h => subst h; exact Env.get_set_same env y v
  · next h => exact Env.get_set_other env x y v h

theorem EnvRel.set {env env' : Env} (h : EnvRel d env env') (x : Bytes) {v v' : GoVal} (hv : ERel d v v') :
    EnvRel d (env.set x v) (env'.set x v') := by
  intro y
  rw [Env.get_set, Env.get_set]
  split
  · exact hv
  · exact h y

structure SRel (d : Bool) (s s' : RS) : Prop where
  env : EnvRel d s.env s'.env
  tw : s.tw = s'.tw

def MRel (t d : Bool) {α} (R : α → α → Prop) (m m' : M α) : Prop :=
  ∀ s s', SRel d s s' → PRel t (fun r r' : α × RS => R r.1 r'.1 ∧ SRel d r.2 r'.2) (m s) (m' s')

theorem MRel.mono_rel {α} {R S : α → α → Prop} {m m' : M α} (h : MRel t d R m m') (hRS : ∀ a a', R a a' → S a a') :
    MRel t d S m m' :=
  fun s s' hs => (h s s' hs).mono (fun _ _ hr => ⟨hRS _ _ hr.1, hr.2⟩)

theorem mrel_bind {α β} {R : α → α → Prop} {S : β → β → Prop} {m m' : M α} {f f' : α → M β}
    (hm : MRel t d R m m') (hf : ∀ a a', R a a' → MRel t d S (f a) (f' a')) : MRel t d S (m >>= f) (m' >>= f') := by
  intro s s' hs
  exact PRel.bind (hm s s' hs) (fun ⟨a, s1⟩ ⟨a', s1'⟩ h => hf a a' h.1 s1 s1' h.2)

theorem mrel_pure {α} {R : α → α → Prop} {a a' : α} (h : R a a') : MRel t d R (pure a : M α) (pure a') :=
  fun _ _ hs => .ret ⟨h, hs⟩

theorem mrel_fail {α} {R : α → α → Prop} (e : RawErr) : MRel t d R (M.fail e : M α) (M.fail e) := fun _ _ _ => .fail e

theorem mrel_getEnv : MRel t d (EnvRel d) M.getEnv M.getEnv := fun _ _ hs => .ret ⟨hs.env, hs⟩

theorem mrel_getVar (x : Bytes) : MRel t d (ERel d) (M.getVar x) (M.getVar x) := fun _ _ hs => .ret ⟨hs.env x, hs⟩

theorem mrel_setVar (x : Bytes) {v v' : GoVal} (h : ERel d v v') :
    MRel t d (fun _ _ => True) (M.setVar x v) (M.setVar x v') :=
  fun _ _ hs => .ret ⟨trivial, ⟨hs.env.set x h, hs.tw⟩⟩

theorem mrel_ofRes {α} {R : α → α → Prop} {r r' : Res Cause α} (h : RRel t R r r') :
    MRel t d R (M.ofRes r) (M.ofRes r') := by
  intro s s' hs
  cases r <;> cases r' <;> simp only [RRel] at h <;> first
    | exact .ret ⟨h, hs⟩
    | (subst h; first | exact .fail _ | exact .panic _)
    | exact .unmL h _ _
    | exact .unmR h _ _
    | (rcases h with h | h
       · exact .unmL h _ _
       · subst h; exact .unmodelled _)

theorem mrel_mapFail {α} {R : α → α → Prop} {m m' : M α} (g : RawErr → RawErr) (hm : MRel t d R m m') :
    MRel t d R (M.mapFail g m) (M.mapFail g m') := fun s s' hs => PRel.mapFail g (hm s s' hs)

theorem mrel_wrapFailAt {α} {R : α → α → Prop} (path : Bytes) (loc : Loc) {m m' : M α} (hm : MRel t d R m m') :
    MRel t d R (wrapFailAt path loc m) (wrapFailAt path loc m') := mrel_mapFail _ hm

theorem mrel_wrapAt (path : Bytes) (loc : Loc) {m m' : M Status} (hm : MRel t d Eq m m') :
    MRel t d Eq (wrapAt path loc m) (wrapAt path loc m') := by
  rw [wrapAt_eq, wrapAt_eq]
  exact mrel_bind (mrel_mapFail _ hm) (fun a a' h => by subst h; exact mrel_pure rfl)

/-- an action that neither reads nor changes the variables -/
def EnvFree {α} (m : M α) : Prop :=
  ∀ s s' : RS, s.tw = s'.tw →
    PRel false (fun r r' : α × RS => r.1 = r'.1 ∧ r.2.tw = r'.2.tw ∧ r.2.env = s.env ∧ r'.2.env = s'.env) (m s) (m s')

theorem PRel.weaken {α} {R : α → α → Prop} {p p' : Prog α} (h : PRel false R p p') : PRel t R p p' := by
  induction h with
  | ret hr => exact .ret hr
  | fail e => exact .fail e
  | panic w => exact .panic w
  | unmodelled w => exact .unmodelled w
  | call b _ ih => exact .call b (fun r => ih r)
  | unmL ht => cases ht
  | unmR ht => cases ht

theorem mrel_of_envFree {α} {m : M α} (h : EnvFree m) : MRel t d Eq m m := by
  intro s s' hs
  refine (h s s' hs.tw).weaken.mono (fun r r' hr => ⟨hr.1, ?_, hr.2.1⟩)
  rw [hr.2.2.1, hr.2.2.2]
  exact hs.env

theorem envFree_flush : EnvFree flushM := by
  intro s s' h
  unfold flushM
  rw [← h]
  split
  · exact .ret ⟨rfl, h, rfl, rfl⟩
  · exact .call _ (fun r => by
      cases r
      · exact .ret ⟨rfl, by simp, rfl, rfl⟩
      · exact .fail _)

theorem envFree_write (b : Bytes) : EnvFree (writeM b) := by
  intro s s' h
  unfold writeM
  simp only [← h]
  split
  · exact .ret ⟨by first | rfl | trivial, rfl, rfl, rfl⟩
  · exact .call _ (fun r => by
      cases r
      · exact .ret ⟨by first | rfl | trivial, rfl, rfl, rfl⟩
      · exact .fail _)

theorem envFree_trimLeft : EnvFree trimLeftM := by
  intro s s' h
  unfold trimLeftM
  rw [← h]
  exact .call _ (fun r => by
      cases r
      · exact .ret ⟨rfl, by simp, rfl, rfl⟩
      · exact .fail _)

theorem envFree_trimRight : EnvFree trimRightM := by
  intro s s' h
  exact .ret ⟨rfl, by simp [h], rfl, rfl⟩

theorem mrel_flush : MRel t d Eq flushM flushM := mrel_of_envFree envFree_flush
theorem mrel_write (b : Bytes) : MRel t d Eq (writeM b) (writeM b) := mrel_of_envFree (envFree_write b)
theorem mrel_trimLeft : MRel t d Eq trimLeftM trimLeftM := mrel_of_envFree envFree_trimLeft
theorem mrel_trimRight : MRel t d Eq trimRightM trimRightM := mrel_of_envFree envFree_trimRight

theorem mrel_writeVerbatim (b : Bytes) : MRel t d Eq (writeVerbatimM b) (writeVerbatimM b) := by
  unfold writeVerbatimM
  exact mrel_bind (mrel_write []) (fun _ _ _ => mrel_bind (mrel_write b) (fun _ _ _ => mrel_flush))

theorem mrel_writeAll : ∀ cs, MRel t d Eq (writeAllM cs) (writeAllM cs)
  | [] => mrel_pure rfl
  | c :: cs => by
    unfold writeAllM
    exact mrel_bind (mrel_writeVerbatim c) (fun _ _ _ => mrel_writeAll cs)

theorem mrel_tablerowBefore (cols i : Nat) : MRel t d Eq (tablerowBefore cols i) (tablerowBefore cols i) := by
  unfold tablerowBefore
  simp only
  split
  · exact mrel_bind (mrel_write _) (fun _ _ _ => mrel_write _)
  · exact mrel_write _

theorem mrel_tablerowAfter (cols i l : Nat) : MRel t d Eq (tablerowAfter cols i l) (tablerowAfter cols i l) := by
  unfold tablerowAfter
  refine mrel_bind (mrel_write _) (fun _ _ _ => ?_)
  split
  · exact mrel_write _
  · exact mrel_pure rfl

/-- a capture: the same text, related results and variables -/
theorem mrel_capture {α} {R : α → α → Prop} {m m' : M α} (hm : MRel t d R m m') :
    MRel t d (fun r r' : α × Bytes => R r.1 r'.1 ∧ r.2 = r'.2) (captureM m) (captureM m') := by
  intro s s' hs
  unfold captureM
  simp only
  have hp : PRel t (fun r r' : α × RS => R r.1 r'.1 ∧ SRel d r.2 r'.2)
      ((m { env := s.env, tw := {} }).bind (fun (a, s1) => (flushM s1).bind (fun (_, s2) => .ret (a, s2))))
      ((m' { env := s'.env, tw := {} }).bind (fun (a, s1) => (flushM s1).bind (fun (_, s2) => .ret (a, s2)))) := by
    refine PRel.bind (hm _ _ ⟨hs.env, rfl⟩) (fun ⟨a, s1⟩ ⟨a', s1'⟩ h => ?_)
    exact PRel.bind (mrel_flush s1 s1' h.2) (fun ⟨_, s2⟩ ⟨_, s2'⟩ h2 => .ret ⟨h.1, h2.2⟩)
  have hr := hp.runPure
  revert hr
  generalize ((m { env := s.env, tw := {} }).bind (fun (a, s1) => (flushM s1).bind (fun (_, s2) => Prog.ret (a, s2)))).runPure = q
  generalize ((m' { env := s'.env, tw := {} }).bind (fun (a, s1) => (flushM s1).bind (fun (_, s2) => Prog.ret (a, s2)))).runPure = q'
  obtain ⟨out, o⟩ := q
  obtain ⟨out', o'⟩ := q'
  intro hr
  simp only at hr
  obtain ⟨h2, h1⟩ := hr
  cases o <;> cases o' <;> simp only [ORel] at h2 <;> first
    | (next r r' =>
        obtain ⟨a, s2⟩ := r
        obtain ⟨a', s2'⟩ := r'
        have := h1 _ _ rfl rfl
        subst this
        exact .ret ⟨⟨h2.1, rfl⟩, ⟨h2.2.env, hs.tw⟩⟩)
    | (subst h2; first | exact .fail _ | exact .panic _)
    | exact .unmL h2 _ _
    | exact .unmR h2 _ _
    | (rcases h2 with h2 | h2
       · exact .unmL h2 _ _
       · subst h2; exact .unmodelled _)
