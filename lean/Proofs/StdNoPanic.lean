import Proofs.StdNoPanicLemmas
import Proofs.ArrNoPanic
import Proofs.JsonLemmas
import Proofs.DateLemmas
/-!
# The standard value layer never panics (the hypothesis of `run_noPanic`, discharged)

`PrimsNoPanic stdPrims stdOut`: the comparison operators, `values.Equal`, the filter call layer
(`ApplyFilter` + `values.Call` + every modelled filter body) and `writeObject` of the standard
configuration (`Liquid/Std.lean`) never return `Res.panic`.

The `.panic` sites of the model and why none is reachable:

* `Compare.lean` (17 sites: the `reflect` accessors and Go's `==` on uncomparable types) — by the
  theorems of `Proofs/CompareLemmas.lean` / `C09.lean` (`rel_no_panic`, `Cmp.equal_noPanic`);
* `Num.badArgs`, `ArrF.badArgs`, `JsonF.badArgs`, `DateF.badArgs` (a body applied to arguments of the wrong Go type) — `values.Call` converts every
  argument to the parameter type of the registered signature first (`convertArgs_ok`), and each
  body's pattern is exactly its signature (`ImplsNoPanic`: a body is only required to be panic-free
  on arguments that are well typed for the signature registered under its name);
* `FilterImpl.ofEager`, `StrGlue.impl` — only propagate a panic of the body (`Str.lean` has none) or
  of a lazily converted default-function constant (`convert_noPanic`).
-/

open Cmp in
/-- the four comparison primitives of `stdPrims` (`==`, `<`, `contains`, `values.Equal`) never panic -/
theorem cmp_noPanic (a b : GoVal) :
    NoPanicRes (stdPrims.equal a b) ∧ NoPanicRes (stdPrims.less a b) ∧
    NoPanicRes (stdPrims.contains a b) ∧ NoPanicRes (stdPrims.equalFn a b) :=
  ⟨NoPanicRes.of_isPanic (relW_noPanic .eq _ _ (operand_ok _) (operand_ok _)),
   NoPanicRes.of_isPanic (relW_noPanic .lt _ _ (operand_ok _) (operand_ok _)),
   NoPanicRes.of_isPanic (relW_noPanic .contains _ _ (operand_ok _) (operand_ok _)),
   NoPanicRes.of_isPanic (equal_noPanic _ _)⟩

example : stdPrims.equal (.slice .any [.int .int 1]) (.slice .any [.int .u8 1]) = .ok true := by decide +kernel

/-- the `w.Write` chunks of `writeObject` -/
theorem stdChunks_noPanic (v : GoVal) : NoPanicRes (stdChunks v) := writeChunksL_noPanic _

example : (stdChunks (.slice .any [.int .int 1, .drop (.str [97])])).isOk = true := by decide +kernel

/-! ## The filter tables -/

/-- the numeric filters, `default` and `size` -/
theorem numImpls_noPanic : ImplsNoPanic Num.impls := by
  unfold Num.impls
  refine .cons (implNP_of_sig (ps := [.val .f64]) (by decide +kernel) Num.abs_noPanic) ?_
  refine .cons (implNP_of_sig (ps := [.val .f64]) (by decide +kernel) Num.ceil_noPanic) ?_
  refine .cons (implNP_of_sig (ps := [.val .f64]) (by decide +kernel) Num.floor_noPanic) ?_
  refine .cons (implNP_of_sig (ps := [.val .f64, .val .f64]) (by decide +kernel) Num.plus_noPanic) ?_
  refine .cons (implNP_of_sig (ps := [.val .f64, .val .f64]) (by decide +kernel) Num.minus_noPanic) ?_
  refine .cons (implNP_of_sig (ps := [.val .f64, .val .f64]) (by decide +kernel) Num.times_noPanic) ?_
  refine .cons (implNP_of_sig (ps := [.val .f64, .val .f64]) (by decide +kernel) Num.modulo_noPanic) ?_
  refine .cons (implNP_of_sig (ps := [.val .f64, .val .any]) (by decide +kernel) Num.dividedBy_noPanic) ?_
  refine .cons (implNP_of_sig (ps := [.val .f64, .fn .int]) (by decide +kernel) Num.round_noPanic) ?_
  refine .cons (implNP_of_sig (ps := [.val .any, .val .any]) (by decide +kernel) Num.default_noPanic) ?_
  refine .cons (implNP_of_sig (ps := [.val .any]) (by decide +kernel) Num.size_noPanic) ?_
  exact .nil

/-- the string filters -/
theorem strImpls_noPanic : ImplsNoPanic StrGlue.impls := by
  intro name f hm sg _ args ha
  unfold StrGlue.impls at hm
  obtain ⟨n, _, heq⟩ := List.mem_map.mp hm
  cases heq
  exact StrGlue.impl_noPanic n args ha.np

-- the hypothesis `ArgsOK` of the body lemmas is what `values.Call` produces, e.g. for `x | round: "2"`
example : ArgsOK [.val .f64, .fn .int] [.val (.flt .f64 1), .fn (some (convert (.str [50]) .int))] :=
  .cons ⟨1, rfl⟩ (.cons ⟨convert_noPanic _ _, fun _ h => convert_hasTy h⟩ .nil)

/-- `json`, `inspect`, `type`: the model of `json.Marshal` and of `%T` has no panic site at all
    (`Proofs/JsonLemmas.lean`); the bodies match exactly the one `any` argument of their signature -/
theorem jsonImpls_noPanic : ImplsNoPanic JsonF.impls := by
  unfold JsonF.impls
  refine .cons (implNP_of_sig (ps := [.val .any]) (by decide +kernel) JsonF.json_noPanic) ?_
  refine .cons (implNP_of_sig (ps := [.val .any]) (by decide +kernel) JsonF.inspect_noPanic) ?_
  refine .cons (implNP_of_sig (ps := [.val .any]) (by decide +kernel) JsonF.typeF_noPanic) ?_
  exact .nil

/-- `date`: the model of `tuesday.Strftime` and of the calendar has no panic site (`Proofs/DateLemmas.lean`);
    the body matches the time receiver and the string default function of its signature, and the lazy
    conversion of the format argument is the recovered `TypeError` of the call layer -/
theorem dateImpls_noPanic : ImplsNoPanic DateF.impls := by
  unfold DateF.impls
  refine .cons (implNP_of_sig (ps := [.val .time, .fn .str]) (by decide +kernel) DateF.date_noPanic) ?_
  exact .nil

/-- the whole table of `Liquid/Std.lean`: all 48 registered filters -/
theorem stdFilterImpls_noPanic : ImplsNoPanic stdFilterImpls :=
  (((numImpls_noPanic.append strImpls_noPanic).append arrImpls_noPanic).append jsonImpls_noPanic).append dateImpls_noPanic

-- the table is not vacuous: these calls reach a body (`"1.5" | round: 1`, `5 | upcase`, `(1..3) | join: 0`)
example : (applyFilter (lookupImpl stdFilterImpls) (Num.bn "round") (.str [49, 46, 53]) [.int .int 1]).isOk = true := by
  decide +kernel
example : (applyFilter (lookupImpl stdFilterImpls) (Num.bn "upcase") (.int .int 5) []).isOk = true := by
  decide +kernel
example : (applyFilter (lookupImpl stdFilterImpls) (Num.bn "join") (.range 1 3) [.int .int 0]).isOk = true := by
  decide +kernel
-- `m | json` for a `map[string]any{"b": [1, nil, "<"]}` is `{"b":[1,null,"\u003c"]}`; `3 | type` is `int`
example : (match applyFilter (lookupImpl stdFilterImpls) (Num.bn "json")
      (.map .str .any [(.str [98], .slice .any [.int .int 1, .nil, .str [60]])]) [] with
    | .ok (.str s) => s == [123, 34, 98, 34, 58, 91, 49, 44, 110, 117, 108, 108, 44, 34, 92, 117, 48, 48, 51, 99, 34, 93, 125]
    | _ => false) = true := by
  decide +kernel
example : (match applyFilter (lookupImpl stdFilterImpls) (Num.bn "type") (.int .int 3) [] with
    | .ok (.str s) => s == [105, 110, 116]
    | _ => false) = true := by
  decide +kernel

-- `t | date: "%Y-%m-%d"` for 2000-02-29 is `2000-02-29`; `"2020-01-02" | date` is `Thu, Jan 02, 20`
example : (match applyFilter (lookupImpl stdFilterImpls) [100, 97, 116, 101] (.time 951782400) [.str [37, 89, 45, 37, 109, 45, 37, 100]] with
    | .ok (.str s) => s == [50, 48, 48, 48, 45, 48, 50, 45, 50, 57]
    | _ => false) = true := by
  decide +kernel
example : (match applyFilter (lookupImpl stdFilterImpls) [100, 97, 116, 101] (.str [50, 48, 50, 48, 45, 48, 49, 45, 48, 50]) [] with
    | .ok (.str s) => s == [84, 104, 117, 44, 32, 74, 97, 110, 32, 48, 50, 44, 32, 50, 48]
    | _ => false) = true := by
  decide +kernel

/-! ## Assembly -/

/-- the standard value layer never panics when its filter bodies do not -/
theorem stdPrims_noPanic (ht : ImplsNoPanic stdFilterImpls) : PrimsNoPanic stdPrims stdOut where
  equal a b := (cmp_noPanic a b).1
  less a b := (cmp_noPanic a b).2.1
  contains a b := (cmp_noPanic a b).2.2.1
  equalFn a b := (cmp_noPanic a b).2.2.2
  applyFilter n r as := applyFilter_noPanic ht n r as
  chunks v := stdChunks_noPanic v

/-- **the hypothesis of `run_noPanic` holds for the standard configuration** -/
theorem std_noPanic : PrimsNoPanic stdPrims stdOut := stdPrims_noPanic stdFilterImpls_noPanic
