import Proofs.ToLiquidLemmas
import Proofs.MapOrder
import Proofs.RepEq
/-!
# Values that differ in the order of map entries (helper definitions and lemmas for C02)

`MP a b` ("`b` is `a` with the entry lists of maps permuted, at any depth"): the relation under which
rendering is invariant (`Proofs/C02.lean`). It is defined inductively on `GoVal`:

* `refl`: every value is related to itself;
* `map`: `.map kt vt kvs ~ .map kt vt kvs'` when `kvs'` is a permutation of a list `mid` that has the keys
  of `kvs`, in the same order, with related values — provided the keys of `kvs` are booleans, numbers
  or strings, pairwise distinct as Go map keys (`MapOrder.KeysOK`: what the keys of one Go map of these
  kinds always are) and of the map's key type (`KeysTyped`);
* `mapVals`: the same without the permutation, for every map (whatever its keys);
* congruence for slices, fixed arrays, ordered maps (`yaml.MapSlice`: the order of its items is part of
  the value and is kept), `IterationKeyedMap`s and structs (values related field by field), pointers
  and drops.

The renderer's own `forloop` record (recognised by the unexported Go type of its counter map, which no
binding can have: `Ty.priv`) is related to itself only: the two map constructors do not apply to a map
of that type or holding a value of that type (`NoPriv`).
-/

open GoVal MapOrder

/-- the renderer's unexported counter map (`tags.cycleCounters`) -/
def isPrivMap : GoVal → Bool
  | .map _ .priv _ => true
  | _ => false

/-- no entry holds the renderer's counter map -/
def NoPriv (kvs : List (GoVal × GoVal)) : Prop := ∀ kv ∈ kvs, isPrivMap kv.2 = false

/-- the dynamic type of a key is the one the key type of its map admits (`any` admits all) -/
def keyHasTy : Ty → GoVal → Bool
  | .any, _ => true
  | .str, .str _ => true
  | .int k, .int k' _ => k == k'
  | .flt k, .flt k' _ => k == k'
  | .bool, .bool _ => true
  | _, _ => false

/-- the keys of a map have its key type — as the keys of a Go map do -/
def KeysTyped (kt : Ty) (kvs : List (GoVal × GoVal)) : Prop := ∀ kv ∈ kvs, keyHasTy kt kv.1 = true

/-- no field holds the renderer's counter map -/
def NoPrivF (fs : List (Bytes × GoVal)) : Prop := ∀ f ∈ fs, isPrivMap f.2 = false

mutual
inductive MP : GoVal → GoVal → Prop
  | refl (v : GoVal) : MP v v
  | slice (t : Ty) {xs ys : List GoVal} : MPL xs ys → MP (.slice t xs) (.slice t ys)
  | array (t : Ty) {xs ys : List GoVal} : MPL xs ys → MP (.array t xs) (.array t ys)
  | map (kt vt : Ty) {kvs mid kvs' : List (GoVal × GoVal)} : vt ≠ .priv → KeysOK kvs → NoPriv kvs →
      MPV kvs mid → mid.Perm kvs' → KeysTyped kt kvs → MP (.map kt vt kvs) (.map kt vt kvs')
  | mapVals (kt vt : Ty) {kvs kvs' : List (GoVal × GoVal)} : vt ≠ .priv → NoPriv kvs →
      MPV kvs kvs' → MP (.map kt vt kvs) (.map kt vt kvs')
  | mapSlice {kvs kvs' : List (GoVal × GoVal)} : MPV kvs kvs' → MP (.mapSlice kvs) (.mapSlice kvs')
  | keyedMap {fs fs' : List (Bytes × GoVal)} : NoPrivF fs → MPF fs fs' → MP (.keyedMap fs) (.keyedMap fs')
  | struct {fs fs' : List (Bytes × GoVal)} : MPF fs fs' → MP (.struct fs) (.struct fs')
  | ptr {v w : GoVal} : MP v w → MP (.ptr v) (.ptr w)
  | drop {v w : GoVal} : MP v w → MP (.drop v) (.drop w)
/-- lists, element by element -/
inductive MPL : List GoVal → List GoVal → Prop
  | nil : MPL [] []
  | cons {x y : GoVal} {xs ys : List GoVal} : MP x y → MPL xs ys → MPL (x :: xs) (y :: ys)
/-- entry lists with the same keys in the same order and related values -/
inductive MPV : List (GoVal × GoVal) → List (GoVal × GoVal) → Prop
  | nil : MPV [] []
  | cons (k : GoVal) {v w : GoVal} {r r' : List (GoVal × GoVal)} : MP v w → MPV r r' → MPV ((k, v) :: r) ((k, w) :: r')
/-- named values with the same names in the same order and related values -/
inductive MPF : List (Bytes × GoVal) → List (Bytes × GoVal) → Prop
  | nil : MPF [] []
  | cons (k : Bytes) {v w : GoVal} {r r' : List (Bytes × GoVal)} : MP v w → MPF r r' → MPF ((k, v) :: r) ((k, w) :: r')
end

/-! ## Lists -/

theorem MPL.refl : ∀ xs : List GoVal, MPL xs xs
  | [] => .nil
  | x :: xs => .cons (.refl x) (MPL.refl xs)

theorem MPV.refl : ∀ kvs : List (GoVal × GoVal), MPV kvs kvs
  | [] => .nil
  | (k, v) :: r => .cons k (.refl v) (MPV.refl r)

theorem MPF.refl : ∀ fs : List (Bytes × GoVal), MPF fs fs
  | [] => .nil
  | (k, v) :: r => .cons k (.refl v) (MPF.refl r)

theorem MPL.length_eq : ∀ {xs ys : List GoVal}, MPL xs ys → xs.length = ys.length
  | _, _, .nil => rfl
  | _, _, .cons _ h => by simp [MPL.length_eq h]

theorem MPV.length_eq : ∀ {xs ys : List (GoVal × GoVal)}, MPV xs ys → xs.length = ys.length
  | _, _, .nil => rfl
  | _, _, .cons _ _ h => by simp [MPV.length_eq h]

theorem MPF.length_eq : ∀ {xs ys : List (Bytes × GoVal)}, MPF xs ys → xs.length = ys.length
  | _, _, .nil => rfl
  | _, _, .cons _ _ h => by simp [MPF.length_eq h]

theorem MPV.keys_eq : ∀ {xs ys : List (GoVal × GoVal)}, MPV xs ys → xs.map (·.1) = ys.map (·.1)
  | _, _, .nil => rfl
  | _, _, .cons _ _ h => by simp [MPV.keys_eq h]

theorem MPL.append : ∀ {xs ys xs' ys' : List GoVal}, MPL xs ys → MPL xs' ys' → MPL (xs ++ xs') (ys ++ ys')
  | _, _, _, _, .nil, h => h
  | _, _, _, _, .cons hx h, h' => .cons hx (MPL.append h h')

theorem MPV.append : ∀ {xs ys xs' ys' : List (GoVal × GoVal)}, MPV xs ys → MPV xs' ys' → MPV (xs ++ xs') (ys ++ ys')
  | _, _, _, _, .nil, h => h
  | _, _, _, _, .cons k hx h, h' => .cons k hx (MPV.append h h')

theorem MPL.reverse : ∀ {xs ys : List GoVal}, MPL xs ys → MPL xs.reverse ys.reverse
  | _, _, .nil => .nil
  | _, _, .cons hx h => by
    simp only [List.reverse_cons]
    exact MPL.append (MPL.reverse h) (.cons hx .nil)

theorem MPV.reverse : ∀ {xs ys : List (GoVal × GoVal)}, MPV xs ys → MPV xs.reverse ys.reverse
  | _, _, .nil => .nil
  | _, _, .cons k hx h => by
    simp only [List.reverse_cons]
    exact MPV.append (MPV.reverse h) (.cons k hx .nil)

theorem MPL.drop : ∀ (n : Nat) {xs ys : List GoVal}, MPL xs ys → MPL (xs.drop n) (ys.drop n)
  | 0, _, _, h => h
  | _ + 1, _, _, .nil => .nil
  | n + 1, _, _, .cons _ h => MPL.drop n h

theorem MPL.take : ∀ (n : Nat) {xs ys : List GoVal}, MPL xs ys → MPL (xs.take n) (ys.take n)
  | 0, _, _, _ => .nil
  | _ + 1, _, _, .nil => .nil
  | n + 1, _, _, .cons hx h => .cons hx (MPL.take n h)

theorem MPL.getD : ∀ {xs ys : List GoVal}, MPL xs ys → ∀ n : Nat, MP (xs.getD n .nil) (ys.getD n .nil)
  | _, _, .nil, _ => .refl _
  | _, _, .cons hx _, 0 => hx
  | _, _, .cons _ h, n + 1 => by simpa using MPL.getD h n

theorem MPL.head : ∀ {xs ys : List GoVal}, MPL xs ys → MP (xs.head?.getD .nil) (ys.head?.getD .nil)
  | _, _, .nil => .refl _
  | _, _, .cons hx _ => hx

theorem MPL.getLast : ∀ {xs ys : List GoVal}, MPL xs ys → MP (xs.getLast?.getD .nil) (ys.getLast?.getD .nil) := by
  intro xs ys h
  have := MPL.head (MPL.reverse h)
  simpa [List.head?_reverse] using this

theorem MPL.map_of {f g : GoVal → GoVal} (hfg : ∀ x y, MP x y → MP (f x) (g y)) :
    ∀ {xs ys : List GoVal}, MPL xs ys → MPL (xs.map f) (ys.map g)
  | _, _, .nil => .nil
  | _, _, .cons hx h => .cons (hfg _ _ hx) (MPL.map_of hfg h)

/-- the values of related entry lists -/
theorem MPV.vals : ∀ {xs ys : List (GoVal × GoVal)}, MPV xs ys → MPL (xs.map (·.2)) (ys.map (·.2))
  | _, _, .nil => .nil
  | _, _, .cons _ hx h => .cons hx (MPV.vals h)

theorem MPF.vals : ∀ {xs ys : List (Bytes × GoVal)}, MPF xs ys → MPL (xs.map (·.2)) (ys.map (·.2))
  | _, _, .nil => .nil
  | _, _, .cons _ hx h => .cons hx (MPF.vals h)

theorem MPF.names_eq : ∀ {xs ys : List (Bytes × GoVal)}, MPF xs ys → xs.map (·.1) = ys.map (·.1)
  | _, _, .nil => rfl
  | _, _, .cons _ _ h => by simp [MPF.names_eq h]

/-! ## Heads: related values have the same constructor; scalars are related to themselves only -/

/-- values no constructor but `refl` relates -/
def rigidM : GoVal → Bool
  | .nil | .bool _ | .int _ _ | .flt _ _ | .str _ | .bytes _ | .range _ _ | .nilPtr | .time _ => true
  | _ => false

theorem MP.eq_of_rigid_left {a b : GoVal} (h : MP a b) (ha : rigidM a = true) : b = a := by
  cases h <;> first | rfl | simp [rigidM] at ha

theorem MP.eq_of_rigid_right {a b : GoVal} (h : MP a b) (hb : rigidM b = true) : a = b := by
  cases h <;> first | rfl | simp [rigidM] at hb

theorem MP.rigid_eq {a b : GoVal} (h : MP a b) : rigidM a = rigidM b := by
  cases h <;> rfl

/-- related values are the same scalar, or both are containers -/
theorem MP.cases_rigid {a b : GoVal} (h : MP a b) : b = a ∨ (rigidM a = false ∧ rigidM b = false) := by
  cases hr : rigidM a with
  | true => exact .inl (h.eq_of_rigid_left hr)
  | false => exact .inr ⟨rfl, by rw [← h.rigid_eq, hr]⟩

/-! ## The renderer's record -/

theorem MP.priv_eq {a b : GoVal} (h : MP a b) : isPrivMap a = isPrivMap b := by
  cases h with
  | map kt vt hv _ _ _ _ _ => cases vt <;> simp_all [isPrivMap]
  | mapVals kt vt hv _ _ => cases vt <;> simp_all [isPrivMap]
  | _ => rfl

theorem MPV.noPriv : ∀ {xs ys : List (GoVal × GoVal)}, MPV xs ys → NoPriv xs → NoPriv ys
  | _, _, .nil, _ => by intro kv h; cases h
  | _, _, .cons k hx h, hn => by
    intro kv hkv
    rcases List.mem_cons.mp hkv with rfl | hkv
    · rw [← hx.priv_eq]; exact hn _ List.mem_cons_self
    · exact MPV.noPriv h (fun kv' h' => hn kv' (List.mem_cons_of_mem _ h')) kv hkv

theorem noPriv_not_rec {kt vt : Ty} {kvs : List (GoVal × GoVal)} (h : NoPriv kvs) : cyclesOf (.map kt vt kvs) = none := by
  cases hc : cyclesOf (.map kt vt kvs) with
  | none => rfl
  | some x =>
    have hr : isRec (.map kt vt kvs) = true := by simp [isRec, hc]
    obtain ⟨cyc, rest, he⟩ := (isRec_iff _).mp hr
    injection he with _ _ he
    subst he
    have := h _ List.mem_cons_self
    simp [isPrivMap] at this

/-- the cycle counters of related bindings: the same record, or no record on either side -/
theorem MP.cyclesOf {a b : GoVal} (h : MP a b) : a = b ∨ (cyclesOf a = none ∧ cyclesOf b = none) := by
  cases h with
  | refl => exact .inl rfl
  | map kt vt hv hk hn hm hp =>
    refine .inr ⟨noPriv_not_rec hn, noPriv_not_rec ?_⟩
    intro kv hkv
    exact MPV.noPriv hm hn kv (hp.symm.subset hkv)
  | mapVals kt vt hv hn hm => exact .inr ⟨noPriv_not_rec hn, noPriv_not_rec (MPV.noPriv hm hn)⟩
  | _ => exact .inr ⟨rfl, rfl⟩

/-! ## `unwrap`, `ToLiquid` -/

/-- the constructor of a value -/
def headTag : GoVal → Nat
  | .nil => 0 | .bool _ => 1 | .int _ _ => 2 | .flt _ _ => 3 | .str _ => 4 | .bytes _ => 5 | .slice _ _ => 6
  | .array _ _ => 7 | .map _ _ _ => 8 | .mapSlice _ => 9 | .keyedMap _ => 10 | .range _ _ => 11 | .ptr _ => 12
  | .nilPtr => 13 | .drop _ => 14 | .struct _ => 15 | .time _ => 16

theorem MP.headTag_eq {a b : GoVal} (h : MP a b) : headTag a = headTag b := by
  cases h <;> rfl

theorem unwrap_self_of_tag {v : GoVal} (h : headTag v ≠ 12 ∧ headTag v ≠ 13 ∧ headTag v ≠ 14) : v.unwrap = v := by
  cases v <;> simp_all [headTag, GoVal.unwrap]

/-- a pointer to something that is neither a drop nor a struct (`time.Time` and `values.Range` included) is followed -/
theorem unwrap_ptr_of_tag {v : GoVal} (h : headTag v ≠ 14 ∧ headTag v ≠ 15 ∧ headTag v ≠ 11 ∧ headTag v ≠ 16) :
    (GoVal.ptr v).unwrap = v.unwrap := by
  cases v <;> simp_all [headTag, GoVal.unwrap]

theorem MP.unwrap : ∀ {a b : GoVal}, MP a b → MP a.unwrap b.unwrap := by
  intro a
  induction a using GoVal.unwrap.induct with
  | case1 v ih =>
    intro b h
    cases h with
    | refl => exact .refl _
    | drop h' => simpa [GoVal.unwrap] using ih h'
  | case2 => intro b h; cases h; exact .refl _
  | case3 v ih =>
    intro b h
    cases h with
    | refl => exact .refl _
    | ptr h' =>
      cases h' with
      | refl => exact .refl _
      | drop h'' => simpa [GoVal.unwrap] using ih h''
  | case4 fs =>
    intro b h
    cases h with
    | refl => exact .refl _
    | ptr h' =>
      cases h' with
      | refl => exact .refl _
      | struct hf => simpa [GoVal.unwrap] using MP.ptr (MP.struct hf)
  | case5 x y => intro b h; cases h with
    | refl => exact .refl _
    | ptr h' => cases h'; exact .refl _
  | case6 u => intro b h; cases h with
    | refl => exact .refl _
    | ptr h' => cases h'; exact .refl _
  | case7 v h1 h2 h3 h4 ih =>
    intro b h
    cases h with
    | refl => exact .refl _
    | @ptr _ w h' =>
      have tv : headTag v ≠ 14 ∧ headTag v ≠ 15 ∧ headTag v ≠ 11 ∧ headTag v ≠ 16 := by
        cases v <;> simp [headTag] <;> first | (exact absurd rfl (h1 _)) | (exact absurd rfl (h2 _)) | (exact absurd rfl (h3 _ _)) | (exact absurd rfl (h4 _))
      have tw := tv
      rw [h'.headTag_eq] at tw
      rw [unwrap_ptr_of_tag tv, unwrap_ptr_of_tag tw]
      exact ih h'
  | case8 v h1 h2 h3 h4 h5 h6 h7 =>
    intro b h
    have tv : headTag v ≠ 12 ∧ headTag v ≠ 13 ∧ headTag v ≠ 14 := by
      cases v <;> simp [headTag] <;> first | (exact absurd rfl (h1 _)) | (exact absurd rfl h2) | (exact absurd rfl (h7 _))
    have tb := tv
    rw [h.headTag_eq] at tb
    rw [unwrap_self_of_tag tv, unwrap_self_of_tag tb]
    exact h

theorem toLiquid_self {v : GoVal} (h1 : headTag v ≠ 14) (h2 : ∀ w, v = .ptr w → headTag w ≠ 14) : v.toLiquid = v := by
  cases v with
  | drop w => simp [headTag] at h1
  | ptr w => cases w <;> first | rfl | (have := h2 _ rfl; simp [headTag] at this)
  | _ => rfl

theorem MP.toLiquid : ∀ {a b : GoVal}, MP a b → MP a.toLiquid b.toLiquid
  | _, _, .refl v => .refl _
  | _, _, .drop h => by simpa using MP.toLiquid h
  | _, _, .ptr (.refl v) => .refl _
  | _, _, .ptr (.drop h) => by simpa using MP.toLiquid h
  | _, _, .ptr (.slice t h) => by simpa [GoVal.toLiquid] using MP.ptr (MP.slice t h)
  | _, _, .ptr (.array t h) => by simpa [GoVal.toLiquid] using MP.ptr (MP.array t h)
  | _, _, .ptr (.map kt vt h1 h2 h3 h4 h5 h6) => by simpa [GoVal.toLiquid] using MP.ptr (MP.map kt vt h1 h2 h3 h4 h5 h6)
  | _, _, .ptr (.mapVals kt vt h1 h2 h3) => by simpa [GoVal.toLiquid] using MP.ptr (MP.mapVals kt vt h1 h2 h3)
  | _, _, .ptr (.mapSlice h) => by simpa [GoVal.toLiquid] using MP.ptr (MP.mapSlice h)
  | _, _, .ptr (.keyedMap h1 h2) => by simpa [GoVal.toLiquid] using MP.ptr (MP.keyedMap h1 h2)
  | _, _, .ptr (.struct h) => by simpa [GoVal.toLiquid] using MP.ptr (MP.struct h)
  | _, _, .ptr (.ptr h) => by simpa [GoVal.toLiquid] using MP.ptr (MP.ptr h)
  | _, _, .slice t h => by simpa [GoVal.toLiquid] using MP.slice t h
  | _, _, .array t h => by simpa [GoVal.toLiquid] using MP.array t h
  | _, _, .map kt vt h1 h2 h3 h4 h5 h6 => by simpa [GoVal.toLiquid] using MP.map kt vt h1 h2 h3 h4 h5 h6
  | _, _, .mapVals kt vt h1 h2 h3 => by simpa [GoVal.toLiquid] using MP.mapVals kt vt h1 h2 h3
  | _, _, .mapSlice h => by simpa [GoVal.toLiquid] using MP.mapSlice h
  | _, _, .keyedMap h1 h2 => by simpa [GoVal.toLiquid] using MP.keyedMap h1 h2
  | _, _, .struct h => by simpa [GoVal.toLiquid] using MP.struct h
