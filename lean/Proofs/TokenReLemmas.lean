import Liquid.TokenReSrc
/-!
# Helper lemmas for `Proofs/TokenRe.lean`: the printer `Re.toGoP` on the shapes `tokenRe` is made of,
and the evaluation of the standard `formTokenMatcher` structure (`stdTokenReSrc`)
-/

theorem toGoP_seq (a b : Re) (ctx : Nat) (h : ∀ g c, b ≠ .star g c) :
    (Re.seq a b).toGoP ctx = goWrap (decide (2 ≤ ctx)) (a.toGoP 1 ++ b.toGoP 1) := by
  cases b with
  | star g c => exact absurd rfl (h g c)
  | _ => rfl

theorem toGoP_alt (a b : Re) (ctx : Nat) (ha : a ≠ .eps) (hb : b ≠ .eps) :
    (Re.alt a b).toGoP ctx = goWrap (decide (1 ≤ ctx)) (a.toGoP 0 ++ [124] ++ b.toGoP 0) := by
  cases b with
  | eps => exact absurd rfl hb
  | _ =>
    cases a with
    | eps => exact absurd rfl ha
    | _ => rfl

theorem toGoP_plus (a : Re) (g : Bool) (ctx : Nat) :
    (Re.seq a (.star g a)).toGoP ctx = goWrap (decide (2 ≤ ctx)) (a.toGoP 2 ++ [43] ++ lazyMark g) := by
  simp [Re.toGoP]

theorem toGoP_opt (a : Re) (ctx : Nat) :
    (Re.opt a).toGoP ctx = goWrap (decide (2 ≤ ctx)) (a.toGoP 2 ++ [63]) := by
  cases a <;> rfl

theorem lit_ne_star (s : Bytes) (g : Bool) (c : Re) : Re.lit s ≠ .star g c := by
  cases s <;> simp [Re.lit]

theorem toGoP_lit (s : Bytes) : (Re.lit s).toGoP 1 = quoteMeta s := by
  induction s with
  | nil => rfl
  | cons b r ih =>
    show (Re.seq (.chr (.eq b)) (Re.lit r)).toGoP 1 = _
    rw [toGoP_seq _ _ _ (lit_ne_star r), ih]
    rfl

/-- an expression that prints as a concatenation: wrapped exactly as an operand of a postfix operator -/
def IsCat (x : Re) : Prop := ∃ a b, x = .seq a b ∧ ∀ g c, b ≠ .star g c

theorem IsCat.toGoP2 {x : Re} (h : IsCat x) : x.toGoP 2 = goWrap true (x.toGoP 0) := by
  obtain ⟨a, b, rfl, hb⟩ := h
  rw [toGoP_seq _ _ _ hb, toGoP_seq _ _ _ hb]; rfl

theorem IsCat.ne_eps {x : Re} (h : IsCat x) : x ≠ .eps := by
  obtain ⟨a, b, rfl, _⟩ := h; simp

theorem alts_ne_eps : ∀ (l : List Re), l ≠ [] → (∀ x ∈ l, IsCat x) → Re.alts l ≠ .eps
  | [], h, _ => absurd rfl h
  | [a], _, h => (h a (by simp)).ne_eps
  | a :: b :: r, _, _ => by simp [Re.alts]

theorem toGoP_alts0 : ∀ (l : List Re), l ≠ [] → (∀ x ∈ l, IsCat x) →
    (Re.alts l).toGoP 0 = joinBytes [124] (l.map (·.toGoP 0))
  | [], h, _ => absurd rfl h
  | [a], _, _ => rfl
  | a :: b :: r, _, h => by
    show (Re.alt a (Re.alts (b :: r))).toGoP 0 = _
    have hr : ∀ x ∈ b :: r, IsCat x := fun x hx => h x (List.mem_cons_of_mem _ hx)
    rw [toGoP_alt _ _ _ (h a (by simp)).ne_eps (alts_ne_eps _ (by simp) hr), toGoP_alts0 (b :: r) (by simp) hr]
    rfl

/-- `(?:A|B|…)`: the alternatives as the operand of a postfix operator — also for one and for none -/
theorem toGoP_alts2 : ∀ (l : List Re), (∀ x ∈ l, IsCat x) →
    (Re.alts l).toGoP 2 = goWrap true (joinBytes [124] (l.map (·.toGoP 0)))
  | [], _ => rfl
  | [a], h => (h a (by simp)).toGoP2
  | a :: b :: r, h => by
    have hr : ∀ x ∈ b :: r, IsCat x := fun x hx => h x (List.mem_cons_of_mem _ hx)
    have h0 := toGoP_alts0 (a :: b :: r) (by simp) h
    show (Re.alt a (Re.alts (b :: r))).toGoP 2 = _
    rw [toGoP_alt _ _ _ (h a (by simp)).ne_eps (alts_ne_eps _ (by simp) hr)]
    rw [← h0]
    show _ = goWrap true ((Re.alt a (Re.alts (b :: r))).toGoP 0)
    rw [toGoP_alt _ _ _ (h a (by simp)).ne_eps (alts_ne_eps _ (by simp) hr)]
    rfl

/-- the alternative of the exclusion expression for position `i`: `t0…t(i-1)[^ti]` -/
def exclAlt (tr : Bytes) (i : Nat) : Re := .seq (Re.lit (tr.take i)) (.chr (.ne (tr.getD i 0)))

/-- its text, as the source's loop body writes it -/
def exclText (tr : Bytes) (i : Nat) : Bytes :=
  quoteMeta (tr.take i) ++ ([91, 94] ++ (quoteMeta [tr.getD i 0] ++ [93]))

theorem exclAlt_isCat (tr : Bytes) (i : Nat) : IsCat (exclAlt tr i) :=
  ⟨_, _, rfl, by intro g c; simp⟩

theorem exclAlt_toGoP (tr : Bytes) (i : Nat) : (exclAlt tr i).toGoP 0 = exclText tr i := by
  unfold exclAlt exclText
  rw [toGoP_seq _ _ _ (by intro g c; simp), toGoP_lit]
  simp [goWrap, Re.toGoP, Pred.toGo, quoteMeta]

theorem exclAlts_filterMap (tr : Bytes) : ∀ (l : List Nat), (∀ i ∈ l, i < tr.length) →
    (l.filterMap fun i => match tr[i]? with
      | some b => some (Re.seq (Re.lit (tr.take i)) (.chr (.ne b)))
      | none => none) = l.map (exclAlt tr)
  | [], _ => rfl
  | i :: r, h => by
    have hi : i < tr.length := h i (by simp)
    have hr := exclAlts_filterMap tr r (fun j hj => h j (List.mem_cons_of_mem _ hj))
    simp only [List.filterMap_cons, List.map_cons, List.getElem?_eq_getElem hi, hr]
    simp [exclAlt, List.getD, List.getElem?_eq_getElem hi]

theorem exclAlts_eq (tr : Bytes) : exclAlts tr = (List.range tr.length).map (exclAlt tr) :=
  exclAlts_filterMap tr _ (fun _ hi => List.mem_range.1 hi)

theorem exclusionLoop_std (ol or tl tr : Bytes) : ∀ (l : List Nat), (∀ i ∈ l, i < tr.length) →
    exclusionLoop [ol, or, tl, tr] stdTokenReSrc.exclItem tr l = some (l.map (exclText tr))
  | [], _ => rfl
  | i :: r, h => by
    have hi : i < tr.length := h i (by simp)
    have hr := exclusionLoop_std ol or tl tr r (fun j hj => h j (List.mem_cons_of_mem _ hj))
    simp only [exclusionLoop, List.getElem?_eq_getElem hi, hr]
    simp [stdTokenReSrc, StrExpr.eval, exclText, List.getD, List.getElem?_eq_getElem hi]

theorem normalizeFormat_std : normalizeFormat stdTokenReSrc.format =
    [37, 115, 45, 63, 92, 115, 42, 40, 40, 63, 115, 58, 46, 41, 43, 63, 41, 92, 115, 42, 45, 63, 37, 115, 124,
     37, 115, 45, 63, 92, 115, 42, 40, 92, 119, 43, 41, 40, 63, 58, 92, 115, 43, 40, 40, 63, 58, 37, 115, 41,
     43, 63, 41, 41, 63, 92, 115, 42, 45, 63, 37, 115] := by decide

theorem sprintf_std (a0 a1 a2 a3 a4 : Bytes) :
    sprintf (normalizeFormat stdTokenReSrc.format) [a0, a1, a2, a3, a4] =
      some (a0 ++ ([45, 63, 92, 115, 42, 40, 40, 63, 115, 58, 46, 41, 43, 63, 41, 92, 115, 42, 45, 63] ++ (a1 ++ ([124] ++
        (a2 ++ ([45, 63, 92, 115, 42, 40, 92, 119, 43, 41, 40, 63, 58, 92, 115, 43, 40, 40, 63, 58] ++ (a3 ++
        ([41, 43, 63, 41, 41, 63, 92, 115, 42, 45, 63] ++ a4)))))))) := by
  rw [normalizeFormat_std]; simp [sprintf]

theorem pattern_std (ol or tl tr : Bytes) (h : isAscii tr = true) :
    stdTokenReSrc.normalized.pattern [ol, or, tl, tr] =
      some (quoteMeta ol ++ ([45, 63, 92, 115, 42, 40, 40, 63, 115, 58, 46, 41, 43, 63, 41, 92, 115, 42, 45, 63] ++ (quoteMeta or ++ ([124] ++
        (quoteMeta tl ++ ([45, 63, 92, 115, 42, 40, 92, 119, 43, 41, 40, 63, 58, 92, 115, 43, 40, 40, 63, 58] ++
        (joinBytes [124] ((List.range tr.length).map (exclText tr)) ++
        ([41, 43, 63, 41, 41, 63, 92, 115, 42, 45, 63] ++ quoteMeta tr)))))))) := by
  have hl := exclusionLoop_std ol or tl tr (List.range tr.length) (fun _ hi => List.mem_range.1 hi)
  have hargs : evalAll { delims := [ol, or, tl, tr], excl := (List.range tr.length).map (exclText tr) } stdTokenReSrc.args =
      some [quoteMeta ol, quoteMeta or, quoteMeta tl, joinBytes [124] ((List.range tr.length).map (exclText tr)), quoteMeta tr] := by
    simp [stdTokenReSrc, evalAll, StrExpr.eval]
  unfold TokenReSrc.pattern
  have h3 : ([ol, or, tl, tr] : List Bytes)[stdTokenReSrc.normalized.exclOver]? = some tr := rfl
  rw [h3]
  simp only [h, Bool.not_true, Bool.false_eq_true, if_false]
  have hi : stdTokenReSrc.normalized.exclItem = stdTokenReSrc.exclItem := rfl
  have ha : stdTokenReSrc.normalized.args = stdTokenReSrc.args := rfl
  have hf : stdTokenReSrc.normalized.format = normalizeFormat stdTokenReSrc.format := rfl
  rw [hi, hl]
  simp only [ha, hargs, hf]
  exact sprintf_std _ _ _ _ _

theorem toGoP_chr (p : Pred) (ctx : Nat) : (Re.chr p).toGoP ctx = p.toGo := rfl
theorem toGoP_group (i : Nat) (a : Re) (ctx : Nat) : (Re.group i a).toGoP ctx = [40] ++ a.toGoP 0 ++ [41] := rfl
theorem toGoP_star (g : Bool) (a : Re) (ctx : Nat) :
    (Re.star g a).toGoP ctx = goWrap (decide (2 ≤ ctx)) (a.toGoP 2 ++ [42] ++ lazyMark g) := rfl

theorem tokenRe_toGoSyntax (d : Delims) :
    (tokenRe d).toGoSyntax =
      quoteMeta d.ol ++ ([45, 63, 92, 115, 42, 40, 40, 63, 115, 58, 46, 41, 43, 63, 41, 92, 115, 42, 45, 63] ++ (quoteMeta d.or ++ ([124] ++
        (quoteMeta d.tl ++ ([45, 63, 92, 115, 42, 40, 92, 119, 43, 41, 40, 63, 58, 92, 115, 43, 40, 40, 63, 58] ++
        (joinBytes [124] ((List.range d.tr.length).map (exclText d.tr)) ++
        ([41, 43, 63, 41, 41, 63, 92, 115, 42, 45, 63] ++ quoteMeta d.tr))))))) := by
  have hx : (Re.alts (exclAlts d.tr)).toGoP 2 = goWrap true (joinBytes [124] ((List.range d.tr.length).map (exclText d.tr))) := by
    rw [exclAlts_eq, toGoP_alts2 _ (by intro x hx; obtain ⟨i, _, rfl⟩ := List.mem_map.1 hx; exact exclAlt_isCat _ _)]
    simp [List.map_map, Function.comp_def, exclAlt_toGoP]
  unfold Re.toGoSyntax tokenRe
  simp only [Re.plusLazy, Re.plus, hy, sp]
  simp [toGoP_seq, toGoP_alt, toGoP_plus, toGoP_opt, toGoP_lit, lit_ne_star, hx, goWrap, toGoP_chr, toGoP_group, toGoP_star,
    Pred.toGo, lazyMark, quoteByte, isRegexSpecial]

/-! ## group numbering -/

theorem groupOrder_seq (a b : Re) (h : ∀ g c, b ≠ .star g c) : (Re.seq a b).groupOrder = a.groupOrder ++ b.groupOrder := by
  cases b with
  | star g c => exact absurd rfl (h g c)
  | _ => rfl

theorem groupOrder_plus (a : Re) (g : Bool) : (Re.seq a (.star g a)).groupOrder = a.groupOrder := by
  simp [Re.groupOrder]

theorem groupOrder_lit (s : Bytes) : (Re.lit s).groupOrder = [] := by
  induction s with
  | nil => rfl
  | cons b r ih =>
    show (Re.seq (.chr (.eq b)) (Re.lit r)).groupOrder = _
    rw [groupOrder_seq _ _ (lit_ne_star r), ih]; rfl

theorem groupOrder_alts : ∀ (l : List Re), (∀ x ∈ l, x.groupOrder = []) → (Re.alts l).groupOrder = []
  | [], _ => rfl
  | [a], h => h a (by simp)
  | a :: b :: r, h => by
    show (Re.alt a (Re.alts (b :: r))).groupOrder = []
    simp only [Re.groupOrder, h a (by simp), groupOrder_alts (b :: r) (fun x hx => h x (List.mem_cons_of_mem _ hx)), List.append_nil]

theorem exclAlt_groupOrder (tr : Bytes) (i : Nat) : (exclAlt tr i).groupOrder = [] := by
  unfold exclAlt
  rw [groupOrder_seq _ _ (by intro g c; simp), groupOrder_lit]; rfl

theorem tokenRe_groupOrder_eq (d : Delims) : (tokenRe d).groupOrder = [1, 2, 3] := by
  have hx : (Re.alts (exclAlts d.tr)).groupOrder = [] := by
    rw [exclAlts_eq]
    exact groupOrder_alts _ (by intro x hx; obtain ⟨i, _, rfl⟩ := List.mem_map.1 hx; exact exclAlt_groupOrder _ _)
  unfold tokenRe
  simp only [Re.plusLazy, Re.plus, hy, sp, Re.opt]
  simp [groupOrder_seq, groupOrder_lit, lit_ne_star, hx, Re.groupOrder]
