import Proofs.RenderTrace
import Proofs.SrcLines
/-!
# Where the end of a trace points, for trees WITH include nodes (helper lemmas for C07 `run_error_located_at_token`)

`(traceNode c n s).fin` — the location of the error (or sentinel) the fault-free render of `n` ends with — is

* the location `⟨x, true⟩` of a tag or object of the tree (`x ∈ n.elines`: texts, raw blocks and trim markers do
  not fail on a writer that does not fail), or
* a location reported by the include handler for an include tag of the tree (`IncSite`): the location of the
  handler's located error, or of the `break`/`continue` it hands back.

Every enclosing block passes a site through `relocate`, which returns the site itself or the block tag's
location: both alternatives are kept.
-/

theorem PostOk.pureFail_none {α} {R : α → Prop} {p : Prog α} (h : PostOk NF R p) : p.pureFail = none := by
  induction h with
  | ret a _ => rfl
  | fail e he => exact he.elim
  | panic w => rfl
  | unmodelled w => rfl
  | call b k _ ih => exact ih

/-- what the handler's fault-free run ends with is located at `l`: a located error, or a sentinel -/
def HandlerEnds (p : Prog (Status × Bytes)) (l : Loc) : Prop :=
  (∃ e, p.pureFail = some e ∧ e.site = some l) ∨ (∃ st out, p.pureRet = some (st, out) ∧ st.site = some l)

/-- `l` is reported by the include handler of `c` for an include tag at one of the lines `L` -/
def IncSite (c : RCtx) (L : List Nat) (l : Loc) : Prop := ∃ line ∈ L, ∃ f env, HandlerEnds (c.inc line f env) l

/-- a location of the tree (with the template's path) or one reported by the handler -/
def LocOK (c : RCtx) (L : List Nat) (l : Loc) : Prop := (l.line ∈ L ∧ l.pathSet = true) ∨ IncSite c L l

/-- before the enclosing node has wrapped it, an error may still be without a location -/
def Tr.FinIn (c : RCtx) (L : List Nat) (t : Tr) : Prop := ∀ l, t.fin = some (some l) → LocOK c L l
def Tr.FinAt (c : RCtx) (L : List Nat) (t : Tr) : Prop := ∀ s, t.fin = some s → ∃ l, s = some l ∧ LocOK c L l

theorem Tr.FinAt.finIn {c : RCtx} {L : List Nat} {t : Tr} (h : t.FinAt c L) : t.FinIn c L := by
  intro l hl
  obtain ⟨l', h1, h2⟩ := h _ hl
  cases h1
  exact h2

theorem LocOK.mono {c : RCtx} {L L' : List Nat} {l : Loc} (h : LocOK c L l) (hs : ∀ x, x ∈ L → x ∈ L') : LocOK c L' l := by
  rcases h with ⟨h1, h2⟩ | ⟨line, hl, f, env, h⟩
  · exact Or.inl ⟨hs _ h1, h2⟩
  · exact Or.inr ⟨line, hs _ hl, f, env, h⟩

theorem finAt_finNone {c : RCtx} {L : List Nat} {t : Tr} (h : t.fin = none) : t.FinAt c L := by
  intro s hs; rw [h] at hs; cases hs

theorem finIn_finNone {c : RCtx} {L : List Nat} {t : Tr} (h : t.fin = none) : t.FinIn c L := by
  intro s hs; rw [h] at hs; cases hs

theorem finIn_plain {c : RCtx} {L : List Nat} (calls : List Site) : (⟨calls, some none⟩ : Tr).FinIn c L := by
  intro l hl; cases hl

theorem finAt_ownTr {α} (c : RCtx) (L : List Nat) (x : Nat) (hx : x ∈ L) (p : Prog α) : (ownTr ⟨x, true⟩ p).FinAt c L := by
  intro s hs
  simp only [ownTr] at hs
  cases hp : p.pureFail with
  | none => rw [hp] at hs; cases hs
  | some e =>
    rw [hp] at hs
    simp only [Option.map_some, Option.some.injEq] at hs
    exact ⟨⟨x, true⟩, hs.symm, Or.inl ⟨hx, rfl⟩⟩

theorem finAt_ownTr_nf {α} (c : RCtx) (L : List Nat) (loc : Loc) (p : Prog α) (h : p.pureFail = none) : (ownTr loc p).FinAt c L :=
  finAt_finNone (by simp [ownTr, h])

theorem finIn_pieceTr_nf {α} (c : RCtx) (L : List Nat) (p : Prog α) (h : p.pureFail = none) : (pieceTr p).FinIn c L :=
  finIn_finNone (by simp [pieceTr, h])

theorem finAt_loc (c : RCtx) (L : List Nat) (x : Nat) (hx : x ∈ L) (calls : List Site) :
    (⟨calls, some (some ⟨x, true⟩)⟩ : Tr).FinAt c L := by
  intro s hs
  simp only [Option.some.injEq] at hs
  exact ⟨_, hs.symm, Or.inl ⟨hx, rfl⟩⟩

theorem finIn_bind {α} {c : RCtx} {L : List Nat} {t1 : Tr} (r : Option α) {t2 : α → Tr} (h1 : t1.FinIn c L)
    (h2 : ∀ a, r = some a → (t2 a).FinIn c L) : (t1.bind r t2).FinIn c L := by
  cases r with
  | none => exact h1
  | some a => exact h2 a rfl

theorem finAt_bind {α} {c : RCtx} {L : List Nat} {t1 : Tr} (r : Option α) {t2 : α → Tr} (h1 : t1.FinAt c L)
    (h2 : ∀ a, r = some a → (t2 a).FinAt c L) : (t1.bind r t2).FinAt c L := by
  cases r with
  | none => exact h1
  | some a => exact h2 a rfl

/-- a block locates what is not located yet at its own tag, and keeps or replaces what is -/
theorem finAt_wrap {c : RCtx} (path : Bytes) (L : List Nat) (line : Nat) (hl : line ∈ L) {t : Tr} (h : t.FinIn c L) :
    (t.wrap path ⟨line, true⟩).FinAt c L := by
  intro s hs
  simp only [Tr.wrap] at hs
  cases hf : t.fin with
  | none => rw [hf] at hs; cases hs
  | some s0 =>
    rw [hf] at hs
    simp only [Option.map_some, Option.some.injEq] at hs
    refine ⟨_, hs.symm, ?_⟩
    cases s0 with
    | none => exact Or.inl ⟨hl, rfl⟩
    | some l =>
      simp only [relocate]
      split
      · exact h l hf
      · exact Or.inl ⟨hl, rfl⟩

/-! ## What never fails on a writer that does not fail -/

theorem pureFail_iterPre (var : Bytes) (cols : Option Nat) (n : Nat) (x : GoVal) (i : Nat) (cyc : List (GoVal × GoVal)) (s : RS) :
    (iterPre var cols n x i cyc s).pureFail = none := by
  have h : PostMOk NF (fun _ => True) (iterPre var cols n x i cyc) := by
    unfold iterPre
    refine okM_bind (okM_setVar _ _) (fun _ _ => okM_bind (okM_setVar _ _) (fun _ _ => ?_))
    cases cols with
    | none => exact okM_pure _ True.intro
    | some c => exact okM_tablerowBefore c i
  exact (h s).pureFail_none

theorem pureFail_iterPost (cols : Option Nat) (n i : Nat) (s : RS) : (iterPost cols n i s).pureFail = none := by
  have h : PostMOk NF (fun _ => True) (iterPost cols n i) := by
    unfold iterPost
    refine okM_bind (R := fun _ => True) ?_ (fun _ _ => okM_getVar _)
    cases cols with
    | none => exact okM_pure _ True.intro
    | some c => exact okM_tablerowAfter c i n
  exact (h s).pureFail_none

theorem pureFail_writeVerbatim (b : Bytes) (s : RS) : (writeVerbatimM b s).pureFail = none :=
  (okM_writeVerbatim b s).pureFail_none

theorem pureFail_text (c : RCtx) (line : Nat) (src : Bytes) (s : RS) : (renderNode c (.text line src) s).pureFail = none := by
  have h : PostMOk NF (fun _ => True) (renderNode c (.text line src)) := by
    unfold renderNode
    exact okM_wrapFailAt_nf _ _ (okM_bind (okM_write _) (fun _ _ => okM_pure _ True.intro))
  exact (h s).pureFail_none

theorem pureFail_raw (c : RCtx) (slices : List Bytes) (s : RS) : (renderNode c (.raw slices) s).pureFail = none := by
  have h : PostMOk NF (fun _ => True) (renderNode c (.raw slices)) := by
    unfold renderNode
    exact okM_wrapFailAt_nf _ _ (okM_bind (okM_writeAll _) (fun _ _ => okM_pure _ True.intro))
  exact (h s).pureFail_none

theorem pureFail_trim (c : RCtx) (l : Bool) (s : RS) : (renderNode c (.trim l) s).pureFail = none := by
  have h : PostMOk NF (fun _ => True) (renderNode c (.trim l)) := by
    cases l with
    | true =>
      unfold renderNode
      exact okM_wrapFailAt_nf _ _ (okM_bind okM_trimLeft (fun _ _ => okM_pure _ True.intro))
    | false =>
      unfold renderNode
      exact okM_bind okM_trimRight (fun _ _ => okM_pure _ True.intro)
  exact (h s).pureFail_none

/-! ## Loops -/

theorem finIn_iterTrace (c : RCtx) (L : List Nat) (var : Bytes) (cols : Option Nat) (bodyM : M Status) (bodyT : RS → Tr)
    (hb : ∀ s, (bodyT s).FinIn c L) (n : Nat) :
    ∀ xs i cyc s, (iterTrace var cols bodyM bodyT n xs i cyc s).FinIn c L := by
  intro xs
  induction xs with
  | nil => intro i cyc s; unfold iterTrace; exact finIn_finNone rfl
  | cons x xs ih =>
    intro i cyc s
    unfold iterTrace
    refine finIn_bind _ (finIn_pieceTr_nf c L _ (pureFail_iterPre ..)) (fun a _ => finIn_bind _ (hb _) (fun b _ =>
      finIn_bind _ (finIn_pieceTr_nf c L _ (pureFail_iterPost ..)) (fun d _ => ?_)))
    split
    · exact finIn_finNone rfl
    · exact ih _ _ _

theorem finAt_loopTrace {budget : Int} (c : RCtx) (P : Prims) (path : Bytes) (L : List Nat) (line : Nat) (hl : line ∈ L)
    (tablerow : Bool) (var : Bytes) (e : Expr) (mods : LoopMods) (bodyM : M Status) (bodyT : RS → Tr)
    (hb : ∀ s, (bodyT s).FinIn c L) (tooMany : Bool) (elseT : Option (RS → Tr)) (he : ∀ t, elseT = some t → ∀ s, (t s).FinIn c L) (s : RS) :
    (loopTrace budget P path ⟨line, true⟩ tablerow var e mods bodyM bodyT tooMany elseT s).FinAt c L := by
  unfold loopTrace
  refine finAt_bind _ (finAt_ownTr c L line hl _) (fun a _ => ?_)
  split
  · next t _ => exact finAt_wrap path L line hl (he t rfl _)
  · exact finAt_bind _ (finAt_ownTr c L line hl _) (fun b _ =>
      finAt_wrap path L line hl (finIn_iterTrace c L var _ bodyM bodyT hb _ _ _ _ _))

/-! ## The tree -/

theorem finIn_inclInner (c : RCtx) (L : List Nat) (line : Nat) (hl : line ∈ L) (args : Bytes) (s : RS) :
    (inclInner c line args s).FinIn c L := by
  unfold inclInner
  split
  · split
    · next rel _ =>
      refine finIn_bind _ ?_ (fun r hr => ?_)
      · intro l hf
        cases hp : (c.inc line (joinPath (dirPath c.cfg.path) rel) s.env).pureFail with
        | none => simp only [hp, Option.map_none] at hf; cases hf
        | some e =>
          simp only [hp, Option.map_some, Option.some.injEq] at hf
          exact Or.inr ⟨line, hl, _, _, Or.inl ⟨e, hp, hf⟩⟩
      · split
        · exact finIn_pieceTr_nf c L _ (pureFail_writeVerbatim ..)
        · next st hst =>
          intro l hf
          simp only [Option.some.injEq] at hf
          exact Or.inr ⟨line, hl, _, _, Or.inr ⟨r.1, r.2, hr, hf⟩⟩
    · exact (finAt_loc c L line hl []).finIn
    · exact finIn_plain []
    · exact finIn_finNone rfl
  · exact finIn_plain []
  · exact finIn_finNone rfl

mutual
theorem fin_traceNode (c : RCtx) (L : List Nat) :
    ∀ (n : Node) (s : RS), (∀ x, x ∈ n.elines → x ∈ L) → (traceNode c n s).FinAt c L
  | .text line src, s, _ => by unfold traceNode; exact finAt_ownTr_nf c L _ _ (pureFail_text c line src s)
  | .obj line e, s, hL => by unfold traceNode; exact finAt_ownTr c L line (hL _ (by simp [Node.elines])) _
  | .raw slices, s, _ => by unfold traceNode; exact finAt_ownTr_nf c L _ _ (pureFail_raw c slices s)
  | .trim l, s, _ => by unfold traceNode; exact finAt_ownTr_nf c L _ _ (pureFail_trim c l s)
  | .assign line x e, s, hL => by unfold traceNode; exact finAt_ownTr c L line (hL _ (by simp [Node.elines])) _
  | .cycle line g v0 rest, s, hL => by unfold traceNode; exact finAt_ownTr c L line (hL _ (by simp [Node.elines])) _
  | .brk line, s, hL => by unfold traceNode; exact finAt_loc c L line (hL _ (by simp [Node.elines])) []
  | .cont line, s, hL => by unfold traceNode; exact finAt_loc c L line (hL _ (by simp [Node.elines])) []
  | .capture line x body, s, hL => by
    unfold traceNode
    have hb := (fin_traceList c L body { env := s.env, tw := {} } (fun y hy => hL y (by simp [Node.elines, hy]))).finIn
    refine finAt_wrap c.cfg.path L line (hL _ (by simp [Node.elines])) (finIn_bind _ hb (fun a _ => ?_))
    split
    · exact finIn_finNone rfl
    · exact hb
  | .ifB line bs, s, hL => by
    unfold traceNode
    exact finAt_wrap c.cfg.path L line (hL _ (by simp [Node.elines]))
      (fin_traceBranches c L bs s (fun y hy => hL y (by simp [Node.elines, hy]))).finIn
  | .caseB line subject cases, s, hL => by
    unfold traceNode
    refine finAt_wrap c.cfg.path L line (hL _ (by simp [Node.elines])) ?_
    split
    · exact (fin_traceCases c L _ cases s (fun y hy => hL y (by simp [Node.elines, hy]))).finIn
    · exact finIn_plain []
    · exact finIn_finNone rfl
  | .loop line tablerow var e mods body clauses, s, hL => by
    have hl : line ∈ L := hL _ (by simp [Node.elines])
    have hb : ∀ s, (traceBlockBody c body s).FinIn c L := fun s =>
      (fin_traceBlockBody c L body s (fun y hy => hL y (by simp [Node.elines, hy]))).finIn
    unfold traceNode
    split
    · exact finAt_loopTrace c c.P c.cfg.path L line hl tablerow var e mods _ _ hb false none (fun _ h => by cases h) s
    · next els =>
      refine finAt_loopTrace c c.P c.cfg.path L line hl tablerow var e mods _ _ hb false (some _) (fun t h => ?_) s
      cases h
      exact fun s => (fin_traceBlockBody c L els s (fun y hy => hL y (by simp [Node.elines, elinesClauses, hy]))).finIn
    · exact finAt_loopTrace c c.P c.cfg.path L line hl tablerow var e mods _ _ hb true none (fun _ h => by cases h) s
  | .incl line args, s, hL => by
    unfold traceNode
    have hl : line ∈ L := hL _ (by simp [Node.elines])
    exact finAt_wrap c.cfg.path L line hl (finIn_inclInner c L line hl args s)
theorem fin_traceList (c : RCtx) (L : List Nat) :
    ∀ (ns : List Node) (s : RS), (∀ x, x ∈ elinesList ns → x ∈ L) → (traceList c ns s).FinAt c L
  | [], s, _ => by unfold traceList; exact finAt_finNone rfl
  | n :: ns, s, hL => by
    unfold traceList
    have hn := fin_traceNode c L n s (fun y hy => hL y (by simp [elinesList, hy]))
    refine finAt_bind _ hn (fun a _ => ?_)
    split
    · exact fin_traceList c L ns a.2 (fun y hy => hL y (by simp [elinesList, hy]))
    · exact hn
theorem fin_traceBlockBody (c : RCtx) (L : List Nat) (body : List Node) (s : RS)
    (hL : ∀ x, x ∈ elinesList body → x ∈ L) : (traceBlockBody c body s).FinAt c L := by
  unfold traceBlockBody
  have hl := fin_traceList c L body s hL
  refine finAt_bind _ hl (fun a _ => ?_)
  split
  · exact finAt_ownTr_nf c L _ _ (pureFail_flush _)
  · exact hl
theorem fin_traceBranches (c : RCtx) (L : List Nat) :
    ∀ (bs : List (CondT × List Node)) (s : RS), (∀ x, x ∈ elinesBranches bs → x ∈ L) → (traceBranches c bs s).FinAt c L
  | [], s, _ => by unfold traceBranches; exact finAt_finNone rfl
  | (t, body) :: rest, s, hL => by
    unfold traceBranches
    have h0 : (ownTr ⟨t.tagLine, true⟩ (evalCond c.P c.cfg.path t s)).FinAt c L := by
      cases t with
      | always => exact finAt_ownTr_nf c L _ _ rfl
      | expr line e => exact finAt_ownTr c L line (hL _ (by simp [elinesBranches, CondT.lines])) _
      | notExpr line e => exact finAt_ownTr c L line (hL _ (by simp [elinesBranches, CondT.lines])) _
    refine finAt_bind _ h0 (fun a _ => ?_)
    split
    · exact fin_traceBlockBody c L body a.2 (fun y hy => hL y (by simp [elinesBranches, hy]))
    · exact fin_traceBranches c L rest a.2 (fun y hy => hL y (by simp [elinesBranches, hy]))
theorem fin_traceCases (c : RCtx) (L : List Nat) (sel : GoVal) :
    ∀ (cs : List (Option (Nat × List Expr) × List Node)) (s : RS), (∀ x, x ∈ elinesCases cs → x ∈ L) → (traceCases c sel cs s).FinAt c L
  | [], s, _ => by unfold traceCases; exact finAt_finNone rfl
  | (none, body) :: _, s, hL => by
    unfold traceCases
    exact fin_traceBlockBody c L body s (fun y hy => hL y (by simp [elinesCases, hy]))
  | (some (line, es), body) :: rest, s, hL => by
    unfold traceCases
    refine finAt_bind _ (finAt_ownTr c L line (hL _ (by simp [elinesCases])) _) (fun a _ => ?_)
    split
    · exact fin_traceBlockBody c L body a.2 (fun y hy => hL y (by simp [elinesCases, hy]))
    · exact fin_traceCases c L sel rest a.2 (fun y hy => hL y (by simp [elinesCases, hy]))
end

/-- the end of the root's trace: a tag or object of the tree, or a site the include handler reports -/
theorem fin_traceRoot (c : RCtx) (root : List Node) (env : Env) : (traceRoot c root env).FinAt c (elinesList root) :=
  fin_traceBlockBody c _ root _ (fun _ h => h)

/-- **where the error of a render is, for trees with include nodes** (fault-free writer): at a tag or object of
    the tree, with the template's path, or where the include handler says, for an include tag of the tree -/
theorem render_error_eline_or_handler (c : RCtx) (hc : IncQuiet c) (root : List Node) (env : Env) (out : Bytes) (e : RawErr)
    (h : ((renderRoot c root env).bind statusToProg).runPure = (out, .err e)) :
    ∃ se, e = .located se ∧ LocOK c (elinesList root) ⟨se.line, se.pathSet⟩ := by
  have hf := (sp_frenderOf c hc root env).fin e (Prog.pureFail_of_runPure _ _ _ h)
  obtain ⟨l, hl, hok⟩ := fin_traceRoot c root env _ hf
  cases e with
  | plain cause => cases hl
  | located se =>
    simp only [RawErr.site, Option.some.injEq] at hl
    exact ⟨se, rfl, hl ▸ hok⟩
