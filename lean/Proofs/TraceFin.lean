import Proofs.RenderTrace
import Proofs.SrcLines
import Proofs.IncLines
/-!
# Where the end of a trace points, for trees WITH include nodes (helper lemmas for C07 `run_error_located_at_token`)

`(traceNode c n s).fin` — the location of the error (or sentinel) the fault-free render of `n` ends with — is

* the location `⟨x, true⟩` of a tag or object of the tree (`x ∈ n.elines`: texts, raw blocks and trim markers do
  not fail on a writer that does not fail), or
* a location reported by the include handler for an include node of the tree (`IncSite`, which names the node's line
  and argument text, `Node.ilines`): the location of the handler's located error, or of the `break`/`continue` it
  hands back, when called with the file name the argument evaluates to.

Every enclosing block passes a site through `relocate`, which returns the site itself or the block tag's
location: both alternatives are kept.
-/

theorem PostOk.pureFail_none {α} {R : α → Prop} {p : Prog α} (h : PostOk NF R p) : p.pureFail = none := by
  induction h with
  | ret a _ => rfl
  | fail e he => exact he.elim
  | panic w => rfl
  | unmodelled w => rfl
  | call b k _ ih => exact ih

/-- what the handler's fault-free run ends with is located at `l`: a located error, or a sentinel -/
def HandlerEnds (p : Prog (Status × Bytes)) (l : Loc) : Prop :=
  (∃ e, p.pureFail = some e ∧ e.site = some l) ∨ (∃ st out, p.pureRet = some (st, out) ∧ st.site = some l)

/-- `l` is reported by the include handler of `c` for one of the include tags `I` (line, argument text): the
    argument parses, evaluates in some state to a string `rel`, and the handler — called for that line with the file
    name `dir(path)/rel` and the variables of that state — ends with a located error or a sentinel at `l` -/
def IncSite (c : RCtx) (I : List (Nat × Bytes)) (l : Loc) : Prop :=
  ∃ la ∈ I, ∃ (s : RS) (e : Expr) (rel : Bytes), parseExprSource la.2 = .ok e ∧ evaluate c.P s.env e = .ok (.str rel) ∧
    HandlerEnds (c.inc la.1 (joinPath (dirPath c.cfg.path) rel) s.env) l

/-- a location of the tree (with the template's path) or one reported by the handler -/
def LocOK (c : RCtx) (L : List Nat) (I : List (Nat × Bytes)) (l : Loc) : Prop := (l.line ∈ L ∧ l.pathSet = true) ∨ IncSite c I l

/-- before the enclosing node has wrapped it, an error may still be without a location -/
def Tr.FinIn (c : RCtx) (L : List Nat) (I : List (Nat × Bytes)) (t : Tr) : Prop := ∀ l, t.fin = some (some l) → LocOK c L I l
def Tr.FinAt (c : RCtx) (L : List Nat) (I : List (Nat × Bytes)) (t : Tr) : Prop := ∀ s, t.fin = some s → ∃ l, s = some l ∧ LocOK c L I l

theorem Tr.FinAt.finIn {c : RCtx} {L : List Nat} {I : List (Nat × Bytes)} {t : Tr} (h : t.FinAt c L I) : t.FinIn c L I := by
  intro l hl
  obtain ⟨l', h1, h2⟩ := h _ hl
  cases h1
  exact h2

theorem LocOK.mono {c : RCtx} {L L' : List Nat} {I : List (Nat × Bytes)} {l : Loc} (h : LocOK c L I l) (hs : ∀ x, x ∈ L → x ∈ L') : LocOK c L' I l := by
  rcases h with ⟨h1, h2⟩ | h
  · exact Or.inl ⟨hs _ h1, h2⟩
  · exact Or.inr h

theorem finAt_finNone {c : RCtx} {L : List Nat} {I : List (Nat × Bytes)} {t : Tr} (h : t.fin = none) : t.FinAt c L I := by
  intro s hs; rw [h] at hs; cases hs

theorem finIn_finNone {c : RCtx} {L : List Nat} {I : List (Nat × Bytes)} {t : Tr} (h : t.fin = none) : t.FinIn c L I := by
  intro s hs; rw [h] at hs; cases hs

theorem finIn_plain {c : RCtx} {L : List Nat} {I : List (Nat × Bytes)} (calls : List Site) : (⟨calls, some none⟩ : Tr).FinIn c L I := by
  intro l hl; cases hl

theorem finAt_ownTr {α} (c : RCtx) (L : List Nat) (I : List (Nat × Bytes)) (x : Nat) (hx : x ∈ L) (p : Prog α) : (ownTr ⟨x, true⟩ p).FinAt c L I := by
  intro s hs
  simp only [ownTr] at hs
  cases hp : p.pureFail with
  | none => rw [hp] at hs; cases hs
  | some e =>
    rw [hp] at hs
    simp only [Option.map_some, Option.some.injEq] at hs
    exact ⟨⟨x, true⟩, hs.symm, Or.inl ⟨hx, rfl⟩⟩

theorem finAt_ownTr_nf {α} (c : RCtx) (L : List Nat) (I : List (Nat × Bytes)) (loc : Loc) (p : Prog α) (h : p.pureFail = none) : (ownTr loc p).FinAt c L I :=
  finAt_finNone (by simp [ownTr, h])

theorem finIn_pieceTr_nf {α} (c : RCtx) (L : List Nat) (I : List (Nat × Bytes)) (p : Prog α) (h : p.pureFail = none) : (pieceTr p).FinIn c L I :=
  finIn_finNone (by simp [pieceTr, h])

theorem finAt_loc (c : RCtx) (L : List Nat) (I : List (Nat × Bytes)) (x : Nat) (hx : x ∈ L) (calls : List Site) :
    (⟨calls, some (some ⟨x, true⟩)⟩ : Tr).FinAt c L I := by
  intro s hs
  simp only [Option.some.injEq] at hs
  exact ⟨_, hs.symm, Or.inl ⟨hx, rfl⟩⟩

theorem finIn_bind {α} {c : RCtx} {L : List Nat} {I : List (Nat × Bytes)} {t1 : Tr} (r : Option α) {t2 : α → Tr} (h1 : t1.FinIn c L I)
    (h2 : ∀ a, r = some a → (t2 a).FinIn c L I) : (t1.bind r t2).FinIn c L I := by
  cases r with
  | none => exact h1
  | some a => exact h2 a rfl

theorem finAt_bind {α} {c : RCtx} {L : List Nat} {I : List (Nat × Bytes)} {t1 : Tr} (r : Option α) {t2 : α → Tr} (h1 : t1.FinAt c L I)
    (h2 : ∀ a, r = some a → (t2 a).FinAt c L I) : (t1.bind r t2).FinAt c L I := by
  cases r with
  | none => exact h1
  | some a => exact h2 a rfl

/-- a block locates what is not located yet at its own tag, and keeps or replaces what is -/
theorem finAt_wrap {c : RCtx} (path : Bytes) (L : List Nat) {I : List (Nat × Bytes)} (line : Nat) (hl : line ∈ L) {t : Tr} (h : t.FinIn c L I) :
    (t.wrap path ⟨line, true⟩).FinAt c L I := by
  intro s hs
  simp only [Tr.wrap] at hs
  cases hf : t.fin with
  | none => rw [hf] at hs; cases hs
  | some s0 =>
    rw [hf] at hs
    simp only [Option.map_some, Option.some.injEq] at hs
    refine ⟨_, hs.symm, ?_⟩
    cases s0 with
    | none => exact Or.inl ⟨hl, rfl⟩
    | some l =>
      simp only [relocate]
      split
      · exact h l hf
      · exact Or.inl ⟨hl, rfl⟩

/-! ## What never fails on a writer that does not fail -/

theorem pureFail_iterPre (var : Bytes) (cols : Option Nat) (n : Nat) (x : GoVal) (i : Nat) (cyc : List (GoVal × GoVal)) (s : RS) :
    (iterPre var cols n x i cyc s).pureFail = none := by
  have h : PostMOk NF (fun _ => True) (iterPre var cols n x i cyc) := by
    unfold iterPre
    refine okM_bind (okM_setVar _ _) (fun _ _ => okM_bind (okM_setVar _ _) (fun _ _ => ?_))
    cases cols with
    | none => exact okM_pure _ True.intro
    | some c => exact okM_tablerowBefore c i
  exact (h s).pureFail_none

theorem pureFail_iterPost (cols : Option Nat) (n i : Nat) (s : RS) : (iterPost cols n i s).pureFail = none := by
  have h : PostMOk NF (fun _ => True) (iterPost cols n i) := by
    unfold iterPost
    refine okM_bind (R := fun _ => True) ?_ (fun _ _ => okM_getVar _)
    cases cols with
    | none => exact okM_pure _ True.intro
    | some c => exact okM_tablerowAfter c i n
  exact (h s).pureFail_none

theorem pureFail_writeVerbatim (b : Bytes) (s : RS) : (writeVerbatimM b s).pureFail = none :=
  (okM_writeVerbatim b s).pureFail_none

theorem pureFail_text (c : RCtx) (line : Nat) (src : Bytes) (s : RS) : (renderNode c (.text line src) s).pureFail = none := by
  have h : PostMOk NF (fun _ => True) (renderNode c (.text line src)) := by
    unfold renderNode
    exact okM_wrapFailAt_nf _ _ (okM_bind (okM_write _) (fun _ _ => okM_pure _ True.intro))
  exact (h s).pureFail_none

theorem pureFail_raw (c : RCtx) (slices : List Bytes) (s : RS) : (renderNode c (.raw slices) s).pureFail = none := by
  have h : PostMOk NF (fun _ => True) (renderNode c (.raw slices)) := by
    unfold renderNode
    exact okM_wrapFailAt_nf _ _ (okM_bind (okM_writeAll _) (fun _ _ => okM_pure _ True.intro))
  exact (h s).pureFail_none

theorem pureFail_trim (c : RCtx) (l : Bool) (s : RS) : (renderNode c (.trim l) s).pureFail = none := by
  have h : PostMOk NF (fun _ => True) (renderNode c (.trim l)) := by
    cases l with
    | true =>
      unfold renderNode
      exact okM_wrapFailAt_nf _ _ (okM_bind okM_trimLeft (fun _ _ => okM_pure _ True.intro))
    | false =>
      unfold renderNode
      exact okM_bind okM_trimRight (fun _ _ => okM_pure _ True.intro)
  exact (h s).pureFail_none

/-! ## Loops -/

theorem finIn_iterTrace (c : RCtx) (L : List Nat) (I : List (Nat × Bytes)) (var : Bytes) (cols : Option Nat) (bodyM : M Status) (bodyT : RS → Tr)
    (hb : ∀ s, (bodyT s).FinIn c L I) (n : Nat) :
    ∀ xs i cyc s, (iterTrace var cols bodyM bodyT n xs i cyc s).FinIn c L I := by
  intro xs
  induction xs with
  | nil => intro i cyc s; unfold iterTrace; exact finIn_finNone rfl
  | cons x xs ih =>
    intro i cyc s
    unfold iterTrace
    refine finIn_bind _ (finIn_pieceTr_nf c L I _ (pureFail_iterPre ..)) (fun a _ => finIn_bind _ (hb _) (fun b _ =>
      finIn_bind _ (finIn_pieceTr_nf c L I _ (pureFail_iterPost ..)) (fun d _ => ?_)))
    split
    · exact finIn_finNone rfl
    · exact ih _ _ _

theorem finAt_loopTrace {budget : Int} (c : RCtx) (P : Prims) (path : Bytes) (L : List Nat) (I : List (Nat × Bytes)) (line : Nat) (hl : line ∈ L)
    (tablerow : Bool) (var : Bytes) (e : Expr) (mods : LoopMods) (bodyM : M Status) (bodyT : RS → Tr)
    (hb : ∀ s, (bodyT s).FinIn c L I) (tooMany : Bool) (elseT : Option (RS → Tr)) (he : ∀ t, elseT = some t → ∀ s, (t s).FinIn c L I) (s : RS) :
    (loopTrace budget P path ⟨line, true⟩ tablerow var e mods bodyM bodyT tooMany elseT s).FinAt c L I := by
  unfold loopTrace
  refine finAt_bind _ (finAt_ownTr c L I line hl _) (fun a _ => ?_)
  split
  · next t _ => exact finAt_wrap path L line hl (he t rfl _)
  · exact finAt_bind _ (finAt_ownTr c L I line hl _) (fun b _ =>
      finAt_wrap path L line hl (finIn_iterTrace c L I var _ bodyM bodyT hb _ _ _ _ _))

/-! ## The tree -/

theorem finIn_inclInner (c : RCtx) (L : List Nat) (I : List (Nat × Bytes)) (line : Nat) (hl : line ∈ L) (args : Bytes)
    (hI : (line, args) ∈ I) (s : RS) : (inclInner c line args s).FinIn c L I := by
  unfold inclInner
  split
  · next e hp =>
    split
    · next rel hv =>
      refine finIn_bind _ ?_ (fun r hr => ?_)
      · intro l hf
        cases hpf : (c.inc line (joinPath (dirPath c.cfg.path) rel) s.env).pureFail with
        | none => simp only [hpf, Option.map_none] at hf; cases hf
        | some e' =>
          simp only [hpf, Option.map_some, Option.some.injEq] at hf
          exact Or.inr ⟨(line, args), hI, s, e, rel, hp, hv, Or.inl ⟨e', hpf, hf⟩⟩
      · split
        · exact finIn_pieceTr_nf c L I _ (pureFail_writeVerbatim ..)
        · next st hst =>
          intro l hf
          simp only [Option.some.injEq] at hf
          exact Or.inr ⟨(line, args), hI, s, e, rel, hp, hv, Or.inr ⟨r.1, r.2, hr, hf⟩⟩
    · exact (finAt_loc c L I line hl []).finIn
    · exact finIn_plain []
    · exact finIn_finNone rfl
  · exact finIn_plain []
  · exact finIn_finNone rfl

mutual
theorem fin_traceNode (c : RCtx) (L : List Nat) (I : List (Nat × Bytes)) :
    ∀ (n : Node) (s : RS), (∀ x, x ∈ n.elines → x ∈ L) → (∀ x, x ∈ n.ilines → x ∈ I) → (traceNode c n s).FinAt c L I
  | .text line src, s, _, _ => by unfold traceNode; exact finAt_ownTr_nf c L I _ _ (pureFail_text c line src s)
  | .obj line e, s, hL, _ => by unfold traceNode; exact finAt_ownTr c L I line (hL _ (by simp [Node.elines])) _
  | .raw slices, s, _, _ => by unfold traceNode; exact finAt_ownTr_nf c L I _ _ (pureFail_raw c slices s)
  | .trim l, s, _, _ => by unfold traceNode; exact finAt_ownTr_nf c L I _ _ (pureFail_trim c l s)
  | .assign line x e, s, hL, _ => by unfold traceNode; exact finAt_ownTr c L I line (hL _ (by simp [Node.elines])) _
  | .cycle line g v0 rest, s, hL, _ => by unfold traceNode; exact finAt_ownTr c L I line (hL _ (by simp [Node.elines])) _
  | .brk line, s, hL, _ => by unfold traceNode; exact finAt_loc c L I line (hL _ (by simp [Node.elines])) []
  | .cont line, s, hL, _ => by unfold traceNode; exact finAt_loc c L I line (hL _ (by simp [Node.elines])) []
  | .capture line x body, s, hL, hI => by
    unfold traceNode
    have hb := (fin_traceList c L I body { env := s.env, tw := {} } (fun y hy => hL y (by simp [Node.elines, hy]))
      (fun y hy => hI y (by simp [Node.ilines, hy]))).finIn
    refine finAt_wrap c.cfg.path L line (hL _ (by simp [Node.elines])) (finIn_bind _ hb (fun a _ => ?_))
    split
    · exact finIn_finNone rfl
    · exact hb
  | .ifB line bs, s, hL, hI => by
    unfold traceNode
    exact finAt_wrap c.cfg.path L line (hL _ (by simp [Node.elines]))
      (fin_traceBranches c L I bs s (fun y hy => hL y (by simp [Node.elines, hy])) (fun y hy => hI y (by simp [Node.ilines, hy]))).finIn
  | .caseB line subject cases, s, hL, hI => by
    unfold traceNode
    refine finAt_wrap c.cfg.path L line (hL _ (by simp [Node.elines])) ?_
    split
    · exact (fin_traceCases c L I _ cases s (fun y hy => hL y (by simp [Node.elines, hy])) (fun y hy => hI y (by simp [Node.ilines, hy]))).finIn
    · exact finIn_plain []
    · exact finIn_finNone rfl
  | .loop line tablerow var e mods body clauses, s, hL, hI => by
    have hl : line ∈ L := hL _ (by simp [Node.elines])
    have hb : ∀ s, (traceBlockBody c body s).FinIn c L I := fun s =>
      (fin_traceBlockBody c L I body s (fun y hy => hL y (by simp [Node.elines, hy])) (fun y hy => hI y (by simp [Node.ilines, hy]))).finIn
    unfold traceNode
    split
    · exact finAt_loopTrace c c.P c.cfg.path L I line hl tablerow var e mods _ _ hb false none (fun _ h => by cases h) s
    · next els =>
      refine finAt_loopTrace c c.P c.cfg.path L I line hl tablerow var e mods _ _ hb false (some _) (fun t h => ?_) s
      cases h
      exact fun s => (fin_traceBlockBody c L I els s (fun y hy => hL y (by simp [Node.elines, elinesClauses, hy]))
        (fun y hy => hI y (by simp [Node.ilines, ilinesClauses, hy]))).finIn
    · exact finAt_loopTrace c c.P c.cfg.path L I line hl tablerow var e mods _ _ hb true none (fun _ h => by cases h) s
  | .incl line args, s, hL, hI => by
    unfold traceNode
    have hl : line ∈ L := hL _ (by simp [Node.elines])
    exact finAt_wrap c.cfg.path L line hl (finIn_inclInner c L I line hl args (hI _ (by simp [Node.ilines])) s)
theorem fin_traceList (c : RCtx) (L : List Nat) (I : List (Nat × Bytes)) :
    ∀ (ns : List Node) (s : RS), (∀ x, x ∈ elinesList ns → x ∈ L) → (∀ x, x ∈ ilinesList ns → x ∈ I) → (traceList c ns s).FinAt c L I
  | [], s, _, _ => by unfold traceList; exact finAt_finNone rfl
  | n :: ns, s, hL, hI => by
    unfold traceList
    have hn := fin_traceNode c L I n s (fun y hy => hL y (by simp [elinesList, hy])) (fun y hy => hI y (by simp [ilinesList, hy]))
    refine finAt_bind _ hn (fun a _ => ?_)
    split
    · exact fin_traceList c L I ns a.2 (fun y hy => hL y (by simp [elinesList, hy])) (fun y hy => hI y (by simp [ilinesList, hy]))
    · exact hn
theorem fin_traceBlockBody (c : RCtx) (L : List Nat) (I : List (Nat × Bytes)) (body : List Node) (s : RS)
    (hL : ∀ x, x ∈ elinesList body → x ∈ L) (hI : ∀ x, x ∈ ilinesList body → x ∈ I) : (traceBlockBody c body s).FinAt c L I := by
  unfold traceBlockBody
  have hl := fin_traceList c L I body s hL hI
  refine finAt_bind _ hl (fun a _ => ?_)
  split
  · exact finAt_ownTr_nf c L I _ _ (pureFail_flush _)
  · exact hl
theorem fin_traceBranches (c : RCtx) (L : List Nat) (I : List (Nat × Bytes)) :
    ∀ (bs : List (CondT × List Node)) (s : RS), (∀ x, x ∈ elinesBranches bs → x ∈ L) → (∀ x, x ∈ ilinesBranches bs → x ∈ I) →
      (traceBranches c bs s).FinAt c L I
  | [], s, _, _ => by unfold traceBranches; exact finAt_finNone rfl
  | (t, body) :: rest, s, hL, hI => by
    unfold traceBranches
    have h0 : (ownTr ⟨t.tagLine, true⟩ (evalCond c.P c.cfg.path t s)).FinAt c L I := by
      cases t with
      | always => exact finAt_ownTr_nf c L I _ _ rfl
      | expr line e => exact finAt_ownTr c L I line (hL _ (by simp [elinesBranches, CondT.lines])) _
      | notExpr line e => exact finAt_ownTr c L I line (hL _ (by simp [elinesBranches, CondT.lines])) _
    refine finAt_bind _ h0 (fun a _ => ?_)
    split
    · exact fin_traceBlockBody c L I body a.2 (fun y hy => hL y (by simp [elinesBranches, hy])) (fun y hy => hI y (by simp [ilinesBranches, hy]))
    · exact fin_traceBranches c L I rest a.2 (fun y hy => hL y (by simp [elinesBranches, hy])) (fun y hy => hI y (by simp [ilinesBranches, hy]))
theorem fin_traceCases (c : RCtx) (L : List Nat) (I : List (Nat × Bytes)) (sel : GoVal) :
    ∀ (cs : List (Option (Nat × List Expr) × List Node)) (s : RS), (∀ x, x ∈ elinesCases cs → x ∈ L) → (∀ x, x ∈ ilinesCases cs → x ∈ I) →
      (traceCases c sel cs s).FinAt c L I
  | [], s, _, _ => by unfold traceCases; exact finAt_finNone rfl
  | (none, body) :: _, s, hL, hI => by
    unfold traceCases
    exact fin_traceBlockBody c L I body s (fun y hy => hL y (by simp [elinesCases, hy])) (fun y hy => hI y (by simp [ilinesCases, hy]))
  | (some (line, es), body) :: rest, s, hL, hI => by
    unfold traceCases
    refine finAt_bind _ (finAt_ownTr c L I line (hL _ (by simp [elinesCases])) _) (fun a _ => ?_)
    split
    · exact fin_traceBlockBody c L I body a.2 (fun y hy => hL y (by simp [elinesCases, hy])) (fun y hy => hI y (by simp [ilinesCases, hy]))
    · exact fin_traceCases c L I sel rest a.2 (fun y hy => hL y (by simp [elinesCases, hy])) (fun y hy => hI y (by simp [ilinesCases, hy]))
end

/-- the end of the root's trace: a tag or object of the tree, or a site the include handler reports for an
    include node of the tree -/
theorem fin_traceRoot (c : RCtx) (root : List Node) (env : Env) :
    (traceRoot c root env).FinAt c (elinesList root) (ilinesList root) :=
  fin_traceBlockBody c _ _ root _ (fun _ h => h) (fun _ h => h)

/-- **where the error of a render is, for trees with include nodes** (fault-free writer): at a tag or object of
    the tree, with the template's path, or where the include handler says, for an include node of the tree -/
theorem render_error_eline_or_handler (c : RCtx) (hc : IncQuiet c) (root : List Node) (env : Env) (out : Bytes) (e : RawErr)
    (h : ((renderRoot c root env).bind statusToProg).runPure = (out, .err e)) :
    ∃ se, e = .located se ∧ LocOK c (elinesList root) (ilinesList root) ⟨se.line, se.pathSet⟩ := by
  have hf := (sp_frenderOf c hc root env).fin e (Prog.pureFail_of_runPure _ _ _ h)
  obtain ⟨l, hl, hok⟩ := fin_traceRoot c root env _ hf
  cases e with
  | plain cause => cases hl
  | located se =>
    simp only [RawErr.site, Option.some.injEq] at hl
    exact ⟨se, rfl, hl ▸ hok⟩
