import Proofs.RenderTrace
/-!
# The trace says no more than the run: `fin` is set only when the fault-free run ends with an error or a sentinel

`sp_renderNode` … (Proofs/RenderTrace.lean) prove one direction: when the fault-free run of a node fails, or hands a
`break`/`continue` upwards, the trace's `fin` is the location of that error. This file proves the converse
(`FxS`): when `fin` is set, the fault-free run does end that way. Together: `(traceRoot c root env).fin = none`
exactly when the render has no error (`traceRoot_fin_none_iff`) — it returns, or it ends in one of the model
outcomes `panic` / `unmodelled`, about which the walk says nothing.
-/

/-- the end of the trace is set only when the program fails (fault-free writer) -/
def Fx {α} (p : Prog α) (t : Tr) : Prop := t.fin ≠ none → p.pureFail ≠ none

/-- the same for the first part of a sequence: only asked when that part does not return -/
def FxN {α} (p : Prog α) (t : Tr) : Prop := p.pureRet = none → t.fin ≠ none → p.pureFail ≠ none

/-- the end of the trace is set only when the program fails or returns a sentinel -/
def FxS (p : Prog (Status × RS)) (t : Tr) : Prop :=
  t.fin ≠ none → p.pureFail ≠ none ∨ ∃ st s, p.pureRet = some (st, s) ∧ st ≠ .done

theorem Fx.toN {α} {p : Prog α} {t : Tr} (h : Fx p t) : FxN p t := fun _ hf => h hf

theorem FxS.toN {p : Prog (Status × RS)} {t : Tr} (h : FxS p t) : FxN p t := by
  intro hr hf
  rcases h hf with h | ⟨st, s, h, _⟩
  · exact h
  · rw [hr] at h; cases h

theorem FxS.ofFinNone {p : Prog (Status × RS)} {t : Tr} (h : t.fin = none) : FxS p t := fun hf => absurd h hf

theorem FxS.failed (e : RawErr) (t : Tr) : FxS (.fail e) t := fun _ => Or.inl (by simp [Prog.pureFail])

theorem FxS.sentinel (st : Status) (s : RS) (t : Tr) (h : st ≠ .done) : FxS (.ret (st, s)) t :=
  fun _ => Or.inr ⟨st, s, rfl, h⟩

theorem fx_ownTr {α} (loc : Loc) (p : Prog α) : Fx p (ownTr loc p) := by
  intro hf
  simp only [ownTr] at hf
  cases h : p.pureFail with
  | none => rw [h] at hf; exact absurd rfl hf
  | some e => simp

theorem fx_ownTr_mapFail {α} (loc : Loc) (g : RawErr → RawErr) (p : Prog α) : Fx (p.mapFail g) (ownTr loc p) := by
  intro hf
  rw [Prog.pureFail_mapFail]
  have := fx_ownTr loc p hf
  cases h : p.pureFail with
  | none => exact absurd h this
  | some e => simp

theorem fx_pieceTr {α} (p : Prog α) : Fx p (pieceTr p) := by
  intro hf
  simp only [pieceTr] at hf
  cases h : p.pureFail with
  | none => rw [h] at hf; exact absurd rfl hf
  | some e => simp

theorem FxS.bind {α} {p : Prog α} {f : α → Prog (Status × RS)} {t1 : Tr} {t2 : α → Tr}
    (hp : FxN p t1) (hf : ∀ a, p.pureRet = some a → FxS (f a) (t2 a)) : FxS (p.bind f) (t1.bind p.pureRet t2) := by
  intro hfin
  rw [Prog.pureFail_bind, Prog.pureRet_bind]
  cases h : p.pureRet with
  | none =>
    rw [h] at hfin
    exact Or.inl (hp h hfin)
  | some a =>
    rw [h] at hfin
    exact hf a h hfin

theorem FxS.bindOwn {loc : Loc} {α} {p : Prog α} {f : α → Prog (Status × RS)} {t2 : α → Tr} (g : RawErr → RawErr)
    (hf : ∀ a, p.pureRet = some a → FxS (f a) (t2 a)) :
    FxS ((p.mapFail g).bind f) ((ownTr loc p).bind p.pureRet t2) := by
  have := FxS.bind (f := f) (t2 := t2) (fx_ownTr_mapFail loc g p).toN (fun a ha => hf a (by rwa [Prog.pureRet_mapFail] at ha))
  rwa [Prog.pureRet_mapFail] at this

theorem FxS.bind_same {p : Prog (Status × RS)} {f : Status × RS → Prog (Status × RS)} {t : Tr}
    (h : FxS p t) (hf : ∀ x, ∃ s', f x = .ret (x.1, s')) : FxS (p.bind f) t := by
  intro hfin
  rw [Prog.pureFail_bind, Prog.pureRet_bind]
  rcases h hfin with h | ⟨st, s, h, hne⟩
  · have hn : p.pureRet = none := by
      cases hpf : p.pureFail with
      | none => exact absurd hpf h
      | some e => exact Prog.pureRet_none_of_pureFail p e hpf
    rw [hn]
    exact Or.inl h
  · rw [h]
    obtain ⟨s', hs⟩ := hf (st, s)
    exact Or.inr ⟨st, s', by simp [hs, Prog.pureRet], hne⟩

theorem FxS.bind_done {α} {p : Prog α} {f : α → Prog (Status × RS)} {t : Tr}
    (h : Fx p t) (_hf : ∀ x, ∃ s', f x = .ret (.done, s')) : FxS (p.bind f) t := by
  intro hfin
  rw [Prog.pureFail_bind]
  have := h hfin
  have hn : p.pureRet = none := by
    cases hpf : p.pureFail with
    | none => exact absurd hpf this
    | some e => exact Prog.pureRet_none_of_pureFail p e hpf
  rw [hn]
  exact Or.inl this

theorem Status.wrap_ne_done (path : Bytes) (loc : Loc) (st : Status) (h : st ≠ .done) : st.wrap path loc ≠ .done := by
  cases st with
  | done => exact absurd rfl h
  | brk e => simp [Status.wrap]
  | cont e => simp [Status.wrap]

theorem FxS.wrapped {m : M Status} {s : RS} {t : Tr} (path : Bytes) (loc : Loc) (h : FxS (m s) t) :
    FxS (wrapAt path loc m s) (t.wrap path loc) := by
  intro hfin
  have hf : t.fin ≠ none := by
    intro h0
    simp only [Tr.wrap, h0, Option.map_none] at hfin
    exact hfin rfl
  unfold wrapAt
  rw [Prog.pureFail_bind, Prog.pureRet_bind, Prog.pureRet_mapFail, Prog.pureFail_mapFail]
  rcases h hf with h | ⟨st, s', h, hne⟩
  · cases hpf : (m s).pureFail with
    | none => exact absurd hpf h
    | some e =>
      rw [Prog.pureRet_none_of_pureFail _ e hpf]
      exact Or.inl (by simp)
  · rw [h]
    exact Or.inr ⟨st.wrap path loc, s', rfl, Status.wrap_ne_done path loc st hne⟩

/-! ## Loops -/

theorem fx_iterate (var : Bytes) (cols : Option Nat) (bodyM : M Status) (bodyT : RS → Tr)
    (hb : ∀ s, FxS (bodyM s) (bodyT s)) (n : Nat) :
    ∀ xs i cyc s, FxS (iterateM var cols bodyM n xs i cyc s) (iterTrace var cols bodyM bodyT n xs i cyc s) := by
  intro xs
  induction xs with
  | nil =>
    intro i cyc s
    unfold iterTrace
    exact FxS.ofFinNone rfl
  | cons x xs ih =>
    intro i cyc s
    rw [iterateM_cons_pre]
    unfold iterTrace
    simp only [M.bind_apply]
    refine FxS.bind (fx_pieceTr _).toN (fun a _ => ?_)
    refine FxS.bind (hb a.2).toN (fun b _ => ?_)
    refine FxS.bind (fx_pieceTr _).toN (fun d _ => ?_)
    obtain ⟨st, s2⟩ := b
    cases st with
    | brk e => exact FxS.ofFinNone rfl
    | done => exact ih _ _ _
    | cont e => exact ih _ _ _

theorem fx_loopRun {budget : Int} (P : Prims) (path : Bytes) (loc : Loc) (tablerow : Bool) (var : Bytes) (e : Expr) (mods : LoopMods)
    (bodyM : M Status) (bodyT : RS → Tr) (hb : ∀ s, FxS (bodyM s) (bodyT s)) (tooMany : Bool)
    (elseM : Option (M Status)) (elseT : Option (RS → Tr))
    (he : match elseM, elseT with
      | some m, some t => ∀ s, FxS (m s) (t s)
      | none, none => True
      | _, _ => False) (s : RS) :
    FxS (loopRun budget P path loc tablerow var e mods bodyM tooMany elseM s)
      (loopTrace budget P path loc tablerow var e mods bodyM bodyT tooMany elseT s) := by
  rw [loopRun_header, wrapAt_bind]
  unfold loopTrace
  rw [wrapFailAt_apply]
  refine FxS.bindOwn _ (fun a _ => ?_)
  obtain ⟨items, s1⟩ := a
  have hiter : FxS (wrapAt path loc (loopIterate P loc tablerow var mods.cols bodyM items) s1)
      ((ownTr loc (tablerowCols P tablerow mods.cols loc s1)).bind (tablerowCols P tablerow mods.cols loc s1).pureRet fun b =>
        (iterTrace var b.1 bodyM bodyT items.length items 0 [] b.2).wrap path loc) := by
    unfold loopIterate
    rw [wrapAt_bind, wrapFailAt_apply]
    refine FxS.bindOwn _ (fun b _ => ?_)
    obtain ⟨cols, s2⟩ := b
    refine FxS.wrapped path loc ?_
    simp only [M.bind_apply, M.getVar, Prog.bind]
    exact FxS.bind_same (fx_iterate var cols bodyM bodyT hb items.length items 0 [] s2)
      (fun x => ⟨{ env := (x.2.env.set nmForloop (s2.env.get nmForloop)).set var (s2.env.get var), tw := x.2.tw }, by
        simp only [restoreLoopVars, M.bind_apply, M.setVar, Prog.bind, pure, M.pure]⟩)
  cases elseM with
  | none =>
    cases elseT with
    | some t => exact he.elim
    | none =>
      have hd : loopDispatch P loc tablerow var mods.cols bodyM none items =
          loopIterate P loc tablerow var mods.cols bodyM items := by
        unfold loopDispatch; cases items <;> rfl
      simp only [hd]
      cases items <;> exact hiter
  | some m =>
    cases elseT with
    | none => exact he.elim
    | some t =>
      cases items with
      | nil =>
        have hd : loopDispatch P loc tablerow var mods.cols bodyM (some m) [] = m := by unfold loopDispatch; rfl
        simp only [hd]
        exact FxS.wrapped path loc (he s1)
      | cons x xs =>
        have hd : loopDispatch P loc tablerow var mods.cols bodyM (some m) (x :: xs) =
            loopIterate P loc tablerow var mods.cols bodyM (x :: xs) := by unfold loopDispatch; rfl
        simp only [hd]
        exact hiter

/-! ## Capture: what the body ends with is what the capture ends with -/

theorem pureRet_flush (s : RS) : ∃ s', (flushM s).pureRet = some ((), s') := by
  unfold flushM
  split
  · exact ⟨_, rfl⟩
  · exact ⟨_, rfl⟩

theorem captureM_pure_conv (m : M Status) (s : RS) :
    (∀ e, (m { env := s.env, tw := {} }).pureFail = some e → (captureM m s).pureFail = some e) ∧
    (∀ st s1, (m { env := s.env, tw := {} }).pureRet = some (st, s1) →
      ∃ out s', (captureM m s).pureRet = some ((st, out), s')) := by
  refine ⟨fun e he => ?_, fun st s1 hr => ?_⟩
  · have hp : ((m { env := s.env, tw := {} }).bind (fun (a, s1) => (flushM s1).bind (fun (_, s2) => .ret (a, s2)))).pureFail = some e := by
      rw [Prog.pureFail_bind, Prog.pureRet_none_of_pureFail _ e he]
      exact he
    have hrun := Prog.runPure_of_pureFail _ e hp
    unfold captureM
    simp only [hrun]
    rfl
  · obtain ⟨s2, h2⟩ := pureRet_flush s1
    have hp : ((m { env := s.env, tw := {} }).bind (fun (a, s1) => (flushM s1).bind (fun (_, s2) => .ret (a, s2)))).pureRet = some (st, s2) := by
      rw [Prog.pureRet_bind, hr]
      simp only [Option.bind_some, Prog.pureRet_bind, h2, Prog.pureRet]
    have hrun := Prog.runPure_of_pureRet _ _ hp
    unfold captureM
    simp only [hrun]
    exact ⟨_, _, rfl⟩

/-! ## The tree -/

mutual
theorem fx_renderNode (c : RCtx) : ∀ (n : Node) (s : RS), FxS (renderNode c n s) (traceNode c n s)
  | .text line src, s => by unfold traceNode; exact fun hf => Or.inl (fx_ownTr _ _ hf)
  | .obj line e, s => by unfold traceNode; exact fun hf => Or.inl (fx_ownTr _ _ hf)
  | .raw slices, s => by unfold traceNode; exact fun hf => Or.inl (fx_ownTr _ _ hf)
  | .trim l, s => by unfold traceNode; exact fun hf => Or.inl (fx_ownTr _ _ hf)
  | .assign line x e, s => by unfold traceNode; exact fun hf => Or.inl (fx_ownTr _ _ hf)
  | .cycle line group v0 rest, s => by unfold traceNode; exact fun hf => Or.inl (fx_ownTr _ _ hf)
  | .brk line, s => by
    unfold traceNode renderNode
    exact FxS.sentinel _ _ _ (by simp)
  | .cont line, s => by
    unfold traceNode renderNode
    exact FxS.sentinel _ _ _ (by simp)
  | .capture line x body, s => by
    unfold traceNode renderNode
    refine FxS.wrapped _ _ ?_
    simp only [M.bind_apply]
    have ih := fx_renderList c body { env := s.env, tw := {} }
    obtain ⟨hcf, hcr⟩ := captureM_pure_conv (renderList c body) s
    have hcap : FxN (captureM (renderList c body) s) ⟨[], (traceList c body { env := s.env, tw := {} }).fin⟩ := by
      intro hn hf
      rcases ih hf with h | ⟨st, s1, h, _⟩
      · cases hpf : (renderList c body { env := s.env, tw := {} }).pureFail with
        | none => exact absurd hpf h
        | some e => rw [hcf e hpf]; simp
      · obtain ⟨out, s', h'⟩ := hcr st s1 h
        rw [hn] at h'; cases h'
    refine FxS.bind hcap (fun a _ => ?_)
    obtain ⟨⟨st, out⟩, s'⟩ := a
    cases st with
    | done => exact FxS.ofFinNone rfl
    | brk e => exact FxS.sentinel _ _ _ (by simp)
    | cont e => exact FxS.sentinel _ _ _ (by simp)
  | .ifB line branches, s => by
    unfold traceNode renderNode
    exact FxS.wrapped _ _ (fx_renderBranches c branches s)
  | .caseB line subject cases, s => by
    unfold traceNode renderNode
    refine FxS.wrapped _ _ ?_
    simp only [M.bind_apply, M.getEnv, Prog.bind]
    cases hv : evaluate c.P s.env subject with
    | ok sel =>
      simp only [M.ofRes, M.pure, Prog.bind]
      exact fx_renderCases c sel cases s
    | err cause =>
      simp only [M.ofRes, M.fail, Prog.bind]
      exact FxS.failed _ _
    | panic w => exact FxS.ofFinNone rfl
    | unmodelled w => exact FxS.ofFinNone rfl
  | .loop line tablerow var e mods body [], s => by
    unfold traceNode renderNode
    exact fx_loopRun c.P c.cfg.path ⟨line, true⟩ tablerow var e mods _ _ (fun s => fx_renderBlockBody c body s)
      false none none trivial s
  | .loop line tablerow var e mods body [els], s => by
    unfold traceNode renderNode
    exact fx_loopRun c.P c.cfg.path ⟨line, true⟩ tablerow var e mods _ _ (fun s => fx_renderBlockBody c body s)
      false (some _) (some _) (fun s => fx_renderBlockBody c els s) s
  | .loop line tablerow var e mods body (_ :: _ :: _), s => by
    unfold traceNode renderNode
    exact fx_loopRun c.P c.cfg.path ⟨line, true⟩ tablerow var e mods _ _ (fun s => fx_renderBlockBody c body s)
      true none none trivial s
  | .incl line args, s => by
    unfold traceNode inclInner
    cases hp : parseExprSource args with
    | ok e =>
      dsimp only
      cases hv : evaluate c.P s.env e with
      | ok v =>
        cases v with
        | str rel =>
          rw [include_resolves c line args s e rel hp hv]
          refine FxS.wrapped _ _ ?_
          simp only
          have hh : FxN (c.inc line (joinPath (dirPath c.cfg.path) rel) s.env)
              ⟨[], (c.inc line (joinPath (dirPath c.cfg.path) rel) s.env).pureFail.map RawErr.site⟩ := by
            intro _ hf
            cases hpf : (c.inc line (joinPath (dirPath c.cfg.path) rel) s.env).pureFail with
            | none => simp only [hpf, Option.map_none] at hf; exact absurd rfl hf
            | some e => simp
          refine FxS.bind hh (fun r _ => ?_)
          obtain ⟨st, out⟩ := r
          cases st with
          | done => exact FxS.bind_done (fx_pieceTr _) (fun x => ⟨x.2, rfl⟩)
          | brk e => exact FxS.sentinel _ _ _ (by simp)
          | cont e => exact FxS.sentinel _ _ _ (by simp)
        | _ =>
          rw [include_nonstring_err c line args s e _ hp hv (by intro r h; cases h)]
          exact FxS.failed _ _
      | err cause =>
        unfold renderNode
        simp only [wrapAt, M.bind_apply, M.getEnv, Prog.bind, hp, hv, Res.mapErr, M.ofRes, M.fail, pure, M.pure, Prog.mapFail]
        exact FxS.failed _ _
      | panic w => exact FxS.ofFinNone rfl
      | unmodelled w => exact FxS.ofFinNone rfl
    | err pe =>
      unfold renderNode
      simp only [wrapAt, M.bind_apply, M.getEnv, Prog.bind, hp, Res.mapErr, M.ofRes, M.fail, pure, Prog.mapFail]
      exact FxS.failed _ _
    | panic w => exact FxS.ofFinNone rfl
    | unmodelled w => exact FxS.ofFinNone rfl
theorem fx_renderList (c : RCtx) : ∀ (ns : List Node) (s : RS), FxS (renderList c ns s) (traceList c ns s)
  | [], s => by
    unfold traceList
    exact FxS.ofFinNone rfl
  | n :: ns, s => by
    unfold renderList traceList
    simp only [M.bind_apply]
    refine FxS.bind (fx_renderNode c n s).toN (fun a _ => ?_)
    obtain ⟨st, s'⟩ := a
    cases st with
    | done => exact fx_renderList c ns s'
    | brk e => exact FxS.sentinel _ _ _ (by simp)
    | cont e => exact FxS.sentinel _ _ _ (by simp)
theorem fx_renderBlockBody (c : RCtx) (body : List Node) (s : RS) :
    FxS (renderBlockBody c body s) (traceBlockBody c body s) := by
  unfold renderBlockBody traceBlockBody
  simp only [M.bind_apply]
  refine FxS.bind (fx_renderList c body s).toN (fun a _ => ?_)
  obtain ⟨st, s'⟩ := a
  cases st with
  | done => exact FxS.bind_done (fx_ownTr_mapFail _ _ _) (fun x => ⟨x.2, rfl⟩)
  | brk e => exact FxS.sentinel _ _ _ (by simp)
  | cont e => exact FxS.sentinel _ _ _ (by simp)
theorem fx_renderBranches (c : RCtx) :
    ∀ (bs : List (CondT × List Node)) (s : RS), FxS (renderBranches c bs s) (traceBranches c bs s)
  | [], s => by
    unfold traceBranches
    exact FxS.ofFinNone rfl
  | (t, body) :: rest, s => by
    unfold renderBranches traceBranches
    simp only [M.bind_apply]
    refine FxS.bind (fx_ownTr _ _).toN (fun a _ => ?_)
    obtain ⟨b, s'⟩ := a
    cases b with
    | true => exact fx_renderBlockBody c body s'
    | false => exact fx_renderBranches c rest s'
theorem fx_renderCases (c : RCtx) (sel : GoVal) :
    ∀ (cs : List (Option (Nat × List Expr) × List Node)) (s : RS), FxS (renderCases c sel cs s) (traceCases c sel cs s)
  | [], s => by
    unfold traceCases
    exact FxS.ofFinNone rfl
  | (none, body) :: _, s => by
    unfold renderCases traceCases
    exact fx_renderBlockBody c body s
  | (some (line, es), body) :: rest, s => by
    unfold renderCases traceCases
    simp only [M.bind_apply, wrapFailAt_apply]
    refine FxS.bindOwn _ (fun a _ => ?_)
    obtain ⟨b, s'⟩ := a
    cases b with
    | true => exact fx_renderBlockBody c body s'
    | false => exact fx_renderCases c sel rest s'
end

/-! ## The whole render -/

/-- when the trace of the root ends with a site, `FRender` on a writer that does not fail ends with an error -/
theorem fx_frenderOf (c : RCtx) (root : List Node) (env : Env) :
    Fx ((renderRoot c root env).bind statusToProg) (traceRoot c root env) := by
  intro hf
  rw [renderRoot_eq, Prog.pureFail_bind, Prog.pureRet_bind]
  rcases fx_renderBlockBody c root { env := env, tw := {} } hf with h | ⟨st, s, h, hne⟩
  · cases hpf : (renderBlockBody c root { env := env, tw := {} }).pureFail with
    | none => exact absurd hpf h
    | some e =>
      rw [Prog.pureRet_none_of_pureFail _ e hpf]
      simp only [Option.bind_none, Prog.pureFail_bind, Prog.pureRet_none_of_pureFail _ e hpf, hpf]
      simp
  · rw [h]
    simp only [Option.bind_some, Prog.pureRet]
    cases st with
    | done => exact absurd rfl hne
    | brk e => simp [statusToProg, Prog.pureFail]
    | cont e => simp [statusToProg, Prog.pureFail]

/-- **the walk ends without a site exactly when the render has no error** (fault-free writer) -/
theorem traceRoot_fin_none_iff (c : RCtx) (hc : IncQuiet c) (root : List Node) (env : Env) :
    (traceRoot c root env).fin = none ↔ ((renderRoot c root env).bind statusToProg).pureFail = none := by
  constructor
  · intro h
    cases hpf : ((renderRoot c root env).bind statusToProg).pureFail with
    | none => rfl
    | some e =>
      have := (sp_frenderOf c hc root env).fin e hpf
      rw [h] at this; cases this
  · intro h
    cases hf : (traceRoot c root env).fin with
    | none => rfl
    | some l => exact absurd h (fx_frenderOf c root env (by rw [hf]; simp))
