import Proofs.ExprLitLemmas
import Proofs.ExprRoundTrip
/-!
# The scanner on the printed text of a tree (helper lemmas for `Proofs/C08.lean`)

`lexeme_of_ok`: the canonical spelling of a token that has one (`ETok.ok`) is a complete lexeme of its rule
(`Lexeme`, `Proofs/ExprLexemes.lean`) and `mkTok` reads it back as that token.
`fits_ok`: such a lexeme is cut off before the end of the text, a break byte (white space, `( ) [ ] , | ;` …)
and before `.name`.
`lex_spaced`: the tokens written with ANY white space between them - none at all where the printer writes
none (after `(`, `[`; before `.name`, `[`, `]`, `,`, `)`) - are read back by the scanner as exactly these tokens.
`lexesBack_of_printable` is the instance for the printer's own layout.
-/

set_option linter.unusedSimpArgs false

/-! ## identifiers -/

theorem isIdentBytes_decomp (x : Bytes) (h : isIdentBytes x = true) :
    ∃ c body qm, x = c :: body ++ qm ∧ isIdStart c = true ∧ body.all isIdCont = true ∧ (qm = [] ∨ qm = [63]) := by
  cases x with
  | nil => simp [isIdentBytes] at h
  | cons c t =>
    simp only [isIdentBytes, Bool.and_eq_true] at h
    obtain ⟨hc, ht⟩ := h
    by_cases hl : t.getLast? = some 63
    · simp only [hl, BEq.rfl, if_true] at ht
      refine ⟨c, t.dropLast, [63], ?_, hc, ht, Or.inr rfl⟩
      have hne : t ≠ [] := by intro h0; subst h0; simp at hl
      have h63 : t.getLast hne = 63 := by
        rw [List.getLast?_eq_some_getLast hne] at hl; exact Option.some.inj hl
      have := List.dropLast_concat_getLast hne
      rw [h63] at this
      simp only [List.cons_append, this]
    · have hb : (t.getLast? == some 63) = false := by simpa using hl
      simp only [hb, Bool.false_eq_true, if_false] at ht
      exact ⟨c, t, [], by simp, hc, ht, Or.inl rfl⟩

theorem wordRule_ident (x : Bytes) (h : reservedWords.contains x = false) : wordRule x = .rIdent := by
  simp only [reservedWords, List.contains_eq_mem, List.mem_cons, List.mem_nil_iff, or_false, decide_eq_false_iff_not,
    not_or] at h
  obtain ⟨h1, h2, h3, h4, h5, h6, h7⟩ := h
  unfold wordRule
  simp [h1, h2, h3, h4, h5, h6, h7]

theorem printed_isPunct : ∀ b : UInt8, printedCh b = true → isPunct b = true := by decide +kernel

theorem contains_false_all_ne (s : Bytes) (q : UInt8) (h : s.contains q = false) :
    s.all (fun b => b != q) = true := by
  rw [List.all_eq_true]
  intro b hb
  simp only [bne_iff_ne, ne_eq]
  intro hq; subst hq
  simp only [List.contains_eq_mem, decide_eq_false_iff_not] at h
  exact h hb

theorem mkTok_string (q : UInt8) (s : Bytes) : mkTok .rString (q :: s ++ [q]) = .ok (some (.lit (.str s))) := by
  simp only [mkTok, List.cons_append, List.drop_succ_cons, List.drop_zero, List.length_cons, List.length_append,
    List.length_nil]
  have : s.length + 0 + 1 + 1 - 2 = s.length := by omega
  rw [this, List.take_left' rfl]

/-! ## the canonical lexeme of a token is a lexeme, and denotes the token -/

theorem lexeme_word (w : Bytes) (c : UInt8) (body : Bytes) (hw : w = c :: body ++ []) (hc : isIdStart c = true)
    (hb : body.all isIdCont = true) : Lexeme (wordRule w) w := by
  subst hw; exact Lexeme.word c body [] hc hb (Or.inl rfl)

theorem lexeme_int (n : Int) (h : IntKind.i64.inRange n = true) :
    Lexeme .rInt (intDec n) ∧ mkTok .rInt (intDec n) = .ok (some (.lit (.int .int n))) := by
  by_cases hn : n < 0
  · have hv : -(n.natAbs : Int) = n := by omega
    have hl := Lexeme.int [45] (natDec n.natAbs) (Or.inr rfl) (natDec_ne_nil _) (natDec_all_digits _)
    simp only [intDec, hn, if_true]
    refine ⟨hl, ?_⟩
    simp only [mkTok, intLitValue_neg, decVal_natDec, hv, h, if_true]
  · have hv : (n.natAbs : Int) = n := by omega
    have hl := Lexeme.int [] (natDec n.natAbs) (Or.inl rfl) (natDec_ne_nil _) (natDec_all_digits _)
    simp only [intDec, hn, if_false]
    refine ⟨hl, ?_⟩
    simp only [mkTok, intLitValue_pos _ (natDec_ne_nil _) (natDec_all_digits _), decVal_natDec, hv, h, if_true]

theorem lexeme_float (q : Rat) : Lexeme .rFloat (showFloat q) := by
  unfold showFloat
  have hfd : ∀ a b : Nat, (zeros a ++ natDec b).all isDigit = true := by
    intro a b; rw [List.all_append, zeros_all_digits, natDec_all_digits]; rfl
  have hfne : ∀ a b : Nat, zeros a ++ natDec b ≠ [] := by
    intro a b h0; exact natDec_ne_nil _ (List.append_eq_nil_iff.1 h0).2
  by_cases hq : q < 0
  · simp only [hq, if_true]
    exact Lexeme.float [45] _ _ (Or.inr rfl) (natDec_ne_nil _) (natDec_all_digits _) (hfne _ _) (hfd _ _)
  · simp only [hq, if_false]
    exact Lexeme.float [] _ _ (Or.inl rfl) (natDec_ne_nil _) (natDec_all_digits _) (hfne _ _) (hfd _ _)

theorem lexeme_str (s : Bytes) (h : (!(s.contains 34 && s.contains 39)) = true) :
    Lexeme .rString (showStr s) ∧ mkTok .rString (showStr s) = .ok (some (.lit (.str s))) := by
  unfold showStr
  by_cases h34 : s.contains 34 = true
  · have h39 : s.contains 39 = false := by
      cases h' : s.contains 39 with
      | false => rfl
      | true => rw [h34, h'] at h; cases h
    rw [if_pos h34]
    exact ⟨Lexeme.string 39 s rfl (contains_false_all_ne s 39 h39), mkTok_string 39 s⟩
  · have h34' : s.contains 34 = false := by simpa using h34
    rw [if_neg h34]
    exact ⟨Lexeme.string 34 s rfl (contains_false_all_ne s 34 h34'), mkTok_string 34 s⟩

/-- **the canonical spelling of a token is one complete lexeme of its rule, and `mkTok` reads it back** -/
theorem lexeme_of_ok (t : ETok) (h : t.ok = true) :
    Lexeme t.lexeme.1 t.lexeme.2 ∧ mkTok t.lexeme.1 t.lexeme.2 = .ok (some t) := by
  cases t with
  | lit v =>
    cases v with
    | nil => exact ⟨lexeme_word kwNil 110 [105, 108] rfl (by decide) (by decide), rfl⟩
    | bool b =>
      cases b with
      | true => exact ⟨lexeme_word kwTrue 116 [114, 117, 101] rfl (by decide) (by decide), rfl⟩
      | false => exact ⟨lexeme_word kwFalse 102 [97, 108, 115, 101] rfl (by decide) (by decide), rfl⟩
    | int k n =>
      cases k <;> first | exact lexeme_int n h | (simp [ETok.ok] at h)
    | flt k q =>
      cases k with
      | f64 =>
        refine ⟨lexeme_float q, ?_⟩
        simp only [ETok.ok, beq_iff_eq] at h
        simp only [ETok.lexeme, mkTok, h]
      | f32 => simp [ETok.ok] at h
    | str s => exact lexeme_str s h
    | bytes => simp [ETok.ok] at h
    | slice => simp [ETok.ok] at h
    | array => simp [ETok.ok] at h
    | map => simp [ETok.ok] at h
    | mapSlice => simp [ETok.ok] at h
    | keyedMap => simp [ETok.ok] at h
    | range => simp [ETok.ok] at h
    | ptr => simp [ETok.ok] at h
    | nilPtr => simp [ETok.ok] at h
    | drop => simp [ETok.ok] at h
    | struct => simp [ETok.ok] at h
    | time => simp [ETok.ok] at h
  | ident x =>
    simp only [ETok.ok, Bool.and_eq_true, Bool.not_eq_true'] at h
    obtain ⟨c, body, qm, rfl, hc, hb, hqm⟩ := isIdentBytes_decomp x h.1
    have hl := Lexeme.word c body qm hc hb hqm
    rw [wordRule_ident _ h.2] at hl
    exact ⟨hl, rfl⟩
  | keyword x =>
    simp only [ETok.ok] at h
    obtain ⟨c, body, qm, rfl, hc, hb, hqm⟩ := isIdentBytes_decomp x h
    refine ⟨Lexeme.keyword c body qm hc hb hqm, ?_⟩
    simp only [ETok.lexeme, mkTok]
    have : (c :: body ++ qm ++ [58]).length - 1 = (c :: body ++ qm).length := by
      simp only [List.length_cons, List.length_append, List.length_nil]; omega
    rw [this, List.take_left' rfl]
  | property x =>
    simp only [ETok.ok] at h
    obtain ⟨c, body, qm, rfl, hc, hb, hqm⟩ := isIdentBytes_decomp x h
    exact ⟨Lexeme.property c body qm hc hb hqm, rfl⟩
  | assign => simp [ETok.ok] at h
  | cycle => simp [ETok.ok] at h
  | loop => simp [ETok.ok] at h
  | when => simp [ETok.ok] at h
  | eq => exact ⟨Lexeme.op2 61 rfl, rfl⟩
  | neq => exact ⟨Lexeme.op2 33 rfl, rfl⟩
  | ge => exact ⟨Lexeme.op2 62 rfl, rfl⟩
  | le => exact ⟨Lexeme.op2 60 rfl, rfl⟩
  | and_ => exact ⟨lexeme_word kwAnd 97 [110, 100] rfl (by decide) (by decide), rfl⟩
  | or_ => exact ⟨lexeme_word kwOr 111 [114] rfl (by decide) (by decide), rfl⟩
  | contains => exact ⟨lexeme_word kwContains 99 [111, 110, 116, 97, 105, 110, 115] rfl (by decide) (by decide), rfl⟩
  | in_ => exact ⟨lexeme_word kwIn 105 [110] rfl (by decide) (by decide), rfl⟩
  | dotdot => exact ⟨Lexeme.dotdot, rfl⟩
  | ch b =>
    simp only [ETok.ok] at h
    exact ⟨Lexeme.punct b (printed_isPunct b h), rfl⟩

/-- no token is spelled `.` -/
theorem lexeme_ne_dot (t : ETok) (h : t.ok = true) : t.lexeme.2 ≠ [46] := by
  intro heq
  obtain ⟨hl, hm⟩ := lexeme_of_ok t h
  rw [heq] at hl hm
  have h1 := lexStep_lexeme _ [46] [] hl (fits_nil _ _ hl)
  have h2 : lexStep ([46] ++ []) = some (.rAny, 1) := lexStep_dot_alone [] rfl
  rw [h2] at h1
  simp only [Option.some.injEq, Prod.mk.injEq] at h1
  rw [← h1.1] at hm
  simp only [mkTok, Res.ok.injEq, Option.some.injEq] at hm
  subst hm
  simp [ETok.ok, printedCh] at h

/-! ## what may follow a canonical lexeme -/

/-- the text starts with `.name` -/
def startsProp : Bytes → Bool
  | b :: c :: _ => b == 46 && isIdStart c
  | _ => false

/-- the text is empty, or starts with a break byte, or with `.name` -/
def safeRest (s : Bytes) : Bool := startsWithBreak s || startsProp s

theorem idStart_not_digit : ∀ c : UInt8, isIdStart c = true → isDigit c = false := by decide +kernel

/-- every lexeme other than `.` is cut off before `.name` -/
theorem fits_dot (r : Rule) (l : Bytes) (c : UInt8) (t : Bytes) (hl : Lexeme r l) (hc : isIdStart c = true)
    (hne : l ≠ [46]) : fits r l (46 :: c :: t) = true := by
  have hd := idStart_not_digit c hc
  have hw : ∀ w : Bytes, fitsWord w (46 :: c :: t) = true := by
    intro w; simp [fitsWord, headOK, isIdCont, isAlnum, isAlpha, isDigit]
  have hi : ∀ w : Bytes, fitsIdent w (46 :: c :: t) = true := by
    intro w; simp [fitsIdent, hw, headOK]
  cases hl with
  | int sg ds hs hne' hd' =>
    have h46 : isDigit 46 = false := by decide
    simp only [fits, fitsInt, headOK, h46, hd, Bool.not_false, Bool.and_self]
  | float => simp [fits, headOK, isDigit]
  | string => rfl
  | word c' body qm => rw [fits_word]; exact hi _
  | keyword => rfl
  | property => exact hw _
  | op2 c' hc' =>
    simp only [isOpStart, Bool.or_eq_true, beq_iff_eq] at hc'
    rcases hc' with ((rfl | rfl) | rfl) | rfl <;> rfl
  | dotdot => rfl
  | punct c' hc' =>
    have h46 : (c' == 46) = false := by
      cases h : c' == 46 with
      | false => rfl
      | true => exact absurd (by rw [beq_iff_eq.1 h]) hne
    simp only [fits, fitsPunct, h46, Bool.false_eq_true, if_false, headOK, isDigit, litLen_cons, kwAssign, kwLoop,
      kwCycle, kwWhen]
    repeat' split
    all_goals simp_all
  | selAssign => rfl
  | selCycle => rfl
  | selLoop => rfl
  | selWhen => rfl

/-- **a canonical lexeme is cut off** before the end, a break byte, and `.name` -/
theorem fits_ok (t : ETok) (h : t.ok = true) (rest : Bytes) (hs : safeRest rest = true) :
    fits t.lexeme.1 t.lexeme.2 rest = true := by
  have hl := (lexeme_of_ok t h).1
  simp only [safeRest, Bool.or_eq_true] at hs
  rcases hs with hs | hs
  · exact fits_startsWithBreak _ _ _ hl hs
  · match rest, hs with
    | b :: c :: r, hs =>
      simp only [startsProp, Bool.and_eq_true, beq_iff_eq] at hs
      rw [hs.1]
      exact fits_dot _ _ c r hl hs.2 (lexeme_ne_dot t h)

/-- after `(` and `[` anything may follow -/
theorem fits_tightAfter (t : ETok) (h : tightAfter t = true) (rest : Bytes) : fits t.lexeme.1 t.lexeme.2 rest = true := by
  cases t with
  | ch b =>
    simp only [tightAfter, Bool.or_eq_true, beq_iff_eq] at h
    rcases h with rfl | rfl <;> rfl
  | _ => simp [tightAfter] at h

/-- `.name`, `[`, `]`, `,`, `)` may follow any canonical lexeme -/
theorem tightBefore_safe (t : ETok) (hok : t.ok = true) (h : tightBefore t = true) (rest : Bytes) :
    safeRest (t.lexeme.2 ++ rest) = true := by
  cases t with
  | property x =>
    simp only [ETok.ok] at hok
    obtain ⟨c, body, qm, rfl, hc, _, _⟩ := isIdentBytes_decomp x hok
    simp [safeRest, startsProp, ETok.lexeme, hc]
  | ch b =>
    simp only [tightBefore, Bool.or_eq_true, beq_iff_eq] at h
    rcases h with ((rfl | rfl) | rfl) | rfl <;> rfl
  | _ => simp [tightBefore] at h

/-! ## token lists written with white space -/

/-- the tokens with the white space written before each of them -/
def spacedToks : List (Bytes × ETok) → Bytes
  | [] => []
  | x :: xs => x.1 ++ x.2.lexeme.2 ++ spacedToks xs

def pairPieces (l : List (Bytes × ETok)) : List Piece := l.map fun x => ⟨x.1, x.2.lexeme.1, x.2.lexeme.2⟩

theorem src_pairPieces (l : List (Bytes × ETok)) : Piece.src (pairPieces l) = spacedToks l := by
  induction l with
  | nil => rfl
  | cons x xs ih => simp only [pairPieces, List.map_cons, Piece.src, spacedToks] at ih ⊢; rw [ih]

/-- **the separators are admissible**: white space only (space, `\t \n \v \f \r`), and not empty between two
    tokens unless the left one is `(` or `[` or the right one is `.name`, `[`, `]`, `,` or `)` — the places
    where the printer writes nothing (`prev`: the token before the list) -/
def SepsOK : Option ETok → List (Bytes × ETok) → Prop
  | _, [] => True
  | prev, x :: xs =>
    isSpaces x.1 = true ∧
    (match prev with
     | none => True
     | some p => x.1 = [] → (tightAfter p || tightBefore x.2) = true) ∧
    SepsOK (some x.2) xs

theorem safeRest_semi (w : Bytes) (hw : isSpaces w = true) : safeRest (w ++ [59]) = true := by
  cases w with
  | nil => rfl
  | cons c t =>
    simp only [isSpaces, List.all_cons, Bool.and_eq_true] at hw
    simp [safeRest, startsWithBreak, headOK, space_isBreak c hw.1]

theorem wellSpaced_pairs (l : List (Bytes × ETok)) (w : Bytes) (hw : isSpaces w = true) :
    ∀ prev, (∀ x ∈ l, x.2.ok = true) → SepsOK prev l → WellSpaced (pairPieces l ++ [semiPiece w]) := by
  induction l with
  | nil => intro _ _ _; exact ⟨hw, lexeme_semi, rfl, trivial⟩
  | cons x xs ih =>
    intro prev hok hs
    obtain ⟨hsp, _, hrest⟩ := hs
    have hx := hok x (List.mem_cons_self ..)
    refine ⟨hsp, (lexeme_of_ok x.2 hx).1, ?_, ih (some x.2) (fun y hy => hok y (List.mem_cons_of_mem _ hy)) hrest⟩
    show fits x.2.lexeme.1 x.2.lexeme.2 (Piece.src (pairPieces xs ++ [semiPiece w])) = true
    rw [src_append, src_pairPieces]
    cases xs with
    | nil =>
      apply fits_ok _ hx
      simpa [spacedToks, Piece.src, semiPiece] using safeRest_semi w hw
    | cons y ys =>
      obtain ⟨hysp, hyt, _⟩ := hrest
      have hy := hok y (List.mem_cons_of_mem _ (List.mem_cons_self ..))
      simp only [spacedToks, List.append_assoc]
      cases hw1 : y.1 with
      | cons c t =>
        apply fits_ok _ hx
        rw [hw1] at hysp
        simp only [isSpaces, List.all_cons, Bool.and_eq_true] at hysp
        simp [safeRest, startsWithBreak, headOK, space_isBreak c hysp.1]
      | nil =>
        have ht := hyt hw1
        simp only [Bool.or_eq_true] at ht
        rcases ht with ht | ht
        · exact fits_tightAfter _ ht _
        · apply fits_ok _ hx
          simpa using tightBefore_safe y.2 hy ht _

theorem lexemeToks_toks (ts : List ETok) (hok : ∀ t ∈ ts, t.ok = true) (tail : List (Rule × Bytes)) :
    lexemeToks (ts.map ETok.lexeme ++ tail) = (ts ++ (lexemeToks tail).1, (lexemeToks tail).2) := by
  induction ts with
  | nil => rfl
  | cons t ts ih =>
    have ht := (lexeme_of_ok t (hok t (List.mem_cons_self ..))).2
    simp only [List.map_cons, List.cons_append, lexemeToks, ht, consTok,
      ih (fun y hy => hok y (List.mem_cons_of_mem _ hy))]

/-- **the scanner on spaced tokens**: tokens that have a spelling, written with admissible separators and any
    trailing white space, are read back as exactly these tokens (and the closing `;`) -/
theorem lex_spaced (l : List (Bytes × ETok)) (w : Bytes) (hok : ∀ x ∈ l, x.2.ok = true) (hs : SepsOK none l)
    (hw : isSpaces w = true) : lex (spacedToks l ++ w) = (l.map (·.2) ++ [.ch 59], none) := by
  have hws := wellSpaced_pairs l w hw none hok hs
  rw [lex_eq_lexRun]
  have : spacedToks l ++ w ++ [59] = Piece.src (pairPieces l ++ [semiPiece w]) := by
    rw [src_append, src_pairPieces]; simp [Piece.src, semiPiece]
  rw [this, lexRun_pieces _ hws]
  have hmap : (pairPieces l ++ [semiPiece w]).map Piece.lexeme = (l.map (·.2)).map ETok.lexeme ++ [(.rAny, [59])] := by
    simp [pairPieces, Piece.lexeme, semiPiece, Function.comp_def]
  rw [hmap, lexemeToks_toks _ (by
    intro t ht
    obtain ⟨x, hx, rfl⟩ := List.mem_map.1 ht
    exact hok x hx)]
  rfl

/-! ## the printer's own layout -/

/-- the separators the printer writes -/
def showLayout : Option ETok → List ETok → List (Bytes × ETok)
  | _, [] => []
  | prev, t :: ts =>
    ((match prev with
      | none => []
      | some p => if tightAfter p || tightBefore t then [] else [32]), t) :: showLayout (some t) ts

theorem showLayout_toks (prev : Option ETok) (ts : List ETok) : (showLayout prev ts).map (·.2) = ts := by
  induction ts generalizing prev with
  | nil => rfl
  | cons t ts ih => simp [showLayout, ih]

theorem showLayout_text (prev : Option ETok) (ts : List ETok) : spacedToks (showLayout prev ts) = showToks prev ts := by
  induction ts generalizing prev with
  | nil => rfl
  | cons t ts ih => simp only [showLayout, spacedToks, showToks, ih]; rfl

theorem showLayout_ok (prev : Option ETok) (ts : List ETok) : SepsOK prev (showLayout prev ts) := by
  induction ts generalizing prev with
  | nil => trivial
  | cons t ts ih =>
    refine ⟨?_, ?_, ih _⟩
    · cases prev with
      | none => rfl
      | some p => dsimp only; split <;> rfl
    · cases prev with
      | none => trivial
      | some p =>
        dsimp only
        intro h
        split at h
        · assumption
        · cases h

theorem mem_showLayout_ok (prev : Option ETok) (ts : List ETok) (h : ts.all ETok.ok = true) :
    ∀ x ∈ showLayout prev ts, x.2.ok = true := by
  intro x hx
  have : x.2 ∈ (showLayout prev ts).map (·.2) := List.mem_map.2 ⟨x, hx, rfl⟩
  rw [showLayout_toks] at this
  exact List.all_eq_true.1 h _ this

/-- **the scanner reads the printed text of every printable tree back as its canonical tokens** -/
theorem lexesBack_of_printable (e : Expr) (h : e.printable = true) : e.lexesBack := by
  unfold Expr.lexesBack Expr.show
  have := lex_spaced (showLayout none (e.toks 0)) [] (mem_showLayout_ok none _ h) (showLayout_ok none _) rfl
  rwa [List.append_nil, showLayout_text, showLayout_toks] at this
