import Proofs.E2EUnits
import Proofs.C05
/-!
# Abstract token-level templates: items, their spelling with a delimiter set, the tokens they
denote, and the cleanliness conditions under which the tokenizer reads the spelling back

(the Lean counterpart of `harness/tokitems.go`; used by `Proofs/C19E2E.lean`)
-/

/-- an item of a template: literal text, an object `OL -? ws args ws -? OR`, or a tag
    `TL -? ws name (ws args)? ws -? TR`; the white space inside the delimiters is recorded so that the
    same item can be spelled with any delimiters -/
inductive Item where
  | text (s : Bytes)
  | obj (args : Bytes) (hl hr : Bool) (wl wr : Bytes)
  | tag (name args : Bytes) (hl hr : Bool) (wl wm wr : Bytes)
  deriving Repr, DecidableEq

def Item.isText : Item → Bool
  | .text _ => true
  | _ => false

/-- a tag's arguments with the white space that separates them from the name (nothing when there are none) -/
def tagArgPart (args wm : Bytes) : Bytes := if args = [] then [] else wm ++ args

def Item.spell (d : Delims) : Item → Bytes
  | .text s => s
  | .obj args hl hr wl wr => d.ol ++ (hyB hl ++ (wl ++ (args ++ (wr ++ (hyB hr ++ d.or)))))
  | .tag name args hl hr wl wm wr =>
    d.tl ++ (hyB hl ++ (wl ++ (name ++ (tagArgPart args wm ++ (wr ++ (hyB hr ++ d.tr))))))

def spell (d : Delims) : List Item → Bytes
  | [] => []
  | it :: r => it.spell d ++ spell d r

/-- the tokens an item denotes, at line `line` -/
def Item.tokens (d : Delims) (line : Nat) : Item → List Token
  | .text s => [{ ty := .text, line := line, source := s }]
  | .obj args hl hr wl wr =>
    (if hl then [{ ty := .trimL }] else []) ++
    [{ ty := .obj, line := line, args := args, source := (Item.obj args hl hr wl wr).spell d }] ++
    (if hr then [{ ty := .trimR }] else [])
  | .tag name args hl hr wl wm wr =>
    (if hl then [{ ty := .trimL }] else []) ++
    [{ ty := .tag, line := line, name := name, args := args, source := (Item.tag name args hl hr wl wm wr).spell d }] ++
    (if hr then [{ ty := .trimR }] else [])

/-- the token list of a template: every item's tokens, the line advancing by the newlines of its spelling -/
def tokensOf (d : Delims) : List Item → Nat → List Token
  | [], _ => []
  | it :: r, line => it.tokens d line ++ tokensOf d r (line + countNL (it.spell d))

/-! ## Delimiters -/

/-- a byte a delimiter may be made of: ASCII, not white space, not a word character, not a hyphen -/
def delimByte (b : UInt8) : Bool := !Pred.test .space b && !Pred.test .word b && b != 45 && b < 128

/-- four non-empty strings of ASCII punctuation other than `-` and `_`; neither opening delimiter is a
    prefix of the other -/
def GoodDelims (d : Delims) : Prop :=
  d.ol ≠ [] ∧ d.or ≠ [] ∧ d.tl ≠ [] ∧ d.tr ≠ [] ∧
  (∀ b ∈ d.ol, delimByte b = true) ∧ (∀ b ∈ d.or, delimByte b = true) ∧
  (∀ b ∈ d.tl, delimByte b = true) ∧ (∀ b ∈ d.tr, delimByte b = true) ∧
  ¬ d.ol <+: d.tl ∧ ¬ d.tl <+: d.ol

instance (d : Delims) : Decidable (GoodDelims d) := by unfold GoodDelims; infer_instance

/-! ## Cleanliness -/

instance (pr : Pred) (ws : Bytes) : Decidable (AllP pr ws) := by unfold AllP; infer_instance

/-- the last byte, if any, is neither white space nor a hyphen -/
def lastOk (a : Bytes) : Prop :=
  match a.getLast? with
  | some z => Pred.test .space z = false ∧ z ≠ 45
  | none => True

instance (a : Bytes) : Decidable (lastOk a) := by unfold lastOk; split <;> infer_instance

/-- the closing delimiter `l` does not occur in `mid ++ l` before its end -/
def firstAt (l mid : Bytes) : Prop := ∀ i, i < mid.length → ¬ l <+: (mid ++ l).drop i

instance (l mid : Bytes) : Decidable (firstAt l mid) := by unfold firstAt; infer_instance

/-- `a` does not end in a non-empty prefix of `tr` -/
def noPrefixSuffix (tr a : Bytes) : Prop := ∀ n, n < tr.length → ¬ tr.take (n + 1) <:+ a

instance (tr a : Bytes) : Decidable (noPrefixSuffix tr a) := by unfold noPrefixSuffix; infer_instance

/-- what one item must satisfy on its own -/
def CleanItem (d : Delims) : Item → Prop
  | .text s => s ≠ []
  | .obj args hl _ wl wr =>
    AllP .space wl ∧ AllP .space wr ∧ args ≠ [] ∧ HeadNot .space args ∧
    ((hl = false ∧ wl = []) → HeadNot (.eq 45) args) ∧ lastOk args
  | .tag name args _ hr wl wm wr =>
    AllP .space wl ∧ AllP .space wm ∧ AllP .space wr ∧ name ≠ [] ∧ AllP .word name ∧
    (args = [] → wr.length ≤ 1 ∧ (wr ≠ [] → hr = false)) ∧
    (args ≠ [] → wm ≠ [] ∧ HeadNot .space args ∧ lastOk args ∧ noPrefixSuffix d.tr args)

/-- the closing delimiter of an object or tag is the first one after its opening -/
def CleanClose (d : Delims) : Item → Prop
  | .text _ => True
  | .obj args _ hr _ wr => firstAt d.or (args ++ (wr ++ hyB hr))
  | .tag _ args _ hr _ _ wr => args ≠ [] → firstAt d.tr (args ++ (wr ++ hyB hr))

/-- a text is followed by an object or tag (or nothing), and no opening delimiter begins inside it —
    not even one completed by the bytes that follow -/
def CleanText (d : Delims) (s : Bytes) (r : List Item) : Prop :=
  (∀ i, i < s.length → ¬ d.ol <+: (s ++ spell d r).drop i ∧ ¬ d.tl <+: (s ++ spell d r).drop i) ∧
  (match r with | it :: _ => it.isText = false | [] => True)

/-! ### raw and comment blocks are lexical

After a tag named `raw` or `comment` the tokenizer looks for the block's end tag
(`TL -? \s* endraw \s* -? TR`); the bytes before it are one text token, whatever they look like. -/

def Item.tagName : Item → Option Bytes
  | .tag name _ _ _ _ _ _ => some name
  | _ => none

/-- the end tag the tokenizer looks for after this item (`none`: it does not look for one) -/
def lexEndOf (name : Option Bytes) : Option Bytes :=
  match name with
  | some n => if n == nameRaw || n == nameComment then some (nameEnd ++ n) else none
  | none => none

def Item.lexEnd (it : Item) : Option Bytes := lexEndOf it.tagName

/-- `s` begins with an end tag named `n`: `TL -? \s* n \s* -? TR` -/
def EndTagAt (d : Delims) (n s : Bytes) : Prop :=
  ∃ (b1 b2 : Bool) (ws1 ws2 t : Bytes),
    s = d.tl ++ (hyB b1 ++ (ws1 ++ (n ++ (ws2 ++ (hyB b2 ++ (d.tr ++ t)))))) ∧ AllP .space ws1 ∧ AllP .space ws2

/-- the same, decided by running the end-tag expression -/
def endTagAtB (d : Delims) (n s : Bytes) : Bool := ((endTagRe d n).matchAt s.length s 0).isSome

/-- no end tag `n` begins anywhere in `s` -/
def NoEnd (d : Delims) (n s : Bytes) : Prop := ∀ i, i < s.length → endTagAtB d n (s.drop i) = false

/-- the first end tag `n` in `s` begins at offset `a` -/
def FirstEnd (d : Delims) (n s : Bytes) (a : Nat) : Prop :=
  (∀ i, i < a → endTagAtB d n (s.drop i) = false) ∧ endTagAtB d n (s.drop a) = true

instance (d : Delims) (n s : Bytes) : Decidable (NoEnd d n s) := by unfold NoEnd; infer_instance
instance (d : Delims) (n s : Bytes) (a : Nat) : Decidable (FirstEnd d n s a) := by unfold FirstEnd; infer_instance

/-- what the position of an item requires: after a raw/comment tag (`lex = some n`) a text is the block's
    body — ANY bytes in which no end tag begins, followed by the end tag — or there is no end tag ahead at
    all and the text is an ordinary one; an object or tag stands where the end tag begins, or there is no
    end tag ahead. Elsewhere (`lex = none`) a text is an ordinary text. -/
def CleanCtx (d : Delims) (lex : Option Bytes) (it : Item) (r : List Item) : Prop :=
  match lex, it with
  | none, .text s => CleanText d s r
  | none, _ => True
  | some n, .text s => FirstEnd d n (s ++ spell d r) s.length ∨ (NoEnd d n (s ++ spell d r) ∧ CleanText d s r)
  | some n, it => endTagAtB d n (spell d (it :: r)) = true ∨ NoEnd d n (spell d (it :: r))

def CleanFrom (d : Delims) : Option Bytes → List Item → Prop
  | _, [] => True
  | lex, it :: r => CleanItem d it ∧ CleanClose d it ∧ CleanCtx d lex it r ∧ CleanFrom d it.lexEnd r

/-- the cleanliness predicate of a template -/
@[reducible] def Clean (d : Delims) (items : List Item) : Prop := CleanFrom d none items

instance headNotDec (pr : Pred) (t : Bytes) : Decidable (HeadNot pr t) :=
  match t with
  | [] => isTrue (headNot_nil pr)
  | x :: xs => if h : pr.test x = false then isTrue (headNot_cons h) else isFalse (fun hn => h (hn x xs rfl))

instance (d : Delims) (it : Item) : Decidable (CleanItem d it) := by cases it <;> (unfold CleanItem; infer_instance)
instance (d : Delims) (it : Item) : Decidable (CleanClose d it) := by cases it <;> (unfold CleanClose; infer_instance)
instance (d : Delims) (s : Bytes) (r : List Item) : Decidable (CleanText d s r) := by
  unfold CleanText
  cases r <;> infer_instance
instance (d : Delims) (lex : Option Bytes) (it : Item) (r : List Item) : Decidable (CleanCtx d lex it r) := by
  unfold CleanCtx
  cases lex <;> cases it <;> infer_instance

def CleanFrom.dec (d : Delims) : (lex : Option Bytes) → (items : List Item) → Decidable (CleanFrom d lex items)
  | _, [] => isTrue trivial
  | lex, it :: r =>
    have := CleanFrom.dec d it.lexEnd r
    by unfold CleanFrom; infer_instance

instance (d : Delims) (lex : Option Bytes) (items : List Item) : Decidable (CleanFrom d lex items) := CleanFrom.dec d lex items

theorem Clean_cons (d : Delims) (it : Item) (r : List Item) :
    Clean d (it :: r) ↔ CleanItem d it ∧ CleanClose d it ∧ CleanCtx d none it r ∧ CleanFrom d it.lexEnd r := Iff.rfl

/-- after an item that is not a raw/comment tag the rest is clean on its own -/
theorem Clean_tail {d : Delims} {it : Item} {r : List Item} (h : Clean d (it :: r)) (hl : it.lexEnd = none) : Clean d r := by
  have := h.2.2.2
  rw [hl] at this
  exact this

/-! Sanity: `a{{- x | f }}{% if x -%}\n{% endif %}` with the defaults and with `<< >> [ ]` -/
def exItems : List Item :=
  [.text [97], .obj [120, 32, 124, 32, 102] true false [32] [32], .tag [105, 102] [120] false true [32] [32] [32],
   .text [10], .tag [101, 110, 100, 105, 102] [] false false [32] [] [32]]
def exDelims : Delims := ⟨[60, 60], [62, 62], [91], [93]⟩

example : GoodDelims Delims.default ∧ GoodDelims exDelims := by decide
example : Clean Delims.default exItems ∧ Clean exDelims exItems := by decide
example : scanWith (tokenRe exDelims) exDelims (spell exDelims exItems) 1 = tokensOf exDelims exItems 1 := by decide

/-! `p{% raw-%}{% b {{ x {%- endraw %}q`: the body `{% b {{ x ` is a text item of arbitrary bytes -/
def exRawBody : List Item :=
  [.text [112], .tag nameRaw [] false true [32] [] [], .text [123, 37, 32, 98, 32, 123, 123, 32, 120, 32],
   .tag (nameEnd ++ nameRaw) [] true false [32] [] [32], .text [113]]
example : Clean Delims.default exRawBody ∧ Clean exDelims exRawBody := by decide
example : scanWith (tokenRe Delims.default) Delims.default (spell Delims.default exRawBody) 1 = tokensOf Delims.default exRawBody 1 := by decide
