import Proofs.E2EUnits
import Proofs.C05
/-!
# Abstract token-level templates: items, their spelling with a delimiter set, the tokens they
denote, and the cleanliness conditions under which the tokenizer reads the spelling back

(the Lean counterpart of `harness/tokitems.go`; used by `Proofs/C19E2E.lean`)
-/

/-- an item of a template: literal text, an object `OL -? ws args ws -? OR`, or a tag
    `TL -? ws name (ws args)? ws -? TR`; the white space inside the delimiters is recorded so that the
    same item can be spelled with any delimiters -/
inductive Item where
  | text (s : Bytes)
  | obj (args : Bytes) (hl hr : Bool) (wl wr : Bytes)
  | tag (name args : Bytes) (hl hr : Bool) (wl wm wr : Bytes)
  deriving Repr, DecidableEq

def Item.isText : Item → Bool
  | .text _ => true
  | _ => false

/-- a tag's arguments with the white space that separates them from the name (nothing when there are none) -/
def tagArgPart (args wm : Bytes) : Bytes := if args = [] then [] else wm ++ args

def Item.spell (d : Delims) : Item → Bytes
  | .text s => s
  | .obj args hl hr wl wr => d.ol ++ (hyB hl ++ (wl ++ (args ++ (wr ++ (hyB hr ++ d.or)))))
  | .tag name args hl hr wl wm wr =>
    d.tl ++ (hyB hl ++ (wl ++ (name ++ (tagArgPart args wm ++ (wr ++ (hyB hr ++ d.tr))))))

def spell (d : Delims) : List Item → Bytes
  | [] => []
  | it :: r => it.spell d ++ spell d r

/-- the tokens an item denotes, at line `line` -/
def Item.tokens (d : Delims) (line : Nat) : Item → List Token
  | .text s => [{ ty := .text, line := line, source := s }]
  | .obj args hl hr wl wr =>
    (if hl then [{ ty := .trimL }] else []) ++
    [{ ty := .obj, line := line, args := args, source := (Item.obj args hl hr wl wr).spell d }] ++
    (if hr then [{ ty := .trimR }] else [])
  | .tag name args hl hr wl wm wr =>
    (if hl then [{ ty := .trimL }] else []) ++
    [{ ty := .tag, line := line, name := name, args := args, source := (Item.tag name args hl hr wl wm wr).spell d }] ++
    (if hr then [{ ty := .trimR }] else [])

/-- the token list of a template: every item's tokens, the line advancing by the newlines of its spelling -/
def tokensOf (d : Delims) : List Item → Nat → List Token
  | [], _ => []
  | it :: r, line => it.tokens d line ++ tokensOf d r (line + countNL (it.spell d))

/-! ## Delimiters -/

/-- a byte a delimiter may be made of: ASCII, not white space, not a word character, not a hyphen -/
def delimByte (b : UInt8) : Bool := !Pred.test .space b && !Pred.test .word b && b != 45 && b < 128

/-- four non-empty strings of ASCII punctuation other than `-` and `_`; neither opening delimiter is a
    prefix of the other -/
def GoodDelims (d : Delims) : Prop :=
  d.ol ≠ [] ∧ d.or ≠ [] ∧ d.tl ≠ [] ∧ d.tr ≠ [] ∧
  (∀ b ∈ d.ol, delimByte b = true) ∧ (∀ b ∈ d.or, delimByte b = true) ∧
  (∀ b ∈ d.tl, delimByte b = true) ∧ (∀ b ∈ d.tr, delimByte b = true) ∧
  ¬ d.ol <+: d.tl ∧ ¬ d.tl <+: d.ol

instance (d : Delims) : Decidable (GoodDelims d) := by unfold GoodDelims; infer_instance

/-! ## Cleanliness -/

instance (pr : Pred) (ws : Bytes) : Decidable (AllP pr ws) := by unfold AllP; infer_instance

/-- the last byte, if any, is neither white space nor a hyphen -/
def lastOk (a : Bytes) : Prop :=
  match a.getLast? with
  | some z => Pred.test .space z = false ∧ z ≠ 45
  | none => True

instance (a : Bytes) : Decidable (lastOk a) := by unfold lastOk; split <;> infer_instance

/-- the closing delimiter `l` does not occur in `mid ++ l` before its end -/
def firstAt (l mid : Bytes) : Prop := ∀ i, i < mid.length → ¬ l <+: (mid ++ l).drop i

instance (l mid : Bytes) : Decidable (firstAt l mid) := by unfold firstAt; infer_instance

/-- `a` does not end in a non-empty prefix of `tr` -/
def noPrefixSuffix (tr a : Bytes) : Prop := ∀ n, n < tr.length → ¬ tr.take (n + 1) <:+ a

instance (tr a : Bytes) : Decidable (noPrefixSuffix tr a) := by unfold noPrefixSuffix; infer_instance

/-- what one item must satisfy on its own -/
def CleanItem (d : Delims) : Item → Prop
  | .text s => s ≠ []
  | .obj args hl _ wl wr =>
    AllP .space wl ∧ AllP .space wr ∧ args ≠ [] ∧ HeadNot .space args ∧
    ((hl = false ∧ wl = []) → HeadNot (.eq 45) args) ∧ lastOk args
  | .tag name args _ hr wl wm wr =>
    AllP .space wl ∧ AllP .space wm ∧ AllP .space wr ∧ name ≠ [] ∧ AllP .word name ∧
    (args = [] → wr.length ≤ 1 ∧ (wr ≠ [] → hr = false)) ∧
    (args ≠ [] → wm ≠ [] ∧ HeadNot .space args ∧ lastOk args ∧ noPrefixSuffix d.tr args)

/-- the closing delimiter of an object or tag is the first one after its opening -/
def CleanClose (d : Delims) : Item → Prop
  | .text _ => True
  | .obj args _ hr _ wr => firstAt d.or (args ++ (wr ++ hyB hr))
  | .tag _ args _ hr _ _ wr => args ≠ [] → firstAt d.tr (args ++ (wr ++ hyB hr))

/-- a text is followed by an object or tag (or nothing), and no opening delimiter begins inside it —
    not even one completed by the bytes that follow -/
def CleanText (d : Delims) (s : Bytes) (r : List Item) : Prop :=
  (∀ i, i < s.length → ¬ d.ol <+: (s ++ spell d r).drop i ∧ ¬ d.tl <+: (s ++ spell d r).drop i) ∧
  (match r with | it :: _ => it.isText = false | [] => True)

def Clean (d : Delims) : List Item → Prop
  | [] => True
  | it :: r => CleanItem d it ∧ CleanClose d it ∧ (match it with | .text s => CleanText d s r | _ => True) ∧ Clean d r

instance headNotDec (pr : Pred) (t : Bytes) : Decidable (HeadNot pr t) :=
  match t with
  | [] => isTrue (headNot_nil pr)
  | x :: xs => if h : pr.test x = false then isTrue (headNot_cons h) else isFalse (fun hn => h (hn x xs rfl))

instance (d : Delims) (it : Item) : Decidable (CleanItem d it) := by cases it <;> (unfold CleanItem; infer_instance)
instance (d : Delims) (it : Item) : Decidable (CleanClose d it) := by cases it <;> (unfold CleanClose; infer_instance)
instance (d : Delims) (s : Bytes) (r : List Item) : Decidable (CleanText d s r) := by
  unfold CleanText
  cases r <;> infer_instance

def Clean.dec (d : Delims) : (items : List Item) → Decidable (Clean d items)
  | [] => isTrue trivial
  | it :: r =>
    have := Clean.dec d r
    match it with
    | .text s => by unfold Clean; infer_instance
    | .obj .. => by unfold Clean; infer_instance
    | .tag .. => by unfold Clean; infer_instance

instance (d : Delims) (items : List Item) : Decidable (Clean d items) := Clean.dec d items

/-! Sanity: `a{{- x | f }}{% if x -%}\n{% endif %}` with the defaults and with `<< >> [ ]` -/
def exItems : List Item :=
  [.text [97], .obj [120, 32, 124, 32, 102] true false [32] [32], .tag [105, 102] [120] false true [32] [32] [32],
   .text [10], .tag [101, 110, 100, 105, 102] [] false false [32] [] [32]]
def exDelims : Delims := ⟨[60, 60], [62, 62], [91], [93]⟩

example : GoodDelims Delims.default ∧ GoodDelims exDelims := by decide
example : Clean Delims.default exItems ∧ Clean exDelims exItems := by decide
example : scanWith (tokenRe exDelims) exDelims (spell exDelims exItems) 1 = tokensOf exDelims exItems 1 := by decide
