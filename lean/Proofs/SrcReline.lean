import Proofs.SrcItems
/-!
# Moving a template piece to other lines

Tokens, syntax trees and compiled nodes carry the line numbers of the source. `relTok g` moves a token to
line `g line`; the block parser and the compiler commute with it (`Derives.rel`, `compileList_rel`): a piece
placed elsewhere compiles to the same tree with its lines moved. In particular whether a piece compiles
does not depend on where it stands (`compiles_any_line`).
-/

/-- a located token moved to line `g line` -/
def relTok (g : Nat → Nat) (t : Token) : Token := { t with line := g t.line }

/-- the same on the members of a token list: trim markers (which carry no line) stay as they are -/
def relTokC (g : Nat → Nat) (t : Token) : Token := if t.isTrim then t else relTok g t

theorem relTokC_of_not_trim {g : Nat → Nat} {t : Token} (h : t.isTrim = false) : relTokC g t = relTok g t := by
  simp [relTokC, h]

theorem relTokC_ty (g : Nat → Nat) (t : Token) : (relTokC g t).ty = t.ty := by unfold relTokC; split <;> rfl
theorem relTokC_name (g : Nat → Nat) (t : Token) : (relTokC g t).name = t.name := by unfold relTokC; split <;> rfl
theorem relTokC_args (g : Nat → Nat) (t : Token) : (relTokC g t).args = t.args := by unfold relTokC; split <;> rfl
theorem relTokC_source (g : Nat → Nat) (t : Token) : (relTokC g t).source = t.source := by unfold relTokC; split <;> rfl

mutual
def AST.rel (g : Nat → Nat) : AST → AST
  | .text t => .text (relTok g t)
  | .obj t => .obj (relTok g t)
  | .tag t => .tag (relTok g t)
  | .trim l => .trim l
  | .raw sl => .raw sl
  | .block t body cls => .block (relTok g t) (relList g body) (relClauses g cls)
def relList (g : Nat → Nat) : List AST → List AST
  | [] => []
  | n :: ns => n.rel g :: relList g ns
def relClauses (g : Nat → Nat) : List (Token × List AST) → List (Token × List AST)
  | [] => []
  | (t, body) :: cs => (relTok g t, relList g body) :: relClauses g cs
end

theorem relList_append (g : Nat → Nat) : ∀ (a b : List AST), relList g (a ++ b) = relList g a ++ relList g b
  | [], _ => rfl
  | n :: ns, b => by simp [relList, relList_append g ns b]

/-! ## The block parser -/

theorem isTrim_false_of_ty {t : Token} (h : t.ty = .text ∨ t.ty = .obj ∨ t.ty = .tag) : t.isTrim = false := by
  rcases h with h | h | h <;> simp [Token.isTrim, h]

def relSeg (g : Nat → Nat) (sg : Seg) : Seg := (relTok g sg.1, sg.2.1.map (relTokC g), relList g sg.2.2)

theorem segToks_rel (g : Nat → Nat) {o : Token} : ∀ (segs : List Seg), (∀ sg ∈ segs, stdGrammar.isClauseOf o sg.1 = true) →
    (segToks segs).map (relTokC g) = segToks (segs.map (relSeg g))
  | [], _ => rfl
  | (c, ts, ns) :: r, h => by
    have hc := h (c, ts, ns) (List.mem_cons_self ..)
    simp only [Grammar.isClauseOf, Bool.and_eq_true, beq_iff_eq] at hc
    have hct : c.isTrim = false := isTrim_false_of_ty (.inr (.inr hc.1.1.1))
    simp only [segToks, List.map_cons, List.map_append, relSeg, relTokC_of_not_trim hct,
      segToks_rel g r (fun sg hs => h sg (List.mem_cons_of_mem _ hs))]

theorem segASTs_rel (g : Nat → Nat) : ∀ (segs : List Seg), segASTs (segs.map (relSeg g)) = relClauses g (segASTs segs)
  | [] => rfl
  | (c, ts, ns) :: r => by simp [segASTs, relClauses, relSeg, segASTs_rel g r]

/-- **the block parser commutes with moving lines**: the moved token list derives the moved tree -/
theorem Derives.rel (g : Nat → Nat) {toks : List Token} {ast : List AST} (h : Derives stdGrammar objChk toks ast) :
    Derives stdGrammar objChk (toks.map (relTokC g)) (relList g ast) := by
  induction h with
  | nil => exact .nil
  | text t rest ns ht _ ih =>
    simp only [List.map_cons, relList, AST.rel, relTokC_of_not_trim (isTrim_false_of_ty (.inl ht))]
    exact .text _ _ _ ht ih
  | obj t rest ns ht hc _ ih =>
    simp only [List.map_cons, relList, AST.rel, relTokC_of_not_trim (isTrim_false_of_ty (.inr (.inl ht)))]
    exact .obj _ _ _ ht hc ih
  | trimL t rest ns ht _ ih =>
    simp only [List.map_cons, relList, AST.rel]
    exact .trimL _ _ _ (by rw [relTokC_ty]; exact ht) ih
  | trimR t rest ns ht _ ih =>
    simp only [List.map_cons, relList, AST.rel]
    exact .trimR _ _ _ (by rw [relTokC_ty]; exact ht) ih
  | tag t rest ns ht _ ih =>
    have hty : t.ty = .tag := by simp only [Grammar.isPlain, Bool.and_eq_true, beq_iff_eq] at ht; exact ht.1
    simp only [List.map_cons, relList, AST.rel, relTokC_of_not_trim (isTrim_false_of_ty (.inr (.inr hty)))]
    exact .tag _ _ _ ht ih
  | comment o c interior rest ns ho hi hc _ ih =>
    simp only [List.map_cons, List.map_append]
    refine .comment _ _ _ _ _ ?_ ?_ ?_ ih
    · simpa [Grammar.isCommentOpen, relTokC_ty, relTokC_name] using ho
    · intro t ht
      obtain ⟨t0, ht0, rfl⟩ := List.mem_map.mp ht
      simpa [isEndComment, relTokC_ty, relTokC_name] using hi t0 ht0
    · simpa [isEndComment, relTokC_ty, relTokC_name] using hc
  | raw o c interior rest ns ho hi hc _ ih =>
    simp only [List.map_cons, List.map_append, relList, AST.rel]
    have hsrc : interior.map (·.source) = (interior.map (relTokC g)).map (·.source) := by
      simp [List.map_map, Function.comp_def, relTokC_source]
    rw [hsrc]
    refine .raw _ _ _ _ _ ?_ ?_ ?_ ih
    · simpa [Grammar.isRawOpen, relTokC_ty, relTokC_name] using ho
    · intro t ht
      obtain ⟨t0, ht0, rfl⟩ := List.mem_map.mp ht
      simpa [isEndRaw, relTokC_ty, relTokC_name] using hi t0 ht0
    · simpa [isEndRaw, relTokC_ty, relTokC_name] using hc
  | block o e body bns segs rest ns ho _ hcl _ he _ ihb ihs ihr =>
    have hoty : o.ty = .tag := by simp only [Grammar.isOpen, Bool.and_eq_true, beq_iff_eq] at ho; exact ho.1.1.1
    simp only [List.map_cons, List.map_append, relList, AST.rel, relTokC_of_not_trim (isTrim_false_of_ty (.inr (.inr hoty))),
      segToks_rel g segs hcl, ← segASTs_rel]
    refine .block _ _ _ _ _ _ _ ho ihb ?_ ?_ ?_ ihr
    · intro sg hsg
      obtain ⟨sg0, hsg0, rfl⟩ := List.mem_map.mp hsg
      exact hcl sg0 hsg0
    · intro sg hsg
      obtain ⟨sg0, hsg0, rfl⟩ := List.mem_map.mp hsg
      exact ihs sg0 hsg0
    · simpa [isEndOf, relTokC_ty, relTokC_name, relTok] using he

theorem firstUnmodelledObj_rel (g : Nat → Nat) : ∀ toks : List Token,
    firstUnmodelledObj (toks.map (relTokC g)) = firstUnmodelledObj toks
  | [] => rfl
  | t :: ts => by
    simp only [List.map_cons, firstUnmodelledObj, relTokC_ty, relTokC_args, firstUnmodelledObj_rel g ts]

/-! ## Compiled nodes -/

def CondT.rel (g : Nat → Nat) : CondT → CondT
  | .expr l e => .expr (g l) e
  | .notExpr l e => .notExpr (g l) e
  | .always => .always

mutual
def Node.rel (g : Nat → Nat) : Node → Node
  | .text line src => .text (g line) src
  | .obj line e => .obj (g line) e
  | .raw sl => .raw sl
  | .trim l => .trim l
  | .assign line x e => .assign (g line) x e
  | .capture line x body => .capture (g line) x (relNodes g body)
  | .ifB line bs => .ifB (g line) (relBranches g bs)
  | .caseB line subj cs => .caseB (g line) subj (relCases g cs)
  | .loop line tr var e mods body clauses => .loop (g line) tr var e mods (relNodes g body) (relNClauses g clauses)
  | .cycle line gr v0 rest => .cycle (g line) gr v0 rest
  | .brk line => .brk (g line)
  | .cont line => .cont (g line)
  | .incl line args => .incl (g line) args
def relNodes (g : Nat → Nat) : List Node → List Node
  | [] => []
  | n :: ns => n.rel g :: relNodes g ns
def relBranches (g : Nat → Nat) : List (CondT × List Node) → List (CondT × List Node)
  | [] => []
  | (t, body) :: rest => (t.rel g, relNodes g body) :: relBranches g rest
def relCases (g : Nat → Nat) : List (Option (Nat × List Expr) × List Node) → List (Option (Nat × List Expr) × List Node)
  | [] => []
  | (none, body) :: rest => (none, relNodes g body) :: relCases g rest
  | (some (l, es), body) :: rest => (some (g l, es), relNodes g body) :: relCases g rest
def relNClauses (g : Nat → Nat) : List (List Node) → List (List Node)
  | [] => []
  | c :: cs => relNodes g c :: relNClauses g cs
end

theorem relNodes_append (g : Nat → Nat) : ∀ (a b : List Node), relNodes g (a ++ b) = relNodes g a ++ relNodes g b
  | [], _ => rfl
  | n :: ns, b => by simp [relNodes, relNodes_append g ns b]

def relErr (g : Nat → Nat) (e : SErr) : SErr := { e with line := g e.line }

/-- a compile-time result with its lines moved -/
def CRes.rel {α} (g : Nat → Nat) (f : α → α) : CRes α → CRes α
  | .ok a => .ok (f a)
  | .err e => .err (relErr g e)
  | .panic w => .panic w
  | .unmodelled w => .unmodelled w

def relCl (g : Nat → Nat) (cs : List (Token × List Node)) : List (Token × List Node) :=
  cs.map (fun p => (relTok g p.1, relNodes g p.2))

theorem liftParse_rel {α} (g : Nat → Nat) (line : Nat) (keep : Bool) (r : Res ParseErr α) :
    liftParse (g line) keep r = CRes.rel g id (liftParse line keep r) := by
  cases r with
  | ok a => rfl
  | err e => cases keep <;> rfl
  | panic w => rfl
  | unmodelled w => rfl

theorem ifTests_rel (g : Nat → Nat) : ∀ cs, compileIfClauseTests (relCl g cs) = CRes.rel g (relBranches g) (compileIfClauseTests cs)
  | [] => rfl
  | (t, body) :: cs => by
    have ih := ifTests_rel g cs
    show compileIfClauseTests ((relTok g t, relNodes g body) :: relCl g cs) = _
    simp only [compileIfClauseTests, ih]
    have e1 : (relTok g t).name = t.name := rfl
    have e2 : (relTok g t).args = t.args := rfl
    have e3 : (relTok g t).line = g t.line := rfl
    simp only [e1, e2, e3]
    by_cases hn : t.name == nmElsif
    · simp only [hn, if_true, bind, Res.bind, liftParse_rel g t.line true]
      cases liftParse t.line true (parseExprSource t.args) with
      | ok e =>
        simp only [CRes.rel, id, pure]
        cases compileIfClauseTests cs <;> rfl
      | err e => rfl
      | panic w => rfl
      | unmodelled w => rfl
    · simp only [hn, bind, Res.bind, pure]
      cases compileIfClauseTests cs <;> rfl

theorem caseClauses_rel (g : Nat → Nat) : ∀ cs, compileCaseClauses (relCl g cs) = CRes.rel g (relCases g) (compileCaseClauses cs)
  | [] => rfl
  | (t, body) :: cs => by
    have ih := caseClauses_rel g cs
    show compileCaseClauses ((relTok g t, relNodes g body) :: relCl g cs) = _
    simp only [compileCaseClauses, ih]
    have e1 : (relTok g t).name = t.name := rfl
    have e2 : (relTok g t).args = t.args := rfl
    have e3 : (relTok g t).line = g t.line := rfl
    simp only [e1, e2, e3]
    by_cases hn : t.name == nmWhen
    · simp only [hn, if_true, bind, Res.bind, liftParse_rel g t.line true]
      cases liftParse t.line true (parseStatement kwWhen t.args) with
      | ok st =>
        simp only [CRes.rel, id]
        cases st with
        | when es =>
          simp only [pure]
          cases compileCaseClauses cs <;> rfl
        | expr e => rfl
        | assign x e => rfl
        | cycle a b c => rfl
        | loop a b c => rfl
      | err e => rfl
      | panic w => rfl
      | unmodelled w => rfl
    · simp only [hn, bind, Res.bind, pure]
      cases compileCaseClauses cs <;> rfl

theorem relCl_snd (g : Nat → Nat) : ∀ cs : List (Token × List Node), (relCl g cs).map (·.2) = relNClauses g (cs.map (·.2))
  | [] => rfl
  | (t, body) :: cs => by
    have := relCl_snd g cs
    simp only [relCl] at this
    simp [relCl, relNClauses, this]

mutual
/-- **the compiler commutes with moving lines** -/
theorem compileNode_rel (g : Nat → Nat) : ∀ a : AST, compileNode (a.rel g) = CRes.rel g (relNodes g) (compileNode a)
  | .text t => rfl
  | .obj t => by
    simp only [AST.rel, compileNode, relTok]
    cases parseExprSource t.args <;> rfl
  | .trim l => rfl
  | .raw sl => rfl
  | .tag t => by
    simp only [AST.rel, compileNode, relTok]
    by_cases h1 : t.name == nmAssign
    · simp only [h1, if_true, bind, Res.bind, liftParse_rel g t.line false]
      cases liftParse t.line false (parseStatement kwAssign t.args) with
      | ok st => cases st <;> rfl
      | err e => rfl
      | panic w => rfl
      | unmodelled w => rfl
    · simp only [h1]
      by_cases h2 : t.name == nmInclude
      · simp only [h2, if_true]; rfl
      · simp only [h2]
        by_cases h3 : t.name == nmBreak
        · simp only [h3, if_true]; rfl
        · simp only [h3]
          by_cases h4 : t.name == nmContinue
          · simp only [h4, if_true]; rfl
          · simp only [h4]
            by_cases h5 : t.name == nmCycle
            · simp only [h5, if_true, bind, Res.bind, liftParse_rel g t.line false]
              cases liftParse t.line false (parseStatement kwCycle t.args) with
              | ok st => cases st <;> rfl
              | err e => rfl
              | panic w => rfl
              | unmodelled w => rfl
            · simp only [h5]; rfl
  | .block t body cls => by
    rw [AST.rel, compileNode, compileNode, compileList_rel g body, compileClauses_rel g cls]
    cases compileList body with
    | ok b =>
      cases compileClauses cls with
      | ok cs =>
        simp only [CRes.rel, bind, Res.bind, relTok]
        by_cases h1 : (t.name == nmIf || t.name == nmUnless)
        · simp only [h1, if_true, liftParse_rel g t.line true, ifTests_rel]
          cases liftParse t.line true (parseExprSource t.args) with
          | ok e =>
            simp only [CRes.rel, id]
            cases compileIfClauseTests cs with
            | ok rest =>
              by_cases hh : t.name == nmIf
              · simp [hh, pure, relNodes, Node.rel, relBranches, CondT.rel]
              · simp [hh, pure, relNodes, Node.rel, relBranches, CondT.rel]
            | err e => rfl
            | panic w => rfl
            | unmodelled w => rfl
          | err e => rfl
          | panic w => rfl
          | unmodelled w => rfl
        · simp only [h1, Bool.false_eq_true, if_false]
          by_cases h2 : t.name == nmCase
          · simp only [h2, if_true, liftParse_rel g t.line true, caseClauses_rel]
            cases liftParse t.line true (parseExprSource t.args) with
            | ok e =>
              simp only [CRes.rel, id]
              cases compileCaseClauses cs <;> rfl
            | err e => rfl
            | panic w => rfl
            | unmodelled w => rfl
          · simp only [h2, Bool.false_eq_true, if_false]
            by_cases h3 : (t.name == nmFor || t.name == nmTablerow)
            · simp only [h3, if_true, liftParse_rel g t.line true]
              cases liftParse t.line true (parseStatement kwLoop t.args) with
              | ok st =>
                cases st with
                | loop x e m => simp [CRes.rel, pure, relNodes, Node.rel, relCl_snd]
                | expr e => rfl
                | assign x e => rfl
                | cycle a b c => rfl
                | when es => rfl
              | err e => rfl
              | panic w => rfl
              | unmodelled w => rfl
            · simp only [h3, Bool.false_eq_true, if_false]
              by_cases h4 : t.name == nmCapture
              · simp only [h4, if_true]; rfl
              · simp only [h4, Bool.false_eq_true, if_false]
      | err e => rfl
      | panic w => rfl
      | unmodelled w => rfl
    | err e => rfl
    | panic w => rfl
    | unmodelled w => rfl
theorem compileList_rel (g : Nat → Nat) : ∀ as : List AST, compileList (relList g as) = CRes.rel g (relNodes g) (compileList as)
  | [] => rfl
  | a :: as => by
    rw [relList, compileList, compileList, compileNode_rel g a, compileList_rel g as]
    cases compileNode a with
    | ok x =>
      cases compileList as with
      | ok y => simp [CRes.rel, bind, Res.bind, pure, relNodes_append]
      | err e => rfl
      | panic w => rfl
      | unmodelled w => rfl
    | err e => rfl
    | panic w => rfl
    | unmodelled w => rfl
theorem compileClauses_rel (g : Nat → Nat) : ∀ cs : List (Token × List AST),
    compileClauses (relClauses g cs) = CRes.rel g (relCl g) (compileClauses cs)
  | [] => rfl
  | (t, body) :: cs => by
    rw [relClauses, compileClauses, compileClauses, compileList_rel g body, compileClauses_rel g cs]
    cases compileList body with
    | ok b =>
      cases compileClauses cs with
      | ok r => rfl
      | err e => rfl
      | panic w => rfl
      | unmodelled w => rfl
    | err e => rfl
    | panic w => rfl
    | unmodelled w => rfl
end

/-- a token list that compiles still compiles after its lines are moved, to the moved nodes -/
theorem compileTokens_rel (g : Nat → Nat) {toks : List Token} {ns : List Node} (h : compileTokens toks = .ok ns) :
    compileTokens (toks.map (relTokC g)) = .ok (relNodes g ns) := by
  obtain ⟨hU, ast, hd, hc⟩ := compileTokens_ok h
  rw [compileTokens_of_derives (by rw [firstUnmodelledObj_rel]; exact hU) (hd.rel g), compileList_rel, hc]
  rfl

/-! ## Spelled templates -/

theorem Item.tokens_rel (d : Delims) (g : Nat → Nat) (it : Item) (l : Nat) :
    (it.tokens d l).map (relTokC g) = it.tokens d (g l) := by
  cases it with
  | text s => rfl
  | obj args hl hr wl wr => cases hl <;> cases hr <;> rfl
  | tag name args hl hr wl wm wr => cases hl <;> cases hr <;> rfl

/-- the tokens of a template placed `δ` lines further down -/
theorem tokensOf_shift (d : Delims) (δ : Nat) : ∀ (items : List Item) (l : Nat),
    tokensOf d items (l + δ) = (tokensOf d items l).map (relTokC (· + δ))
  | [], _ => rfl
  | it :: r, l => by
    simp only [tokensOf, List.map_append, Item.tokens_rel]
    rw [← tokensOf_shift d δ r (l + countNL (it.spell d))]
    congr 2
    omega

/-- **whether a piece compiles does not depend on the line where it stands**; the nodes are those of the
    piece placed at line 0, moved down -/
theorem compiles_any_line (d : Delims) (items : List Item) (l : Nat) {ns : List Node}
    (h : compileTokens (tokensOf d items 0) = .ok ns) :
    compileTokens (tokensOf d items l) = .ok (relNodes (· + l) ns) := by
  have := tokensOf_shift d l items 0
  rw [Nat.zero_add] at this
  rw [this]
  exact compileTokens_rel _ h

theorem Compiles.any_line {d : Delims} {items : List Item} (h : Compiles d items 0) (l : Nat) : Compiles d items l := by
  obtain ⟨ns, hns⟩ := h.nodes
  unfold Compiles
  rw [compiles_any_line d items l hns]
  rfl
