import Proofs.C19E2E
import Proofs.ExprSpacing
/-!
# A template that is one object: from the source bytes to the compiled node
(helper lemma for `object_whitespace_end_to_end`, `Proofs/C08Source.lean`)
-/

/-- the tokens of a one-object template compile alike when the arguments parse alike -/
theorem compileTokens_single_obj (d : Delims) (args args' : Bytes) (hl hr : Bool) (wl wr wl' wr' : Bytes) (line : Nat)
    (h : parseExprSource args = parseExprSource args') :
    compileTokens (_root_.tokensOf d [.obj args hl hr wl wr] line) =
      compileTokens (_root_.tokensOf d [.obj args' hl hr wl' wr'] line) := by
  cases hp : parseExprSource args' <;> rw [hp] at h <;> cases hl <;> cases hr <;>
    simp [_root_.tokensOf, Item.tokens, compileTokens, firstUnmodelledObj, parseTokens, parseLoop, parseStep, objChk, h, hp,
      compileList, compileNode, liftPErr]
