import Proofs.MapPermFilters
import Proofs.JsonLemmas
import Proofs.DateFormatLemmas
import Proofs.ExprLitLemmas
/-!
# `type`, `json`, `inspect` and the order of map entries (helper lemmas for C02)
-/

open GoVal MapOrder JsonF

/-- `json.Marshal` sorts the members of an object by key text: permuted entries with distinct key texts give the
    same object (`jsonObject_perm` of `Proofs/JsonFilter.lean`, which imports `Proofs/C02.lean`, proved here again) -/
theorem jsonObject_permM (es es' : List (Bytes × Bytes)) (hperm : es.Perm es')
    (hdistinct : ∀ a b, a ∈ es → b ∈ es → a.1 = b.1 → a = b) : jsonObject es = jsonObject es' := by
  unfold jsonObject
  congr 1
  have trans : ∀ a b c : Bytes × Bytes, JsonF.entryLe a b = true → JsonF.entryLe b c = true → JsonF.entryLe a c = true := by
    intro a b c hab hbc
    simp only [JsonF.entryLe, decide_eq_true_eq] at *
    exact List.le_trans hab hbc
  have total : ∀ a b : Bytes × Bytes, (JsonF.entryLe a b || JsonF.entryLe b a) = true := by
    intro a b
    simp only [JsonF.entryLe, Bool.or_eq_true, decide_eq_true_eq]
    exact List.le_total a.1 b.1
  apply List.Perm.eq_of_pairwise (le := fun a b => JsonF.entryLe a b = true)
  · intro a b ha hb hab hba
    have ha' : a ∈ es := (List.mergeSort_perm es _).subset ha
    have hb' : b ∈ es := hperm.symm.subset ((List.mergeSort_perm es' _).subset hb)
    simp only [JsonF.entryLe, decide_eq_true_eq] at hab hba
    exact hdistinct a b ha' hb' (List.le_antisymm hab hba)
  · exact List.pairwise_mergeSort trans total es
  · exact List.pairwise_mergeSort trans total es'
  · exact ((List.mergeSort_perm es _).trans hperm).trans (List.mergeSort_perm es' _).symm

/-! ## `%T` looks at types and lengths only -/

theorem structFieldNames_names : ∀ (i : Nat) {fs fs' : List (Bytes × GoVal)}, fs.map (·.1) = fs'.map (·.1) →
    structFieldNames i fs = structFieldNames i fs'
  | _, [], [], _ => rfl
  | _, [], _ :: _, h => by simp at h
  | _, _ :: _, [], h => by simp at h
  | i, (n, v) :: r, (n', v') :: r', h => by
    simp only [List.map_cons, List.cons.injEq] at h
    obtain ⟨h1, h2⟩ := h
    subst h1
    simp only [structFieldNames, structFieldNames_names (i + 1) h2]

theorem structTypeName_names {fs fs' : List (Bytes × GoVal)} (h : fs.map (·.1) = fs'.map (·.1)) :
    structTypeName fs = structTypeName fs' := by
  cases fs <;> cases fs' <;> simp at h
  · rfl
  · next a r b r' =>
    simp only [structTypeName]
    rw [structFieldNames_names 0 (show (a :: r).map (·.1) = (b :: r').map (·.1) by simp [h])]

theorem typeName_mp : ∀ {a b : GoVal}, MP a b → typeName a = typeName b
  | _, _, .refl _ => rfl
  | _, _, .slice _ _ => rfl
  | _, _, .array t hl => by simp only [typeName, hl.length_eq]
  | _, _, .map kt vt _ _ _ _ _ _ => by cases kt <;> cases vt <;> rfl
  | _, _, .mapVals kt vt _ _ _ => by cases kt <;> cases vt <;> rfl
  | _, _, .mapSlice _ => rfl
  | _, _, .keyedMap _ _ => rfl
  | _, _, .struct hf => by simp only [typeName, structTypeName_names hf.names_eq]
  | _, _, .drop _ => rfl
  | _, _, @MP.ptr v w h => by
    have ih := typeName_mp h
    cases h <;> first | rfl | (simp only [typeName] at ih ⊢; rw [ih]) | (simp only [typeName]; rw [ih])

theorem typeF_respectsM : ImplRespectsM [.val .any] typeF := by
  intro cs cs' h
  obtain ⟨v, v', rfl, rfl, hv⟩ := Num.argsRelM_any1 h
  simp only [typeF, typeName_mp hv]
  exact exrelM_refl _

/-! ## `json.Marshal` answers, is outside the model, or fails with its one error -/

namespace JsonF

def SoftJ {α : Type} : R α → Prop
  | .ok _ => True
  | .unmodelled _ => True
  | .err e => e = jsonErr
  | .panic _ => False

theorem SoftJ.bind {α β : Type} {r : R α} {f : α → R β} (hr : SoftJ r) (hf : ∀ a, SoftJ (f a)) : SoftJ (r.bind f) := by
  cases r <;> simp_all [SoftJ, Res.bind]

theorem jsonFloat_softJ (k : FltKind) (q : Rat) : SoftJ (jsonFloat k q) := by
  unfold jsonFloat
  split
  · trivial
  · trivial
  · split <;> trivial

theorem jsonTime_softJ (u : Int) : SoftJ (jsonTime u) := by
  unfold jsonTime
  split
  · split <;> trivial
  · trivial

theorem zeroJson_softJ (t : Ty) : SoftJ (zeroJson t) := by
  cases t <;> simp only [zeroJson] <;> first | trivial | (split <;> trivial)

mutual
theorem marshal_softJ : ∀ v : GoVal, SoftJ (marshal v)
  | .nil => by rw [marshal]; trivial
  | .bool b => by cases b <;> (rw [marshal]; trivial)
  | .int _ _ => by rw [marshal]; trivial
  | .flt k q => by rw [marshal]; exact jsonFloat_softJ k q
  | .str _ => by rw [marshal]; trivial
  | .bytes _ => by rw [marshal]; trivial
  | .slice e xs => by
      rw [marshal]
      split
      · split <;> trivial
      · exact SoftJ.bind (marshalElems_softJ e xs) (fun _ => trivial)
  | .array e xs => by rw [marshal]; exact SoftJ.bind (marshalElems_softJ e xs) (fun _ => trivial)
  | .map k v kvs => by
      rw [marshal]
      split
      · exact SoftJ.bind (marshalKVs_softJ v kvs) (fun _ => trivial)
      · trivial
  | .mapSlice kvs => by rw [marshal]; exact SoftJ.bind (marshalItems_softJ kvs) (fun _ => trivial)
  | .keyedMap kvs => by rw [marshal]; exact SoftJ.bind (marshalNamed_softJ kvs) (fun _ => trivial)
  | .range _ _ => by rw [marshal]; trivial
  | .ptr v => by rw [marshal]; exact marshal_softJ v
  | .nilPtr => by rw [marshal]; trivial
  | .drop _ => by rw [marshal]; trivial
  | .struct fs => by rw [marshal]; exact SoftJ.bind (marshalNamed_softJ fs) (fun _ => trivial)
  | .time u => by rw [marshal]; exact jsonTime_softJ u
theorem marshalElems_softJ (e : Ty) : ∀ xs : List GoVal, SoftJ (marshalElems e xs)
  | [] => by rw [marshalElems]; trivial
  | x :: xs => by
      have ih := marshalElems_softJ e xs
      have hx := marshal_softJ x
      cases x <;> rw [marshalElems] <;>
        first
        | (intro h; cases h)
        | exact SoftJ.bind (zeroJson_softJ e) (fun _ => SoftJ.bind ih (fun _ => trivial))
        | exact SoftJ.bind hx (fun _ => SoftJ.bind ih (fun _ => trivial))
theorem marshalKVs_softJ (vt : Ty) : ∀ kvs : List (GoVal × GoVal), SoftJ (marshalKVs vt kvs)
  | [] => by rw [marshalKVs]; trivial
  | (k, v) :: r => by
      have ih := marshalKVs_softJ vt r
      have hv := marshal_softJ v
      cases v <;> rw [marshalKVs] <;> (try split) <;>
        first
        | (intro h; cases h)
        | trivial
        | exact SoftJ.bind (zeroJson_softJ vt) (fun _ => SoftJ.bind ih (fun _ => trivial))
        | exact SoftJ.bind hv (fun _ => SoftJ.bind ih (fun _ => trivial))
theorem marshalItems_softJ : ∀ kvs : List (GoVal × GoVal), SoftJ (marshalItems kvs)
  | [] => by rw [marshalItems]; trivial
  | (k, v) :: r => by
      rw [marshalItems]
      exact SoftJ.bind (marshal_softJ k) (fun _ => SoftJ.bind (marshal_softJ v) (fun _ =>
        SoftJ.bind (marshalItems_softJ r) (fun _ => trivial)))
theorem marshalNamed_softJ : ∀ fs : List (Bytes × GoVal), SoftJ (marshalNamed fs)
  | [] => by rw [marshalNamed]; trivial
  | (k, v) :: r => by
      rw [marshalNamed]
      exact SoftJ.bind (marshal_softJ v) (fun _ => SoftJ.bind (marshalNamed_softJ r) (fun _ => trivial))
end


theorem marshalTop_softJ (v : GoVal) : SoftJ (marshalTop v) := by
  unfold marshalTop
  split
  · trivial
  · exact marshal_softJ _

end JsonF


/-! ## Decimal texts of different integers differ -/

open DateF in

theorem dg_inj {a b : Nat} (ha : a < 10) (hb : b < 10) (h : dg a = dg b) : a = b := by
  unfold dg at h
  have := congrArg UInt8.toNat h
  simp at this
  omega

open DateF in
theorem natDec_inj : ∀ (n m : Nat), natDec n = natDec m → n = m := by
  intro n
  induction n using Nat.strongRecOn with
  | _ n ih =>
    intro m h
    by_cases hn : n < 10
    · by_cases hm : m < 10
      · rw [natDec_lt10 n hn, natDec_lt10 m hm] at h
        exact dg_inj hn hm (by simpa using h)
      · rw [natDec_lt10 n hn, natDec_step m (by omega)] at h
        have hl := congrArg List.length h
        simp at hl
        have := natDec_ne_nil (m / 10)
        cases hx : natDec (m / 10) with
        | nil => exact absurd hx this
        | cons a r => rw [hx] at hl; simp at hl
    · by_cases hm : m < 10
      · rw [natDec_lt10 m hm, natDec_step n (by omega)] at h
        have hl := congrArg List.length h
        simp at hl
        have := natDec_ne_nil (n / 10)
        cases hx : natDec (n / 10) with
        | nil => exact absurd hx this
        | cons a r => rw [hx] at hl; simp at hl
      · rw [natDec_step n (by omega), natDec_step m (by omega)] at h
        have h1 := List.append_inj' h rfl
        have e1 := ih (n / 10) (by omega) (m / 10) h1.1
        have e2 := dg_inj (Nat.mod_lt n (by omega)) (Nat.mod_lt m (by omega)) (by simpa using h1.2)
        omega

theorem natDec_head_ne_minus (n : Nat) : ∀ r, natDec n ≠ 45 :: r := by
  intro r h
  have := natDec_all_digits n
  rw [h] at this
  simp [isDigit] at this

theorem intDec_inj (n m : Int) (h : intDec n = intDec m) : n = m := by
  unfold intDec at h
  by_cases hn : n < 0 <;> by_cases hm : m < 0 <;> simp only [hn, hm, if_true, if_false] at h
  · have := natDec_inj _ _ (by simpa using h)
    omega
  · exact absurd h.symm (natDec_head_ne_minus _ _)
  · exact absurd h (natDec_head_ne_minus _ _)
  · have := natDec_inj _ _ h
    omega

/-! ## Both marshal to the same text, or neither marshals -/

/-- both answer, with `S`-related answers, or neither answers -/
def JRelW {α : Type} (S : α → α → Prop) (r r' : R α) : Prop :=
  (∃ b b', r = .ok b ∧ r' = .ok b' ∧ S b b') ∨ ((∀ b, r ≠ .ok b) ∧ (∀ b, r' ≠ .ok b))

abbrev JRel {α : Type} (r r' : R α) : Prop := JRelW Eq r r'

theorem JRelW.refl {α : Type} {S : α → α → Prop} (hS : ∀ a, S a a) (r : R α) : JRelW S r r := by
  cases hr : r with
  | ok b => exact .inl ⟨b, b, rfl, rfl, hS b⟩
  | _ => exact .inr ⟨by simp, by simp⟩

theorem JRelW.bind {α β : Type} {S : α → α → Prop} {T : β → β → Prop} {r r' : R α} {f f' : α → R β}
    (h : JRelW S r r') (hf : ∀ a a', S a a' → JRelW T (f a) (f' a')) : JRelW T (r.bind f) (r'.bind f') := by
  rcases h with ⟨b, b', rfl, rfl, hs⟩ | ⟨h1, h2⟩
  · exact hf b b' hs
  · refine .inr ⟨fun b hb => ?_, fun b hb => ?_⟩
    · cases r <;> simp [Res.bind] at hb
      exact h1 _ rfl
    · cases r' <;> simp [Res.bind] at hb
      exact h2 _ rfl

theorem JRelW.trans {α : Type} {S T U : α → α → Prop} (hU : ∀ a b c, S a b → T b c → U a c) {r r' r'' : R α}
    (h1 : JRelW S r r') (h2 : JRelW T r' r'') : JRelW U r r'' := by
  rcases h1 with ⟨a, b, rfl, rfl, hs⟩ | ⟨h1, h1'⟩
  · rcases h2 with ⟨b', c, e, rfl, ht⟩ | ⟨h2, _⟩
    · cases e; exact .inl ⟨a, c, rfl, rfl, hU _ _ _ hs ht⟩
    · exact absurd rfl (h2 b)
  · rcases h2 with ⟨b', c, rfl, rfl, ht⟩ | ⟨_, h2'⟩
    · exact absurd rfl (h1' b')
    · exact .inr ⟨h1, h2'⟩

/-- inside `json.Marshal` the non-answers are `unmodelled` or the one error: the two results agree -/
theorem JRelW.to_rrel {α : Type} {r r' : R α} (h : JRelW Eq r r') (hs : SoftJ r) (hs' : SoftJ r') : RRel true Eq r r' := by
  rcases h with ⟨b, b', rfl, rfl, e⟩ | ⟨h1, h2⟩
  · exact e
  · cases r <;> cases r' <;> simp only [SoftJ] at hs hs' <;> simp only [RRel] <;> first
      | exact absurd rfl (h1 _)
      | exact absurd rfl (h2 _)
      | (rw [hs, hs'])
      | exact .inl rfl
      | rfl
      | trivial
      | exact False.elim hs
      | exact False.elim hs'
      | exact .inl trivial

theorem travM_jrel {α β : Type} {f g : α → R β} : ∀ {l l' : List α}, Zip2 (fun x y => JRel (f x) (g y)) l l' →
    JRel (travM f l) (travM g l')
  | _, _, .nil => JRelW.refl (fun _ => rfl) _
  | _, _, .cons h hr => by
    simp only [travM]
    exact JRelW.bind h (fun a a' e => by subst e; exact JRelW.bind (travM_jrel hr) (fun bs bs' e => by subst e; exact JRelW.refl (fun _ => rfl) _))

theorem travM_perm_jrel {α β : Type} {f : α → R β} {l l' : List α} (h : l.Perm l') : JRelW List.Perm (travM f l) (travM f l') := by
  rcases travM_perm (f := f) h with ⟨bs, bs', h1, h2, hp⟩ | ⟨h1, h2⟩
  · exact .inl ⟨bs, bs', h1, h2, hp⟩
  · exact .inr ⟨h1, h2⟩

theorem marshalKVs_eq_travM (vt : Ty) : ∀ kvs : List (GoVal × GoVal), marshalKVs vt kvs = travM (entryOf vt) kvs
  | [] => by rw [marshalKVs]; rfl
  | kv :: r => by rw [marshalKVs_cons, travM, marshalKVs_eq_travM vt r]

/-! ## Key texts -/

theorem keyText_inj_of_typed {kt : Ty} (hs : keySupported kt = true) {a b : GoVal} (ha : keyHasTy kt a = true) (hb : keyHasTy kt b = true)
    (h : keyText a = keyText b) : a = b := by
  cases kt <;> simp [keySupported] at hs
  · -- integer keys of one kind
    next k =>
    cases a <;> simp [keyHasTy] at ha
    cases b <;> simp [keyHasTy] at hb
    subst ha hb
    simp only [keyText, Option.some.injEq] at h
    rw [intDec_inj _ _ h]
  · -- string keys
    cases a <;> simp [keyHasTy] at ha
    cases b <;> simp [keyHasTy] at hb
    simp only [keyText, Option.some.injEq] at h
    rw [h]

theorem byteVals_cons_ne (x : GoVal) (xs : List GoVal) (h : ∀ n, x ≠ .int .u8 n) : byteVals (x :: xs) = none := by
  cases x with
  | int k n => cases k <;> first | rfl | exact absurd rfl (h n)
  | _ => rfl

theorem byteVals_mp : ∀ {xs ys : List GoVal}, MPL xs ys → byteVals xs = byteVals ys
  | _, _, .nil => rfl
  | _, _, @MPL.cons x y xs ys hx h => by
    by_cases hu : ∃ n, x = .int .u8 n
    · obtain ⟨n, rfl⟩ := hu
      have := hx.eq_of_rigid_left rfl
      subst this
      simp only [byteVals, byteVals_mp h]
    · have h1 : ∀ n, x ≠ .int .u8 n := fun n e => hu ⟨n, e⟩
      have h2 : ∀ n, y ≠ .int .u8 n := fun n e => by
        subst e
        exact h1 n (hx.eq_of_rigid_right rfl)
      rw [byteVals_cons_ne x xs h1, byteVals_cons_ne y ys h2]

/-! ## `json.Marshal` of related values -/

theorem marshalElems_cons (e : Ty) (x : GoVal) (xs : List GoVal) :
    marshalElems e (x :: xs) = (if x.isNil then zeroJson e else marshal x).bind fun b => (marshalElems e xs).bind fun bs => .ok (b :: bs) := by
  cases x <;> simp [marshalElems, GoVal.isNil]

theorem jrel_refl {α : Type} (r : R α) : JRel r r := JRelW.refl (fun _ => rfl) r

theorem jrel_bind {α β : Type} {r r' : R α} {f : α → R β} (h : JRel r r') : JRel (r.bind f) (r'.bind f) :=
  JRelW.bind h (fun a a' e => by subst e; exact jrel_refl _)

mutual
theorem marshal_jrel : ∀ {a b : GoVal}, MP a b → JRel (marshal a) (marshal b)
  | _, _, .refl _ => jrel_refl _
  | _, _, @MP.slice e xs ys hl => by
    rw [marshal, marshal, byteVals_mp hl]
    split
    · exact jrel_refl _
    · exact jrel_bind (marshalElems_jrel e hl)
  | _, _, @MP.array e xs ys hl => by
    rw [marshal, marshal]
    exact jrel_bind (marshalElems_jrel e hl)
  | _, _, @MP.map kt vt kvs mid kvs' _ hk _ hm hp ht => by
    rw [marshal, marshal]
    split
    · next hsup =>
      have hAB := marshalKVs_jrel vt hm
      have hBC : JRelW List.Perm (marshalKVs vt mid) (marshalKVs vt kvs') := by
        rw [marshalKVs_eq_travM, marshalKVs_eq_travM]; exact travM_perm_jrel hp
      have hAC : JRelW List.Perm (marshalKVs vt kvs) (marshalKVs vt kvs') :=
        JRelW.trans (fun a b c e p => by subst e; exact p) hAB hBC
      rcases hAC with ⟨as, cs, h1, h2, hpe⟩ | ⟨h1, h2⟩
      · rw [h1, h2]
        refine .inl ⟨_, _, rfl, rfl, ?_⟩
        refine jsonObject_permM as cs hpe ?_
        intro a b ha hb hab
        have hp0 := (marshalKVs_ok_iff vt kvs as).mp h1
        obtain ⟨kva, hka, ea⟩ := forall₂_mem_right hp0 a ha
        obtain ⟨kvb, hkb, eb⟩ := forall₂_mem_right hp0 b hb
        have hkk : kva.1 = kvb.1 :=
          keyText_inj_of_typed hsup (ht kva hka) (ht kvb hkb) (by rw [entryOf_key ea, entryOf_key eb, hab])
        have : kva = kvb := hk.entry_unique hka hkb hkk
        subst this
        rw [ea] at eb
        cases eb
        rfl
      · refine .inr ⟨fun b hb => ?_, fun b hb => ?_⟩
        · cases hx : marshalKVs vt kvs <;> rw [hx] at hb <;> simp [Res.bind] at hb
          exact h1 _ hx
        · cases hx : marshalKVs vt kvs' <;> rw [hx] at hb <;> simp [Res.bind] at hb
          exact h2 _ hx
    · exact jrel_refl _
  | _, _, @MP.mapVals kt vt kvs kvs' _ _ hm => by
    rw [marshal, marshal]
    split
    · exact jrel_bind (marshalKVs_jrel vt hm)
    · exact jrel_refl _
  | _, _, .mapSlice hm => by
    rw [marshal, marshal]
    exact jrel_bind (marshalItems_jrel hm)
  | _, _, .keyedMap _ hf => by
    rw [marshal, marshal]
    exact jrel_bind (marshalNamed_jrel hf)
  | _, _, .struct hf => by
    rw [marshal, marshal]
    exact jrel_bind (marshalNamed_jrel hf)
  | _, _, .ptr h => by
    rw [marshal, marshal]
    exact marshal_jrel h
  | _, _, .drop _ => by
    rw [marshal, marshal]
    exact jrel_refl _
theorem marshalElems_jrel (e : Ty) : ∀ {xs ys : List GoVal}, MPL xs ys → JRel (marshalElems e xs) (marshalElems e ys)
  | _, _, .nil => jrel_refl _
  | _, _, .cons hx h => by
    rw [marshalElems_cons, marshalElems_cons, isNil_mp hx]
    refine JRelW.bind (S := Eq) ?_ (fun a a' e => by subst e; exact jrel_bind (marshalElems_jrel _ h))
    split
    · exact jrel_refl _
    · exact marshal_jrel hx
theorem marshalKVs_jrel (vt : Ty) : ∀ {kvs kvs' : List (GoVal × GoVal)}, MPV kvs kvs' → JRel (marshalKVs vt kvs) (marshalKVs vt kvs')
  | _, _, .nil => jrel_refl _
  | _, _, @MPV.cons k v w _ _ hv h => by
    rw [marshalKVs_cons, marshalKVs_cons]
    refine JRelW.bind (S := Eq) ?_ (fun a a' e => by subst e; exact jrel_bind (marshalKVs_jrel vt h))
    unfold entryOf
    simp only
    split
    · exact jrel_refl _
    · have ih := marshal_jrel hv
      cases hv <;> first | exact jrel_refl _ | exact jrel_bind ih
theorem marshalItems_jrel : ∀ {kvs kvs' : List (GoVal × GoVal)}, MPV kvs kvs' → JRel (marshalItems kvs) (marshalItems kvs')
  | _, _, .nil => jrel_refl _
  | _, _, .cons k hv h => by
    rw [marshalItems, marshalItems]
    refine JRelW.bind (jrel_refl _) (fun a a' e => ?_)
    subst e
    refine JRelW.bind (marshal_jrel hv) (fun b b' e => ?_)
    subst e
    exact jrel_bind (marshalItems_jrel h)
theorem marshalNamed_jrel : ∀ {fs fs' : List (Bytes × GoVal)}, MPF fs fs' → JRel (marshalNamed fs) (marshalNamed fs')
  | _, _, .nil => jrel_refl _
  | _, _, .cons k hv h => by
    rw [marshalNamed, marshalNamed]
    refine JRelW.bind (marshal_jrel hv) (fun b b' e => ?_)
    subst e
    exact jrel_bind (marshalNamed_jrel h)
end

theorem marshalTop_of_ne {v : GoVal} (h : v ≠ .slice .any []) : marshalTop v = marshal v := by
  unfold marshalTop
  split
  · exact absurd rfl h
  · rfl

theorem marshalTop_jrel {v v' : GoVal} (hv : MP v v') : JRel (marshalTop v) (marshalTop v') := by
  by_cases h : v = .slice .any []
  · subst h
    cases hv with
    | refl => exact jrel_refl _
    | slice t hl => cases hl; exact jrel_refl _
  · have h' : v' ≠ .slice .any [] := by
      intro e
      subst e
      cases hv with
      | refl => exact h rfl
      | slice t hl => cases hl; exact h rfl
    rw [marshalTop_of_ne h, marshalTop_of_ne h']
    exact marshal_jrel hv

theorem marshalTop_mp {v v' : GoVal} (hv : MP v v') : RRel true Eq (marshalTop v) (marshalTop v') :=
  (marshalTop_jrel hv).to_rrel (marshalTop_softJ v) (marshalTop_softJ v')

theorem json_respectsM : ImplRespectsM [.val .any] json := by
  intro cs cs' h
  obtain ⟨v, v', rfl, rfl, hv⟩ := Num.argsRelM_any1 h
  simp only [json]
  have := marshalTop_mp hv
  cases h1 : marshalTop v <;> cases h2 : marshalTop v' <;> rw [h1, h2] at this <;> simp only [RRel] at this <;>
    simp only <;> first
      | (subst this; exact exrelM_refl _)
      | exact exrelM_refl _
      | exact RRel.unmL rfl _ _
      | exact RRel.unmR rfl _ _
      | exact False.elim this

theorem inspect_respectsM : ImplRespectsM [.val .any] inspect := by
  intro cs cs' h
  obtain ⟨v, v', rfl, rfl, hv⟩ := Num.argsRelM_any1 h
  simp only [inspect]
  have := marshalTop_mp hv
  cases h1 : marshalTop v <;> cases h2 : marshalTop v' <;> rw [h1, h2] at this <;> simp only [RRel] at this <;>
    simp only <;> first
      | (subst this; exact exrelM_refl _)
      | exact exrelM_refl _
      | exact RRel.unmL rfl _ _
      | exact RRel.unmR rfl _ _
      | exact False.elim this

/-! ## The table again: only the two sorts and `uniq` remain open -/

/-- the filters whose bodies are not shown to respect `MP`: they order or identify whole elements -/
def sortFiltersM : List Bytes := [ArrF.bn "sort", ArrF.bn "uniq", ArrF.bn "sort_natural"]

theorem goodEntryM_std2 : ∀ e ∈ stdFilterImpls, e.1 ∉ sortFiltersM → goodEntryM e :=
  goodEntryM_table sortFiltersM (fun h => absurd (by simp [sortFiltersM]) h) (fun h => absurd (by simp [sortFiltersM]) h)
    (fun h => absurd (by simp [sortFiltersM]) h)
    (fun _ => goodEntryM_of_sig ⟨JsonF.bn "json", [.val .any], false⟩ (by decide +kernel) json_respectsM)
    (fun _ => goodEntryM_of_sig ⟨JsonF.bn "inspect", [.val .any], false⟩ (by decide +kernel) inspect_respectsM)
    (fun _ => goodEntryM_of_sig ⟨JsonF.bn "type", [.val .any], false⟩ (by decide +kernel) typeF_respectsM)

/-- every standard filter other than `sort`, `uniq`, `sort_natural` maps related inputs to related results -/
theorem filterRespectsM_std2 (name : Bytes) (h : name ∉ sortFiltersM) : FilterRespectsM name :=
  filterRespectsM_of_impl name (fun sg f hs hf => goodEntryM_std2 (name, f) (lookupImpl_mem hf) h sg hs)

theorem stdPrimsOnly_respectsM2 (allowed : Bytes → Bool)
    (hopen : ∀ n, n ∈ sortFiltersM → allowed n = true → FilterRespectsM n) :
    PrimsRespectM true (stdPrimsOnly allowed) :=
  stdPrimsOnly_respectsM allowed (fun n _ ha => by
    by_cases hn : n ∈ sortFiltersM
    · exact hopen n hn ha
    · exact filterRespectsM_std2 n hn)

/-- the engine without `sort`, `uniq`, `sort_natural` -/
def withoutSortsM (n : Bytes) : Bool := !sortFiltersM.contains n
