import Proofs.StdNoPanicLemmas
import Proofs.Utf8Lemmas
import Liquid.Filters.Json
/-!
# Helper lemmas about `Liquid/Filters/Json.lean`

* no `.panic` is reachable in `json.Marshal`'s model, in `%T` and in the three filter bodies;
* the entry order of a Go map does not reach the JSON text (`jsonObject_perm`, `marshal_map_perm`);
* the string escaping (`escBody`): bytes that cannot occur, valid UTF-8, the string lexer stops at
  the closing quote.
-/

namespace JsonF

/-! ## no panic -/

theorem jsonFloat_noPanic (k : FltKind) (q : Rat) : NoPanicRes (jsonFloat k q) := by
  unfold jsonFloat
  split
  · trivial
  · trivial
  · split <;> trivial

theorem jsonTime_noPanic (u : Int) : NoPanicRes (jsonTime u) := by
  unfold jsonTime
  split
  · split <;> trivial
  · trivial

theorem zeroJson_noPanic (t : Ty) : NoPanicRes (zeroJson t) := by
  cases t <;> simp only [zeroJson] <;> first | trivial | (split <;> trivial)

mutual
theorem marshal_noPanic : ∀ v : GoVal, NoPanicRes (marshal v)
  | .nil => by rw [marshal]; trivial
  | .bool b => by cases b <;> (rw [marshal]; trivial)
  | .int _ _ => by rw [marshal]; trivial
  | .flt k q => by rw [marshal]; exact jsonFloat_noPanic k q
  | .str _ => by rw [marshal]; trivial
  | .bytes _ => by rw [marshal]; trivial
  | .slice e xs => by
      rw [marshal]
      split
      · split <;> trivial
      · exact NoPanicRes.bind (marshalElems_noPanic e xs) (fun _ => trivial)
  | .array e xs => by rw [marshal]; exact NoPanicRes.bind (marshalElems_noPanic e xs) (fun _ => trivial)
  | .map k v kvs => by
      rw [marshal]
      split
      · exact NoPanicRes.bind (marshalKVs_noPanic v kvs) (fun _ => trivial)
      · trivial
  | .mapSlice kvs => by rw [marshal]; exact NoPanicRes.bind (marshalItems_noPanic kvs) (fun _ => trivial)
  | .keyedMap kvs => by rw [marshal]; exact NoPanicRes.bind (marshalNamed_noPanic kvs) (fun _ => trivial)
  | .range _ _ => by rw [marshal]; trivial
  | .ptr v => by rw [marshal]; exact marshal_noPanic v
  | .nilPtr => by rw [marshal]; trivial
  | .drop _ => by rw [marshal]; trivial
  | .struct fs => by rw [marshal]; exact NoPanicRes.bind (marshalNamed_noPanic fs) (fun _ => trivial)
  | .time u => by rw [marshal]; exact jsonTime_noPanic u
theorem marshalElems_noPanic (e : Ty) : ∀ xs : List GoVal, NoPanicRes (marshalElems e xs)
  | [] => by rw [marshalElems]; trivial
  | x :: xs => by
      have ih := marshalElems_noPanic e xs
      have hx := marshal_noPanic x
      cases x <;> rw [marshalElems] <;>
        first
        | (intro h; cases h)
        | exact NoPanicRes.bind (zeroJson_noPanic e) (fun _ => NoPanicRes.bind ih (fun _ => trivial))
        | exact NoPanicRes.bind hx (fun _ => NoPanicRes.bind ih (fun _ => trivial))
theorem marshalKVs_noPanic (vt : Ty) : ∀ kvs : List (GoVal × GoVal), NoPanicRes (marshalKVs vt kvs)
  | [] => by rw [marshalKVs]; trivial
  | (k, v) :: r => by
      have ih := marshalKVs_noPanic vt r
      have hv := marshal_noPanic v
      cases v <;> rw [marshalKVs] <;> (try split) <;>
        first
        | (intro h; cases h)
        | trivial
        | exact NoPanicRes.bind (zeroJson_noPanic vt) (fun _ => NoPanicRes.bind ih (fun _ => trivial))
        | exact NoPanicRes.bind hv (fun _ => NoPanicRes.bind ih (fun _ => trivial))
theorem marshalItems_noPanic : ∀ kvs : List (GoVal × GoVal), NoPanicRes (marshalItems kvs)
  | [] => by rw [marshalItems]; trivial
  | (k, v) :: r => by
      rw [marshalItems]
      exact NoPanicRes.bind (marshal_noPanic k) (fun _ => NoPanicRes.bind (marshal_noPanic v) (fun _ =>
        NoPanicRes.bind (marshalItems_noPanic r) (fun _ => trivial)))
theorem marshalNamed_noPanic : ∀ fs : List (Bytes × GoVal), NoPanicRes (marshalNamed fs)
  | [] => by rw [marshalNamed]; trivial
  | (k, v) :: r => by
      rw [marshalNamed]
      exact NoPanicRes.bind (marshal_noPanic v) (fun _ => NoPanicRes.bind (marshalNamed_noPanic r) (fun _ => trivial))
end

theorem marshalTop_noPanic (v : GoVal) : NoPanicRes (marshalTop v) := by
  unfold marshalTop
  split
  · trivial
  · exact marshal_noPanic _

theorem optName_noPanic (w : String) (o : Option Bytes) : NoPanicRes (optName w o) := by
  cases o <;> trivial

theorem typeName_noPanic : ∀ v : GoVal, NoPanicRes (typeName v)
  | .nil | .bool _ | .int _ _ | .flt _ _ | .str _ | .bytes _ | .mapSlice _ | .keyedMap _ | .range _ _
  | .nilPtr | .drop _ | .time _ => by rw [typeName]; trivial
  | .struct _ => by rw [typeName]; exact optName_noPanic _ _
  | .slice _ _ => by rw [typeName]; exact optName_noPanic _ _
  | .array _ _ => by rw [typeName]; exact optName_noPanic _ _
  | .map k v kvs => by
      unfold typeName
      split <;> first | trivial | exact optName_noPanic _ _
  | .ptr v => by
      have ih := typeName_noPanic v
      cases v <;> simp only [typeName] <;> first | trivial | exact NoPanicRes.bind ih (fun _ => trivial)

theorem args_any {args : List Arg} (h : ArgsOK [.val .any] args) : ∃ v, args = [.val v] := by
  obtain ⟨x, xs, rfl, h1, h2⟩ := h.cons_inv
  cases h2.nil_inv
  obtain ⟨v, rfl, _⟩ := h1.val_inv
  exact ⟨v, rfl⟩

theorem json_noPanic (args : List Arg) (h : ArgsOK [.val .any] args) : NoPanicRes (json args) := by
  obtain ⟨v, rfl⟩ := args_any h
  have := marshalTop_noPanic v
  simp only [json]
  split <;> first | trivial | (rename_i hw; rw [hw] at this; exact this)

theorem inspect_noPanic (args : List Arg) (h : ArgsOK [.val .any] args) : NoPanicRes (inspect args) := by
  obtain ⟨v, rfl⟩ := args_any h
  have := marshalTop_noPanic v
  simp only [inspect]
  split <;> first | trivial | (rename_i hw; rw [hw] at this; exact this)

theorem typeF_noPanic (args : List Arg) (h : ArgsOK [.val .any] args) : NoPanicRes (typeF args) := by
  obtain ⟨v, rfl⟩ := args_any h
  simp only [typeF]
  exact NoPanicRes.bind (typeName_noPanic v) (fun _ => trivial)

end JsonF

/-! ## the entries of a map, one at a time -/

namespace JsonF

/-- the lists are related element by element -/
inductive Pointwise {α β} (R : α → β → Prop) : List α → List β → Prop
  | nil : Pointwise R [] []
  | cons {a b l m} : R a b → Pointwise R l m → Pointwise R (a :: l) (b :: m)

/-- one entry of a map whose value type is `vt`: the key text and the value's JSON -/
def entryOf (vt : Ty) (kv : GoVal × GoVal) : R (Bytes × Bytes) :=
  match keyText kv.1 with
  | none => .unmodelled "json: map key that is neither a string nor an integer"
  | some kt =>
    match kv.2 with
    | .nil => (zeroJson vt).bind fun b => .ok (kt, b)
    | v => (marshal v).bind fun b => .ok (kt, b)

theorem marshalKVs_cons (vt : Ty) (kv : GoVal × GoVal) (r : List (GoVal × GoVal)) :
    marshalKVs vt (kv :: r) = (entryOf vt kv).bind fun e => (marshalKVs vt r).bind fun es => .ok (e :: es) := by
  obtain ⟨k, v⟩ := kv
  cases v <;> simp only [marshalKVs, entryOf] <;> cases keyText k <;> simp only [Res.bind] <;>
    (first | rfl | (split <;> rfl))

/-- `marshalKVs` succeeds iff every entry does, and then lists the entries in order -/
theorem marshalKVs_ok_iff (vt : Ty) : ∀ (kvs : List (GoVal × GoVal)) (es : List (Bytes × Bytes)),
    marshalKVs vt kvs = .ok es ↔ Pointwise (fun kv e => entryOf vt kv = .ok e) kvs es
  | [], es => by
      rw [marshalKVs]
      constructor
      · intro h; cases h; exact .nil
      · intro h; cases h; rfl
  | kv :: r, es => by
      rw [marshalKVs_cons]
      constructor
      · intro h
        obtain ⟨e, he, h⟩ := Res.bind_eq_ok h
        obtain ⟨es', hes, h⟩ := Res.bind_eq_ok h
        cases h
        exact .cons he ((marshalKVs_ok_iff vt r es').mp hes)
      · intro h
        cases h with
        | cons he hr =>
          rw [he, (marshalKVs_ok_iff vt r _).mpr hr]
          rfl

/-- named values (`any` slots) -/
def namedOf (kv : Bytes × GoVal) : R (Bytes × Bytes) := (marshal kv.2).bind fun b => .ok (kv.1, b)

theorem marshalNamed_ok_iff : ∀ (kvs : List (Bytes × GoVal)) (es : List (Bytes × Bytes)),
    marshalNamed kvs = .ok es ↔ Pointwise (fun kv e => namedOf kv = .ok e) kvs es
  | [], es => by
      rw [marshalNamed]
      constructor
      · intro h; cases h; exact .nil
      · intro h; cases h; rfl
  | (k, v) :: r, es => by
      rw [marshalNamed]
      constructor
      · intro h
        obtain ⟨b, hb, h⟩ := Res.bind_eq_ok h
        obtain ⟨es', hes, h⟩ := Res.bind_eq_ok h
        cases h
        refine .cons ?_ ((marshalNamed_ok_iff r es').mp hes)
        simp only [namedOf, hb, Res.bind]
      · intro h
        cases h with
        | cons he hr =>
          simp only [namedOf] at he
          obtain ⟨b, hb, he⟩ := Res.bind_eq_ok he
          cases he
          rw [hb, (marshalNamed_ok_iff r _).mpr hr]
          rfl

/-- a permutation of the inputs of a pointwise relation permutes the outputs -/
theorem forall₂_perm {α β} {R : α → β → Prop} {l l' : List α} (hp : l.Perm l') :
    ∀ {m : List β}, Pointwise R l m → ∃ m', Pointwise R l' m' ∧ m.Perm m' := by
  induction hp with
  | nil => intro m h; exact ⟨m, h, .refl _⟩
  | cons x _ ih =>
    intro m h
    cases h with
    | cons hx hr =>
      obtain ⟨m', hm', hp'⟩ := ih hr
      exact ⟨_ :: m', .cons hx hm', .cons _ hp'⟩
  | swap x y l =>
    intro m h
    cases h with
    | cons hy h =>
      cases h with
      | cons hx hr => exact ⟨_ :: _ :: _, .cons hx (.cons hy hr), .swap _ _ _⟩
  | trans _ _ ih₁ ih₂ =>
    intro m h
    obtain ⟨m₁, h₁, p₁⟩ := ih₁ h
    obtain ⟨m₂, h₂, p₂⟩ := ih₂ h₁
    exact ⟨m₂, h₂, p₁.trans p₂⟩

theorem forall₂_mem_right {α β} {R : α → β → Prop} : ∀ {l : List α} {m : List β}, Pointwise R l m →
    ∀ b ∈ m, ∃ a ∈ l, R a b
  | _, _, .nil, b, hb => by cases hb
  | _, _, .cons (a := a) h hr, b, hb => by
      rcases List.mem_cons.mp hb with rfl | hb
      · exact ⟨a, List.mem_cons_self .., h⟩
      · obtain ⟨a', ha', h'⟩ := forall₂_mem_right hr b hb
        exact ⟨a', List.mem_cons_of_mem _ ha', h'⟩

theorem entryOf_key {vt : Ty} {kv : GoVal × GoVal} {e : Bytes × Bytes} (h : entryOf vt kv = .ok e) :
    keyText kv.1 = some e.1 := by
  unfold entryOf at h
  split at h
  · cases h
  · next kt hk =>
    rw [hk]
    split at h <;> (obtain ⟨b, _, h⟩ := Res.bind_eq_ok h; cases h; rfl)

theorem namedOf_key {kv : Bytes × GoVal} {e : Bytes × Bytes} (h : namedOf kv = .ok e) : kv.1 = e.1 := by
  unfold namedOf at h
  obtain ⟨b, _, h⟩ := Res.bind_eq_ok h
  cases h; rfl

end JsonF

/-! ## string escaping -/

namespace JsonF

def escBad : Bytes := [92, 117, 102, 102, 102, 100]
def escLS : Bytes := [92, 117, 50, 48, 50, 56]
def escPS : Bytes := [92, 117, 50, 48, 50, 57]

/-- the bytes of a multi-byte sequence are all ≥ 0x80 -/
theorem good_multibyte {b : UInt8} {rest : Bytes} {r w : Nat} (h : Good (b :: rest) r w) (hb : 128 ≤ b.toNat) :
    ∀ y ∈ (b :: rest).take w, 128 ≤ y.toNat := by
  cases h with
  | one _ _ h0 => omega
  | two b0 b1 t h0 h0' h1 h1' =>
    intro y hy
    simp only [List.take_succ_cons, List.take_zero, List.mem_cons, List.not_mem_nil, or_false] at hy
    rcases hy with rfl | rfl <;> omega
  | three b0 b1 b2 t h0 h0' h1 h1' hl hh h2 h2' =>
    intro y hy
    simp only [List.take_succ_cons, List.take_zero, List.mem_cons, List.not_mem_nil, or_false] at hy
    rcases hy with rfl | rfl | rfl <;> omega
  | four b0 b1 b2 b3 t h0 h0' h1 h1' hl hh h2 h2' h3 h3' =>
    intro y hy
    simp only [List.take_succ_cons, List.take_zero, List.mem_cons, List.not_mem_nil, or_false] at hy
    rcases hy with rfl | rfl | rfl | rfl <;> omega

/-- Induction over the chunks `appendString` emits: an escaped or copied ASCII byte, one of the three
fixed escapes (`�`, ` `, ` `), or a copied well-formed multi-byte sequence. -/
theorem escAux_ind (P : Bytes → Prop) (hnil : P [])
    (hascii : ∀ (b : UInt8) (t : Bytes), b < 0x80 → P t → P (escByte b ++ t))
    (hesc : ∀ (c t : Bytes), c = escBad ∨ c = escLS ∨ c = escPS → P t → P (c ++ t))
    (hrune : ∀ (c t : Bytes), ValidUtf8 c → (∀ y ∈ c, 128 ≤ y.toNat) → P t → P (c ++ t)) :
    ∀ (n : Nat) (s : Bytes), P (escAux n s) := by
  intro n
  induction n with
  | zero => intro s; rw [escAux]; exact hnil
  | succ n ih =>
    intro s
    cases s with
    | nil => simp only [escAux]; exact hnil
    | cons b rest =>
      simp only [escAux]
      split
      · next hb => exact hascii b _ hb (ih rest)
      · next hb =>
        cases hd : decodeRune (b :: rest) with
        | mk r w =>
          simp only []
          split
          · exact hesc _ _ (Or.inl rfl) (ih rest)
          · next hw =>
            split
            · exact hesc _ _ (Or.inr (Or.inl rfl)) (ih _)
            · split
              · exact hesc _ _ (Or.inr (Or.inr rfl)) (ih _)
              · have hg : Good (b :: rest) r w := good_of_decodeRune _ r w hd (fun h => hw h.2)
                have hb' : 128 ≤ b.toNat := by
                  have : ¬ b.toNat < 128 := by
                    intro h; exact hb (by simpa [UInt8.lt_iff_toNat_lt] using h)
                  omega
                refine hrune _ _ ?_ (good_multibyte hg hb') (ih _)
                rw [← hg.encode]
                exact validUtf8_encodeRune r

end JsonF

namespace JsonF

/-- The scanner of a JSON string body (RFC 8259 §7): a backslash takes the next byte with it, the
first quote that is not taken this way ends the string; the result is what follows that quote. -/
def strEnd : Bytes → Option Bytes
  | [] => none
  | b :: t =>
    if b == 34 then some t
    else if b == 92 then
      match t with
      | [] => none
      | _ :: t' => strEnd t'
    else strEnd t

/-- a byte that may stand for itself between the quotes of what `json` prints -/
def plainByte (y : UInt8) : Bool := 32 ≤ y && y != 34 && y != 92 && y != 60 && y != 62 && y != 38

/-- the shapes `escByte` produces: a two-byte escape, `\u` with four plain bytes, or one plain byte; every
    byte printable ASCII other than `<`, `>`, `&` -/
def escShape (b : UInt8) : Bool :=
  (escByte b).all (fun y => 32 ≤ y && y < 128 && y != 60 && y != 62 && y != 38) &&
  match escByte b with
  | [x, y] => x == 92 && y != 117
  | [x, u, a, b', c, d] => x == 92 && u == 117 && plainByte a && plainByte b' && plainByte c && plainByte d
  | [y] => plainByte y
  | _ => false

theorem escShape_all : ∀ n, n < 128 → escShape n.toUInt8 = true := by decide +kernel

theorem escShape_byte (b : UInt8) (hb : b < 0x80) : escShape b = true := by
  have := escShape_all b.toNat (by simpa [UInt8.lt_iff_toNat_lt] using hb)
  rwa [toUInt8_eq_of b.toNat b rfl] at this

theorem strEnd_cons (b : UInt8) (t : Bytes) : strEnd (b :: t) =
    if b == 34 then some t else if b == 92 then (match t with | [] => none | _ :: t' => strEnd t') else strEnd t := by
  conv => lhs; rw [strEnd.eq_def]
  rfl

theorem strEnd_plain : ∀ (c t : Bytes), (∀ y ∈ c, y ≠ 34 ∧ y ≠ 92) → strEnd (c ++ t) = strEnd t
  | [], t, _ => rfl
  | y :: c, t, h => by
      have hy := h y (List.mem_cons_self ..)
      rw [List.cons_append, strEnd_cons, if_neg (by simpa using hy.1), if_neg (by simpa using hy.2)]
      exact strEnd_plain c t (fun z hz => h z (List.mem_cons_of_mem _ hz))

theorem strEnd_bs (x : UInt8) (t : Bytes) : strEnd (92 :: x :: t) = strEnd t := by
  rw [strEnd_cons, if_neg (by decide), if_pos (by decide)]

theorem plainByte_ne {y : UInt8} (h : plainByte y = true) : y ≠ 34 ∧ y ≠ 92 := by
  simp only [plainByte, Bool.and_eq_true, bne_iff_ne, ne_eq] at h
  exact ⟨h.1.1.1.1.2, h.1.1.1.2⟩

theorem strEnd_escByte (b : UInt8) (hb : b < 0x80) (t : Bytes) : strEnd (escByte b ++ t) = strEnd t := by
  have h := escShape_byte b hb
  unfold escShape at h
  simp only [Bool.and_eq_true] at h
  obtain ⟨_, h⟩ := h
  split at h
  · next x y heq =>
    simp only [Bool.and_eq_true, beq_iff_eq] at h
    rw [heq, h.1]
    rfl
  · next x u a b' c d heq =>
    simp only [Bool.and_eq_true, beq_iff_eq] at h
    obtain ⟨⟨⟨⟨⟨hx, hu⟩, ha⟩, hb⟩, hc⟩, hd⟩ := h
    rw [heq, hx, hu]
    show strEnd ([a, b', c, d] ++ t) = strEnd t
    apply strEnd_plain
    intro y hy
    simp only [List.mem_cons, List.not_mem_nil, or_false] at hy
    rcases hy with rfl | rfl | rfl | rfl
    · exact plainByte_ne ha
    · exact plainByte_ne hb
    · exact plainByte_ne hc
    · exact plainByte_ne hd
  · next y heq =>
    rw [heq]
    exact strEnd_plain [y] t (fun z hz => by
      simp only [List.mem_cons, List.not_mem_nil, or_false] at hz; subst hz; exact plainByte_ne h)
  · cases h

theorem escByte_bytes (b : UInt8) (hb : b < 0x80) : ∀ y ∈ escByte b, 32 ≤ y ∧ y < 128 ∧ y ≠ 60 ∧ y ≠ 62 ∧ y ≠ 38 := by
  have h := escShape_byte b hb
  unfold escShape at h
  simp only [Bool.and_eq_true, List.all_eq_true, bne_iff_ne, ne_eq, decide_eq_true_eq] at h
  intro y hy
  have := h.1 y hy
  exact ⟨this.1.1.1.1, this.1.1.1.2, this.1.1.2, this.1.2, this.2⟩

theorem fixedEsc_bytes {c : Bytes} (hc : c = escBad ∨ c = escLS ∨ c = escPS) :
    (∀ y ∈ c, 32 ≤ y ∧ y < 128 ∧ y ≠ 60 ∧ y ≠ 62 ∧ y ≠ 38) ∧ ∀ t, strEnd (c ++ t) = strEnd t := by
  rcases hc with rfl | rfl | rfl
  · exact ⟨by decide, fun t => by
      show strEnd (92 :: 117 :: ([102, 102, 102, 100] ++ t)) = strEnd t
      rw [strEnd_bs]; exact strEnd_plain _ _ (by decide)⟩
  · exact ⟨by decide, fun t => by
      show strEnd (92 :: 117 :: ([50, 48, 50, 56] ++ t)) = strEnd t
      rw [strEnd_bs]; exact strEnd_plain _ _ (by decide)⟩
  · exact ⟨by decide, fun t => by
      show strEnd (92 :: 117 :: ([50, 48, 50, 57] ++ t)) = strEnd t
      rw [strEnd_bs]; exact strEnd_plain _ _ (by decide)⟩

end JsonF
