import Proofs.StdNoPanicLemmas
import Liquid.Filters.Json
/-!
# Helper lemmas about `Liquid/Filters/Json.lean`

* no `.panic` is reachable in `json.Marshal`'s model, in `%T` and in the three filter bodies;
* the entry order of a Go map does not reach the JSON text (`jsonObject_perm`, `marshal_map_perm`);
* the string escaping (`escBody`): bytes that cannot occur, valid UTF-8, the string lexer stops at
  the closing quote.
-/

namespace JsonF

/-! ## no panic -/

theorem jsonFloat_noPanic (k : FltKind) (q : Rat) : NoPanicRes (jsonFloat k q) := by
  unfold jsonFloat
  split
  · trivial
  · trivial
  · split <;> trivial

theorem jsonTime_noPanic (u : Int) : NoPanicRes (jsonTime u) := by
  unfold jsonTime
  split
  · split <;> trivial
  · trivial

theorem zeroJson_noPanic (t : Ty) : NoPanicRes (zeroJson t) := by
  cases t <;> simp only [zeroJson] <;> first | trivial | (split <;> trivial)

mutual
theorem marshal_noPanic : ∀ v : GoVal, NoPanicRes (marshal v)
  | .nil => by rw [marshal]; trivial
  | .bool b => by cases b <;> (rw [marshal]; trivial)
  | .int _ _ => by rw [marshal]; trivial
  | .flt k q => by rw [marshal]; exact jsonFloat_noPanic k q
  | .str _ => by rw [marshal]; trivial
  | .bytes _ => by rw [marshal]; trivial
  | .slice e xs => by
      rw [marshal]
      split
      · split <;> trivial
      · exact NoPanicRes.bind (marshalElems_noPanic e xs) (fun _ => trivial)
  | .array e xs => by rw [marshal]; exact NoPanicRes.bind (marshalElems_noPanic e xs) (fun _ => trivial)
  | .map k v kvs => by
      rw [marshal]
      split
      · exact NoPanicRes.bind (marshalKVs_noPanic v kvs) (fun _ => trivial)
      · trivial
  | .mapSlice kvs => by rw [marshal]; exact NoPanicRes.bind (marshalItems_noPanic kvs) (fun _ => trivial)
  | .keyedMap kvs => by rw [marshal]; exact NoPanicRes.bind (marshalNamed_noPanic kvs) (fun _ => trivial)
  | .range _ _ => by rw [marshal]; trivial
  | .ptr v => by rw [marshal]; exact marshal_noPanic v
  | .nilPtr => by rw [marshal]; trivial
  | .drop _ => by rw [marshal]; trivial
  | .struct fs => by rw [marshal]; exact NoPanicRes.bind (marshalNamed_noPanic fs) (fun _ => trivial)
  | .time u => by rw [marshal]; exact jsonTime_noPanic u
theorem marshalElems_noPanic (e : Ty) : ∀ xs : List GoVal, NoPanicRes (marshalElems e xs)
  | [] => by rw [marshalElems]; trivial
  | x :: xs => by
      have ih := marshalElems_noPanic e xs
      have hx := marshal_noPanic x
      cases x <;> rw [marshalElems] <;>
        first
        | (intro h; cases h)
        | exact NoPanicRes.bind (zeroJson_noPanic e) (fun _ => NoPanicRes.bind ih (fun _ => trivial))
        | exact NoPanicRes.bind hx (fun _ => NoPanicRes.bind ih (fun _ => trivial))
theorem marshalKVs_noPanic (vt : Ty) : ∀ kvs : List (GoVal × GoVal), NoPanicRes (marshalKVs vt kvs)
  | [] => by rw [marshalKVs]; trivial
  | (k, v) :: r => by
      have ih := marshalKVs_noPanic vt r
      have hv := marshal_noPanic v
      cases v <;> rw [marshalKVs] <;> (try split) <;>
        first
        | (intro h; cases h)
        | trivial
        | exact NoPanicRes.bind (zeroJson_noPanic vt) (fun _ => NoPanicRes.bind ih (fun _ => trivial))
        | exact NoPanicRes.bind hv (fun _ => NoPanicRes.bind ih (fun _ => trivial))
theorem marshalItems_noPanic : ∀ kvs : List (GoVal × GoVal), NoPanicRes (marshalItems kvs)
  | [] => by rw [marshalItems]; trivial
  | (k, v) :: r => by
      rw [marshalItems]
      exact NoPanicRes.bind (marshal_noPanic k) (fun _ => NoPanicRes.bind (marshal_noPanic v) (fun _ =>
        NoPanicRes.bind (marshalItems_noPanic r) (fun _ => trivial)))
theorem marshalNamed_noPanic : ∀ fs : List (Bytes × GoVal), NoPanicRes (marshalNamed fs)
  | [] => by rw [marshalNamed]; trivial
  | (k, v) :: r => by
      rw [marshalNamed]
      exact NoPanicRes.bind (marshal_noPanic v) (fun _ => NoPanicRes.bind (marshalNamed_noPanic r) (fun _ => trivial))
end

theorem marshalTop_noPanic (v : GoVal) : NoPanicRes (marshalTop v) := by
  unfold marshalTop
  split
  · trivial
  · exact marshal_noPanic _

theorem optName_noPanic (w : String) (o : Option Bytes) : NoPanicRes (optName w o) := by
  cases o <;> trivial

theorem typeName_noPanic : ∀ v : GoVal, NoPanicRes (typeName v)
  | .nil | .bool _ | .int _ _ | .flt _ _ | .str _ | .bytes _ | .mapSlice _ | .keyedMap _ | .range _ _
  | .nilPtr | .drop _ | .struct _ | .time _ => by rw [typeName]; trivial
  | .slice _ _ => by rw [typeName]; exact optName_noPanic _ _
  | .array _ _ => by rw [typeName]; exact optName_noPanic _ _
  | .map k v kvs => by
      unfold typeName
      split <;> first | trivial | exact optName_noPanic _ _
  | .ptr v => by
      have ih := typeName_noPanic v
      cases v <;> simp only [typeName] <;> first | trivial | exact NoPanicRes.bind ih (fun _ => trivial)

theorem args_any {args : List Arg} (h : ArgsOK [.val .any] args) : ∃ v, args = [.val v] := by
  obtain ⟨x, xs, rfl, h1, h2⟩ := h.cons_inv
  cases h2.nil_inv
  obtain ⟨v, rfl, _⟩ := h1.val_inv
  exact ⟨v, rfl⟩

theorem json_noPanic (args : List Arg) (h : ArgsOK [.val .any] args) : NoPanicRes (json args) := by
  obtain ⟨v, rfl⟩ := args_any h
  have := marshalTop_noPanic v
  simp only [json]
  split <;> first | trivial | (rename_i hw; rw [hw] at this; exact this)

theorem inspect_noPanic (args : List Arg) (h : ArgsOK [.val .any] args) : NoPanicRes (inspect args) := by
  obtain ⟨v, rfl⟩ := args_any h
  have := marshalTop_noPanic v
  simp only [inspect]
  split <;> first | trivial | (rename_i hw; rw [hw] at this; exact this)

theorem typeF_noPanic (args : List Arg) (h : ArgsOK [.val .any] args) : NoPanicRes (typeF args) := by
  obtain ⟨v, rfl⟩ := args_any h
  simp only [typeF]
  exact NoPanicRes.bind (typeName_noPanic v) (fun _ => trivial)

end JsonF
