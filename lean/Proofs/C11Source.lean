import Proofs.SrcLoop
/-!
# C11, from source bytes — `{% for i in (a..b) %}{{ i }}{% endfor %}` renders the numerals `a … b`

Lifts `for_denotation` (`Proofs/C11.lean`) through the tokenizer, the block parser, the compiler and the
expression parser to `run` on source text: the loop over a literal integer range, the body printing the loop
variable, with the modifiers `reversed`, `offset:`, `limit:` when their arguments are integer literals.
-/

/-- `{% for ARGS %}{{ i }}{% endfor %}` -/
def forPrintSrc (args ivar : Bytes) (w1 w2 w3 : Ws) : List Item := [tg nmFor args w1, ob ivar w2, tg nmEndfor [] w3]

/-- loop modifiers whose arguments are integer literals -/
def litMods (rev : Bool) (off lim : Option Int) : LoopMods :=
  { reversed := rev, offset := off.map (fun o => .lit (.int .int o)), limit := lim.map (fun o => .lit (.int .int o)) }

theorem intModifier_lit (P : Prims) (o : Option Int) (loc : Loc) (s : RS) :
    intModifier P (o.map (fun o => .lit (.int .int o))) loc s = .ret (o, s) := by
  cases o with
  | none => rfl
  | some o => simp [intModifier, bind, M.bind, M.getEnv, Prog.bind, evaluate, eval, GoVal.unwrap, M.ofRes, pure, M.pure]

/-- **C11 (a `for` over a literal range, with literal modifiers), from source bytes.** If the arguments of
    the `for` tag parse to the loop variable `i`, the range of the integer literals `a`, `b` and the modifiers
    `reversed` (or not), `offset: off`, `limit: lim` (integer literals, or absent), then the source

    `{% for ARGS %}{{ i }}{% endfor %}`

    renders the decimal numerals of `selectItems reversed off lim [a, a+1, …, b]` — reverse first, then skip
    `off`, then take `lim` (`select_spec`) — concatenated, with nothing in between: every iteration binds
    `i` to the item and the body prints it. For every value layer `P`, every output layer that prints
    a Go `int` as its `strconv.Itoa` text (`hO`; the standard one does, `stdOut_int`), every configuration
    with good delimiters, file system and environment.

    Side conditions: `i` is not the name `forloop` (the loop binds `forloop` after `i`); `b - a ≤ cfg.budget`
    — `cfg.budget` is a parameter of the EXECUTABLE model without a counterpart in the code (beyond it `loopItems`
    answers `unmodelled`), and it is arbitrary here: for every range there is a budget, and raising the budget never
    changes an answer (`range_loop_any_size`, `budget_monotone_run` in `Proofs/C11.lean`). -/
theorem for_range_source (P : Prims) (O : OutPrims) (cfg : Cfg) (fs : FS) (fuel : Nat) (line : Nat) (env : Env)
    (hO : ∀ n, O.chunks (.int .int n) = .ok [intDec n])
    (args ivar : Bytes) (a b : Int) (rev : Bool) (off lim : Option Int) (w1 w2 w3 : Ws)
    (hp : parseStatement kwLoop args = .ok (.loop ivar (.range (.lit (.int .int a)) (.lit (.int .int b))) (litMods rev off lim)))
    (hvar : parseExprSource ivar = .ok (.var ivar)) (hnf : ivar ≠ nmForloop) (hsmall : b - a ≤ cfg.budget)
    (hg : GoodDelims (Delims.ofList cfg.delims)) (hc : Clean (Delims.ofList cfg.delims) (forPrintSrc args ivar w1 w2 w3)) :
    run P O cfg fs fuel (spell (Delims.ofList cfg.delims) (forPrintSrc args ivar w1 w2 w3)) line env =
      .ok ((selectItems rev off lim (rangeItems a b)).map decOf).flatten := by
  unfold forPrintSrc at hc ⊢
  have e : [tg nmFor args w1, ob ivar w2, tg nmEndfor [] w3] = tg nmFor args w1 :: ([ob ivar w2] ++ tg nmEndfor [] w3 :: []) := rfl
  rw [run_spell P O cfg fs fuel _ line env hg hc, e, tokensOf_block0, tokensOf_ob, tokensOf_nil, tokensOf_nil,
    compile_for _ args w1 w3 _ line _ _ ivar _ _ hp (compile_ob _ ivar w2 _ (.var ivar) hvar)]
  exact runRoot_for_range P O cfg fs fuel hO line _ ivar hnf a b (litMods rev off lim) off lim env
    (intModifier_lit P off _ _) (intModifier_lit P lim _ _) hsmall

/-- the items of `(a..b)` print as the numerals `a, a+1, …, b` -/
theorem rangeItems_decs (a b : Int) (hab : a ≤ b) :
    (rangeItems a b).map decOf = (List.range (b - a + 1).toNat).map (fun k : Nat => intDec (a + k)) := by
  unfold rangeItems
  rw [if_neg (by omega), List.map_map]
  rfl

/-- **C11 (the numerals `a … b`), from source bytes.** For integers `a ≤ b` (in the `int64` range; `b - a ≤ cfg.budget`, for every budget `cfg.budget` of the executable model)
    and an identifier `i` other than `forloop`, the source

    `{% for i in (a..b) %}{{ i }}{% endfor %}`

    — `a`, `b` written in decimal (`intDec`, the text of `strconv.Itoa`), any white space inside the
    delimiters, any good delimiter set — renders exactly the decimal numerals of `a, a+1, …, b` concatenated.
    No hypothesis about parsing is left: the arguments are parsed by the scanner and grammar model
    (`parse_rangeArgs`). -/
theorem for_range_numerals_source (P : Prims) (O : OutPrims) (cfg : Cfg) (fs : FS) (fuel : Nat) (line : Nat) (env : Env)
    (hO : ∀ n, O.chunks (.int .int n) = .ok [intDec n])
    (ivar : Bytes) (a b : Int) (w1 w2 w3 : Ws)
    (hiv : Lexeme .rIdent ivar) (hnf : ivar ≠ nmForloop)
    (ha : IntKind.i64.inRange a = true) (hb : IntKind.i64.inRange b = true) (hab : a ≤ b) (hsmall : b - a ≤ cfg.budget)
    (hg : GoodDelims (Delims.ofList cfg.delims))
    (hc : Clean (Delims.ofList cfg.delims) (forPrintSrc (rangeArgs ivar a b) ivar w1 w2 w3)) :
    run P O cfg fs fuel (spell (Delims.ofList cfg.delims) (forPrintSrc (rangeArgs ivar a b) ivar w1 w2 w3)) line env =
      .ok ((List.range (b - a + 1).toNat).map (fun k : Nat => intDec (a + k))).flatten := by
  rw [for_range_source P O cfg fs fuel line env hO (rangeArgs ivar a b) ivar a b false none none w1 w2 w3
    (parse_rangeArgs ivar a b hiv ha hb) (parseExprSource_ident ivar hiv) hnf hsmall hg hc, select_plain, rangeItems_decs a b hab]

/-- the same for the standard output layer -/
theorem for_range_numerals_source_std (P : Prims) (cfg : Cfg) (fs : FS) (fuel : Nat) (line : Nat) (env : Env)
    (ivar : Bytes) (a b : Int) (w1 w2 w3 : Ws)
    (hiv : Lexeme .rIdent ivar) (hnf : ivar ≠ nmForloop)
    (ha : IntKind.i64.inRange a = true) (hb : IntKind.i64.inRange b = true) (hab : a ≤ b) (hsmall : b - a ≤ cfg.budget)
    (hg : GoodDelims (Delims.ofList cfg.delims))
    (hc : Clean (Delims.ofList cfg.delims) (forPrintSrc (rangeArgs ivar a b) ivar w1 w2 w3)) :
    run P stdOut cfg fs fuel (spell (Delims.ofList cfg.delims) (forPrintSrc (rangeArgs ivar a b) ivar w1 w2 w3)) line env =
      .ok ((List.range (b - a + 1).toNat).map (fun k : Nat => intDec (a + k))).flatten :=
  for_range_numerals_source P stdOut cfg fs fuel line env stdOut_int ivar a b w1 w2 w3 hiv hnf ha hb hab hsmall hg hc

/-- **C11 (range loop with `reversed`, `offset:`, `limit:`), from source bytes, all literals general.** For integers
    `a`, `b` and optional integers `off`, `lim` (all in the `int64` range), the source

    `{% for i in (a..b) reversed offset: off limit: lim %}{{ i }}{% endfor %}`   (each modifier optional)

    renders the numerals of `selectItems rev off lim [a, …, b]`: reversed first, then the offset skipped, then
    at most `limit` items (`select_spec`). The arguments are parsed by the scanner and grammar model
    (`parse_rangeArgs_mods`); no parsing hypothesis is left. -/
theorem for_range_mods_source (P : Prims) (O : OutPrims) (cfg : Cfg) (fs : FS) (fuel : Nat) (line : Nat) (env : Env)
    (hO : ∀ n, O.chunks (.int .int n) = .ok [intDec n])
    (ivar : Bytes) (a b : Int) (rev : Bool) (off lim : Option Int) (w1 w2 w3 : Ws)
    (hiv : Lexeme .rIdent ivar) (hnf : ivar ≠ nmForloop)
    (ha : IntKind.i64.inRange a = true) (hb : IntKind.i64.inRange b = true)
    (hoff : ∀ o, off = some o → IntKind.i64.inRange o = true) (hlim : ∀ l, lim = some l → IntKind.i64.inRange l = true)
    (hsmall : b - a ≤ cfg.budget)
    (hg : GoodDelims (Delims.ofList cfg.delims))
    (hc : Clean (Delims.ofList cfg.delims) (forPrintSrc (rangeArgs ivar a b ++ modsText rev off lim) ivar w1 w2 w3)) :
    run P O cfg fs fuel (spell (Delims.ofList cfg.delims) (forPrintSrc (rangeArgs ivar a b ++ modsText rev off lim) ivar w1 w2 w3))
      line env = .ok ((selectItems rev off lim (rangeItems a b)).map decOf).flatten :=
  for_range_source P O cfg fs fuel line env hO _ ivar a b rev off lim w1 w2 w3
    (parse_rangeArgs_mods ivar a b rev off lim hiv ha hb hoff hlim) (parseExprSource_ident ivar hiv) hnf hsmall hg hc

/-! ## Non-vacuity, on concrete bytes (default delimiters) -/

theorem lexeme_i : Lexeme .rIdent [105] := Lexeme.word 105 [] [] (by decide) (by decide) (Or.inl rfl)

example : spell Delims.default (forPrintSrc (rangeArgs [105] 8 11) [105] Ws.std Ws.std Ws.std) =
    [123, 37, 32, 102, 111, 114, 32, 105, 32, 105, 110, 32, 40, 56, 46, 46, 49, 49, 41, 32, 37, 125,
     123, 123, 32, 105, 32, 125, 125, 123, 37, 32, 101, 110, 100, 102, 111, 114, 32, 37, 125] := by decide

/-- `{% for i in (8..11) %}{{ i }}{% endfor %}` renders `891011`, in every value layer and environment -/
example (P : Prims) (fs : FS) (env : Env) :
    run P stdOut {} fs 1 [123, 37, 32, 102, 111, 114, 32, 105, 32, 105, 110, 32, 40, 56, 46, 46, 49, 49, 41, 32, 37, 125,
      123, 123, 32, 105, 32, 125, 125, 123, 37, 32, 101, 110, 100, 102, 111, 114, 32, 37, 125] 1 env =
      .ok [56, 57, 49, 48, 49, 49] :=
  for_range_numerals_source_std P {} fs 1 1 env [105] 8 11 Ws.std Ws.std Ws.std lexeme_i (by decide) (by decide) (by decide)
    (by decide) (by decide) (by decide) (by decide)

/-- `{% for i in (-1..1) %}{{ i }}{% endfor %}` renders `-101` -/
example (P : Prims) (fs : FS) (env : Env) :
    run P stdOut {} fs 1 (spell Delims.default (forPrintSrc (rangeArgs [105] (-1) 1) [105] Ws.std Ws.std Ws.std)) 1 env =
      .ok [45, 49, 48, 49] :=
  for_range_numerals_source_std P {} fs 1 1 env [105] (-1) 1 Ws.std Ws.std Ws.std lexeme_i (by decide) (by decide) (by decide)
    (by decide) (by decide) (by decide) (by decide)

/-- `{% for i in (1..5) reversed offset: 1 limit: 3 %}{{ i }}{% endfor %}` renders `432`: reversed first, then the
    offset, then the limit -/
example (P : Prims) (fs : FS) (env : Env) :
    run P stdOut {} fs 1 (spell Delims.default (forPrintSrc
      [105, 32, 105, 110, 32, 40, 49, 46, 46, 53, 41, 32, 114, 101, 118, 101, 114, 115, 101, 100, 32,
       111, 102, 102, 115, 101, 116, 58, 32, 49, 32, 108, 105, 109, 105, 116, 58, 32, 51] [105] Ws.std Ws.std Ws.std)) 1 env =
      .ok [52, 51, 50] :=
  for_range_source P stdOut {} fs 1 1 env stdOut_int _ [105] 1 5 true (some 1) (some 3) Ws.std Ws.std Ws.std rfl rfl (by decide)
    (by decide) (by decide) (by decide)

/-- `{% for i in (1..5) reversed offset: 1 limit: 3 %}{{ i }}{% endfor %}` again, through the general theorem -/
example (P : Prims) (fs : FS) (env : Env) :
    run P stdOut {} fs 1 (spell Delims.default (forPrintSrc (rangeArgs [105] 1 5 ++ modsText true (some 1) (some 3)) [105]
      Ws.std Ws.std Ws.std)) 1 env = .ok [52, 51, 50] :=
  for_range_mods_source P stdOut {} fs 1 1 env stdOut_int [105] 1 5 true (some 1) (some 3) Ws.std Ws.std Ws.std lexeme_i
    (by decide) (by decide) (by decide) (by intro o h; cases h; decide) (by intro o h; cases h; decide) (by decide)
    (by decide) (by decide)
example : rangeArgs [105] 1 5 ++ modsText true (some 1) (some 3) =
    [105, 32, 105, 110, 32, 40, 49, 46, 46, 53, 41, 32, 114, 101, 118, 101, 114, 115, 101, 100, 32,
     111, 102, 102, 115, 101, 116, 58, 32, 49, 32, 108, 105, 109, 105, 116, 58, 32, 51] := by decide

/-! ## The side condition `i ≠ forloop` is needed

`{% for forloop in (1..1) %}{{ forloop }}{% endfor %}`: the loop binds its variable and THEN `forloop` (the record with
`index`, `length`, …), so the body prints the record, not the numeral. With an output layer that prints integers
as their decimal text and nothing else, the output is empty instead of `1` (the standard layer prints the Go map). -/
def intOut : OutPrims := { chunks := fun v => match v with | .int _ n => .ok [intDec n] | _ => .ok [] }

example : ∀ n, intOut.chunks (.int .int n) = .ok [intDec n] := fun _ => rfl

/-- **C11 (counterexample without `i ≠ forloop`).** -/
theorem for_var_named_forloop (P : Prims) (fs : FS) (env : Env) :
    run P intOut {} fs 1 (spell Delims.default (forPrintSrc (rangeArgs nmForloop 1 1) nmForloop Ws.std Ws.std Ws.std)) 1 env = .ok [] := by
  rw [show Delims.default = Delims.ofList ({} : Cfg).delims from rfl, run_spell P intOut {} fs 1 _ 1 env (by decide) (by decide)]
  show runRoot P intOut {} fs 1
    [.loop 1 false nmForloop (.range (.lit (.int .int 1)) (.lit (.int .int 1))) {} [.obj 1 (.var nmForloop)] []] env = _
  simp [runRoot, frender, renderRoot, renderList, renderNode, renderBlockBody, loopRun, loopDispatch, loopIterate, iterateM, tablerowCols,
    intModifier, restoreLoopVars, selectItems, loopItems, rangeItems, wrapAt, wrapFailAt, M.mapFail, M.bind, M.pure, M.getEnv, M.ofRes,
    M.setVar, M.getVar, writeAllM, writeVerbatimM, flushM, Prog.bind, Prog.mapFail, Prog.runPure, bind, pure, mkCtx, evaluate, eval, GoVal.intOf,
    Env.get_set_same, GoVal.unwrap, GoVal.isNil, GoVal.toLiquid, intOut, forloopRec, Status.wrap, statusToProg, Res.bind, List.range,
    List.range.loop]

/-- the budget is a parameter of the executable model, not of the code: beyond it the model gives no answer — under the
    driver's default the range `(0..100001)` has none, under any budget from 100001 on it has (`range_loop_any_size`) -/
example : loopItems ({} : Cfg).budget (.range 0 100001) = .unmodelled "huge range" := by rfl
example : ∃ xs, loopItems 100001 (.range 0 100001) = .ok xs := ⟨_, rfl⟩

/-- non-vacuity of `budget_monotone`: `{% for i in (8..11) %}{{ i }}{% endfor %}` renders `891011` under the budget 3 (the
    smallest that lets the range through), and therefore under every larger budget — in every value layer and environment -/
example (P : Prims) (fs : FS) (env : Env) (m : Int) (hm : 3 ≤ m) :
    run P stdOut { budget := m } fs 1 (spell Delims.default (forPrintSrc (rangeArgs [105] 8 11) [105] Ws.std Ws.std Ws.std)) 1 env =
      .ok [56, 57, 49, 48, 49, 49] := by
  have h0 : run P stdOut { budget := 3 } fs 1 (spell Delims.default (forPrintSrc (rangeArgs [105] 8 11) [105] Ws.std Ws.std Ws.std)) 1 env =
      .ok [56, 57, 49, 48, 49, 49] :=
    for_range_numerals_source_std P { budget := 3 } fs 1 1 env [105] 8 11 Ws.std Ws.std Ws.std lexeme_i (by decide) (by decide)
      (by decide) (by decide) (by decide) (by decide) (by decide)
  have h := budget_monotone P stdOut { budget := 3 } fs 1 _ 1 env m hm (by rw [h0]; intro w hw; cases hw)
  rw [h0] at h
  exact h
