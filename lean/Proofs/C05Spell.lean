import Proofs.C19E2E
import Proofs.E2ERawBody
/-!
# C05 on spelled sources, for every good delimiter set: raw and comment blocks, end to end from bytes

Combines `scan_spell` (the tokenizer reads a clean spelling back), the block parser, the compiler and
the renderer: `run` on the bytes `TL raw TR body… TL endraw TR`.

Since the repair `fixes/raw-comment-lexical` the tokenizer treats raw and comment lexically, and the
theorems at the end of this file hold for EVERY body: any bytes in which no end tag of the block begins
(`raw_body_bytes_emitted`, `comment_body_bytes_dropped`) — unclosed `{%` and `{{` included, which before
the repair swallowed the end tag.
-/

def Item.objArgs : Item → Option Bytes
  | .obj args _ _ _ _ => some args
  | _ => none

/-- the arguments of every object are inside the expression-lexer model (no negative-zero literal) -/
def ObjsModelled (items : List Item) : Prop :=
  firstUnmodelledObj (items.filterMap (fun it => it.objArgs.map (fun a => ({ ty := .obj, args := a } : Token)))) = none

theorem ObjsModelled.spec : ∀ {items : List Item}, ObjsModelled items →
    ∀ it ∈ items, ∀ a, it.objArgs = some a → ∀ w, parseExprSource a ≠ .unmodelled w
  | [], _, it, hit, _, _, _ => by cases hit
  | x :: r, h, it, hit, a, ha, w => by
    unfold ObjsModelled at h
    cases hx : x.objArgs with
    | none =>
      simp only [List.filterMap_cons, hx, Option.map_none] at h
      rcases List.mem_cons.mp hit with rfl | hit
      · rw [hx] at ha; cases ha
      · exact ObjsModelled.spec (items := r) h it hit a ha w
    | some b =>
      simp only [List.filterMap_cons, hx, Option.map_some, firstUnmodelledObj, beq_self_eq_true, if_true] at h
      split at h
      · cases h
      · next hnu =>
        rcases List.mem_cons.mp hit with rfl | hit
        · rw [hx] at ha; cases ha; exact fun e => hnu w e
        · exact ObjsModelled.spec (items := r) h it hit a ha w

theorem block_tokens_shape (d : Delims) (n1 n2 : Bytes) (body : List Item) (hr1 hl2 : Bool) (wl1 wm1 wr1 wl2 wm2 wr2 : Bytes) (line : Nat) :
    ∃ l1 l2, tokensOf d (.tag n1 [] false hr1 wl1 wm1 wr1 :: (body ++ [.tag n2 [] hl2 false wl2 wm2 wr2])) line =
      (Item.tag n1 [] false hr1 wl1 wm1 wr1).mainTok d line ::
        (((if hr1 then [{ ty := .trimR }] else []) ++ (tokensOf d body l1 ++ (if hl2 then [{ ty := .trimL }] else []))) ++
         [(Item.tag n2 [] hl2 false wl2 wm2 wr2).mainTok d l2]) := by
  refine ⟨line + countNL ((Item.tag n1 [] false hr1 wl1 wm1 wr1).spell d),
    line + countNL ((Item.tag n1 [] false hr1 wl1 wm1 wr1).spell d) + countNL (spell d body), ?_⟩
  simp only [tokensOf, tokensOf_append, Item.tokens, Item.mainTok, Bool.false_eq_true, if_false, List.nil_append,
    List.append_nil, List.cons_append, List.append_assoc]

/-- **C05, from source bytes, any good delimiters (raw).** The source `TL raw TR`, a clean body that
    contains no `endraw` tag, `TL endraw TR` renders to exactly the bytes of the body as written — objects,
    tags, hyphens and all. -/
theorem raw_source_renders_body (P : Prims) (O : OutPrims) (cfg : Cfg) (fs : FS) (fuel line : Nat) (env : Env)
    (body : List Item) (hr1 hl2 : Bool) (wl1 wm1 wr1 wl2 wm2 wr2 : Bytes)
    (hg : GoodDelims (Delims.ofList cfg.delims))
    (hc : Clean (Delims.ofList cfg.delims)
      (.tag rawName [] false hr1 wl1 wm1 wr1 :: (body ++ [.tag endrawName [] hl2 false wl2 wm2 wr2])))
    (hb : ∀ it ∈ body, it.tagName ≠ some endrawName) (hU : ObjsModelled body) :
    run P O cfg fs fuel
      (spell (Delims.ofList cfg.delims) (.tag rawName [] false hr1 wl1 wm1 wr1 :: (body ++ [.tag endrawName [] hl2 false wl2 wm2 wr2])))
      line env = .ok (spell (Delims.ofList cfg.delims) body) := by
  rw [run_eq_runTokens, scan_spell cfg.delims _ line hg hc]
  obtain ⟨l1, l2, hshape⟩ := block_tokens_shape (Delims.ofList cfg.delims) rawName endrawName body hr1 hl2 wl1 wm1 wr1 wl2 wm2 wr2 line
  rw [hshape, raw_block_renders_body_sources P O cfg fs fuel env _ _ _ ⟨rfl, rfl⟩ ⟨rfl, rfl⟩]
  · congr 1
    cases hr1 <;> cases hl2 <;> simp [tokensOf_srcs]
  · intro t ht
    have hbody : ∀ t ∈ tokensOf (Delims.ofList cfg.delims) body l1, ¬ (t.ty = .tag ∧ t.name = endrawName) := by
      refine tokensOf_forall _ (fun t => ¬ (t.ty = .tag ∧ t.name = endrawName)) (by intro h; cases h.1) (by intro h; cases h.1)
        body l1 ?_
      intro it hit l h
      have := hb it hit
      cases it with
      | text s => cases h.1
      | obj args hl hr wl wr => cases h.1
      | tag name args hl hr wl wm wr => exact this (by simp only [Item.mainTok] at h; simp [Item.tagName, h.2])
    simp only [List.mem_append] at ht
    rcases ht with ht | ht | ht
    · split at ht
      · simp only [List.mem_singleton] at ht; subst ht; intro h; cases h.1
      · cases ht
    · exact hbody t ht
    · split at ht
      · simp only [List.mem_singleton] at ht; subst ht; intro h; cases h.1
      · cases ht
  · apply firstUnmodelledObj_none_of_forall
    intro t ht
    have hbody : ∀ t ∈ tokensOf (Delims.ofList cfg.delims) body l1, t.ty = .obj → ∀ w, parseExprSource t.args ≠ .unmodelled w := by
      refine tokensOf_forall _ (fun t => t.ty = .obj → ∀ w, parseExprSource t.args ≠ .unmodelled w)
        (by intro h; cases h) (by intro h; cases h) body l1 ?_
      intro it hit l h
      cases it with
      | text s => cases h
      | obj args hl hr wl wr => exact hU.spec _ hit args rfl
      | tag name args hl hr wl wm wr => cases h
    simp only [List.mem_append] at ht
    rcases ht with ht | ht | ht
    · split at ht
      · simp only [List.mem_singleton] at ht; subst ht; intro h; cases h
      · cases ht
    · exact hbody t ht
    · split at ht
      · simp only [List.mem_singleton] at ht; subst ht; intro h; cases h
      · cases ht

/-- **C05, from source bytes, any good delimiters (comment).** The source `TL comment TR`, a clean body
    without an `endcomment` tag, `TL endcomment TR` renders to nothing and is never an error, whatever the
    body holds (objects that are not expressions, unknown or unbalanced tags). -/
theorem comment_source_renders_nothing (P : Prims) (O : OutPrims) (cfg : Cfg) (fs : FS) (fuel line : Nat) (env : Env)
    (body : List Item) (hr1 hl2 : Bool) (wl1 wm1 wr1 wl2 wm2 wr2 : Bytes)
    (hg : GoodDelims (Delims.ofList cfg.delims))
    (hc : Clean (Delims.ofList cfg.delims)
      (.tag commentName [] false hr1 wl1 wm1 wr1 :: (body ++ [.tag endcommentName [] hl2 false wl2 wm2 wr2])))
    (hb : ∀ it ∈ body, it.tagName ≠ some endcommentName) (hU : ObjsModelled body) :
    run P O cfg fs fuel
      (spell (Delims.ofList cfg.delims) (.tag commentName [] false hr1 wl1 wm1 wr1 :: (body ++ [.tag endcommentName [] hl2 false wl2 wm2 wr2])))
      line env = .ok [] := by
  rw [run_eq_runTokens, scan_spell cfg.delims _ line hg hc]
  obtain ⟨l1, l2, hshape⟩ := block_tokens_shape (Delims.ofList cfg.delims) commentName endcommentName body hr1 hl2 wl1 wm1 wr1 wl2 wm2 wr2 line
  rw [hshape, comment_block_renders_nothing P O cfg fs fuel env _ _ _ ⟨rfl, rfl⟩ ⟨rfl, rfl⟩]
  · intro t ht
    have hbody : ∀ t ∈ tokensOf (Delims.ofList cfg.delims) body l1, ¬ (t.ty = .tag ∧ t.name = endcommentName) := by
      refine tokensOf_forall _ (fun t => ¬ (t.ty = .tag ∧ t.name = endcommentName)) (by intro h; cases h.1) (by intro h; cases h.1)
        body l1 ?_
      intro it hit l h
      have := hb it hit
      cases it with
      | text s => cases h.1
      | obj args hl hr wl wr => cases h.1
      | tag name args hl hr wl wm wr => exact this (by simp only [Item.mainTok] at h; simp [Item.tagName, h.2])
    simp only [List.mem_append] at ht
    rcases ht with ht | ht | ht
    · split at ht
      · simp only [List.mem_singleton] at ht; subst ht; intro h; cases h.1
      · cases ht
    · exact hbody t ht
    · split at ht
      · simp only [List.mem_singleton] at ht; subst ht; intro h; cases h.1
      · cases ht
  · apply firstUnmodelledObj_none_of_forall
    intro t ht
    have hbody : ∀ t ∈ tokensOf (Delims.ofList cfg.delims) body l1, t.ty = .obj → ∀ w, parseExprSource t.args ≠ .unmodelled w := by
      refine tokensOf_forall _ (fun t => t.ty = .obj → ∀ w, parseExprSource t.args ≠ .unmodelled w)
        (by intro h; cases h) (by intro h; cases h) body l1 ?_
      intro it hit l h
      cases it with
      | text s => cases h
      | obj args hl hr wl wr => exact hU.spec _ hit args rfl
      | tag name args hl hr wl wm wr => cases h
    simp only [List.mem_append] at ht
    rcases ht with ht | ht | ht
    · split at ht
      · simp only [List.mem_singleton] at ht; subst ht; intro h; cases h
      · cases ht
    · exact hbody t ht
    · split at ht
      · simp only [List.mem_singleton] at ht; subst ht; intro h; cases h
      · cases ht

/-! ## The body as arbitrary bytes -/

/-- **C05, from source bytes, EVERY body (raw).** For every good delimiter set and every byte string `body`
    in which no `endraw` tag begins (`TL -? \s* endraw \s* -? TR`, decided by `endTagAtB`; no other
    condition: the body may hold unclosed or unbalanced delimiters, objects that are not expressions, tags
    of any kind), the source `TL raw TR body TL endraw TR` renders to exactly `body`. -/
theorem raw_body_bytes_emitted (P : Prims) (O : OutPrims) (cfg : Cfg) (fs : FS) (fuel line : Nat) (env : Env)
    (body : Bytes) (hr1 hl2 : Bool) (wl1 wm1 wr1 wl2 wm2 wr2 : Bytes)
    (hg : GoodDelims (Delims.ofList cfg.delims))
    (ho : CleanItem (Delims.ofList cfg.delims) (.tag rawName [] false hr1 wl1 wm1 wr1))
    (hc : CleanItem (Delims.ofList cfg.delims) (.tag endrawName [] hl2 false wl2 wm2 wr2))
    (hin : ∀ i, i < body.length → endTagAtB (Delims.ofList cfg.delims) endrawName
      ((body ++ (Item.tag endrawName [] hl2 false wl2 wm2 wr2).spell (Delims.ofList cfg.delims)).drop i) = false) :
    run P O cfg fs fuel
      ((Item.tag rawName [] false hr1 wl1 wm1 wr1).spell (Delims.ofList cfg.delims) ++
        (body ++ (Item.tag endrawName [] hl2 false wl2 wm2 wr2).spell (Delims.ofList cfg.delims))) line env = .ok body := by
  have hclean := clean_lex_block (Delims.ofList cfg.delims) hg nameRaw (.inl rfl) body false hr1 hl2 false wl1 wm1 wr1 wl2 wm2 wr2 []
    ho ⟨hc, fun h => absurd rfl h, trivial, trivial⟩ (fun i hi => by have := hin i hi; simp only [spell, List.append_nil]; exact this)
  have := raw_source_renders_body P O cfg fs fuel line env (optText body) hr1 hl2 wl1 wm1 wr1 wl2 wm2 wr2 hg hclean
    (by intro it hit; unfold optText at hit; split at hit
        · cases hit
        · simp only [List.mem_singleton] at hit; subst hit; intro h; cases h)
    (by unfold ObjsModelled optText; split <;> rfl)
  rw [spell_optText] at this
  rw [← this, spell_block]
  simp [spell]

/-- **C05, from source bytes, EVERY body (comment).** For every good delimiter set and every byte string
    `body` in which no `endcomment` tag begins, the source `TL comment TR body TL endcomment TR` renders
    to nothing and is never an error. -/
theorem comment_body_bytes_dropped (P : Prims) (O : OutPrims) (cfg : Cfg) (fs : FS) (fuel line : Nat) (env : Env)
    (body : Bytes) (hr1 hl2 : Bool) (wl1 wm1 wr1 wl2 wm2 wr2 : Bytes)
    (hg : GoodDelims (Delims.ofList cfg.delims))
    (ho : CleanItem (Delims.ofList cfg.delims) (.tag commentName [] false hr1 wl1 wm1 wr1))
    (hc : CleanItem (Delims.ofList cfg.delims) (.tag endcommentName [] hl2 false wl2 wm2 wr2))
    (hin : ∀ i, i < body.length → endTagAtB (Delims.ofList cfg.delims) endcommentName
      ((body ++ (Item.tag endcommentName [] hl2 false wl2 wm2 wr2).spell (Delims.ofList cfg.delims)).drop i) = false) :
    run P O cfg fs fuel
      ((Item.tag commentName [] false hr1 wl1 wm1 wr1).spell (Delims.ofList cfg.delims) ++
        (body ++ (Item.tag endcommentName [] hl2 false wl2 wm2 wr2).spell (Delims.ofList cfg.delims))) line env = .ok [] := by
  have hclean := clean_lex_block (Delims.ofList cfg.delims) hg nameComment (.inr rfl) body false hr1 hl2 false wl1 wm1 wr1 wl2 wm2 wr2 []
    ho ⟨hc, fun h => absurd rfl h, trivial, trivial⟩ (fun i hi => by have := hin i hi; simp only [spell, List.append_nil]; exact this)
  have := comment_source_renders_nothing P O cfg fs fuel line env (optText body) hr1 hl2 wl1 wm1 wr1 wl2 wm2 wr2 hg hclean
    (by intro it hit; unfold optText at hit; split at hit
        · cases hit
        · simp only [List.mem_singleton] at hit; subst hit; intro h; cases h)
    (by unfold ObjsModelled optText; split <;> rfl)
  rw [← this, spell_block]
  simp [spell]

/-! The former counterexamples (K-C05-raw-unclosed-delimiter, K-C05-comment-unclosed-delimiter): bodies with an opening
    delimiter that is not closed inside the body. -/
def exStdTag (n : Bytes) : Item := .tag n [] false false [32] [] [32]

/-- `{% raw %}{% b {% endraw %}` renders to `{% b ` -/
example : run stdPrims stdOut {} (fsOfList []) 1
    ((exStdTag rawName).spell Delims.default ++ ([123, 37, 32, 98, 32] ++ (exStdTag endrawName).spell Delims.default)) 1 []
    = .ok [123, 37, 32, 98, 32] :=
  raw_body_bytes_emitted stdPrims stdOut {} (fsOfList []) 1 1 [] [123, 37, 32, 98, 32] false false [32] [] [32] [32] [] [32]
    (by decide) (by decide) (by decide) (by decide)
/-- `{% raw %}a {{ x {% endraw %}` renders to `a {{ x ` -/
example : run stdPrims stdOut {} (fsOfList []) 1
    ((exStdTag rawName).spell Delims.default ++ ([97, 32, 123, 123, 32, 120, 32] ++ (exStdTag endrawName).spell Delims.default)) 1 []
    = .ok [97, 32, 123, 123, 32, 120, 32] :=
  raw_body_bytes_emitted stdPrims stdOut {} (fsOfList []) 1 1 [] [97, 32, 123, 123, 32, 120, 32] false false [32] [] [32] [32] [] [32]
    (by decide) (by decide) (by decide) (by decide)
/-- `{% raw %}%}\t{%b c{{- x -}}{% endraw %}` renders to `%}\t{%b c{{- x -}}` -/
example : run stdPrims stdOut {} (fsOfList []) 1
    ((exStdTag rawName).spell Delims.default ++
      ([37, 125, 9, 123, 37, 98, 32, 99, 123, 123, 45, 32, 120, 32, 45, 125, 125] ++ (exStdTag endrawName).spell Delims.default)) 1 []
    = .ok [37, 125, 9, 123, 37, 98, 32, 99, 123, 123, 45, 32, 120, 32, 45, 125, 125] :=
  raw_body_bytes_emitted stdPrims stdOut {} (fsOfList []) 1 1 [] [37, 125, 9, 123, 37, 98, 32, 99, 123, 123, 45, 32, 120, 32, 45, 125, 125]
    false false [32] [] [32] [32] [] [32] (by decide) (by decide) (by decide) (by decide)
/-- `{% comment %}{% if {% endcomment %}` renders to nothing -/
example : run stdPrims stdOut {} (fsOfList []) 1
    ((exStdTag commentName).spell Delims.default ++ ([123, 37, 32, 105, 102, 32] ++ (exStdTag endcommentName).spell Delims.default)) 1 []
    = .ok [] :=
  comment_body_bytes_dropped stdPrims stdOut {} (fsOfList []) 1 1 [] [123, 37, 32, 105, 102, 32] false false [32] [] [32] [32] [] [32]
    (by decide) (by decide) (by decide) (by decide)
/-- the same under `<< >> [ ]`, with hyphens: `[ raw-]<<- x | >>[ if [-endraw ]` renders to `<<- x | >>[ if ` -/
example : run stdPrims stdOut { delims := [[60, 60], [62, 62], [91], [93]] } (fsOfList []) 1
    ((Item.tag rawName [] false true [32] [] []).spell exDelims ++
      ([60, 60, 45, 32, 120, 32, 124, 32, 62, 62, 91, 32, 105, 102, 32] ++ (Item.tag endrawName [] true false [] [] [32]).spell exDelims)) 1 []
    = .ok [60, 60, 45, 32, 120, 32, 124, 32, 62, 62, 91, 32, 105, 102, 32] :=
  raw_body_bytes_emitted stdPrims stdOut { delims := [[60, 60], [62, 62], [91], [93]] } (fsOfList []) 1 1 []
    [60, 60, 45, 32, 120, 32, 124, 32, 62, 62, 91, 32, 105, 102, 32] true true [32] [] [] [] [] [32]
    (by decide) (by decide) (by decide) (by decide)

/-! ## The block ends at the FIRST end tag; what stands before and after -/

/-- **C05 (raw and comment are lexical: the tokens).** For every good delimiter set: an optional clean text `T1`,
    the opening tag of a raw or comment block, ANY bytes `body` in which no end tag of the block begins, the end
    tag, and any clean remainder `post` — which may hold further end tags: the block ends at the FIRST one — are
    tokenized as: the text, the opening tag (with its trim markers), ONE text token holding `body` (none when it is
    empty), the end tag, and the tokens of `post`, with the line numbers of `scan_lines`. -/
theorem lex_block_tokens (delims : List Bytes) (nm : Bytes) (hnm : nm = rawName ∨ nm = commentName) (T1 body : Bytes)
    (hl1 hr1 hl2 hr2 : Bool) (wl1 wm1 wr1 wl2 wm2 wr2 : Bytes) (post : List Item) (line : Nat)
    (hg : GoodDelims (Delims.ofList delims))
    (hT1 : ∀ i, i < T1.length →
      ¬ (Delims.ofList delims).ol <+: (T1 ++ spell (Delims.ofList delims)
          (.tag nm [] hl1 hr1 wl1 wm1 wr1 :: (optText body ++ .tag (endPrefix ++ nm) [] hl2 hr2 wl2 wm2 wr2 :: post))).drop i ∧
      ¬ (Delims.ofList delims).tl <+: (T1 ++ spell (Delims.ofList delims)
          (.tag nm [] hl1 hr1 wl1 wm1 wr1 :: (optText body ++ .tag (endPrefix ++ nm) [] hl2 hr2 wl2 wm2 wr2 :: post))).drop i)
    (ho : CleanItem (Delims.ofList delims) (.tag nm [] hl1 hr1 wl1 wm1 wr1))
    (hpost : Clean (Delims.ofList delims) (.tag (endPrefix ++ nm) [] hl2 hr2 wl2 wm2 wr2 :: post))
    (hin : ∀ i, i < body.length → endTagAtB (Delims.ofList delims) (endPrefix ++ nm)
      ((body ++ spell (Delims.ofList delims) (.tag (endPrefix ++ nm) [] hl2 hr2 wl2 wm2 wr2 :: post)).drop i) = false) :
    scan delims (T1 ++ ((Item.tag nm [] hl1 hr1 wl1 wm1 wr1).spell (Delims.ofList delims) ++
        (body ++ spell (Delims.ofList delims) (.tag (endPrefix ++ nm) [] hl2 hr2 wl2 wm2 wr2 :: post)))) line =
      tokensOf (Delims.ofList delims)
        (optText T1 ++ .tag nm [] hl1 hr1 wl1 wm1 wr1 :: (optText body ++ .tag (endPrefix ++ nm) [] hl2 hr2 wl2 wm2 wr2 :: post)) line := by
  have hblock := clean_lex_block (Delims.ofList delims) hg nm hnm body hl1 hr1 hl2 hr2 wl1 wm1 wr1 wl2 wm2 wr2 post ho hpost hin
  have hclean : Clean (Delims.ofList delims)
      (optText T1 ++ .tag nm [] hl1 hr1 wl1 wm1 wr1 :: (optText body ++ .tag (endPrefix ++ nm) [] hl2 hr2 wl2 wm2 wr2 :: post)) := by
    unfold optText
    split
    · exact hblock
    · next hne => exact ⟨hne, trivial, ⟨hT1, rfl⟩, hblock⟩
  have := scan_spell delims _ line hg hclean
  rw [spell_append, spell_optText, spell_block] at this
  exact this

/-- the token list of `lex_block_tokens`, written out -/
theorem lex_block_tokens_explicit (d : Delims) (nm T1 body : Bytes) (hl1 hr1 hl2 hr2 : Bool) (wl1 wm1 wr1 wl2 wm2 wr2 : Bytes)
    (post : List Item) (line : Nat) :
    tokensOf d (optText T1 ++ .tag nm [] hl1 hr1 wl1 wm1 wr1 :: (optText body ++ .tag (endPrefix ++ nm) [] hl2 hr2 wl2 wm2 wr2 :: post)) line =
      (if T1 = [] then [] else [{ ty := .text, line := line, source := T1 }]) ++
      ((Item.tag nm [] hl1 hr1 wl1 wm1 wr1).tokens d (line + countNL T1) ++
       ((if body = [] then [] else [{ ty := .text, line := line + countNL T1 + countNL ((Item.tag nm [] hl1 hr1 wl1 wm1 wr1).spell d),
                                      source := body }]) ++
        ((Item.tag (endPrefix ++ nm) [] hl2 hr2 wl2 wm2 wr2).tokens d
            (line + countNL T1 + countNL ((Item.tag nm [] hl1 hr1 wl1 wm1 wr1).spell d) + countNL body) ++
         tokensOf d post (line + countNL T1 + countNL ((Item.tag nm [] hl1 hr1 wl1 wm1 wr1).spell d) + countNL body +
            countNL ((Item.tag (endPrefix ++ nm) [] hl2 hr2 wl2 wm2 wr2).spell d))))) := by
  have hopt : ∀ (b : Bytes) (l : Nat), tokensOf d (optText b) l = if b = [] then [] else [{ ty := .text, line := l, source := b }] := by
    intro b l; unfold optText; split <;> simp [tokensOf, Item.tokens]
  simp only [tokensOf_append, tokensOf, spell_optText, hopt, List.append_assoc, List.cons_append, spell, Item.spell, List.append_nil]

/-- `p{% raw %}a {{ x {% endraw %}q{% endraw %}`: the block ends at the first `endraw`; the second one is an
    ordinary tag (which the block parser then rejects) -/
example : (scan [] ([112] ++ ((exStdTag rawName).spell Delims.default ++
    ([97, 32, 123, 123, 32, 120, 32] ++ spell Delims.default [exStdTag endrawName, .text [113], exStdTag endrawName]))) 1).map (fun t => (t.ty, t.source)) =
    [(.text, [112]), (.tag, (exStdTag rawName).spell Delims.default), (.text, [97, 32, 123, 123, 32, 120, 32]),
     (.tag, (exStdTag endrawName).spell Delims.default), (.text, [113]), (.tag, (exStdTag endrawName).spell Delims.default)] := by
  have h := lex_block_tokens [] rawName (.inl rfl) [112] [97, 32, 123, 123, 32, 120, 32] false false false false [32] [] [32] [32] [] [32]
      [.text [113], exStdTag endrawName] 1 (by decide) (by decide) (by decide) (by decide) (by decide)
  refine (congrArg (List.map (fun t => (t.ty, t.source))) h).trans ?_
  decide

/-- **C05, from source bytes: a comment block anywhere contributes nothing.** Between ANY clean items `pre` (which the
    block parser leaves outside comment/raw, or rejects) and `post`, a comment block whose body is ANY bytes (a text
    item; `Clean` only asks that no `endcomment` tag begins inside it) can be deleted from the token list without
    changing the result of the pipeline. -/
theorem comment_block_anywhere (P : Prims) (O : OutPrims) (cfg : Cfg) (fs : FS) (fuel line : Nat) (env : Env)
    (pre post : List Item) (body : Bytes) (wl1 wm1 wr1 wl2 wm2 wr2 : Bytes)
    (hg : GoodDelims (Delims.ofList cfg.delims))
    (hc : Clean (Delims.ofList cfg.delims)
      (pre ++ .tag commentName [] false false wl1 wm1 wr1 :: (optText body ++ .tag endcommentName [] false false wl2 wm2 wr2 :: post)))
    (hpre : ∀ s, parseLoop stdGrammar objChk {} (tokensOf (Delims.ofList cfg.delims) pre line) = .ok s → s.mode = .normal) :
    run P O cfg fs fuel (spell (Delims.ofList cfg.delims)
      (pre ++ .tag commentName [] false false wl1 wm1 wr1 :: (optText body ++ .tag endcommentName [] false false wl2 wm2 wr2 :: post))) line env =
      runTokens P O cfg fs fuel (tokensOf (Delims.ofList cfg.delims) pre line ++ tokensOf (Delims.ofList cfg.delims) post
        (line + countNL (spell (Delims.ofList cfg.delims)
          (pre ++ [.tag commentName [] false false wl1 wm1 wr1] ++ optText body ++ [.tag endcommentName [] false false wl2 wm2 wr2])))) env := by
  rw [run_eq_runTokens, scan_spell cfg.delims _ line hg hc, tokensOf_append]
  have hb : tokensOf (Delims.ofList cfg.delims)
      (.tag commentName [] false false wl1 wm1 wr1 :: (optText body ++ .tag endcommentName [] false false wl2 wm2 wr2 :: post))
      (line + countNL (spell (Delims.ofList cfg.delims) pre)) =
      (Item.tag commentName [] false false wl1 wm1 wr1).mainTok (Delims.ofList cfg.delims) (line + countNL (spell (Delims.ofList cfg.delims) pre)) ::
        (tokensOf (Delims.ofList cfg.delims) (optText body)
            (line + countNL (spell (Delims.ofList cfg.delims) pre) +
              countNL ((Item.tag commentName [] false false wl1 wm1 wr1).spell (Delims.ofList cfg.delims))) ++
          (Item.tag endcommentName [] false false wl2 wm2 wr2).mainTok (Delims.ofList cfg.delims)
            (line + countNL (spell (Delims.ofList cfg.delims) pre) +
              countNL ((Item.tag commentName [] false false wl1 wm1 wr1).spell (Delims.ofList cfg.delims)) +
              countNL (spell (Delims.ofList cfg.delims) (optText body))) ::
            tokensOf (Delims.ofList cfg.delims) post
              (line + countNL (spell (Delims.ofList cfg.delims)
                (pre ++ [.tag commentName [] false false wl1 wm1 wr1] ++ optText body ++ [.tag endcommentName [] false false wl2 wm2 wr2])))) := by
    simp only [tokensOf, tokensOf_append, Item.tokens, Item.mainTok, Bool.false_eq_true, if_false, List.nil_append, List.append_nil,
      List.cons_append, List.append_assoc, spell_append, spell, countNL_append, Nat.add_assoc]
  rw [hb]
  refine comment_block_erased P O cfg fs fuel env _ _ _ _ _ hpre ⟨rfl, rfl⟩ ⟨rfl, rfl⟩ ?_ ?_
  · intro t ht
    unfold optText at ht
    split at ht
    · cases ht
    · simp only [tokensOf, Item.tokens, List.append_nil, List.mem_singleton] at ht
      subst ht; intro h; cases h.1
  · unfold optText
    split <;> rfl
