import Proofs.C19E2E
import Proofs.E2ERawBody
/-!
# C05 on spelled sources, for every good delimiter set: raw and comment blocks, end to end from bytes

Combines `scan_spell` (the tokenizer reads a clean spelling back), the block parser, the compiler and
the renderer: `run` on the bytes `TL raw TR body… TL endraw TR`.

Since the repair `fixes/raw-comment-lexical` the tokenizer treats raw and comment lexically, and the
theorems at the end of this file hold for EVERY body: any bytes in which no end tag of the block begins
(`raw_body_bytes_emitted`, `comment_body_bytes_dropped`) — unclosed `{%` and `{{` included, which before
the repair swallowed the end tag.
-/

def Item.objArgs : Item → Option Bytes
  | .obj args _ _ _ _ => some args
  | _ => none

/-- the arguments of every object are inside the expression-lexer model (no negative-zero literal) -/
def ObjsModelled (items : List Item) : Prop :=
  firstUnmodelledObj (items.filterMap (fun it => it.objArgs.map (fun a => ({ ty := .obj, args := a } : Token)))) = none

theorem ObjsModelled.spec : ∀ {items : List Item}, ObjsModelled items →
    ∀ it ∈ items, ∀ a, it.objArgs = some a → ∀ w, parseExprSource a ≠ .unmodelled w
  | [], _, it, hit, _, _, _ => by cases hit
  | x :: r, h, it, hit, a, ha, w => by
    unfold ObjsModelled at h
    cases hx : x.objArgs with
    | none =>
      simp only [List.filterMap_cons, hx, Option.map_none] at h
      rcases List.mem_cons.mp hit with rfl | hit
      · rw [hx] at ha; cases ha
      · exact ObjsModelled.spec (items := r) h it hit a ha w
    | some b =>
      simp only [List.filterMap_cons, hx, Option.map_some, firstUnmodelledObj, beq_self_eq_true, if_true] at h
      split at h
      · cases h
      · next hnu =>
        rcases List.mem_cons.mp hit with rfl | hit
        · rw [hx] at ha; cases ha; exact fun e => hnu w e
        · exact ObjsModelled.spec (items := r) h it hit a ha w

theorem block_tokens_shape (d : Delims) (n1 n2 : Bytes) (body : List Item) (hr1 hl2 : Bool) (wl1 wm1 wr1 wl2 wm2 wr2 : Bytes) (line : Nat) :
    ∃ l1 l2, tokensOf d (.tag n1 [] false hr1 wl1 wm1 wr1 :: (body ++ [.tag n2 [] hl2 false wl2 wm2 wr2])) line =
      (Item.tag n1 [] false hr1 wl1 wm1 wr1).mainTok d line ::
        (((if hr1 then [{ ty := .trimR }] else []) ++ (tokensOf d body l1 ++ (if hl2 then [{ ty := .trimL }] else []))) ++
         [(Item.tag n2 [] hl2 false wl2 wm2 wr2).mainTok d l2]) := by
  refine ⟨line + countNL ((Item.tag n1 [] false hr1 wl1 wm1 wr1).spell d),
    line + countNL ((Item.tag n1 [] false hr1 wl1 wm1 wr1).spell d) + countNL (spell d body), ?_⟩
  simp only [tokensOf, tokensOf_append, Item.tokens, Item.mainTok, Bool.false_eq_true, if_false, List.nil_append,
    List.append_nil, List.cons_append, List.append_assoc]

/-- **C05, from source bytes, any good delimiters (raw).** The source `TL raw TR`, a clean body that
    contains no `endraw` tag, `TL endraw TR` renders to exactly the bytes of the body as written — objects,
    tags, hyphens and all. -/
theorem raw_source_renders_body (P : Prims) (O : OutPrims) (cfg : Cfg) (fs : FS) (fuel line : Nat) (env : Env)
    (body : List Item) (hr1 hl2 : Bool) (wl1 wm1 wr1 wl2 wm2 wr2 : Bytes)
    (hg : GoodDelims (Delims.ofList cfg.delims))
    (hc : Clean (Delims.ofList cfg.delims)
      (.tag rawName [] false hr1 wl1 wm1 wr1 :: (body ++ [.tag endrawName [] hl2 false wl2 wm2 wr2])))
    (hb : ∀ it ∈ body, it.tagName ≠ some endrawName) (hU : ObjsModelled body) :
    run P O cfg fs fuel
      (spell (Delims.ofList cfg.delims) (.tag rawName [] false hr1 wl1 wm1 wr1 :: (body ++ [.tag endrawName [] hl2 false wl2 wm2 wr2])))
      line env = .ok (spell (Delims.ofList cfg.delims) body) := by
  rw [run_eq_runTokens, scan_spell cfg.delims _ line hg hc]
  obtain ⟨l1, l2, hshape⟩ := block_tokens_shape (Delims.ofList cfg.delims) rawName endrawName body hr1 hl2 wl1 wm1 wr1 wl2 wm2 wr2 line
  rw [hshape, raw_block_renders_body_sources P O cfg fs fuel env _ _ _ ⟨rfl, rfl⟩ ⟨rfl, rfl⟩]
  · congr 1
    cases hr1 <;> cases hl2 <;> simp [tokensOf_srcs]
  · intro t ht
    have hbody : ∀ t ∈ tokensOf (Delims.ofList cfg.delims) body l1, ¬ (t.ty = .tag ∧ t.name = endrawName) := by
      refine tokensOf_forall _ (fun t => ¬ (t.ty = .tag ∧ t.name = endrawName)) (by intro h; cases h.1) (by intro h; cases h.1)
        body l1 ?_
      intro it hit l h
      have := hb it hit
      cases it with
      | text s => cases h.1
      | obj args hl hr wl wr => cases h.1
      | tag name args hl hr wl wm wr => exact this (by simp only [Item.mainTok] at h; simp [Item.tagName, h.2])
    simp only [List.mem_append] at ht
    rcases ht with ht | ht | ht
    · split at ht
      · simp only [List.mem_singleton] at ht; subst ht; intro h; cases h.1
      · cases ht
    · exact hbody t ht
    · split at ht
      · simp only [List.mem_singleton] at ht; subst ht; intro h; cases h.1
      · cases ht
  · apply firstUnmodelledObj_none_of_forall
    intro t ht
    have hbody : ∀ t ∈ tokensOf (Delims.ofList cfg.delims) body l1, t.ty = .obj → ∀ w, parseExprSource t.args ≠ .unmodelled w := by
      refine tokensOf_forall _ (fun t => t.ty = .obj → ∀ w, parseExprSource t.args ≠ .unmodelled w)
        (by intro h; cases h) (by intro h; cases h) body l1 ?_
      intro it hit l h
      cases it with
      | text s => cases h
      | obj args hl hr wl wr => exact hU.spec _ hit args rfl
      | tag name args hl hr wl wm wr => cases h
    simp only [List.mem_append] at ht
    rcases ht with ht | ht | ht
    · split at ht
      · simp only [List.mem_singleton] at ht; subst ht; intro h; cases h
      · cases ht
    · exact hbody t ht
    · split at ht
      · simp only [List.mem_singleton] at ht; subst ht; intro h; cases h
      · cases ht

/-- **C05, from source bytes, any good delimiters (comment).** The source `TL comment TR`, a clean body
    without an `endcomment` tag, `TL endcomment TR` renders to nothing and is never an error, whatever the
    body holds (objects that are not expressions, unknown or unbalanced tags). -/
theorem comment_source_renders_nothing (P : Prims) (O : OutPrims) (cfg : Cfg) (fs : FS) (fuel line : Nat) (env : Env)
    (body : List Item) (hr1 hl2 : Bool) (wl1 wm1 wr1 wl2 wm2 wr2 : Bytes)
    (hg : GoodDelims (Delims.ofList cfg.delims))
    (hc : Clean (Delims.ofList cfg.delims)
      (.tag commentName [] false hr1 wl1 wm1 wr1 :: (body ++ [.tag endcommentName [] hl2 false wl2 wm2 wr2])))
    (hb : ∀ it ∈ body, it.tagName ≠ some endcommentName) (hU : ObjsModelled body) :
    run P O cfg fs fuel
      (spell (Delims.ofList cfg.delims) (.tag commentName [] false hr1 wl1 wm1 wr1 :: (body ++ [.tag endcommentName [] hl2 false wl2 wm2 wr2])))
      line env = .ok [] := by
  rw [run_eq_runTokens, scan_spell cfg.delims _ line hg hc]
  obtain ⟨l1, l2, hshape⟩ := block_tokens_shape (Delims.ofList cfg.delims) commentName endcommentName body hr1 hl2 wl1 wm1 wr1 wl2 wm2 wr2 line
  rw [hshape, comment_block_renders_nothing P O cfg fs fuel env _ _ _ ⟨rfl, rfl⟩ ⟨rfl, rfl⟩]
  · intro t ht
    have hbody : ∀ t ∈ tokensOf (Delims.ofList cfg.delims) body l1, ¬ (t.ty = .tag ∧ t.name = endcommentName) := by
      refine tokensOf_forall _ (fun t => ¬ (t.ty = .tag ∧ t.name = endcommentName)) (by intro h; cases h.1) (by intro h; cases h.1)
        body l1 ?_
      intro it hit l h
      have := hb it hit
      cases it with
      | text s => cases h.1
      | obj args hl hr wl wr => cases h.1
      | tag name args hl hr wl wm wr => exact this (by simp only [Item.mainTok] at h; simp [Item.tagName, h.2])
    simp only [List.mem_append] at ht
    rcases ht with ht | ht | ht
    · split at ht
      · simp only [List.mem_singleton] at ht; subst ht; intro h; cases h.1
      · cases ht
    · exact hbody t ht
    · split at ht
      · simp only [List.mem_singleton] at ht; subst ht; intro h; cases h.1
      · cases ht
  · apply firstUnmodelledObj_none_of_forall
    intro t ht
    have hbody : ∀ t ∈ tokensOf (Delims.ofList cfg.delims) body l1, t.ty = .obj → ∀ w, parseExprSource t.args ≠ .unmodelled w := by
      refine tokensOf_forall _ (fun t => t.ty = .obj → ∀ w, parseExprSource t.args ≠ .unmodelled w)
        (by intro h; cases h) (by intro h; cases h) body l1 ?_
      intro it hit l h
      cases it with
      | text s => cases h
      | obj args hl hr wl wr => exact hU.spec _ hit args rfl
      | tag name args hl hr wl wm wr => cases h
    simp only [List.mem_append] at ht
    rcases ht with ht | ht | ht
    · split at ht
      · simp only [List.mem_singleton] at ht; subst ht; intro h; cases h
      · cases ht
    · exact hbody t ht
    · split at ht
      · simp only [List.mem_singleton] at ht; subst ht; intro h; cases h
      · cases ht

/-! ## The body as arbitrary bytes -/

/-- **C05, from source bytes, EVERY body (raw).** For every good delimiter set and every byte string `body`
    in which no `endraw` tag begins (`TL -? \s* endraw \s* -? TR`, decided by `endTagAtB`; no other
    condition: the body may hold unclosed or unbalanced delimiters, objects that are not expressions, tags
    of any kind), the source `TL raw TR body TL endraw TR` renders to exactly `body`. -/
theorem raw_body_bytes_emitted (P : Prims) (O : OutPrims) (cfg : Cfg) (fs : FS) (fuel line : Nat) (env : Env)
    (body : Bytes) (hr1 hl2 : Bool) (wl1 wm1 wr1 wl2 wm2 wr2 : Bytes)
    (hg : GoodDelims (Delims.ofList cfg.delims))
    (ho : CleanItem (Delims.ofList cfg.delims) (.tag rawName [] false hr1 wl1 wm1 wr1))
    (hc : CleanItem (Delims.ofList cfg.delims) (.tag endrawName [] hl2 false wl2 wm2 wr2))
    (hin : ∀ i, i < body.length → endTagAtB (Delims.ofList cfg.delims) endrawName
      ((body ++ (Item.tag endrawName [] hl2 false wl2 wm2 wr2).spell (Delims.ofList cfg.delims)).drop i) = false) :
    run P O cfg fs fuel
      ((Item.tag rawName [] false hr1 wl1 wm1 wr1).spell (Delims.ofList cfg.delims) ++
        (body ++ (Item.tag endrawName [] hl2 false wl2 wm2 wr2).spell (Delims.ofList cfg.delims))) line env = .ok body := by
  have hclean := clean_lex_block (Delims.ofList cfg.delims) hg nameRaw (.inl rfl) body false hr1 hl2 false wl1 wm1 wr1 wl2 wm2 wr2 []
    ho ⟨hc, fun h => absurd rfl h, trivial, trivial⟩ (fun i hi => by have := hin i hi; simp only [spell, List.append_nil]; exact this)
  have := raw_source_renders_body P O cfg fs fuel line env (optText body) hr1 hl2 wl1 wm1 wr1 wl2 wm2 wr2 hg hclean
    (by intro it hit; unfold optText at hit; split at hit
        · cases hit
        · simp only [List.mem_singleton] at hit; subst hit; intro h; cases h)
    (by unfold ObjsModelled optText; split <;> rfl)
  rw [spell_optText] at this
  rw [← this, spell_block]
  simp [spell]

/-- **C05, from source bytes, EVERY body (comment).** For every good delimiter set and every byte string
    `body` in which no `endcomment` tag begins, the source `TL comment TR body TL endcomment TR` renders
    to nothing and is never an error. -/
theorem comment_body_bytes_dropped (P : Prims) (O : OutPrims) (cfg : Cfg) (fs : FS) (fuel line : Nat) (env : Env)
    (body : Bytes) (hr1 hl2 : Bool) (wl1 wm1 wr1 wl2 wm2 wr2 : Bytes)
    (hg : GoodDelims (Delims.ofList cfg.delims))
    (ho : CleanItem (Delims.ofList cfg.delims) (.tag commentName [] false hr1 wl1 wm1 wr1))
    (hc : CleanItem (Delims.ofList cfg.delims) (.tag endcommentName [] hl2 false wl2 wm2 wr2))
    (hin : ∀ i, i < body.length → endTagAtB (Delims.ofList cfg.delims) endcommentName
      ((body ++ (Item.tag endcommentName [] hl2 false wl2 wm2 wr2).spell (Delims.ofList cfg.delims)).drop i) = false) :
    run P O cfg fs fuel
      ((Item.tag commentName [] false hr1 wl1 wm1 wr1).spell (Delims.ofList cfg.delims) ++
        (body ++ (Item.tag endcommentName [] hl2 false wl2 wm2 wr2).spell (Delims.ofList cfg.delims))) line env = .ok [] := by
  have hclean := clean_lex_block (Delims.ofList cfg.delims) hg nameComment (.inr rfl) body false hr1 hl2 false wl1 wm1 wr1 wl2 wm2 wr2 []
    ho ⟨hc, fun h => absurd rfl h, trivial, trivial⟩ (fun i hi => by have := hin i hi; simp only [spell, List.append_nil]; exact this)
  have := comment_source_renders_nothing P O cfg fs fuel line env (optText body) hr1 hl2 wl1 wm1 wr1 wl2 wm2 wr2 hg hclean
    (by intro it hit; unfold optText at hit; split at hit
        · cases hit
        · simp only [List.mem_singleton] at hit; subst hit; intro h; cases h)
    (by unfold ObjsModelled optText; split <;> rfl)
  rw [← this, spell_block]
  simp [spell]

/-! The former counterexamples (K-C05-raw-unclosed-delimiter, K-C05-comment-unclosed-delimiter): bodies with an opening
    delimiter that is not closed inside the body. -/
def exStdTag (n : Bytes) : Item := .tag n [] false false [32] [] [32]

/-- `{% raw %}{% b {% endraw %}` renders to `{% b ` -/
example : run stdPrims stdOut {} (fsOfList []) 1
    ((exStdTag rawName).spell Delims.default ++ ([123, 37, 32, 98, 32] ++ (exStdTag endrawName).spell Delims.default)) 1 []
    = .ok [123, 37, 32, 98, 32] :=
  raw_body_bytes_emitted stdPrims stdOut {} (fsOfList []) 1 1 [] [123, 37, 32, 98, 32] false false [32] [] [32] [32] [] [32]
    (by decide) (by decide) (by decide) (by decide)
/-- `{% raw %}a {{ x {% endraw %}` renders to `a {{ x ` -/
example : run stdPrims stdOut {} (fsOfList []) 1
    ((exStdTag rawName).spell Delims.default ++ ([97, 32, 123, 123, 32, 120, 32] ++ (exStdTag endrawName).spell Delims.default)) 1 []
    = .ok [97, 32, 123, 123, 32, 120, 32] :=
  raw_body_bytes_emitted stdPrims stdOut {} (fsOfList []) 1 1 [] [97, 32, 123, 123, 32, 120, 32] false false [32] [] [32] [32] [] [32]
    (by decide) (by decide) (by decide) (by decide)
/-- `{% raw %}%}\t{%b c{{- x -}}{% endraw %}` renders to `%}\t{%b c{{- x -}}` -/
example : run stdPrims stdOut {} (fsOfList []) 1
    ((exStdTag rawName).spell Delims.default ++
      ([37, 125, 9, 123, 37, 98, 32, 99, 123, 123, 45, 32, 120, 32, 45, 125, 125] ++ (exStdTag endrawName).spell Delims.default)) 1 []
    = .ok [37, 125, 9, 123, 37, 98, 32, 99, 123, 123, 45, 32, 120, 32, 45, 125, 125] :=
  raw_body_bytes_emitted stdPrims stdOut {} (fsOfList []) 1 1 [] [37, 125, 9, 123, 37, 98, 32, 99, 123, 123, 45, 32, 120, 32, 45, 125, 125]
    false false [32] [] [32] [32] [] [32] (by decide) (by decide) (by decide) (by decide)
/-- `{% comment %}{% if {% endcomment %}` renders to nothing -/
example : run stdPrims stdOut {} (fsOfList []) 1
    ((exStdTag commentName).spell Delims.default ++ ([123, 37, 32, 105, 102, 32] ++ (exStdTag endcommentName).spell Delims.default)) 1 []
    = .ok [] :=
  comment_body_bytes_dropped stdPrims stdOut {} (fsOfList []) 1 1 [] [123, 37, 32, 105, 102, 32] false false [32] [] [32] [32] [] [32]
    (by decide) (by decide) (by decide) (by decide)
/-- the same under `<< >> [ ]`, with hyphens: `[ raw-]<<- x | >>[ if [-endraw ]` renders to `<<- x | >>[ if ` -/
example : run stdPrims stdOut { delims := [[60, 60], [62, 62], [91], [93]] } (fsOfList []) 1
    ((Item.tag rawName [] false true [32] [] []).spell exDelims ++
      ([60, 60, 45, 32, 120, 32, 124, 32, 62, 62, 91, 32, 105, 102, 32] ++ (Item.tag endrawName [] true false [] [] [32]).spell exDelims)) 1 []
    = .ok [60, 60, 45, 32, 120, 32, 124, 32, 62, 62, 91, 32, 105, 102, 32] :=
  raw_body_bytes_emitted stdPrims stdOut { delims := [[60, 60], [62, 62], [91], [93]] } (fsOfList []) 1 1 []
    [60, 60, 45, 32, 120, 32, 124, 32, 62, 62, 91, 32, 105, 102, 32] true true [32] [] [] [] [] [32]
    (by decide) (by decide) (by decide) (by decide)
