import Proofs.C19E2E
/-!
# C05 on spelled sources, for every good delimiter set: raw and comment blocks, end to end from bytes

Combines `scan_spell` (the tokenizer reads a clean spelling back), the block parser, the compiler and
the renderer: `run` on the bytes `TL raw TR body… TL endraw TR`.
-/

def Item.objArgs : Item → Option Bytes
  | .obj args _ _ _ _ => some args
  | _ => none

def Item.tagName : Item → Option Bytes
  | .tag name _ _ _ _ _ _ => some name
  | _ => none

/-- the arguments of every object are inside the expression-lexer model (no negative-zero literal) -/
def ObjsModelled (items : List Item) : Prop :=
  firstUnmodelledObj (items.filterMap (fun it => it.objArgs.map (fun a => ({ ty := .obj, args := a } : Token)))) = none

theorem ObjsModelled.spec : ∀ {items : List Item}, ObjsModelled items →
    ∀ it ∈ items, ∀ a, it.objArgs = some a → ∀ w, parseExprSource a ≠ .unmodelled w
  | [], _, it, hit, _, _, _ => by cases hit
  | x :: r, h, it, hit, a, ha, w => by
    unfold ObjsModelled at h
    cases hx : x.objArgs with
    | none =>
      simp only [List.filterMap_cons, hx, Option.map_none] at h
      rcases List.mem_cons.mp hit with rfl | hit
      · rw [hx] at ha; cases ha
      · exact ObjsModelled.spec (items := r) h it hit a ha w
    | some b =>
      simp only [List.filterMap_cons, hx, Option.map_some, firstUnmodelledObj, beq_self_eq_true, if_true] at h
      split at h
      · cases h
      · next hnu =>
        rcases List.mem_cons.mp hit with rfl | hit
        · rw [hx] at ha; cases ha; exact fun e => hnu w e
        · exact ObjsModelled.spec (items := r) h it hit a ha w

theorem block_tokens_shape (d : Delims) (n1 n2 : Bytes) (body : List Item) (hr1 hl2 : Bool) (wl1 wm1 wr1 wl2 wm2 wr2 : Bytes) (line : Nat) :
    ∃ l1 l2, tokensOf d (.tag n1 [] false hr1 wl1 wm1 wr1 :: (body ++ [.tag n2 [] hl2 false wl2 wm2 wr2])) line =
      (Item.tag n1 [] false hr1 wl1 wm1 wr1).mainTok d line ::
        (((if hr1 then [{ ty := .trimR }] else []) ++ (tokensOf d body l1 ++ (if hl2 then [{ ty := .trimL }] else []))) ++
         [(Item.tag n2 [] hl2 false wl2 wm2 wr2).mainTok d l2]) := by
  refine ⟨line + countNL ((Item.tag n1 [] false hr1 wl1 wm1 wr1).spell d),
    line + countNL ((Item.tag n1 [] false hr1 wl1 wm1 wr1).spell d) + countNL (spell d body), ?_⟩
  simp only [tokensOf, tokensOf_append, Item.tokens, Item.mainTok, Bool.false_eq_true, if_false, List.nil_append,
    List.append_nil, List.cons_append, List.append_assoc]

/-- **C05, from source bytes, any good delimiters (raw).** The source `TL raw TR`, a clean body that
    contains no `endraw` tag, `TL endraw TR` renders to exactly the bytes of the body as written — objects,
    tags, hyphens and all. -/
theorem raw_source_renders_body (P : Prims) (O : OutPrims) (cfg : Cfg) (fs : FS) (fuel line : Nat) (env : Env)
    (body : List Item) (hr1 hl2 : Bool) (wl1 wm1 wr1 wl2 wm2 wr2 : Bytes)
    (hg : GoodDelims (Delims.ofList cfg.delims))
    (hc : Clean (Delims.ofList cfg.delims)
      (.tag rawName [] false hr1 wl1 wm1 wr1 :: (body ++ [.tag endrawName [] hl2 false wl2 wm2 wr2])))
    (hb : ∀ it ∈ body, it.tagName ≠ some endrawName) (hU : ObjsModelled body) :
    run P O cfg fs fuel
      (spell (Delims.ofList cfg.delims) (.tag rawName [] false hr1 wl1 wm1 wr1 :: (body ++ [.tag endrawName [] hl2 false wl2 wm2 wr2])))
      line env = .ok (spell (Delims.ofList cfg.delims) body) := by
  rw [run_eq_runTokens, scan_spell cfg.delims _ line hg hc]
  obtain ⟨l1, l2, hshape⟩ := block_tokens_shape (Delims.ofList cfg.delims) rawName endrawName body hr1 hl2 wl1 wm1 wr1 wl2 wm2 wr2 line
  rw [hshape, raw_block_renders_body_sources P O cfg fs fuel env _ _ _ ⟨rfl, rfl⟩ ⟨rfl, rfl⟩]
  · congr 1
    cases hr1 <;> cases hl2 <;> simp [tokensOf_srcs]
  · intro t ht
    have hbody : ∀ t ∈ tokensOf (Delims.ofList cfg.delims) body l1, ¬ (t.ty = .tag ∧ t.name = endrawName) := by
      refine tokensOf_forall _ (fun t => ¬ (t.ty = .tag ∧ t.name = endrawName)) (by intro h; cases h.1) (by intro h; cases h.1)
        body l1 ?_
      intro it hit l h
      have := hb it hit
      cases it with
      | text s => cases h.1
      | obj args hl hr wl wr => cases h.1
      | tag name args hl hr wl wm wr => exact this (by simp only [Item.mainTok] at h; simp [Item.tagName, h.2])
    simp only [List.mem_append] at ht
    rcases ht with ht | ht | ht
    · split at ht
      · simp only [List.mem_singleton] at ht; subst ht; intro h; cases h.1
      · cases ht
    · exact hbody t ht
    · split at ht
      · simp only [List.mem_singleton] at ht; subst ht; intro h; cases h.1
      · cases ht
  · apply firstUnmodelledObj_none_of_forall
    intro t ht
    have hbody : ∀ t ∈ tokensOf (Delims.ofList cfg.delims) body l1, t.ty = .obj → ∀ w, parseExprSource t.args ≠ .unmodelled w := by
      refine tokensOf_forall _ (fun t => t.ty = .obj → ∀ w, parseExprSource t.args ≠ .unmodelled w)
        (by intro h; cases h) (by intro h; cases h) body l1 ?_
      intro it hit l h
      cases it with
      | text s => cases h
      | obj args hl hr wl wr => exact hU.spec _ hit args rfl
      | tag name args hl hr wl wm wr => cases h
    simp only [List.mem_append] at ht
    rcases ht with ht | ht | ht
    · split at ht
      · simp only [List.mem_singleton] at ht; subst ht; intro h; cases h
      · cases ht
    · exact hbody t ht
    · split at ht
      · simp only [List.mem_singleton] at ht; subst ht; intro h; cases h
      · cases ht

/-- **C05, from source bytes, any good delimiters (comment).** The source `TL comment TR`, a clean body
    without an `endcomment` tag, `TL endcomment TR` renders to nothing and is never an error, whatever the
    body holds (objects that are not expressions, unknown or unbalanced tags). -/
theorem comment_source_renders_nothing (P : Prims) (O : OutPrims) (cfg : Cfg) (fs : FS) (fuel line : Nat) (env : Env)
    (body : List Item) (hr1 hl2 : Bool) (wl1 wm1 wr1 wl2 wm2 wr2 : Bytes)
    (hg : GoodDelims (Delims.ofList cfg.delims))
    (hc : Clean (Delims.ofList cfg.delims)
      (.tag commentName [] false hr1 wl1 wm1 wr1 :: (body ++ [.tag endcommentName [] hl2 false wl2 wm2 wr2])))
    (hb : ∀ it ∈ body, it.tagName ≠ some endcommentName) (hU : ObjsModelled body) :
    run P O cfg fs fuel
      (spell (Delims.ofList cfg.delims) (.tag commentName [] false hr1 wl1 wm1 wr1 :: (body ++ [.tag endcommentName [] hl2 false wl2 wm2 wr2])))
      line env = .ok [] := by
  rw [run_eq_runTokens, scan_spell cfg.delims _ line hg hc]
  obtain ⟨l1, l2, hshape⟩ := block_tokens_shape (Delims.ofList cfg.delims) commentName endcommentName body hr1 hl2 wl1 wm1 wr1 wl2 wm2 wr2 line
  rw [hshape, comment_block_renders_nothing P O cfg fs fuel env _ _ _ ⟨rfl, rfl⟩ ⟨rfl, rfl⟩]
  · intro t ht
    have hbody : ∀ t ∈ tokensOf (Delims.ofList cfg.delims) body l1, ¬ (t.ty = .tag ∧ t.name = endcommentName) := by
      refine tokensOf_forall _ (fun t => ¬ (t.ty = .tag ∧ t.name = endcommentName)) (by intro h; cases h.1) (by intro h; cases h.1)
        body l1 ?_
      intro it hit l h
      have := hb it hit
      cases it with
      | text s => cases h.1
      | obj args hl hr wl wr => cases h.1
      | tag name args hl hr wl wm wr => exact this (by simp only [Item.mainTok] at h; simp [Item.tagName, h.2])
    simp only [List.mem_append] at ht
    rcases ht with ht | ht | ht
    · split at ht
      · simp only [List.mem_singleton] at ht; subst ht; intro h; cases h.1
      · cases ht
    · exact hbody t ht
    · split at ht
      · simp only [List.mem_singleton] at ht; subst ht; intro h; cases h.1
      · cases ht
  · apply firstUnmodelledObj_none_of_forall
    intro t ht
    have hbody : ∀ t ∈ tokensOf (Delims.ofList cfg.delims) body l1, t.ty = .obj → ∀ w, parseExprSource t.args ≠ .unmodelled w := by
      refine tokensOf_forall _ (fun t => t.ty = .obj → ∀ w, parseExprSource t.args ≠ .unmodelled w)
        (by intro h; cases h) (by intro h; cases h) body l1 ?_
      intro it hit l h
      cases it with
      | text s => cases h
      | obj args hl hr wl wr => exact hU.spec _ hit args rfl
      | tag name args hl hr wl wm wr => cases h
    simp only [List.mem_append] at ht
    rcases ht with ht | ht | ht
    · split at ht
      · simp only [List.mem_singleton] at ht; subst ht; intro h; cases h
      · cases ht
    · exact hbody t ht
    · split at ht
      · simp only [List.mem_singleton] at ht; subst ht; intro h; cases h
      · cases ht

/-- `[ raw ]<<- x | >>[ if ][ endraw ]` under `<< >> [ ]` renders to `<<- x | >>[ if ]` (the object is not an
    expression, the `if` is never closed: the body is not parsed) -/
example : run stdPrims stdOut { delims := [[60, 60], [62, 62], [91], [93]] } (fsOfList []) 1
    (spell exDelims [.tag rawName [] false false [32] [] [32], .obj [120, 32, 124] true false [32] [32],
      .tag [105, 102] [] false false [32] [] [32], .tag endrawName [] false false [32] [] [32]]) 1 []
    = .ok (spell exDelims [.obj [120, 32, 124] true false [32] [32], .tag [105, 102] [] false false [32] [] [32]]) :=
  raw_source_renders_body stdPrims stdOut { delims := [[60, 60], [62, 62], [91], [93]] } (fsOfList []) 1 1 []
    [.obj [120, 32, 124] true false [32] [32], .tag [105, 102] [] false false [32] [] [32]] false false [32] [] [32] [32] [] [32]
    (by decide) (by decide) (by decide)
    (by rfl)

/-- `{% comment -%} {{ | }}{% endif %}{%- endcomment %}` under the defaults renders to nothing -/
example : run stdPrims stdOut {} (fsOfList []) 1
    (spell Delims.default [.tag commentName [] false true [32] [] [], .text [32], .obj [124] false false [32] [32],
      .tag [101, 110, 100, 105, 102] [] false false [32] [] [32], .tag endcommentName [] true false [32] [] [32]]) 1 []
    = .ok [] :=
  comment_source_renders_nothing stdPrims stdOut {} (fsOfList []) 1 1 []
    [.text [32], .obj [124] false false [32] [32], .tag [101, 110, 100, 105, 102] [] false false [32] [] [32]]
    true true [32] [] [] [32] [] [32] (by decide) (by decide) (by decide) (by rfl)
