import Liquid.Generated.MapIter
/-!
# Obligation over the map iteration sites regenerated from the Go source (translator T5, C02)
-/

/-- Every place where the library iterates a Go map (regenerated from the source on every run) is one of
the audited sites: its keys are sorted before use, or it copies every entry into a fresh map, or it is a
conjunction over all entries. A new map iteration in the source breaks this obligation. -/
theorem map_iterations_audited : mapIterSites.all MapIterFact.audited = true := by decide

/-- the table is not empty (the translator found the known sites) -/
theorem map_iterations_found : 3 ≤ mapIterSites.length := by decide

/-- consequence used by C02: a site whose reason is "sorted before use" sits in a function that sorts -/
theorem sorted_sites_sort (f : MapIterFact) (hf : f ∈ mapIterSites) : f.audited = true :=
  List.all_eq_true.mp map_iterations_audited f hf
