import Proofs.ProgLemmas
/-!
# Every render stops on a writer failure (helper lemmas for C20)
-/

def StopsM {α} (m : M α) : Prop := ∀ s, Stops (m s)

theorem stopsM_pure {α} (a : α) : StopsM (pure a : M α) := fun _ => .ret _

theorem stopsM_bind {α β} {m : M α} {f : α → M β} (hm : StopsM m) (hf : ∀ a, StopsM (f a)) :
    StopsM (m >>= f) := by
  intro s
  exact Stops.bind (hm s) (fun ⟨a, s'⟩ => hf a s')

theorem stopsM_fail {α} (e : RawErr) : StopsM (M.fail e : M α) := fun _ => .fail _
theorem stopsM_getEnv : StopsM M.getEnv := fun _ => .ret _
theorem stopsM_setVar (x : Bytes) (v : GoVal) : StopsM (M.setVar x v) := fun _ => .ret _
theorem stopsM_getVar (x : Bytes) : StopsM (M.getVar x) := fun _ => .ret _

theorem stopsM_ofRes {α} (r : Res Cause α) : StopsM (M.ofRes r) := by
  intro s
  cases r with
  | ok a => exact .ret _
  | err c => exact .fail _
  | panic w => exact .panic _
  | unmodelled w => exact .unmodelled _

theorem stopsM_wrapFailAt {α} (path : Bytes) (loc : Loc) {m : M α} (hm : StopsM m) :
    StopsM (wrapFailAt path loc m) := by
  intro s
  exact Stops.mapFail _ (fun e he => isIo_wrapError path e loc he) (hm s)

theorem stopsM_wrapAt (path : Bytes) (loc : Loc) {m : M Status} (hm : StopsM m) :
    StopsM (wrapAt path loc m) := by
  intro s
  unfold wrapAt
  exact Stops.bind (Stops.mapFail _ (fun e he => isIo_wrapError path e loc he) (hm s)) (fun _ => .ret _)

theorem stopsM_flush : StopsM flushM := by
  intro s
  unfold flushM
  split
  · exact .ret _
  · exact .call _ _ (fun n => ⟨.plain .io, rfl, rfl⟩) (.ret _)

theorem stopsM_write (b : Bytes) : StopsM (writeM b) := by
  intro s
  unfold writeM
  simp only
  split
  · exact .ret _
  · exact .call _ _ (fun n => ⟨.plain .io, rfl, rfl⟩) (.ret _)

theorem stopsM_trimLeft : StopsM trimLeftM := by
  intro s
  exact .call _ _ (fun n => ⟨.plain .io, rfl, rfl⟩) (.ret _)

theorem stopsM_trimRight : StopsM trimRightM := fun _ => .ret _

theorem stopsM_writeVerbatim (b : Bytes) : StopsM (writeVerbatimM b) := by
  unfold writeVerbatimM
  exact stopsM_bind (stopsM_write _) (fun _ => stopsM_bind (stopsM_write b) (fun _ => stopsM_flush))

theorem stopsM_writeAll : ∀ cs, StopsM (writeAllM cs)
  | [] => stopsM_pure ()
  | c :: cs => by
    unfold writeAllM
    exact stopsM_bind (stopsM_writeVerbatim c) (fun _ => stopsM_writeAll cs)

/-- capture and include run their inner program against an in-memory writer: no call reaches
    the caller's writer from inside them -/
theorem captureM_noCalls {α} (m : M α) (s : RS) : NoCalls (captureM m s) := by
  unfold captureM
  simp only
  split <;> simp [NoCalls]

theorem stopsM_capture {α} (m : M α) : StopsM (captureM m) := fun s => Stops.ofNoCalls (captureM_noCalls m s)

theorem stopsM_tablerowBefore (cols i : Nat) : StopsM (tablerowBefore cols i) := by
  unfold tablerowBefore
  simp only [bind_pure_comp]
  split
  · exact stopsM_bind (stopsM_write _) (fun _ => stopsM_write _)
  · exact stopsM_bind (stopsM_pure _) (fun _ => stopsM_write _)

theorem stopsM_tablerowAfter (cols i l : Nat) : StopsM (tablerowAfter cols i l) := by
  unfold tablerowAfter
  refine stopsM_bind (stopsM_write _) (fun _ => ?_)
  split
  · exact stopsM_write _
  · exact stopsM_pure _

theorem stopsM_evalCond (P : Prims) (path : Bytes) (t : CondT) : StopsM (evalCond P path t) := by
  unfold evalCond
  refine stopsM_bind stopsM_getEnv (fun env => ?_)
  cases t with
  | always => exact stopsM_pure _
  | expr line e => exact stopsM_wrapFailAt _ _ (stopsM_bind (stopsM_ofRes _) (fun _ => stopsM_pure _))
  | notExpr line e => exact stopsM_wrapFailAt _ _ (stopsM_bind (stopsM_ofRes _) (fun _ => stopsM_pure _))

theorem stopsM_intModifier (P : Prims) (e : Option Expr) (loc : Loc) : StopsM (intModifier P e loc) := by
  unfold intModifier
  cases e with
  | none => exact stopsM_pure _
  | some ex =>
    refine stopsM_bind stopsM_getEnv (fun env => stopsM_bind (stopsM_ofRes _) (fun v => ?_))
    split
    · exact stopsM_pure _
    · exact stopsM_fail _

theorem stopsM_restore (var : Bytes) (a b : GoVal) : StopsM (restoreLoopVars var a b) := by
  unfold restoreLoopVars
  exact stopsM_bind (stopsM_setVar _ _) (fun _ => stopsM_setVar _ _)

theorem stopsM_iterate (var : Bytes) (cols : Option Nat) (body : M Status) (hb : StopsM body) (n : Nat) :
    ∀ xs i cyc, StopsM (iterateM var cols body n xs i cyc) := by
  intro xs
  induction xs with
  | nil => intro i cyc; exact stopsM_pure _
  | cons x xs ih =>
    intro i cyc
    unfold iterateM
    refine stopsM_bind (stopsM_setVar _ _) (fun _ => stopsM_bind (stopsM_setVar _ _) (fun _ => ?_))
    refine stopsM_bind ?_ (fun _ => stopsM_bind hb (fun st => stopsM_bind ?_ (fun _ => stopsM_bind (stopsM_getVar _) (fun cur => ?_))))
    · cases cols with
      | none => exact stopsM_pure _
      | some c => exact stopsM_tablerowBefore c i
    · cases cols with
      | none => exact stopsM_pure _
      | some c => exact stopsM_tablerowAfter c i n
    · cases st with
      | brk e => exact stopsM_pure _
      | done => exact ih _ _
      | cont e => exact ih _ _

theorem stopsM_tablerowCols (P : Prims) (tr : Bool) (cols : Option Expr) (loc : Loc) :
    StopsM (tablerowCols P tr cols loc) := by
  unfold tablerowCols
  split
  · refine stopsM_bind (stopsM_intModifier _ _ _) (fun cv => ?_)
    cases cv <;> exact stopsM_pure _
  · exact stopsM_pure _

theorem stopsM_loopRun {budget : Int} (P : Prims) (path : Bytes) (loc : Loc) (tr : Bool) (var : Bytes) (e : Expr) (mods : LoopMods)
    {bodyM : M Status} (hb : StopsM bodyM) (tooMany : Bool) (elseM : Option (M Status))
    (he : ∀ m, elseM = some m → StopsM m) :
    StopsM (loopRun budget P path loc tr var e mods bodyM tooMany elseM) := by
  unfold loopRun
  refine stopsM_wrapAt _ _ (stopsM_bind stopsM_getEnv (fun env => stopsM_bind (stopsM_ofRes _) (fun v =>
    stopsM_bind (stopsM_ofRes _) (fun items0 => stopsM_bind (stopsM_intModifier _ _ _) (fun off =>
    stopsM_bind (stopsM_intModifier _ _ _) (fun lim => ?_))))))
  split
  · exact stopsM_fail _
  · unfold loopDispatch
    split
    · next els => exact he _ rfl
    · unfold loopIterate
      exact stopsM_bind (stopsM_tablerowCols _ _ _ _) (fun cols => stopsM_bind (stopsM_getVar _) (fun pl =>
        stopsM_bind (stopsM_getVar _) (fun pv => stopsM_bind (stopsM_iterate _ _ _ hb _ _ _ _) (fun st =>
        stopsM_bind (stopsM_restore _ _ _) (fun _ => stopsM_pure _)))))

/-- the include handler makes no call on the caller's writer (it renders into a buffer) -/
def IncOk (c : RCtx) : Prop := ∀ line f env, Stops (c.inc line f env)

mutual
theorem stops_renderNode (c : RCtx) (hc : IncOk c) : ∀ n : Node, StopsM (renderNode c n)
  | .text line src => by
    unfold renderNode
    exact stopsM_wrapFailAt _ _ (stopsM_bind (stopsM_write _) (fun _ => stopsM_pure _))
  | .obj line e => by
    unfold renderNode
    refine stopsM_wrapFailAt _ _ (stopsM_bind stopsM_getEnv (fun env => stopsM_bind (stopsM_ofRes _) (fun v => ?_)))
    split
    · exact stopsM_fail _
    · exact stopsM_bind (stopsM_ofRes _) (fun _ => stopsM_bind (stopsM_writeAll _) (fun _ => stopsM_pure _))
  | .raw slices => by
    unfold renderNode
    exact stopsM_wrapFailAt _ _ (stopsM_bind (stopsM_writeAll _) (fun _ => stopsM_pure _))
  | .trim true => by
    unfold renderNode
    exact stopsM_wrapFailAt _ _ (stopsM_bind stopsM_trimLeft (fun _ => stopsM_pure _))
  | .trim false => by
    unfold renderNode
    exact stopsM_bind stopsM_trimRight (fun _ => stopsM_pure _)
  | .assign line x e => by
    unfold renderNode
    exact stopsM_wrapFailAt _ _ (stopsM_bind stopsM_getEnv (fun env => stopsM_bind (stopsM_ofRes _)
      (fun v => stopsM_bind (stopsM_setVar _ _) (fun _ => stopsM_pure _))))
  | .capture line x body => by
    unfold renderNode
    refine stopsM_wrapAt _ _ (stopsM_bind (stopsM_capture _) (fun r => ?_))
    obtain ⟨st, out⟩ := r
    cases st with
    | done => exact stopsM_bind (stopsM_setVar _ _) (fun _ => stopsM_pure _)
    | brk e => exact stopsM_pure _
    | cont e => exact stopsM_pure _
  | .ifB line branches => by
    unfold renderNode
    exact stopsM_wrapAt _ _ (stops_renderBranches c hc branches)
  | .caseB line subject cases => by
    unfold renderNode
    exact stopsM_wrapAt _ _ (stopsM_bind stopsM_getEnv (fun env => stopsM_bind (stopsM_ofRes _)
      (fun sel => stops_renderCases c hc sel cases)))
  | .loop line tablerow var e mods body clauses => by
    unfold renderNode
    simp only
    split
    · exact stopsM_loopRun _ _ _ _ _ _ _ (stops_renderBlockBody c hc body) _ none (fun _ h => by cases h)
    · next els =>
      exact stopsM_loopRun _ _ _ _ _ _ _ (stops_renderBlockBody c hc body) _ (some _)
        (fun m h => by cases h; exact stops_renderBlockBody c hc els)
    · exact stopsM_loopRun _ _ _ _ _ _ _ (stops_renderBlockBody c hc body) _ none (fun _ h => by cases h)
  | .cycle line group v0 rest => by
    unfold renderNode
    refine stopsM_wrapFailAt _ _ (stopsM_bind (stopsM_getVar _) (fun lv => ?_))
    split
    · exact stopsM_fail _
    · exact stopsM_bind (stopsM_setVar _ _) (fun _ => stopsM_bind (stopsM_writeVerbatim _) (fun _ => stopsM_pure _))
  | .brk line => by unfold renderNode; exact stopsM_pure _
  | .cont line => by unfold renderNode; exact stopsM_pure _
  | .incl line args => by
    unfold renderNode
    refine stopsM_wrapAt _ _ (stopsM_bind stopsM_getEnv (fun env => stopsM_bind (stopsM_ofRes _) (fun e =>
      stopsM_bind (stopsM_ofRes _) (fun v => ?_))))
    split
    · next rel =>
      refine stopsM_bind ?_ (fun r => ?_)
      · intro s
        exact Stops.bind (hc _ _ _) (fun _ => .ret _)
      · obtain ⟨st, out⟩ := r
        cases st with
        | done => exact stopsM_bind (stopsM_writeVerbatim _) (fun _ => stopsM_pure _)
        | brk e => exact stopsM_pure _
        | cont e => exact stopsM_pure _
    · exact stopsM_fail _
theorem stops_renderList (c : RCtx) (hc : IncOk c) : ∀ ns : List Node, StopsM (renderList c ns)
  | [] => by unfold renderList; exact stopsM_pure _
  | n :: ns => by
    unfold renderList
    refine stopsM_bind (stops_renderNode c hc n) (fun st => ?_)
    cases st with
    | done => exact stops_renderList c hc ns
    | brk e => exact stopsM_pure _
    | cont e => exact stopsM_pure _
theorem stops_renderBlockBody (c : RCtx) (hc : IncOk c) (body : List Node) : StopsM (renderBlockBody c body) := by
  unfold renderBlockBody
  refine stopsM_bind (stops_renderList c hc body) (fun st => ?_)
  cases st with
  | done => exact stopsM_bind (stopsM_wrapFailAt _ _ stopsM_flush) (fun _ => stopsM_pure _)
  | brk e => exact stopsM_pure _
  | cont e => exact stopsM_pure _
theorem stops_renderBranches (c : RCtx) (hc : IncOk c) : ∀ bs : List (CondT × List Node), StopsM (renderBranches c bs)
  | [] => by unfold renderBranches; exact stopsM_pure _
  | (t, body) :: rest => by
    unfold renderBranches
    refine stopsM_bind (stopsM_evalCond _ _ _) (fun b => ?_)
    split
    · exact stops_renderBlockBody c hc body
    · exact stops_renderBranches c hc rest
theorem stops_renderCases (c : RCtx) (hc : IncOk c) (sel : GoVal) :
    ∀ cs : List (Option (Nat × List Expr) × List Node), StopsM (renderCases c sel cs)
  | [] => by unfold renderCases; exact stopsM_pure _
  | (none, body) :: _ => by unfold renderCases; exact stops_renderBlockBody c hc body
  | (some (line, es), body) :: rest => by
    unfold renderCases
    refine stopsM_bind (stopsM_wrapFailAt _ _ (stops_whenMatches c sel es)) (fun hit => ?_)
    split
    · exact stops_renderBlockBody c hc body
    · exact stops_renderCases c hc sel rest
theorem stops_whenMatches (c : RCtx) (sel : GoVal) : ∀ es : List Expr, StopsM (whenMatches c sel es)
  | [] => by unfold whenMatches; exact stopsM_pure _
  | e :: es => by
    unfold whenMatches
    refine stopsM_bind stopsM_getEnv (fun env => stopsM_bind (stopsM_ofRes _) (fun v => stopsM_bind (stopsM_ofRes _) (fun eq => ?_)))
    split
    · exact stopsM_pure _
    · exact stops_whenMatches c sel es
end
