import Proofs.RepEqFilters
/-!
# `sort` and `sort_natural` respect representation equivalence (helper lemmas for C18, `d = false`)

The order only looks at scalars (`values.Less`) or at printed text (`sort_natural`), so the
sorted lists of two related arrays are related element by element (`List.map_mergeSort`). The
model answers `unmodelled` when more than 12 elements hold ties that can be told apart by their
encoding; this test sees the representation, hence "up to `unmodelled`" (`t = true`).
-/

open GoVal Cmp

namespace ArrF

theorem lessTL_container_left {u : GoVal} (h : rigidF u = false) (v : GoVal) : lessTL u v = .ok false := by
  cases u <;> simp [rigidF] at h <;> cases v <;> simp [lessTL, GoVal.isNil, joinKind, rkind, RKind.isInt, RKind.isFloat]

theorem lessTL_container_right (u : GoVal) {v : GoVal} (h : rigidF v = false) : lessTL u v = .ok false := by
  cases v <;> simp [rigidF] at h <;> cases u <;> simp [lessTL, GoVal.isNil, joinKind, rkind, RKind.isInt, RKind.isFloat]

theorem lessTL_repEq {u u' v v' : GoVal} (hu : RepEq false u u') (hv : RepEq false v v') : lessTL u v = lessTL u' v' := by
  rcases repEq_false_cases hu with rfl | ⟨h1, h2⟩
  · rcases repEq_false_cases hv with rfl | ⟨h3, h4⟩
    · rfl
    · rw [lessTL_container_right _ h3, lessTL_container_right _ h4]
  · rw [lessTL_container_left h1, lessTL_container_left h2]

theorem toLiq_repEq {x x' : GoVal} (h : RepEq false x x') : RepEq false (toLiq x) (toLiq x') := by
  rw [toLiq_eq_toLiquid, toLiq_eq_toLiquid]; exact toLiquid_repEq_false h

theorem lessB_repEq {a a' b b' : GoVal} (ha : RepEq false a a') (hb : RepEq false b b') : lessB a b = lessB a' b' := by
  unfold lessB Cmp.less
  rw [lessTL_repEq (toLiq_repEq ha) (toLiq_repEq hb)]

theorem sortLe_repEq {a a' b b' : GoVal} (ha : RepEq false a a') (hb : RepEq false b b') : sortLe a b = sortLe a' b' := by
  unfold sortLe; rw [lessB_repEq hb ha]

theorem kclass_repEq {x x' : GoVal} (h : RepEq false x x') : kclass x = kclass x' := by
  have := toLiq_repEq h
  unfold kclass
  rcases repEq_false_cases this with e | ⟨h1, h2⟩
  · rw [e]
  · generalize toLiq x = u at *
    generalize toLiq x' = u' at *
    cases u <;> simp [rigidF] at h1 <;> cases u' <;> simp [rigidF] at h2 <;> rfl

theorem smallNum_repEq {x x' : GoVal} (h : RepEq false x x') : smallNum x = smallNum x' := by
  have := toLiq_repEq h
  unfold smallNum
  rcases repEq_false_cases this with e | ⟨h1, h2⟩
  · rw [e]
  · generalize toLiq x = u at *
    generalize toLiq x' = u' at *
    cases u <;> simp [rigidF] at h1 <;> cases u' <;> simp [rigidF] at h2 <;> rfl

theorem all_rel {p : GoVal → Bool} (hp : ∀ x x', RepEq false x x' → p x = p x') :
    ∀ {xs xs' : List GoVal}, normList false xs = normList false xs' → xs.all p = xs'.all p
  | [], [], _ => rfl
  | [], _ :: _, h => by simp [normList] at h
  | _ :: _, [], h => by simp [normList] at h
  | x :: xs, x' :: xs', h => by
    simp only [normList, List.cons.injEq] at h
    simp only [List.all_cons, hp x x' h.1, all_rel hp h.2]

theorem homog_rel {xs xs' : List GoVal} (h : normList false xs = normList false xs') : homog xs = homog xs' := by
  unfold homog
  rw [all_rel (p := isClass .int) (fun x x' hx => by simp [isClass, kclass_repEq hx]) h,
    all_rel (p := smallNum) (fun x x' hx => smallNum_repEq hx) h,
    all_rel (p := isClass .str) (fun x x' hx => by simp [isClass, kclass_repEq hx]) h,
    all_rel (p := isClass .bool) (fun x x' hx => by simp [isClass, kclass_repEq hx]) h,
    all_rel (p := isClass .nil) (fun x x' hx => by simp [isClass, kclass_repEq hx]) h,
    all_rel (p := isClass .other) (fun x x' hx => by simp [isClass, kclass_repEq hx]) h]

/-- sorting with an order that only looks at normal forms gives related lists -/
theorem mergeSort_rel (le : GoVal → GoVal → Bool)
    (hle : ∀ a b, le a b = le (a.norm false) (b.norm false))
    {xs xs' : List GoVal} (h : normList false xs = normList false xs') :
    normList false (xs.mergeSort le) = normList false (xs'.mergeSort le) := by
  simp only [normList_eq_map] at h ⊢
  rw [List.map_mergeSort (s := le) (fun a _ b _ => hle a b), List.map_mergeSort (s := le) (fun a _ b _ => hle a b), h]

theorem sortF_rel {xs xs' : List GoVal} (h : normList false xs = normList false xs') :
    normList false (sortF xs) = normList false (sortF xs') :=
  mergeSort_rel sortLe (fun a b => sortLe_repEq (RepEq.norm_right a) (RepEq.norm_right b)) h

/-! ## `sort` by a key -/

theorem keyIndex_repEq (key : Bytes) {x x' : GoVal} (h : RepEq false x x') :
    RepEq false (keyIndex key x) (keyIndex key x') := by
  have ht := toLiquid_repEq_false h
  unfold keyIndex
  rcases repEq_false_cases ht with e | ⟨h1, h2⟩
  · rw [e]; exact RepEq.refl _
  · generalize x.toLiquid = u at *
    generalize x'.toLiquid = u' at *
    have hnd : noDrop u' = true := by cases u' <;> simp_all [rigidF, noDrop]
    cases u with
    | map kt vt kvs =>
      rcases norm_inv_map hnd ht with rfl | ⟨_, vt', kvs', rfl, _, hn⟩
      · exact RepEq.refl _
      · cases kt <;> first | exact (mapFind_rel hn _).1 | exact RepEq.refl _
    | slice t xs =>
      obtain ⟨xs', hs, _⟩ := norm_inv_seq (u := .slice t xs) rfl hnd ht
      cases u' <;> simp [seqElems?] at hs <;> exact RepEq.refl _
    | array t xs =>
      obtain ⟨xs', hs, _⟩ := norm_inv_seq (u := .array t xs) rfl hnd ht
      cases u' <;> simp [seqElems?] at hs <;> exact RepEq.refl _
    | _ => simp [rigidF] at h1

theorem lessByKey_repEq (key : Bytes) {a a' b b' : GoVal} (ha : RepEq false a a') (hb : RepEq false b b') :
    lessByKey key a b = lessByKey key a' b' := by
  unfold lessByKey
  rw [isNil_repEq_false (keyIndex_repEq key ha), isNil_repEq_false (keyIndex_repEq key hb),
    lessB_repEq (keyIndex_repEq key ha) (keyIndex_repEq key hb)]

theorem sortByLe_repEq (key : Bytes) {a a' b b' : GoVal} (ha : RepEq false a a') (hb : RepEq false b b') :
    sortByLe key a b = sortByLe key a' b' := by
  unfold sortByLe; rw [lessByKey_repEq key hb ha]

theorem sortByF_rel (key : Bytes) {xs xs' : List GoVal} (h : normList false xs = normList false xs') :
    normList false (sortByF key xs) = normList false (sortByF key xs') :=
  mergeSort_rel (sortByLe key) (fun a b => sortByLe_repEq key (RepEq.norm_right a) (RepEq.norm_right b)) h

theorem keys_rel (key : Bytes) : ∀ {xs xs' : List GoVal}, normList false xs = normList false xs' →
    normList false ((xs.map (keyIndex key)).filter nonNil) = normList false ((xs'.map (keyIndex key)).filter nonNil)
  | [], [], _ => rfl
  | [], _ :: _, h => by simp [normList] at h
  | _ :: _, [], h => by simp [normList] at h
  | x :: xs, x' :: xs', h => by
    simp only [normList, List.cons.injEq] at h
    have hk := keyIndex_repEq key h.1
    have ih := keys_rel key h.2
    have hn := isNil_repEq_false hk
    cases hc : (keyIndex key x').isNil with
    | true => simp only [List.map_cons, List.filter_cons, nonNil, hn, hc]; exact ih
    | false =>
      simp only [List.map_cons, List.filter_cons, nonNil, hn, hc, Bool.not_false, if_true, normList, ih]
      rw [hk]

theorem homogBy_rel (key : Bytes) {xs xs' : List GoVal} (h : normList false xs = normList false xs') :
    homogBy key xs = homogBy key xs' := homog_rel (keys_rel key h)

/-- what the eager adapter does with the result of a body that returns no error value -/
def wrapR : R GoVal → Res Cause (Except Cause GoVal)
  | .ok v => ret v
  | .err c => .err c
  | .panic w => .panic w
  | .unmodelled w => .unmodelled w

theorem eager_val2 (f : List GoVal → R GoVal) (a b : GoVal) : eager f [.val a, .val b] = wrapR (f [a, b]) := by
  simp only [eager, FilterImpl.ofEager, FilterImpl.ofEager.collect, Res.bind]
  cases f [a, b] <;> simp [wrapR]

theorem wrapR_rel {t : Bool} {r r' : R GoVal} (h : RRel t (RepEq false) r r') : RRel t ExRel (wrapR r) (wrapR r') := by
  cases r <;> cases r' <;> simp only [RRel] at h <;> simp only [wrapR, ret, RRel] <;> exact h

theorem sortWith_rel {xs xs' : List GoVal} {k k' : GoVal} (hx : normList false xs = normList false xs') (hk : URel false k k') :
    RRel true (RepEq false) (sortWith true [.slice .any xs, k]) (sortWith true [.slice .any xs', k']) := by
  have hout : ∀ {ys ys' : List GoVal} (b b' : Bool), normList false ys = normList false ys' →
      RRel true (RepEq false) (if b then tieOrder else .ok (.slice .any ys)) (if b' then tieOrder else .ok (.slice .any ys')) := by
    intro ys ys' b b' hn
    cases b <;> cases b' <;> simp only [tieOrder, if_true, if_false, Bool.false_eq_true]
    · exact slice_any_rel hn
    · exact RRel.unmR rfl _ _
    · exact RRel.unmL rfl _ _
    · exact RRel.unmL rfl _ _
  by_cases hn : k = .nil
  · have hn' := (urel_nil_iff hk).mp hn
    subst hn hn'
    simp only [sortWith, homog_rel hx]
    cases homog xs' with
    | false => simp [notSWO, RRel]
    | true => exact hout _ _ (sortF_rel hx)
  · have hn' : k' ≠ .nil := fun e => hn ((urel_nil_iff hk).mpr e)
    have e1 : sortWith true [.slice .any xs, k] = (sprint k).bind fun nm =>
        if !homogBy nm xs then notSWO else
        if true && !stableEnough (sortByLe nm) (sortByF nm xs) then tieOrder else .ok (.slice .any (sortByF nm xs)) := by
      cases k <;> first | exact absurd rfl hn | rfl
    have e2 : sortWith true [.slice .any xs', k'] = (sprint k').bind fun nm =>
        if !homogBy nm xs' then notSWO else
        if true && !stableEnough (sortByLe nm) (sortByF nm xs') then tieOrder else .ok (.slice .any (sortByF nm xs')) := by
      cases k' <;> first | exact absurd rfl hn' | rfl
    rw [e1, e2, sprint_repEq_false hk.2.2]
    cases sprint k' with
    | ok nm =>
      simp only [Res.bind, homogBy_rel nm hx]
      cases homogBy nm xs' with
      | false => simp [notSWO, RRel]
      | true => exact hout _ _ (sortByF_rel nm hx)
    | _ => simp [Res.bind, RRel]

/-- `sort`: the related sorted list, or `unmodelled` on a side where ties are visible -/
theorem sort_respects : ImplRespects true [.val .anys, .val .any] (eager sort) := by
  intro cs cs' h
  obtain ⟨a, as, a', as', rfl, rfl, h1, h2⟩ := argsRel_cons h
  obtain ⟨k, k', rfl, rfl, hk⟩ := Num.argsRel_any1 h2
  obtain ⟨c, c', rfl, rfl, xs, xs', rfl, rfl, hx⟩ := argRel_val h1
  rw [eager_val2, eager_val2]
  exact wrapR_rel (sortWith_rel hx hk)

/-! ## `sort_natural` -/

theorem natKey_repEq {x x' : GoVal} (h : RepEq false x x') : natKey x = natKey x' := by
  have hs := sprint_repEq_false h
  have hn := isNil_repEq_false h
  unfold natKey
  cases x <;> cases x' <;> simp [GoVal.isNil] at hn <;> simp only [hs]

theorem natKeyBy_repEq (name : Bytes) {m m' : GoVal} (h : RepEq false m m') : natKeyBy name m = natKeyBy name m' := by
  rcases repEq_false_cases h with rfl | ⟨h1, h2⟩
  · rfl
  · have hnd : noDrop m' = true := by cases m' <;> simp_all [rigidF, noDrop]
    cases m with
    | map kt vt kvs =>
      rcases norm_inv_map hnd h with rfl | ⟨_, vt', kvs', rfl, _, hn⟩
      · rfl
      · cases kt <;> try rfl
        have hf := mapFind_rel hn (.str name)
        simp only [natKeyBy]
        cases e1 : mapFind kvs (.str name) <;> cases e2 : mapFind kvs' (.str name) <;> simp [e1, e2] at hf
        · rfl
        · next v v' =>
          rcases repEq_false_cases hf with rfl | ⟨g1, g2⟩
          · rfl
          · cases v <;> simp [rigidF] at g1 <;> cases v' <;> simp [rigidF] at g2 <;> rfl
    | slice t xs =>
      obtain ⟨xs', hs, _⟩ := norm_inv_seq (u := .slice t xs) rfl hnd h
      cases m' <;> simp [seqElems?] at hs <;> rfl
    | array t xs =>
      obtain ⟨xs', hs, _⟩ := norm_inv_seq (u := .array t xs) rfl hnd h
      cases m' <;> simp [seqElems?] at hs <;> rfl
    | _ => simp [rigidF] at h1

/-- a decorated element up to representation -/
def dnorm (p : Bytes × GoVal) : Bytes × GoVal := (p.1, p.2.norm false)

theorem decorate_rel (f : GoVal → R Bytes) (hf : ∀ x x', RepEq false x x' → f x = f x') :
    ∀ {xs xs' : List GoVal}, normList false xs = normList false xs' →
      RRel false (fun ds ds' => ds.map dnorm = ds'.map dnorm) (decorate f xs) (decorate f xs')
  | [], [], _ => by simp [decorate, RRel]
  | [], _ :: _, h => by simp [normList] at h
  | _ :: _, [], h => by simp [normList] at h
  | x :: xs, x' :: xs', h => by
    simp only [normList, List.cons.injEq] at h
    simp only [decorate, hf x x' h.1]
    cases f x' with
    | ok k =>
      simp only [Res.bind]
      refine RRel.bind (decorate_rel f hf h.2) (fun ds ds' hd => ?_)
      simp only [RRel, List.map_cons, dnorm, hd, h.1]
    | _ => simp [Res.bind, RRel]

theorem sortTexts_rel {ds ds' : List (Bytes × GoVal)} (h : ds.map dnorm = ds'.map dnorm) :
    (sortTexts ds).map dnorm = (sortTexts ds').map dnorm := by
  unfold sortTexts
  have e : ∀ l : List (Bytes × GoVal), List.map dnorm (l.mergeSort textLe) = (List.map dnorm l).mergeSort textLe :=
    fun l => List.map_mergeSort (r := textLe) (s := textLe) (f := dnorm) (fun a _ b _ => rfl)
  rw [e, e, h]

theorem snd_rel {ys ys' : List (Bytes × GoVal)} (h : ys.map dnorm = ys'.map dnorm) :
    normList false (ys.map (·.2)) = normList false (ys'.map (·.2)) := by
  have := congrArg (List.map (·.2)) h
  simpa [normList_eq_map, List.map_map, dnorm, Function.comp_def] using this

theorem sortNaturalWith_rel {xs xs' : List GoVal} {k k' : GoVal} (hx : normList false xs = normList false xs') (hk : URel false k k') :
    RRel true (RepEq false) (sortNaturalWith true [.slice .any xs, k]) (sortNaturalWith true [.slice .any xs', k']) := by
  have hout : ∀ {ys ys' : List GoVal} (b b' : Bool), normList false ys = normList false ys' →
      RRel true (RepEq false) (if b then tieOrder else .ok (.slice .any ys)) (if b' then tieOrder else .ok (.slice .any ys')) := by
    intro ys ys' b b' hn
    cases b <;> cases b' <;> simp only [tieOrder, if_true, if_false, Bool.false_eq_true]
    · exact slice_any_rel hn
    · exact RRel.unmR rfl _ _
    · exact RRel.unmL rfl _ _
    · exact RRel.unmL rfl _ _
  have hbody : ∀ (f : GoVal → R Bytes), (∀ x x', RepEq false x x' → f x = f x') →
      RRel true (RepEq false)
        ((decorate f xs).bind fun ds =>
          if true && !((sortTexts ds).length ≤ 12 || !tiesVisibleT (sortTexts ds)) then tieOrder
          else .ok (.slice .any ((sortTexts ds).map (·.2))))
        ((decorate f xs').bind fun ds =>
          if true && !((sortTexts ds).length ≤ 12 || !tiesVisibleT (sortTexts ds)) then tieOrder
          else .ok (.slice .any ((sortTexts ds).map (·.2)))) := by
    intro f hf
    refine RRel.bind (RRel.weaken (decorate_rel f hf hx)) (fun ds ds' hd => ?_)
    exact hout _ _ (snd_rel (sortTexts_rel hd))
  by_cases hn : k = .nil
  · have hn' := (urel_nil_iff hk).mp hn
    subst hn hn'
    simp only [sortNaturalWith, Res.bind]
    exact hbody natKey (fun x x' h => natKey_repEq h)
  · have hn' : k' ≠ .nil := fun e => hn ((urel_nil_iff hk).mpr e)
    have e1 : sortNaturalWith true [.slice .any xs, k] = (sprint k).bind fun nm =>
        (decorate (natKeyBy nm) xs).bind fun ds =>
          if true && !((sortTexts ds).length ≤ 12 || !tiesVisibleT (sortTexts ds)) then tieOrder
          else .ok (.slice .any ((sortTexts ds).map (·.2))) := by
      cases k <;> first | exact absurd rfl hn | (simp only [sortNaturalWith]; cases sprint _ <;> rfl)
    have e2 : sortNaturalWith true [.slice .any xs', k'] = (sprint k').bind fun nm =>
        (decorate (natKeyBy nm) xs').bind fun ds =>
          if true && !((sortTexts ds).length ≤ 12 || !tiesVisibleT (sortTexts ds)) then tieOrder
          else .ok (.slice .any ((sortTexts ds).map (·.2))) := by
      cases k' <;> first | exact absurd rfl hn' | (simp only [sortNaturalWith]; cases sprint _ <;> rfl)
    rw [e1, e2, sprint_repEq_false hk.2.2]
    cases sprint k' with
    | ok nm => exact hbody (natKeyBy nm) (fun x x' h => natKeyBy_repEq nm h)
    | _ => simp [Res.bind, RRel]

theorem sortNatural_respects : ImplRespects true [.val .anys, .val .any] (eager sortNatural) := by
  intro cs cs' h
  obtain ⟨a, as, a', as', rfl, rfl, h1, h2⟩ := argsRel_cons h
  obtain ⟨k, k', rfl, rfl, hk⟩ := Num.argsRel_any1 h2
  obtain ⟨c, c', rfl, rfl, xs, xs', rfl, rfl, hx⟩ := argRel_val h1
  rw [eager_val2, eager_val2]
  exact wrapR_rel (sortNaturalWith_rel hx hk)

end ArrF

/-- every standard filter except `uniq` respects representation equivalence up to `unmodelled`
    (`d = false`), for every name (registered or not) -/
theorem filterRespects_std_upto (name : Bytes) (h : name ∉ [ArrF.bn "uniq"]) : FilterRespects true name :=
  filterRespects_of_impl name (fun sg f hs hf =>
    goodEntry_table true [ArrF.bn "uniq"]
      (fun _ => goodEntry_of_sig true ⟨ArrF.bn "sort", [.val .anys, .val .any], false⟩ (by decide +kernel) ArrF.sort_respects)
      (fun hn => absurd (by simp) hn)
      (fun _ => goodEntry_of_sig true ⟨ArrF.bn "sort_natural", [.val .anys, .val .any], false⟩ (by decide +kernel) ArrF.sortNatural_respects)
      (name, f) (lookupImpl_mem hf) h sg hs)
