import Proofs.RepEqFilters
import Proofs.InsertionSort
/-!
# `sort` and `sort_natural` respect representation equivalence (helper lemmas for C18; `sort` for every `d`,
`sort_natural` for `d = false`)

The order only looks at scalars (`values.Less`) or at printed text (`sort_natural`), so the
sorted lists of two related arrays are related element by element (`List.map_mergeSort`). The
model answers `unmodelled` when more than 12 elements hold ties that can be told apart by their
encoding; this test sees the representation, hence "up to `unmodelled`" (`t = true`).
-/

open GoVal Cmp

variable {d : Bool}

namespace ArrF

theorem lessTL_container_left {u : GoVal} (h : rigidF u = false) (v : GoVal) : lessTL u v = .ok false := by
  cases u <;> simp [rigidF] at h <;> cases v <;> simp [lessTL, GoVal.isNil, joinKind, rkind, RKind.isInt, RKind.isFloat]

theorem lessTL_container_right (u : GoVal) {v : GoVal} (h : rigidF v = false) : lessTL u v = .ok false := by
  cases v <;> simp [rigidF] at h <;> cases u <;> simp [lessTL, GoVal.isNil, joinKind, rkind, RKind.isInt, RKind.isFloat]

theorem lessTL_repEq {u u' v v' : GoVal} (hu : RepEq d u u') (hv : RepEq d v v')
    (nu : noDrop u = true) (nu' : noDrop u' = true) (nv : noDrop v = true) (nv' : noDrop v' = true) : lessTL u v = lessTL u' v' := by
  rcases repEq_noDrop_cases nu nu' hu with rfl | ⟨h1, h2⟩
  · rcases repEq_noDrop_cases nv nv' hv with rfl | ⟨h3, h4⟩
    · rfl
    · rw [lessTL_container_right _ h3, lessTL_container_right _ h4]
  · rw [lessTL_container_left h1, lessTL_container_left h2]

theorem toLiq_repEq {x x' : GoVal} (h : RepEq d x x') : RepEq d (toLiq x) (toLiq x') := by
  rw [toLiq_eq_toLiquid, toLiq_eq_toLiquid]; exact toLiquid_repEq h

theorem toLiq_noDrop (x : GoVal) : noDrop (toLiq x) = true := by
  rw [toLiq_eq_toLiquid]; exact toLiquid_noDrop x

theorem lessB_repEq {a a' b b' : GoVal} (ha : RepEq d a a') (hb : RepEq d b b') : lessB a b = lessB a' b' := by
  unfold lessB Cmp.less
  rw [lessTL_repEq (toLiq_repEq ha) (toLiq_repEq hb) (toLiq_noDrop _) (toLiq_noDrop _) (toLiq_noDrop _) (toLiq_noDrop _)]

theorem sortLe_repEq {a a' b b' : GoVal} (ha : RepEq d a a') (hb : RepEq d b b') : sortLe a b = sortLe a' b' := by
  unfold sortLe; rw [lessB_repEq hb ha]

theorem kclass_repEq {x x' : GoVal} (h : RepEq d x x') : kclass x = kclass x' := by
  have := toLiq_repEq h
  unfold kclass
  rcases repEq_noDrop_cases (toLiq_noDrop x) (toLiq_noDrop x') this with e | ⟨h1, h2⟩
  · rw [e]
  · generalize toLiq x = u at *
    generalize toLiq x' = u' at *
    cases u <;> simp [rigidF] at h1 <;> cases u' <;> simp [rigidF] at h2 <;> rfl

theorem smallNum_repEq {x x' : GoVal} (h : RepEq d x x') : smallNum x = smallNum x' := by
  have := toLiq_repEq h
  unfold smallNum
  rcases repEq_noDrop_cases (toLiq_noDrop x) (toLiq_noDrop x') this with e | ⟨h1, h2⟩
  · rw [e]
  · generalize toLiq x = u at *
    generalize toLiq x' = u' at *
    cases u <;> simp [rigidF] at h1 <;> cases u' <;> simp [rigidF] at h2 <;> rfl

theorem all_rel {p : GoVal → Bool} (hp : ∀ x x', RepEq d x x' → p x = p x') :
    ∀ {xs xs' : List GoVal}, normList d xs = normList d xs' → xs.all p = xs'.all p
  | [], [], _ => rfl
  | [], _ :: _, h => by simp [normList] at h
  | _ :: _, [], h => by simp [normList] at h
  | x :: xs, x' :: xs', h => by
    simp only [normList, List.cons.injEq] at h
    simp only [List.all_cons, hp x x' h.1, all_rel hp h.2]

theorem homog_rel {xs xs' : List GoVal} (h : normList d xs = normList d xs') : homog xs = homog xs' := by
  unfold homog
  rw [all_rel (p := isClass .int) (fun x x' hx => by simp [isClass, kclass_repEq hx]) h,
    all_rel (p := smallNum) (fun x x' hx => smallNum_repEq hx) h,
    all_rel (p := isClass .str) (fun x x' hx => by simp [isClass, kclass_repEq hx]) h,
    all_rel (p := isClass .bool) (fun x x' hx => by simp [isClass, kclass_repEq hx]) h,
    all_rel (p := isClass .nil) (fun x x' hx => by simp [isClass, kclass_repEq hx]) h,
    all_rel (p := isClass .other) (fun x x' hx => by simp [isClass, kclass_repEq hx]) h]

/-- sorting with an order that only looks at normal forms gives related lists -/
theorem mergeSort_rel (le : GoVal → GoVal → Bool)
    (hle : ∀ a b, le a b = le (a.norm d) (b.norm d))
    {xs xs' : List GoVal} (h : normList d xs = normList d xs') :
    normList d (xs.mergeSort le) = normList d (xs'.mergeSort le) := by
  simp only [normList_eq_map] at h ⊢
  rw [List.map_mergeSort (s := le) (fun a _ b _ => hle a b), List.map_mergeSort (s := le) (fun a _ b _ => hle a b), h]

/-! ## Go's insertion sort (at most 12 elements) with a comparator that respects the equivalence -/

/-- lists related element by element -/
abbrev NL (d : Bool) (ys ys' : List GoVal) : Prop := normList d ys = normList d ys'

theorem NL.cons {x x' : GoVal} {ys ys' : List GoVal} (hx : RepEq d x x') (h : NL d ys ys') : NL d (x :: ys) (x' :: ys') := by
  show normList d (x :: ys) = normList d (x' :: ys')
  simp only [normList, List.cons.injEq]
  exact ⟨hx, h⟩

theorem NL.reverse {ys ys' : List GoVal} (h : NL d ys ys') : NL d ys.reverse ys'.reverse := by
  show normList d ys.reverse = normList d ys'.reverse
  have h' : normList d ys = normList d ys' := h
  simp only [normList_eq_map, List.map_reverse] at h' ⊢
  rw [h']

theorem insertRevM_rel {less : GoVal → GoVal → R Bool}
    (hl : ∀ a a' b b', RepEq d a a' → RepEq d b b' → less a b = less a' b')
    {x x' : GoVal} (hx : RepEq d x x') :
    ∀ {rev rev' : List GoVal}, NL d rev rev' → RRel false (NL d) (insertRevM less x rev) (insertRevM less x' rev')
  | [], [], _ => by simp only [insertRevM, RRel]; exact NL.cons hx rfl
  | [], _ :: _, h => by simp [NL, normList] at h
  | _ :: _, [], h => by simp [NL, normList] at h
  | y :: rev, y' :: rev', h => by
    have h' : normList d (y :: rev) = normList d (y' :: rev') := h
    simp only [normList, List.cons.injEq] at h'
    simp only [insertRevM, hl x x' y y' hx h'.1]
    cases less x' y' with
    | ok b =>
      simp only [Res.bind]
      cases b with
      | true =>
        simp only [if_true]
        exact RRel.bind (insertRevM_rel hl hx h'.2) (fun r r' hr => NL.cons h'.1 hr)
      | false => simp only [Bool.false_eq_true, if_false, RRel]; exact NL.cons hx h
    | _ => simp [Res.bind, RRel]

theorem insertionLoopM_rel {less : GoVal → GoVal → R Bool}
    (hl : ∀ a a' b b', RepEq d a a' → RepEq d b b' → less a b = less a' b') :
    ∀ {rest rest' : List GoVal}, NL d rest rest' → ∀ {rev rev' : List GoVal}, NL d rev rev' →
      RRel false (NL d) (insertionLoopM less rev rest) (insertionLoopM less rev' rest')
  | [], [], _, _, _, hr => by simp only [insertionLoopM, RRel]; exact hr.reverse
  | [], _ :: _, h, _, _, _ => by simp [NL, normList] at h
  | _ :: _, [], h, _, _, _ => by simp [NL, normList] at h
  | x :: rest, x' :: rest', h, _, _, hr => by
    have h' : normList d (x :: rest) = normList d (x' :: rest') := h
    simp only [normList, List.cons.injEq] at h'
    simp only [insertionLoopM]
    exact RRel.bind (insertRevM_rel hl h'.1 hr) (fun r r' hrr => insertionLoopM_rel hl h'.2 hrr)

theorem insertionSortM_rel {less : GoVal → GoVal → R Bool}
    (hl : ∀ a a' b b', RepEq d a a' → RepEq d b b' → less a b = less a' b')
    {xs xs' : List GoVal} (h : NL d xs xs') : RRel false (NL d) (insertionSortM less xs) (insertionSortM less xs') :=
  insertionLoopM_rel hl h rfl

theorem less_repEq {a a' b b' : GoVal} (ha : RepEq d a a') (hb : RepEq d b b') : Cmp.less a b = Cmp.less a' b' := by
  unfold Cmp.less
  rw [lessTL_repEq (toLiq_repEq ha) (toLiq_repEq hb) (toLiq_noDrop _) (toLiq_noDrop _) (toLiq_noDrop _) (toLiq_noDrop _)]

theorem sortM_length {xs ys : List GoVal} (h : sortM xs = .ok ys) : ys.length = xs.length := by
  unfold sortM at h
  split at h
  · exact (insertionSortM_perm h).length_eq
  · split at h
    · simp [notSWO] at h
    · injection h with h; subst h; exact (List.mergeSort_perm _ _).length_eq

theorem sortByM_length (key : Bytes) {xs ys : List GoVal} (h : sortByM key xs = .ok ys) : ys.length = xs.length := by
  unfold sortByM at h
  split at h
  · exact (insertionSortM_perm h).length_eq
  · split at h
    · simp [notSWO] at h
    · injection h with h; subst h; exact (List.mergeSort_perm _ _).length_eq

/-- `values.Sort`: the exact list of two related arrays is related (both paths) -/
theorem sortM_rel {xs xs' : List GoVal} (h : NL d xs xs') : RRel false (NL d) (sortM xs) (sortM xs') := by
  unfold sortM
  rw [normList_length h, homog_rel h]
  split
  · exact insertionSortM_rel (fun _ _ _ _ ha hb => less_repEq ha hb) h
  · split
    · simp [notSWO, RRel]
    · exact mergeSort_rel sortLe (fun a b => sortLe_repEq (RepEq.norm_right a) (RepEq.norm_right b)) h

/-! ## `sort` by a key -/

theorem keyIndex_noDrop (key : Bytes) (x : GoVal) : noDrop (keyIndex key x) = true := by
  unfold keyIndex
  split
  · exact toLiquid_noDrop _
  · exact toLiquid_noDrop _
  · rfl

theorem keyIndex_repEq (key : Bytes) {x x' : GoVal} (h : RepEq d x x') :
    RepEq d (keyIndex key x) (keyIndex key x') := by
  have ht := toLiquid_repEq h
  have hnd := toLiquid_noDrop x
  have hnd' := toLiquid_noDrop x'
  unfold keyIndex
  rcases repEq_noDrop_cases hnd hnd' ht with e | ⟨h1, h2⟩
  · rw [e]; exact RepEq.refl _
  · generalize x.toLiquid = u at *
    generalize x'.toLiquid = u' at *
    cases u with
    | map kt vt kvs =>
      rcases norm_inv_map hnd' ht with rfl | ⟨_, vt', kvs', rfl, _, hn⟩
      · exact RepEq.refl _
      · cases kt <;> first | exact toLiquid_repEq (mapFind_rel hn _).1 | exact RepEq.refl _
    | slice t xs =>
      obtain ⟨xs', hs, _⟩ := norm_inv_seq (u := .slice t xs) rfl hnd' ht
      cases u' <;> simp [seqElems?] at hs <;> exact RepEq.refl _
    | array t xs =>
      obtain ⟨xs', hs, _⟩ := norm_inv_seq (u := .array t xs) rfl hnd' ht
      cases u' <;> simp [seqElems?] at hs <;> exact RepEq.refl _
    | _ => simp [rigidF] at h1

theorem keyIndex_isNil (key : Bytes) {x x' : GoVal} (h : RepEq d x x') : (keyIndex key x).isNil = (keyIndex key x').isNil :=
  isNil_repEq_noDrop (keyIndex_noDrop key x) (keyIndex_noDrop key x') (keyIndex_repEq key h)

theorem lessByKey_repEq (key : Bytes) {a a' b b' : GoVal} (ha : RepEq d a a') (hb : RepEq d b b') :
    lessByKey key a b = lessByKey key a' b' := by
  unfold lessByKey
  rw [keyIndex_isNil key ha, keyIndex_isNil key hb,
    lessB_repEq (keyIndex_repEq key ha) (keyIndex_repEq key hb)]

theorem sortByLe_repEq (key : Bytes) {a a' b b' : GoVal} (ha : RepEq d a a') (hb : RepEq d b b') :
    sortByLe key a b = sortByLe key a' b' := by
  unfold sortByLe; rw [lessByKey_repEq key hb ha]

theorem keys_rel (key : Bytes) : ∀ {xs xs' : List GoVal}, normList d xs = normList d xs' →
    normList d ((xs.map (keyIndex key)).filter nonNil) = normList d ((xs'.map (keyIndex key)).filter nonNil)
  | [], [], _ => rfl
  | [], _ :: _, h => by simp [normList] at h
  | _ :: _, [], h => by simp [normList] at h
  | x :: xs, x' :: xs', h => by
    simp only [normList, List.cons.injEq] at h
    have hk := keyIndex_repEq key h.1
    have ih := keys_rel key h.2
    have hn := keyIndex_isNil key h.1
    cases hc : (keyIndex key x').isNil with
    | true => simp only [List.map_cons, List.filter_cons, nonNil, hn, hc]; exact ih
    | false =>
      simp only [List.map_cons, List.filter_cons, nonNil, hn, hc, Bool.not_false, if_true, normList, ih]
      rw [hk]

theorem homogBy_rel (key : Bytes) {xs xs' : List GoVal} (h : normList d xs = normList d xs') :
    homogBy key xs = homogBy key xs' := homog_rel (keys_rel key h)

/-- what the eager adapter does with the result of a body that returns no error value -/
def wrapR : R GoVal → Res Cause (Except Cause GoVal)
  | .ok v => ret v
  | .err c => .err c
  | .panic w => .panic w
  | .unmodelled w => .unmodelled w

theorem eager_val2 (f : List GoVal → R GoVal) (a b : GoVal) : eager f [.val a, .val b] = wrapR (f [a, b]) := by
  simp only [eager, FilterImpl.ofEager, FilterImpl.ofEager.collect, Res.bind]
  cases f [a, b] <;> simp [wrapR]

theorem wrapR_rel {t : Bool} {r r' : R GoVal} (h : RRel t (RepEq false) r r') : RRel t (ExRel false) (wrapR r) (wrapR r') := by
  cases r <;> cases r' <;> simp only [RRel] at h <;> simp only [wrapR, ret, RRel] <;> first | exact bytesToString_rel h | exact h

theorem lessByKeyM_repEq (key : Bytes) {a a' b b' : GoVal} (ha : RepEq d a a') (hb : RepEq d b b') :
    lessByKeyM key a b = lessByKeyM key a' b' := by
  unfold lessByKeyM
  rw [keyIndex_isNil key ha, keyIndex_isNil key hb,
    less_repEq (keyIndex_repEq key ha) (keyIndex_repEq key hb)]

theorem sortByM_rel (key : Bytes) {xs xs' : List GoVal} (h : NL d xs xs') : RRel false (NL d) (sortByM key xs) (sortByM key xs') := by
  unfold sortByM
  rw [normList_length h, homogBy_rel key h]
  split
  · exact insertionSortM_rel (fun _ _ _ _ ha hb => lessByKeyM_repEq key ha hb) h
  · split
    · simp [notSWO, RRel]
    · exact mergeSort_rel (sortByLe key) (fun a b => sortByLe_repEq key (RepEq.norm_right a) (RepEq.norm_right b)) h

theorem rrel_false_cases {α} {R : α → α → Prop} {r r' : Res Cause α} (h : RRel false R r r') :
    (∃ a a', r = .ok a ∧ r' = .ok a' ∧ R a a') ∨ (r = r' ∧ ∀ a, r ≠ .ok a) := by
  cases r <;> cases r' <;> simp only [RRel] at h <;> simp_all

/-- related results that are no drops (a sorted array) -/
def SR (d : Bool) (v v' : GoVal) : Prop := RepEq d v v' ∧ noDrop v = true ∧ noDrop v' = true

theorem wrapSR_rel {t : Bool} {r r' : R GoVal} (h : RRel t (SR d) r r') : RRel t (ExRel d) (wrapR r) (wrapR r') := by
  cases r <;> cases r' <;> simp only [RRel] at h <;> simp only [wrapR, ret, RRel] <;>
    first | exact bytesToString_rel_noDrop h.1 h.2.1 h.2.2 | exact h

/-- the test for a determined verbatim list: always passed up to 12 elements; beyond, it looks at
    encodings, so one side may be `unmodelled` -/
theorem stable_out (t : Bool) (le : GoVal → GoVal → Bool) {ys ys' : List GoVal} (hn : NL d ys ys')
    (ht : t = true ∨ ys.length ≤ maxInsertion) :
    RRel t (SR d)
      (if true && !stableEnough le ys then tieOrder else .ok (.slice .any ys))
      (if true && !stableEnough le ys' then tieOrder else .ok (.slice .any ys')) := by
  have hl := normList_length hn
  rcases ht with ht | ht
  · cases h1 : stableEnough le ys <;> cases h2 : stableEnough le ys' <;>
      simp only [Bool.true_and, Bool.not_true, Bool.not_false, if_true, Bool.false_eq_true, if_false, tieOrder]
    · exact RRel.unmL ht _ _
    · exact RRel.unmL ht _ _
    · exact RRel.unmR ht _ _
    · exact ⟨slice_any_rel hn, rfl, rfl⟩
  · have h1 : stableEnough le ys = true := by simp [stableEnough, ht]
    have h2 : stableEnough le ys' = true := by simp [stableEnough, ← hl, ht]
    simp only [h1, h2, Bool.not_true, Bool.and_false, Bool.false_eq_true, if_false]
    exact ⟨slice_any_rel hn, rfl, rfl⟩

/-- `sort`, `sort: key`: related results; exactly (`t = false`) when the array has at most 12
    elements, up to the `unmodelled` tie test beyond -/
theorem sortWith_rel_gen (t : Bool) {xs xs' : List GoVal} {k k' : GoVal} (hx : NL d xs xs') (hk : URel d k k')
    (ht : t = true ∨ xs.length ≤ maxInsertion) :
    RRel t (SR d) (sortWith true [.slice .any xs, k]) (sortWith true [.slice .any xs', k']) := by
  have hperm : ∀ (r r' : R (List GoVal)) (le : GoVal → GoVal → Bool), RRel false (NL d) r r' →
      (∀ ys, r = .ok ys → ys.length = xs.length) →
      RRel t (SR d)
        (r.bind fun ys => if true && !stableEnough le ys then tieOrder else .ok (.slice .any ys))
        (r'.bind fun ys => if true && !stableEnough le ys then tieOrder else .ok (.slice .any ys)) := by
    intro r r' le hr hlen'
    rcases rrel_false_cases hr with ⟨ys, ys', rfl, rfl, hn⟩ | ⟨rfl, hno⟩
    · simp only [Res.bind]
      refine stable_out t le hn ?_
      rcases ht with ht | ht
      · exact .inl ht
      · exact .inr (by rw [hlen' ys rfl]; exact ht)
    · cases r with
      | ok a => exact absurd rfl (hno a)
      | _ => cases t <;> simp [Res.bind, RRel]
  by_cases hn : k = .nil
  · have hn' := (urel_nil_iff hk).mp hn
    subst hn hn'
    simp only [sortWith]
    exact hperm _ _ _ (sortM_rel hx) (fun ys h => sortM_length h)
  · have hn' : k' ≠ .nil := fun e => hn ((urel_nil_iff hk).mpr e)
    have e1 : sortWith true [.slice .any xs, k] = (sprintR k).bind fun nm =>
        (sortByM nm xs).bind fun ys =>
        if true && !stableEnough (sortByLe nm) ys then tieOrder else .ok (.slice .any ys) := by
      cases k <;> first | exact absurd rfl hn | rfl
    have e2 : sortWith true [.slice .any xs', k'] = (sprintR k').bind fun nm =>
        (sortByM nm xs').bind fun ys =>
        if true && !stableEnough (sortByLe nm) ys then tieOrder else .ok (.slice .any ys) := by
      cases k' <;> first | exact absurd rfl hn' | rfl
    rw [e1, e2, sprintR_repEq hk.2.2]
    cases sprintR k' with
    | ok nm =>
      simp only [Res.bind]
      exact hperm _ _ _ (sortByM_rel nm hx) (fun ys h => sortByM_length nm h)
    | _ => cases t <;> simp [Res.bind, RRel]

theorem sortWith_rel {xs xs' : List GoVal} {k k' : GoVal} (hx : NL d xs xs') (hk : URel d k k') :
    RRel true (SR d) (sortWith true [.slice .any xs, k]) (sortWith true [.slice .any xs', k']) :=
  sortWith_rel_gen true hx hk (.inl rfl)

/-- `sort`: the related sorted list, or `unmodelled` on a side where ties are visible -/
theorem sort_respects (d : Bool) : ImplRespects true d [.val .anys, .val .any] (eager sort) := by
  intro cs cs' h
  obtain ⟨a, as, a', as', rfl, rfl, h1, h2⟩ := argsRel_cons h
  obtain ⟨k, k', rfl, rfl, hk⟩ := Num.argsRel_any1 h2
  obtain ⟨c, c', rfl, rfl, xs, xs', rfl, rfl, hx, _, _⟩ := argRel_val h1
  rw [eager_val2, eager_val2]
  exact wrapSR_rel (sortWith_rel hx hk)

/-! ## `sort_natural` -/

theorem natKey_repEq {x x' : GoVal} (h : RepEq false x x') : natKey x = natKey x' := by
  have hs := sprintR_repEq h
  have hn := isNil_repEq_false h
  unfold natKey
  cases x <;> cases x' <;> simp [GoVal.isNil] at hn <;> simp only [hs]

theorem natKeyBy_repEq (name : Bytes) {m m' : GoVal} (h : RepEq false m m') : natKeyBy name m = natKeyBy name m' := by
  rcases repEq_false_cases h with rfl | ⟨h1, h2⟩
  · rfl
  · have hnd : noDrop m' = true := by cases m' <;> simp_all [rigidF, noDrop]
    cases m with
    | map kt vt kvs =>
      rcases norm_inv_map hnd h with rfl | ⟨_, vt', kvs', rfl, _, hn⟩
      · rfl
      · cases kt <;> try rfl
        have hf := mapFind_rel hn (.str name)
        simp only [natKeyBy]
        cases e1 : mapFind kvs (.str name) <;> cases e2 : mapFind kvs' (.str name) <;> simp [e1, e2] at hf
        · rfl
        · next v v' =>
          have hl := toLiquid_repEq_false hf
          simp only [Option.map_some]
          rcases repEq_false_cases hl with e | ⟨g1, g2⟩
          · rw [e]
          · generalize v.toLiquid = u at *
            generalize v'.toLiquid = u' at *
            cases u <;> simp [rigidF] at g1 <;> cases u' <;> simp [rigidF] at g2 <;> rfl
    | slice t xs =>
      obtain ⟨xs', hs, _⟩ := norm_inv_seq (u := .slice t xs) rfl hnd h
      cases m' <;> simp [seqElems?] at hs <;> rfl
    | array t xs =>
      obtain ⟨xs', hs, _⟩ := norm_inv_seq (u := .array t xs) rfl hnd h
      cases m' <;> simp [seqElems?] at hs <;> rfl
    | _ => simp [rigidF] at h1

/-- a decorated element up to representation -/
def dnorm (p : Bytes × GoVal) : Bytes × GoVal := (p.1, p.2.norm false)

theorem decorate_rel (f : GoVal → R Bytes) (hf : ∀ x x', RepEq false x x' → f x = f x') :
    ∀ {xs xs' : List GoVal}, normList false xs = normList false xs' →
      RRel false (fun ds ds' => ds.map dnorm = ds'.map dnorm) (decorate f xs) (decorate f xs')
  | [], [], _ => by simp [decorate, RRel]
  | [], _ :: _, h => by simp [normList] at h
  | _ :: _, [], h => by simp [normList] at h
  | x :: xs, x' :: xs', h => by
    simp only [normList, List.cons.injEq] at h
    simp only [decorate, hf x x' h.1]
    cases f x' with
    | ok k =>
      simp only [Res.bind]
      refine RRel.bind (decorate_rel f hf h.2) (fun ds ds' hd => ?_)
      simp only [RRel, List.map_cons, dnorm, hd, h.1]
    | _ => simp [Res.bind, RRel]

theorem mergeTexts_rel {ds ds' : List (Bytes × GoVal)} (h : ds.map dnorm = ds'.map dnorm) :
    (ds.mergeSort textLe).map dnorm = (ds'.mergeSort textLe).map dnorm := by
  have e : ∀ l : List (Bytes × GoVal), List.map dnorm (l.mergeSort textLe) = (List.map dnorm l).mergeSort textLe :=
    fun l => List.map_mergeSort (r := textLe) (s := textLe) (f := dnorm) (fun a _ b _ => rfl)
  rw [e, e, h]

theorem snd_rel {ys ys' : List (Bytes × GoVal)} (h : ys.map dnorm = ys'.map dnorm) :
    normList false (ys.map (·.2)) = normList false (ys'.map (·.2)) := by
  have := congrArg (List.map (·.2)) h
  simpa [normList_eq_map, List.map_map, dnorm, Function.comp_def] using this

theorem natLessM_repEq (f : GoVal → R Bytes) (hf : ∀ x x', RepEq false x x' → f x = f x')
    {a a' b b' : GoVal} (ha : RepEq false a a') (hb : RepEq false b b') : natLessM f a b = natLessM f a' b' := by
  unfold natLessM; rw [hf a a' ha, hf b b' hb]

/-- `sort.Sort(keySortable{…})`: exactly related up to 12 elements; beyond, up to the tie test -/
theorem sortNatM_rel (t : Bool) (f : GoVal → R Bytes) (hf : ∀ x x', RepEq false x x' → f x = f x')
    {xs xs' : List GoVal} (hx : NL false xs xs') (ht : t = true ∨ xs.length ≤ maxInsertion) :
    RRel t (NL false) (sortNatM true f xs) (sortNatM true f xs') := by
  unfold sortNatM
  rw [← normList_length hx]
  split
  · exact RRel.weaken (insertionSortM_rel (fun _ _ _ _ ha hb => natLessM_repEq f hf ha hb) hx)
  · next hlen =>
    have htt : t = true := by rcases ht with h | h; exact h; exact absurd h hlen
    subst htt
    refine RRel.bind (RRel.weaken (decorate_rel f hf hx)) (fun ds ds' hd => ?_)
    have hm := mergeTexts_rel hd
    simp only [Bool.true_and]
    cases tiesVisibleT (ds.mergeSort textLe) <;> cases tiesVisibleT (ds'.mergeSort textLe) <;>
      simp only [if_true, Bool.false_eq_true, if_false, tieOrder]
    · exact snd_rel hm
    · exact RRel.unmR rfl _ _
    · exact RRel.unmL rfl _ _
    · exact RRel.unmL rfl _ _

theorem sortNaturalWith_rel_gen (t : Bool) {xs xs' : List GoVal} {k k' : GoVal} (hx : NL false xs xs') (hk : URel false k k')
    (ht : t = true ∨ xs.length ≤ maxInsertion) :
    RRel t (RepEq false) (sortNaturalWith true [.slice .any xs, k]) (sortNaturalWith true [.slice .any xs', k']) := by
  have hbody : ∀ (f : GoVal → R Bytes), (∀ x x', RepEq false x x' → f x = f x') →
      RRel t (RepEq false)
        ((sortNatM true f xs).bind fun ys => .ok (.slice .any ys))
        ((sortNatM true f xs').bind fun ys => .ok (.slice .any ys)) := by
    intro f hf
    exact RRel.bind (sortNatM_rel t f hf hx ht) (fun ys ys' hn => slice_any_rel hn)
  by_cases hn : k = .nil
  · have hn' := (urel_nil_iff hk).mp hn
    subst hn hn'
    simp only [sortNaturalWith, Res.bind]
    exact hbody natKey (fun x x' h => natKey_repEq h)
  · have hn' : k' ≠ .nil := fun e => hn ((urel_nil_iff hk).mpr e)
    have e1 : sortNaturalWith true [.slice .any xs, k] = (sprintR k).bind fun nm =>
        (sortNatM true (natKeyBy nm) xs).bind fun ys => .ok (.slice .any ys) := by
      cases k <;> first | exact absurd rfl hn | (simp only [sortNaturalWith]; cases sprintR _ <;> rfl)
    have e2 : sortNaturalWith true [.slice .any xs', k'] = (sprintR k').bind fun nm =>
        (sortNatM true (natKeyBy nm) xs').bind fun ys => .ok (.slice .any ys) := by
      cases k' <;> first | exact absurd rfl hn' | (simp only [sortNaturalWith]; cases sprintR _ <;> rfl)
    rw [e1, e2, sprintR_repEq hk.2.2]
    cases sprintR k' with
    | ok nm => exact hbody (natKeyBy nm) (fun x x' h => natKeyBy_repEq nm h)
    | _ => cases t <;> simp [Res.bind, RRel]

theorem sortNaturalWith_rel {xs xs' : List GoVal} {k k' : GoVal} (hx : NL false xs xs') (hk : URel false k k') :
    RRel true (RepEq false) (sortNaturalWith true [.slice .any xs, k]) (sortNaturalWith true [.slice .any xs', k']) :=
  sortNaturalWith_rel_gen true hx hk (.inl rfl)

/-- on arrays of at most 12 elements (Go's insertion sort, modelled exactly) `sort` and `sort: key`
    respect the equivalence exactly: no `unmodelled` escape -/
theorem sortWith_rel_short {xs xs' : List GoVal} {k k' : GoVal} (hx : NL d xs xs') (hk : URel d k k')
    (hlen : xs.length ≤ maxInsertion) :
    RRel false (SR d) (sortWith true [.slice .any xs, k]) (sortWith true [.slice .any xs', k']) :=
  sortWith_rel_gen false hx hk (.inr hlen)

/-- the same for `sort_natural` and `sort_natural: key` -/
theorem sortNaturalWith_rel_short {xs xs' : List GoVal} {k k' : GoVal} (hx : NL false xs xs') (hk : URel false k k')
    (hlen : xs.length ≤ maxInsertion) :
    RRel false (RepEq false) (sortNaturalWith true [.slice .any xs, k]) (sortNaturalWith true [.slice .any xs', k']) :=
  sortNaturalWith_rel_gen false hx hk (.inr hlen)

theorem sortNatural_respects : ImplRespects true false [.val .anys, .val .any] (eager sortNatural) := by
  intro cs cs' h
  obtain ⟨a, as, a', as', rfl, rfl, h1, h2⟩ := argsRel_cons h
  obtain ⟨k, k', rfl, rfl, hk⟩ := Num.argsRel_any1 h2
  obtain ⟨c, c', rfl, rfl, xs, xs', rfl, rfl, hx, _, _⟩ := argRel_val h1
  rw [eager_val2, eager_val2]
  exact wrapR_rel (sortNaturalWith_rel hx hk)

/-! ## `sort_natural` with drops nested in containers (every `d`)

`sortNaturalFilter` looks at its elements as they are (`v == nil`, `reflect.ValueOf(m)`): it relies on `Convert` to
`[]any` having passed every element through `ToLiquid`. So the sort texts of two related elements agree when neither
is a drop at the top (`natKey_repEq_noDrop`, `natKeyBy_repEq_noDrop`), and "no element is a drop" is carried through
the insertion sort and the decoration (`NLD`). -/

theorem rrel_mono {t : Bool} {α} {R S : α → α → Prop} (hRS : ∀ a a', R a a' → S a a') {r r' : Res Cause α}
    (h : RRel t R r r') : RRel t S r r' := by
  cases r <;> cases r' <;> simp only [RRel] at h ⊢ <;> first | exact hRS _ _ h | exact h

theorem noDrops_cons {y : GoVal} {ys : List GoVal} (hy : noDrop y = true) (h : NoDrops ys) : NoDrops (y :: ys) := by
  intro z hz
  rcases List.mem_cons.mp hz with rfl | hz
  · exact hy
  · exact h z hz

theorem noDrops_reverse {ys : List GoVal} (h : NoDrops ys) : NoDrops ys.reverse :=
  fun z hz => h z (List.mem_reverse.mp hz)

/-- lists related element by element, none of whose elements is a drop at the top (a converted `[]any`) -/
def NLD (d : Bool) (ys ys' : List GoVal) : Prop := NL d ys ys' ∧ NoDrops ys ∧ NoDrops ys'

theorem NLD.nil : NLD d [] [] := ⟨rfl, NoDrops.nil, NoDrops.nil⟩

theorem NLD.cons {x x' : GoVal} {ys ys' : List GoVal} (hx : RepEq d x x') (nx : noDrop x = true) (nx' : noDrop x' = true)
    (h : NLD d ys ys') : NLD d (x :: ys) (x' :: ys') :=
  ⟨NL.cons hx h.1, noDrops_cons nx h.2.1, noDrops_cons nx' h.2.2⟩

theorem NLD.reverse {ys ys' : List GoVal} (h : NLD d ys ys') : NLD d ys.reverse ys'.reverse :=
  ⟨NL.reverse h.1, noDrops_reverse h.2.1, noDrops_reverse h.2.2⟩

/-- a comparator that respects the equivalence on values that are no drops at the top -/
def LessRespectsND (d : Bool) (less : GoVal → GoVal → R Bool) : Prop :=
  ∀ a a' b b', noDrop a = true → noDrop a' = true → noDrop b = true → noDrop b' = true →
    RepEq d a a' → RepEq d b b' → less a b = less a' b'

theorem insertRevM_relD {less : GoVal → GoVal → R Bool} (hl : LessRespectsND d less)
    {x x' : GoVal} (hx : RepEq d x x') (nx : noDrop x = true) (nx' : noDrop x' = true) :
    ∀ {rev rev' : List GoVal}, NLD d rev rev' → RRel false (NLD d) (insertRevM less x rev) (insertRevM less x' rev')
  | [], [], _ => by simp only [insertRevM, RRel]; exact NLD.cons hx nx nx' NLD.nil
  | [], _ :: _, h => by have := h.1; simp [NL, normList] at this
  | _ :: _, [], h => by have := h.1; simp [NL, normList] at this
  | y :: rev, y' :: rev', h => by
    have h' : normList d (y :: rev) = normList d (y' :: rev') := h.1
    simp only [normList, List.cons.injEq] at h'
    have ny : noDrop y = true := h.2.1.head
    have ny' : noDrop y' = true := h.2.2.head
    have htl : NLD d rev rev' := ⟨h'.2, h.2.1.tail, h.2.2.tail⟩
    simp only [insertRevM, hl x x' y y' nx nx' ny ny' hx h'.1]
    cases less x' y' with
    | ok b =>
      simp only [Res.bind]
      cases b with
      | true =>
        simp only [if_true]
        exact RRel.bind (insertRevM_relD hl hx nx nx' htl) (fun r r' hr => NLD.cons h'.1 ny ny' hr)
      | false => simp only [Bool.false_eq_true, if_false, RRel]; exact NLD.cons hx nx nx' h
    | _ => simp [Res.bind, RRel]

theorem insertionLoopM_relD {less : GoVal → GoVal → R Bool} (hl : LessRespectsND d less) :
    ∀ {rest rest' : List GoVal}, NLD d rest rest' → ∀ {rev rev' : List GoVal}, NLD d rev rev' →
      RRel false (NLD d) (insertionLoopM less rev rest) (insertionLoopM less rev' rest')
  | [], [], _, _, _, hr => by simp only [insertionLoopM, RRel]; exact hr.reverse
  | [], _ :: _, h, _, _, _ => by have := h.1; simp [NL, normList] at this
  | _ :: _, [], h, _, _, _ => by have := h.1; simp [NL, normList] at this
  | x :: rest, x' :: rest', h, _, _, hr => by
    have h' : normList d (x :: rest) = normList d (x' :: rest') := h.1
    simp only [normList, List.cons.injEq] at h'
    have htl : NLD d rest rest' := ⟨h'.2, h.2.1.tail, h.2.2.tail⟩
    simp only [insertionLoopM]
    exact RRel.bind (insertRevM_relD hl h'.1 h.2.1.head h.2.2.head hr) (fun r r' hrr => insertionLoopM_relD hl htl hrr)

/-- Go's insertion sort of a converted `[]any` with a comparator that respects the equivalence on non-drops -/
theorem insertionSortM_relD {less : GoVal → GoVal → R Bool} (hl : LessRespectsND d less)
    {xs xs' : List GoVal} (h : NLD d xs xs') : RRel false (NLD d) (insertionSortM less xs) (insertionSortM less xs') :=
  insertionLoopM_relD hl h NLD.nil

/-- the sort text of `sort_natural`: related elements that went through `ToLiquid` have the same text — a drop that
    yields nil IS nil there, and the text of anything else is `fmt.Sprint(values.ResolveDrops(·))` -/
theorem natKey_repEq_noDrop {x x' : GoVal} (nx : noDrop x = true) (nx' : noDrop x' = true) (h : RepEq d x x') :
    natKey x = natKey x' := by
  have hs := sprintR_repEq h
  have hn := isNil_repEq_noDrop nx nx' h
  unfold natKey
  cases x <;> cases x' <;> simp [GoVal.isNil] at hn <;> simp only [hs]

/-- the sort text of `sort_natural: key`: the entry of a string-keyed map goes through `ToLiquid` before the string
    test, so related maps (entries that are drops, drops of drops, drops that yield nil) have the same text -/
theorem natKeyBy_repEq_noDrop (name : Bytes) {m m' : GoVal} (nm : noDrop m = true) (nm' : noDrop m' = true)
    (h : RepEq d m m') : natKeyBy name m = natKeyBy name m' := by
  rcases repEq_noDrop_cases nm nm' h with rfl | ⟨h1, h2⟩
  · rfl
  · cases m with
    | map kt vt kvs =>
      rcases norm_inv_map nm' h with rfl | ⟨_, vt', kvs', rfl, _, hn⟩
      · rfl
      · cases kt <;> try rfl
        have hf := mapFind_rel hn (.str name)
        simp only [natKeyBy]
        cases e1 : mapFind kvs (.str name) <;> cases e2 : mapFind kvs' (.str name) <;> simp [e1, e2] at hf
        · rfl
        · next v v' =>
          have hl := toLiquid_repEq hf
          simp only [Option.map_some]
          rcases repEq_noDrop_cases (toLiquid_noDrop v) (toLiquid_noDrop v') hl with e | ⟨g1, g2⟩
          · rw [e]
          · generalize v.toLiquid = u at *
            generalize v'.toLiquid = u' at *
            cases u <;> simp [rigidF] at g1 <;> cases u' <;> simp [rigidF] at g2 <;> rfl
    | slice t xs =>
      obtain ⟨xs', hs, _⟩ := norm_inv_seq (u := .slice t xs) rfl nm' h
      cases m' <;> simp [seqElems?] at hs <;> rfl
    | array t xs =>
      obtain ⟨xs', hs, _⟩ := norm_inv_seq (u := .array t xs) rfl nm' h
      cases m' <;> simp [seqElems?] at hs <;> rfl
    | _ => simp [rigidF] at h1

/-- a sort-text function that respects the equivalence on values that are no drops at the top -/
def KeyRespectsND (d : Bool) (f : GoVal → R Bytes) : Prop :=
  ∀ x x', noDrop x = true → noDrop x' = true → RepEq d x x' → f x = f x'

theorem natLessM_respectsND {f : GoVal → R Bytes} (hf : KeyRespectsND d f) : LessRespectsND d (natLessM f) := by
  intro a a' b b' na na' nb nb' ha hb
  unfold natLessM; rw [hf a a' na na' ha, hf b b' nb nb' hb]

/-- a decorated element up to representation, for every `d` -/
def dnormD (d : Bool) (p : Bytes × GoVal) : Bytes × GoVal := (p.1, p.2.norm d)

theorem decorate_relD {f : GoVal → R Bytes} (hf : KeyRespectsND d f) :
    ∀ {xs xs' : List GoVal}, NLD d xs xs' →
      RRel false (fun ds ds' => ds.map (dnormD d) = ds'.map (dnormD d)) (decorate f xs) (decorate f xs')
  | [], [], _ => by simp [decorate, RRel]
  | [], _ :: _, h => by have := h.1; simp [NL, normList] at this
  | _ :: _, [], h => by have := h.1; simp [NL, normList] at this
  | x :: xs, x' :: xs', h => by
    have h' : normList d (x :: xs) = normList d (x' :: xs') := h.1
    simp only [normList, List.cons.injEq] at h'
    have htl : NLD d xs xs' := ⟨h'.2, h.2.1.tail, h.2.2.tail⟩
    simp only [decorate, hf x x' h.2.1.head h.2.2.head h'.1]
    cases f x' with
    | ok k =>
      simp only [Res.bind]
      refine RRel.bind (decorate_relD hf htl) (fun ds ds' hd => ?_)
      simp only [RRel, List.map_cons, dnormD, hd, h'.1]
    | _ => simp [Res.bind, RRel]

theorem mergeTexts_relD {ds ds' : List (Bytes × GoVal)} (h : ds.map (dnormD d) = ds'.map (dnormD d)) :
    (ds.mergeSort textLe).map (dnormD d) = (ds'.mergeSort textLe).map (dnormD d) := by
  have e : ∀ l : List (Bytes × GoVal), List.map (dnormD d) (l.mergeSort textLe) = (List.map (dnormD d) l).mergeSort textLe :=
    fun l => List.map_mergeSort (r := textLe) (s := textLe) (f := dnormD d) (fun a _ b _ => rfl)
  rw [e, e, h]

theorem snd_relD {ys ys' : List (Bytes × GoVal)} (h : ys.map (dnormD d) = ys'.map (dnormD d)) :
    normList d (ys.map (·.2)) = normList d (ys'.map (·.2)) := by
  have := congrArg (List.map (·.2)) h
  simpa [normList_eq_map, List.map_map, dnormD, Function.comp_def] using this

/-- `sort.Sort(keySortable{…})` of a converted `[]any`, for every `d`: exactly related up to 12 elements; beyond, up
    to the tie test -/
theorem sortNatM_relD (t : Bool) {f : GoVal → R Bytes} (hf : KeyRespectsND d f)
    {xs xs' : List GoVal} (hx : NLD d xs xs') (ht : t = true ∨ xs.length ≤ maxInsertion) :
    RRel t (NL d) (sortNatM true f xs) (sortNatM true f xs') := by
  unfold sortNatM
  rw [← normList_length hx.1]
  split
  · exact RRel.weaken (rrel_mono (fun _ _ h => h.1) (insertionSortM_relD (natLessM_respectsND hf) hx))
  · next hlen =>
    have htt : t = true := by rcases ht with h | h; exact h; exact absurd h hlen
    subst htt
    refine RRel.bind (RRel.weaken (decorate_relD hf hx)) (fun ds ds' hd => ?_)
    have hm := mergeTexts_relD hd
    simp only [Bool.true_and]
    cases tiesVisibleT (ds.mergeSort textLe) <;> cases tiesVisibleT (ds'.mergeSort textLe) <;>
      simp only [if_true, Bool.false_eq_true, if_false, tieOrder]
    · exact snd_relD hm
    · exact RRel.unmR rfl _ _
    · exact RRel.unmL rfl _ _
    · exact RRel.unmL rfl _ _

/-- `sort_natural`, `sort_natural: key` for every `d` (drops nested in the elements, in the entries under the key, in
    the key argument): related results; exactly (`t = false`) when the array has at most 12 elements, up to the
    `unmodelled` tie test beyond -/
theorem sortNaturalWith_relD_gen (t : Bool) {xs xs' : List GoVal} {k k' : GoVal} (hx : NLD d xs xs') (hk : URel d k k')
    (ht : t = true ∨ xs.length ≤ maxInsertion) :
    RRel t (SR d) (sortNaturalWith true [.slice .any xs, k]) (sortNaturalWith true [.slice .any xs', k']) := by
  have hbody : ∀ (f : GoVal → R Bytes), KeyRespectsND d f →
      RRel t (SR d)
        ((sortNatM true f xs).bind fun ys => .ok (.slice .any ys))
        ((sortNatM true f xs').bind fun ys => .ok (.slice .any ys)) := by
    intro f hf
    exact RRel.bind (sortNatM_relD t hf hx ht) (fun ys ys' hn => ⟨slice_any_rel hn, rfl, rfl⟩)
  by_cases hn : k = .nil
  · have hn' := (urel_nil_iff hk).mp hn
    subst hn hn'
    simp only [sortNaturalWith, Res.bind]
    exact hbody natKey (fun x x' nx nx' h => natKey_repEq_noDrop nx nx' h)
  · have hn' : k' ≠ .nil := fun e => hn ((urel_nil_iff hk).mpr e)
    have e1 : sortNaturalWith true [.slice .any xs, k] = (sprintR k).bind fun nm =>
        (sortNatM true (natKeyBy nm) xs).bind fun ys => .ok (.slice .any ys) := by
      cases k <;> first | exact absurd rfl hn | (simp only [sortNaturalWith]; cases sprintR _ <;> rfl)
    have e2 : sortNaturalWith true [.slice .any xs', k'] = (sprintR k').bind fun nm =>
        (sortNatM true (natKeyBy nm) xs').bind fun ys => .ok (.slice .any ys) := by
      cases k' <;> first | exact absurd rfl hn' | (simp only [sortNaturalWith]; cases sprintR _ <;> rfl)
    rw [e1, e2, sprintR_repEq hk.2.2]
    cases sprintR k' with
    | ok nm => exact hbody (natKeyBy nm) (fun x x' nx nx' h => natKeyBy_repEq_noDrop nm nx nx' h)
    | _ => cases t <;> simp [Res.bind, RRel]

theorem sortNaturalWith_relD {xs xs' : List GoVal} {k k' : GoVal} (hx : NLD d xs xs') (hk : URel d k k') :
    RRel true (SR d) (sortNaturalWith true [.slice .any xs, k]) (sortNaturalWith true [.slice .any xs', k']) :=
  sortNaturalWith_relD_gen true hx hk (.inl rfl)

/-- on arrays of at most 12 elements `sort_natural` and `sort_natural: key` respect the equivalence with nested drops
    exactly: no `unmodelled` escape -/
theorem sortNaturalWith_relD_short {xs xs' : List GoVal} {k k' : GoVal} (hx : NLD d xs xs') (hk : URel d k k')
    (hlen : xs.length ≤ maxInsertion) :
    RRel false (SR d) (sortNaturalWith true [.slice .any xs, k]) (sortNaturalWith true [.slice .any xs', k']) :=
  sortNaturalWith_relD_gen false hx hk (.inr hlen)

/-- `sort_natural` (without key, with a string key, with any key argument): the related sorted list for every `d`, or
    `unmodelled` on a side where ties are visible beyond 12 elements -/
theorem sortNatural_respects_gen (d : Bool) : ImplRespects true d [.val .anys, .val .any] (eager sortNatural) := by
  intro cs cs' h
  obtain ⟨a, as, a', as', rfl, rfl, h1, h2⟩ := argsRel_cons h
  obtain ⟨k, k', rfl, rfl, hk⟩ := Num.argsRel_any1 h2
  obtain ⟨c, c', rfl, rfl, xs, xs', rfl, rfl, hx, nx, nx'⟩ := argRel_val h1
  rw [eager_val2, eager_val2]
  exact wrapSR_rel (sortNaturalWith_relD ⟨hx, nx, nx'⟩ hk)

end ArrF

/-- every standard filter except those that observe the Go representation (`reprFilters`:
    `json`, `inspect`, `type`; `uniq` included since `fixes/nested-drops-resolved`) respects representation equivalence up to `unmodelled` (`d = false`),
    for every name (registered or not) -/
theorem filterRespects_std_upto (name : Bytes) (h : name ∉ reprFilters) : FilterRespects true false name :=
  filterRespects_of_impl name (fun sg f hs hf =>
    goodEntry_table true false reprFilters
      (fun _ => goodEntry_of_sig true false ⟨ArrF.bn "sort", [.val .anys, .val .any], false⟩ (by decide +kernel) (ArrF.sort_respects false))
      (fun _ => goodEntry_of_sig true false ⟨ArrF.bn "sort_natural", [.val .anys, .val .any], false⟩ (by decide +kernel) ArrF.sortNatural_respects)
      (fun hn => absurd (by simp [reprFilters]) hn)
      (fun hn => absurd (by simp [reprFilters]) hn)
      (fun hn => absurd (by simp [reprFilters]) hn)
      (name, f) (lookupImpl_mem hf) h sg hs)

/-- the filters left out of the theorem for drops nested in containers (`d = true`): the filters that observe the Go
    representation, and nothing else — the same list as `reprFilters` (`nestedDropsOpen_eq_reprFilters`). `sort` is NOT
    among them since `fixes/sort-key-drops` (`ArrF.sort_respects`, every `d`), and `sort_natural` is not either
    (`ArrF.sortNatural_respects_gen`, every `d`). -/
def nestedDropsOpen : List Bytes := [JsonF.bn "json", JsonF.bn "inspect", JsonF.bn "type"]

theorem nestedDropsOpen_eq_reprFilters : nestedDropsOpen = reprFilters := rfl

/-- the engine without those three -/
def withoutNestedOpen (n : Bytes) : Bool := !nestedDropsOpen.contains n

/-- it is the engine of the theorem without nested drops (`withoutRepr`) -/
theorem withoutNestedOpen_eq_withoutRepr : withoutNestedOpen = withoutRepr := rfl

/-- every standard filter except `json`, `inspect`, `type` — `sort`, `sort: key`, `sort_natural` and `sort_natural: key`
    included — respects representation equivalence WITH drops nested in containers, up to `unmodelled` (the tie order
    of the two sorts beyond 12 elements), for every name (registered or not) -/
theorem filterRespects_std_nested (name : Bytes) (h : name ∉ nestedDropsOpen) : FilterRespects true true name :=
  filterRespects_of_impl name (fun sg f hs hf =>
    goodEntry_table true true nestedDropsOpen
      (fun _ => goodEntry_of_sig true true ⟨ArrF.bn "sort", [.val .anys, .val .any], false⟩ (by decide +kernel) (ArrF.sort_respects true))
      (fun _ => goodEntry_of_sig true true ⟨ArrF.bn "sort_natural", [.val .anys, .val .any], false⟩ (by decide +kernel) (ArrF.sortNatural_respects_gen true))
      (fun hn => absurd (by simp [nestedDropsOpen]) hn)
      (fun hn => absurd (by simp [nestedDropsOpen]) hn)
      (fun hn => absurd (by simp [nestedDropsOpen]) hn)
      (name, f) (lookupImpl_mem hf) h sg hs)
