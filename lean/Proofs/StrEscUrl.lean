import Liquid.Filters.Str
import Proofs.Utf8Lemmas

/-! # HTML escape/unescape and URL query escape/unescape -/

/-- exhaust the 256 bytes -/
theorem seu_forall_u8 {P : UInt8 → Prop} (h : ∀ n : Nat, n < 256 → P (UInt8.ofNat n)) (c : UInt8) : P c := by
  have := h c.toNat (UInt8.toNat_lt c)
  rwa [UInt8.ofNat_toNat] at this

/-! ## URL -/

set_option maxRecDepth 100000 in
theorem unhex_upperHexDigit (n : UInt8) (h : n < 16) : StrF.unhex (StrF.upperHexDigit n) = some n := by
  revert h
  refine seu_forall_u8 (P := fun n => n < 16 → StrF.unhex (StrF.upperHexDigit n) = some n) ?_ n
  decide

set_option maxRecDepth 100000 in
theorem hex_byte_roundtrip (c : UInt8) : (c / 16) * 16 + c % 16 = c ∧ c / 16 < 16 ∧ c % 16 < 16 := by
  refine seu_forall_u8 (P := fun c => (c / 16) * 16 + c % 16 = c ∧ c / 16 < 16 ∧ c % 16 < 16) ?_ c
  decide

theorem seu_urlDecode_cons_ne (c : UInt8) (t : Bytes) (h : c ≠ 37) :
    StrF.urlDecode (c :: t) = (StrF.urlDecode t).map ((if c == 43 then 32 else c) :: ·) := by
  rw [StrF.urlDecode.eq_4]
  · intro a b rest hh _; exact h hh
  · intro hh; exact h hh

theorem seu_urlDecode_pct (a b : UInt8) (t : Bytes) :
    StrF.urlDecode (37 :: a :: b :: t) =
      match StrF.unhex a, StrF.unhex b with
      | some x, some y => (StrF.urlDecode t).map ((x * 16 + y) :: ·)
      | _, _ => none := by
  rw [StrF.urlDecode]; rfl

set_option maxRecDepth 100000 in
theorem seu_unreserved_ne (c : UInt8) (h : StrF.urlUnreserved c = true) : c ≠ 37 ∧ c ≠ 43 ∧ c ≠ 32 ∧ c < 0x80 := by
  revert h
  refine seu_forall_u8 (P := fun c => StrF.urlUnreserved c = true → c ≠ 37 ∧ c ≠ 43 ∧ c ≠ 32 ∧ c < 0x80) ?_ c
  decide

theorem seu_urlDecode_encodeByte (c : UInt8) (t : Bytes) :
    StrF.urlDecode (StrF.urlEncodeByte c ++ t) = (StrF.urlDecode t).map (c :: ·) := by
  unfold StrF.urlEncodeByte
  by_cases h32 : c = 32
  · subst h32
    simp [seu_urlDecode_cons_ne]
  · by_cases hu : StrF.urlUnreserved c = true
    · have := seu_unreserved_ne c hu
      simp [h32, hu, seu_urlDecode_cons_ne, this.1, this.2.1]
    · have hr := hex_byte_roundtrip c
      simp [h32, hu, seu_urlDecode_pct, unhex_upperHexDigit _ hr.2.1, unhex_upperHexDigit _ hr.2.2, hr.1]

theorem urlDecode_urlEncode (s : Bytes) : StrF.urlDecode (StrF.urlEncode s) = some s := by
  induction s with
  | nil => rfl
  | cons c rest ih => simp [StrF.urlEncode, seu_urlDecode_encodeByte, ih]

/-- the output alphabet of `url.QueryEscape` -/
def SeuUrlAlpha (b : UInt8) : Prop :=
  StrF.urlUnreserved b = true ∨ b = 43 ∨ b = 37 ∨ (48 ≤ b ∧ b ≤ 57) ∨ (65 ≤ b ∧ b ≤ 70)

instance (b : UInt8) : Decidable (SeuUrlAlpha b) := by unfold SeuUrlAlpha; infer_instance

set_option maxRecDepth 100000 in
theorem seu_urlEncodeByte_alpha (c : UInt8) : ∀ b ∈ StrF.urlEncodeByte c, SeuUrlAlpha b ∧ b < 0x80 := by
  refine seu_forall_u8 (P := fun c => ∀ b ∈ StrF.urlEncodeByte c, SeuUrlAlpha b ∧ b < 0x80) ?_ c
  decide

theorem seu_urlEncode_mem (s : Bytes) : ∀ b ∈ StrF.urlEncode s, SeuUrlAlpha b ∧ b < 0x80 := by
  induction s with
  | nil => intro b hb; simp [StrF.urlEncode] at hb
  | cons c rest ih =>
    intro b hb
    simp only [StrF.urlEncode, List.mem_append] at hb
    cases hb with
    | inl h => exact seu_urlEncodeByte_alpha c b h
    | inr h => exact ih b h

theorem urlEncode_alphabet (s : Bytes) : ∀ b ∈ StrF.urlEncode s,
    StrF.urlUnreserved b = true ∨ b = 43 ∨ b = 37 ∨ (48 ≤ b ∧ b ≤ 57) ∨ (65 ≤ b ∧ b ≤ 70) :=
  fun b hb => (seu_urlEncode_mem s b hb).1

theorem urlEncode_ascii (s : Bytes) : ∀ b ∈ StrF.urlEncode s, b < 0x80 :=
  fun b hb => (seu_urlEncode_mem s b hb).2

theorem urlEncode_valid (s : Bytes) : ValidUtf8 (StrF.urlEncode s) :=
  validUtf8_of_all_ascii _ (urlEncode_ascii s)

/-! ## HTML escape -/

/-- `t` starts with one of the five entities `escape` produces: &amp; &lt; &gt; &#34; &#39; -/
def EscEntityPrefix (t : Bytes) : Prop :=
  [38, 97, 109, 112, 59] <+: t ∨ [38, 108, 116, 59] <+: t ∨ [38, 103, 116, 59] <+: t ∨
  [38, 35, 51, 52, 59] <+: t ∨ [38, 35, 51, 57, 59] <+: t

set_option maxRecDepth 100000 in
/-- the six cases of `escapeByte` -/
theorem seu_escapeByte_cases (b : UInt8) :
    (b = 38 ∧ StrF.escapeByte b = [38, 97, 109, 112, 59]) ∨
    (b = 39 ∧ StrF.escapeByte b = [38, 35, 51, 57, 59]) ∨
    (b = 60 ∧ StrF.escapeByte b = [38, 108, 116, 59]) ∨
    (b = 62 ∧ StrF.escapeByte b = [38, 103, 116, 59]) ∨
    (b = 34 ∧ StrF.escapeByte b = [38, 35, 51, 52, 59]) ∨
    (b ≠ 38 ∧ b ≠ 39 ∧ b ≠ 60 ∧ b ≠ 62 ∧ b ≠ 34 ∧ StrF.escapeByte b = [b]) := by
  refine seu_forall_u8 (P := fun b =>
    (b = 38 ∧ StrF.escapeByte b = [38, 97, 109, 112, 59]) ∨
    (b = 39 ∧ StrF.escapeByte b = [38, 35, 51, 57, 59]) ∨
    (b = 60 ∧ StrF.escapeByte b = [38, 108, 116, 59]) ∨
    (b = 62 ∧ StrF.escapeByte b = [38, 103, 116, 59]) ∨
    (b = 34 ∧ StrF.escapeByte b = [38, 35, 51, 52, 59]) ∨
    (b ≠ 38 ∧ b ≠ 39 ∧ b ≠ 60 ∧ b ≠ 62 ∧ b ≠ 34 ∧ StrF.escapeByte b = [b])) ?_ b
  decide

set_option maxRecDepth 100000 in
theorem seu_escapeByte_no_raw (c : UInt8) : ∀ b ∈ StrF.escapeByte c, b ≠ 60 ∧ b ≠ 62 ∧ b ≠ 39 ∧ b ≠ 34 := by
  refine seu_forall_u8 (P := fun c => ∀ b ∈ StrF.escapeByte c, b ≠ 60 ∧ b ≠ 62 ∧ b ≠ 39 ∧ b ≠ 34) ?_ c
  decide

theorem escape_eq_flatMap (s : Bytes) : StrF.escape s = s.flatMap StrF.escapeByte := by
  induction s with
  | nil => rfl
  | cons b rest ih => simp [StrF.escape, ih]

theorem escape_no_raw (s : Bytes) : ∀ b ∈ StrF.escape s, b ≠ 60 ∧ b ≠ 62 ∧ b ≠ 39 ∧ b ≠ 34 := by
  intro b hb
  rw [escape_eq_flatMap, List.mem_flatMap] at hb
  obtain ⟨c, _, hc⟩ := hb
  exact seu_escapeByte_no_raw c b hc

theorem seu_escapeByte_length_pos (b : UInt8) : 1 ≤ (StrF.escapeByte b).length := by
  rcases seu_escapeByte_cases b with h | h | h | h | h | h <;> simp [h.2] <;> simp [h.2.2.2.2.2]

theorem escape_length_ge (s : Bytes) : s.length ≤ (StrF.escape s).length := by
  induction s with
  | nil => simp
  | cons b rest ih =>
    have := seu_escapeByte_length_pos b
    simp only [StrF.escape, List.length_append, List.length_cons]
    omega

/-- a list `38 :: tl` without a second `38` splits around a `38` in exactly one way -/
theorem seu_split_amp (tl pre c : Bytes) (hno : (38 : UInt8) ∉ tl) (h : 38 :: tl = pre ++ 38 :: c) :
    pre = [] ∧ c = tl := by
  cases pre with
  | nil => simp at h; exact ⟨rfl, h.symm⟩
  | cons x pre' =>
    simp at h
    exact absurd (h.2 ▸ (by simp : (38 : UInt8) ∈ pre' ++ 38 :: c)) hno

theorem escape_amp_entity (s pre post : Bytes) (h : StrF.escape s = pre ++ 38 :: post) :
    EscEntityPrefix (38 :: post) := by
  induction s generalizing pre with
  | nil => simp [StrF.escape] at h
  | cons b rest ih =>
    simp only [StrF.escape] at h
    rcases List.append_eq_append_iff.mp h with ⟨a', _, h2⟩ | ⟨c', h1, h2⟩
    · exact ih a' h2
    · cases c' with
      | nil => exact ih [] (by simpa using h2.symm)
      | cons x c'' =>
        simp only [List.cons_append, List.cons.injEq] at h2
        obtain ⟨hx, hpost⟩ := h2
        subst hx
        subst hpost
        rcases seu_escapeByte_cases b with hb | hb | hb | hb | hb | hb
        · rw [hb.2] at h1
          obtain ⟨_, hc⟩ := seu_split_amp _ pre c'' (by decide) h1
          subst hc; simp [EscEntityPrefix]
        · rw [hb.2] at h1
          obtain ⟨_, hc⟩ := seu_split_amp _ pre c'' (by decide) h1
          subst hc; simp [EscEntityPrefix]
        · rw [hb.2] at h1
          obtain ⟨_, hc⟩ := seu_split_amp _ pre c'' (by decide) h1
          subst hc; simp [EscEntityPrefix]
        · rw [hb.2] at h1
          obtain ⟨_, hc⟩ := seu_split_amp _ pre c'' (by decide) h1
          subst hc; simp [EscEntityPrefix]
        · rw [hb.2] at h1
          obtain ⟨_, hc⟩ := seu_split_amp _ pre c'' (by decide) h1
          subst hc; simp [EscEntityPrefix]
        · obtain ⟨h38, _, _, _, _, he⟩ := hb
          rw [he] at h1
          cases pre with
          | nil => simp at h1; exact absurd h1.1 h38
          | cons y pre' => simp at h1

/-! ## `unescape` inverts `escape` -/

theorem seu_ent_amp (t : Bytes) : StrF.unescapeEntity (97 :: 109 :: 112 :: 59 :: t) = some ([38], 5) := by
  simp [StrF.unescapeEntity, StrF.scanName, StrF.isAlnum, StrF.entityLookup]
  decide

theorem seu_ent_lt (t : Bytes) : StrF.unescapeEntity (108 :: 116 :: 59 :: t) = some ([60], 4) := by
  simp [StrF.unescapeEntity, StrF.scanName, StrF.isAlnum, StrF.entityLookup]
  decide

theorem seu_ent_gt (t : Bytes) : StrF.unescapeEntity (103 :: 116 :: 59 :: t) = some ([62], 4) := by
  simp [StrF.unescapeEntity, StrF.scanName, StrF.isAlnum, StrF.entityLookup]
  decide

theorem seu_ent_34 (t : Bytes) : StrF.unescapeEntity (35 :: 51 :: 52 :: 59 :: t) = some ([34], 5) := by
  simp [StrF.unescapeEntity, StrF.scanNum, StrF.digitOf, StrF.wrap32, StrF.numRune]
  decide

theorem seu_ent_39 (t : Bytes) : StrF.unescapeEntity (35 :: 51 :: 57 :: 59 :: t) = some ([39], 5) := by
  simp [StrF.unescapeEntity, StrF.scanNum, StrF.digitOf, StrF.wrap32, StrF.numRune]
  decide

theorem seu_unescapeAux_amp (n : Nat) (rest out : Bytes) (k : Nat)
    (hE : StrF.unescapeEntity rest = some (out, k)) :
    StrF.unescapeAux (n + 1) (38 :: rest) =
      (StrF.unescapeAux n (rest.drop (k - 1))).map (out ++ ·) := by
  simp [StrF.unescapeAux, hE]

theorem seu_unescapeAux_plain (n : Nat) (b : UInt8) (rest : Bytes) (h : b ≠ 38) :
    StrF.unescapeAux (n + 1) (b :: rest) = (StrF.unescapeAux n rest).map (b :: ·) := by
  simp [StrF.unescapeAux, h]

theorem seu_unescapeAux_escape (s : Bytes) :
    ∀ n, (StrF.escape s).length ≤ n → StrF.unescapeAux n (StrF.escape s) = some s := by
  induction s with
  | nil => intro n _; cases n <;> rfl
  | cons b rest ih =>
    intro n hn
    simp only [StrF.escape, List.length_append] at hn ⊢
    rcases seu_escapeByte_cases b with hb | hb | hb | hb | hb | hb
    · rw [hb.2] at hn ⊢
      obtain ⟨m, rfl⟩ : ∃ m, n = m + 1 := ⟨n - 1, by simp at hn; omega⟩
      have := ih m (by simp at hn; omega)
      simp [seu_unescapeAux_amp _ _ _ _ (seu_ent_amp _), this, hb.1]
    · rw [hb.2] at hn ⊢
      obtain ⟨m, rfl⟩ : ∃ m, n = m + 1 := ⟨n - 1, by simp at hn; omega⟩
      have := ih m (by simp at hn; omega)
      simp [seu_unescapeAux_amp _ _ _ _ (seu_ent_39 _), this, hb.1]
    · rw [hb.2] at hn ⊢
      obtain ⟨m, rfl⟩ : ∃ m, n = m + 1 := ⟨n - 1, by simp at hn; omega⟩
      have := ih m (by simp at hn; omega)
      simp [seu_unescapeAux_amp _ _ _ _ (seu_ent_lt _), this, hb.1]
    · rw [hb.2] at hn ⊢
      obtain ⟨m, rfl⟩ : ∃ m, n = m + 1 := ⟨n - 1, by simp at hn; omega⟩
      have := ih m (by simp at hn; omega)
      simp [seu_unescapeAux_amp _ _ _ _ (seu_ent_gt _), this, hb.1]
    · rw [hb.2] at hn ⊢
      obtain ⟨m, rfl⟩ : ∃ m, n = m + 1 := ⟨n - 1, by simp at hn; omega⟩
      have := ih m (by simp at hn; omega)
      simp [seu_unescapeAux_amp _ _ _ _ (seu_ent_34 _), this, hb.1]
    · obtain ⟨h38, _, _, _, _, he⟩ := hb
      rw [he] at hn ⊢
      obtain ⟨m, rfl⟩ : ∃ m, n = m + 1 := ⟨n - 1, by simp at hn; omega⟩
      have := ih m (by simp at hn; omega)
      simp [seu_unescapeAux_plain, h38, this]

theorem unescape_escape_lemma (s : Bytes) : StrF.unescape (StrF.escape s) = some s :=
  seu_unescapeAux_escape s _ (Nat.le_refl _)

theorem escapeOnce_escape (s : Bytes) : StrF.escapeOnce (StrF.escape s) = some (StrF.escape s) := by
  simp [StrF.escapeOnce, unescape_escape_lemma]

theorem seu_escapeOnce_some (s t : Bytes) (h : StrF.escapeOnce s = some t) :
    ∃ u, StrF.unescape s = some u ∧ t = StrF.escape u := by
  unfold StrF.escapeOnce at h
  cases hu : StrF.unescape s with
  | none => simp [hu] at h
  | some u => simp [hu] at h; exact ⟨u, rfl, h.symm⟩

theorem escapeOnce_idem (s t : Bytes) (h : StrF.escapeOnce s = some t) : StrF.escapeOnce t = some t := by
  obtain ⟨u, _, rfl⟩ := seu_escapeOnce_some s t h
  exact escapeOnce_escape u

theorem escapeOnce_no_raw (s t : Bytes) (h : StrF.escapeOnce s = some t) :
    ∀ b ∈ t, b ≠ 60 ∧ b ≠ 62 ∧ b ≠ 39 ∧ b ≠ 34 := by
  obtain ⟨u, _, rfl⟩ := seu_escapeOnce_some s t h
  exact escape_no_raw u

/-! ## Non-vacuity examples -/

-- `<a&` ↦ `&lt;a&amp;`
example : StrF.escape [60, 97, 38] = [38, 108, 116, 59, 97, 38, 97, 109, 112, 59] := by decide
-- `"'>` ↦ `&#34;&#39;&gt;`
example : StrF.escape [34, 39, 62] = [38, 35, 51, 52, 59, 38, 35, 51, 57, 59, 38, 103, 116, 59] := by decide
-- `&#x41;` ↦ `A`
example : StrF.unescape [38, 35, 120, 52, 49, 59] = some [65] := by decide
-- `&lt;a&amp;` ↦ `<a&`
example : StrF.unescape [38, 108, 116, 59, 97, 38, 97, 109, 112, 59] = some [60, 97, 38] := by decide
-- a bare `&` followed by a space stays
example : StrF.unescape [97, 38, 32, 98] = some [97, 38, 32, 98] := by decide
-- `&lt;<` ↦ `&lt;&lt;` (escape_once does not escape the entity twice)
example : StrF.escapeOnce [38, 108, 116, 59, 60] = some [38, 108, 116, 59, 38, 108, 116, 59] := by decide
-- whereas escape does
example : StrF.escape [38, 108, 116, 59, 60] = [38, 97, 109, 112, 59, 108, 116, 59, 38, 108, 116, 59] := by decide
-- an entity outside the modelled table: `&copy;`
example : StrF.unescape [38, 99, 111, 112, 121, 59] = none := by decide
example : EscEntityPrefix (38 :: [108, 116, 59, 97]) := by simp [EscEntityPrefix]
example : ¬ EscEntityPrefix [38, 32] := by simp [EscEntityPrefix]
-- ` éa` (Latin-1 byte E9) ↦ `+%E9a`
example : StrF.urlEncode [32, 233, 97] = [43, 37, 69, 57, 97] := by decide
example : StrF.urlDecode [43, 37, 69, 57, 97] = some [32, 233, 97] := by decide
-- lower-case hex is accepted by the decoder: `%e9`
example : StrF.urlDecode [37, 101, 57] = some [233] := by decide
-- `%z` and a trailing `%4` are `url.EscapeError`
example : StrF.urlDecode [37, 122] = none := by decide
example : StrF.urlDecode [97, 37, 52] = none := by decide
example : StrF.urlDecode [37, 71, 48] = none := by decide
-- unreserved bytes pass through: `a-_.~`
example : StrF.urlEncode [97, 45, 95, 46, 126] = [97, 45, 95, 46, 126] := by decide
example : StrF.unhex (StrF.upperHexDigit 11) = some 11 := by decide
