import Proofs.C07
import Proofs.C06
/-!
# C07, whole-template form: the line of every render error is the line of a node of the template

`C07.lean` proves the local facts (an error keeps its innermost location; a failing object is
reported at its own line). Here the statement is about a whole render: whatever the template,
the bindings, the value layer and the writer do, an error that comes out of rendering an
include-free node tree is a located error (a SourceError) whose line is the line of *some tag,
object or text of that tree* — or 0, which only happens for a writer failure reported by a node
without source location (a raw block, a trim marker, the final flush) at the top level. The same
holds for the `break`/`continue` sentinels a subtree hands to its enclosing loop.

(Templates with `include` are excluded by the decidable predicate `noIncl`: the lines of an
included file are lines of *that* file, shifted by the include tag's line.)
-/

/-! ## The lines of a node tree -/

def CondT.lines : CondT → List Nat
  | .expr line _ => [line]
  | .notExpr line _ => [line]
  | .always => []

mutual
def Node.lines : Node → List Nat
  | .text line _ => [line]
  | .obj line _ => [line]
  | .raw _ => []
  | .trim _ => []
  | .assign line _ _ => [line]
  | .capture line _ body => line :: linesList body
  | .ifB line bs => line :: linesBranches bs
  | .caseB line _ cs => line :: linesCases cs
  | .loop line _ _ _ _ body clauses => line :: (linesList body ++ linesClauses clauses)
  | .cycle line _ _ _ => [line]
  | .brk line => [line]
  | .cont line => [line]
  | .incl line _ => [line]
def linesList : List Node → List Nat
  | [] => []
  | n :: ns => n.lines ++ linesList ns
def linesBranches : List (CondT × List Node) → List Nat
  | [] => []
  | (t, body) :: rest => t.lines ++ linesList body ++ linesBranches rest
def linesCases : List (Option (Nat × List Expr) × List Node) → List Nat
  | [] => []
  | (none, body) :: rest => linesList body ++ linesCases rest
  | (some (line, _), body) :: rest => line :: (linesList body ++ linesCases rest)
def linesClauses : List (List Node) → List Nat
  | [] => []
  | c :: cs => linesList c ++ linesClauses cs
end

mutual
def Node.noIncl : Node → Bool
  | .incl _ _ => false
  | .capture _ _ body => noInclList body
  | .ifB _ bs => noInclBranches bs
  | .caseB _ _ cs => noInclCases cs
  | .loop _ _ _ _ _ body clauses => noInclList body && noInclClauses clauses
  | _ => true
def noInclList : List Node → Bool
  | [] => true
  | n :: ns => n.noIncl && noInclList ns
def noInclBranches : List (CondT × List Node) → Bool
  | [] => true
  | (_, body) :: rest => noInclList body && noInclBranches rest
def noInclCases : List (Option (Nat × List Expr) × List Node) → Bool
  | [] => true
  | (_, body) :: rest => noInclList body && noInclCases rest
def noInclClauses : List (List Node) → Bool
  | [] => true
  | c :: cs => noInclList c && noInclClauses cs
end

/-! ## Post-conditions on failures and results together -/

inductive Post {α : Type} (Q : RawErr → Prop) (R : α → Prop) : Prog α → Prop where
  | ret (a) : R a → Post Q R (.ret a)
  | fail (e) : Q e → Post Q R (.fail e)
  | panic (w) : Post Q R (.panic w)
  | unmodelled (w) : Post Q R (.unmodelled w)
  | call (b k) : (∀ r, Post Q R (k r)) → Post Q R (.call b k)

theorem Post.bind {α β} {Q : RawErr → Prop} {R : α → Prop} {R' : β → Prop} {p : Prog α} {f : α → Prog β}
    (hp : Post Q R p) (hf : ∀ a, R a → Post Q R' (f a)) : Post Q R' (p.bind f) := by
  induction hp with
  | ret a ha => exact hf a ha
  | fail e he => exact .fail e he
  | panic w => exact .panic w
  | unmodelled w => exact .unmodelled w
  | call b k _ ih => exact .call _ _ (fun r => ih r)

theorem Post.mapFail {α} {Q Q' : RawErr → Prop} {R : α → Prop} {p : Prog α} (g : RawErr → RawErr)
    (hp : Post Q R p) (h : ∀ e, Q e → Q' (g e)) : Post Q' R (p.mapFail g) := by
  induction hp with
  | ret a ha => exact .ret a ha
  | fail e he => exact .fail _ (h e he)
  | panic w => exact .panic w
  | unmodelled w => exact .unmodelled w
  | call b k _ ih => exact .call _ _ (fun r => ih r)

theorem Post.mono {α} {Q Q' : RawErr → Prop} {R R' : α → Prop} {p : Prog α}
    (hp : Post Q R p) (hq : ∀ e, Q e → Q' e) (hr : ∀ a, R a → R' a) : Post Q' R' p := by
  induction hp with
  | ret a ha => exact .ret a (hr a ha)
  | fail e he => exact .fail _ (hq e he)
  | panic w => exact .panic w
  | unmodelled w => exact .unmodelled w
  | call b k _ ih => exact .call _ _ (fun r => ih r)

/-- what a program returns or fails with against a writer that never fails obeys the post-condition -/
theorem Post.runPure {α} {Q : RawErr → Prop} {R : α → Prop} {p : Prog α} (hp : Post Q R p) :
    (∀ out e, p.runPure = (out, .err e) → Q e) ∧ (∀ out a, p.runPure = (out, .ok a) → R a) := by
  induction hp with
  | ret a ha =>
    refine ⟨fun out e h => ?_, fun out a' h => ?_⟩
    · simp [Prog.runPure] at h
    · simp only [Prog.runPure, Prod.mk.injEq, Prog.Outcome.ok.injEq] at h; exact h.2 ▸ ha
  | fail e he =>
    refine ⟨fun out e' h => ?_, fun out a h => ?_⟩
    · simp only [Prog.runPure, Prod.mk.injEq, Prog.Outcome.err.injEq] at h; exact h.2 ▸ he
    · simp [Prog.runPure] at h
  | panic w => exact ⟨fun out e h => by simp [Prog.runPure] at h, fun out a h => by simp [Prog.runPure] at h⟩
  | unmodelled w => exact ⟨fun out e h => by simp [Prog.runPure] at h, fun out a h => by simp [Prog.runPure] at h⟩
  | call b k _ ih =>
    obtain ⟨ih1, ih2⟩ := ih .ok
    refine ⟨fun out e h => ?_, fun out a h => ?_⟩
    · simp only [Prog.runPure] at h
      cases hk : (k .ok).runPure with
      | mk o1 o2 => rw [hk] at h; simp only [Prod.mk.injEq] at h; exact ih1 o1 e (by rw [hk, h.2])
    · simp only [Prog.runPure] at h
      cases hk : (k .ok).runPure with
      | mk o1 o2 => rw [hk] at h; simp only [Prod.mk.injEq] at h; exact ih2 o1 a (by rw [hk, h.2])

/-! ## The line predicates -/

/-- the error is located at line 0 or at one of the lines `L` -/
def SErr.lineIn (L : List Nat) (e : SErr) : Prop := e.line = 0 ∨ e.line ∈ L

/-- inside a node, before the node has wrapped it, a failure may still be an unlocated error -/
def InnerOK (L : List Nat) : RawErr → Prop
  | .plain _ => True
  | .located e => e.lineIn L

/-- what leaves a node: a located error with a line of the tree -/
def OuterOK (L : List Nat) : RawErr → Prop
  | .plain _ => False
  | .located e => e.lineIn L

def StatusOK (L : List Nat) : Status → Prop
  | .done => True
  | .brk e => e.lineIn L
  | .cont e => e.lineIn L

theorem SErr.lineIn.mono {L L' : List Nat} {e : SErr} (h : e.lineIn L) (hs : ∀ x, x ∈ L → x ∈ L') : e.lineIn L' :=
  h.elim Or.inl (fun h => Or.inr (hs _ h))

theorem OuterOK.mono {L L' : List Nat} (hs : ∀ x, x ∈ L → x ∈ L') : ∀ e, OuterOK L e → OuterOK L' e
  | .plain _, h => h
  | .located _, h => SErr.lineIn.mono h hs

theorem OuterOK.inner {L : List Nat} : ∀ e, OuterOK L e → InnerOK L e
  | .plain _, h => h.elim
  | .located _, h => h

theorem StatusOK.mono {L L' : List Nat} (hs : ∀ x, x ∈ L → x ∈ L') : ∀ st, StatusOK L st → StatusOK L' st
  | .done, _ => True.intro
  | .brk _, h => SErr.lineIn.mono h hs
  | .cont _, h => SErr.lineIn.mono h hs

/-- wrapping at a location of the tree turns an inner failure into an outer one -/
theorem wrapError_lineIn (path : Bytes) (L : List Nat) (loc : Loc) (hl : loc.line = 0 ∨ loc.line ∈ L) :
    ∀ e, InnerOK L e → (wrapError path e loc).lineIn L
  | .plain c, _ => by simpa [wrapError, SErr.lineIn] using hl
  | .located e, h => by
    simp only [wrapError]
    split
    · exact h
    · simpa [SErr.lineIn] using hl

/-! ## The render monad -/

def PostM {α} (Q : RawErr → Prop) (R : α → Prop) (m : M α) : Prop := ∀ s, Post Q (fun r => R r.1) (m s)

theorem postM_pure {α} {Q : RawErr → Prop} {R : α → Prop} (a : α) (h : R a) : PostM Q R (pure a : M α) :=
  fun _ => .ret _ h

theorem postM_bind {α β} {Q : RawErr → Prop} {R : α → Prop} {R' : β → Prop} {m : M α} {f : α → M β}
    (hm : PostM Q R m) (hf : ∀ a, R a → PostM Q R' (f a)) : PostM Q R' (m >>= f) := by
  intro s
  exact Post.bind (hm s) (fun ⟨a, s'⟩ ha => hf a ha s')

theorem postM_mono {α} {Q Q' : RawErr → Prop} {R R' : α → Prop} {m : M α} (hm : PostM Q R m)
    (hq : ∀ e, Q e → Q' e) (hr : ∀ a, R a → R' a) : PostM Q' R' m :=
  fun s => Post.mono (hm s) hq (fun a h => hr _ h)

theorem postM_fail {α} {Q : RawErr → Prop} {R : α → Prop} (e : RawErr) (h : Q e) : PostM Q R (M.fail e : M α) :=
  fun _ => .fail _ h
theorem postM_getEnv {Q : RawErr → Prop} : PostM Q (fun _ => True) M.getEnv := fun _ => .ret _ True.intro
theorem postM_setVar {Q : RawErr → Prop} (x : Bytes) (v : GoVal) : PostM Q (fun _ => True) (M.setVar x v) :=
  fun _ => .ret _ True.intro
theorem postM_getVar {Q : RawErr → Prop} (x : Bytes) : PostM Q (fun _ => True) (M.getVar x) := fun _ => .ret _ True.intro

theorem postM_ofRes {α} (L : List Nat) (r : Res Cause α) : PostM (InnerOK L) (fun _ => True) (M.ofRes r) := by
  intro s
  cases r with
  | ok a => exact .ret _ True.intro
  | err c => exact .fail _ True.intro
  | panic w => exact .panic _
  | unmodelled w => exact .unmodelled _

theorem postM_wrapFailAt {α} (path : Bytes) (L : List Nat) (loc : Loc) (hl : loc.line = 0 ∨ loc.line ∈ L)
    {R : α → Prop} {m : M α} (hm : PostM (InnerOK L) R m) : PostM (OuterOK L) R (wrapFailAt path loc m) := by
  intro s
  exact Post.mapFail _ (hm s) (fun e he => wrapError_lineIn path L loc hl e he)

theorem postM_wrapAt (path : Bytes) (L : List Nat) (loc : Loc) (hl : loc.line = 0 ∨ loc.line ∈ L)
    {m : M Status} (hm : PostM (InnerOK L) (StatusOK L) m) : PostM (OuterOK L) (StatusOK L) (wrapAt path loc m) := by
  intro s
  unfold wrapAt
  refine Post.bind (Post.mapFail _ (hm s) (fun e he => wrapError_lineIn path L loc hl e he)) (fun ⟨st, s'⟩ hst => .ret _ ?_)
  cases st with
  | done => exact True.intro
  | brk e => exact wrapError_lineIn path L loc hl (.located e) hst
  | cont e => exact wrapError_lineIn path L loc hl (.located e) hst

theorem postM_flush (L : List Nat) : PostM (InnerOK L) (fun _ => True) flushM := by
  intro s
  unfold flushM
  split
  · exact .ret _ True.intro
  · refine .call _ _ (fun r => ?_)
    cases r with
    | ok => exact .ret _ True.intro
    | failed n => exact .fail _ True.intro

theorem postM_write (L : List Nat) (b : Bytes) : PostM (InnerOK L) (fun _ => True) (writeM b) := by
  intro s
  unfold writeM
  simp only
  split
  · exact .ret _ True.intro
  · refine .call _ _ (fun r => ?_)
    cases r with
    | ok => exact .ret _ True.intro
    | failed n => exact .fail _ True.intro

theorem postM_trimLeft (L : List Nat) : PostM (InnerOK L) (fun _ => True) trimLeftM := by
  intro s
  refine .call _ _ (fun r => ?_)
  cases r with
  | ok => exact .ret _ True.intro
  | failed n => exact .fail _ True.intro

theorem postM_trimRight {Q : RawErr → Prop} : PostM Q (fun _ => True) trimRightM := fun _ => .ret _ True.intro

theorem postM_writeVerbatim (L : List Nat) (b : Bytes) : PostM (InnerOK L) (fun _ => True) (writeVerbatimM b) := by
  unfold writeVerbatimM
  exact postM_bind (postM_write L _) (fun _ _ => postM_bind (postM_write L b) (fun _ _ => postM_flush L))

theorem postM_writeAll (L : List Nat) : ∀ cs, PostM (InnerOK L) (fun _ => True) (writeAllM cs)
  | [] => postM_pure () True.intro
  | c :: cs => by
    unfold writeAllM
    exact postM_bind (postM_writeVerbatim L c) (fun _ _ => postM_writeAll L cs)

/-- a capture hands on the failures of its body and of its private flush, and the body's status -/
theorem postM_capture {α} (L : List Nat) {R : α → Prop} {m : M α} (hm : PostM (InnerOK L) R m) :
    PostM (InnerOK L) (fun r => R r.1) (captureM m) := by
  intro s
  unfold captureM
  simp only
  have hp : Post (InnerOK L) (fun r => R r.1)
      ((m { env := s.env, tw := {} }).bind (fun (a, s1) => (flushM s1).bind (fun (_, s2) => Prog.ret (a, s2)))) :=
    Post.bind (hm _) (fun ⟨_, s1⟩ ha => Post.bind (postM_flush L s1) (fun ⟨_, s2⟩ _ => .ret _ ha))
  obtain ⟨h1, h2⟩ := hp.runPure
  split
  · next out a s2 heq => exact .ret _ (h2 _ _ heq)
  · next e heq => exact .fail _ (h1 _ _ heq)
  · exact .panic _
  · exact .unmodelled _

theorem postM_tablerowBefore (L : List Nat) (cols i : Nat) : PostM (InnerOK L) (fun _ => True) (tablerowBefore cols i) := by
  unfold tablerowBefore
  simp only [bind_pure_comp]
  split
  · exact postM_bind (postM_write L _) (fun _ _ => postM_write L _)
  · exact postM_bind (R := fun _ => True) (postM_pure _ True.intro) (fun _ _ => postM_write L _)

theorem postM_tablerowAfter (L : List Nat) (cols i l : Nat) : PostM (InnerOK L) (fun _ => True) (tablerowAfter cols i l) := by
  unfold tablerowAfter
  refine postM_bind (postM_write L _) (fun _ _ => ?_)
  split
  · exact postM_write L _
  · exact postM_pure _ True.intro

theorem postM_evalCond (P : Prims) (path : Bytes) (L : List Nat) (t : CondT) (ht : ∀ x, x ∈ t.lines → x ∈ L) :
    PostM (InnerOK L) (fun _ => True) (evalCond P path t) := by
  unfold evalCond
  refine postM_bind postM_getEnv (fun env _ => ?_)
  cases t with
  | always => exact postM_pure _ True.intro
  | expr line e =>
    refine postM_mono (postM_wrapFailAt path L ⟨line, true⟩ (Or.inr (ht _ (by simp [CondT.lines])))
      (postM_bind (postM_ofRes L _) (fun _ _ => postM_pure _ True.intro))) OuterOK.inner (fun _ h => h)
  | notExpr line e =>
    refine postM_mono (postM_wrapFailAt path L ⟨line, true⟩ (Or.inr (ht _ (by simp [CondT.lines])))
      (postM_bind (postM_ofRes L _) (fun _ _ => postM_pure _ True.intro))) OuterOK.inner (fun _ h => h)

theorem errorfAt_lineIn (L : List Nat) (loc : Loc) (m : Msg) (hl : loc.line = 0 ∨ loc.line ∈ L) :
    (errorfAt loc m).lineIn L := by simpa [errorfAt, SErr.lineIn] using hl

theorem postM_intModifier (P : Prims) (L : List Nat) (e : Option Expr) (loc : Loc) (hl : loc.line = 0 ∨ loc.line ∈ L) :
    PostM (InnerOK L) (fun _ => True) (intModifier P e loc) := by
  unfold intModifier
  cases e with
  | none => exact postM_pure _ True.intro
  | some ex =>
    refine postM_bind postM_getEnv (fun env _ => postM_bind (postM_ofRes L _) (fun v _ => ?_))
    split
    · exact postM_pure _ True.intro
    · exact postM_fail _ (errorfAt_lineIn L loc _ hl)

theorem postM_restore (L : List Nat) (var : Bytes) (a b : GoVal) : PostM (InnerOK L) (fun _ => True) (restoreLoopVars var a b) := by
  unfold restoreLoopVars
  exact postM_bind (postM_setVar _ _) (fun _ _ => postM_setVar _ _)

/-- a loop execution consumes the sentinels of its body: it ends `done` -/
theorem postM_iterate (L : List Nat) (var : Bytes) (cols : Option Nat) (body : M Status)
    (hb : PostM (InnerOK L) (StatusOK L) body) (n : Nat) :
    ∀ xs i cyc, PostM (InnerOK L) (StatusOK L) (iterateM var cols body n xs i cyc) := by
  intro xs
  induction xs with
  | nil => intro i cyc; exact postM_pure _ True.intro
  | cons x xs ih =>
    intro i cyc
    unfold iterateM
    refine postM_bind (postM_setVar _ _) (fun _ _ => postM_bind (postM_setVar _ _) (fun _ _ => ?_))
    refine postM_bind (R := fun _ => True) ?_ (fun _ _ => postM_bind hb (fun st _ =>
      postM_bind (R := fun _ => True) ?_ (fun _ _ => postM_bind (postM_getVar _) (fun cur _ => ?_))))
    · cases cols with
      | none => exact postM_pure _ True.intro
      | some c => exact postM_tablerowBefore L c i
    · cases cols with
      | none => exact postM_pure _ True.intro
      | some c => exact postM_tablerowAfter L c i n
    · cases st with
      | brk e => exact postM_pure _ True.intro
      | done => exact ih _ _
      | cont e => exact ih _ _

theorem postM_tablerowCols (P : Prims) (L : List Nat) (tr : Bool) (cols : Option Expr) (loc : Loc)
    (hl : loc.line = 0 ∨ loc.line ∈ L) : PostM (InnerOK L) (fun _ => True) (tablerowCols P tr cols loc) := by
  unfold tablerowCols
  split
  · refine postM_bind (postM_intModifier P L _ _ hl) (fun cv _ => ?_)
    cases cv <;> exact postM_pure _ True.intro
  · exact postM_pure _ True.intro

theorem postM_loopRun {budget : Int} (P : Prims) (path : Bytes) (L : List Nat) (loc : Loc) (hl : loc.line = 0 ∨ loc.line ∈ L)
    (tr : Bool) (var : Bytes) (e : Expr) (mods : LoopMods)
    {bodyM : M Status} (hb : PostM (InnerOK L) (StatusOK L) bodyM) (tooMany : Bool) (elseM : Option (M Status))
    (he : ∀ m, elseM = some m → PostM (InnerOK L) (StatusOK L) m) :
    PostM (OuterOK L) (StatusOK L) (loopRun budget P path loc tr var e mods bodyM tooMany elseM) := by
  unfold loopRun
  refine postM_wrapAt path L loc hl (postM_bind postM_getEnv (fun env _ => postM_bind (postM_ofRes L _) (fun v _ =>
    postM_bind (postM_ofRes L _) (fun items0 _ => postM_bind (postM_intModifier P L _ _ hl) (fun off _ =>
    postM_bind (postM_intModifier P L _ _ hl) (fun lim _ => ?_))))))
  split
  · exact postM_fail _ True.intro
  · unfold loopDispatch
    split
    · next els => exact he _ rfl
    · unfold loopIterate
      exact postM_bind (postM_tablerowCols P L _ _ _ hl) (fun cols _ => postM_bind (postM_getVar _) (fun pl _ =>
        postM_bind (postM_getVar _) (fun pv _ => postM_bind (postM_iterate L _ _ _ hb _ _ _ _) (fun st hst =>
        postM_bind (postM_restore L _ _ _) (fun _ _ => postM_pure _ hst)))))

/-! ## The render tree -/

mutual
theorem lines_renderNode (c : RCtx) (L : List Nat) :
    ∀ n : Node, n.noIncl = true → (∀ x, x ∈ n.lines → x ∈ L) → PostM (OuterOK L) (StatusOK L) (renderNode c n)
  | .text line src, _, hL => by
    unfold renderNode
    exact postM_wrapFailAt _ L _ (Or.inr (hL _ (by simp [Node.lines])))
      (postM_bind (postM_write L _) (fun _ _ => postM_pure _ True.intro))
  | .obj line e, _, hL => by
    unfold renderNode
    refine postM_wrapFailAt _ L _ (Or.inr (hL _ (by simp [Node.lines])))
      (postM_bind postM_getEnv (fun env _ => postM_bind (postM_ofRes L _) (fun v _ => ?_)))
    split
    · exact postM_fail _ True.intro
    · exact postM_bind (postM_ofRes L _) (fun _ _ => postM_bind (postM_writeAll L _) (fun _ _ => postM_pure _ True.intro))
  | .raw slices, _, _ => by
    unfold renderNode
    exact postM_wrapFailAt _ L _ (Or.inl rfl) (postM_bind (postM_writeAll L _) (fun _ _ => postM_pure _ True.intro))
  | .trim true, _, _ => by
    unfold renderNode
    exact postM_wrapFailAt _ L _ (Or.inl rfl) (postM_bind (postM_trimLeft L) (fun _ _ => postM_pure _ True.intro))
  | .trim false, _, _ => by
    unfold renderNode
    exact postM_bind postM_trimRight (fun _ _ => postM_pure _ True.intro)
  | .assign line x e, _, hL => by
    unfold renderNode
    exact postM_wrapFailAt _ L _ (Or.inr (hL _ (by simp [Node.lines])))
      (postM_bind postM_getEnv (fun env _ => postM_bind (postM_ofRes L _)
        (fun v _ => postM_bind (postM_setVar _ _) (fun _ _ => postM_pure _ True.intro))))
  | .capture line x body, hn, hL => by
    unfold renderNode
    have hb := lines_renderList c L body (by simpa [Node.noIncl] using hn)
      (fun y hy => hL y (by simp [Node.lines, hy]))
    refine postM_wrapAt _ L _ (Or.inr (hL _ (by simp [Node.lines])))
      (postM_bind (postM_capture L (postM_mono hb OuterOK.inner (fun _ h => h))) (fun r hr => ?_))
    obtain ⟨st, out⟩ := r
    cases st with
    | done => exact postM_bind (postM_setVar _ _) (fun _ _ => postM_pure _ True.intro)
    | brk e => exact postM_pure _ hr
    | cont e => exact postM_pure _ hr
  | .ifB line branches, hn, hL => by
    unfold renderNode
    exact postM_wrapAt _ L _ (Or.inr (hL _ (by simp [Node.lines])))
      (postM_mono (lines_renderBranches c L branches (by simpa [Node.noIncl] using hn)
        (fun y hy => hL y (by simp [Node.lines, hy]))) OuterOK.inner (fun _ h => h))
  | .caseB line subject cases, hn, hL => by
    unfold renderNode
    exact postM_wrapAt _ L _ (Or.inr (hL _ (by simp [Node.lines])))
      (postM_bind postM_getEnv (fun env _ => postM_bind (postM_ofRes L _)
        (fun sel _ => postM_mono (lines_renderCases c L sel cases (by simpa [Node.noIncl] using hn)
          (fun y hy => hL y (by simp [Node.lines, hy]))) OuterOK.inner (fun _ h => h))))
  | .loop line tablerow var e mods body clauses, hn, hL => by
    unfold renderNode
    simp only
    have hn' : noInclList body = true ∧ noInclClauses clauses = true := by simpa [Node.noIncl] using hn
    have hline : (⟨line, true⟩ : Loc).line = 0 ∨ (⟨line, true⟩ : Loc).line ∈ L := Or.inr (hL _ (by simp [Node.lines]))
    have hbody := postM_mono (lines_renderBlockBody c L body hn'.1
      (fun y hy => hL y (by simp [Node.lines, hy]))) OuterOK.inner (fun _ h => h)
    split
    · exact postM_loopRun _ _ L _ hline _ _ _ _ hbody _ none (fun _ h => by cases h)
    · next els =>
      have hne : noInclList els = true := by
        have := hn'.2; simp only [noInclClauses, Bool.and_eq_true] at this; exact this.1
      refine postM_loopRun _ _ L _ hline _ _ _ _ hbody _ (some _) (fun m h => ?_)
      cases h
      exact postM_mono (lines_renderBlockBody c L els hne
        (fun y hy => hL y (by simp [Node.lines, linesClauses, hy]))) OuterOK.inner (fun _ h => h)
    · exact postM_loopRun _ _ L _ hline _ _ _ _ hbody _ none (fun _ h => by cases h)
  | .cycle line group v0 rest, _, hL => by
    unfold renderNode
    have hline : (⟨line, true⟩ : Loc).line = 0 ∨ (⟨line, true⟩ : Loc).line ∈ L := Or.inr (hL _ (by simp [Node.lines]))
    refine postM_wrapFailAt _ L _ hline (postM_bind (postM_getVar _) (fun lv _ => ?_))
    split
    · exact postM_fail _ (errorfAt_lineIn L _ _ hline)
    · exact postM_bind (postM_setVar _ _) (fun _ _ => postM_bind (postM_writeVerbatim L _) (fun _ _ => postM_pure _ True.intro))
  | .brk line, _, hL => by
    unfold renderNode
    have hline : (⟨line, true⟩ : Loc).line = 0 ∨ (⟨line, true⟩ : Loc).line ∈ L := Or.inr (hL _ (by simp [Node.lines]))
    exact postM_pure _ (wrapError_lineIn _ L _ hline (.located _) (wrapError_lineIn _ L _ hline (.plain _) True.intro))
  | .cont line, _, hL => by
    unfold renderNode
    have hline : (⟨line, true⟩ : Loc).line = 0 ∨ (⟨line, true⟩ : Loc).line ∈ L := Or.inr (hL _ (by simp [Node.lines]))
    exact postM_pure _ (wrapError_lineIn _ L _ hline (.located _) (wrapError_lineIn _ L _ hline (.plain _) True.intro))
  | .incl line args, hn, _ => by simp [Node.noIncl] at hn
theorem lines_renderList (c : RCtx) (L : List Nat) :
    ∀ ns : List Node, noInclList ns = true → (∀ x, x ∈ linesList ns → x ∈ L) → PostM (OuterOK L) (StatusOK L) (renderList c ns)
  | [], _, _ => by unfold renderList; exact postM_pure _ True.intro
  | n :: ns, hn, hL => by
    unfold renderList
    have hn' : n.noIncl = true ∧ noInclList ns = true := by simpa [noInclList] using hn
    refine postM_bind (lines_renderNode c L n hn'.1 (fun y hy => hL y (by simp [linesList, hy]))) (fun st hst => ?_)
    cases st with
    | done => exact lines_renderList c L ns hn'.2 (fun y hy => hL y (by simp [linesList, hy]))
    | brk e => exact postM_pure _ hst
    | cont e => exact postM_pure _ hst
theorem lines_renderBlockBody (c : RCtx) (L : List Nat) (body : List Node) (hn : noInclList body = true)
    (hL : ∀ x, x ∈ linesList body → x ∈ L) : PostM (OuterOK L) (StatusOK L) (renderBlockBody c body) := by
  unfold renderBlockBody
  refine postM_bind (lines_renderList c L body hn hL) (fun st hst => ?_)
  cases st with
  | done => exact postM_bind (postM_wrapFailAt _ L _ (Or.inl rfl) (postM_flush L)) (fun _ _ => postM_pure _ True.intro)
  | brk e => exact postM_pure _ hst
  | cont e => exact postM_pure _ hst
theorem lines_renderBranches (c : RCtx) (L : List Nat) :
    ∀ bs : List (CondT × List Node), noInclBranches bs = true → (∀ x, x ∈ linesBranches bs → x ∈ L) →
      PostM (OuterOK L) (StatusOK L) (renderBranches c bs)
  | [], _, _ => by unfold renderBranches; exact postM_pure _ True.intro
  | (t, body) :: rest, hn, hL => by
    unfold renderBranches
    have hn' : noInclList body = true ∧ noInclBranches rest = true := by simpa [noInclBranches] using hn
    have hc := postM_evalCond c.P c.cfg.path L t (fun y hy => hL y (by simp [linesBranches, hy]))
    -- the condition's own failures are already wrapped at the condition's line
    have hc' : PostM (OuterOK L) (fun _ => True) (evalCond c.P c.cfg.path t) := by
      unfold evalCond
      refine postM_bind postM_getEnv (fun env _ => ?_)
      cases t with
      | always => exact postM_pure _ True.intro
      | expr line e =>
        exact postM_wrapFailAt _ L ⟨line, true⟩ (Or.inr (hL _ (by simp [linesBranches, CondT.lines])))
          (postM_bind (postM_ofRes L _) (fun _ _ => postM_pure _ True.intro))
      | notExpr line e =>
        exact postM_wrapFailAt _ L ⟨line, true⟩ (Or.inr (hL _ (by simp [linesBranches, CondT.lines])))
          (postM_bind (postM_ofRes L _) (fun _ _ => postM_pure _ True.intro))
    refine postM_bind hc' (fun b _ => ?_)
    split
    · exact lines_renderBlockBody c L body hn'.1 (fun y hy => hL y (by simp [linesBranches, hy]))
    · exact lines_renderBranches c L rest hn'.2 (fun y hy => hL y (by simp [linesBranches, hy]))
theorem lines_renderCases (c : RCtx) (L : List Nat) (sel : GoVal) :
    ∀ cs : List (Option (Nat × List Expr) × List Node), noInclCases cs = true → (∀ x, x ∈ linesCases cs → x ∈ L) →
      PostM (OuterOK L) (StatusOK L) (renderCases c sel cs)
  | [], _, _ => by unfold renderCases; exact postM_pure _ True.intro
  | (none, body) :: rest, hn, hL => by
    unfold renderCases
    have hn' : noInclList body = true ∧ noInclCases rest = true := by simpa [noInclCases] using hn
    exact lines_renderBlockBody c L body hn'.1 (fun y hy => hL y (by simp [linesCases, hy]))
  | (some (line, es), body) :: rest, hn, hL => by
    unfold renderCases
    have hn' : noInclList body = true ∧ noInclCases rest = true := by simpa [noInclCases] using hn
    refine postM_bind (postM_wrapFailAt _ L ⟨line, true⟩ (Or.inr (hL _ (by simp [linesCases])))
      (lines_whenMatches c L sel es)) (fun hit _ => ?_)
    split
    · exact lines_renderBlockBody c L body hn'.1 (fun y hy => hL y (by simp [linesCases, hy]))
    · exact lines_renderCases c L sel rest hn'.2 (fun y hy => hL y (by simp [linesCases, hy]))
theorem lines_whenMatches (c : RCtx) (L : List Nat) (sel : GoVal) :
    ∀ es : List Expr, PostM (InnerOK L) (fun _ => True) (whenMatches c sel es)
  | [] => by unfold whenMatches; exact postM_pure _ True.intro
  | e :: es => by
    unfold whenMatches
    refine postM_bind postM_getEnv (fun env _ => postM_bind (postM_ofRes L _) (fun v _ =>
      postM_bind (postM_ofRes L _) (fun eq _ => ?_)))
    split
    · exact postM_pure _ True.intro
    · exact lines_whenMatches c L sel es
end

/-! ## The property theorems -/

/-- **C07 (every render error locates a node of the template).** For every include-free node tree,
    every environment, value layer, configuration and *every behaviour of the writer*: a failure of
    the render is a located error (a SourceError) whose line is the line of one of the tree's tags,
    objects or texts, or 0; and a `break`/`continue` that reaches the top (reported as an error by
    `Render`) likewise. -/
theorem render_error_line_in_tree (c : RCtx) (root : List Node) (h : noInclList root = true) (env : Env) :
    Post (OuterOK (linesList root)) (StatusOK (linesList root)) (renderRoot c root env) := by
  unfold renderRoot
  refine Post.bind (lines_renderList c _ root h (fun _ hx => hx) _) (fun ⟨st, s⟩ hst => ?_)
  cases st with
  | done =>
    exact Post.bind (postM_wrapFailAt c.cfg.path _ invalidLoc (Or.inl rfl) (postM_flush _) s) (fun _ _ => .ret _ True.intro)
  | brk e => exact .ret _ hst
  | cont e => exact .ret _ hst

/-- the same for `Render` into a buffer (a writer that never fails): the error returned, if any,
    carries a line of the tree (or 0) -/
theorem render_error_line_in_tree_pure (c : RCtx) (root : List Node) (h : noInclList root = true) (env : Env)
    (out : Bytes) (e : RawErr) (hr : (renderRoot c root env).runPure = (out, .err e)) :
    ∃ se, e = .located se ∧ (se.line = 0 ∨ se.line ∈ linesList root) := by
  have := (render_error_line_in_tree c root h env).runPure.1 out e hr
  cases e with
  | plain c => exact this.elim
  | located se => exact ⟨se, rfl, this⟩

/-- the hypotheses are satisfiable and the conclusion is informative: a two-line template whose second
    line fails -/
example : noInclList [.text 1 [97, 10], .obj 2 (.var [120])] = true ∧
    linesList [.text 1 [97, 10], .obj 2 (.var [120])] = [1, 2] := by decide

/-! ## From the source to the tree: the lines of compiled nodes are lines of tokens -/

/-- post-condition on a compile-time result -/
def CPost {α} (Q : SErr → Prop) (R : α → Prop) : CRes α → Prop
  | .ok a => R a
  | .err e => Q e
  | .panic _ => True
  | .unmodelled _ => True

theorem CPost.bind {α β} {Q : SErr → Prop} {R : α → Prop} {R' : β → Prop} {x : CRes α} {f : α → CRes β}
    (hx : CPost Q R x) (hf : ∀ a, R a → CPost Q R' (f a)) : CPost Q R' (x >>= f) := by
  cases x with
  | ok a => exact hf a hx
  | err e => exact hx
  | panic w => exact True.intro
  | unmodelled w => exact True.intro

theorem CPost.pure {α} {Q : SErr → Prop} {R : α → Prop} (a : α) (h : R a) : CPost Q R (pure a : CRes α) := h

theorem cpost_liftParse {α} (L : List Nat) (line : Nat) (keep : Bool) (r : Res ParseErr α) (hl : line ∈ L) :
    CPost (fun e => e.line ∈ L) (fun _ => True) (liftParse line keep r) := by
  cases r with
  | ok a => exact True.intro
  | err e => simp only [liftParse, CPost]; split <;> exact hl
  | panic w => exact True.intro
  | unmodelled w => exact True.intro

mutual
def AST.tokLines : AST → List Nat
  | .text t => [t.line]
  | .obj t => [t.line]
  | .tag t => [t.line]
  | .trim _ => []
  | .raw _ => []
  | .block t body clauses => t.line :: (tokLinesList body ++ tokLinesClauses clauses)
def tokLinesList : List AST → List Nat
  | [] => []
  | n :: ns => n.tokLines ++ tokLinesList ns
def tokLinesClauses : List (Token × List AST) → List Nat
  | [] => []
  | (t, body) :: cs => t.line :: (tokLinesList body ++ tokLinesClauses cs)
end

/-- the lines of compiled clauses: the clause tokens and their bodies -/
def linesCClauses : List (Token × List Node) → List Nat
  | [] => []
  | (t, body) :: cs => t.line :: (linesList body ++ linesCClauses cs)

theorem cpost_ifClauseTests (L : List Nat) :
    ∀ cs : List (Token × List Node), (∀ x, x ∈ linesCClauses cs → x ∈ L) →
      CPost (fun e => e.line ∈ L) (fun r => ∀ x, x ∈ linesBranches r → x ∈ L) (compileIfClauseTests cs)
  | [], _ => by simp [compileIfClauseTests, CPost, linesBranches]
  | (t, body) :: cs, hL => by
    unfold compileIfClauseTests
    refine CPost.bind (R := fun test => ∀ x, x ∈ test.lines → x ∈ L) ?_ (fun test htest =>
      CPost.bind (cpost_ifClauseTests L cs (fun x hx => hL x (by simp [linesCClauses, hx]))) (fun rest hrest => ?_))
    · split
      · refine CPost.bind (cpost_liftParse L t.line true _ (hL _ (by simp [linesCClauses]))) (fun e _ => ?_)
        exact CPost.pure _ (fun x hx => by
          simp only [CondT.lines, List.mem_singleton] at hx; subst hx; exact hL _ (by simp [linesCClauses]))
      · exact CPost.pure _ (fun x hx => by simp [CondT.lines] at hx)
    · refine CPost.pure _ (fun x hx => ?_)
      simp only [linesBranches, List.mem_append] at hx
      rcases hx with (hx | hx) | hx
      · exact htest x hx
      · exact hL x (by simp [linesCClauses, hx])
      · exact hrest x hx

theorem cpost_caseClauses (L : List Nat) :
    ∀ cs : List (Token × List Node), (∀ x, x ∈ linesCClauses cs → x ∈ L) →
      CPost (fun e => e.line ∈ L) (fun r => ∀ x, x ∈ linesCases r → x ∈ L) (compileCaseClauses cs)
  | [], _ => by simp [compileCaseClauses, CPost, linesCases]
  | (t, body) :: cs, hL => by
    unfold compileCaseClauses
    have ht : t.line ∈ L := hL _ (by simp [linesCClauses])
    refine CPost.bind (R := fun c => ∀ l es, c = some (l, es) → l ∈ L) ?_ (fun c hc =>
      CPost.bind (cpost_caseClauses L cs (fun x hx => hL x (by simp [linesCClauses, hx]))) (fun rest hrest => ?_))
    · split
      · refine CPost.bind (cpost_liftParse L t.line true _ ht) (fun st _ => ?_)
        split
        · exact CPost.pure _ (fun l es h => by cases h; exact ht)
        · exact ht
      · exact CPost.pure _ (fun l es h => by cases h)
    · refine CPost.pure _ (fun x hx => ?_)
      cases c with
      | none =>
        simp only [linesCases, List.mem_append] at hx
        rcases hx with hx | hx
        · exact hL x (by simp [linesCClauses, hx])
        · exact hrest x hx
      | some p =>
        obtain ⟨l, es⟩ := p
        simp only [linesCases, List.mem_cons, List.mem_append] at hx
        rcases hx with hx | hx | hx
        · subst hx; exact hc _ _ rfl
        · exact hL x (by simp [linesCClauses, hx])
        · exact hrest x hx

theorem linesList_append : ∀ a b : List Node, linesList (a ++ b) = linesList a ++ linesList b
  | [], _ => rfl
  | n :: ns, b => by simp [linesList, linesList_append ns b]

theorem linesClauses_map_snd (L : List Nat) : ∀ cs : List (Token × List Node),
    (∀ x, x ∈ linesCClauses cs → x ∈ L) → ∀ x, x ∈ linesClauses (cs.map (·.2)) → x ∈ L
  | [], _, x, hx => by simp [linesClauses] at hx
  | (t, body) :: cs, hL, x, hx => by
    simp only [List.map_cons, linesClauses, List.mem_append] at hx
    rcases hx with hx | hx
    · exact hL x (by simp [linesCClauses, hx])
    · exact linesClauses_map_snd L cs (fun y hy => hL y (by simp [linesCClauses, hy])) x hx

mutual
theorem cpost_compileNode (L : List Nat) :
    ∀ a : AST, (∀ x, x ∈ a.tokLines → x ∈ L) →
      CPost (fun e => e.line ∈ L) (fun ns => ∀ x, x ∈ linesList ns → x ∈ L) (compileNode a)
  | .text t, hL => by
    simp only [compileNode, CPost, linesList, Node.lines, List.append_nil, List.mem_singleton]
    intro x hx; subst hx; exact hL _ (by simp [AST.tokLines])
  | .obj t, hL => by
    have ht : t.line ∈ L := hL _ (by simp [AST.tokLines])
    unfold compileNode
    split
    · simp only [CPost, linesList, Node.lines, List.append_nil, List.mem_singleton]; intro x hx; subst hx; exact ht
    · exact ht
    · exact True.intro
    · exact True.intro
  | .trim l, _ => by simp [compileNode, CPost, linesList, Node.lines]
  | .raw sl, _ => by simp [compileNode, CPost, linesList, Node.lines]
  | .tag t, hL => by
    have ht : t.line ∈ L := hL _ (by simp [AST.tokLines])
    have one : ∀ n : Node, n.lines = [t.line] → ∀ x, x ∈ linesList [n] → x ∈ L := by
      intro n hn x hx
      simp only [linesList, hn, List.append_nil, List.mem_singleton] at hx; subst hx; exact ht
    unfold compileNode
    split
    · refine CPost.bind (cpost_liftParse L t.line false _ ht) (fun st _ => ?_)
      split
      · exact CPost.pure _ (one _ rfl)
      · exact ht
    · split
      · exact one _ rfl
      · split
        · exact one _ rfl
        · split
          · exact one _ rfl
          · split
            · refine CPost.bind (cpost_liftParse L t.line false _ ht) (fun st _ => ?_)
              split
              · exact CPost.pure _ (one _ rfl)
              · exact ht
            · exact ht
  | .block t body clauses, hL => by
    have ht : t.line ∈ L := hL _ (by simp [AST.tokLines])
    unfold compileNode
    refine CPost.bind (cpost_compileList L body (fun x hx => hL x (by simp [AST.tokLines, hx]))) (fun b hb =>
      CPost.bind (cpost_compileClauses L clauses (fun x hx => hL x (by simp [AST.tokLines, hx]))) (fun cs hcs => ?_))
    split
    · refine CPost.bind (cpost_liftParse L t.line true _ ht) (fun e _ =>
        CPost.bind (cpost_ifClauseTests L cs hcs) (fun rest hrest => CPost.pure _ (fun x hx => ?_)))
      simp only [linesList, Node.lines, linesBranches, List.append_nil, List.mem_cons, List.mem_append] at hx
      rcases hx with hx | (hx | hx) | hx
      · subst hx; exact ht
      · split at hx <;> (simp only [CondT.lines, List.mem_singleton] at hx; subst hx; exact ht)
      · exact hb x hx
      · exact hrest x hx
    · split
      · refine CPost.bind (cpost_liftParse L t.line true _ ht) (fun e _ =>
          CPost.bind (cpost_caseClauses L cs hcs) (fun cases hcases => CPost.pure _ (fun x hx => ?_)))
        simp only [linesList, Node.lines, List.append_nil, List.mem_cons] at hx
        rcases hx with hx | hx
        · subst hx; exact ht
        · exact hcases x hx
      · split
        · refine CPost.bind (cpost_liftParse L t.line true _ ht) (fun st _ => ?_)
          split
          · refine CPost.pure _ (fun x hx => ?_)
            simp only [linesList, Node.lines, List.append_nil, List.mem_cons, List.mem_append] at hx
            rcases hx with hx | hx | hx
            · subst hx; exact ht
            · exact hb x hx
            · exact linesClauses_map_snd L cs hcs x hx
          · exact ht
        · split
          · refine CPost.pure _ (fun x hx => ?_)
            simp only [linesList, Node.lines, List.append_nil, List.mem_cons] at hx
            rcases hx with hx | hx
            · subst hx; exact ht
            · exact hb x hx
          · exact True.intro
theorem cpost_compileList (L : List Nat) :
    ∀ as : List AST, (∀ x, x ∈ tokLinesList as → x ∈ L) →
      CPost (fun e => e.line ∈ L) (fun ns => ∀ x, x ∈ linesList ns → x ∈ L) (compileList as)
  | [], _ => by simp [compileList, CPost, linesList]
  | a :: as, hL => by
    unfold compileList
    refine CPost.bind (cpost_compileNode L a (fun x hx => hL x (by simp [tokLinesList, hx]))) (fun na hna =>
      CPost.bind (cpost_compileList L as (fun x hx => hL x (by simp [tokLinesList, hx]))) (fun nb hnb =>
        CPost.pure _ (fun x hx => ?_)))
    rw [linesList_append, List.mem_append] at hx
    exact hx.elim (hna x) (hnb x)
theorem cpost_compileClauses (L : List Nat) :
    ∀ cs : List (Token × List AST), (∀ x, x ∈ tokLinesClauses cs → x ∈ L) →
      CPost (fun e => e.line ∈ L) (fun r => ∀ x, x ∈ linesCClauses r → x ∈ L) (compileClauses cs)
  | [], _ => by simp [compileClauses, CPost, linesCClauses]
  | (t, body) :: cs, hL => by
    unfold compileClauses
    refine CPost.bind (cpost_compileList L body (fun x hx => hL x (by simp [tokLinesClauses, hx]))) (fun b hb =>
      CPost.bind (cpost_compileClauses L cs (fun x hx => hL x (by simp [tokLinesClauses, hx]))) (fun rest hrest =>
        CPost.pure _ (fun x hx => ?_)))
    simp only [linesCClauses, List.mem_cons, List.mem_append] at hx
    rcases hx with hx | hx | hx
    · subst hx; exact hL _ (by simp [tokLinesClauses])
    · exact hb x hx
    · exact hrest x hx
end

/-! ## From the token list to the tree: the tree's tokens are tokens of the source -/

mutual
theorem tokLines_unparse : ∀ (a : AST) (x : Nat), x ∈ a.tokLines → ∃ t ∈ a.unparse, t.line = x
  | .text t, x, hx => by simp only [AST.tokLines, List.mem_singleton] at hx; exact ⟨t, by simp [AST.unparse], hx.symm⟩
  | .obj t, x, hx => by simp only [AST.tokLines, List.mem_singleton] at hx; exact ⟨t, by simp [AST.unparse], hx.symm⟩
  | .tag t, x, hx => by simp only [AST.tokLines, List.mem_singleton] at hx; exact ⟨t, by simp [AST.unparse], hx.symm⟩
  | .trim _, x, hx => by simp [AST.tokLines] at hx
  | .raw _, x, hx => by simp [AST.tokLines] at hx
  | .block t body cls, x, hx => by
    simp only [AST.tokLines, List.mem_cons, List.mem_append] at hx
    rcases hx with hx | hx | hx
    · exact ⟨t, by simp [AST.unparse], hx.symm⟩
    · obtain ⟨t', ht', hl⟩ := tokLinesList_unparse body x hx
      exact ⟨t', by simp [AST.unparse, ht'], hl⟩
    · obtain ⟨t', ht', hl⟩ := tokLinesClauses_unparse cls x hx
      exact ⟨t', by simp [AST.unparse, ht'], hl⟩
theorem tokLinesList_unparse : ∀ (as : List AST) (x : Nat), x ∈ tokLinesList as → ∃ t ∈ unparseList as, t.line = x
  | [], x, hx => by simp [tokLinesList] at hx
  | a :: as, x, hx => by
    simp only [tokLinesList, List.mem_append] at hx
    rcases hx with hx | hx
    · obtain ⟨t, ht, hl⟩ := tokLines_unparse a x hx
      exact ⟨t, by simp [unparseList, ht], hl⟩
    · obtain ⟨t, ht, hl⟩ := tokLinesList_unparse as x hx
      exact ⟨t, by simp [unparseList, ht], hl⟩
theorem tokLinesClauses_unparse : ∀ (cs : List (Token × List AST)) (x : Nat), x ∈ tokLinesClauses cs →
    ∃ t ∈ unparseClauses cs, t.line = x
  | [], x, hx => by simp [tokLinesClauses] at hx
  | (c, body) :: cs, x, hx => by
    simp only [tokLinesClauses, List.mem_cons, List.mem_append] at hx
    rcases hx with hx | hx | hx
    · exact ⟨c, by simp [unparseClauses], hx.symm⟩
    · obtain ⟨t, ht, hl⟩ := tokLinesList_unparse body x hx
      exact ⟨t, by simp [unparseClauses, ht], hl⟩
    · obtain ⟨t, ht, hl⟩ := tokLinesClauses_unparse cs x hx
      exact ⟨t, by simp [unparseClauses, ht], hl⟩
end

/-- `x` is 0 or the line of a token of the list -/
def TokLine (toks : List Token) (x : Nat) : Prop := x = 0 ∨ ∃ t ∈ toks, t.line = x

theorem TokLine.cons {toks : List Token} {x : Nat} (t0 : Token) (h : TokLine toks x) : TokLine (t0 :: toks) x :=
  h.elim Or.inl (fun ⟨t, ht, hl⟩ => Or.inr ⟨t, List.mem_cons_of_mem _ ht, hl⟩)

theorem canonTok_line (g : Grammar) (t : Token) : (canonTok g t).line = 0 ∨ canonTok g t = t := by
  unfold canonTok
  split
  · exact Or.inl rfl
  · exact Or.inl rfl
  · split
    · exact Or.inl rfl
    · exact Or.inr rfl
  · exact Or.inr rfl

/-- what the tree keeps of a token list carries only lines of that token list (or none) -/
theorem canonM_lines (g : Grammar) : ∀ (toks : List Token) (m : CMode) (t : Token), t ∈ canonM g m toks → TokLine toks t.line := by
  intro toks
  induction toks with
  | nil => intro m t ht; cases m <;> simp [canonM] at ht
  | cons t0 ts ih =>
    intro m t ht
    cases m with
    | comment =>
      simp only [canonM] at ht
      split at ht <;> exact (ih _ t ht).cons t0
    | raw =>
      simp only [canonM] at ht
      split at ht
      · rcases List.mem_cons.mp ht with h | h
        · subst h; exact Or.inl rfl
        · exact (ih _ t h).cons t0
      · rcases List.mem_cons.mp ht with h | h
        · subst h; exact Or.inl rfl
        · exact (ih _ t h).cons t0
    | normal =>
      simp only [canonM] at ht
      split at ht
      · exact (ih _ t ht).cons t0
      · split at ht
        · rcases List.mem_cons.mp ht with h | h
          · subst h; exact Or.inl rfl
          · exact (ih _ t h).cons t0
        · rcases List.mem_cons.mp ht with h | h
          · subst h
            rcases canonTok_line g t0 with h0 | h0
            · exact Or.inl h0
            · rw [h0]; exact Or.inr ⟨t0, List.mem_cons_self, rfl⟩
          · exact (ih _ t h).cons t0

/-- every line in the accepted tree is the line of a token of the input -/
theorem tree_lines_are_token_lines (chk : Bytes → Option Cause) (toks : List Token) (ast : List AST)
    (h : parseTokens stdGrammar chk toks = .ok ast) (x : Nat) (hx : x ∈ tokLinesList ast) : TokLine toks x := by
  obtain ⟨t, ht, hl⟩ := tokLinesList_unparse ast x hx
  have : unparse ast = canon stdGrammar toks := unparse_parse_std chk toks ast h
  rw [show unparseList ast = unparse ast from rfl, this] at ht
  exact hl ▸ canonM_lines stdGrammar toks .normal t ht

/-! ## End to end -/

def StatusTok (toks : List Token) : Status → Prop
  | .done => True
  | .brk e => TokLine toks e.line
  | .cont e => TokLine toks e.line

/-- **C07 (source to error).** Take any source, delimiter set and start line; let `toks` be its tokens
    (whose lines are, by `C05.scan_line_at`, the start line plus the newlines before each token) and
    suppose the block parser accepts them (`C06` says when, and locates the error otherwise). Then
    * a compile-time error (a tag's or clause's syntax) carries the line of one of the tokens, and
    * if compilation succeeds and the tree has no `include`, then for every value layer, configuration,
      environment and writer behaviour every render failure — and every `break`/`continue` reaching the
      top — is a located error carrying the line of one of the tokens (or 0). -/
theorem source_error_line_is_token_line (delims : List Bytes) (src : Bytes) (line : Nat) (ast : List AST)
    (hp : parseTokens stdGrammar objChk (scan delims src line) = .ok ast) :
    CPost (fun e => TokLine (scan delims src line) e.line)
      (fun root => noInclList root = true → ∀ (c : RCtx) (env : Env),
        Post (fun e => ∃ se, e = .located se ∧ TokLine (scan delims src line) se.line)
             (StatusTok (scan delims src line))
             (renderRoot c root env))
      (compileList ast) := by
  have hc := cpost_compileList (tokLinesList ast) ast (fun _ h => h)
  have tl := tree_lines_are_token_lines objChk (scan delims src line) ast hp
  cases hcl : compileList ast with
  | ok root =>
    rw [hcl] at hc
    intro hni c env
    refine Post.mono (render_error_line_in_tree c root hni env) (fun e he => ?_) (fun st hst => ?_)
    · cases e with
      | plain _ => exact he.elim
      | located se => exact ⟨se, rfl, he.elim Or.inl (fun h => tl _ (hc _ h))⟩
    · cases st with
      | done => exact True.intro
      | brk e => exact hst.elim Or.inl (fun h => tl _ (hc _ h))
      | cont e => exact hst.elim Or.inl (fun h => tl _ (hc _ h))
  | err e => rw [hcl] at hc; exact tl _ hc
  | panic w => exact True.intro
  | unmodelled w => exact True.intro
