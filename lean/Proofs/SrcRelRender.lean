import Proofs.SrcReline
import Proofs.SrcLines
/-!
# Rendering does not depend on the line numbers of the nodes — except in the line of an error

Two node trees that differ only in their line numbers (`Node.rel g n` and `Node.rel g' n`, with `g x = 0 ↔ g' x = 0`)
render to interaction trees that make the same calls on the writer, return the same states and statuses and
fail alike, up to the LINE of the located error (`SErrRel`: same path flag, cause and message). For trees
without `include` (the lines of an included file depend on the line of the tag).
-/

/-- two located errors that agree in everything but (possibly) the line, which is zero in both or in neither -/
def SErrRel (e e' : SErr) : Prop := e.pathSet = e'.pathSet ∧ e.cause = e'.cause ∧ e.msg = e'.msg ∧ (e.line = 0 ↔ e'.line = 0)

theorem SErrRel.refl (e : SErr) : SErrRel e e := ⟨rfl, rfl, rfl, Iff.rfl⟩

def RawRel : RawErr → RawErr → Prop
  | .plain c, .plain c' => c = c'
  | .located e, .located e' => SErrRel e e'
  | _, _ => False

theorem RawRel.refl : ∀ e, RawRel e e
  | .plain _ => rfl
  | .located e => SErrRel.refl e

def StatusRel : Status → Status → Prop
  | .done, .done => True
  | .brk e, .brk e' => SErrRel e e'
  | .cont e, .cont e' => SErrRel e e'
  | _, _ => False

theorem StatusRel.refl : ∀ st, StatusRel st st
  | .done => True.intro
  | .brk e => SErrRel.refl e
  | .cont e => SErrRel.refl e

/-- locations with the same path flag whose lines are zero together -/
def LocRel (loc loc' : Loc) : Prop := loc.pathSet = loc'.pathSet ∧ (loc.line = 0 ↔ loc'.line = 0)

theorem wrapError_rel (path : Bytes) {loc loc' : Loc} (hl : LocRel loc loc') :
    ∀ {e e' : RawErr}, RawRel e e' → SErrRel (wrapError path e loc) (wrapError path e' loc')
  | .plain c, .plain c', h => by
    cases h
    exact ⟨hl.1, rfl, rfl, hl.2⟩
  | .located e, .located e', h => by
    obtain ⟨h1, h2, h3, h4⟩ := h
    have hb : ∀ a b : Nat, (a = 0 ↔ b = 0) → (a == 0) = (b == 0) := by
      intro a b h
      by_cases ha : a = 0
      · have hb := h.mp ha
        subst ha; subst hb; rfl
      · have hb : b ≠ 0 := fun hb => ha (h.mpr hb)
        cases a with
        | zero => exact absurd rfl ha
        | succ a =>
          cases b with
          | zero => exact absurd rfl hb
          | succ b => rfl
    have hne : ∀ a b : Nat, (a = 0 ↔ b = 0) → (a != 0) = (b != 0) := by
      intro a b h
      simp only [bne, hb a b h]
    have hz : loc.isZero path = loc'.isZero path := by
      unfold Loc.isZero
      rw [hl.1, hb _ _ hl.2]
    have hcond : ((e.pathSet && !path.isEmpty) || e.line != 0 || loc.isZero path) =
        ((e'.pathSet && !path.isEmpty) || e'.line != 0 || loc'.isZero path) := by
      rw [h1, hz, hne _ _ h4]
    simp only [wrapError, hcond]
    split
    · exact ⟨h1, h2, h3, h4⟩
    · exact ⟨hl.1, by simp only [h2], h3, hl.2⟩
  | .plain _, .located _, h => h.elim
  | .located _, .plain _, h => h.elim

/-! ## Interaction trees -/

inductive ProgRel {α : Type} (R : α → α → Prop) : Prog α → Prog α → Prop where
  | ret (a b) : R a b → ProgRel R (.ret a) (.ret b)
  | fail (e e') : RawRel e e' → ProgRel R (.fail e) (.fail e')
  | panic (w) : ProgRel R (.panic w) (.panic w)
  | unmodelled (w) : ProgRel R (.unmodelled w) (.unmodelled w)
  | call (b k k') : (∀ r, ProgRel R (k r) (k' r)) → ProgRel R (.call b k) (.call b k')

theorem ProgRel.bind {α β} {R : α → α → Prop} {R' : β → β → Prop} {p q : Prog α} {f f' : α → Prog β}
    (hp : ProgRel R p q) (hf : ∀ a b, R a b → ProgRel R' (f a) (f' b)) : ProgRel R' (p.bind f) (q.bind f') := by
  induction hp with
  | ret a b h => exact hf a b h
  | fail e e' h => exact .fail e e' h
  | panic w => exact .panic w
  | unmodelled w => exact .unmodelled w
  | call b k k' _ ih => exact .call _ _ _ (fun r => ih r)

theorem ProgRel.mapFail {α} {R : α → α → Prop} {p q : Prog α} (g g' : RawErr → RawErr)
    (hp : ProgRel R p q) (h : ∀ e e', RawRel e e' → RawRel (g e) (g' e')) : ProgRel R (p.mapFail g) (q.mapFail g') := by
  induction hp with
  | ret a b hab => exact .ret a b hab
  | fail e e' he => exact .fail _ _ (h e e' he)
  | panic w => exact .panic w
  | unmodelled w => exact .unmodelled w
  | call b k k' _ ih => exact .call _ _ _ (fun r => ih r)

theorem ProgRel.refl {α} {R : α → α → Prop} (hR : ∀ a, R a a) : ∀ p : Prog α, ProgRel R p p
  | .ret a => .ret a a (hR a)
  | .fail e => .fail e e (RawRel.refl e)
  | .panic w => .panic w
  | .unmodelled w => .unmodelled w
  | .call b k => .call b k k (fun r => ProgRel.refl hR (k r))

theorem ProgRel.mono {α} {R R' : α → α → Prop} {p q : Prog α} (hp : ProgRel R p q) (h : ∀ a b, R a b → R' a b) :
    ProgRel R' p q := by
  induction hp with
  | ret a b hab => exact .ret a b (h a b hab)
  | fail e e' he => exact .fail _ _ he
  | panic w => exact .panic w
  | unmodelled w => exact .unmodelled w
  | call b k k' _ ih => exact .call _ _ _ (fun r => ih r)

/-- related outcomes of a run against a writer that does not fail -/
def OutRel {α} (R : α → α → Prop) : Prog.Outcome α → Prog.Outcome α → Prop
  | .ok a, .ok b => R a b
  | .err e, .err e' => RawRel e e'
  | .panic w, .panic w' => w = w'
  | .unmodelled w, .unmodelled w' => w = w'
  | _, _ => False

theorem ProgRel.runPure {α} {R : α → α → Prop} {p q : Prog α} (hp : ProgRel R p q) :
    p.runPure.1 = q.runPure.1 ∧ OutRel R p.runPure.2 q.runPure.2 := by
  induction hp with
  | ret a b h => exact ⟨rfl, h⟩
  | fail e e' h => exact ⟨rfl, h⟩
  | panic w => exact ⟨rfl, rfl⟩
  | unmodelled w => exact ⟨rfl, rfl⟩
  | call b k k' _ ih =>
    obtain ⟨h1, h2⟩ := ih .ok
    simp only [Prog.runPure]
    exact ⟨by rw [h1], h2⟩

/-! ## The render monad -/

def LineMRel {α} (R : α → α → Prop) (m m' : M α) : Prop :=
  ∀ s, ProgRel (fun r r' : α × RS => R r.1 r'.1 ∧ r.2 = r'.2) (m s) (m' s)

theorem relM_bind {α β} {R : α → α → Prop} {R' : β → β → Prop} {m m' : M α} {f f' : α → M β}
    (hm : LineMRel R m m') (hf : ∀ a b, R a b → LineMRel R' (f a) (f' b)) : LineMRel R' (m >>= f) (m' >>= f') := by
  intro s
  refine ProgRel.bind (hm s) (fun ⟨a, s1⟩ ⟨b, s2⟩ ⟨hab, hs⟩ => ?_)
  simp only at hs
  subst hs
  exact hf a b hab s1

theorem relM_refl {α} {R : α → α → Prop} (hR : ∀ a, R a a) (m : M α) : LineMRel R m m :=
  fun s => ProgRel.refl (fun r => ⟨hR r.1, rfl⟩) (m s)

theorem relM_pure {α} {R : α → α → Prop} (a b : α) (h : R a b) : LineMRel R (pure a : M α) (pure b) :=
  fun _ => .ret _ _ ⟨h, rfl⟩

theorem relM_fail {α} {R : α → α → Prop} (e e' : RawErr) (h : RawRel e e') : LineMRel R (M.fail e : M α) (M.fail e') :=
  fun _ => .fail _ _ h

theorem relM_wrapFailAt {α} (path : Bytes) {loc loc' : Loc} (hl : LocRel loc loc') {R : α → α → Prop} {m m' : M α}
    (hm : LineMRel R m m') : LineMRel R (wrapFailAt path loc m) (wrapFailAt path loc' m') := by
  intro s
  exact ProgRel.mapFail _ _ (hm s) (fun e e' he => wrapError_rel path hl he)

theorem relM_wrapAt (path : Bytes) {loc loc' : Loc} (hl : LocRel loc loc') {m m' : M Status}
    (hm : LineMRel StatusRel m m') : LineMRel StatusRel (wrapAt path loc m) (wrapAt path loc' m') := by
  intro s
  unfold wrapAt
  refine ProgRel.bind (ProgRel.mapFail _ _ (hm s) (fun e e' he => wrapError_rel path hl he)) (fun ⟨st, s1⟩ ⟨st', s2⟩ ⟨hst, hs⟩ => ?_)
  refine .ret _ _ ⟨?_, hs⟩
  cases st <;> cases st' <;> first | exact hst.elim | exact True.intro | exact wrapError_rel path hl (e := .located _) (e' := .located _) hst

theorem relM_capture {α} {R : α → α → Prop} {m m' : M α} (hm : LineMRel R m m') :
    LineMRel (fun r r' : α × Bytes => R r.1 r'.1 ∧ r.2 = r'.2) (captureM m) (captureM m') := by
  intro s
  unfold captureM
  simp only
  have hp : ProgRel (fun r r' : α × RS => R r.1 r'.1 ∧ r.2 = r'.2)
      ((m { env := s.env, tw := {} }).bind (fun (a, s1) => (flushM s1).bind (fun (_, s2) => Prog.ret (a, s2))))
      ((m' { env := s.env, tw := {} }).bind (fun (a, s1) => (flushM s1).bind (fun (_, s2) => Prog.ret (a, s2)))) := by
    refine ProgRel.bind (hm _) (fun ⟨a, s1⟩ ⟨b, s2⟩ ⟨hab, hs⟩ => ?_)
    simp only at hs
    subst hs
    exact ProgRel.bind (ProgRel.refl (R := fun r r' : Unit × RS => r = r') (fun _ => rfl) (flushM s1))
      (fun ⟨_, t1⟩ ⟨_, t2⟩ h => by cases h; exact .ret _ _ ⟨hab, rfl⟩)
  obtain ⟨h1, h2⟩ := hp.runPure
  rcases hr : ((m { env := s.env, tw := {} }).bind (fun (a, s1) => (flushM s1).bind (fun (_, s2) => Prog.ret (a, s2)))).runPure
    with ⟨o, r⟩
  rcases hr' : ((m' { env := s.env, tw := {} }).bind (fun (a, s1) => (flushM s1).bind (fun (_, s2) => Prog.ret (a, s2)))).runPure
    with ⟨o', r'⟩
  rw [hr, hr'] at h1 h2
  simp only at h1 h2
  subst h1
  cases r <;> cases r' <;> simp only [OutRel] at h2
  · next a b =>
    obtain ⟨a1, a2⟩ := a
    obtain ⟨b1, b2⟩ := b
    simp only at h2
    obtain ⟨hab, hs⟩ := h2
    subst hs
    exact .ret _ _ ⟨⟨hab, rfl⟩, rfl⟩
  · exact .fail _ _ h2
  · subst h2; exact .panic _
  · subst h2; exact .unmodelled _

/-! ## Loops -/

theorem relM_intModifier (P : Prims) (e : Option Expr) {loc loc' : Loc} (hl : LocRel loc loc') :
    LineMRel (fun a b : Option Int => a = b) (intModifier P e loc) (intModifier P e loc') := by
  unfold intModifier
  cases e with
  | none => exact relM_pure _ _ rfl
  | some ex =>
    refine relM_bind (relM_refl (R := fun a b : Env => a = b) (fun _ => rfl) _) (fun env env' he => ?_)
    subst he
    refine relM_bind (relM_refl (R := fun a b : GoVal => a = b) (fun _ => rfl) _) (fun v v' hv => ?_)
    subst hv
    split
    · exact relM_pure _ _ rfl
    · exact relM_fail _ _ ⟨hl.1, rfl, rfl, hl.2⟩

theorem relM_tablerowCols (P : Prims) (tr : Bool) (cols : Option Expr) {loc loc' : Loc} (hl : LocRel loc loc') :
    LineMRel (fun a b : Option Nat => a = b) (tablerowCols P tr cols loc) (tablerowCols P tr cols loc') := by
  unfold tablerowCols
  split
  · refine relM_bind (relM_intModifier P cols hl) (fun cv cv' h => ?_)
    subst h
    exact relM_refl (fun _ => rfl) _
  · exact relM_pure _ _ rfl

theorem relM_iterate (var : Bytes) (cols : Option Nat) {body body' : M Status} (hb : LineMRel StatusRel body body') (n : Nat) :
    ∀ xs i cyc, LineMRel StatusRel (iterateM var cols body n xs i cyc) (iterateM var cols body' n xs i cyc) := by
  intro xs
  induction xs with
  | nil => intro i cyc; exact relM_pure _ _ True.intro
  | cons x xs ih =>
    intro i cyc
    unfold iterateM
    refine relM_bind (relM_refl (R := fun a b : Unit => a = b) (fun _ => rfl) _) (fun _ _ _ =>
      relM_bind (relM_refl (R := fun a b : Unit => a = b) (fun _ => rfl) _) (fun _ _ _ =>
      relM_bind (relM_refl (R := fun a b : Unit => a = b) (fun _ => rfl) _) (fun _ _ _ =>
      relM_bind hb (fun st st' hst =>
      relM_bind (relM_refl (R := fun a b : Unit => a = b) (fun _ => rfl) _) (fun _ _ _ =>
      relM_bind (relM_refl (R := fun a b : GoVal => a = b) (fun _ => rfl) _) (fun cur cur' hcur => ?_))))))
    subst hcur
    cases st <;> cases st' <;> first | exact hst.elim | exact ih _ _ | exact relM_pure _ _ True.intro

theorem relM_loopRun {budget : Int} (P : Prims) (path : Bytes) {loc loc' : Loc} (hl : LocRel loc loc')
    (tr : Bool) (var : Bytes) (e : Expr) (mods : LoopMods)
    {bodyM bodyM' : M Status} (hb : LineMRel StatusRel bodyM bodyM') (tooMany : Bool) (elseM elseM' : Option (M Status))
    (he : match elseM, elseM' with
      | none, none => True
      | some m, some m' => LineMRel StatusRel m m'
      | _, _ => False) :
    LineMRel StatusRel (loopRun budget P path loc tr var e mods bodyM tooMany elseM) (loopRun budget P path loc' tr var e mods bodyM' tooMany elseM') := by
  unfold loopRun
  refine relM_wrapAt path hl ?_
  refine relM_bind (relM_refl (R := fun a b : Env => a = b) (fun _ => rfl) _) (fun env env' h1 => ?_)
  subst h1
  refine relM_bind (relM_refl (R := fun a b : GoVal => a = b) (fun _ => rfl) _) (fun v v' h2 => ?_)
  subst h2
  refine relM_bind (relM_refl (R := fun a b : List GoVal => a = b) (fun _ => rfl) _) (fun items items' h3 => ?_)
  subst h3
  refine relM_bind (relM_intModifier P _ hl) (fun off off' h4 => ?_)
  subst h4
  refine relM_bind (relM_intModifier P _ hl) (fun lim lim' h5 => ?_)
  subst h5
  split
  · exact relM_refl StatusRel.refl _
  · unfold loopDispatch
    have hiter : ∀ its, LineMRel StatusRel (loopIterate P loc tr var mods.cols bodyM its) (loopIterate P loc' tr var mods.cols bodyM' its) := by
      intro its
      unfold loopIterate
      refine relM_bind (relM_tablerowCols P tr _ hl) (fun cols cols' h6 => ?_)
      subst h6
      refine relM_bind (relM_refl (R := fun a b : GoVal => a = b) (fun _ => rfl) _) (fun pl pl' h7 => ?_)
      subst h7
      refine relM_bind (relM_refl (R := fun a b : GoVal => a = b) (fun _ => rfl) _) (fun pv pv' h8 => ?_)
      subst h8
      refine relM_bind (relM_iterate var cols hb _ _ _ _) (fun st st' hst => ?_)
      exact relM_bind (relM_refl (R := fun a b : Unit => a = b) (fun _ => rfl) _) (fun _ _ _ => relM_pure _ _ hst)
    cases elseM <;> cases elseM' <;> simp only at he
    · cases selectItems mods.reversed off lim items <;> exact hiter _
    · cases hsel : selectItems mods.reversed off lim items with
      | nil => exact he
      | cons x xs => exact hiter _

/-! ## The render tree -/

theorem locRel_lines {g g' : Nat → Nat} (hz : ∀ x, g x = 0 ↔ g' x = 0) (l : Nat) : LocRel ⟨g l, true⟩ ⟨g' l, true⟩ :=
  ⟨rfl, hz l⟩

theorem relM_evalCond (P : Prims) (path : Bytes) {g g' : Nat → Nat} (hz : ∀ x, g x = 0 ↔ g' x = 0) (t : CondT) :
    LineMRel (fun a b : Bool => a = b) (evalCond P path (t.rel g)) (evalCond P path (t.rel g')) := by
  unfold evalCond
  refine relM_bind (relM_refl (R := fun a b : Env => a = b) (fun _ => rfl) _) (fun env env' h => ?_)
  subst h
  cases t with
  | always => exact relM_pure _ _ rfl
  | expr l e => exact relM_wrapFailAt path (locRel_lines hz l) (relM_refl (fun _ => rfl) _)
  | notExpr l e => exact relM_wrapFailAt path (locRel_lines hz l) (relM_refl (fun _ => rfl) _)

mutual
theorem lineRel_renderNode (c : RCtx) {g g' : Nat → Nat} (hz : ∀ x, g x = 0 ↔ g' x = 0) :
    ∀ n : Node, n.noIncl = true → LineMRel StatusRel (renderNode c (n.rel g)) (renderNode c (n.rel g'))
  | .text line src, _ => by
    simp only [Node.rel, renderNode]
    exact relM_wrapFailAt _ (locRel_lines hz line) (relM_refl StatusRel.refl _)
  | .obj line e, _ => by
    simp only [Node.rel, renderNode]
    exact relM_wrapFailAt _ (locRel_lines hz line) (relM_refl StatusRel.refl _)
  | .raw slices, _ => by
    simp only [Node.rel]
    exact relM_refl StatusRel.refl _
  | .trim l, _ => by
    simp only [Node.rel]
    exact relM_refl StatusRel.refl _
  | .assign line x e, _ => by
    simp only [Node.rel, renderNode]
    exact relM_wrapFailAt _ (locRel_lines hz line) (relM_refl StatusRel.refl _)
  | .capture line x body, hn => by
    simp only [Node.rel, renderNode]
    have hb := lineRel_renderList c hz body (by simpa [Node.noIncl] using hn)
    refine relM_wrapAt _ (locRel_lines hz line) (relM_bind (relM_capture hb) (fun r r' hr => ?_))
    obtain ⟨st, out⟩ := r
    obtain ⟨st', out'⟩ := r'
    obtain ⟨hst, hout⟩ := hr
    simp only at hst hout
    subst hout
    cases st <;> cases st' <;> first | exact hst.elim | exact relM_refl StatusRel.refl _ | exact relM_pure _ _ hst
  | .ifB line branches, hn => by
    simp only [Node.rel, renderNode]
    exact relM_wrapAt _ (locRel_lines hz line) (lineRel_renderBranches c hz branches (by simpa [Node.noIncl] using hn))
  | .caseB line subject cases, hn => by
    simp only [Node.rel, renderNode]
    refine relM_wrapAt _ (locRel_lines hz line) ?_
    refine relM_bind (relM_refl (R := fun a b : Env => a = b) (fun _ => rfl) _) (fun env env' h => ?_)
    subst h
    refine relM_bind (relM_refl (R := fun a b : GoVal => a = b) (fun _ => rfl) _) (fun sel sel' h => ?_)
    subst h
    exact lineRel_renderCases c hz sel cases (by simpa [Node.noIncl] using hn)
  | .loop line tablerow var e mods body clauses, hn => by
    have hn' : noInclList body = true ∧ noInclClauses clauses = true := by simpa [Node.noIncl] using hn
    have hbody := lineRel_renderBlockBody c hz body hn'.1
    cases clauses with
    | nil =>
      simp only [Node.rel, relNClauses, renderNode]
      exact relM_loopRun _ _ (locRel_lines hz line) _ _ _ _ hbody _ none none True.intro
    | cons els rest =>
      cases rest with
      | nil =>
        have hne : noInclList els = true := by
          have := hn'.2; simp only [noInclClauses, Bool.and_eq_true] at this; exact this.1
        simp only [Node.rel, relNClauses, renderNode]
        exact relM_loopRun _ _ (locRel_lines hz line) _ _ _ _ hbody _ (some _) (some _) (lineRel_renderBlockBody c hz els hne)
      | cons e2 r2 =>
        simp only [Node.rel, relNClauses, renderNode]
        exact relM_loopRun _ _ (locRel_lines hz line) _ _ _ _ hbody _ none none True.intro
  | .cycle line group v0 rest, _ => by
    simp only [Node.rel, renderNode]
    refine relM_wrapFailAt _ (locRel_lines hz line) ?_
    refine relM_bind (relM_refl (R := fun a b : GoVal => a = b) (fun _ => rfl) _) (fun lv lv' h => ?_)
    subst h
    split
    · exact relM_fail _ _ ⟨rfl, rfl, rfl, hz line⟩
    · exact relM_refl StatusRel.refl _
  | .brk line, _ => by
    simp only [Node.rel, renderNode]
    exact relM_pure _ _ (wrapError_rel _ (locRel_lines hz line) (e := .located _) (e' := .located _)
      (wrapError_rel _ (locRel_lines hz line) (e := .plain _) (e' := .plain _) rfl))
  | .cont line, _ => by
    simp only [Node.rel, renderNode]
    exact relM_pure _ _ (wrapError_rel _ (locRel_lines hz line) (e := .located _) (e' := .located _)
      (wrapError_rel _ (locRel_lines hz line) (e := .plain _) (e' := .plain _) rfl))
  | .incl line args, hn => by simp [Node.noIncl] at hn
theorem lineRel_renderList (c : RCtx) {g g' : Nat → Nat} (hz : ∀ x, g x = 0 ↔ g' x = 0) :
    ∀ ns : List Node, noInclList ns = true → LineMRel StatusRel (renderList c (relNodes g ns)) (renderList c (relNodes g' ns))
  | [], _ => by simp only [relNodes]; exact relM_refl StatusRel.refl _
  | n :: ns, hn => by
    have hn' : n.noIncl = true ∧ noInclList ns = true := by simpa [noInclList] using hn
    simp only [relNodes, renderList]
    refine relM_bind (lineRel_renderNode c hz n hn'.1) (fun st st' hst => ?_)
    cases st <;> cases st' <;> first | exact False.elim hst | exact lineRel_renderList c hz ns hn'.2 | exact relM_pure _ _ hst
theorem lineRel_renderBlockBody (c : RCtx) {g g' : Nat → Nat} (hz : ∀ x, g x = 0 ↔ g' x = 0) (body : List Node)
    (hn : noInclList body = true) : LineMRel StatusRel (renderBlockBody c (relNodes g body)) (renderBlockBody c (relNodes g' body)) := by
  unfold renderBlockBody
  refine relM_bind (lineRel_renderList c hz body hn) (fun st st' hst => ?_)
  cases st <;> cases st' <;> first | exact False.elim hst | exact relM_refl StatusRel.refl _ | exact relM_pure _ _ hst
theorem lineRel_renderBranches (c : RCtx) {g g' : Nat → Nat} (hz : ∀ x, g x = 0 ↔ g' x = 0) :
    ∀ bs : List (CondT × List Node), noInclBranches bs = true →
      LineMRel StatusRel (renderBranches c (relBranches g bs)) (renderBranches c (relBranches g' bs))
  | [], _ => by simp only [relBranches]; exact relM_refl StatusRel.refl _
  | (t, body) :: rest, hn => by
    have hn' : noInclList body = true ∧ noInclBranches rest = true := by simpa [noInclBranches] using hn
    simp only [relBranches, renderBranches]
    refine relM_bind (relM_evalCond c.P c.cfg.path hz t) (fun b b' hb => ?_)
    subst hb
    split
    · exact lineRel_renderBlockBody c hz body hn'.1
    · exact lineRel_renderBranches c hz rest hn'.2
theorem lineRel_renderCases (c : RCtx) {g g' : Nat → Nat} (hz : ∀ x, g x = 0 ↔ g' x = 0) (sel : GoVal) :
    ∀ cs : List (Option (Nat × List Expr) × List Node), noInclCases cs = true →
      LineMRel StatusRel (renderCases c sel (relCases g cs)) (renderCases c sel (relCases g' cs))
  | [], _ => by simp only [relCases]; exact relM_refl StatusRel.refl _
  | (none, body) :: rest, hn => by
    have hn' : noInclList body = true ∧ noInclCases rest = true := by simpa [noInclCases] using hn
    simp only [relCases, renderCases]
    exact lineRel_renderBlockBody c hz body hn'.1
  | (some (line, es), body) :: rest, hn => by
    have hn' : noInclList body = true ∧ noInclCases rest = true := by simpa [noInclCases] using hn
    simp only [relCases, renderCases]
    refine relM_bind (relM_wrapFailAt _ (locRel_lines hz line) (relM_refl (R := fun a b : Bool => a = b) (fun _ => rfl) _))
      (fun hit hit' h => ?_)
    subst h
    split
    · exact lineRel_renderBlockBody c hz body hn'.1
    · exact lineRel_renderCases c hz sel rest hn'.2
end

/-! ## Results of `run` that agree up to the line of the error -/

/-- the same output; or errors that agree in path flag, cause and message (the lines zero together); or the same panic -/
def RunResult.sameUpToLine : RunResult → RunResult → Prop
  | .ok o, .ok o' => o = o'
  | .err e, .err e' => SErrRel e e'
  | .panic w, .panic w' => w = w'
  | .unmodelled w, .unmodelled w' => w = w'
  | _, _ => False

theorem RunResult.sameUpToLine_refl : ∀ r : RunResult, r.sameUpToLine r
  | .ok _ => rfl
  | .err e => SErrRel.refl e
  | .panic _ => rfl
  | .unmodelled _ => rfl

/-- what `Render` returns, from the run of the interaction tree -/
def resultOf (x : Bytes × Prog.Outcome Unit) : RunResult :=
  match x with
  | (out, .ok _) => .ok out
  | (_, .err (.located e)) => .err e
  | (_, .err (.plain c)) => .err ⟨0, false, c, .byCause⟩
  | (_, .panic w) => .panic w
  | (_, .unmodelled w) => .unmodelled w

theorem runRoot_eq_resultOf (P : Prims) (O : OutPrims) (cfg : Cfg) (fs : FS) (fuel : Nat) (root : List Node) (env : Env) :
    runRoot P O cfg fs fuel root env = resultOf (frender P O cfg fs fuel root env).runPure := rfl

theorem sameUpToLine_of_progRel {p q : Prog Unit} (h : ProgRel (fun _ _ => True) p q) :
    (resultOf p.runPure).sameUpToLine (resultOf q.runPure) := by
  obtain ⟨h1, h2⟩ := h.runPure
  rcases hp : p.runPure with ⟨o, r⟩
  rcases hq : q.runPure with ⟨o', r'⟩
  rw [hp, hq] at h1 h2
  simp only at h1
  subst h1
  cases r <;> cases r' <;> simp only [OutRel] at h2
  · rfl
  · next e e' =>
    cases e <;> cases e' <;> simp only [RawRel] at h2
    · subst h2; exact SErrRel.refl _
    · exact h2
  · exact h2
  · exact h2

/-- one-node roots whose nodes render alike up to lines give results that agree up to the line -/
theorem runRoot_single_rel (P : Prims) (O : OutPrims) (cfg : Cfg) (fs : FS) (fuel : Nat) (n m : Node) (env : Env)
    (h : ProgRel (fun r r' : Status × RS => StatusRel r.1 r'.1 ∧ r.2 = r'.2)
      (renderNode (mkCtx P O cfg fs fuel) n ⟨env, {}⟩) (renderNode (mkCtx P O cfg fs fuel) m ⟨env, {}⟩)) :
    (runRoot P O cfg fs fuel [n] env).sameUpToLine (runRoot P O cfg fs fuel [m] env) := by
  rw [runRoot_eq_resultOf, runRoot_eq_resultOf, frender_single, frender_single]
  apply sameUpToLine_of_progRel
  refine ProgRel.bind h (fun r r' hr => ?_)
  obtain ⟨st, s⟩ := r
  obtain ⟨st', s'⟩ := r'
  obtain ⟨hst, hs⟩ := hr
  simp only at hst hs
  subst hs
  cases st <;> cases st' <;>
    first | exact False.elim hst | exact ProgRel.refl (fun _ => True.intro) _ | exact .fail (.located _) (.located _) hst
