import Liquid.Unicode
import Proofs.Utf8Lemmas
/-!
# Range tables of the case mapping: the lookup and the checkers over ranges, proved sound for every table

Helper lemmas of `Proofs/CaseTables.lean` (where the checkers are evaluated on the generated tables).
-/

/-! ## loops and connectives spelled with the recursors

The kernel evaluates the checkers below on the generated tables (`decide +kernel`, some 40 000 pairs of ranges). The
compiled forms of `List.all`, `&&`, `||` (`brecOn`, matchers) cost it several times more steps than the bare recursors,
so the checkers are written with these; each is the usual function (`allK_eq`, …). -/

noncomputable def andK (x y : Bool) : Bool := @Bool.rec (fun _ => Bool) false y x
noncomputable def orK (x y : Bool) : Bool := @Bool.rec (fun _ => Bool) y true x
noncomputable def allK {α : Type} (p : α → Bool) (l : List α) : Bool :=
  @List.rec α (fun _ => Bool) true (fun b _ ih => @Bool.rec (fun _ => Bool) false ih (p b)) l
noncomputable def anyK {α : Type} (p : α → Bool) (l : List α) : Bool :=
  @List.rec α (fun _ => Bool) false (fun b _ ih => @Bool.rec (fun _ => Bool) ih true (p b)) l

@[simp] theorem andK_eq (x y : Bool) : andK x y = (x && y) := by cases x <;> rfl
@[simp] theorem orK_eq (x y : Bool) : orK x y = (x || y) := by cases x <;> rfl
@[simp] theorem allK_eq {α : Type} (p : α → Bool) (l : List α) : allK p l = l.all p := by
  induction l with
  | nil => rfl
  | cons b t ih =>
    show @Bool.rec (fun _ => Bool) false (allK p t) (p b) = _
    rw [ih, List.all_cons]; cases p b <;> rfl
@[simp] theorem anyK_eq {α : Type} (p : α → Bool) (l : List α) : anyK p l = l.any p := by
  induction l with
  | nil => rfl
  | cons b t ih =>
    show @Bool.rec (fun _ => Bool) (anyK p t) true (p b) = _
    rw [ih, List.any_cons]; cases p b <;> rfl

/-! ## the lookup -/

theorem CaseRange.hits_iff (e : CaseRange) (r : Nat) :
    e.hits r = true ↔ (e.lo ≤ r ∧ r ≤ e.hi ∧ (e.alt = true → (r - e.lo) % 2 = 0)) := by
  unfold CaseRange.hits
  cases e.alt <;> simp [and_assoc, Nat.ble_eq]

theorem CaseRange.hits_plain_iff (lo hi img r : Nat) : CaseRange.hits ⟨lo, hi, false, img⟩ r = true ↔ (lo ≤ r ∧ r ≤ hi) := by
  simp [CaseRange.hits_iff]

theorem caseLookup_of_no_hit : ∀ (tbl : List CaseRange) (r : Nat), (∀ e ∈ tbl, e.hits r = false) → caseLookup tbl r = r
  | [], _, _ => rfl
  | e :: es, r, h => by
    simp only [caseLookup]
    rw [if_neg (by simp [h e (List.mem_cons_self ..)])]
    exact caseLookup_of_no_hit es r (fun x hx => h x (List.mem_cons_of_mem _ hx))

/-- a rune stays, and no range hits it, or the table sends it where a range that hits it sends it -/
theorem caseLookup_cases : ∀ (tbl : List CaseRange) (r : Nat),
    (caseLookup tbl r = r ∧ ∀ e ∈ tbl, e.hits r = false) ∨ ∃ e ∈ tbl, e.hits r = true ∧ caseLookup tbl r = e.image r
  | [], r => Or.inl ⟨rfl, by simp⟩
  | e :: es, r => by
    simp only [caseLookup]
    by_cases h : e.hits r = true
    · rw [if_pos h]; exact Or.inr ⟨e, List.mem_cons_self .., h, rfl⟩
    · rw [if_neg h]
      rcases caseLookup_cases es r with ⟨h1, h2⟩ | ⟨x, hx, h1, h2⟩
      · refine Or.inl ⟨h1, fun y hy => ?_⟩
        rcases List.mem_cons.mp hy with rfl | hy
        · simpa using h
        · exact h2 y hy
      · exact Or.inr ⟨x, List.mem_cons_of_mem _ hx, h1, h2⟩

/-! ## well-formedness -/

/-- the image of the last rune of the range -/
def CaseRange.imgHi (e : CaseRange) : Nat := e.img + (e.hi - e.lo)

/-- one range: non-empty, inside the code space, really moves its runes, an alternating range ends on a rune it moves -/
def CaseRange.wf (e : CaseRange) : Bool :=
  Nat.ble e.lo e.hi && Nat.ble e.hi 0x10FFFF && !Nat.beq e.img e.lo && (!e.alt || Nat.beq ((e.hi - e.lo) % 2) 0)

/-- every image of the range is a scalar value: the interval `[img, imgHi]` lies below the surrogates, or above them
and below U+110000 -/
def CaseRange.imgScalar (e : CaseRange) : Bool :=
  Nat.blt e.imgHi 0xD800 || (Nat.blt 0xDFFF e.img && Nat.ble e.imgHi 0x10FFFF)

/-- non-empty intervals, ascending and disjoint -/
def caseSorted : List CaseRange → Bool
  | [] => true
  | [a] => Nat.ble a.lo a.hi
  | a :: b :: rest => Nat.ble a.lo a.hi && Nat.blt a.hi b.lo && caseSorted (b :: rest)

def caseTableWf (tbl : List CaseRange) : Bool :=
  tbl.all CaseRange.wf && tbl.all CaseRange.imgScalar && caseSorted tbl

theorem CaseRange.image_scalar {e : CaseRange} (h : e.imgScalar = true) {r : Nat} (hr : e.hits r = true) :
    isScalar (e.image r) = true := by
  rw [CaseRange.hits_iff] at hr
  simp only [CaseRange.imgScalar, CaseRange.imgHi, Bool.and_eq_true, Bool.or_eq_true, Nat.blt_eq, Nat.ble_eq] at h
  rw [isScalar_iff]
  unfold CaseRange.image
  omega

/-- a table whose image intervals are scalar sends scalar values to scalar values -/
theorem caseLookup_scalar {tbl : List CaseRange} (h : tbl.all CaseRange.imgScalar = true) {r : Nat}
    (hr : isScalar r = true) : isScalar (caseLookup tbl r) = true := by
  rcases caseLookup_cases tbl r with ⟨h1, _⟩ | ⟨e, he, h1, h2⟩
  · rw [h1]; exact hr
  · rw [h2]; exact CaseRange.image_scalar (List.all_eq_true.mp h e he) h1

theorem caseSorted_tail : ∀ {tbl : List CaseRange} {a : CaseRange}, caseSorted (a :: tbl) = true → caseSorted tbl = true
  | [], _, _ => rfl
  | _ :: _, _, h => by
    simp only [caseSorted, Bool.and_eq_true] at h
    exact h.2

theorem caseSorted_head : ∀ {tbl : List CaseRange} {a : CaseRange}, caseSorted (a :: tbl) = true → a.lo ≤ a.hi
  | [], _, h => by simpa [caseSorted, Nat.ble_eq] using h
  | _ :: _, _, h => by
    simp only [caseSorted, Bool.and_eq_true, Nat.ble_eq] at h
    exact h.1.1

/-- every later range starts above the end of the first -/
theorem caseSorted_above : ∀ {tbl : List CaseRange} {a : CaseRange}, caseSorted (a :: tbl) = true → ∀ e ∈ tbl, a.hi < e.lo
  | [], _, _, e, he => by cases he
  | b :: rest, a, hs, e, he => by
    have hs' := hs
    simp only [caseSorted, Bool.and_eq_true, Nat.ble_eq, Nat.blt_eq] at hs'
    rcases List.mem_cons.mp he with rfl | he
    · exact hs'.1.2
    · have h1 := caseSorted_above hs'.2 e he
      have h2 := caseSorted_head hs'.2
      omega

/-- in a sorted table a rune is hit by at most one range: whichever range hits it decides the answer -/
theorem caseLookup_of_hit : ∀ {tbl : List CaseRange}, caseSorted tbl = true → ∀ {e : CaseRange}, e ∈ tbl →
    ∀ {r : Nat}, e.hits r = true → caseLookup tbl r = e.image r
  | [], _, _, he, _, _ => by cases he
  | a :: tbl, hs, e, he, r, hr => by
    rcases List.mem_cons.mp he with rfl | he'
    · simp [caseLookup, hr]
    · have hlt := caseSorted_above hs e he'
      have hna : a.hits r = false := by
        rw [CaseRange.hits_iff] at hr
        cases hh : a.hits r with
        | false => rfl
        | true => rw [CaseRange.hits_iff] at hh; omega
      simp only [caseLookup, hna]
      exact caseLookup_of_hit (caseSorted_tail hs) he' hr

/-- a rune below the first range of a sorted table stays -/
theorem caseLookup_below {a : CaseRange} {tbl : List CaseRange} (hs : caseSorted (a :: tbl) = true) {r : Nat}
    (hr : r < a.lo) : caseLookup (a :: tbl) r = r := by
  apply caseLookup_of_no_hit
  intro e he
  have hlo : r < e.lo := by
    rcases List.mem_cons.mp he with rfl | he
    · exact hr
    · have h1 := caseSorted_above hs e he
      have h2 := caseSorted_head hs
      omega
  cases hh : e.hits r with
  | false => rfl
  | true => rw [CaseRange.hits_iff] at hh; omega

/-! ## idempotence -/

/-- no rune of `a`'s image is hit by `b`: the image interval lies beside `b`, or `b` alternates and `a`'s image
(alternating as well, or a single rune) is out of step with it -/
noncomputable def CaseRange.imgMisses (a b : CaseRange) : Bool :=
  orK (Nat.blt a.imgHi b.lo) (orK (Nat.blt b.hi a.img)
    (andK (orK a.alt (Nat.beq a.lo a.hi)) (andK b.alt (Nat.beq ((a.img + b.lo) % 2) 1))))

noncomputable def caseIdemCheck (tbl : List CaseRange) : Bool := allK (fun a => allK (fun b => a.imgMisses b) tbl) tbl

theorem CaseRange.imgMisses_sound {a b : CaseRange} (h : a.imgMisses b = true) {r : Nat} (hr : a.hits r = true) :
    b.hits (a.image r) = false := by
  cases hb : b.hits (a.image r) with
  | false => rfl
  | true =>
    exfalso
    rw [CaseRange.hits_iff] at hr hb
    simp only [CaseRange.imgMisses, CaseRange.imgHi, orK_eq, andK_eq, Bool.or_eq_true, Bool.and_eq_true, Nat.blt_eq,
      Nat.beq_eq] at h
    unfold CaseRange.image at hb
    rcases h with h | h | ⟨ha, hb', h⟩
    · omega
    · omega
    · have h2 := hb.2.2 hb'
      rcases ha with ha | ha
      · have h1 := hr.2.2 ha
        omega
      · have : r = a.lo := by omega
        subst this
        omega

/-- the checker is sound: mapping twice is mapping once, for every rune -/
theorem caseLookup_idem {tbl : List CaseRange} (h : caseIdemCheck tbl = true) (r : Nat) :
    caseLookup tbl (caseLookup tbl r) = caseLookup tbl r := by
  rcases caseLookup_cases tbl r with ⟨h1, _⟩ | ⟨a, ha, h1, h2⟩
  · rw [h1, h1]
  · rw [h2]
    apply caseLookup_of_no_hit
    intro b hb
    simp only [caseIdemCheck, allK_eq] at h
    have := List.all_eq_true.mp (List.all_eq_true.mp h a ha) b hb
    exact CaseRange.imgMisses_sound this h1

/-! ## the round trip `ToUpper ∘ ToLower` on upper-case runes -/

/-- `u` undoes `l`: it hits the whole image of `l` and moves it back -/
noncomputable def CaseRange.inverts (l u : CaseRange) : Bool :=
  andK (Nat.ble u.lo l.img) (andK (Nat.ble l.imgHi u.hi) (andK (Nat.beq (u.img + (l.img - u.lo)) l.lo)
    (orK (!u.alt) (andK (orK l.alt (Nat.beq l.lo l.hi)) (Nat.beq ((l.img + u.lo) % 2) 0)))))

theorem CaseRange.inverts_sound {l u : CaseRange} (h : l.inverts u = true) {r : Nat} (hr : l.hits r = true) :
    u.hits (l.image r) = true ∧ u.image (l.image r) = r := by
  simp only [CaseRange.inverts, CaseRange.imgHi, orK_eq, andK_eq, Bool.or_eq_true, Bool.and_eq_true, Nat.ble_eq,
    Nat.beq_eq, Bool.not_eq_true'] at h
  obtain ⟨hlo, hhi, hd, halt⟩ := h
  rw [CaseRange.hits_iff] at hr ⊢
  unfold CaseRange.image
  refine ⟨⟨by omega, by omega, fun hu => ?_⟩, by omega⟩
  rcases halt with halt | ⟨ha, hp⟩
  · rw [hu] at halt; cases halt
  · rcases ha with ha | ha
    · have h1 := hr.2.2 ha
      omega
    · have : r = l.lo := by omega
      subst this
      omega

/-- the runes of a range, one by one (used only for the ranges of `ToLower` no single range of `ToUpper` undoes:
the title-case digraphs and the exceptions) -/
def CaseRange.runes (e : CaseRange) : List Nat :=
  ((List.range (e.hi + 1 - e.lo)).map (e.lo + ·)).filter e.hits

theorem CaseRange.mem_runes {e : CaseRange} {r : Nat} (h : e.hits r = true) : r ∈ e.runes := by
  have h' := (CaseRange.hits_iff e r).mp h
  unfold CaseRange.runes
  rw [List.mem_filter]
  refine ⟨List.mem_map.mpr ⟨r - e.lo, List.mem_range.mpr (by omega), by omega⟩, h⟩

/-- upper-casing what lower-casing gives returns to `u`, for every rune `u` that `ToLower` moves, `ToUpper` keeps and
that is not a listed exception: range by range, a range of `upper` undoes the range of `lower`, or its runes are tried
one by one -/
noncomputable def caseRoundTripCheck (upper lower : List CaseRange) (exceptions : List Nat) : Bool :=
  allK (fun l => orK (anyK l.inverts upper) (l.runes.all fun u =>
    !Nat.beq (caseLookup upper u) u || exceptions.any (Nat.beq u) || Nat.beq (caseLookup upper (l.image u)) u)) lower

theorem caseRoundTrip_sound {upper lower : List CaseRange} {exceptions : List Nat} (hsu : caseSorted upper = true)
    (hsl : caseSorted lower = true) (h : caseRoundTripCheck upper lower exceptions = true) {u : Nat}
    (hu : caseLookup upper u = u) (hx : u ∉ exceptions) : caseLookup upper (caseLookup lower u) = u := by
  rcases caseLookup_cases lower u with ⟨h1, _⟩ | ⟨l, hl, h1, _⟩
  · rw [h1]; exact hu
  · rw [caseLookup_of_hit hsl hl h1]
    simp only [caseRoundTripCheck, allK_eq, anyK_eq, orK_eq] at h
    have := List.all_eq_true.mp h l hl
    rcases Bool.or_eq_true _ _ |>.mp this with hinv | hall
    · obtain ⟨e, he, hinv⟩ := List.any_eq_true.mp hinv
      obtain ⟨a, b⟩ := CaseRange.inverts_sound hinv h1
      rw [caseLookup_of_hit hsu he a, b]
    · have := List.all_eq_true.mp hall u (CaseRange.mem_runes h1)
      simp only [Bool.or_eq_true, Bool.not_eq_true', Nat.beq_eq, List.any_eq_true] at this
      rcases this with (h | ⟨x, hx', h⟩) | h
      · rw [hu] at h; simp at h
      · exact absurd (h ▸ hx') hx
      · exact h

