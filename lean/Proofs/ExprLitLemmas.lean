import Proofs.ExprSpacing
import Proofs.SprintLemmas
/-!
# Literals from their source bytes (helper lemmas for `Proofs/C08Source.lean`)

`decVal ds` is the number a digit string denotes in base ten (leading zeros allowed); `natDec`/`intDec`
(the model of `strconv.Itoa`, `Liquid/Sprint.lean`) print it back. `parseExprSource_lexeme`: a source
that consists of one literal lexeme parses to that literal.
-/

set_option linter.unusedSimpArgs false

/-- the value of a string of decimal digits -/
def decVal (ds : Bytes) : Nat := ds.foldl (fun acc d => acc * 10 + (d.toNat - 48)) 0

theorem digit_val {k : Nat} (h : k < 10) : ((48 + k).toUInt8).toNat - 48 = k := by
  have : ((48 + k).toUInt8).toNat = 48 + k := by
    simp [Nat.toUInt8, UInt8.toNat_ofNat']
    omega
  omega

theorem foldl_decDigitsAux (fuel n : Nat) (acc : Bytes) (h : n < fuel) :
    (decDigitsAux fuel n acc).foldl (fun a d => a * 10 + (d.toNat - 48)) 0 =
      acc.foldl (fun a d => a * 10 + (d.toNat - 48)) n := by
  induction fuel generalizing n acc with
  | zero => omega
  | succ f ih =>
    simp only [decDigitsAux]
    split
    · rename_i hn
      simp only [List.foldl_cons, Nat.zero_mul, Nat.zero_add, digit_val hn]
    · rename_i hn
      rw [ih (n / 10) _ (by omega)]
      simp only [List.foldl_cons, digit_val (Nat.mod_lt n (by decide : 10 > 0))]
      congr 1; omega

/-- printing then reading a natural number -/
theorem decVal_natDec (n : Nat) : decVal (natDec n) = n := by
  unfold decVal natDec
  rw [foldl_decDigitsAux _ _ _ (Nat.lt_succ_self n)]
  rfl

theorem decVal_zeros_append (k : Nat) (ds : Bytes) : decVal (zeros k ++ ds) = decVal ds := by
  unfold decVal zeros
  induction k with
  | zero => rfl
  | succ k ih =>
    simp only [List.replicate_succ, List.cons_append, List.foldl_cons]
    exact ih

theorem isDigit_iff (c : UInt8) : isDigit c = true ↔ 48 ≤ c.toNat ∧ c.toNat ≤ 57 := by
  simp [isDigit, UInt8.le_iff_toNat_le]

theorem all_isDigit_of_allDigits (b : Bytes) (h : allDigits b) : b.all isDigit = true := by
  rw [List.all_eq_true]
  intro c hc
  exact (isDigit_iff c).2 (h c hc)

theorem natDec_all_digits (n : Nat) : (natDec n).all isDigit = true := all_isDigit_of_allDigits _ (natDec_digits n)

theorem zeros_all_digits (k : Nat) : (zeros k).all isDigit = true := all_isDigit_of_allDigits _ (allDigits_zeros k)

theorem natDec_ne_nil (n : Nat) : natDec n ≠ [] := by
  unfold natDec
  simp only [decDigitsAux]
  split
  · simp
  · intro h
    have h1 := congrArg List.length h
    have : ∀ fuel m acc, acc.length ≤ (decDigitsAux fuel m acc).length := by
      intro fuel
      induction fuel with
      | zero => intro m acc; simp [decDigitsAux]
      | succ f ih =>
        intro m acc
        simp only [decDigitsAux]
        split
        · simp
        · exact Nat.le_trans (by simp) (ih _ _)
    have := this n (n / 10) [(48 + n % 10).toUInt8]
    simp only [List.length_cons, List.length_nil] at this h1
    omega

/-! ## the value of an integer lexeme -/

theorem digits_head_ne_minus (ds : Bytes) (hne : ds ≠ []) (hd : ds.all isDigit = true) :
    ∃ d t, ds = d :: t ∧ d ≠ 45 := by
  cases ds with
  | nil => exact absurd rfl hne
  | cons d t =>
    simp only [List.all_cons, Bool.and_eq_true] at hd
    refine ⟨d, t, rfl, ?_⟩
    intro h; subst h; simp [isDigit] at hd

theorem intLitValue_pos (ds : Bytes) (hne : ds ≠ []) (hd : ds.all isDigit = true) :
    intLitValue ds = if IntKind.i64.inRange (decVal ds : Int) then some (decVal ds : Int) else none := by
  obtain ⟨d, t, rfl, hd45⟩ := digits_head_ne_minus ds hne hd
  unfold intLitValue decVal
  split
  · rename_i heq
    split at heq
    · rename_i h2; cases h2; exact absurd rfl hd45
    · cases heq; simp

theorem intLitValue_neg (ds : Bytes) :
    intLitValue (45 :: ds) = if IntKind.i64.inRange (-(decVal ds : Int)) then some (-(decVal ds : Int)) else none := by
  unfold intLitValue decVal
  rfl

/-! ## the value of a float lexeme -/

theorem takeWhile_digits (ds rest : Bytes) (hd : ds.all isDigit = true) :
    (ds ++ 46 :: rest).takeWhile isDigit = ds := by
  induction ds with
  | nil => simp [List.takeWhile, isDigit]
  | cons d t ih =>
    simp only [List.all_cons, Bool.and_eq_true] at hd
    simp [List.takeWhile, hd.1, ih hd.2]

/-- the float a literal `ds.fs` denotes: the exact decimal rounded to `float64`
    (`none`: out of range, a syntax error) -/
def floatOfDigits (ds fs : Bytes) : Option Rat := roundF64 (decimalOfDigits ds fs)

theorem floatLitValue_pos (ds fs : Bytes) (hne : ds ≠ []) (hd : ds.all isDigit = true) :
    floatLitValue (ds ++ 46 :: fs) = (match floatOfDigits ds fs with
      | none => some none
      | some r => some (some r)) := by
  obtain ⟨d, t, rfl, hd45⟩ := digits_head_ne_minus ds hne hd
  have htw := takeWhile_digits (d :: t) fs hd
  have hdrop : List.drop ((d :: t).length + 1) (d :: t ++ 46 :: fs) = fs := by
    have : d :: t ++ 46 :: fs = (d :: t ++ [46]) ++ fs := by simp
    rw [this]; exact List.drop_left' (by simp)
  unfold floatLitValue floatOfDigits
  split
  · rename_i heq
    split at heq
    · rename_i h2; simp only [List.cons_append, List.cons.injEq] at h2; exact absurd h2.1 hd45
    · cases heq
      simp only [htw, hdrop, Bool.false_and, Bool.false_eq_true, if_false]
      rfl

theorem floatLitValue_neg (ds fs : Bytes) (hd : ds.all isDigit = true) :
    floatLitValue (45 :: (ds ++ 46 :: fs)) = (match floatOfDigits ds fs with
      | none => some none
      | some r => if r == 0 then none else some (some (-r))) := by
  have htw := takeWhile_digits ds fs hd
  have hdrop : List.drop (ds.length + 1) (ds ++ 46 :: fs) = fs := by
    have : ds ++ 46 :: fs = (ds ++ [46]) ++ fs := by simp
    rw [this]; exact List.drop_left' (by simp)
  simp only [floatLitValue, floatOfDigits, htw, hdrop, Bool.true_and, if_true]
  rfl

/-! ## one lexeme as a whole source -/

theorem lexRun_semi : lexRun [59] = ([.ch 59], none) := by
  have h := lexRun_append [59] [] .rAny (by simp) (lexStep_plain 59 [] (by decide))
  simpa [consTok, mkTok, lexRun_nil] using h

/-- a source that is exactly one lexeme: the scanner yields its token and the closing `;` -/
theorem lexRun_single (r : Rule) (l : Bytes) (hl : Lexeme r l) :
    lexRun (l ++ [59]) = consTok (mkTok r l) ([.ch 59], none) := by
  rw [lexRun_append l [59] r hl.ne_nil (lexStep_lexeme r l [59] hl (fits_break r l 59 [] hl (by decide))), lexRun_semi]

theorem parseTokens_lit (v : GoVal) : parseTokensE [.lit v, .ch 59] = some (.expr (.lit v)) := rfl

/-- a source that is one literal lexeme with value `v` is the literal `v` -/
theorem parseExprSource_lit (r : Rule) (l : Bytes) (v : GoVal) (hl : Lexeme r l) (hv : mkTok r l = .ok (some (.lit v))) :
    parseExprSource l = .ok (.lit v) := by
  unfold parseExprSource
  rw [parseSource_eq, lexRun_single r l hl, hv]
  simp only [consTok, parseOfLex, parseTokens_lit]

theorem parseExprSource_lit_err (r : Rule) (l : Bytes) (hl : Lexeme r l) (hv : mkTok r l = .err .syntax) :
    parseExprSource l = .err .syntax := by
  unfold parseExprSource
  rw [parseSource_eq, lexRun_single r l hl, hv]
  simp only [consTok, parseOfLex]
