import Proofs.SrcReline
import Proofs.SrcBlocks
import Proofs.C10
import Proofs.SrcItems
/-!
# Source-level helpers: `{% if c0 %}A0 {% elsif c1 %}A1 … {% else %}E {% endif %}` with any number of clauses
-/

/-- a clause of an `if` block: `{% elsif cond %}body` or (`cond = none`) `{% else %}body` -/
structure Clause where
  cond : Option Bytes
  w : Ws
  body : List Item

def Clause.tag (c : Clause) : Item :=
  match c.cond with
  | some t => tg nmElsif t c.w
  | none => tg nmElse [] c.w

def clauseItems : List Clause → List Item
  | [] => []
  | c :: r => c.tag :: (c.body ++ clauseItems r)

theorem clauseItems_append : ∀ (a b : List Clause), clauseItems (a ++ b) = clauseItems a ++ clauseItems b
  | [], _ => rfl
  | c :: r, b => by simp [clauseItems, clauseItems_append r b]

/-- `{% if c0 %}A0 clauses… {% endif %}` -/
def chainSrc (c0 : Bytes) (w0 : Ws) (A0 : List Item) (rest : List Clause) (wE : Ws) : List Item :=
  tg nmIf c0 w0 :: (A0 ++ (clauseItems rest ++ [tg (endPrefix ++ nmIf) [] wE]))

/-- the test of a clause whose tag stands at line `l` (`none`: the condition is not an expression) -/
def Clause.test (c : Clause) (l : Nat) : Option CondT :=
  match c.cond with
  | none => some .always
  | some t =>
    match parseExprSource t with
    | .ok e => some (.expr l e)
    | _ => none

/-- the clause can be compiled: its condition is an expression, its body a self-contained template -/
def Clause.Good (d : Delims) (c : Clause) : Prop := (c.test 0).isSome = true ∧ Compiles d c.body 0

instance (d : Delims) (c : Clause) : Decidable (c.Good d) := by unfold Clause.Good; infer_instance

theorem Clause.test_some {c : Clause} (h : (c.test 0).isSome = true) (l : Nat) : ∃ t, c.test l = some t := by
  unfold Clause.test at h ⊢
  cases hc : c.cond with
  | none => exact ⟨_, rfl⟩
  | some t =>
    rw [hc] at h
    simp only at h ⊢
    cases hp : parseExprSource t with
    | ok e => exact ⟨_, rfl⟩
    | err e => rw [hp] at h; cases h
    | panic w => rw [hp] at h; cases h
    | unmodelled w => rw [hp] at h; cases h

/-- the compiled branches of a clause list whose first tag stands at line `l` -/
inductive BrsOf (d : Delims) : List Clause → Nat → List (CondT × List Node) → Prop where
  | nil (l : Nat) : BrsOf d [] l []
  | cons (c : Clause) (r : List Clause) (l : Nat) (t : CondT) (ns : List Node) (brs : List (CondT × List Node)) :
      c.test l = some t → compileTokens (tokensOf d c.body (l + countNL (c.tag.spell d))) = .ok ns →
      BrsOf d r (l + countNL (c.tag.spell d) + countNL (spell d c.body)) brs → BrsOf d (c :: r) l ((t, ns) :: brs)

theorem Clause.tag_tokens (d : Delims) (c : Clause) (r : List Item) (l : Nat) :
    ∃ tok : Token, tokensOf d (c.tag :: r) l = tok :: tokensOf d r (l + countNL (c.tag.spell d)) ∧ tok.ty = .tag ∧ tok.line = l ∧
      ((∃ t, c.cond = some t ∧ tok.name = nmElsif ∧ tok.args = t) ∨ (c.cond = none ∧ tok.name = nmElse)) := by
  unfold Clause.tag
  cases hc : c.cond with
  | some t => exact ⟨_, tokensOf_tg d nmElsif t c.w r l, rfl, rfl, .inl ⟨t, rfl, rfl, rfl⟩⟩
  | none => exact ⟨_, tokensOf_tg d nmElse [] c.w r l, rfl, rfl, .inr ⟨rfl, rfl⟩⟩

/-- the clause sequence of an `if` block: tokens, derivation, compiled tests -/
theorem clauses_compile (d : Delims) (o : Token) (ho : o.name = nmIf) : ∀ (rest : List Clause) (l : Nat) (post : List Item),
    (∀ c ∈ rest, c.Good d) →
    ∃ segs brs,
      tokensOf d (clauseItems rest ++ post) l = segToks segs ++ tokensOf d post (l + countNL (spell d (clauseItems rest))) ∧
      (∀ sg ∈ segs, stdGrammar.isClauseOf o sg.1 = true) ∧ (∀ sg, sg ∈ segs → Derives stdGrammar objChk sg.2.1 sg.2.2) ∧
      firstUnmodelledObj (segToks segs) = none ∧
      (∃ cs, compileClauses (segASTs segs) = .ok cs ∧ compileIfClauseTests cs = .ok brs) ∧
      BrsOf d rest l brs
  | [], l, post, _ => ⟨[], [], by simp [clauseItems, segToks, spell, countNL], by simp, by simp, rfl, ⟨[], rfl, rfl⟩, .nil l⟩
  | c :: r, l, post, h => by
    obtain ⟨hgt, hgc⟩ := h c (List.mem_cons_self ..)
    obtain ⟨t, ht⟩ := Clause.test_some hgt l
    obtain ⟨ns0, hns0⟩ := hgc.nodes
    have hns := compiles_any_line d c.body (l + countNL (c.tag.spell d)) hns0
    obtain ⟨hUb, ast, hd, hcl⟩ := compileTokens_ok hns
    obtain ⟨segs, brs, h1, h2, h3, h4, ⟨cs, h5, h6⟩, h7⟩ := clauses_compile d o ho r
      (l + countNL (c.tag.spell d) + countNL (spell d c.body)) post (fun x hx => h x (List.mem_cons_of_mem _ hx))
    obtain ⟨tok, htok, hty, hline, hkind⟩ := Clause.tag_tokens d c (c.body ++ clauseItems r ++ post) l
    refine ⟨(tok, tokensOf d c.body (l + countNL (c.tag.spell d)), ast) :: segs, (t, relNodes (· + (l + countNL (c.tag.spell d))) ns0) :: brs,
      ?_, ?_, ?_, ?_, ?_, ?_⟩
    · simp only [clauseItems, List.cons_append, List.append_assoc] at htok ⊢
      rw [htok, tokensOf_append, h1]
      simp only [segToks, spell_cons, spell_append, countNL_append, Nat.add_assoc]
      simp
    · intro sg hsg
      rcases List.mem_cons.mp hsg with rfl | hsg
      · simp only [Grammar.isClauseOf, hty, ho]
        rcases hkind with ⟨_, _, hn, _⟩ | ⟨_, hn⟩ <;> rw [hn] <;> decide
      · exact h2 sg hsg
    · intro sg hsg
      rcases List.mem_cons.mp hsg with rfl | hsg
      · exact hd
      · exact h3 sg hsg
    · simp only [segToks]
      rw [firstUnmodelledObj_tag _ _ hty, firstUnmodelledObj_append, hUb]
      exact h4
    · refine ⟨(tok, relNodes (· + (l + countNL (c.tag.spell d))) ns0) :: cs, ?_, ?_⟩
      · simp only [segASTs, compileClauses, hcl, h5, bind, Res.bind, pure]
      · simp only [compileIfClauseTests, h6, bind, Res.bind, pure]
        unfold Clause.test at ht
        rcases hkind with ⟨tt, hc, hn, ha⟩ | ⟨hc, hn⟩
        · rw [hc] at ht
          simp only at ht
          rw [hn, ha, hline]
          cases hp : parseExprSource tt with
          | ok e =>
            rw [hp] at ht
            simp only [Option.some.injEq] at ht
            subst ht
            rfl
          | err e => rw [hp] at ht; cases ht
          | panic w => rw [hp] at ht; cases ht
          | unmodelled w => rw [hp] at ht; cases ht
        · rw [hc] at ht
          simp only [Option.some.injEq] at ht
          subst ht
          rw [hn]
          rfl
    · exact .cons c r l t _ brs ht hns h7

/-- the compiled node of the whole chain -/
theorem chain_compile (d : Delims) (c0 : Bytes) (w0 : Ws) (A0 : List Item) (rest : List Clause) (wE : Ws) (line : Nat) (e0 : Expr)
    (hp : parseExprSource c0 = .ok e0) (hA : Compiles d A0 0) (hrest : ∀ c ∈ rest, c.Good d) :
    ∃ n0 brs, compileTokens (tokensOf d A0 (line + countNL ((tg nmIf c0 w0).spell d))) = .ok n0 ∧
      BrsOf d rest (line + countNL ((tg nmIf c0 w0).spell d) + countNL (spell d A0)) brs ∧
      compileTokens (tokensOf d (chainSrc c0 w0 A0 rest wE) line) = .ok [.ifB line ((.expr line e0, n0) :: brs)] := by
  obtain ⟨ns0, hns0⟩ := hA.nodes
  have hn0 := compiles_any_line d A0 (line + countNL ((tg nmIf c0 w0).spell d)) hns0
  obtain ⟨hUb, ast, hd, hcl⟩ := compileTokens_ok hn0
  have ho : stdGrammar.isOpen (tgTok d nmIf c0 w0 line) = true := isOpen_tgTok _ _ _ _ _ (by decide) (by decide) (by decide)
  obtain ⟨segs, brs, h1, h2, h3, h4, ⟨cs, h5, h6⟩, h7⟩ := clauses_compile d (tgTok d nmIf c0 w0 line) rfl rest
    (line + countNL ((tg nmIf c0 w0).spell d) + countNL (spell d A0)) [tg (endPrefix ++ nmIf) [] wE] hrest
  refine ⟨_, brs, hn0, h7, ?_⟩
  have htoks : tokensOf d (chainSrc c0 w0 A0 rest wE) line =
      tgTok d nmIf c0 w0 line :: (tokensOf d A0 (line + countNL ((tg nmIf c0 w0).spell d)) ++
        (segToks segs ++ tgTok d (endPrefix ++ nmIf) [] wE
          (line + countNL ((tg nmIf c0 w0).spell d) + countNL (spell d A0) + countNL (spell d (clauseItems rest))) :: [])) := by
    unfold chainSrc
    rw [tokensOf_tg, tokensOf_append, h1, tokensOf_tg, tokensOf_nil]
  have hU : firstUnmodelledObj (tokensOf d (chainSrc c0 w0 A0 rest wE) line) = none := by
    rw [htoks, firstUnmodelledObj_tag _ _ rfl, firstUnmodelledObj_append, hUb]
    simp only
    rw [firstUnmodelledObj_append, h4]
    rfl
  have hder := Derives.block (g := stdGrammar) (chk := objChk) (tgTok d nmIf c0 w0 line)
    (tgTok d (endPrefix ++ nmIf) [] wE
      (line + countNL ((tg nmIf c0 w0).spell d) + countNL (spell d A0) + countNL (spell d (clauseItems rest))))
    _ ast segs [] [] ho hd h2 h3 (isEndOf_of_name rfl rfl) .nil
  rw [← htoks] at hder
  rw [compileTokens_of_derives hU hder, compileList_single]
  have hargs : (tgTok d nmIf c0 w0 line).args = c0 := rfl
  have hline : (tgTok d nmIf c0 w0 line).line = line := rfl
  have hn2 : ((tgTok d nmIf c0 w0 line).name == nmIf) = true := by
    show (nmIf == nmIf) = true
    decide
  simp only [compileNode, hcl, h5, bind, Res.bind, if_true, hargs, hp, liftParse, h6, hline, hn2, pure, Bool.true_or]

/-! ## Reading the branch list -/

theorem BrsOf.split (d : Delims) : ∀ (pre : List Clause) (sel : Clause) (post : List Clause) (l : Nat) (brs : List (CondT × List Node)),
    BrsOf d (pre ++ sel :: post) l brs →
    ∃ bpre t ns later, brs = bpre ++ (t, ns) :: later ∧ BrsOf d pre l bpre ∧
      sel.test (l + countNL (spell d (clauseItems pre))) = some t ∧
      compileTokens (tokensOf d sel.body (l + countNL (spell d (clauseItems pre)) + countNL (sel.tag.spell d))) = .ok ns
  | [], sel, post, l, brs, h => by
    cases h with
    | cons _ _ _ t ns brs' h1 h2 h3 =>
      exact ⟨[], t, ns, brs', rfl, .nil l, by simpa [clauseItems, spell, countNL] using h1,
        by simpa [clauseItems, spell, countNL] using h2⟩
  | c :: r, sel, post, l, brs, h => by
    cases h with
    | cons _ _ _ t ns brs' h1 h2 h3 =>
      obtain ⟨bpre, t', ns', later, e, hb, ht, hn⟩ := BrsOf.split d r sel post _ brs' h3
      refine ⟨(t, ns) :: bpre, t', ns', later, by rw [e]; rfl, .cons c r l t ns bpre h1 h2 hb, ?_, ?_⟩
      · simpa [clauseItems, spell_cons, spell_append, countNL_append, Nat.add_assoc] using ht
      · simpa [clauseItems, spell_cons, spell_append, countNL_append, Nat.add_assoc] using hn

/-- an `elsif` clause whose condition evaluates falsy -/
def Clause.Falsy (P : Prims) (env : Env) (c : Clause) : Prop :=
  ∃ t e v, c.cond = some t ∧ parseExprSource t = .ok e ∧ evaluate P env e = .ok v ∧ v.test = false

theorem BrsOf.falsy (d : Delims) (P : Prims) (env : Env) : ∀ (pre : List Clause) (l : Nat) (brs : List (CondT × List Node)),
    BrsOf d pre l brs → (∀ c ∈ pre, c.Falsy P env) → ∀ b ∈ brs, condRes P env b.1 = .ok false
  | [], _, _, h, _, b, hb => by cases h; cases hb
  | c :: r, l, _, h, hf, b, hb => by
    cases h with
    | cons _ _ _ t ns brs' h1 h2 h3 =>
      rcases List.mem_cons.mp hb with rfl | hb
      · obtain ⟨tt, e, v, hc, hp, hv, hvt⟩ := hf c (List.mem_cons_self ..)
        unfold Clause.test at h1
        rw [hc] at h1
        simp only [hp, Option.some.injEq] at h1
        subst h1
        simp only [condRes, hv, hvt]
      · exact BrsOf.falsy d P env r _ brs' h3 (fun x hx => hf x (List.mem_cons_of_mem _ hx)) b hb

/-! ## `run` on the source of a chain -/

theorem run_chain_shape (P : Prims) (O : OutPrims) (cfg : Cfg) (fs : FS) (fuel : Nat) (line : Nat) (env : Env)
    (c0 : Bytes) (w0 : Ws) (A0 : List Item) (rest : List Clause) (wE : Ws) (e0 : Expr)
    (hg : GoodDelims (Delims.ofList cfg.delims)) (hc : Clean (Delims.ofList cfg.delims) (chainSrc c0 w0 A0 rest wE))
    (hp : parseExprSource c0 = .ok e0) (hA : Compiles (Delims.ofList cfg.delims) A0 0)
    (hrest : ∀ c ∈ rest, c.Good (Delims.ofList cfg.delims)) :
    ∃ n0 brs,
      compileTokens (tokensOf (Delims.ofList cfg.delims) A0 (line + countNL ((tg nmIf c0 w0).spell (Delims.ofList cfg.delims)))) = .ok n0 ∧
      BrsOf (Delims.ofList cfg.delims) rest
        (line + countNL ((tg nmIf c0 w0).spell (Delims.ofList cfg.delims)) + countNL (spell (Delims.ofList cfg.delims) A0)) brs ∧
      run P O cfg fs fuel (spell (Delims.ofList cfg.delims) (chainSrc c0 w0 A0 rest wE)) line env =
        runRoot P O cfg fs fuel [.ifB line ((.expr line e0, n0) :: brs)] env := by
  obtain ⟨n0, brs, h1, h2, h3⟩ := chain_compile (Delims.ofList cfg.delims) c0 w0 A0 rest wE line e0 hp hA hrest
  refine ⟨n0, brs, h1, h2, ?_⟩
  rw [run_spell P O cfg fs fuel _ line env hg hc, h3]
  rfl

