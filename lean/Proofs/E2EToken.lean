import Proofs.E2ESpell
/-!
# The token pattern on the spelling of one clean object or tag item

`matchAt_obj` / `matchAt_tag`: at the head of `item.spell d ++ rest` the token pattern matches
exactly the item's spelling, with the groups at the item's arguments (and name).
-/

/-! ## Facts about bytes and delimiters -/

theorem word_not_space {x : UInt8} (h : Pred.test .word x = true) : Pred.test .space x = false := by
  simp only [Pred.test, Bool.or_eq_false_iff, beq_eq_false_iff_ne]
  refine ⟨⟨⟨⟨?_, ?_⟩, ?_⟩, ?_⟩, ?_⟩ <;> (rintro rfl; revert h; decide)

theorem word_not_hyphen {x : UInt8} (h : Pred.test .word x = true) : Pred.test (.eq 45) x = false := by
  simp only [Pred.test, beq_eq_false_iff_ne]
  rintro rfl; revert h; decide

theorem space_not_word {x : UInt8} (h : Pred.test .space x = true) : Pred.test .word x = false := by
  cases hw : Pred.test .word x with
  | false => rfl
  | true => rw [word_not_space hw] at h; cases h

theorem space_not_hyphen {x : UInt8} (h : Pred.test .space x = true) : Pred.test (.eq 45) x = false := by
  simp only [Pred.test, beq_eq_false_iff_ne]
  rintro rfl; revert h; decide

theorem delimByte_spec {b : UInt8} (h : delimByte b = true) :
    Pred.test .space b = false ∧ Pred.test .word b = false ∧ Pred.test (.eq 45) b = false := by
  simp only [delimByte, Bool.and_eq_true, Bool.not_eq_true', bne_iff_ne, ne_eq, decide_eq_true_eq] at h
  exact ⟨h.1.1.1, h.1.1.2, by simp [Pred.test, h.1.2]⟩

theorem delim_head {l : Bytes} (h : ∀ b ∈ l, delimByte b = true) :
    HeadNot .space l ∧ HeadNot .word l ∧ HeadNot (.eq 45) l := by
  refine ⟨?_, ?_, ?_⟩ <;>
  · intro x t' e
    have := delimByte_spec (h x (by rw [e]; exact List.mem_cons_self ..))
    first | exact this.1 | exact this.2.1 | exact this.2.2

theorem headNot_append_of_ne {pr : Pred} {a b : Bytes} (ha : a ≠ []) (h : HeadNot pr a) : HeadNot pr (a ++ b) := by
  intro x t' e
  cases a with
  | nil => exact absurd rfl ha
  | cons y ys => simp only [List.cons_append, List.cons.injEq] at e; exact h x ys (by rw [e.1])

theorem headNot_of_all {pr qr : Pred} {ws t : Bytes} (hall : AllP qr ws) (hq : ∀ x, qr.test x = true → pr.test x = false)
    (ht : HeadNot pr t) : HeadNot pr (ws ++ t) := by
  cases ws with
  | nil => exact ht
  | cons w ws' => exact headNot_cons (hq w (hall w (List.mem_cons_self ..)))

theorem headNot_hyB_space (b : Bool) (t : Bytes) (ht : HeadNot .space t) : HeadNot .space (hyB b ++ t) := by
  cases b with
  | true => exact headNot_cons (by decide)
  | false => exact ht

theorem headNot_hyB_word (b : Bool) (t : Bytes) (ht : HeadNot .word t) : HeadNot .word (hyB b ++ t) := by
  cases b with
  | true => exact headNot_cons (by decide)
  | false => exact ht

theorem chr_m_stuck {R} (mf : Nat) (pr : Pred) (s : Bytes) (p : Nat) (c : Caps) (k : K R) (h : HeadNot pr s) :
    (Re.chr pr).m mf s p c k = none := by
  cases s with
  | nil => rfl
  | cons x xs => rw [chr_m_cons, h x xs rfl]; rfl

theorem star_chr_stuck {R} (mf : Nat) (pr : Pred) (g : Bool) (n : Nat) (s : Bytes) (p : Nat) (c : Caps) (k : K R)
    (h : HeadNot pr s) : starLoop (fun s p c k => (Re.chr pr).m mf s p c k) g n s p c k = k s p c := by
  cases n with
  | zero => rfl
  | succ n =>
    cases g with
    | true => rw [starLoop_succ_true, chr_m_stuck mf pr s p c _ h]
    | false =>
      rw [starLoop_succ_false, chr_m_stuck mf pr s p c _ h]
      cases k s p c <;> rfl

/-! ## The closing delimiter is the first one -/

theorem prefix_of_append_long {l x r : Bytes} (hlen : l.length ≤ x.length) (h : l <+: x ++ r) : l <+: x := by
  rw [List.prefix_iff_eq_take] at h ⊢
  rw [List.take_append_of_le_length hlen] at h
  exact h

theorem firstAt_drop {l mid : Bytes} (hf : firstAt l mid) (rest : Bytes) (i : Nat) (hi : i < mid.length) :
    ¬ l <+: (mid ++ (l ++ rest)).drop i := by
  intro h
  rw [← List.append_assoc, List.drop_append_of_le_length (by simp; omega)] at h
  exact hf i hi (prefix_of_append_long (by simp; omega) h)

theorem firstAt_append {l mid : Bytes} (hf : firstAt l mid) (pre suf rest : Bytes)
    (h : pre ++ (l ++ suf) = mid ++ (l ++ rest)) (hlt : pre.length < mid.length) : False := by
  have h1 : (mid ++ (l ++ rest)).drop pre.length = l ++ suf := by rw [← h]; exact List.drop_left' rfl
  exact firstAt_drop hf rest _ hlt (by rw [h1]; exact List.prefix_append _ _)

theorem noPrefixSuffix_spec {tr a : Bytes} (h : noPrefixSuffix tr a) : ∀ q, q ≠ [] → q <:+ a → ¬ q <+: tr := by
  intro q hq hs hp
  have hlen : q.length ≤ tr.length := hp.length_le
  have hpos : 0 < q.length := List.length_pos_iff.mpr hq
  have := h (q.length - 1) (by omega)
  rw [show q.length - 1 + 1 = q.length by omega, ← List.prefix_iff_eq_take.mp hp] at this
  exact this hs

/-- inside the arguments the closing part `\s*-?CLOSE` does not match -/
theorem closer_none {R} (mf : Nat) (l args wr : Bytes) (hr : Bool) (rest : Bytes) (p : Nat) (c : Caps) (k : K R)
    (hlast : lastOk args) (hfirst : firstAt l (args ++ (wr ++ hyB hr))) (j : Nat) (hj : j < args.length) :
    (closer l).m mf ((args ++ (wr ++ (hyB hr ++ (l ++ rest)))).drop j) p c k = none := by
  cases h : (closer l).m mf ((args ++ (wr ++ (hyB hr ++ (l ++ rest)))).drop j) p c k with
  | none => rfl
  | some r =>
    exfalso
    obtain ⟨ws, b, t, hs, hws⟩ := closer_sound mf l _ p c k r h
    rw [List.drop_append_of_le_length (Nat.le_of_lt hj)] at hs
    have hzl : (args.drop j).getLast? = args.getLast? := by
      rw [List.getLast?_drop, if_neg (by omega)]
    cases hz : args.getLast? with
    | none =>
      have := List.getLast?_eq_none_iff.mp hz
      rw [this] at hj; simp at hj
    | some z =>
      have hzok : Pred.test .space z = false ∧ z ≠ 45 := by
        unfold lastOk at hlast; rw [hz] at hlast; exact hlast
      have hza : z ∈ args.drop j := List.mem_of_getLast? (by rw [hzl, hz])
      have hX : z ∉ ws ++ hyB b := by
        intro hm
        rcases List.mem_append.mp hm with hm | hm
        · have := hws z hm; rw [hzok.1] at this; cases this
        · cases b with
          | true => simp [hyB] at hm; exact hzok.2 hm
          | false => simp [hyB] at hm
      have hs' : (ws ++ hyB b) ++ (l ++ t) = (args.drop j ++ (wr ++ hyB hr)) ++ (l ++ rest) := by
        simp only [List.append_assoc]; exact hs.symm
      rcases List.append_eq_append_iff.mp hs' with ⟨as, h1, h2⟩ | ⟨bs, h1, _⟩
      · cases as with
        | nil =>
          rw [List.append_nil] at h1
          exact hX (by rw [← h1]; exact List.mem_append_left _ hza)
        | cons a0 as' =>
          refine firstAt_append hfirst (args.take j ++ (ws ++ hyB b)) t rest ?_ ?_
          · rw [List.append_assoc, List.append_assoc, h2]
            have : args.take j ++ (ws ++ (hyB b ++ (a0 :: as' ++ (l ++ rest)))) =
                args.take j ++ ((ws ++ hyB b ++ a0 :: as') ++ (l ++ rest)) := by simp
            rw [this, ← h1]
            simp only [List.append_assoc]
            rw [← List.append_assoc (args.take j) (args.drop j), List.take_append_drop]
          · have e : args.length = (args.take j).length + (args.drop j).length := by
              rw [← List.length_append, List.take_append_drop]
            have h3 := congrArg List.length h1
            simp only [List.length_append, List.length_cons] at h3 ⊢
            omega
      · exact hX (by rw [h1]; exact List.mem_append_left _ (List.mem_append_left _ hza))

/-! ## The two alternatives of the token pattern -/

def objReOf (d : Delims) : Re :=
  Re.seq (Re.lit d.ol) (.seq hy (.seq sp (.seq (.group 1 (Re.plusLazy (.chr .any))) (closer d.or))))

def optArgs (tr : Bytes) : Re := Re.opt (.seq (Re.plus (.chr .space)) (.group 3 (Re.plusLazy (unitsRe tr))))

def tagReOf (d : Delims) : Re :=
  Re.seq (Re.lit d.tl) (.seq hy (.seq sp (.seq (.group 2 (Re.plus (.chr .word))) (.seq (optArgs d.tr) (closer d.tr)))))

theorem tokenRe_eq (d : Delims) : tokenRe d = .alt (objReOf d) (tagReOf d) := rfl

/-- the final continuation of `matchAt` -/
def kfin : K (Nat × Caps) := fun _ p' c => some (p', c)

theorem matchAt_eq (mf : Nat) (re : Re) (s : Bytes) (p : Nat) : re.matchAt mf s p = re.m mf s p [] kfin := rfl

/-- the object alternative on a clean object -/
theorem objRe_m (d : Delims) (hg : GoodDelims d) (args : Bytes) (hl hr : Bool) (wl wr rest : Bytes)
    (hci : CleanItem d (.obj args hl hr wl wr)) (hcc : CleanClose d (.obj args hl hr wl wr))
    (p mf : Nat) (hmf : wl.length + args.length + wr.length ≤ mf) :
    (objReOf d).m mf ((Item.obj args hl hr wl wr).spell d ++ rest) p [] kfin =
      some (p + ((Item.obj args hl hr wl wr).spell d).length,
        [⟨1, p + (d.ol.length + ((hyB hl).length + wl.length)), p + (d.ol.length + ((hyB hl).length + wl.length)) + args.length⟩]) := by
  obtain ⟨hwl, hwr, hane, hah, hah2, hal⟩ := hci
  obtain ⟨_, horne, _, _, _, hor, _, _, _, _⟩ := hg
  obtain ⟨hor1, _, hor3⟩ := delim_head hor
  have hS : (Item.obj args hl hr wl wr).spell d ++ rest =
      d.ol ++ (hyB hl ++ (wl ++ (args ++ (wr ++ (hyB hr ++ (d.or ++ rest)))))) := by
    simp [Item.spell, List.append_assoc]
  have hL : ((Item.obj args hl hr wl wr).spell d).length =
      d.ol.length + ((hyB hl).length + (wl.length + (args.length + (wr.length + ((hyB hr).length + d.or.length))))) := by
    simp [Item.spell, List.length_append]
  rw [hS, hL, objReOf, seq_m, lit_m_ok, seq_m]
  -- after the optional hyphen
  have hafter : ∀ q, (Re.seq sp (.seq (.group 1 (Re.plusLazy (.chr .any))) (closer d.or))).m mf
      (wl ++ (args ++ (wr ++ (hyB hr ++ (d.or ++ rest))))) q [] kfin =
      some (q + (wl.length + (args.length + (wr.length + ((hyB hr).length + d.or.length)))),
        [⟨1, q + wl.length, q + wl.length + args.length⟩]) := by
    intro q
    rw [seq_m]
    refine sp_m_all mf wl _ q [] _ _ hwl (headNot_append_of_ne hane hah) (by omega) ?_
    rw [seq_m]
    cases args with
    | nil => exact absurd rfl hane
    | cons x u =>
      rw [List.cons_append]
      refine plusLazy_any_group mf 1 x u _ (q + wl.length) [] _ _ (by simp at hmf; omega) ?_ ?_
      · intro i hi c'
        have := closer_none mf d.or (x :: u) wr hr rest (q + wl.length + 1 + i) c' kfin hal hcc (i + 1) (by simpa using hi)
        simpa using this
      · refine closer_ok mf d.or wr rest hr _ _ kfin _ hwr (by omega) hor1 hor3 horne ?_
        simp only [kfin, List.length_cons, Option.some.injEq, Prod.mk.injEq, and_true]
        omega
  cases hl with
  | true =>
    rw [show hyB true = [45] from rfl, List.singleton_append]
    refine hy_m_take mf _ _ [] _ _ ?_
    rw [hafter]
    have e1 : (hyB true).length = 1 := rfl
    simp only [Option.some.injEq, Prod.mk.injEq, List.cons.injEq, Cap.mk.injEq, and_true, true_and, List.length_singleton]
    omega
  | false =>
    rw [show hyB false = [] from rfl, List.nil_append]
    rw [hy_m_skip, hafter]
    · have e1 : (hyB false).length = 0 := rfl
      simp only [Option.some.injEq, Prod.mk.injEq, List.cons.injEq, Cap.mk.injEq, and_true, true_and, List.length_nil]
      omega
    · cases wl with
      | nil => rw [List.nil_append]; exact headNot_append_of_ne hane (hah2 ⟨rfl, rfl⟩)
      | cons w ws => exact headNot_cons (space_not_hyphen (hwl w (List.mem_cons_self ..)))

/-- the groups of a tag match: name, and arguments when there are any -/
def tagCaps (ns : Nat) (name args wm : Bytes) : Caps :=
  if args = [] then [⟨2, ns, ns + name.length⟩]
  else [⟨3, ns + name.length + wm.length, ns + name.length + wm.length + args.length⟩, ⟨2, ns, ns + name.length⟩]

theorem tagArgPart_length (args wm : Bytes) :
    (tagArgPart args wm).length = if args = [] then 0 else wm.length + args.length := by
  unfold tagArgPart; split <;> simp

/-- the tag alternative on a clean tag -/
theorem tagRe_m (d : Delims) (hg : GoodDelims d) (name args : Bytes) (hl hr : Bool) (wl wm wr rest : Bytes)
    (hci : CleanItem d (.tag name args hl hr wl wm wr)) (hcc : CleanClose d (.tag name args hl hr wl wm wr))
    (p mf : Nat) (hmf : wl.length + name.length + (tagArgPart args wm).length + wr.length ≤ mf) :
    (tagReOf d).m mf ((Item.tag name args hl hr wl wm wr).spell d ++ rest) p [] kfin =
      some (p + ((Item.tag name args hl hr wl wm wr).spell d).length,
        tagCaps (p + (d.tl.length + ((hyB hl).length + wl.length))) name args wm) := by
  obtain ⟨hwl, hwm, hwr, hnne, hnw, hnoargs, hargs⟩ := hci
  obtain ⟨_, _, _, htrne, _, _, _, htr, _, _⟩ := hg
  obtain ⟨htr1, htr2, htr3⟩ := delim_head htr
  have hS : (Item.tag name args hl hr wl wm wr).spell d ++ rest =
      d.tl ++ (hyB hl ++ (wl ++ (name ++ (tagArgPart args wm ++ (wr ++ (hyB hr ++ (d.tr ++ rest))))))) := by
    simp [Item.spell, List.append_assoc]
  have hL : ((Item.tag name args hl hr wl wm wr).spell d).length =
      d.tl.length + ((hyB hl).length + (wl.length + (name.length + ((tagArgPart args wm).length +
        (wr.length + ((hyB hr).length + d.tr.length)))))) := by
    simp [Item.spell, List.length_append]
  rw [hS, hL, tagReOf, seq_m, lit_m_ok, seq_m]
  have hafter : ∀ q, (Re.seq sp (.seq (.group 2 (Re.plus (.chr .word))) (.seq (optArgs d.tr) (closer d.tr)))).m mf
      (wl ++ (name ++ (tagArgPart args wm ++ (wr ++ (hyB hr ++ (d.tr ++ rest)))))) q [] kfin =
      some (q + (wl.length + (name.length + ((tagArgPart args wm).length + (wr.length + ((hyB hr).length + d.tr.length))))),
        tagCaps (q + wl.length) name args wm) := by
    intro q
    rw [seq_m]
    cases name with
    | nil => exact absurd rfl hnne
    | cons n0 ns =>
      have hn0 : Pred.test .word n0 = true := hnw n0 (List.mem_cons_self ..)
      refine sp_m_all mf wl _ q [] _ _ hwl (headNot_cons (word_not_space hn0)) (by omega) ?_
      rw [seq_m, group_m, List.cons_append]
      have hT : HeadNot .word (tagArgPart args wm ++ (wr ++ (hyB hr ++ (d.tr ++ rest)))) := by
        unfold tagArgPart
        split
        · rw [List.nil_append]
          exact headNot_of_all hwr (fun x => space_not_word) (headNot_hyB_word hr _ (headNot_append_of_ne htrne htr2))
        · next hane =>
          obtain ⟨hwmne, _, _, _⟩ := hargs hane
          rw [List.append_assoc]
          cases wm with
          | nil => exact absurd rfl hwmne
          | cons w0 ws => exact headNot_cons (space_not_word (hwm w0 (List.mem_cons_self ..)))
      refine plusGreedy_all mf .word n0 ns _ (q + wl.length) [] _ _ hn0
        (fun x hx => hnw x (List.mem_cons_of_mem _ hx)) hT (by simp at hmf; omega) ?_
      show (Re.seq (optArgs d.tr) (closer d.tr)).m mf _ _ _ kfin = _
      rw [seq_m, optArgs, Re.opt, alt_m]
      by_cases hane : args = []
      · subst hane
        obtain ⟨hwrlen, hwrhr⟩ := hnoargs rfl
        have hX : ∀ (pp : Nat) (cc : Caps) (kk : K (Nat × Caps)),
            (Re.seq (Re.plus (.chr .space)) (.group 3 (Re.plusLazy (unitsRe d.tr)))).m mf
              (wr ++ (hyB hr ++ (d.tr ++ rest))) pp cc kk = none := by
          intro pp cc kk
          rw [seq_m, Re.plus, seq_m]
          cases wr with
          | nil =>
            rw [List.nil_append]
            exact chr_m_stuck mf _ _ _ _ _ (headNot_hyB_space hr _ (headNot_append_of_ne htrne htr1))
          | cons w ws =>
            cases ws with
            | cons w2 ws2 => simp at hwrlen
            | nil =>
              have hhr : hr = false := hwrhr (by simp)
              subst hhr
              rw [show hyB false = [] from rfl, List.nil_append, List.singleton_append, chr_m_cons,
                if_pos (hwr w (List.mem_cons_self ..)), star_m,
                star_chr_stuck mf .space true mf _ _ _ _ (headNot_append_of_ne htrne htr1),
                group_m, Re.plusLazy, seq_m]
              exact units_m_prefix_none mf d.tr rest _ _ _ htrne
        rw [show tagArgPart [] wm = [] from rfl, List.nil_append, hX, eps_m]
        refine closer_ok mf d.tr wr rest hr _ _ kfin _ hwr (by omega) htr1 htr3 htrne ?_
        simp only [kfin, tagCaps, if_true, List.length_nil, List.length_cons, Option.some.injEq, Prod.mk.injEq, and_true]
        omega
      · obtain ⟨hwmne, hah, hal, hnps⟩ := hargs hane
        have hta : (tagArgPart args wm).length = wm.length + args.length := by rw [tagArgPart_length, if_neg hane]
        have hfirst := hcc hane
        have hX : (Re.seq (Re.plus (.chr .space)) (.group 3 (Re.plusLazy (unitsRe d.tr)))).m mf
              (tagArgPart args wm ++ (wr ++ (hyB hr ++ (d.tr ++ rest)))) (q + wl.length + (ns.length + 1))
              [⟨2, q + wl.length, q + wl.length + (ns.length + 1)⟩]
              (fun s' p' c' => (closer d.tr).m mf s' p' c' kfin) =
            some (q + (wl.length + ((n0 :: ns).length + ((tagArgPart args wm).length + (wr.length + ((hyB hr).length + d.tr.length))))),
              tagCaps (q + wl.length) (n0 :: ns) args wm) := by
          rw [seq_m, tagArgPart, if_neg hane, List.append_assoc]
          cases wm with
          | nil => exact absurd rfl hwmne
          | cons w0 ws =>
            rw [List.cons_append]
            refine plusGreedy_all mf .space w0 ws _ _ _ _ _ (hwm w0 (List.mem_cons_self ..))
              (fun x hx => hwm x (List.mem_cons_of_mem _ hx)) (headNot_append_of_ne hane hah) (by simp only [List.length_cons] at hta hmf; omega) ?_
            refine plusLazy_units_group mf 3 d.tr args _ _ _ _ _ hane (by omega) ?_ (noPrefixSuffix_spec hnps) ?_ ?_
            · intro i hi
              have := firstAt_drop hfirst rest i (by simp; omega)
              simpa [List.append_assoc] using this
            · intro i hi c'
              exact closer_none mf d.tr args wr hr rest _ c' kfin hal hfirst i hi
            · refine closer_ok mf d.tr wr rest hr _ _ kfin _ hwr (by omega) htr1 htr3 htrne ?_
              simp only [kfin, tagCaps, if_neg hane, List.length_cons, Option.some.injEq, Prod.mk.injEq,
                and_true, List.length_append]
              omega
        rw [hX]
  cases hl with
  | true =>
    rw [show hyB true = [45] from rfl, List.singleton_append]
    refine hy_m_take mf _ _ [] _ _ ?_
    rw [hafter]
    simp only [Option.some.injEq, Prod.mk.injEq, List.length_singleton]
    constructor
    · omega
    · congr 1; omega
  | false =>
    rw [show hyB false = [] from rfl, List.nil_append]
    rw [hy_m_skip, hafter]
    · simp only [Option.some.injEq, Prod.mk.injEq, List.length_nil]
      constructor
      · omega
      · congr 1; omega
    · cases wl with
      | nil =>
        rw [List.nil_append]
        cases name with
        | nil => exact absurd rfl hnne
        | cons n0 ns => exact headNot_cons (word_not_hyphen (hnw n0 (List.mem_cons_self ..)))
      | cons w ws => exact headNot_cons (space_not_hyphen (hwl w (List.mem_cons_self ..)))
