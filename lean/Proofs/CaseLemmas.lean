import Proofs.CaseTables
/-!
# `unicode.ToUpper` / `unicode.ToLower` on every rune: what follows from the obligations of `Proofs/CaseTables.lean`
-/

/-! ## consequences for `unicode.ToUpper` / `unicode.ToLower` -/

theorem upperRune_total (r : Rune) : upperRune r = some (toUpperRune r) := rfl
theorem lowerRune_total (r : Rune) : lowerRune r = some (toLowerRune r) := rfl

theorem toUpperRune_scalar {r : Rune} (h : isScalar r = true) : isScalar (toUpperRune r) = true := by
  have := case_tables_wellformed.1
  simp only [caseTableWf, Bool.and_eq_true] at this
  exact caseLookup_scalar this.1.2 h

theorem toLowerRune_scalar {r : Rune} (h : isScalar r = true) : isScalar (toLowerRune r) = true := by
  have := case_tables_wellformed.2
  simp only [caseTableWf, Bool.and_eq_true] at this
  exact caseLookup_scalar this.1.2 h

/-- `unicode.ToUpper` is idempotent on every rune -/
theorem toUpperRune_idem (r : Rune) : toUpperRune (toUpperRune r) = toUpperRune r :=
  caseLookup_idem case_tables_idempotent.1 r

/-- `unicode.ToLower` is idempotent on every rune -/
theorem toLowerRune_idem (r : Rune) : toLowerRune (toLowerRune r) = toLowerRune r :=
  caseLookup_idem case_tables_idempotent.2 r

/-- `ToUpper (ToLower u) = u` for every rune `ToUpper` keeps, the listed exceptions apart -/
theorem toUpper_toLower_of_upper {u : Rune} (hu : toUpperRune u = u) (hx : u ∉ upperLowerUpperExceptions) :
    toUpperRune (toLowerRune u) = u :=
  caseRoundTrip_sound upperRanges_sorted lowerRanges_sorted case_tables_round_trip.1 hu hx

/-- on ASCII the tables are the byte loops of `strings.ToUpper` / `strings.ToLower`: the first range is `a..z` / `A..Z`,
the second starts above U+007F -/
theorem toUpperRune_ascii {r : Nat} (h : r < 0x80) : toUpperRune r = if 0x61 ≤ r ∧ r ≤ 0x7A then r - 32 else r := by
  have e : upperRanges = ⟨0x61, 0x7A, false, 0x41⟩ :: ⟨0xB5, 0xB5, false, 0x39C⟩ :: (upperRanges.drop 2) := rfl
  have hs := upperRanges_sorted
  rw [e] at hs
  unfold toUpperRune
  rw [e]
  show (if CaseRange.hits ⟨0x61, 0x7A, false, 0x41⟩ r = true then CaseRange.image ⟨0x61, 0x7A, false, 0x41⟩ r else _) = _
  by_cases hh : 0x61 ≤ r ∧ r ≤ 0x7A
  · rw [if_pos ((CaseRange.hits_plain_iff ..).mpr hh), if_pos hh]
    show 0x41 + (r - 0x61) = r - 32; omega
  · rw [if_neg (by rw [CaseRange.hits_plain_iff]; exact hh), if_neg hh]
    by_cases hlt : r < 0x61
    · have := caseLookup_below hs hlt
      simp only [caseLookup] at this
      rw [if_neg (by rw [CaseRange.hits_plain_iff]; omega)] at this
      exact this
    · exact caseLookup_below (caseSorted_tail hs) (show r < 0xB5 by omega)

theorem toLowerRune_ascii {r : Nat} (h : r < 0x80) : toLowerRune r = if 0x41 ≤ r ∧ r ≤ 0x5A then r + 32 else r := by
  have e : lowerRanges = ⟨0x41, 0x5A, false, 0x61⟩ :: ⟨0xC0, 0xD6, false, 0xE0⟩ :: (lowerRanges.drop 2) := rfl
  have hs := lowerRanges_sorted
  rw [e] at hs
  unfold toLowerRune
  rw [e]
  show (if CaseRange.hits ⟨0x41, 0x5A, false, 0x61⟩ r = true then CaseRange.image ⟨0x41, 0x5A, false, 0x61⟩ r else _) = _
  by_cases hh : 0x41 ≤ r ∧ r ≤ 0x5A
  · rw [if_pos ((CaseRange.hits_plain_iff ..).mpr hh), if_pos hh]
    show 0x61 + (r - 0x41) = r + 32; omega
  · rw [if_neg (by rw [CaseRange.hits_plain_iff]; exact hh), if_neg hh]
    by_cases hlt : r < 0x41
    · have := caseLookup_below hs hlt
      simp only [caseLookup] at this
      rw [if_neg (by rw [CaseRange.hits_plain_iff]; omega)] at this
      exact this
    · exact caseLookup_below (caseSorted_tail hs) (show r < 0xC0 by omega)
