import Proofs.MapPermRender
import Proofs.StdNoPanicLemmas
import Liquid.Std
/-!
# The standard output layer does not see the order of map entries (helper lemmas for C02)

`fmt.Sprint` of a map sorts the keys itself (`internal/fmtsort`; `Sprint.lean`: `sortEntries`). The
printed text of two related values is the same whenever both are inside the model: `RRel true Eq`
("agree": equal, or one of the two is `unmodelled` — the entries are printed in the order of the entry
list, so *which* part of a value leaves the model first depends on that order).
-/

open GoVal MapOrder

/-! ## Results that are inside the model or `unmodelled` (never an error, never a panic) -/

def Soft {α : Type} : Res Cause α → Prop
  | .ok _ => True
  | .unmodelled _ => True
  | _ => False

theorem Soft.bind {α β : Type} {r : Res Cause α} {f : α → Res Cause β} (hr : Soft r) (hf : ∀ a, Soft (f a)) : Soft (r.bind f) := by
  cases r <;> simp_all [Soft, Res.bind]

theorem Soft.rrel_left {α : Type} {R : α → α → Prop} {r r' : Res Cause α} (hr : Soft r) (h : ∀ a, r ≠ .ok a) : RRel true R r r' := by
  cases r with
  | ok a => exact absurd rfl (h a)
  | unmodelled w => exact RRel.unmL rfl _ _
  | err e => exact hr.elim
  | panic w => exact hr.elim

theorem Soft.rrel_right {α : Type} {R : α → α → Prop} {r r' : Res Cause α} (hr : Soft r') (h : ∀ a, r' ≠ .ok a) : RRel true R r r' := by
  cases r' with
  | ok a => exact absurd rfl (h a)
  | unmodelled w => exact RRel.unmR rfl _ _
  | err e => exact hr.elim
  | panic w => exact hr.elim

/-! ## Sequential traversals under a permutation -/

section Trav
variable {α β : Type}

/-- pointwise relation of two lists of different types -/
inductive Zip2 (R : α → β → Prop) : List α → List β → Prop where
  | nil : Zip2 R [] []
  | cons {a : α} {b : β} {as : List α} {bs : List β} : R a b → Zip2 R as bs → Zip2 R (a :: as) (b :: bs)

/-- evaluate `f` on the elements from left to right, stop at the first that does not answer -/
def travM (f : α → Res Cause β) : List α → Res Cause (List β)
  | [] => .ok []
  | x :: xs => (f x).bind fun b => (travM f xs).bind fun bs => .ok (b :: bs)

theorem travM_soft {f : α → Res Cause β} : ∀ {l : List α}, (∀ x ∈ l, Soft (f x)) → Soft (travM f l)
  | [], _ => trivial
  | x :: _, h => Soft.bind (h x List.mem_cons_self) (fun _ =>
      Soft.bind (travM_soft (fun y hy => h y (List.mem_cons_of_mem _ hy))) (fun _ => trivial))

theorem travM_ok_iff {f : α → Res Cause β} : ∀ {l : List α} {bs : List β},
    travM f l = .ok bs ↔ Zip2 (fun x b => f x = .ok b) l bs
  | [], bs => by
    simp only [travM]
    constructor
    · intro h; injection h with h; subst h; exact .nil
    · intro h; cases h; rfl
  | x :: xs, bs => by
    simp only [travM]
    constructor
    · intro h
      cases hx : f x with
      | ok b =>
        rw [hx] at h
        simp only [Res.bind] at h
        cases hxs : travM f xs with
        | ok bs' =>
          rw [hxs] at h
          simp only at h
          injection h with h
          subst h
          exact .cons hx (travM_ok_iff.mp hxs)
        | _ => rw [hxs] at h; simp at h
      | _ => rw [hx] at h; simp [Res.bind] at h
    · intro h
      cases h with
      | cons hx hxs =>
        rw [hx, travM_ok_iff.mpr hxs]
        rfl

/-- A traversal of a permuted list: both answer, with permuted results, or neither answers. -/
theorem travM_perm {f : α → Res Cause β} {l l' : List α} (h : l.Perm l') :
    (∃ bs bs', travM f l = .ok bs ∧ travM f l' = .ok bs' ∧ bs.Perm bs') ∨
    ((∀ bs, travM f l ≠ .ok bs) ∧ (∀ bs, travM f l' ≠ .ok bs)) := by
  induction h with
  | nil => exact .inl ⟨[], [], rfl, rfl, .nil⟩
  | @cons x l l' _ ih =>
    cases hx : f x with
    | ok b =>
      rcases ih with ⟨bs, bs', h1, h2, hp⟩ | ⟨h1, h2⟩
      · exact .inl ⟨b :: bs, b :: bs', by simp [travM, hx, h1, Res.bind], by simp [travM, hx, h2, Res.bind], hp.cons b⟩
      · refine .inr ⟨fun bs h => ?_, fun bs h => ?_⟩
        · cases travM_ok_iff.mp h with
          | cons _ hr => exact h1 _ (travM_ok_iff.mpr hr)
        · cases travM_ok_iff.mp h with
          | cons _ hr => exact h2 _ (travM_ok_iff.mpr hr)
    | _ =>
      refine .inr ⟨fun bs h => ?_, fun bs h => ?_⟩ <;>
      · cases travM_ok_iff.mp h with
        | cons h0 _ => rw [hx] at h0; cases h0
  | @swap x y l =>
    by_cases hok : ∃ bs, travM f (y :: x :: l) = .ok bs
    · obtain ⟨bs, hb⟩ := hok
      cases travM_ok_iff.mp hb with
      | @cons _ by_ _ bs1 hy h1 =>
        cases h1 with
        | @cons _ bx _ bs2 hx h2 =>
          refine .inl ⟨_, bx :: by_ :: bs2, hb, travM_ok_iff.mpr (.cons hx (.cons hy h2)), List.Perm.swap _ _ _⟩
    · refine .inr ⟨fun bs h => hok ⟨bs, h⟩, fun bs h => ?_⟩
      cases travM_ok_iff.mp h with
      | @cons _ bx _ bs1 hx h1 =>
        cases h1 with
        | @cons _ by_ _ bs2 hy h2 =>
          exact hok ⟨_, travM_ok_iff.mpr (.cons hy (.cons hx h2))⟩
  | @trans l₁ l₂ l₃ _ _ ih1 ih2 =>
    rcases ih1 with ⟨bs, bs', h1, h2, hp⟩ | ⟨h1, h2⟩
    · rcases ih2 with ⟨cs, cs', g1, g2, gp⟩ | ⟨g1, g2⟩
      · rw [h2] at g1
        injection g1 with g1
        subst g1
        exact .inl ⟨bs, cs', h1, g2, hp.trans gp⟩
      · exact absurd h2 (g1 _)
    · rcases ih2 with ⟨cs, cs', g1, g2, gp⟩ | ⟨g1, g2⟩
      · exact absurd g1 (h2 _)
      · exact .inr ⟨h1, g2⟩

end Trav

/-! ## `internal/fmtsort` on the keys of one map -/

/-- where fmtsort's order of two keys is determined it is the order of `SortedMapKeys` -/
theorem fmtKeyLess_eq_keyLess {a b : GoVal} {x : Bool} (h : fmtKeyLess a b = some x) : x = keyLess a b := by
  cases a <;> cases b <;> simp only [fmtKeyLess] at h <;> try (cases h)
  · -- two booleans
    next p q => cases p <;> cases q <;> simp [keyLess, keyClass, valueLess, keyTypeName]
  · -- two integers of one type
    next k n k' m =>
    split at h
    · next hk =>
      subst hk
      injection h with h
      subst h
      have hl : ¬ (keyTypeName (.int k n) < keyTypeName (.int k m)) := by
        have : keyTypeName (.int k n) = keyTypeName (.int k m) := by cases k <;> rfl
        rw [this]; exact List.lt_irrefl _
      simp only [keyLess, keyClass, bne_self_eq_false, Bool.false_eq_true, if_false, valueLess, numberLess]
      cases k.isSigned <;> simp only <;> by_cases h1 : n < m <;> simp [h1, hl] <;> omega
    · cases h
  · -- two floats of one type
    next k q k' r =>
    split at h
    · next hk =>
      subst hk
      injection h with h
      subst h
      have hl : ¬ (keyTypeName (.flt k q) < keyTypeName (.flt k r)) := by
        have : keyTypeName (.flt k q) = keyTypeName (.flt k r) := by cases k <;> rfl
        rw [this]; exact List.lt_irrefl _
      simp only [keyLess, keyClass, bne_self_eq_false, Bool.false_eq_true, if_false, valueLess, numberLess]
      by_cases h1 : q < r
      · simp [h1]
      · have : ¬ (r < q ∧ False) := fun h => h.2
        by_cases h2 : r < q <;> simp [h1, h2, hl]
    · cases h
  · -- two strings
    next s t =>
    have hl : ¬ (keyTypeName (.str s) < keyTypeName (.str t)) := List.lt_irrefl _
    simp only [keyLess, keyClass, bne_self_eq_false, Bool.false_eq_true, if_false, valueLess]
    by_cases h1 : s < t
    · simp [h1]
    · by_cases h2 : t < s <;> simp [h1, h2, hl]

/-- fmtsort's order of two keys is determined exactly when they have the same type -/
def fmtSameType : GoVal → GoVal → Bool
  | .int k _, .int k' _ => k == k'
  | .flt k _, .flt k' _ => k == k'
  | .str _, .str _ => true
  | .bool _, .bool _ => true
  | _, _ => false

theorem fmtKeyLess_isSome (a b : GoVal) : (fmtKeyLess a b).isSome = fmtSameType a b := by
  cases a <;> cases b <;> simp [fmtKeyLess, fmtSameType] <;> split <;> simp_all

theorem fmtSameType_symm (a b : GoVal) : fmtSameType a b = fmtSameType b a := by
  cases a <;> cases b <;> simp [fmtSameType] <;> (next k _ k' _ => cases k <;> cases k' <;> rfl)

theorem fmtSameType_trans {a b c : GoVal} (h1 : fmtSameType a b = true) (h2 : fmtSameType b c = true) : fmtSameType a c = true := by
  cases a <;> cases b <;> simp [fmtSameType] at h1 <;> cases c <;> simp_all [fmtSameType]

theorem fmtKeyLess_of_sameType {a b : GoVal} (h : fmtSameType a b = true) : fmtKeyLess a b = some (keyLess a b) := by
  have := fmtKeyLess_isSome a b
  rw [h] at this
  cases hx : fmtKeyLess a b with
  | none => rw [hx] at this; cases this
  | some x => rw [fmtKeyLess_eq_keyLess hx]

/-- printed entries whose keys are booleans, numbers or strings, pairwise distinct -/
def EKeysOK (es : List (GoVal × Bytes)) : Prop := (∀ e ∈ es, GoodKey e.1) ∧ es.Pairwise (fun a b => a.1 ≠ b.1)

theorem EKeysOK.tail {e : GoVal × Bytes} {es : List (GoVal × Bytes)} (h : EKeysOK (e :: es)) : EKeysOK es :=
  ⟨fun x hx => h.1 x (List.mem_cons_of_mem _ hx), (List.pairwise_cons.mp h.2).2⟩

theorem EKeysOK.perm {es es' : List (GoVal × Bytes)} (hp : es'.Perm es) (h : EKeysOK es) : EKeysOK es' :=
  ⟨fun x hx => h.1 x (hp.subset hx), (hp.pairwise_iff (fun hab => Ne.symm hab)).mpr h.2⟩

/-- strictly ascending in fmtsort's order -/
def ESorted (es : List (GoVal × Bytes)) : Prop := es.Pairwise (fun a b => fmtKeyLess a.1 b.1 = some true)

theorem insertEntry_spec {e : GoVal × Bytes} : ∀ {rest r : List (GoVal × Bytes)}, insertEntry e rest = some r →
    EKeysOK (e :: rest) → ESorted rest → r.Perm (e :: rest) ∧ ESorted r
  | [], r, h, _, _ => by
    simp only [insertEntry, Option.some.injEq] at h; subst h
    exact ⟨List.Perm.refl _, List.pairwise_singleton _ _⟩
  | f :: rest, r, h, hk, hs => by
    simp only [insertEntry] at h
    have hge : GoodKey e.1 := hk.1 e List.mem_cons_self
    have hgf : GoodKey f.1 := hk.1 f (List.mem_cons_of_mem _ List.mem_cons_self)
    have hne : e.1 ≠ f.1 := (List.pairwise_cons.mp hk.2).1 f List.mem_cons_self
    cases hx : fmtKeyLess e.1 f.1 with
    | none => rw [hx] at h; cases h
    | some x =>
      rw [hx] at h
      have hst : fmtSameType e.1 f.1 = true := by rw [← fmtKeyLess_isSome, hx]; rfl
      have hxe := fmtKeyLess_eq_keyLess hx
      cases x with
      | true =>
        simp only [Option.some.injEq] at h; subst h
        refine ⟨List.Perm.refl _, List.pairwise_cons.mpr ⟨?_, hs⟩⟩
        intro g hg
        rcases List.mem_cons.mp hg with rfl | hg'
        · exact hx
        · have hfg := (List.pairwise_cons.mp hs).1 g hg'
          have hgg : GoodKey g.1 := hk.1 g (List.mem_cons_of_mem _ (List.mem_cons_of_mem _ hg'))
          have hst2 : fmtSameType f.1 g.1 = true := by rw [← fmtKeyLess_isSome, hfg]; rfl
          rw [fmtKeyLess_of_sameType (fmtSameType_trans hst hst2)]
          rw [keyLess_trans hge hgf hgg hxe.symm (fmtKeyLess_eq_keyLess hfg).symm]
      | false =>
        simp only at h
        cases hi : insertEntry e rest with
        | none => rw [hi] at h; cases h
        | some r' =>
          rw [hi] at h
          simp only [Option.map_some, Option.some.injEq] at h; subst h
          have hk' : EKeysOK (e :: rest) := by
            refine ⟨fun x hx => ?_, ?_⟩
            · rcases List.mem_cons.mp hx with rfl | hx'
              · exact hge
              · exact hk.1 x (List.mem_cons_of_mem _ (List.mem_cons_of_mem _ hx'))
            · have h2 := List.pairwise_cons.mp hk.2
              have h3 := List.pairwise_cons.mp h2.2
              exact List.pairwise_cons.mpr ⟨fun x hx => h2.1 x (List.mem_cons_of_mem _ hx), h3.2⟩
          obtain ⟨hp, hsr⟩ := insertEntry_spec hi hk' (List.pairwise_cons.mp hs).2
          refine ⟨(List.Perm.cons f hp).trans (List.Perm.swap _ _ _), List.pairwise_cons.mpr ⟨?_, hsr⟩⟩
          intro g hg
          rcases List.mem_cons.mp (hp.subset hg) with rfl | hg'
          · -- `e` is not below `f` and differs from it: `f` is below `e`
            rw [fmtKeyLess_of_sameType (by rw [fmtSameType_symm]; exact hst)]
            rcases keyLess_total hge hgf hne with h1 | h1
            · rw [h1] at hxe; cases hxe
            · rw [h1]
          · exact (List.pairwise_cons.mp hs).1 g hg'

theorem sortEntries_spec : ∀ {es r : List (GoVal × Bytes)}, sortEntries es = some r → EKeysOK es → r.Perm es ∧ ESorted r
  | [], r, h, _ => by
    simp only [sortEntries, Option.some.injEq] at h; subst h
    exact ⟨List.Perm.refl _, List.Pairwise.nil⟩
  | e :: rest, r, h, hk => by
    simp only [sortEntries] at h
    cases hs : sortEntries rest with
    | none => rw [hs] at h; cases h
    | some r' =>
      rw [hs] at h
      simp only [Option.bind_some] at h
      obtain ⟨hp, hsr⟩ := sortEntries_spec hs hk.tail
      have hk' : EKeysOK (e :: r') := EKeysOK.perm (List.Perm.cons e hp) hk
      obtain ⟨hp2, hs2⟩ := insertEntry_spec h hk' hsr
      exact ⟨hp2.trans (List.Perm.cons e hp), hs2⟩

/-- fmtsort puts permuted entries in the same order (when it orders both) -/
theorem sortEntries_perm_agree {es es' r r' : List (GoVal × Bytes)} (hp : es.Perm es') (hk : EKeysOK es)
    (h1 : sortEntries es = some r) (h2 : sortEntries es' = some r') : r = r' := by
  obtain ⟨p1, s1⟩ := sortEntries_spec h1 hk
  obtain ⟨p2, s2⟩ := sortEntries_spec h2 (hk.perm hp.symm)
  refine List.Perm.eq_of_pairwise (le := fun a b : GoVal × Bytes => fmtKeyLess a.1 b.1 = some true) ?_ s1 s2 ((p1.trans hp).trans p2.symm)
  intro a b ha hb hab hba
  have hga : GoodKey a.1 := hk.1 a (p1.subset ha)
  have hgb : GoodKey b.1 := hk.1 b (hp.symm.subset (p2.subset hb))
  have e1 := fmtKeyLess_eq_keyLess hab
  have e2 := fmtKeyLess_eq_keyLess hba
  rw [keyLess_asymm hga hgb e1.symm] at e2
  cases e2

theorem mapText_perm_agree {es es' : List (GoVal × Bytes)} (hp : es.Perm es') (hk : EKeysOK es) :
    RRel true Eq (mapText es) (mapText es') := by
  unfold mapText
  cases h1 : sortEntries es with
  | none => exact RRel.unmL rfl _ _
  | some r =>
    cases h2 : sortEntries es' with
    | none => exact RRel.unmR rfl _ _
    | some r' =>
      rw [sortEntries_perm_agree hp hk h1 h2]
      exact RRel.of_eq (fun _ => rfl) rfl

/-! ## `fmt.Sprint` answers or is outside the model -/

theorem fmtFloatG_soft (k : FltKind) (q : Rat) : Soft (fmtFloatG k q) := by
  unfold fmtFloatG; split <;> trivial

theorem fmtFloatF_soft (k : FltKind) (q : Rat) : Soft (fmtFloatF k q) := by
  unfold fmtFloatF; split <;> trivial

theorem timeString_soft (u : Int) : Soft (timeString u) := by
  unfold timeString; split <;> trivial

theorem timeObjectText_soft (u : Int) : Soft (timeObjectText u) := by
  unfold timeObjectText; split <;> trivial

theorem mapText_soft (es : List (GoVal × Bytes)) : Soft (mapText es) := by
  unfold mapText; split <;> trivial

mutual
theorem sprint_soft : ∀ v : GoVal, Soft (sprint v)
  | .nil => by rw [sprint]; trivial
  | .bool b => by cases b <;> (rw [sprint]; trivial)
  | .int _ _ => by rw [sprint]; trivial
  | .flt k q => by rw [sprint]; exact fmtFloatG_soft k q
  | .str _ => by rw [sprint]; trivial
  | .bytes _ => by rw [sprint]; trivial
  | .slice _ xs => by rw [sprint]; exact Soft.bind (sprintAll_soft xs) (fun _ => trivial)
  | .array _ xs => by rw [sprint]; exact Soft.bind (sprintAll_soft xs) (fun _ => trivial)
  | .map _ _ kvs => by rw [sprint]; exact Soft.bind (sprintKVs_soft kvs) (fun _ => mapText_soft _)
  | .mapSlice kvs => by rw [sprint]; exact Soft.bind (sprintItems_soft kvs) (fun _ => trivial)
  | .keyedMap kvs => by rw [sprint]; exact Soft.bind (sprintFields_soft kvs) (fun _ => mapText_soft _)
  | .range _ _ => by rw [sprint]; trivial
  | .ptr _ => by rw [sprint]; trivial
  | .nilPtr => by rw [sprint]; trivial
  | .drop v => by
    rw [sprint]; split
    · trivial
    · exact Soft.bind (sprint_soft v) (fun _ => trivial)
  | .struct fs => by rw [sprint]; exact Soft.bind (sprintFields_soft fs) (fun _ => trivial)
  | .time u => by rw [sprint]; exact timeString_soft u
theorem sprintAll_soft : ∀ xs : List GoVal, Soft (sprintAll xs)
  | [] => by rw [sprintAll]; trivial
  | x :: xs => by
    rw [sprintAll]
    exact Soft.bind (sprint_soft x) (fun _ => Soft.bind (sprintAll_soft xs) (fun _ => trivial))
theorem sprintKVs_soft : ∀ kvs : List (GoVal × GoVal), Soft (sprintKVs kvs)
  | [] => by rw [sprintKVs]; trivial
  | (k, v) :: r => by
    rw [sprintKVs]
    exact Soft.bind (sprint_soft k) (fun _ => Soft.bind (sprint_soft v) (fun _ =>
      Soft.bind (sprintKVs_soft r) (fun _ => trivial)))
theorem sprintItems_soft : ∀ kvs : List (GoVal × GoVal), Soft (sprintItems kvs)
  | [] => by rw [sprintItems]; trivial
  | (k, v) :: r => by
    rw [sprintItems]
    exact Soft.bind (sprint_soft k) (fun _ => Soft.bind (sprint_soft v) (fun _ =>
      Soft.bind (sprintItems_soft r) (fun _ => trivial)))
theorem sprintFields_soft : ∀ fs : List (Bytes × GoVal), Soft (sprintFields fs)
  | [] => by rw [sprintFields]; trivial
  | (k, v) :: r => by
    rw [sprintFields]
    exact Soft.bind (sprint_soft v) (fun _ => Soft.bind (sprintFields_soft r) (fun _ => trivial))
end

/-! ## Printing the entries of a map is a traversal; it keeps the keys -/

/-- one printed entry: the key with `key:value` -/
def kvText (kv : GoVal × GoVal) : Res Cause (GoVal × Bytes) :=
  (sprint kv.1).bind fun kb => (sprint kv.2).bind fun vb => .ok (kv.1, kb ++ 58 :: vb)

theorem sprintKVs_eq_travM : ∀ kvs : List (GoVal × GoVal), sprintKVs kvs = travM kvText kvs
  | [] => by rw [sprintKVs]; rfl
  | (k, v) :: r => by
    rw [sprintKVs, travM, ← sprintKVs_eq_travM r]
    simp only [kvText]
    cases sprint k <;> simp only [Res.bind]
    cases sprint v <;> simp only [Res.bind]

theorem kvText_key {kv : GoVal × GoVal} {e : GoVal × Bytes} (h : kvText kv = .ok e) : e.1 = kv.1 := by
  unfold kvText at h
  cases h1 : sprint kv.1 <;> rw [h1] at h <;> simp only [Res.bind] at h <;> try (cases h)
  cases h2 : sprint kv.2 <;> rw [h2] at h <;> simp only [Res.bind] at h <;> try (cases h)
  rfl

theorem zip2_keys : ∀ {kvs : List (GoVal × GoVal)} {es : List (GoVal × Bytes)},
    Zip2 (fun kv e => kvText kv = .ok e) kvs es → es.map (·.1) = kvs.map (·.1)
  | _, _, .nil => rfl
  | _, _, .cons h hr => by simp [kvText_key h, zip2_keys hr]

theorem sprintKVs_keys {kvs : List (GoVal × GoVal)} {es : List (GoVal × Bytes)} (h : sprintKVs kvs = .ok es) :
    es.map (·.1) = kvs.map (·.1) := by
  rw [sprintKVs_eq_travM] at h
  exact zip2_keys (travM_ok_iff.mp h)

theorem eKeysOK_of_keys {kvs : List (GoVal × GoVal)} {es : List (GoVal × Bytes)} (he : es.map (·.1) = kvs.map (·.1))
    (hk : KeysOK kvs) : EKeysOK es := by
  constructor
  · intro e hx
    have : e.1 ∈ kvs.map (·.1) := by rw [← he]; exact List.mem_map_of_mem hx
    obtain ⟨kv, hkv, e1⟩ := List.mem_map.mp this
    rw [← e1]
    exact hk.1 kv hkv
  · have : (kvs.map (·.1)).Pairwise (· ≠ ·) := by rw [List.pairwise_map]; exact hk.2
    rw [← he, List.pairwise_map] at this
    exact this

/-! ## `fmt.Sprint` of related values -/

theorem rrel_true_bind_soft {α β : Type} {r r' : Res Cause α} {f f' : α → Res Cause β} (h : RRel true Eq r r')
    (hf : ∀ a, RRel true Eq (f a) (f' a)) : RRel true Eq (r.bind f) (r'.bind f') :=
  RRel.bind h (fun a a' e => by subst e; exact hf a)

mutual
theorem sprint_mp : ∀ {a b : GoVal}, MP a b → RRel true Eq (sprint a) (sprint b)
  | _, _, .refl v => RRel.of_eq (fun _ => rfl) rfl
  | _, _, .slice _ hl => by
    rw [sprint, sprint]
    exact rrel_true_bind_soft (sprintAll_mp hl) (fun _ => RRel.of_eq (fun _ => rfl) rfl)
  | _, _, .array _ hl => by
    rw [sprint, sprint]
    exact rrel_true_bind_soft (sprintAll_mp hl) (fun _ => RRel.of_eq (fun _ => rfl) rfl)
  | _, _, @MP.map _ _ kvs mid kvs' _ hk _ hm hp _ => by
    rw [sprint, sprint]
    have hA := sprintKVs_mpv hm
    have sA := sprintKVs_soft kvs
    have sC := sprintKVs_soft kvs'
    rcases travM_perm (f := kvText) hp with ⟨bs, cs, h1, h2, hpe⟩ | ⟨h1, h2⟩
    · rw [← sprintKVs_eq_travM] at h1 h2
      rw [h2]
      cases hAe : sprintKVs kvs with
      | ok as =>
        rw [hAe, h1] at hA
        have : as = bs := hA
        subst this
        exact mapText_perm_agree hpe (eKeysOK_of_keys (sprintKVs_keys hAe) hk)
      | unmodelled w => exact RRel.unmL rfl _ _
      | err e => rw [hAe] at sA; exact sA.elim
      | panic w => rw [hAe] at sA; exact sA.elim
    · rw [← sprintKVs_eq_travM] at h2
      cases hC : sprintKVs kvs' with
      | ok cs => exact absurd hC (h2 cs)
      | unmodelled w => exact RRel.unmR rfl _ _
      | err e => rw [hC] at sC; exact sC.elim
      | panic w => rw [hC] at sC; exact sC.elim
  | _, _, .mapVals _ _ _ _ hm => by
    rw [sprint, sprint]
    exact rrel_true_bind_soft (sprintKVs_mpv hm) (fun _ => RRel.of_eq (fun _ => rfl) rfl)
  | _, _, .mapSlice hm => by
    rw [sprint, sprint]
    exact rrel_true_bind_soft (sprintItems_mpv hm) (fun _ => RRel.of_eq (fun _ => rfl) rfl)
  | _, _, .keyedMap _ hf => by
    rw [sprint, sprint]
    exact rrel_true_bind_soft (sprintFields_mpf hf) (fun _ => RRel.of_eq (fun _ => rfl) rfl)
  | _, _, .struct hf => by
    rw [sprint, sprint]
    exact rrel_true_bind_soft (sprintFields_mpf hf) (fun _ => RRel.of_eq (fun _ => rfl) rfl)
  | _, _, .ptr _ => by rw [sprint, sprint]; exact RRel.unmL rfl _ _
  | _, _, @MP.drop v w h => by
    rw [sprint, sprint]
    cases v.hasTime with
    | true => exact RRel.unmL rfl _ _
    | false =>
      cases w.hasTime with
      | true => exact RRel.unmR rfl _ _
      | false =>
        simp only [Bool.false_eq_true, if_false]
        exact rrel_true_bind_soft (sprint_mp h) (fun _ => RRel.of_eq (fun _ => rfl) rfl)
theorem sprintAll_mp : ∀ {xs ys : List GoVal}, MPL xs ys → RRel true Eq (sprintAll xs) (sprintAll ys)
  | _, _, .nil => RRel.of_eq (fun _ => rfl) rfl
  | _, _, .cons hx h => by
    rw [sprintAll, sprintAll]
    exact rrel_true_bind_soft (sprint_mp hx) (fun _ => rrel_true_bind_soft (sprintAll_mp h) (fun _ => RRel.of_eq (fun _ => rfl) rfl))
theorem sprintKVs_mpv : ∀ {kvs kvs' : List (GoVal × GoVal)}, MPV kvs kvs' → RRel true Eq (sprintKVs kvs) (sprintKVs kvs')
  | _, _, .nil => RRel.of_eq (fun _ => rfl) rfl
  | _, _, .cons k hv h => by
    rw [sprintKVs, sprintKVs]
    exact rrel_true_bind_soft (RRel.of_eq (fun _ => rfl) rfl) (fun _ => rrel_true_bind_soft (sprint_mp hv) (fun _ =>
      rrel_true_bind_soft (sprintKVs_mpv h) (fun _ => RRel.of_eq (fun _ => rfl) rfl)))
theorem sprintItems_mpv : ∀ {kvs kvs' : List (GoVal × GoVal)}, MPV kvs kvs' → RRel true Eq (sprintItems kvs) (sprintItems kvs')
  | _, _, .nil => RRel.of_eq (fun _ => rfl) rfl
  | _, _, .cons k hv h => by
    rw [sprintItems, sprintItems]
    exact rrel_true_bind_soft (RRel.of_eq (fun _ => rfl) rfl) (fun _ => rrel_true_bind_soft (sprint_mp hv) (fun _ =>
      rrel_true_bind_soft (sprintItems_mpv h) (fun _ => RRel.of_eq (fun _ => rfl) rfl)))
theorem sprintFields_mpf : ∀ {fs fs' : List (Bytes × GoVal)}, MPF fs fs' → RRel true Eq (sprintFields fs) (sprintFields fs')
  | _, _, .nil => RRel.of_eq (fun _ => rfl) rfl
  | _, _, .cons k hv h => by
    rw [sprintFields, sprintFields]
    exact rrel_true_bind_soft (sprint_mp hv) (fun _ => rrel_true_bind_soft (sprintFields_mpf h) (fun _ => RRel.of_eq (fun _ => rfl) rfl))
end


/-! ## `fmt.Sprint(values.ResolveDrops(v))` of related values -/

theorem keysOK_resolveDropsVals {kvs : List (GoVal × GoVal)} (hk : KeysOK kvs) : KeysOK (resolveDropsVals kvs) := by
  rw [resolveDropsVals_eq_map]
  constructor
  · intro kv hkv
    obtain ⟨kv', hkv', rfl⟩ := List.mem_map.mp hkv
    exact hk.1 kv' hkv'
  · rw [List.pairwise_map]
    exact hk.2

mutual
theorem sprintR_mp : ∀ {a b : GoVal}, MP a b → RRel true Eq (sprint a.resolveDrops) (sprint b.resolveDrops)
  | _, _, .refl v => RRel.of_eq (fun _ => rfl) rfl
  | _, _, .slice _ hl => by
    simp only [resolveDrops_slice]
    rw [sprint, sprint]
    exact rrel_true_bind_soft (sprintAllR_mp hl) (fun _ => RRel.of_eq (fun _ => rfl) rfl)
  | _, _, .array _ hl => by
    simp only [resolveDrops_array]
    rw [sprint, sprint]
    exact rrel_true_bind_soft (sprintAllR_mp hl) (fun _ => RRel.of_eq (fun _ => rfl) rfl)
  | _, _, @MP.map _ _ kvs mid kvs' _ hk _ hm hp _ => by
    simp only [resolveDrops_map]
    rw [sprint, sprint]
    have hA := sprintKVsR_mpv hm
    have sA := sprintKVs_soft (resolveDropsVals kvs)
    have sC := sprintKVs_soft (resolveDropsVals kvs')
    have hp' : (resolveDropsVals mid).Perm (resolveDropsVals kvs') := by
      rw [resolveDropsVals_eq_map, resolveDropsVals_eq_map]; exact hp.map _
    rcases travM_perm (f := kvText) hp' with ⟨bs, cs, h1, h2, hpe⟩ | ⟨h1, h2⟩
    · rw [← sprintKVs_eq_travM] at h1 h2
      rw [h2]
      cases hAe : sprintKVs (resolveDropsVals kvs) with
      | ok as =>
        rw [hAe, h1] at hA
        have : as = bs := hA
        subst this
        exact mapText_perm_agree hpe (eKeysOK_of_keys (sprintKVs_keys hAe) (keysOK_resolveDropsVals hk))
      | unmodelled w => exact RRel.unmL rfl _ _
      | err e => rw [hAe] at sA; exact sA.elim
      | panic w => rw [hAe] at sA; exact sA.elim
    · rw [← sprintKVs_eq_travM] at h2
      cases hC : sprintKVs (resolveDropsVals kvs') with
      | ok cs => exact absurd hC (h2 cs)
      | unmodelled w => exact RRel.unmR rfl _ _
      | err e => rw [hC] at sC; exact sC.elim
      | panic w => rw [hC] at sC; exact sC.elim
  | _, _, .mapVals _ _ _ _ hm => by
    simp only [resolveDrops_map]
    rw [sprint, sprint]
    exact rrel_true_bind_soft (sprintKVsR_mpv hm) (fun _ => RRel.of_eq (fun _ => rfl) rfl)
  | _, _, .mapSlice hm => by
    simp only [resolveDrops_mapSlice]
    rw [sprint, sprint]
    exact rrel_true_bind_soft (sprintItemsR_mpv hm) (fun _ => RRel.of_eq (fun _ => rfl) rfl)
  | _, _, .keyedMap _ hf => by
    simp only [resolveDrops_keyedMap]
    rw [sprint, sprint]
    exact rrel_true_bind_soft (sprintFieldsR_mpf hf) (fun _ => RRel.of_eq (fun _ => rfl) rfl)
  | _, _, .struct hf => by
    simp only [resolveDrops_struct]
    exact sprint_mp (.struct hf)
  | _, _, .drop h => by
    simp only [resolveDrops_drop]
    exact sprintR_mp h
  | _, _, .ptr (.refl v) => RRel.of_eq (fun _ => rfl) rfl
  | _, _, .ptr (.drop h) => by
    simp only [GoVal.resolveDrops]
    exact sprintR_mp h
  | _, _, .ptr (.slice _ _) | _, _, .ptr (.array _ _) | _, _, .ptr (.map _ _ _ _ _ _ _ _)
  | _, _, .ptr (.mapVals _ _ _ _ _) | _, _, .ptr (.mapSlice _) | _, _, .ptr (.keyedMap _ _)
  | _, _, .ptr (.struct _) | _, _, .ptr (.ptr _) => by
    simp only [GoVal.resolveDrops]; rw [sprint, sprint]; exact RRel.unmL rfl _ _
theorem sprintAllR_mp : ∀ {xs ys : List GoVal}, MPL xs ys →
    RRel true Eq (sprintAll (resolveDropsList xs)) (sprintAll (resolveDropsList ys))
  | _, _, .nil => RRel.of_eq (fun _ => rfl) rfl
  | _, _, .cons hx h => by
    rw [resolveDropsList, resolveDropsList, sprintAll, sprintAll]
    exact rrel_true_bind_soft (sprintR_mp hx) (fun _ => rrel_true_bind_soft (sprintAllR_mp h) (fun _ => RRel.of_eq (fun _ => rfl) rfl))
theorem sprintKVsR_mpv : ∀ {kvs kvs' : List (GoVal × GoVal)}, MPV kvs kvs' →
    RRel true Eq (sprintKVs (resolveDropsVals kvs)) (sprintKVs (resolveDropsVals kvs'))
  | _, _, .nil => RRel.of_eq (fun _ => rfl) rfl
  | _, _, .cons k hv h => by
    rw [resolveDropsVals, resolveDropsVals, sprintKVs, sprintKVs]
    exact rrel_true_bind_soft (RRel.of_eq (fun _ => rfl) rfl) (fun _ => rrel_true_bind_soft (sprintR_mp hv) (fun _ =>
      rrel_true_bind_soft (sprintKVsR_mpv h) (fun _ => RRel.of_eq (fun _ => rfl) rfl)))
theorem sprintItemsR_mpv : ∀ {kvs kvs' : List (GoVal × GoVal)}, MPV kvs kvs' →
    RRel true Eq (sprintItems (resolveDropsVals kvs)) (sprintItems (resolveDropsVals kvs'))
  | _, _, .nil => RRel.of_eq (fun _ => rfl) rfl
  | _, _, .cons k hv h => by
    rw [resolveDropsVals, resolveDropsVals, sprintItems, sprintItems]
    exact rrel_true_bind_soft (RRel.of_eq (fun _ => rfl) rfl) (fun _ => rrel_true_bind_soft (sprintR_mp hv) (fun _ =>
      rrel_true_bind_soft (sprintItemsR_mpv h) (fun _ => RRel.of_eq (fun _ => rfl) rfl)))
theorem sprintFieldsR_mpf : ∀ {fs fs' : List (Bytes × GoVal)}, MPF fs fs' →
    RRel true Eq (sprintFields (resolveDropsFields fs)) (sprintFields (resolveDropsFields fs'))
  | _, _, .nil => RRel.of_eq (fun _ => rfl) rfl
  | _, _, .cons k hv h => by
    rw [resolveDropsFields, resolveDropsFields, sprintFields, sprintFields]
    exact rrel_true_bind_soft (sprintR_mp hv) (fun _ => rrel_true_bind_soft (sprintFieldsR_mpf h) (fun _ => RRel.of_eq (fun _ => rfl) rfl))
end

/-- `fmt.Sprint(values.ResolveDrops(·))` of related values -/
theorem sprintRR_mp {a b : GoVal} (h : MP a b) : RRel true Eq (sprintR a) (sprintR b) := sprintR_mp h


/-! ## `writeObject` and the chunks of the standard output layer -/

theorem rrel_eq_refl {α : Type} (r : Res Cause α) : RRel true Eq r r := RRel.of_eq (fun _ => rfl) rfl

/-- `writeObjectL` of a map or a struct is `fmt.Sprint` after `values.ResolveDrops` -/
theorem writeObjectL_sprint_of_tag {v : GoVal} (h : headTag v = 8 ∨ headTag v = 10 ∨ headTag v = 15) :
    writeObjectL v = sprintR v := by
  cases v <;> simp [headTag] at h <;> rfl

theorem writeWF : ∀ n : Nat,
    (∀ a b : GoVal, sizeOf a < n → MP a b → RRel true Eq (writeObjectL a) (writeObjectL b)) ∧
    (∀ xs ys : List GoVal, sizeOf xs < n → MPL xs ys → RRel true Eq (writeObjects xs) (writeObjects ys)) ∧
    (∀ a b : GoVal, sizeOf a < n → MP a b → RRel true Eq (writeChunksL a) (writeChunksL b)) ∧
    (∀ xs ys : List GoVal, sizeOf xs < n → MPL xs ys → RRel true Eq (writeChunksList xs) (writeChunksList ys)) := by
  intro n
  induction n with
  | zero => exact ⟨fun _ _ h => by omega, fun _ _ h => by omega, fun _ _ h => by omega, fun _ _ h => by omega⟩
  | succ n ih =>
    obtain ⟨ihO, ihOs, ihC, ihCs⟩ := ih
    have hO : ∀ a b : GoVal, sizeOf a < n + 1 → MP a b → RRel true Eq (writeObjectL a) (writeObjectL b) := by
      intro a b hs h
      cases h with
      | refl => exact rrel_eq_refl _
      | @slice t xs ys hl =>
        simp only [writeObjectL]
        exact ihOs xs ys (by simp at hs; omega) hl
      | @array t xs ys hl =>
        simp only [writeObjectL]
        exact ihOs xs ys (by simp at hs; omega) hl
      | map kt vt hv hk hn hm hp ht =>
        rw [writeObjectL_sprint_of_tag (.inl rfl), writeObjectL_sprint_of_tag (.inl rfl)]
        exact sprintRR_mp (MP.map kt vt hv hk hn hm hp ht)
      | mapVals kt vt hv hn hm =>
        rw [writeObjectL_sprint_of_tag (.inl rfl), writeObjectL_sprint_of_tag (.inl rfl)]
        exact sprintRR_mp (MP.mapVals kt vt hv hn hm)
      | mapSlice hm =>
        simp only [writeObjectL]
        exact rrel_true_bind_soft (sprintItemsR_mpv hm) (fun _ => rrel_eq_refl _)
      | keyedMap _ hf =>
        rw [writeObjectL_sprint_of_tag (.inr (.inl rfl)), writeObjectL_sprint_of_tag (.inr (.inl rfl))]
        exact sprintRR_mp (MP.keyedMap ‹_› hf)
      | struct hf =>
        rw [writeObjectL_sprint_of_tag (.inr (.inr rfl)), writeObjectL_sprint_of_tag (.inr (.inr rfl))]
        exact sprintRR_mp (MP.struct hf)
      | drop h' =>
        rw [writeObjectL_drop, writeObjectL_drop]
        exact ihO _ _ (by simp at hs; omega) h'
      | @ptr v w h' =>
        -- a pointer: to a drop (the drop's value), to a pointer (outside the model), else `Sprint` of the value it holds
        have ht := h'.headTag_eq
        cases v <;> cases w <;> simp [headTag] at ht <;>
          first
            | exact RRel.unmL rfl _ _
            | (rw [writeObjectL_ptr_drop, writeObjectL_ptr_drop]
               cases h' with
               | refl => exact rrel_eq_refl _
               | drop h'' => exact ihO _ _ (by simp at hs; omega) h'')
            | (simp only [writeObjectL]; exact sprint_mp h')
    have hOs : ∀ xs ys : List GoVal, sizeOf xs < n + 1 → MPL xs ys → RRel true Eq (writeObjects xs) (writeObjects ys) := by
      intro xs ys hs h
      cases h with
      | nil => exact rrel_eq_refl _
      | @cons x y xs' ys' hx hr =>
        rw [writeObjects_cons, writeObjects_cons]
        have h1 := sizeOf_toLiquid_le x
        refine rrel_true_bind_soft (ihO _ _ (by simp at hs; omega) hx.toLiquid) (fun _ => ?_)
        exact rrel_true_bind_soft (ihOs _ _ (by simp at hs; omega) hr) (fun _ => rrel_eq_refl _)
    have hC : ∀ a b : GoVal, sizeOf a < n + 1 → MP a b → RRel true Eq (writeChunksL a) (writeChunksL b) := by
      intro a b hs h
      have hOab := hO a b hs h
      cases h with
      | refl => exact rrel_eq_refl _
      | @slice t xs ys hl =>
        simp only [writeChunksL]
        exact ihCs xs ys (by simp at hs; omega) hl
      | @array t xs ys hl =>
        simp only [writeChunksL]
        exact ihCs xs ys (by simp at hs; omega) hl
      | mapSlice hm =>
        simp only [writeChunksL]
        exact sprintItemsR_mpv hm
      | drop h' =>
        rw [writeChunksL_drop, writeChunksL_drop]
        exact ihC _ _ (by simp at hs; omega) h'
      | @ptr v w h' =>
        have ht := h'.headTag_eq
        cases v <;> cases w <;> simp [headTag] at ht <;>
          first
            | (rw [writeChunksL_ptr_drop, writeChunksL_ptr_drop]
               cases h' with
               | refl => exact rrel_eq_refl _
               | drop h'' => exact ihC _ _ (by simp at hs; omega) h'')
            | (simp only [writeChunksL]; exact rrel_true_bind_soft hOab (fun _ => rrel_eq_refl _))
      | _ =>
        simp only [writeChunksL]
        exact rrel_true_bind_soft hOab (fun _ => rrel_eq_refl _)
    have hCs : ∀ xs ys : List GoVal, sizeOf xs < n + 1 → MPL xs ys → RRel true Eq (writeChunksList xs) (writeChunksList ys) := by
      intro xs ys hs h
      cases h with
      | nil => exact rrel_eq_refl _
      | @cons x y xs' ys' hx hr =>
        rw [writeChunksList_cons, writeChunksList_cons]
        have h1 := sizeOf_toLiquid_le x
        refine rrel_true_bind_soft (ihC _ _ (by simp at hs; omega) hx.toLiquid) (fun _ => ?_)
        exact rrel_true_bind_soft (ihCs _ _ (by simp at hs; omega) hr) (fun _ => rrel_eq_refl _)
    exact ⟨hO, hOs, hC, hCs⟩

theorem writeChunksL_mp {a b : GoVal} (h : MP a b) : RRel true Eq (writeChunksL a) (writeChunksL b) :=
  (writeWF (sizeOf a + 1)).2.2.1 a b (Nat.lt_succ_self _) h

theorem writeObjectL_mp {a b : GoVal} (h : MP a b) : RRel true Eq (writeObjectL a) (writeObjectL b) :=
  (writeWF (sizeOf a + 1)).1 a b (Nat.lt_succ_self _) h

theorem stdChunks_mp {a b : GoVal} (h : MP a b) : RRel true Eq (stdChunks a) (stdChunks b) :=
  writeChunksL_mp h.toLiquid

/-- the standard output layer prints values that differ in the order of map entries alike (up to the
    boundary of the model) -/
theorem stdOut_respectsM : OutRespectM true stdOut :=
  { chunks := fun _ _ h => stdChunks_mp h.2.2 }
