import Proofs.RunLemmas
/-!
# A loop execution as a left fold over its items (helper definitions and lemmas for C11)

On a writer that does not fail, `iterateM` is `List.foldl` of one-iteration steps over the
selected items, with an accumulator that records the bytes written so far, the index and cycle
counters of the next iteration, and whether the loop is still running, was ended by `break`, or
was abandoned by a failure.
-/

/-- how an abandoned render ended -/
inductive Halt where
  | err (e : RawErr)
  | panic (w : String)
  | unmodelled (w : String)

inductive LoopSt where
  /-- ready for the next item, in this render state -/
  | running (s : RS)
  /-- a `break` ended the loop in this state: the remaining items are not visited -/
  | broke (s : RS)
  /-- the body failed: the render is abandoned -/
  | halted (h : Halt)

structure LoopAcc where
  /-- everything the caller's writer has received from the iterations so far -/
  out : Bytes
  /-- 0-based index of the next iteration (`forloop.index0`) -/
  i : Nat
  /-- the cycle counters of this loop execution -/
  cyc : List (GoVal × GoVal)
  st : LoopSt

def LoopAcc.start (s : RS) : LoopAcc := ⟨[], 0, [], .running s⟩

/-- what the iterations return: `done` in both normal cases (the sentinel is consumed) -/
def LoopAcc.outcome (a : LoopAcc) : Prog.Outcome (Status × RS) :=
  match a.st with
  | .running s => .ok (.done, s)
  | .broke s => .ok (.done, s)
  | .halted (.err e) => .err e
  | .halted (.panic w) => .panic w
  | .halted (.unmodelled w) => .unmodelled w

/-- one iteration's rendering: the body, for a `tablerow` between its cell decorations (the cell
    is closed also when the body ends with `break` or `continue`) -/
def iterBody (cols : Option Nat) (body : M Status) (i n : Nat) : M Status := do
  (match cols with
   | some c => tablerowBefore c i
   | none => pure ())
  let st ← body
  (match cols with
   | some c => tablerowAfter c i n
   | none => pure ())
  pure st

/-- the cycle counters after an iteration: those in the record bound to `forloop` (the `cycle`
    tag updates them there) -/
def nextCyc (cyc : List (GoVal × GoVal)) (s' : RS) : List (GoVal × GoVal) :=
  match cyclesOf (s'.env.get nmForloop) with
  | some (c, _) => c
  | none => cyc

/-- the state in which the body of iteration `i` of `n` over item `x` starts -/
def iterStart (var : Bytes) (s : RS) (x : GoVal) (i n : Nat) (cyc : List (GoVal × GoVal)) : RS :=
  { s with env := (s.env.set var x).set nmForloop (forloopRec i n cyc) }

/-- one step of the fold: bind the loop variable and `forloop` (by the formulas of `forloopRec`),
    render the body; `break` ends the loop, `continue` and a normal end go on with index `i+1`, a
    failure abandons the render; once the loop has ended further items change nothing. -/
def iterStep (var : Bytes) (cols : Option Nat) (body : M Status) (n : Nat) (acc : LoopAcc) (x : GoVal) : LoopAcc :=
  match acc.st with
  | .running s =>
    match (iterBody cols body acc.i n (iterStart var s x acc.i n acc.cyc)).runPure with
    | (o, .ok (.brk _, s')) => { acc with out := acc.out ++ o, st := .broke s' }
    | (o, .ok (_, s')) => { out := acc.out ++ o, i := acc.i + 1, cyc := nextCyc acc.cyc s', st := .running s' }
    | (o, .err e) => { acc with out := acc.out ++ o, st := .halted (.err e) }
    | (o, .panic w) => { acc with out := acc.out ++ o, st := .halted (.panic w) }
    | (o, .unmodelled w) => { acc with out := acc.out ++ o, st := .halted (.unmodelled w) }
  | _ => acc

theorem iterStep_foldl_broke (var : Bytes) (cols : Option Nat) (body : M Status) (n : Nat) (xs : List GoVal)
    (out : Bytes) (i : Nat) (cyc) (s : RS) :
    xs.foldl (iterStep var cols body n) ⟨out, i, cyc, .broke s⟩ = ⟨out, i, cyc, .broke s⟩ := by
  induction xs with
  | nil => rfl
  | cons x xs ih => simpa [List.foldl_cons, iterStep] using ih

theorem iterStep_foldl_halted (var : Bytes) (cols : Option Nat) (body : M Status) (n : Nat) (xs : List GoVal)
    (out : Bytes) (i : Nat) (cyc) (h : Halt) :
    xs.foldl (iterStep var cols body n) ⟨out, i, cyc, .halted h⟩ = ⟨out, i, cyc, .halted h⟩ := by
  induction xs with
  | nil => rfl
  | cons x xs ih => simpa [List.foldl_cons, iterStep] using ih

/-- one iteration of `iterateM`, in terms of `iterBody` -/
theorem iterateM_cons (var : Bytes) (cols : Option Nat) (body : M Status) (n : Nat) (x : GoVal) (xs : List GoVal)
    (i : Nat) (cyc) (s : RS) :
    iterateM var cols body n (x :: xs) i cyc s =
      (iterBody cols body i n (iterStart var s x i n cyc)).bind fun r =>
        match r.1 with
        | .brk _ => .ret (.done, r.2)
        | _ => iterateM var cols body n xs (i + 1) (nextCyc cyc r.2) r.2 := by
  conv => lhs; unfold iterateM
  simp only [iterBody, iterStart, bind, M.bind, M.setVar, M.getVar, Prog.bind, pure, M.pure, Prog.bind_assoc, nextCyc]
  congr 1
  funext r1
  congr 1
  funext r2
  congr 1
  funext r3
  obtain ⟨st, s3⟩ := r2
  cases st <;> rfl

theorem iterateM_cons_run (var : Bytes) (cols : Option Nat) (body : M Status) (n : Nat) (x : GoVal) (xs : List GoVal)
    (i : Nat) (cyc) (s : RS) :
    (iterateM var cols body n (x :: xs) i cyc s).runPure =
      match (iterBody cols body i n (iterStart var s x i n cyc)).runPure with
      | (o, .ok (.brk _, s')) => (o, .ok (.done, s'))
      | (o, .ok (_, s')) =>
        (o ++ (iterateM var cols body n xs (i + 1) (nextCyc cyc s') s').runPure.1,
         (iterateM var cols body n xs (i + 1) (nextCyc cyc s') s').runPure.2)
      | (o, .err e) => (o, .err e)
      | (o, .panic w) => (o, .panic w)
      | (o, .unmodelled w) => (o, .unmodelled w) := by
  rw [iterateM_cons, Prog.runPure_bind]
  rcases h : (iterBody cols body i n (iterStart var s x i n cyc)).runPure with ⟨o, r⟩
  cases r with
  | ok r =>
    obtain ⟨st, s'⟩ := r
    cases st <;> simp [Prog.runPure]
  | err e => rfl
  | panic w => rfl
  | unmodelled w => rfl

/-- **The iterations are a left fold.** -/
theorem iterate_fold (var : Bytes) (cols : Option Nat) (body : M Status) (n : Nat) :
    ∀ (xs : List GoVal) (i : Nat) (cyc : List (GoVal × GoVal)) (s : RS) (pre : Bytes),
      (pre ++ (iterateM var cols body n xs i cyc s).runPure.1, (iterateM var cols body n xs i cyc s).runPure.2) =
        ((xs.foldl (iterStep var cols body n) ⟨pre, i, cyc, .running s⟩).out,
         (xs.foldl (iterStep var cols body n) ⟨pre, i, cyc, .running s⟩).outcome) := by
  intro xs
  induction xs with
  | nil =>
    intro i cyc s pre
    simp [iterateM, pure, M.pure, Prog.runPure, LoopAcc.outcome]
  | cons x xs ih =>
    intro i cyc s pre
    rw [iterateM_cons_run, List.foldl_cons]
    simp only [iterStep]
    rcases h : (iterBody cols body i n (iterStart var s x i n cyc)).runPure with ⟨o, r⟩
    cases r with
    | ok r =>
      obtain ⟨st, s'⟩ := r
      cases st with
      | brk e => simp only [iterStep_foldl_broke, LoopAcc.outcome]
      | done =>
        simp only
        rw [← ih (i + 1) (nextCyc cyc s') s' (pre ++ o), List.append_assoc]
      | cont e =>
        simp only
        rw [← ih (i + 1) (nextCyc cyc s') s' (pre ++ o), List.append_assoc]
    | err e => simp only [iterStep_foldl_halted, LoopAcc.outcome]
    | panic w => simp only [iterStep_foldl_halted, LoopAcc.outcome]
    | unmodelled w => simp only [iterStep_foldl_halted, LoopAcc.outcome]

theorem iterate_fold_start (var : Bytes) (cols : Option Nat) (body : M Status) (n : Nat) (xs : List GoVal) (s : RS) :
    (iterateM var cols body n xs 0 [] s).runPure =
      ((xs.foldl (iterStep var cols body n) (LoopAcc.start s)).out,
       (xs.foldl (iterStep var cols body n) (LoopAcc.start s)).outcome) := by
  have := iterate_fold var cols body n xs 0 [] s []
  simp only [List.nil_append] at this
  exact this

/-! ## From the iterations to the loop node -/

/-- the deferred restore: `forloop` and the loop variable get back the values they had in `s` -/
def restoreFrom (var : Bytes) (s s' : RS) : RS :=
  { s' with env := (s'.env.set nmForloop (s.env.get nmForloop)).set var (s.env.get var) }

/-- the run of a whole loop execution read off the final accumulator of the fold: the bytes, and
    `done` with the loop variables restored — or the failure, as wrapped by `g` -/
def loopResult (g : RawErr → RawErr) (var : Bytes) (s : RS) (acc : LoopAcc) : Bytes × Prog.Outcome (Status × RS) :=
  (acc.out,
   match acc.st with
   | .running s' => .ok (.done, restoreFrom var s s')
   | .broke s' => .ok (.done, restoreFrom var s s')
   | .halted (.err e) => .err (g e)
   | .halted (.panic w) => .panic w
   | .halted (.unmodelled w) => .unmodelled w)

theorem loopIterate_run (P : Prims) (loc : Loc) (tr : Bool) (var : Bytes) (colsE : Option Expr) (bodyM : M Status)
    (items : List GoVal) (s : RS) (cols : Option Nat)
    (hcols : tablerowCols P tr colsE loc s = .ret (cols, s)) :
    (loopIterate P loc tr var colsE bodyM items s).runPure =
      loopResult id var s (items.foldl (iterStep var cols bodyM items.length) (LoopAcc.start s)) := by
  unfold loopIterate
  simp only [bind, M.bind, hcols, Prog.bind, M.getVar]
  rw [Prog.runPure_bind, iterate_fold_start]
  simp only [loopResult, LoopAcc.outcome]
  rcases (items.foldl (iterStep var cols bodyM items.length) (LoopAcc.start s)) with ⟨out, i, cyc, st⟩
  cases st with
  | running s' =>
    simp [restoreLoopVars, bind, M.bind, M.setVar, Prog.bind, pure, M.pure, Prog.runPure, restoreFrom]
  | broke s' =>
    simp [restoreLoopVars, bind, M.bind, M.setVar, Prog.bind, pure, M.pure, Prog.runPure, restoreFrom]
  | halted h => cases h <;> rfl

theorem runPure_wrapAt (path : Bytes) (loc : Loc) (m : M Status) (s : RS) :
    (wrapAt path loc m s).runPure =
      match (m s).runPure with
      | (o, .ok (st, s')) => (o, .ok (st.wrap path loc, s'))
      | (o, .err e) => (o, .err (.located (wrapError path e loc)))
      | (o, .panic w) => (o, .panic w)
      | (o, .unmodelled w) => (o, .unmodelled w) := by
  unfold wrapAt
  rw [Prog.runPure_bind, Prog.runPure_mapFail]
  rcases (m s).runPure with ⟨o, r⟩
  cases r with
  | ok r => obtain ⟨st, s'⟩ := r; simp [Prog.runPure]
  | err e => rfl
  | panic w => rfl
  | unmodelled w => rfl

/-- the head of `loopRun`: with the collection, its items and the modifiers evaluated, what
    remains is the dispatch on the selected items, wrapped at the loop tag -/
theorem loopRun_eq {budget : Int} (P : Prims) (path : Bytes) (loc : Loc) (tr : Bool) (var : Bytes) (e : Expr) (mods : LoopMods)
    (bodyM : M Status) (elseM : Option (M Status)) (s : RS) (v : GoVal) (items0 : List GoVal) (off lim : Option Int)
    (hv : evaluate P s.env e = .ok v) (hitems : loopItems budget v = .ok items0)
    (hoff : intModifier P mods.offset loc s = .ret (off, s))
    (hlim : intModifier P mods.limit loc s = .ret (lim, s)) :
    loopRun budget P path loc tr var e mods bodyM false elseM s =
      wrapAt path loc (loopDispatch P loc tr var mods.cols bodyM elseM (selectItems mods.reversed off lim items0)) s := by
  unfold loopRun wrapAt
  simp only [bind, M.bind, M.getEnv, Prog.bind, hv, hitems, M.ofRes, pure, M.pure, hoff, hlim, Bool.false_eq_true, if_false]

theorem intModifier_none (P : Prims) (loc : Loc) (s : RS) : intModifier P none loc s = .ret (none, s) := rfl

theorem intModifier_int (P : Prims) (ex : Expr) (loc : Loc) (s : RS) (k : Int)
    (h : evaluate P s.env ex = .ok (.int .int k)) : intModifier P (some ex) loc s = .ret (some k, s) := by
  simp only [intModifier, bind, M.bind, M.getEnv, Prog.bind, h, M.ofRes, pure, M.pure]

theorem tablerowCols_for (P : Prims) (colsE : Option Expr) (loc : Loc) (s : RS) :
    tablerowCols P false colsE loc s = .ret (none, s) := rfl

theorem tablerowCols_none (P : Prims) (loc : Loc) (s : RS) :
    tablerowCols P true none loc s = .ret (some 2147483647, s) := rfl

theorem tablerowCols_int (P : Prims) (ex : Expr) (loc : Loc) (s : RS) (k : Int)
    (h : evaluate P s.env ex = .ok (.int .int k)) :
    tablerowCols P true (some ex) loc s = .ret (some (if k > 0 then k.toNat else 2147483647), s) := by
  simp only [tablerowCols, if_true, bind, M.bind, intModifier_int P ex loc s k h, Prog.bind, pure, M.pure]
