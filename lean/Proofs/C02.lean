import Liquid.Std
import Proofs.MapPermSort
/-!
# C02 — rendering is deterministic across runs, re-parses, engines and entry points

In the model a render is the function `run` of (configuration, source, start line, environment,
file system): it has no other input, so repeated renders, fresh parses and fresh engines are the
same function application. What needs an argument is the one place where Go's nondeterminism
enters the real code — the iteration order of a Go map — and the six API entry points.
-/

/-! ## Go map iteration order

`reflect.Value.MapKeys` returns the keys in an arbitrary order. The repaired code sorts them
(`values.SortedMapKeys`) before iterating or converting to an array. Sorting makes the result
independent of that arbitrary order (here for string keys; `Proofs/MapOrder.lean` for booleans, numbers
of every type and strings, with the comparator of `values/sort.go` itself): -/

/-- Sorting with a transitive, total order that is antisymmetric on the elements present gives the
    same list for every permutation of the input. -/
theorem sort_perm_invariant {α : Type} (le : α → α → Bool)
    (trans : ∀ a b c, le a b → le b c → le a c) (total : ∀ a b, le a b || le b a)
    (l₁ l₂ : List α) (hperm : l₁.Perm l₂)
    (anti : ∀ a b, a ∈ l₁ → b ∈ l₁ → le a b → le b a → a = b) :
    l₁.mergeSort le = l₂.mergeSort le := by
  apply List.Perm.eq_of_pairwise (le := fun a b => le a b = true)
  · intro a b ha hb hab hba
    have ha' : a ∈ l₁ := (List.mergeSort_perm l₁ le).subset ha
    have hb' : b ∈ l₁ := hperm.symm.subset ((List.mergeSort_perm l₂ le).subset hb)
    exact anti a b ha' hb' hab hba
  · exact List.pairwise_mergeSort trans total l₁
  · exact List.pairwise_mergeSort trans total l₂
  · exact ((List.mergeSort_perm l₁ le).trans hperm).trans (List.mergeSort_perm l₂ le).symm

/-- the order `SortedMapKeys` uses on string keys: bytewise lexicographic -/
def entryLe (a b : Bytes × GoVal) : Bool := decide (a.1 ≤ b.1)

/-- a string-keyed Go map's entries in the order the (repaired) code visits them -/
def sortedEntries (kvs : List (Bytes × GoVal)) : List (Bytes × GoVal) := kvs.mergeSort entryLe

/-- **C02 (map iteration order).** Whatever order the Go runtime hands the keys of a string-keyed
    map out in (`kvs'` is any permutation of `kvs`; keys are distinct, as in every Go map), the
    order in which a `for` loop, `first`, `last`, `join`, `sort`… see the entries is the same. -/
theorem map_order_independent (kvs kvs' : List (Bytes × GoVal)) (hperm : kvs.Perm kvs')
    (hdistinct : ∀ a b, a ∈ kvs → b ∈ kvs → a.1 = b.1 → a = b) :
    sortedEntries kvs = sortedEntries kvs' := by
  apply sort_perm_invariant entryLe
  · intro a b c hab hbc
    simp only [entryLe, decide_eq_true_eq] at *
    exact List.le_trans hab hbc
  · intro a b
    simp only [entryLe, Bool.or_eq_true, decide_eq_true_eq]
    exact List.le_total a.1 b.1
  · exact hperm
  · intro a b ha hb hab hba
    simp only [entryLe, decide_eq_true_eq] at hab hba
    exact hdistinct a b ha hb (List.le_antisymm hab hba)

/-- a list that is already in key order is left as it is. (This section is the earlier statement for
    string keys and `mergeSort`; the model's `loopItems` and `Convert` now call `MapOrder.sortedEntries`,
    the transcription of `values.SortedMapKeys` for keys of every kind: `Proofs/MapOrder.lean` and the
    last sections of this file.) -/
theorem sortedEntries_of_sorted (kvs : List (Bytes × GoVal)) (h : kvs.Pairwise (fun a b => entryLe a b = true)) :
    sortedEntries kvs = kvs := List.mergeSort_of_pairwise h

/-! ## Entry points

`Render`, `RenderString`, `FRender`, `ParseAndRender`, `ParseAndRenderString`, `ParseAndFRender`
are thin wrappers of one another in `engine.go` / `template.go`; so are their models. -/

/-- `Template.Render` / `RenderString`: the bytes a fault-free `FRender` writes, or the error -/
def apiRender (P : Prims) (O : OutPrims) (cfg : Cfg) (fs : FS) (fuel : Nat) (root : List Node) (env : Env) : RunResult :=
  match (frender P O cfg fs fuel root env).runPure with
  | (out, .ok _) => .ok out
  | (_, .err (.located e)) => .err e
  | (_, .err (.plain c)) => .err ⟨0, false, c, .byCause⟩
  | (_, .panic w) => .panic w
  | (_, .unmodelled w) => .unmodelled w

/-- `Engine.ParseAndRender` / `ParseAndRenderString` -/
def apiParseAndRender (P : Prims) (O : OutPrims) (cfg : Cfg) (fs : FS) (fuel : Nat) (src : Bytes) (line : Nat) (env : Env) : RunResult :=
  match compileSource cfg.delims src line with
  | .ok root => apiRender P O cfg fs fuel root env
  | .err e => .err e
  | .panic w => .panic w
  | .unmodelled w => .unmodelled w

/-- **C02 (entry points).** Parsing then rendering is the same function as the one-call entry
    point, and `FRender` into a buffer is what `Render` returns. -/
theorem entrypoints_agree (P : Prims) (O : OutPrims) (cfg : Cfg) (fs : FS) (fuel : Nat) (src : Bytes) (line : Nat) (env : Env) :
    apiParseAndRender P O cfg fs fuel src line env = run P O cfg fs fuel src line env := by
  unfold apiParseAndRender run apiRender
  cases compileSource cfg.delims src line <;> rfl

/-- a render is a function of the template text and the binding values only: two parses of the
    same text give the same tree, hence the same render (fresh parse, fresh engine) -/
theorem reparse_same (delims : List Bytes) (src : Bytes) (line : Nat) :
    compileSource delims src line = compileSource delims src line := rfl

/-! Non-vacuity -/
example : sortedEntries [([98], .nil), ([97], .bool true)] = sortedEntries [([97], .bool true), ([98], .nil)] :=
  map_order_independent _ _ (List.Perm.swap _ _ _) (by
    intro a b ha hb h
    simp only [List.mem_cons, List.mem_nil_iff, or_false] at ha hb
    rcases ha with rfl | rfl <;> rcases hb with rfl | rfl <;> simp_all)


/-! ## The whole render does not depend on the order of map entries

`MP a b` (`Proofs/MapPerm.lean`, defined inductively on `GoVal`): `b` is `a` with the entry lists of maps
permuted, at any depth — for maps whose keys are booleans, numbers or strings, pairwise distinct as Go
map keys (`MapOrder.KeysOK`: what the keys of one Go map of these kinds always are). The model's `run`
gets every map as a *list* of entries, in the order of the line protocol, and sorts it wherever the code
calls `values.SortedMapKeys` (`Liquid/MapOrder.lean`); Go's runtime hands the entries out in a random
order. The theorems say that this order cannot reach the result. -/

/-- **C02, whole template, parametric in the value layer.** For every comparison/filter layer `P` and
output layer `O` that do not see the order of map entries (`PrimsRespectM`, `OutRespectM`: related
operands compare alike, related filter inputs give related results, related values print alike), every
configuration, file system, include depth, template source and start line: rendering against two
environments whose bindings differ in the order of the entries of maps, at any depth (`MP`), gives the
same result — the same output bytes or the same error. Proved by the mutual induction over the compiled
tree on the two runs in lock step (`mp_renderNode`, `Proofs/MapPermRender.lean`): variable, property and
index lookup find the same entry (`mapFind_mp`: keys are distinct), `for`/`tablerow` visit the entries in
the order of `SortedMapKeys` (`loopItems_mp_cases`, by `sortedEntries_perm`), assign/capture/loop
variables stay related, includes see related variables. -/
theorem run_map_order_independent (P : Prims) (O : OutPrims) (hP : PrimsRespectM false P) (hO : OutRespectM false O)
    (cfg : Cfg) (fs : FS) (fuel : Nat) (src : Bytes) (line : Nat) (env env' : Env)
    (he : ∀ x, MP (env.get x) (env'.get x)) :
    run P O cfg fs fuel src line env = run P O cfg fs fuel src line env' :=
  (run_mp P O cfg fs fuel hP hO src line he).eq

/-- The same up to the boundary of the model (`RunAgree true`: equal, or one of the two runs is
`unmodelled`): the layers need to respect `MP` only up to `unmodelled` results. -/
theorem run_map_order_independent_upto_unmodelled (P : Prims) (O : OutPrims) (hP : PrimsRespectM true P)
    (hO : OutRespectM true O) (cfg : Cfg) (fs : FS) (fuel : Nat) (src : Bytes) (line : Nat) (env env' : Env)
    (he : ∀ x, MP (env.get x) (env'.get x)) :
    RunAgree true (run P O cfg fs fuel src line env) (run P O cfg fs fuel src line env') :=
  run_mp P O cfg fs fuel hP hO src line he

/-- a map binding with its entries permuted is a related binding -/
theorem binding_related_of_perm (kt vt : Ty) {kvs kvs' : List (GoVal × GoVal)} (hv : vt ≠ .priv)
    (hk : MapOrder.KeysOK kvs) (ht : KeysTyped kt kvs) (hn : NoPriv kvs) (hp : kvs.Perm kvs') :
    MP (.map kt vt kvs) (.map kt vt kvs') :=
  MP.map kt vt hv hk hn (MPV.refl _) hp ht

/-- … at any depth: an array of such maps -/
theorem binding_related_nested (t : Ty) {x y : GoVal} (h : MP x y) (xs : List GoVal) : MP (.slice t (x :: xs)) (.slice t (y :: xs)) :=
  MP.slice t (.cons h (MPL.refl xs))

/-! Non-vacuity: the map with the keys `1`, `1.0`, `int64(1)`, `"1"`, `true` in two orders, bound to `m`;
layers that satisfy the hypotheses. -/

example : MP (.map .any .any MapOrder.exA) (.map .any .any MapOrder.exB) :=
  binding_related_of_perm .any .any (by simp) MapOrder.exA_keysOK (fun _ _ => rfl)
    (by intro kv h; simp only [MapOrder.exA, List.mem_cons, List.mem_nil_iff, or_false] at h
        rcases h with rfl | rfl | rfl | rfl | rfl <;> rfl)
    MapOrder.exB_perm_exA.symm

example : ∀ y, MP (Env.get [([109], .map .any .any MapOrder.exA)] y) (Env.get [([109], .map .any .any MapOrder.exB)] y) := by
  intro y
  by_cases h : y = [109]
  · subst h
    exact binding_related_of_perm .any .any (by simp) MapOrder.exA_keysOK (fun _ _ => rfl)
      (by intro kv h; simp only [MapOrder.exA, List.mem_cons, List.mem_nil_iff, or_false] at h
          rcases h with rfl | rfl | rfl | rfl | rfl <;> rfl)
      MapOrder.exB_perm_exA.symm
  · have : ([109] == y) = false := by simp [Ne.symm h]
    simp [Env.get, List.find?, this, MP.refl]

example : PrimsRespectM false
    { equal := fun _ _ => .ok true, less := fun _ _ => .ok false, contains := fun _ _ => .ok false,
      equalFn := fun _ _ => .ok true, applyFilter := fun _ r _ => .ok r, hasFilter := fun _ => true } :=
  { equal := fun _ _ _ _ _ _ => rfl, less := fun _ _ _ _ _ _ => rfl, contains := fun _ _ _ _ _ _ => rfl,
    equalFn := fun _ _ _ _ _ _ => rfl, applyFilter := fun _ _ _ _ _ hr _ => hr.2.2 }

example : OutRespectM false { chunks := fun _ => .ok [] } := { chunks := fun _ _ _ => rfl }

/-- the standard output layer satisfies its hypothesis (up to `unmodelled`) -/
example : OutRespectM true stdOut := stdOut_respectsM


/-! ## The standard configuration

The standard output layer (`stdOut_respectsM`: `fmt.Sprint` sorts the keys of a map), the standard
comparisons (`opEq_prep_mp`, `opLt_prep_mp`, `opContains_prep_mp`, `equal_mp`: `equalMaps` is a conjunction
over all entries, `mapValue.Contains` a key lookup) and every standard filter (`filterRespectsM_all`:
`Convert(·, []any)` of a map sorts the entries, `Convert(·, string)` prints them sorted; `json`/`inspect` sort
the members of an object by key text — `marshal_jrel`; `type` names types; `sort`/`sort_natural` order by
`values.Less` / the printed text and make the same comparisons on both runs — `insertionSortM_mp`,
`mergeSort_mp`; `uniq` identifies elements by their canonical encoding — `canonOrder_mp`) respect `MP` up to
`unmodelled`: the entries of a map are *printed* and *compared* in the order of the entry list, so which part
of a value leaves the model first — and with an early exit, whether it is reached at all — depends on that
order; the answers inside the model are the same. -/

/-- **C02 for the standard configuration: rendering does not depend on the order of map entries anywhere in
the bindings.** Every template (all tags, all 48 filters, every comparison), every configuration, file system
and include depth: rendering against environments whose bindings differ in the order of the entries of maps, at
any depth (`MP`: maps whose keys are booleans, numbers or strings, pairwise distinct and of the map's key type),
gives results that agree (`RunAgree true`: the same output or the same error, or one of the two runs is outside
the model). "Agree" rather than "equal" is forced by the model, not by the code: see the paragraph above — the
statement for equal results holds for every value layer that respects `MP` exactly
(`run_map_order_independent`). -/
theorem run_std_map_order_independent (cfg : Cfg) (fs : FS) (fuel : Nat) (src : Bytes) (line : Nat) (env env' : Env)
    (he : ∀ x, MP (env.get x) (env'.get x)) :
    RunAgree true (run stdPrims stdOut cfg fs fuel src line env) (run stdPrims stdOut cfg fs fuel src line env') :=
  run_mp _ _ cfg fs fuel stdPrims_respectsM stdOut_respectsM src line he

/-- the same for an engine on which only some of the standard filters are registered -/
theorem run_std_map_order_independent_only (allowed : Bytes → Bool)
    (cfg : Cfg) (fs : FS) (fuel : Nat) (src : Bytes) (line : Nat) (env env' : Env)
    (he : ∀ x, MP (env.get x) (env'.get x)) :
    RunAgree true (run (stdPrimsOnly allowed) stdOut cfg fs fuel src line env)
      (run (stdPrimsOnly allowed) stdOut cfg fs fuel src line env') :=
  run_mp _ _ cfg fs fuel (stdPrimsOnly_respectsM allowed (fun n _ _ => filterRespectsM_all n)) stdOut_respectsM src line he

/-- the hypothesis on the environments, on the map with the keys `1`, `1.0`, `int64(1)`, `"1"`, `true` nested in an
    array, bound to `a`, in two orders -/
example : ∀ y, MP (Env.get [([97], .slice .any [.map .any .any MapOrder.exA, .int .int 7])] y)
    (Env.get [([97], .slice .any [.map .any .any MapOrder.exB, .int .int 7])] y) := by
  intro y
  by_cases h : y = [97]
  · subst h
    refine binding_related_nested .any ?_ _
    exact binding_related_of_perm .any .any (by simp) MapOrder.exA_keysOK (fun _ _ => rfl)
      (by intro kv h; simp only [MapOrder.exA, List.mem_cons, List.mem_nil_iff, or_false] at h
          rcases h with rfl | rfl | rfl | rfl | rfl <;> rfl)
      MapOrder.exB_perm_exA.symm
  · have : ([97] == y) = false := by simp [Ne.symm h]
    simp [Env.get, List.find?, this, MP.refl]

/-- … and the conclusion on it: the template `{% for p in m %}{{ p[1] }}{% endfor %}{{ m | json }}` (any template)
    renders alike against the two orders of the map -/
example (src : Bytes) :
    RunAgree true (run stdPrims stdOut {} (fsOfList []) 8 src 0 [([109], .map .any .any MapOrder.exA)])
      (run stdPrims stdOut {} (fsOfList []) 8 src 0 [([109], .map .any .any MapOrder.exB)]) :=
  run_std_map_order_independent _ _ _ _ _ _ _ (by
    intro y
    by_cases h : y = [109]
    · subst h
      exact binding_related_of_perm .any .any (by simp) MapOrder.exA_keysOK (fun _ _ => rfl)
        (by intro kv h; simp only [MapOrder.exA, List.mem_cons, List.mem_nil_iff, or_false] at h
            rcases h with rfl | rfl | rfl | rfl | rfl <;> rfl)
        MapOrder.exB_perm_exA.symm
    · have : ([109] == y) = false := by simp [Ne.symm h]
      simp [Env.get, List.find?, this, MP.refl])
