import Liquid.Std
/-!
# C02 — rendering is deterministic across runs, re-parses, engines and entry points

In the model a render is the function `run` of (configuration, source, start line, environment,
file system): it has no other input, so repeated renders, fresh parses and fresh engines are the
same function application. What needs an argument is the one place where Go's nondeterminism
enters the real code — the iteration order of a Go map — and the six API entry points.
-/

/-! ## Go map iteration order

`reflect.Value.MapKeys` returns the keys in an arbitrary order. The repaired code sorts them
(`values.SortedMapKeys`) before iterating or converting to an array. Sorting makes the result
independent of that arbitrary order: -/

/-- Sorting with a transitive, total order that is antisymmetric on the elements present gives the
    same list for every permutation of the input. -/
theorem sort_perm_invariant {α : Type} (le : α → α → Bool)
    (trans : ∀ a b c, le a b → le b c → le a c) (total : ∀ a b, le a b || le b a)
    (l₁ l₂ : List α) (hperm : l₁.Perm l₂)
    (anti : ∀ a b, a ∈ l₁ → b ∈ l₁ → le a b → le b a → a = b) :
    l₁.mergeSort le = l₂.mergeSort le := by
  apply List.Perm.eq_of_pairwise (le := fun a b => le a b = true)
  · intro a b ha hb hab hba
    have ha' : a ∈ l₁ := (List.mergeSort_perm l₁ le).subset ha
    have hb' : b ∈ l₁ := hperm.symm.subset ((List.mergeSort_perm l₂ le).subset hb)
    exact anti a b ha' hb' hab hba
  · exact List.pairwise_mergeSort trans total l₁
  · exact List.pairwise_mergeSort trans total l₂
  · exact ((List.mergeSort_perm l₁ le).trans hperm).trans (List.mergeSort_perm l₂ le).symm

/-- the order `SortedMapKeys` uses on string keys: bytewise lexicographic -/
def entryLe (a b : Bytes × GoVal) : Bool := decide (a.1 ≤ b.1)

/-- a string-keyed Go map's entries in the order the (repaired) code visits them -/
def sortedEntries (kvs : List (Bytes × GoVal)) : List (Bytes × GoVal) := kvs.mergeSort entryLe

/-- **C02 (map iteration order).** Whatever order the Go runtime hands the keys of a string-keyed
    map out in (`kvs'` is any permutation of `kvs`; keys are distinct, as in every Go map), the
    order in which a `for` loop, `first`, `last`, `join`, `sort`… see the entries is the same. -/
theorem map_order_independent (kvs kvs' : List (Bytes × GoVal)) (hperm : kvs.Perm kvs')
    (hdistinct : ∀ a b, a ∈ kvs → b ∈ kvs → a.1 = b.1 → a = b) :
    sortedEntries kvs = sortedEntries kvs' := by
  apply sort_perm_invariant entryLe
  · intro a b c hab hbc
    simp only [entryLe, decide_eq_true_eq] at *
    exact List.le_trans hab hbc
  · intro a b
    simp only [entryLe, Bool.or_eq_true, decide_eq_true_eq]
    exact List.le_total a.1 b.1
  · exact hperm
  · intro a b ha hb hab hba
    simp only [entryLe, decide_eq_true_eq] at hab hba
    exact hdistinct a b ha hb (List.le_antisymm hab hba)

/-- a list that is already in key order is visited as it is (the line protocol keeps map entries
    in this canonical order, so the model's `loopItems` on a map is `sortedEntries` of any
    permutation of it) -/
theorem sortedEntries_of_sorted (kvs : List (Bytes × GoVal)) (h : kvs.Pairwise (fun a b => entryLe a b = true)) :
    sortedEntries kvs = kvs := List.mergeSort_of_pairwise h

/-! ## Entry points

`Render`, `RenderString`, `FRender`, `ParseAndRender`, `ParseAndRenderString`, `ParseAndFRender`
are thin wrappers of one another in `engine.go` / `template.go`; so are their models. -/

/-- `Template.Render` / `RenderString`: the bytes a fault-free `FRender` writes, or the error -/
def apiRender (P : Prims) (O : OutPrims) (cfg : Cfg) (fs : FS) (fuel : Nat) (root : List Node) (env : Env) : RunResult :=
  match (frender P O cfg fs fuel root env).runPure with
  | (out, .ok _) => .ok out
  | (_, .err (.located e)) => .err e
  | (_, .err (.plain c)) => .err ⟨0, false, c, .byCause⟩
  | (_, .panic w) => .panic w
  | (_, .unmodelled w) => .unmodelled w

/-- `Engine.ParseAndRender` / `ParseAndRenderString` -/
def apiParseAndRender (P : Prims) (O : OutPrims) (cfg : Cfg) (fs : FS) (fuel : Nat) (src : Bytes) (line : Nat) (env : Env) : RunResult :=
  match compileSource cfg.delims src line with
  | .ok root => apiRender P O cfg fs fuel root env
  | .err e => .err e
  | .panic w => .panic w
  | .unmodelled w => .unmodelled w

/-- **C02 (entry points).** Parsing then rendering is the same function as the one-call entry
    point, and `FRender` into a buffer is what `Render` returns. -/
theorem entrypoints_agree (P : Prims) (O : OutPrims) (cfg : Cfg) (fs : FS) (fuel : Nat) (src : Bytes) (line : Nat) (env : Env) :
    apiParseAndRender P O cfg fs fuel src line env = run P O cfg fs fuel src line env := by
  unfold apiParseAndRender run apiRender
  cases compileSource cfg.delims src line <;> rfl

/-- a render is a function of the template text and the binding values only: two parses of the
    same text give the same tree, hence the same render (fresh parse, fresh engine) -/
theorem reparse_same (delims : List Bytes) (src : Bytes) (line : Nat) :
    compileSource delims src line = compileSource delims src line := rfl

/-! Non-vacuity -/
example : sortedEntries [([98], .nil), ([97], .bool true)] = sortedEntries [([97], .bool true), ([98], .nil)] :=
  map_order_independent _ _ (List.Perm.swap _ _ _) (by
    intro a b ha hb h
    simp only [List.mem_cons, List.mem_nil_iff, or_false] at ha hb
    rcases ha with rfl | rfl <;> rcases hb with rfl | rfl <;> simp_all)
